package nodemap

import (
	"sort"

	"capnproto.org/go/capnp/v3"
)

// VerifC20Budgets is a /verif hook (overlay only, read-only): the remaining
// traversal budget of every distinct cached schema message, ordered by the
// smallest node id cached from it.
func (m *Map) VerifC20Budgets() []uint64 {
	first := map[*capnp.Message]uint64{}
	for id, n := range m.nodes {
		if !n.IsValid() {
			continue
		}
		msg := n.Struct.Segment().Message()
		if cur, ok := first[msg]; !ok || id < cur {
			first[msg] = id
		}
	}
	type ent struct {
		id  uint64
		msg *capnp.Message
	}
	var es []ent
	for msg, id := range first {
		es = append(es, ent{id, msg})
	}
	sort.Slice(es, func(i, j int) bool { return es[i].id < es[j].id })
	out := make([]uint64, len(es))
	for i, e := range es {
		out[i] = e.msg.VerifC20ReadLimit()
	}
	return out
}
