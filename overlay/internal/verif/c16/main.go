// C16 — deep copy yields an equal, independent tree with capabilities
// re-homed.
//
// Sources: every value of the shared universe ref.Universe(n) in the four
// whole-tree layouts of ref.Preset (default; far = every object in another
// segment through far / double-far pointers; skew = longer struct sections,
// garbage gaps and padding, children first; upgrade = primitive lists encoded
// as struct lists, same-segment far pointers), loaded into a real Message
// whose capability table holds two clients with recording hooks.
//
// Families (one case = one universe value, all layouts x destinations):
//
//	setroot    Message.SetRoot(src) of a fresh message in 4 arena kinds
//	           (SingleSegment, MultiSegment, TightArena exact, TightArena with
//	           16/24-byte segments) x EVERY remaining capacity of the first
//	           segment 0..size(src)+16 bytes
//	setptr     Struct.SetPtr and PointerList.Set into another message
//	           (TightArena exact / SingleSegment, every remaining capacity)
//	setstruct  List.SetStruct into composite-list elements and Struct.CopyFrom
//	           into structs whose data / pointer sections are one smaller,
//	           equal and one larger than the source's (pre-filled with 0xFF and
//	           non-null pointers); sources: the root struct, list members of
//	           composite, pointer and primitive lists
//	member     same-message copies of list members (SetPtr, PointerList.Set,
//	           List.SetStruct) in the loaded message and in a TightArena
//
// Oracle: the destination message passes ref.Validate; what the independent
// decoder reads equals (ref.ValueEqualCaps) the source value — for SetStruct /
// CopyFrom ref.Truncate(source, destination sizes), with exactly the
// destination's sizes; after scrambling the source through the API (every data
// byte inverted, every pointer nulled, a text allocated) the destination
// decodes unchanged, and vice versa; across messages every copied capability
// pointer indexes an entry of the destination's CapTable behind the entries
// that existed before, holding a client that IsSame as the source's; the
// recording hooks see Shutdown exactly once, and only after both messages
// released their entries (Message.Reset), in both release orders.
package main

import (
	"context"
	"errors"
	"fmt"
	"runtime/debug"

	capnp "capnproto.org/go/capnp/v3"
	"capnproto.org/go/capnp/v3/internal/verif/bfsbuild"
	"capnproto.org/go/capnp/v3/internal/verif/rcmp"
	"capnproto.org/go/capnp/v3/internal/verif/ref"
	"capnproto.org/go/capnp/v3/internal/verif/vlib"
)

// ---- recording capability hook ----

type hook struct {
	id  int
	log *[]int
}

var errHook = errors.New("c16 hook")

func (h *hook) Send(ctx context.Context, s capnp.Send) (*capnp.Answer, capnp.ReleaseFunc) {
	return capnp.ErrorAnswer(s.Method, errHook), func() {}
}
func (h *hook) Recv(ctx context.Context, r capnp.Recv) capnp.PipelineCaller {
	r.Reject(errHook)
	return nil
}
func (h *hook) Brand() capnp.Brand { return capnp.Brand{Value: h.id} }
func (h *hook) Shutdown()          { *h.log = append(*h.log, h.id) }

func count(log []int, id int) int {
	n := 0
	for _, x := range log {
		if x == id {
			n++
		}
	}
	return n
}

// ---- source ----

type source struct {
	msg    *capnp.Message
	root   capnp.Ptr
	layout ref.Layout
	name   string
	log    *[]int
}

func loadSource(l ref.Layout, name string) (*source, error) {
	s := &source{msg: rcmp.Load(l.Segments), layout: l, name: name, log: new([]int)}
	s.msg.CapTable = []*capnp.Client{capnp.NewClient(&hook{0, s.log}), capnp.NewClient(&hook{1, s.log})}
	root, err := s.msg.Root()
	s.root = root
	return s, err
}

func segsOf(m *capnp.Message) ([][]byte, error) {
	n := m.NumSegments()
	out := make([][]byte, n)
	for i := int64(0); i < n; i++ {
		s, err := m.Segment(capnp.SegmentID(i))
		if err != nil {
			return nil, err
		}
		out[i] = s.Data()
	}
	return out, nil
}

func decodeMsg(m *capnp.Message) (ref.Value, [][]byte, error) {
	segs, err := segsOf(m)
	if err != nil {
		return ref.Value{}, nil, err
	}
	v, err := ref.Decode(segs)
	return v, segs, err
}

// ---- destination arenas ----

var arenaNames = []string{"single", "multi", "tight-exact", "tight-16-24"}

// dstArena returns an arena whose first segment has room for the root pointer
// plus k bytes.
func dstArena(kind, k int) capnp.Arena {
	switch kind {
	case 0:
		return capnp.SingleSegment(bfsbuild.Filled(8 + k))
	case 1:
		return capnp.MultiSegment([][]byte{bfsbuild.Filled(8 + k&^7)})
	case 2:
		return &bfsbuild.TightArena{Seq: []int{8 + k&^7}, Tail: "exact"}
	}
	return &bfsbuild.TightArena{Seq: []int{8 + k&^7, 16, 24, 16, 24, 16, 24, 16, 24}, Tail: "exact"}
}

// ---- scrambling a tree through the API ----

// scramble inverts every data byte / bit and nulls every pointer of the tree
// p denotes (children first), guided by the kinds in shape.  It reports
// whether anything was there to change.
func scramble(p capnp.Ptr, shape ref.Value) bool {
	switch shape.Kind {
	case ref.KindStruct:
		return scrambleStruct(p.Struct(), shape)
	case ref.KindList:
		l := p.List()
		n := l.Len()
		for i := 0; i < n; i++ {
			switch shape.Elem {
			case ref.ElemBit:
				bl := capnp.BitList{List: l}
				bl.Set(i, !bl.At(i))
			case ref.ElemByte1:
				x := capnp.UInt8List{List: l}
				x.Set(i, ^x.At(i))
			case ref.ElemByte2:
				x := capnp.UInt16List{List: l}
				x.Set(i, ^x.At(i))
			case ref.ElemByte4:
				x := capnp.UInt32List{List: l}
				x.Set(i, ^x.At(i))
			case ref.ElemByte8:
				x := capnp.UInt64List{List: l}
				x.Set(i, ^x.At(i))
			case ref.ElemPtr:
				pl := capnp.PointerList{List: l}
				q, err := pl.At(i)
				if err == nil && i < len(shape.Elems) {
					scramble(q, shape.Elems[i])
				}
				if err := pl.Set(i, capnp.Ptr{}); err != nil {
					panic(err)
				}
			case ref.ElemComposite:
				scrambleStruct(l.Struct(i), shape.ElemAt(i))
			}
		}
		return n > 0 && shape.Elem != ref.ElemVoid && !(shape.Elem == ref.ElemComposite && shape.DW+shape.PC == 0)
	}
	return false
}

func scrambleStruct(s capnp.Struct, shape ref.Value) bool {
	sz := s.Size()
	for off := 0; off < int(sz.DataSize); off++ {
		s.SetUint8(capnp.DataOffset(off), ^s.Uint8(capnp.DataOffset(off)))
	}
	for i := 0; i < int(sz.PointerCount); i++ {
		q, err := s.Ptr(uint16(i))
		if err == nil && i < len(shape.Ptrs) {
			scramble(q, shape.Ptrs[i])
		}
		if err := s.SetPtr(uint16(i), capnp.Ptr{}); err != nil {
			panic(err)
		}
	}
	if sz.PointerCount > 0 {
		// an allocation on this side must not touch the other side either
		if err := s.SetText(0, "scrambled!"); err != nil {
			panic(err)
		}
	}
	return sz.DataSize > 0 || sz.PointerCount > 0
}

// ---- comparison ----

// sameShape is exact tree identity except that capabilities are compared by
// capEq.
func sameShape(a, b ref.Value, capEq func(i, j uint32) bool) bool {
	if a.Kind != b.Kind {
		return false
	}
	switch a.Kind {
	case ref.KindCap:
		return capEq(a.Cap, b.Cap)
	case ref.KindStruct:
		if string(a.Data) != string(b.Data) || len(a.Ptrs) != len(b.Ptrs) {
			return false
		}
		for i := range a.Ptrs {
			if !sameShape(a.Ptrs[i], b.Ptrs[i], capEq) {
				return false
			}
		}
	case ref.KindList:
		if a.Elem != b.Elem || a.N != b.N || a.DW != b.DW || a.PC != b.PC || string(a.Raw) != string(b.Raw) || len(a.Elems) != len(b.Elems) {
			return false
		}
		for i := range a.Elems {
			if !sameShape(a.Elems[i], b.Elems[i], capEq) {
				return false
			}
		}
	}
	return true
}

// run is one copy experiment.
type run struct {
	r    *vlib.Rec
	mode string
	ctx  func() string
}

func (x *run) fail(key, format string, a ...interface{}) {
	if len(key) < 5 || key[:5] != "caps/" {
		// capability findings do not depend on the copying entry point
		key = x.mode + "/" + key
	}
	x.r.Fail(key, fmt.Sprintf(format, a...)+x.ctx())
}

// guard turns a panic of the library during one experiment into a violation
// that carries the experiment's description.
func (x *run) guard() {
	if p := recover(); p != nil {
		st := debug.Stack()
		if len(st) > 2500 {
			st = st[:2500]
		}
		ctx := ""
		if x.ctx != nil {
			ctx = x.ctx()
		}
		x.r.Fail(vlib.PanicKey(p, st), fmt.Sprintf("panic during %s: %v%s\n%s", x.mode, p, ctx, st))
	}
}

// checkCopy validates the destination message and compares its root with
// want (capabilities of want carry SOURCE indices when cross is set).  It
// returns the decoded destination root.
func (x *run) checkCopy(dst *capnp.Message, want ref.Value, src *source, cross bool, base int) (ref.Value, bool) {
	segs, err := segsOf(dst)
	if err != nil {
		x.fail("segment-error", "%v", err)
		return ref.Value{}, false
	}
	rep, err := ref.Validate(segs)
	if err != nil {
		x.fail("validate/"+ref.ErrClass(err), "destination is not a valid message: %v\n dst %s", err, ref.HexSegments(segs))
		return ref.Value{}, false
	}
	got := rep.Root
	far, dfar := false, false
	for _, e := range rep.Extents {
		if e.Kind == "pad" {
			if e.End-e.Start == 2 {
				dfar = true
			} else {
				far = true
			}
		}
	}
	switch {
	case far && dfar:
		x.r.Outcome("dst/far+double-far")
	case dfar:
		x.r.Outcome("dst/double-far")
	case far:
		x.r.Outcome("dst/far")
	}
	strict := func(i, j uint32) bool {
		if !cross {
			return i == j
		}
		if int(j) < base || int(j) >= len(dst.CapTable) || int(i) >= len(src.msg.CapTable) {
			return false
		}
		c := dst.CapTable[j]
		return c != nil && c.IsSame(src.msg.CapTable[i])
	}
	verdict := ref.ValueEqualCaps(want, got, func(i, j uint32) ref.Verdict {
		if strict(i, j) {
			return ref.VEqual
		}
		return ref.VNotEqual
	})
	switch verdict {
	case ref.VUnspecified:
		x.r.Outcome("compare/unspecified")
	case ref.VNotEqual:
		lenient := ref.ValueEqualCaps(want, got, func(i, j uint32) ref.Verdict { return ref.VEqual })
		if lenient == ref.VEqual {
			x.fail("caps/not-rehomed", "a copied capability pointer does not index a new CapTable entry holding the source's client (destination table has %d entries, %d existed before)\n want %s\n got  %s\n dst %s", len(dst.CapTable), base, want, got, ref.HexSegments(segs))
		} else {
			x.fail("value-differs", "destination decodes to a different value\n want %s\n got  %s\n dst %s", want, got, ref.HexSegments(segs))
		}
		return got, false
	default:
		if sameShape(want, got, strict) {
			x.r.Outcome("copy/identical")
		} else {
			x.r.Outcome("copy/equal-but-reshaped")
		}
	}
	return got, true
}

// independence scrambles the source side, checks the destination decodes
// unchanged, then scrambles the destination side and checks the source side.
// srcPtr/dstPtr are the two sides (same or different messages), srcShape /
// dstShape their decoded values; srcMsg/dstMsg are decoded as a whole.
func (x *run) independence(srcMsg, dstMsg *capnp.Message, srcPtr capnp.Ptr, srcShape ref.Value, dstPtr func() (capnp.Ptr, error), dstShape ref.Value, watchDst func(ref.Value) ref.Value, watchSrc func(ref.Value) ref.Value) {
	before, _, err := decodeMsg(dstMsg)
	if err != nil {
		x.fail("harness/decode", "%v", err)
		return
	}
	changed := scramble(srcPtr, srcShape)
	after, segs, err := decodeMsg(dstMsg)
	if err != nil {
		x.fail("independence/dst-invalid-after-src-mutation", "%v\n %s", err, ref.HexSegments(segs))
		return
	}
	if !ref.Identical(watchDst(before), watchDst(after)) {
		x.fail("independence/dst-follows-src", "after mutating the source the copy reads differently\n before %s\n after  %s", watchDst(before), watchDst(after))
		return
	}
	if changed {
		x.r.Outcome("mutation/src-changed")
	} else {
		x.r.Outcome("mutation/src-has-no-content")
	}
	sBefore, _, err := decodeMsg(srcMsg)
	if err != nil {
		x.fail("harness/decode-src", "%v", err)
		return
	}
	dp, err := dstPtr()
	if err != nil {
		x.fail("dst-read-error", "%v", err)
		return
	}
	scramble(dp, dstShape)
	sAfter, segs, err := decodeMsg(srcMsg)
	if err != nil {
		x.fail("independence/src-invalid-after-dst-mutation", "%v\n %s", err, ref.HexSegments(segs))
		return
	}
	if !ref.Identical(watchSrc(sBefore), watchSrc(sAfter)) {
		x.fail("independence/src-follows-dst", "after mutating the copy the source reads differently\n before %s\n after  %s", watchSrc(sBefore), watchSrc(sAfter))
	}
}

func ident(v ref.Value) ref.Value { return v }

// lifecycle releases both messages and checks the Shutdown log.
func (x *run) lifecycle(src *source, dst *capnp.Message, base int, dummyID int, srcFirst bool) {
	inDst := [2]bool{}
	for i := 0; i < 2; i++ {
		for j := base; j < len(dst.CapTable); j++ {
			if c := dst.CapTable[j]; c != nil && c.IsSame(src.msg.CapTable[i]) {
				inDst[i] = true
			}
		}
	}
	log := src.log
	if len(*log) != 0 {
		x.fail("caps/shutdown-before-release", "Shutdown of hooks %v before any message released its table", *log)
		return
	}
	if srcFirst {
		src.msg.Reset(nil)
		for i := 0; i < 2; i++ {
			want := 1
			if inDst[i] {
				want = 0
			}
			if n := count(*log, i); n != want {
				x.fail("caps/shutdown-count-after-source-release", "capability %d (held by the destination table: %v): %d Shutdown calls after the source message released its table, want %d", i, inDst[i], n, want)
				return
			}
		}
		dst.Reset(nil)
	} else {
		dst.Reset(nil)
		for i := 0; i < 2; i++ {
			if n := count(*log, i); n != 0 {
				x.fail("caps/shutdown-while-source-holds", "capability %d: %d Shutdown calls after only the destination released its table", i, n)
				return
			}
		}
		src.msg.Reset(nil)
	}
	for _, id := range []int{0, 1, dummyID} {
		if n := count(*log, id); n != 1 {
			x.fail("caps/shutdown-not-exactly-once", "hook %d: %d Shutdown calls after both messages released their tables (log %v)", id, n, *log)
			return
		}
	}
	if inDst[0] || inDst[1] {
		x.r.Outcome("caps/rehomed+released")
	}
}

const dummyHook = 9

// newDst creates a destination message with one pre-existing table entry.
func newDst(arena capnp.Arena, log *[]int) (*capnp.Message, *capnp.Segment, error) {
	m, seg, err := capnp.NewMessage(arena)
	if err != nil {
		return nil, nil, err
	}
	m.AddCap(capnp.NewClient(&hook{dummyHook, log}))
	return m, seg, nil
}

func contentBytes(l ref.Layout) int {
	n := 0
	for _, s := range l.Segments {
		n += len(s)
	}
	return n - 8
}

func layoutsOf(v ref.Value) []ref.Layout {
	var out []ref.Layout
	seen := map[string]bool{}
	for _, name := range ref.Presets {
		l := ref.Preset(v, name)
		k := ref.HexSegments(l.Segments)
		if seen[k] {
			continue
		}
		seen[k] = true
		l.Devs = append([]string{name}, l.Devs...)
		out = append(out, l)
	}
	return out
}

// ---- family setroot / setptr ----

func crossCase(u []ref.Value, mode string) func(i int64, r *vlib.Rec) {
	return func(ci int64, r *vlib.Rec) {
		v := u[ci]
		r.NonTrivial()
		flip := ci%2 == 0
		ls := layoutsOf(v)
		if mode == "setroot-layouts" {
			// every layout within one deviation of the default one (two for
			// single objects) instead of the four whole-tree presets
			bound := 1
			if v.Objects() <= 1 {
				bound = 2
			}
			ls = ref.Layouts(v, bound)
			for i := range ls {
				ls[i].Devs = append([]string{ls[i].Desc()}, ls[i].Devs...)
			}
			r.Note("layouts", int64(len(ls)))
		}
		for _, l := range ls {
			size := contentBytes(l)
			kinds := []int{0, 1, 2, 3}
			switch mode {
			case "setptr":
				kinds = []int{0, 2}
			case "setroot-layouts":
				kinds = []int{0, 2, 3}
			}
			for _, kind := range kinds {
				step := 8
				if kind == 0 {
					step = 4
				}
				for k := 0; k <= size+16; k += step {
					if mode == "setroot-layouts" && k != 0 && k != 8 && k != (size/2)&^7 && k != size && k != size+16 {
						continue
					}
					for variant := 0; variant < 2; variant++ {
						if mode != "setptr" && variant == 1 {
							continue
						}
						func() {
							flip = !flip
							src, err := loadSource(l, l.Devs[0])
							x := &run{r: r, mode: mode}
							defer x.guard()
							x.ctx = func() string {
								s := fmt.Sprintf("\n value  %s\n layout %s: %s\n destination arena %s, %d bytes free behind the root pointer", v, l.Devs[0], ref.HexSegments(l.Segments), arenaNames[kind], k)
								if mode == "setptr" {
									s += fmt.Sprintf(", variant %s", [...]string{"Struct.SetPtr", "PointerList.Set"}[variant])
								}
								return s
							}
							if err != nil {
								x.fail("harness/source-root", "%v", err)
								return
							}
							dst, seg, err := newDst(dstArena(kind, k), src.log)
							if err != nil {
								x.fail("harness/new-message", "%v", err)
								return
							}
							base := len(dst.CapTable)
							want := l.Decoded
							var dstPtr func() (capnp.Ptr, error)
							watch := ident
							switch {
							case mode != "setptr":
								err = dst.SetRoot(src.root)
								dstPtr = dst.Root
							case variant == 0:
								var st capnp.Struct
								st, err = capnp.NewRootStruct(seg, capnp.ObjectSize{DataSize: 8, PointerCount: 2})
								if err == nil {
									st.SetUint64(0, 0x0123456789ABCDEF)
									err = st.SetPtr(1, src.root)
								}
								want = ref.StructV([]byte{0xEF, 0xCD, 0xAB, 0x89, 0x67, 0x45, 0x23, 0x01}, ref.NullV(), l.Decoded)
								dstPtr = func() (capnp.Ptr, error) { return st.Ptr(1) }
								watch = func(t ref.Value) ref.Value { return t.Ptrs[1] }
							default:
								var pl capnp.PointerList
								pl, err = capnp.NewPointerList(seg, 2)
								if err == nil {
									err = dst.SetRoot(pl.ToPtr())
								}
								if err == nil {
									err = pl.Set(1, src.root)
								}
								want = ref.PtrListV(ref.NullV(), l.Decoded)
								dstPtr = func() (capnp.Ptr, error) { return pl.At(1) }
								watch = func(t ref.Value) ref.Value { return t.Elems[1] }
							}
							if err != nil {
								x.fail("copy-error", "the copy returns error %q", err)
								return
							}
							got, ok := x.checkCopy(dst, want, src, true, base)
							if !ok {
								return
							}
							if n := dst.NumSegments(); n > 1 {
								r.Outcome("dst/multi-segment")
							} else {
								r.Outcome("dst/single-segment")
							}
							x.independence(src.msg, dst, src.root, l.Decoded, dstPtr, watch(got), ident, ident)
							x.lifecycle(src, dst, base, dummyHook, flip)
						}()
					}
				}
			}
		}
	}
}

// ---- struct-like sources inside a value ----

type structSrc struct {
	desc string
	val  ref.Value // struct value (data may be sub-word for primitive list members)
	get  func(root capnp.Ptr) capnp.Struct
}

func elemValue(l ref.Value, i int) (ref.Value, bool) {
	switch l.Elem {
	case ref.ElemBit:
		return ref.Value{}, false
	case ref.ElemVoid:
		return ref.Value{Kind: ref.KindStruct}, true
	case ref.ElemPtr:
		return ref.Value{Kind: ref.KindStruct, Ptrs: []ref.Value{l.Elems[i]}}, true
	case ref.ElemComposite:
		return l.ElemAt(i), true
	}
	sz := l.Elem.ByteSize()
	return ref.Value{Kind: ref.KindStruct, Data: l.Raw[i*sz : (i+1)*sz]}, true
}

func structSources(dec ref.Value) []structSrc {
	var out []structSrc
	switch dec.Kind {
	case ref.KindStruct:
		out = append(out, structSrc{"the root struct", dec, func(p capnp.Ptr) capnp.Struct { return p.Struct() }})
	case ref.KindList:
		idx := []int{}
		if dec.N > 0 {
			idx = append(idx, 0)
		}
		if dec.N > 1 {
			idx = append(idx, dec.N-1)
		}
		for _, i := range idx {
			i := i
			if ev, ok := elemValue(dec, i); ok {
				out = append(out, structSrc{fmt.Sprintf("member %d of the root list", i), ev, func(p capnp.Ptr) capnp.Struct { return p.List().Struct(i) }})
			}
		}
	}
	return out
}

func around(n int) []int {
	if n == 0 {
		return []int{0, 1}
	}
	return []int{n - 1, n, n + 1}
}

func ones(n int) []byte {
	b := make([]byte, n)
	for i := range b {
		b[i] = 0xFF
	}
	return b
}

var oldText = ref.BytesListV(ref.ElemByte1, []byte("old\x00"))

// ---- family setstruct ----

var structVariants = []string{"setstruct", "copyfrom", "setptr-of-struct", "setstruct-into-u8", "setstruct-into-u32", "setstruct-into-ptr", "setstruct-into-void"}

// primitiveDst builds a 2-element primitive / pointer list as root of dst,
// pre-fills it, and copies src into member 1 with List.SetStruct.  The member
// is a struct whose data section is the element (1 or 4 bytes) or whose only
// pointer is the element; the documented copy rule cuts the source to that.
// The returned tree is written as the struct view of the members (want is a
// pointer list of the two member views so that one watch function serves).
func primitiveDst(dst *capnp.Message, seg *capnp.Segment, variant int, src capnp.Struct, sv ref.Value) (want ref.Value, dstPtr func() (capnp.Ptr, error), watch func(ref.Value) ref.Value, err error) {
	var l capnp.List
	first := func(n int) []byte {
		b := make([]byte, n)
		copy(b, sv.Data)
		return b
	}
	switch variant {
	case 3:
		var x capnp.UInt8List
		x, err = capnp.NewUInt8List(seg, 2)
		if err == nil {
			x.Set(0, 0xFF)
			x.Set(1, 0xFF)
		}
		l = x.List
		want = ref.BytesListV(ref.ElemByte1, append([]byte{0xFF}, first(1)...))
	case 4:
		var x capnp.UInt32List
		x, err = capnp.NewUInt32List(seg, 2)
		if err == nil {
			x.Set(0, 0xFFFFFFFF)
			x.Set(1, 0xFFFFFFFF)
		}
		l = x.List
		want = ref.BytesListV(ref.ElemByte4, append([]byte{0xFF, 0xFF, 0xFF, 0xFF}, first(4)...))
	case 5:
		var x capnp.TextList
		x, err = capnp.NewTextList(seg, 2)
		if err == nil {
			err = x.Set(0, "old")
		}
		if err == nil {
			err = x.Set(1, "old")
		}
		l = x.List
		e := ref.NullV()
		if len(sv.Ptrs) > 0 {
			e = sv.Ptrs[0]
		}
		want = ref.PtrListV(oldText, e)
	default:
		l = capnp.NewVoidList(seg, 2).List
		want = ref.VoidListV(2)
	}
	if err == nil {
		err = dst.SetRoot(l.ToPtr())
	}
	if err == nil {
		err = l.SetStruct(1, src)
	}
	dstPtr = func() (capnp.Ptr, error) { return l.Struct(1).ToPtr(), nil }
	watch = func(t ref.Value) ref.Value {
		ev, _ := elemValue(t, 1)
		return ev
	}
	return
}

func structCase(u []ref.Value) func(i int64, r *vlib.Rec) {
	return func(ci int64, r *vlib.Rec) {
		v := u[ci]
		flip := ci%2 == 0
		nontrivial := false
		for _, l := range layoutsOf(v) {
			for si, ss := range structSources(l.Decoded) {
				nontrivial = true
				dwS, pcS := (len(ss.val.Data)+7)/8, len(ss.val.Ptrs)
				for _, dw := range around(dwS) {
					for _, pc := range around(pcS) {
						for ak := 0; ak < 3; ak++ {
							for variant := 0; variant < len(structVariants); variant++ {
								if variant >= 2 && (dw != dwS || pc != pcS) {
									continue // these destinations have a size of their own
								}
								func() {
									flip = !flip
									src, err := loadSource(l, l.Devs[0])
									x := &run{r: r, mode: structVariants[variant]}
									defer x.guard()
									x.ctx = func() string {
										return fmt.Sprintf("\n value  %s\n layout %s: %s\n source %s = %s\n destination %d data words / %d pointers, arena %s", v, l.Devs[0], ref.HexSegments(l.Segments), ss.desc, ss.val, dw, pc, [...]string{"single-nil", "tight-exact", "tight-roomy"}[ak])
									}
									if err != nil {
										x.fail("harness/source-root", "%v", err)
										return
									}
									var arena capnp.Arena
									switch ak {
									case 0:
										arena = capnp.SingleSegment(nil)
									case 1:
										arena = &bfsbuild.TightArena{Tail: "exact"}
									default:
										arena = &bfsbuild.TightArena{Seq: []int{16}, Tail: "roomy"}
									}
									dst, seg, err := newDst(arena, src.log)
									if err != nil {
										x.fail("harness/new-message", "%v", err)
										return
									}
									base := len(dst.CapTable)
									sz := capnp.ObjectSize{DataSize: capnp.Size(8 * dw), PointerCount: uint16(pc)}
									prefill := func(st capnp.Struct) error {
										for off := 0; off < 8*dw; off += 8 {
											st.SetUint64(capnp.DataOffset(off), ^uint64(0))
										}
										for p := 0; p < pc; p++ {
											if err := st.SetText(uint16(p), "old"); err != nil {
												return err
											}
										}
										return nil
									}
									filledElem := ref.Value{Kind: ref.KindStruct, Data: ones(8 * dw), Ptrs: make([]ref.Value, pc)}
									for p := range filledElem.Ptrs {
										filledElem.Ptrs[p] = oldText
									}
									trunc := ref.Truncate(ss.val, dw, pc)
									var want ref.Value
									var dstPtr func() (capnp.Ptr, error)
									var watch func(ref.Value) ref.Value
									srcStruct := ss.get(src.root)
									if variant >= 3 {
										// SetStruct into a member of a primitive / pointer list:
										// the member is a struct with a sub-word data section or
										// one pointer
										want, dstPtr, watch, err = primitiveDst(dst, seg, variant, srcStruct, ss.val)
										trunc = watch(want)
									} else if variant == 2 {
										var st capnp.Struct
										st, err = capnp.NewRootStruct(seg, capnp.ObjectSize{PointerCount: 1})
										if err == nil {
											err = st.SetPtr(0, srcStruct.ToPtr())
										}
										trunc = ref.Truncate(ss.val, dwS, pcS)
										want = ref.StructV(nil, trunc)
										dstPtr = func() (capnp.Ptr, error) { return st.Ptr(0) }
										watch = func(t ref.Value) ref.Value { return t.Ptrs[0] }
									} else if variant == 0 {
										var cl capnp.List
										cl, err = capnp.NewCompositeList(seg, sz, 2)
										if err == nil {
											err = dst.SetRoot(cl.ToPtr())
										}
										for e := 0; e < 2 && err == nil; e++ {
											err = prefill(cl.Struct(e))
										}
										if err == nil {
											err = cl.SetStruct(1, srcStruct)
										}
										if dw+pc == 0 {
											want = ref.CompositeEmptyV(2)
										} else {
											want = ref.CompositeV(dw, pc, filledElem, trunc)
										}
										dstPtr = func() (capnp.Ptr, error) { return cl.Struct(1).ToPtr(), nil }
										watch = func(t ref.Value) ref.Value { return t.ElemAt(1) }
									} else {
										var st capnp.Struct
										st, err = capnp.NewRootStruct(seg, sz)
										if err == nil {
											err = prefill(st)
										}
										if err == nil {
											err = st.CopyFrom(srcStruct)
										}
										want = trunc
										dstPtr = func() (capnp.Ptr, error) { return st.ToPtr(), nil }
										watch = ident
									}
									if err != nil {
										x.fail("copy-error", "the copy returns error %q", err)
										return
									}
									r.Outcome(fmt.Sprintf("sizes/data%+d/ptrs%+d", dw-dwS, pc-pcS))
									got, ok := x.checkCopy(dst, want, src, true, base)
									if !ok {
										return
									}
									// exact sizes and exact top-level data
									if g := watch(got); len(g.Data) != len(trunc.Data) || len(g.Ptrs) != len(trunc.Ptrs) || string(g.Data) != string(trunc.Data) {
										x.fail("value-differs", "destination struct is %s, want %s", g, trunc)
										return
									}
									srcShape := ss.val
									x.independence(src.msg, dst, srcStruct.ToPtr(), srcShape, dstPtr, watch(got), watch, ident)
									x.lifecycle(src, dst, base, dummyHook, flip)
									_ = si
								}()
							}
						}
					}
				}
			}
		}
		if nontrivial {
			r.NonTrivial()
		} else {
			r.Outcome("setstruct/no-struct-source")
		}
	}
}

// ---- family member: same-message copies of list members ----

func memberCase(u []ref.Value) func(i int64, r *vlib.Rec) {
	return func(ci int64, r *vlib.Rec) {
		v := u[ci]
		if v.Kind != ref.KindList || v.N == 0 || v.Elem == ref.ElemBit {
			r.Outcome("member/not-a-list-with-members")
			return
		}
		r.NonTrivial()
		wrap := ref.StructV(nil, v, ref.NullV(), ref.NullV())
		for _, name := range ref.Presets {
			l := ref.PresetFrom(wrap, name, 1)
			dec := l.Decoded.Ptrs[0]
			idx := []int{0}
			if dec.N > 1 {
				idx = append(idx, dec.N-1)
			}
			for _, home := range []string{"loaded", "tight-exact", "tight-roomy"} {
				for _, i := range idx {
					for variant := 0; variant < 3; variant++ {
						ev, _ := elemValue(dec, i)
						j := (i + 1) % dec.N
						if variant == 2 && (dec.Elem != ref.ElemComposite || dec.N < 2 || dec.Elems == nil) {
							continue
						}
						func() {
							x := &run{r: r, mode: "member/" + [...]string{"setptr", "pointerlist-set", "setstruct"}[variant]}
							defer x.guard()
							x.ctx = func() string {
								return fmt.Sprintf("\n list   %s (member %d)\n layout %s of %s: %s\n message %s", dec, i, name, wrap, ref.HexSegments(l.Segments), home)
							}
							src, err := loadSource(l, name)
							if err != nil {
								x.fail("harness/source-root", "%v", err)
								return
							}
							msg := src.msg
							root := src.root.Struct()
							if home != "loaded" {
								// re-home the list into a fresh builder message first
								var arena capnp.Arena = &bfsbuild.TightArena{Tail: "exact"}
								if home == "tight-roomy" {
									arena = &bfsbuild.TightArena{Seq: []int{8}, Tail: "roomy"}
								}
								m2, seg, err := capnp.NewMessage(arena)
								if err != nil {
									x.fail("harness/new-message", "%v", err)
									return
								}
								r2, err := capnp.NewRootStruct(seg, capnp.ObjectSize{PointerCount: 3})
								if err == nil {
									var lp capnp.Ptr
									lp, err = root.Ptr(0)
									if err == nil {
										err = r2.SetPtr(0, lp)
									}
								}
								if err != nil {
									x.fail("harness/rehome", "%v", err)
									return
								}
								msg, root = m2, r2
								d2, _, err := decodeMsg(m2)
								if err != nil || d2.Kind != ref.KindStruct || len(d2.Ptrs) != 3 {
									x.fail("harness/rehome-decode", "%v %s", err, d2)
									return
								}
								// capability indices were re-numbered by the copy; read the list as it is now
								dec2 := d2.Ptrs[0]
								if ref.ValueEqualCaps(dec, dec2, func(a, b uint32) ref.Verdict { return ref.VEqual }) != ref.VEqual {
									x.fail("harness/rehome-differs", "%s vs %s", dec, dec2)
									return
								}
								ev, _ = elemValueOf(dec2, i)
								x.memberRun(msg, root, dec2, ev, i, j, variant)
								return
							}
							x.memberRun(msg, root, dec, ev, i, j, variant)
						}()
					}
				}
			}
		}
	}
}

func elemValueOf(l ref.Value, i int) (ref.Value, bool) { return elemValue(l, i) }

// memberRun copies member i of the list in root pointer 0 inside msg.
func (x *run) memberRun(msg *capnp.Message, root capnp.Struct, dec, ev ref.Value, i, j, variant int) {
	lp, err := root.Ptr(0)
	if err != nil {
		x.fail("harness/list-read", "%v", err)
		return
	}
	list := lp.List()
	member := list.Struct(i)
	// the copy of a member is a stand-alone struct: whole data words
	copyVal := ref.Truncate(ev, (len(ev.Data)+7)/8, len(ev.Ptrs))
	wantRoot := ref.Value{Kind: ref.KindStruct, Ptrs: []ref.Value{dec, ref.NullV(), ref.NullV()}}
	var dstPtr func() (capnp.Ptr, error)
	var watchDst, watchSrc func(ref.Value) ref.Value
	switch variant {
	case 0:
		err = root.SetPtr(1, member.ToPtr())
		wantRoot.Ptrs[1] = copyVal
		dstPtr = func() (capnp.Ptr, error) { return root.Ptr(1) }
		watchDst = func(t ref.Value) ref.Value { return t.Ptrs[1] }
		watchSrc = func(t ref.Value) ref.Value { return t.Ptrs[0] }
	case 1:
		var pl capnp.PointerList
		pl, err = capnp.NewPointerList(root.Segment(), 2)
		if err == nil {
			err = root.SetPtr(2, pl.ToPtr())
		}
		if err == nil {
			err = pl.Set(1, member.ToPtr())
		}
		wantRoot.Ptrs[2] = ref.PtrListV(ref.NullV(), copyVal)
		dstPtr = func() (capnp.Ptr, error) { return pl.At(1) }
		watchDst = func(t ref.Value) ref.Value { return t.Ptrs[2].Elems[1] }
		watchSrc = func(t ref.Value) ref.Value { return t.Ptrs[0] }
	default:
		err = list.SetStruct(j, member)
		nl := dec.Clone()
		nl.Elems[j] = ref.Truncate(ev, dec.DW, dec.PC)
		wantRoot.Ptrs[0] = nl
		dstPtr = func() (capnp.Ptr, error) { return list.Struct(j).ToPtr(), nil }
		watchDst = func(t ref.Value) ref.Value { return t.Ptrs[0].ElemAt(j) }
		// the rest of the list, without the destination member
		watchSrc = func(t ref.Value) ref.Value {
			c := t.Ptrs[0].Clone()
			c.Elems[j] = ref.Value{Kind: ref.KindStruct, Data: make([]byte, 8*c.DW), Ptrs: make([]ref.Value, c.PC)}
			return c
		}
	}
	if err != nil {
		x.fail("copy-error", "the copy returns error %q", err)
		return
	}
	got, ok := x.checkCopy(msg, wantRoot, nil, false, 0)
	if !ok {
		return
	}
	if g := watchDst(got); len(g.Data) != len(watchDst(wantRoot).Data) || len(g.Ptrs) != len(watchDst(wantRoot).Ptrs) {
		x.fail("value-differs", "the copy is %s, want the sizes of %s", g, watchDst(wantRoot))
		return
	}
	x.independence(msg, msg, member.ToPtr(), ev, dstPtr, watchDst(got), watchDst, watchSrc)
}

func main() {
	cache := map[string][]ref.Value{}
	universe := func(tier string) []ref.Value {
		if u, ok := cache[tier]; ok {
			return u
		}
		n := 3
		if tier == "thorough" {
			n = 5
		}
		cache[tier] = ref.Universe(n)
		return cache[tier]
	}
	desc := func(u []ref.Value) func(i int64) interface{} {
		return func(i int64) interface{} { return u[i].String() }
	}
	vlib.Main(vlib.Spec{
		ID:    "C16",
		Level: "exploration",
		Rule: "One case = one value of ref.Universe(n) (n=3 quick, 5 thorough; all kinds of structs, lists, nested trees, capability pointers) in all four ref.Preset layouts x every destination of its family (see the file comment: arena kinds x every remaining first-segment capacity 0..size+16, destination struct sizes -1/0/+1 in both sections, list members first/last). " +
			"A case is non-trivial when at least one copy was made (setstruct/member: the value has a struct-like source / is a non-empty non-bit list).",
		Assumptions: []string{
			"documented copy rule (Struct.CopyFrom, List.SetStruct, property text): sections cut or zero/null-extended to the destination's size, kept pointers deep-copied; pointer assignment (SetRoot, SetPtr, PointerList.Set) across messages or of a list member copies with the source's sizes (a member of a primitive list becomes a struct with one data word)",
			"equality is ref.ValueEqualCaps (the documented Equal rules) on what ref.Decode reads from the destination's segments; a copy that is equal but laid out with other section sizes is recorded as outcome copy/equal-but-reshaped, not as a violation",
			"capability identity = Client.IsSame; 'new entry' = index behind the entries the destination table had before the copy",
			"source messages are ref.Preset layouts loaded with rcmp.Load (cap == len per segment); capability tables are filled by the harness",
		},
		SelfTest: ref.SelfTest,
		Families: func(tier string) []vlib.Family {
			u := universe(tier)
			n := int64(len(u))
			return []vlib.Family{
				{Name: "setroot", N: n, Run: crossCase(u, "setroot"), Describe: desc(u)},
				{Name: "setroot-layouts", N: n, Run: crossCase(u, "setroot-layouts"), Describe: desc(u)},
				{Name: "setptr", N: n, Run: crossCase(u, "setptr"), Describe: desc(u)},
				{Name: "setstruct", N: n, Run: structCase(u), Describe: desc(u)},
				{Name: "member", N: n, Run: memberCase(u), Describe: desc(u)},
			}
		},
		Extra: func(tier string) map[string]interface{} {
			return map[string]interface{}{"universe_size": len(universe(tier))}
		},
	})
}
