// C09 — transport faults, cancellation and Close always terminate cleanly.
//
// Part (a), this harness: engine E2 on the real rpc.Conn over rpcsim's
// transport with every NewMessage / send / RecvMessage a fault choice point.
// For each base scenario every placement of up to D faults (error on
// NewMessage, error on send, receive error, EOF), combined with context
// cancellation and Close injected at every scheduling point by one-shot
// threads, and Close called twice.  Part (b), torn writes on the real stream
// transport, is the sibling harness c09b (same property id), run by the same
// check command.
package main

import (
	"fmt"
	"strings"
	"time"

	capnp "capnproto.org/go/capnp/v3"
	"capnproto.org/go/capnp/v3/internal/verif/c09torn"
	"capnproto.org/go/capnp/v3/internal/verif/rpcsim"
	"capnproto.org/go/capnp/v3/internal/verif/vlib"
	"capnproto.org/go/capnp/v3/internal/vsched"
	context "capnproto.org/go/capnp/v3/internal/vsched/vctx"
	rpccp "capnproto.org/go/capnp/v3/std/capnp/rpc"
)

type scenario struct {
	name    string
	boot    bool // Conn has a bootstrap capability
	peer    func(x *exec)
	app     func(x *exec) // runs on the main thread before the closing sequence
	closer  bool          // a one-shot thread calls Close concurrently
	cancel  bool          // a one-shot thread cancels the application's call context
	appSide bool
}

type exec struct {
	s        *rpcsim.Sim
	p        *rpcsim.Peer
	giveUp   bool
	ctx      context.Context
	cancelFn context.CancelFunc
	log      []string
	done     map[string]bool
	mainDone bool
	snap     string
}

func (x *exec) note(f string, a ...interface{}) { x.log = append(x.log, fmt.Sprintf(f, a...)) }

// waitReturn waits for Return(q) unless the connection died or the horizon passed.
func (x *exec) waitReturn(q uint32) bool {
	found := func() bool {
		for _, m := range x.s.T.Wire {
			if m.ToPeer && m.Msg.IsValid() && m.Msg.Which() == rpccp.Message_Which_return {
				if r, err := m.Msg.Return(); err == nil && r.AnswerId() == q {
					return true
				}
			}
		}
		return false
	}
	vsched.WaitUntil(fmt.Sprintf("return%d", q), func() bool { return found() || x.s.T.Closed || x.giveUp })
	return found()
}

// responder answers Bootstrap and Calls until the horizon.
func responder(x *exec) {
	for {
		m, ok := x.p.Next(func() bool { return x.giveUp })
		if !ok {
			return
		}
		switch m.Msg.Which() {
		case rpccp.Message_Which_bootstrap:
			b, _ := m.Msg.Bootstrap()
			x.p.ReturnBootstrap(b.QuestionId(), rpcsim.CapD{Kind: 's', ID: 0})
		case rpccp.Message_Which_call:
			c, _ := m.Msg.Call()
			pl, _ := c.Params()
			id := -1
			if cnt, err := pl.Content(); err == nil && cnt.Struct().IsValid() {
				id = int(cnt.Struct().Uint32(0))
			}
			if id == 999 {
				continue // never answered: only cancellation or shutdown ends it
			}
			x.p.ReturnResults(c.QuestionId(), id, nil, false)
		}
	}
}

func send(id uint32) capnp.Send {
	return capnp.Send{Method: capnp.Method{InterfaceID: rpcsim.IfaceID, MethodID: rpcsim.MethodEcho}, ArgsSize: capnp.ObjectSize{DataSize: 8},
		PlaceArgs: func(a capnp.Struct) error { a.SetUint32(0, id); return nil }}
}

func scenarios() []scenario {
	return []scenario{
		{name: "peer:bootstrap+call+finish", boot: true, peer: func(x *exec) {
			x.p.Bootstrap(0)
			if !x.waitReturn(0) {
				return
			}
			x.p.Call(1, rpcsim.Target{ID: 0}, 1, nil)
			x.waitReturn(1)
			x.p.Finish(0, false)
			x.p.Finish(1, false)
		}},
		{name: "peer:gated call, finish before return", boot: true, peer: func(x *exec) {
			x.s.W.Mode[1] = rpcsim.ModeAckGate
			x.p.Bootstrap(0)
			if !x.waitReturn(0) {
				return
			}
			x.p.Call(1, rpcsim.Target{ID: 0}, 1, nil)
			x.p.Finish(1, false)
			x.waitReturn(1)
			x.p.Finish(0, true)
		}},
		{name: "peer:pipelined on unreturned answer", boot: true, peer: func(x *exec) {
			x.s.W.Mode[1] = rpcsim.ModeCap
			x.p.Bootstrap(0)
			x.p.Call(1, rpcsim.Target{Promised: true, ID: 0}, 1, nil)
			x.p.Call(2, rpcsim.Target{Promised: true, ID: 1, Path: []uint16{0}}, 2, nil)
			x.s.W.OpenAll = true
			x.waitReturn(1)
			x.waitReturn(2)
			x.p.Finish(2, false)
			x.p.Finish(1, true)
			x.p.Finish(0, true)
		}},
		{name: "peer:call returns capability, release", boot: true, peer: func(x *exec) {
			x.s.W.Mode[1] = rpcsim.ModeCap
			x.s.W.OpenAll = true
			x.p.Bootstrap(0)
			if !x.waitReturn(0) {
				return
			}
			x.p.Call(1, rpcsim.Target{ID: 0}, 1, []rpcsim.CapD{{Kind: 's', ID: 7}})
			if !x.waitReturn(1) {
				return
			}
			x.p.Finish(1, false)
			x.p.Release(1, 1)
			x.p.Release(0, 1)
		}},
		{name: "peer:bootstrap then hangup", boot: true, peer: func(x *exec) {
			x.p.Bootstrap(0)
			x.p.Hangup()
		}},
		{name: "app:bootstrap+call", appSide: true, peer: responder, app: func(x *exec) {
			bc := x.s.Conn.Bootstrap(x.ctx)
			ans, rel := bc.SendCall(x.ctx, send(500))
			_, err := ans.Struct()
			x.note("call500 err=%v", err != nil)
			rel()
			bc.Release()
		}},
		{name: "app:pipelined calls", appSide: true, peer: responder, app: func(x *exec) {
			bc := x.s.Conn.Bootstrap(x.ctx)
			a1, r1 := bc.SendCall(x.ctx, send(500))
			a2, r2 := a1.PipelineSend(x.ctx, []capnp.PipelineOp{{Field: 0}}, send(501))
			_, e1 := a1.Struct()
			_, e2 := a2.Struct()
			x.note("e1=%v e2=%v", e1 != nil, e2 != nil)
			r2()
			r1()
			bc.Release()
		}},
		{name: "app:call never answered, cancelled", appSide: true, cancel: true, peer: responder, app: func(x *exec) {
			bc := x.s.Conn.Bootstrap(context.Background())
			ans, rel := bc.SendCall(x.ctx, send(999))
			_, err := ans.Struct()
			x.note("call999 err=%v", err != nil)
			rel()
			bc.Release()
		}},
		{name: "app:call answered, cancelled concurrently", appSide: true, cancel: true, peer: responder, app: func(x *exec) {
			bc := x.s.Conn.Bootstrap(context.Background())
			ans, rel := bc.SendCall(x.ctx, send(500))
			_, err := ans.Struct()
			x.note("call500 err=%v", err != nil)
			a2, rel2 := bc.SendCall(context.Background(), send(501))
			st, err2 := a2.Struct()
			if err2 == nil && st.Uint32(0) != 501 {
				x.note("WRONG-RESULT call501 got %d", st.Uint32(0))
			}
			x.note("call501 err=%v", err2 != nil)
			rel2()
			rel()
			bc.Release()
		}},
		{name: "app:bootstrap+call, concurrent Close", appSide: true, closer: true, peer: responder, app: func(x *exec) {
			bc := x.s.Conn.Bootstrap(x.ctx)
			ans, rel := bc.SendCall(x.ctx, send(500))
			_, err := ans.Struct()
			x.note("call500 err=%v", err != nil)
			rel()
			bc.Release()
		}},
		{name: "app:call never answered, concurrent Close", appSide: true, closer: true, peer: responder, app: func(x *exec) {
			bc := x.s.Conn.Bootstrap(x.ctx)
			ans, rel := bc.SendCall(x.ctx, send(999))
			_, err := ans.Struct()
			x.note("call999 err=%v", err != nil)
			rel()
			bc.Release()
		}},
		{name: "peer:call in flight, concurrent Close", boot: true, closer: true, peer: func(x *exec) {
			x.s.W.Mode[1] = rpcsim.ModeAckGate
			x.p.Bootstrap(0)
			if !x.waitReturn(0) {
				return
			}
			x.p.Call(1, rpcsim.Target{ID: 0}, 1, nil)
			x.waitReturn(1)
		}},
	}
}

func run(sc scenario, faults rpcsim.FaultPlan, x *exec) {
	x.s = rpcsim.New(faults, sc.boot)
	x.p = x.s.NewPeer()
	x.done = map[string]bool{}
	x.ctx, x.cancelFn = context.WithCancel(context.Background())
	n := 1
	vsched.GoNamed("peer", func() { sc.peer(x); x.done["peer"] = true })
	if sc.closer {
		n++
		vsched.GoNamed("closer", func() {
			vsched.Point("inject-close")
			err := x.s.Conn.Close()
			x.note("closer err=%v", err != nil)
			x.done["closer"] = true
		})
	}
	if sc.cancel {
		n++
		vsched.GoNamed("canceller", func() {
			x.cancelFn() // the cancel itself is a scheduling point
			x.done["canceller"] = true
		})
	}
	if sc.app != nil {
		sc.app(x)
	}
	// horizon: let everything that can still run finish, then stop waiting
	vsched.WaitQuiescent()
	x.giveUp = true
	x.s.W.OpenAll = true
	vsched.WaitUntil("helpers", func() bool { return len(x.done) == n })
	// closing sequence: Close, Close again, then one more operation
	e1 := x.s.Conn.Close()
	e2 := x.s.Conn.Close()
	bc := x.s.Conn.Bootstrap(context.Background())
	ans, rel := bc.SendCall(context.Background(), send(777))
	_, e3 := ans.Struct()
	rel()
	bc.Release()
	x.note("close1 err=%v close2 err=%v call-after-close err=%v", e1 != nil, e2 != nil, e3 != nil)
	if e3 == nil {
		x.note("CALL-AFTER-CLOSE-SUCCEEDED")
	}
	select {
	case <-x.s.Conn.Done():
	default:
		x.note("DONE-NOT-CLOSED")
	}
	sn := x.s.Conn.VerifSnapshot()
	x.snap = fmt.Sprintf("muHeld=%v senderHeld=%v questions=%d answers=%d exports=%d imports=%d embargoes=%d tasks=%d", sn.MuHeld, sn.SenderHeld, sn.Questions, sn.Answers, len(sn.Exports), len(sn.Imports), sn.Embargoes, sn.Tasks)
	if sn.MuHeld || sn.SenderHeld || sn.Questions+sn.Answers+len(sn.Exports)+len(sn.Imports)+sn.Embargoes != 0 || sn.Tasks != 0 {
		x.note("DIRTY-AFTER-CLOSE")
	}
	x.mainDone = true
}

func norm(s string) string {
	var b strings.Builder
	for _, r := range s {
		switch {
		case r >= '0' && r <= '9':
			b.WriteByte('N')
		case r == ' ' || r == ':' || r == '/':
			b.WriteByte('_')
		default:
			b.WriteRune(r)
		}
	}
	x := b.String()
	if len(x) > 70 {
		x = x[:70]
	}
	return x
}

func blockedSig(bl []string) string {
	var parts []string
	for _, b := range bl {
		i := strings.Index(b, ": ")
		name, op := b[:i], b[i+2:]
		if j := strings.Index(name, "#"); j >= 0 {
			name = name[:j]
		}
		parts = append(parts, name+":"+op)
	}
	for i := 1; i < len(parts); i++ {
		for j := i; j > 0 && parts[j] < parts[j-1]; j-- {
			parts[j], parts[j-1] = parts[j-1], parts[j]
		}
	}
	return norm(strings.Join(parts, "|"))
}

func judge(sc scenario, x *exec, vr *vsched.Result) (string, string) {
	ctxt := func() string {
		return fmt.Sprintf("faults taken: %v\nwire: %s\nlog: %v\nsnapshot: %s\nreported: %s", x.s.T.FaultsTaken, x.s.T.WireString(), x.log, x.snap, strings.Join(x.s.W.Reported, " | "))
	}
	if len(vr.Panics) > 0 {
		first := strings.SplitN(vr.Panics[0], "\n", 2)[0]
		return "panic/" + norm(first), "panic in a controlled goroutine: " + vr.Panics[0] + "\n" + ctxt()
	}
	if vr.Livelock {
		return "livelock", "step limit reached\n" + ctxt()
	}
	if vr.Deadlocked() {
		return "deadlock/" + blockedSig(vr.Blocked), "threads blocked forever: " + strings.Join(vr.Blocked, " | ") + "\n" + ctxt()
	}
	if !x.mainDone {
		return "incomplete", "scenario did not run to completion\n" + ctxt()
	}
	for _, l := range x.log {
		switch {
		case strings.Contains(l, "CALL-AFTER-CLOSE-SUCCEEDED"):
			return "call-after-close-succeeded", "a call issued after Close returned succeeded\n" + ctxt()
		case strings.Contains(l, "DONE-NOT-CLOSED"):
			return "done-not-closed", "Conn.Done() is not closed after Close returned\n" + ctxt()
		case strings.Contains(l, "WRONG-RESULT"):
			return "wrong-result-after-cancel", "a call issued after a cancelled call resolved with another call's result: " + l + "\n" + ctxt()
		case strings.Contains(l, "DIRTY-AFTER-CLOSE"):
			return "dirty-after-close", "after Close: " + x.snap + "\n" + ctxt()
		}
	}
	if !x.s.T.Closed {
		return "transport-not-closed", "Close returned but the transport was not closed\n" + ctxt()
	}
	if len(x.s.T.Contract) > 0 {
		return "transport-contract/" + norm(x.s.T.Contract[0]), "Transport contract violated by the Conn: " + strings.Join(x.s.T.Contract, "; ") + "\n" + ctxt()
	}
	return "", ""
}

func family(name string, scs []scenario, faults rpcsim.FaultPlan, cfg vsched.Config) vlib.Family {
	return vlib.Family{Name: name, N: int64(len(scs)),
		Describe: func(i int64) interface{} { return scs[i].name },
		Run: func(i int64, r *vlib.Rec) {
			sc := scs[i]
			var x *exec
			body := func() { x = &exec{}; run(sc, faults, x) }
			outcomes := map[string]bool{}
			knownSeen := map[string]bool{}
			st, f := vsched.Explore(cfg, body, func(vr *vsched.Result) string {
				key, msg := judge(sc, x, vr)
				if key != "" && vlib.KnownOpen("C09", key) {
					if !knownSeen[key] {
						knownSeen[key] = true
						r.Failf(key, "scenario %s\n%s", sc.name, msg)
					}
					return ""
				}
				if key != "" {
					return key + "\x00" + msg
				}
				outcomes[strings.Join(x.s.T.FaultsTaken, ",")+"|"+strings.Join(x.log, ";")] = true
				if len(x.s.T.FaultsTaken) > 0 {
					r.Note("executions_with_faults", 1)
				}
				return ""
			})
			r.States += int64(len(st.Configs))
			r.Transitions += st.Steps
			r.Traces += st.Execs
			r.Evals += st.Execs - 1
			r.Note("executions", st.Execs)
			if st.Capped {
				r.Capped = true
			}
			for o := range outcomes {
				r.Outcome(o)
			}
			r.NonTriv += int64(len(outcomes))
			if f != nil {
				if f.Engine {
					r.Failf("ENGINE:"+f.Msg, "%s", f.Msg)
					return
				}
				parts := strings.SplitN(f.Msg, "\x00", 2)
				rr := vsched.Replay(f.Choices, cfg.MaxSteps, body)
				r.Failf(parts[0], "scenario %s\n%s\nchoices %v\n%s", sc.name, parts[1], f.Choices, rr.Describe())
			}
		}}
}

func main() {
	all := rpcsim.FaultPlan{NewMessage: true, Send: true, Recv: true}
	vlib.Main(vlib.Spec{
		ID:          "C09",
		Level:       "fault_enumeration",
		CaseTimeout: 30 * time.Minute,
		Rule:        "part (a): for each of 12 base scenarios (peer as caller: bootstrap/call/finish, finish before return, pipelining on an unreturned answer, capability-returning call + Release, hangup; Conn as caller: bootstrap+call, pipelined calls, never-answered call with context cancellation, concurrent Close) every placement of up to D transport faults (NewMessage error, send error, RecvMessage error, EOF) over all transport operations of the run, x the position of the one-shot Close / cancel threads and of one further preemption or free switch, followed by the fixed closing sequence Close, Close again, Bootstrap+call after Close and a snapshot of the Conn's locks and tables. evaluations = executions; a distinct non-trivial case is a distinct (faults taken, observable results) combination. Oracle: every operation returns, no thread is left blocked (all Conn goroutines exit), no panic, Done closed, transport closed exactly once with every message released, mutex and sender lock free, tables empty. " + c09torn.Rule,
		Assumptions: append([]string{
			"real-time deadlines (abort timeout, partial-write timeout, net deadlines) are outside the scheduler: 'bounded time' is decided as termination under every explored schedule",
			"torn writes on the real stream transport are the family torn-write (package c09torn) of this same harness; rpc/transport.go is not instrumented",
		}, c09torn.Assumptions...),
		Families: func(tier string) []vlib.Family {
			scs := scenarios()
			torn := c09torn.Families(tier)
			if tier == "thorough" {
				return append(torn, []vlib.Family{
					family("faults<=2", scs, all, vsched.Config{MaxPreempt: 0, MaxFree: 0, MaxDev: 2, MaxTotal: 2, MaxSteps: 30000}),
					family("faults<=1,dev<=2", scs, all, vsched.Config{MaxPreempt: 1, MaxFree: 1, MaxDev: 1, MaxTotal: 2, MaxSteps: 30000, MaxExecs: 300000}),
				}...)
			}
			return append(torn, []vlib.Family{
				family("faults<=1", scs, all, vsched.Config{MaxPreempt: 1, MaxFree: 1, MaxDev: 1, MaxTotal: 1, MaxSteps: 30000}),
				family("nofault,dev<=2", scs, rpcsim.FaultPlan{}, vsched.Config{MaxPreempt: 1, MaxFree: 1, MaxDev: 0, MaxTotal: 2, MaxSteps: 30000, MaxExecs: 400000}),
			}...)
		},
	})
}
