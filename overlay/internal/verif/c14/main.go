// C14 — stream framing is exact and decoding is bounded by the configured
// limits.
//
// (i)   every sequence of 1-3 small messages (plus 511..514-segment
//       messages) is written by the real Encoder / packed Encoder, compared
//       byte for byte with an independent framing of the spec, cut at EVERY
//       byte position and decoded by Decoder / packed Decoder with and without
//       ReuseBuffer through chunked readers.
// (ii)  hostile stream headers followed by an endless zero reader: reads and
//       allocation bounded by MaxMessageSize, segment-count limit enforced.
// (iii) Unmarshal on hostile headers and on every prefix of valid frames:
//       allocation proportional to the input.
package main

import (
	"bytes"
	"encoding/binary"
	"encoding/hex"
	"errors"
	"fmt"
	"io"
	"runtime"
	"runtime/debug"

	capnp "capnproto.org/go/capnp/v3"
	"capnproto.org/go/capnp/v3/internal/verif/ref"
	"capnproto.org/go/capnp/v3/internal/verif/vlib"
)

// ---------------------------------------------------------------------------
// independent framing (encoding.html#serialization-over-a-stream):
//   uint32 segment count - 1, uint32 size in words of each segment,
//   4 bytes padding if that is not a multiple of 8 bytes, then the segments.

func refHeader(sizesWords []uint32) []byte {
	n := len(sizesWords)
	h := make([]byte, 0, 4*(n+2))
	var w [4]byte
	binary.LittleEndian.PutUint32(w[:], uint32(n-1))
	h = append(h, w[:]...)
	for _, s := range sizesWords {
		binary.LittleEndian.PutUint32(w[:], s)
		h = append(h, w[:]...)
	}
	if len(h)%8 != 0 {
		h = append(h, 0, 0, 0, 0)
	}
	return h
}

func refFrame(segs [][]byte) []byte {
	sizes := make([]uint32, len(segs))
	for i, s := range segs {
		sizes[i] = uint32(len(s) / 8)
	}
	f := refHeader(sizes)
	for _, s := range segs {
		f = append(f, s...)
	}
	return f
}

func hdrSizeFor(nseg uint64) uint64 { return (4*(nseg+1) + 7) &^ 7 }

// ---------------------------------------------------------------------------
// message shapes

var shapes [][]int // shapes[i] = words per segment; 1..4 segments of 0..2 words

func init() {
	for n := 1; n <= 4; n++ {
		cnt := 1
		for k := 0; k < n; k++ {
			cnt *= 3
		}
		for i := 0; i < cnt; i++ {
			s := make([]int, n)
			x := i
			for k := 0; k < n; k++ {
				s[k] = x % 3
				x /= 3
			}
			shapes = append(shapes, s)
		}
	}
}

const (
	nShapes2 = 3 + 9       // shapes with <= 2 segments
	nShapes3 = 3 + 9 + 27  // <= 3 segments
	nShapes4 = 3 + 9 + 27 + 81
)

// segBytes gives recognisable content: fill 0 = every byte non-zero and
// distinct by (message, segment, word, byte); fill 1 = all zero (packed zero
// runs, zero-fill bugs invisible otherwise); fill 2 = mixed.
func segBytes(msg, seg, words, fill int) []byte {
	b := make([]byte, 8*words)
	for w := 0; w < words; w++ {
		for k := 0; k < 8; k++ {
			v := byte(1 + (msg*61+seg*17+w*8+k)%255)
			switch fill {
			case 1:
				v = 0
			case 2:
				if (seg+w)%2 == 0 || k%3 == 0 {
					v = 0
				}
			}
			b[8*w+k] = v
		}
	}
	return b
}

func buildSegs(msg int, shape []int, fill int) [][]byte {
	segs := make([][]byte, len(shape))
	for i, w := range shape {
		segs[i] = segBytes(msg, i, w, fill)
	}
	return segs
}

// bigSegs: n segments, pattern 0: all empty, 1: one word each, 2: alternating
// 0/1 words, last segment 2 words.
func bigSegs(msg, n, pattern int) [][]byte {
	segs := make([][]byte, n)
	for i := range segs {
		w := 0
		switch pattern {
		case 1:
			w = 1
		case 2:
			w = i % 2
			if i == n-1 {
				w = 2
			}
		}
		segs[i] = segBytes(msg, i, w, 0)
	}
	return segs
}

func copySegs(segs [][]byte) [][]byte {
	out := make([][]byte, len(segs))
	for i, s := range segs {
		out[i] = append(make([]byte, 0, len(s)), s...)
	}
	return out
}

// ---------------------------------------------------------------------------
// readers

type chunkReader struct {
	b           []byte
	k           int  // chunk size, 0 = everything available
	eofWithData bool // deliver io.EOF together with the last bytes
}

func (c *chunkReader) Read(p []byte) (int, error) {
	if len(c.b) == 0 {
		return 0, io.EOF
	}
	if len(p) == 0 {
		return 0, nil
	}
	n := len(c.b)
	if c.k > 0 && n > c.k {
		n = c.k
	}
	if n > len(p) {
		n = len(p)
	}
	copy(p, c.b[:n])
	c.b = c.b[n:]
	if c.eofWithData && len(c.b) == 0 {
		return n, io.EOF
	}
	return n, nil
}

type cfg struct {
	packed bool
	reuse  bool
	chunk  int // 0 = whole, -1 = whole and EOF delivered with the data
}

func (c cfg) String() string {
	return fmt.Sprintf("packed=%v reuse=%v chunk=%d", c.packed, c.reuse, c.chunk)
}

var fullCfgs, midCfgs, leanCfgs, bigCfgs []cfg

func init() {
	for _, p := range []bool{false, true} {
		for _, r := range []bool{false, true} {
			for _, c := range []int{1, 3, 8, 0, -1} {
				fullCfgs = append(fullCfgs, cfg{p, r, c})
				if c == 1 || c == 8 || c == 0 {
					midCfgs = append(midCfgs, cfg{p, r, c})
				}
			}
			bigCfgs = append(bigCfgs, cfg{p, r, 1}, cfg{p, r, 0})
		}
		leanCfgs = append(leanCfgs, cfg{p, true, 3}, cfg{p, false, 0})
	}
	bigCfgs = append(bigCfgs, cfg{false, true, 8}, cfg{true, true, 3})
}

func hx(b []byte) string {
	if len(b) > 120 {
		return hex.EncodeToString(b[:64]) + "..." + hex.EncodeToString(b[len(b)-32:]) + fmt.Sprintf("(len %d)", len(b))
	}
	return hex.EncodeToString(b)
}

// sameMsg compares a decoded message with the original segments.
func sameMsg(m *capnp.Message, segs [][]byte) string {
	if m == nil {
		return "nil message with nil error"
	}
	if n := m.NumSegments(); n != int64(len(segs)) {
		return fmt.Sprintf("NumSegments=%d want %d", n, len(segs))
	}
	for i, want := range segs {
		s, err := m.Segment(capnp.SegmentID(i))
		if err != nil {
			return fmt.Sprintf("Segment(%d): %v", i, err)
		}
		if !bytes.Equal(s.Data(), want) {
			return fmt.Sprintf("segment %d = %s want %s", i, hx(s.Data()), hx(want))
		}
	}
	return ""
}

// ---------------------------------------------------------------------------
// family (i): sequences

type seqCase struct {
	frames [][][]byte // frames[k] = segments of message k
	desc   string
}

const segLimitMust = 514 // >= 514 segments (count-1 > 512) must be rejected
const segLimitMay = 513  // exactly 513: the constant in message.go is compared with count-1; left open

func encodeBoth(sc *seqCase, r *vlib.Rec) (plain []byte, pb []int, pk []byte, kb []int, ok bool) {
	var wp, wk bytes.Buffer
	ep := capnp.NewEncoder(&wp)
	ek := capnp.NewPackedEncoder(&wk)
	pb = []int{0}
	kb = []int{0}
	var want []byte
	for k, segs := range sc.frames {
		m1 := &capnp.Message{Arena: capnp.MultiSegment(copySegs(segs))}
		if err := ep.Encode(m1); err != nil {
			r.Failf("encoder-error", "Encoder.Encode(message %d of %s): %v", k, sc.desc, err)
			return
		}
		m2 := &capnp.Message{Arena: capnp.MultiSegment(copySegs(segs))}
		if err := ek.Encode(m2); err != nil {
			r.Failf("packedencoder-error", "packed Encoder.Encode(message %d of %s): %v", k, sc.desc, err)
			return
		}
		f := refFrame(segs)
		want = append(want, f...)
		pb = append(pb, wp.Len())
		kb = append(kb, wk.Len())
		if got := wp.Bytes()[pb[k]:]; !bytes.Equal(got, f) {
			r.Failf("encoder-nonconformant", "Encoder output for message %d of %s differs from the spec framing\n got  %s\n want %s", k, sc.desc, hx(got), hx(f))
			return
		}
		un, _, err := ref.Unpack(wk.Bytes()[kb[k]:])
		if err != nil || !bytes.Equal(un, f) {
			r.Failf("packedencoder-nonconformant", "spec-unpacking the packed Encoder output for message %d of %s does not give the spec framing (err=%v)\n got  %s\n want %s", k, sc.desc, err, hx(un), hx(f))
			return
		}
		// Marshal must give the same frame
		if mb, err := m1.Marshal(); err != nil || !bytes.Equal(mb, f) {
			r.Failf("marshal-nonconformant", "Message.Marshal for message %d of %s differs from the spec framing (err=%v)", k, sc.desc, err)
			return
		}
	}
	return wp.Bytes(), pb, wk.Bytes(), kb, true
}

// decodeCut decodes stream[:c] under configuration cf and judges the result.
func decodeCut(sc *seqCase, stream []byte, bounds []int, c int, cf cfg, r *vlib.Rec) {
	rd := &chunkReader{b: stream[:c], k: cf.chunk}
	if cf.chunk < 0 {
		rd.k, rd.eofWithData = 0, true
	}
	var dec *capnp.Decoder
	if cf.packed {
		dec = capnp.NewPackedDecoder(rd)
	} else {
		dec = capnp.NewDecoder(rd)
	}
	if cf.reuse {
		dec.ReuseBuffer()
	}
	name := "decoder"
	if cf.packed {
		name = "packeddecoder"
	}
	if cf.reuse {
		name += "-reuse"
	}
	where := func() string {
		return fmt.Sprintf("%s; %s; stream cut at %d of %d (frame boundaries %v)\n stream[:cut] = %s", sc.desc, cf, c, len(stream), bounds, hx(stream[:c]))
	}
	// fail formats the (long) detail only while it is still kept by vlib
	fail := func(key, format string, a ...interface{}) {
		if r.ViolCount[key] >= 3 {
			r.Fail(key, "")
			return
		}
		r.Fail(key, fmt.Sprintf(format, a...)+"; "+where())
	}
	complete := 0
	for complete+1 < len(bounds) && bounds[complete+1] <= c {
		complete++
	}
	var kept []*capnp.Message
	k := 0
	var ferr error
	for {
		m, err := dec.Decode()
		if err != nil {
			ferr = err
			if m != nil {
				fail(name+"-message-with-error", "Decode returned both a message and error %v", err)
			}
			break
		}
		if k >= len(sc.frames) {
			fail(name+"-extra-message", "Decode returned message #%d but only %d were written", k, len(sc.frames))
			return
		}
		if d := sameMsg(m, sc.frames[k]); d != "" {
			key := name + "-wrong-message"
			if k >= complete {
				key = name + "-garbage-from-truncated-frame"
			}
			fail(key, "message #%d differs from what was encoded: %s", k, d)
			return
		}
		if len(sc.frames[k]) >= segLimitMust {
			fail(name+"-accepts-over-segment-limit", "Decode accepted a message of %d segments (limit constant 512)", len(sc.frames[k]))
			return
		}
		if !cf.reuse {
			kept = append(kept, m)
		}
		k++
	}
	// without ReuseBuffer earlier messages stay valid
	for i, m := range kept {
		if d := sameMsg(m, sc.frames[i]); d != "" {
			fail(name+"-earlier-message-clobbered", "message #%d changed after later Decode calls: %s", i, d)
			return
		}
	}
	// first frame the decoder may / must refuse because of the segment limit
	expect := complete
	for i := 0; i < complete; i++ {
		n := len(sc.frames[i])
		if n >= segLimitMust || (n == segLimitMay && k == i) {
			expect = i
			break
		}
	}
	switch {
	case k < expect:
		fail(name+"-loses-message", "only %d of %d complete frames were delivered, then err=%v", k, expect, ferr)
	case k == expect:
		limited := expect < complete || (k < len(sc.frames) && len(sc.frames[k]) >= segLimitMay && c > bounds[k]+8)
		if c == bounds[k] {
			if ferr != io.EOF {
				fail(name+"-no-eof-at-boundary", "stream ends exactly after %d frames but Decode returned %v, not io.EOF", k, ferr)
			} else {
				r.Outcome("eof-at-boundary")
			}
		} else {
			if ferr == io.EOF {
				fail(name+"-eof-midframe", "stream cut inside frame #%d but Decode returned bare io.EOF", k)
			} else if limited {
				r.Outcome("segment-limit-error")
			} else {
				r.Outcome("midframe-error")
			}
		}
	case k == expect+1 && cf.packed && ferr != io.EOF:
		// Allowance (see C13): packed.Reader hands out a word whose run-count
		// byte is missing and reports the truncation on the next read.  The
		// frame delivered is exactly the original and the following Decode
		// fails with a non-EOF error, so the cut is not hidden.
		r.Outcome("packed-late-report")
	default:
		if cf.packed && k == expect+1 {
			fail(name+"-hides-truncation", "packed stream cut inside frame #%d: the frame was delivered and the next Decode returned io.EOF", k-1)
		} else {
			fail(name+"-accepts-truncated-frame", "%d messages delivered but only %d complete frames precede the cut (err=%v)", k, expect, ferr)
		}
	}
}

func runSeq(sc *seqCase, cfgs []cfg, r *vlib.Rec) {
	plain, pb, pk, kb, ok := encodeBoth(sc, r)
	if !ok {
		return
	}
	r.NonTrivial()
	for _, cf := range cfgs {
		stream, bounds := plain, pb
		if cf.packed {
			stream, bounds = pk, kb
		}
		for c := 0; c <= len(stream); c++ {
			decodeCut(sc, stream, bounds, c, cf, r)
		}
	}
	r.Note("cut_points", int64(len(plain)+len(pk)+2))
}

func seqFromIndex(i int64, n int, nsh int) *seqCase {
	fill := int(i % 3)
	i /= 3
	return seqFromIndexFill(i, n, nsh, fill)
}

// seqFromIndexFill: fill < 0 derives the fill from the index (lean family).
func seqFromIndexFill(i int64, n int, nsh int, fill int) *seqCase {
	if fill < 0 {
		fill = int((i + i/int64(nsh) + i/int64(nsh*nsh)) % 3)
	}
	sc := &seqCase{}
	var idx []int
	for k := 0; k < n; k++ {
		s := int(i % int64(nsh))
		i /= int64(nsh)
		idx = append(idx, s)
		sc.frames = append(sc.frames, buildSegs(k, shapes[s], fill))
	}
	d := ""
	for _, s := range idx {
		d += fmt.Sprint(shapes[s])
	}
	sc.desc = fmt.Sprintf("messages(words per segment)=%s fill=%d", d, fill)
	return sc
}

func pow(a int64, n int) int64 {
	p := int64(1)
	for ; n > 0; n-- {
		p *= a
	}
	return p
}

var bigCounts = []int{511, 512, 513, 514}

func bigFromIndex(i int64) *seqCase {
	pattern := int(i % 3)
	i /= 3
	pos := int(i % 4) // 0 alone, 1 after small, 2 before small, 3 between
	i /= 4
	n := bigCounts[i]
	sc := &seqCase{desc: fmt.Sprintf("%d-segment message, pattern %d, position %d", n, pattern, pos)}
	small := func(k int) [][]byte { return buildSegs(k, []int{1, 0, 2}, 0) }
	if pos == 1 || pos == 3 {
		sc.frames = append(sc.frames, small(0))
	}
	sc.frames = append(sc.frames, bigSegs(len(sc.frames), n, pattern))
	if pos == 2 || pos == 3 {
		sc.frames = append(sc.frames, small(len(sc.frames)))
	}
	return sc
}

// ---------------------------------------------------------------------------
// family (ii): hostile headers

var (
	hostCounts = []uint32{0, 1, 2, 511, 512, 513, 1 << 31, 1<<32 - 1}
	hostSizes  = []uint32{0, 1, 1 << 28, 1<<29 - 1, 1 << 29, 1 << 31, 1<<32 - 1}
	hostMax    = []uint64{0, 7, 8, 16, 64, 1024, 1 << 63}
)

const defaultMax = 64 << 20
const slack = 64 << 10

type hostile struct {
	M     uint64
	cnt   uint32
	s     [3]uint32
	sizes []uint32 // all size words when cnt <= 513
	hdr   []byte   // explicit header bytes (8 bytes only when cnt > 513)
}

func hostileFromIndex(i int64) hostile {
	var h hostile
	h.M = hostMax[i%7]
	i /= 7
	h.cnt = hostCounts[i%8]
	i /= 8
	for k := 0; k < 3; k++ {
		h.s[k] = hostSizes[i%7]
		i /= 7
	}
	h.build()
	return h
}

func (h *hostile) build() {
	if h.cnt > 513 {
		h.hdr = make([]byte, 8)
		binary.LittleEndian.PutUint32(h.hdr, h.cnt)
		binary.LittleEndian.PutUint32(h.hdr[4:], h.s[0])
		return
	}
	n := int(h.cnt) + 1
	h.sizes = make([]uint32, n)
	h.sizes[0] = h.s[0]
	if n >= 2 {
		h.sizes[1] = h.s[1]
	}
	if n >= 3 {
		h.sizes[n-1] = h.s[2]
	}
	h.hdr = refHeader(h.sizes)
}

func (h hostile) String() string {
	return fmt.Sprintf("segcount-1=%d sizes(first,second,last)=%v MaxMessageSize=%d header=%s", h.cnt, h.s, h.M, hx(h.hdr))
}

func (h hostile) effMax() uint64 {
	if h.M == 0 {
		return defaultMax
	}
	return h.M
}

// verdict of the stated limits, computed independently: total frame size if
// the header is well formed.
func (h hostile) frameSize() (total uint64, wellFormed bool) {
	if h.cnt > 513 {
		return 0, false
	}
	total = uint64(len(h.hdr))
	for _, s := range h.sizes {
		if s >= 1<<29 { // 8*s does not fit the 32-bit byte size of a segment
			return 0, false
		}
		total += 8 * uint64(s)
	}
	return total, true
}

var errValve = errors.New("harness: zero reader stopped (safety valve)")

// zeroReader delivers head and then zeros for ever, counting what is asked.
type zeroReader struct {
	head     []byte
	consumed uint64 // bytes delivered
	maxReq   uint64 // largest single request
	valve    uint64 // stop delivering after this many bytes
	tripped  bool
}

func (z *zeroReader) Read(p []byte) (int, error) {
	if uint64(len(p)) > z.maxReq {
		z.maxReq = uint64(len(p))
	}
	if len(p) == 0 {
		return 0, nil
	}
	if len(z.head) > 0 {
		n := copy(p, z.head)
		z.head = z.head[n:]
		z.consumed += uint64(n)
		return n, nil
	}
	if z.consumed+uint64(len(p)) > z.valve {
		z.tripped = true
		return 0, errValve
	}
	for i := range p {
		p[i] = 0
	}
	z.consumed += uint64(len(p))
	return len(p), nil
}

var validPrefix = refFrame([][]byte{segBytes(7, 0, 1, 0), segBytes(7, 1, 2, 0)})

func allocDelta(f func()) uint64 {
	var a, b runtime.MemStats
	runtime.ReadMemStats(&a)
	f()
	runtime.ReadMemStats(&b)
	return b.TotalAlloc - a.TotalAlloc
}

// hostileDecode runs one Decode of the hostile header under a variant.
// variant: packed, reuse (0 none, 1 fresh, 2 after a valid 2-segment message)
func hostileDecode(h hostile, packed bool, reuse int, r *vlib.Rec) {
	eff := h.effMax()
	total, wf := h.frameSize()
	name := "decoder"
	if packed {
		name = "packeddecoder"
	}
	if reuse > 0 {
		name += "-reuse"
	}
	head := h.hdr
	if reuse == 2 {
		head = append(append([]byte{}, validPrefix...), h.hdr...)
	}
	if packed {
		head = ref.Pack(head)
	}
	// The reader is endless within what any conforming Decode may ask for;
	// the valve only saves the machine when MaxMessageSize is astronomically
	// large (2^63) or when the bound is already violated.
	valve := eff + slack
	if valve > 80<<20 {
		valve = 1 << 20
	}
	z := &zeroReader{head: head, valve: uint64(len(head)) + valve}
	var dec *capnp.Decoder
	if packed {
		dec = capnp.NewPackedDecoder(z)
	} else {
		dec = capnp.NewDecoder(z)
	}
	dec.MaxMessageSize = h.M
	if reuse > 0 {
		dec.ReuseBuffer()
	}
	desc := func() string { return fmt.Sprintf("%s packed=%v reuse=%d", h, packed, reuse) }
	if reuse == 2 {
		m, err := dec.Decode()
		if err != nil {
			r.Failf(name+"-rejects-frame-within-max", "valid 40-byte frame rejected with MaxMessageSize=%d: %v", h.M, err)
			return
		}
		if d := sameMsg(m, [][]byte{segBytes(7, 0, 1, 0), segBytes(7, 1, 2, 0)}); d != "" {
			r.Failf(name+"-wrong-message", "valid first frame decoded wrongly: %s", d)
			return
		}
	}
	before := z.consumed
	var m *capnp.Message
	var err error
	z.maxReq = 0
	delta := allocDelta(func() { m, err = dec.Decode() })
	used := z.consumed - before
	hdrLen := uint64(len(h.hdr))
	if h.cnt <= 513 {
		hdrLen = hdrSizeFor(uint64(h.cnt) + 1)
	}
	// -- allocation bound
	if h.M != 1<<63 && delta > eff+hdrLen+slack {
		r.Failf(name+"-allocates-beyond-max", "Decode allocated %d bytes with an effective MaxMessageSize of %d (+%d header +64KiB slack); %s", delta, eff, hdrLen, desc())
	}
	// -- read bound (documented: maximum number of bytes read per Decode)
	if !packed && h.M != 1<<63 {
		if used > eff || z.maxReq > eff {
			r.Failf(name+"-reads-beyond-max", "Decode consumed %d bytes (largest single request %d) with an effective MaxMessageSize of %d; %s", used, z.maxReq, eff, desc())
		}
	}
	if err == io.EOF {
		r.Failf(name+"-eof-on-endless-stream", "Decode returned io.EOF though bytes were read; %s", desc())
	}
	if err != nil && m != nil {
		r.Failf(name+"-message-with-error", "Decode returned both a message and error %v; %s", err, desc())
	}
	fits := wf && h.M != 7 && total <= eff
	switch {
	case err == nil:
		// accepted: must be within every limit and be exactly the frame the
		// header describes (all zero)
		if m == nil {
			r.Failf(name+"-nil-nil", "Decode returned nil, nil; %s", desc())
			return
		}
		if h.cnt > 512 {
			r.Failf(name+"-accepts-over-segment-limit", "Decode accepted a header announcing %d segments; %s", uint64(h.cnt)+1, desc())
			return
		}
		if !fits {
			r.Failf(name+"-accepts-beyond-max", "Decode accepted a frame of %d bytes (well-formed=%v) with an effective MaxMessageSize of %d; %s", total, wf, eff, desc())
			return
		}
		want := make([][]byte, len(h.sizes))
		for i, s := range h.sizes {
			want[i] = make([]byte, 8*int(s))
		}
		if d := sameMsg(m, want); d != "" {
			r.Failf(name+"-wrong-message", "accepted message is not the frame the header describes: %s; %s", d, desc())
			return
		}
		if h.cnt == 512 {
			r.Outcome("513-segments-accepted")
		} else {
			r.Outcome("accepted")
		}
	case z.tripped:
		r.Outcome("valve(astronomic-max)")
		if !fits {
			r.Failf(name+"-reads-beyond-max", "Decode kept reading past MaxMessageSize for a frame that must be rejected (total %d, well-formed %v, max %d); %s", total, wf, eff, desc())
		}
	default:
		switch {
		case h.cnt > 512:
			r.Outcome("rejected-segment-limit")
		case !fits:
			r.Outcome("rejected")
		case h.cnt == 512:
			r.Outcome("513-segments-rejected")
		default:
			r.Failf(name+"-rejects-frame-within-max", "Decode rejected a well-formed frame of %d bytes (%d segments) with an effective MaxMessageSize of %d: %v; %s", total, uint64(h.cnt)+1, eff, err, desc())
		}
	}
}

var gcOff bool

func hostileCase(i int64, r *vlib.Rec) {
	h := hostileFromIndex(i)
	total, wf := h.frameSize()
	giant := h.M == 1<<63 && wf && total > 1<<20
	r.NonTrivial()
	if !gcOff {
		// TotalAlloc is cumulative, so the measurement does not need this; it
		// keeps the multi-GiB (never touched) buffers that MaxMessageSize=2^63
		// permits from being recycled and then zeroed by the allocator.
		debug.SetGCPercent(-1)
		gcOff = true
	}
	if giant {
		// every one of these makes the Decoder allocate 2-12 GiB of (untouched)
		// address space, which MaxMessageSize=2^63 permits; two variants only.
		r.Outcome("giant-allowed-allocation")
		hostileDecode(h, false, 0, r)
		hostileDecode(h, false, 1, r)
		return
	}
	for _, p := range []bool{false, true} {
		for reuse := 0; reuse <= 2; reuse++ {
			if reuse == 2 && h.effMax() < 64 {
				continue
			}
			hostileDecode(h, p, reuse, r)
		}
	}
}

// boundary: frames that fit MaxMessageSize exactly / by one word too much
var boundMax = []uint64{8, 16, 64, 1024, 1 << 20, 0}
var boundSegs = []int{1, 2, 3, 512}

func boundaryCase(i int64, r *vlib.Rec) {
	fit := int64(i%3) - 1
	i /= 3
	nseg := boundSegs[i%4]
	i /= 4
	M := boundMax[i]
	h := hostile{M: M, cnt: uint32(nseg - 1)}
	eff := h.effMax()
	hs := hdrSizeFor(uint64(nseg))
	words := (int64(eff)-int64(hs))/8 + fit
	if int64(eff) < int64(hs) || words < 0 {
		r.Outcome("boundary-not-constructible")
		return
	}
	h.sizes = make([]uint32, nseg)
	for k := 0; k < nseg-1 && words > 0; k++ {
		h.sizes[k] = 1
		words--
	}
	h.sizes[nseg-1] += uint32(words)
	h.hdr = refHeader(h.sizes)
	h.s = [3]uint32{h.sizes[0], 0, h.sizes[nseg-1]}
	r.NonTrivial()
	for _, p := range []bool{false, true} {
		for reuse := 0; reuse <= 1; reuse++ {
			hostileDecode(h, p, reuse, r)
			if eff >= 1<<20 {
				runtime.GC()
				debug.FreeOSMemory()
			}
		}
	}
}

// ---------------------------------------------------------------------------
// family (iii): Unmarshal

func unmarshalChecked(in []byte, r *vlib.Rec, desc func() string) (*capnp.Message, error) {
	var m *capnp.Message
	var err error
	delta := allocDelta(func() { m, err = capnp.Unmarshal(in) })
	if delta > 8*uint64(len(in))+slack {
		r.Failf("unmarshal-allocates-beyond-input", "Unmarshal allocated %d bytes for %d input bytes (bound 8x+64KiB); %s", delta, len(in), desc())
	}
	if err != nil && m != nil {
		r.Failf("unmarshal-message-with-error", "Unmarshal returned both a message and %v; %s", err, desc())
	}
	if err == nil && m == nil {
		r.Failf("unmarshal-nil-nil", "Unmarshal returned nil, nil; %s", desc())
	}
	return m, err
}

func unmarshalHostileCase(i int64, r *vlib.Rec) {
	tail := int(i % 3)
	i /= 3
	h := hostileFromIndex(i * 7) // M irrelevant
	total, wf := h.frameSize()
	in := append([]byte{}, h.hdr...)
	complete := false
	switch tail {
	case 1:
		in = append(in, make([]byte, 8)...)
	case 2:
		if wf && total <= 1<<16 {
			in = append(in, make([]byte, int(total)-len(h.hdr))...)
			complete = true
		} else {
			in = append(in, make([]byte, 24)...)
		}
	}
	if wf && total <= uint64(len(in)) {
		complete = true
	}
	r.NonTrivial()
	desc := func() string { return fmt.Sprintf("%s tail=%d input=%s", h, tail, hx(in)) }
	m, err := unmarshalChecked(in, r, desc)
	if err != nil {
		if complete && h.cnt > 511 {
			r.Outcome("unmarshal-rejected-many-segments")
		} else if complete {
			r.Failf("unmarshal-rejects-valid", "Unmarshal rejected a complete well-formed frame (%d segments, %d bytes): %v; %s", uint64(h.cnt)+1, total, err, desc())
		} else {
			r.Outcome("unmarshal-rejected")
		}
		return
	}
	if m == nil {
		return
	}
	if !complete {
		r.Failf("unmarshal-accepts-truncated", "Unmarshal accepted input that does not contain the frame its header describes (well-formed=%v frame=%d input=%d); %s", wf, total, len(in), desc())
		return
	}
	want := make([][]byte, len(h.sizes))
	for k, s := range h.sizes {
		want[k] = make([]byte, 8*int(s))
	}
	if d := sameMsg(m, want); d != "" {
		r.Failf("unmarshal-wrong-message", "%s; %s", d, desc())
		return
	}
	r.Outcome("unmarshal-accepted")
}

func unmarshalPrefixes(segs [][]byte, what string, r *vlib.Rec) {
	f := refFrame(segs)
	r.NonTrivial()
	for n := 0; n <= len(f)+8; n++ {
		var in []byte
		if n <= len(f) {
			in = f[:n]
		} else {
			in = append(append([]byte{}, f...), make([]byte, n-len(f))...)
		}
		desc := func() string { return fmt.Sprintf("%s; first %d of %d frame bytes: %s", what, n, len(f), hx(in)) }
		m, err := unmarshalChecked(in, r, desc)
		switch {
		case n < len(f):
			if err == nil {
				r.Failf("unmarshal-accepts-truncated", "Unmarshal accepted a strict prefix of a frame; %s", desc())
			} else {
				r.Outcome("unmarshal-prefix-rejected")
			}
		case n == len(f):
			if err != nil {
				r.Failf("unmarshal-rejects-valid", "%v; %s", err, desc())
			} else if d := sameMsg(m, segs); d != "" {
				r.Failf("unmarshal-wrong-message", "%s; %s", d, desc())
			} else {
				r.Outcome("unmarshal-accepted")
			}
		default:
			// trailing bytes after a complete frame: left open by the property
			if err != nil {
				r.Outcome("unmarshal-trailing-rejected")
			} else if d := sameMsg(m, segs); d != "" {
				r.Failf("unmarshal-wrong-message", "with %d trailing bytes: %s; %s", n-len(f), d, desc())
			} else {
				r.Outcome("unmarshal-trailing-ignored")
			}
		}
	}
}

// ---------------------------------------------------------------------------

func main() {
	// live heap is tiny and every packed Decoder allocates a 4 KiB bufio
	// buffer: collect less often (no oracle depends on GC timing)
	debug.SetGCPercent(2000)
	vlib.Main(vlib.Spec{
		ID:    "C14",
		Level: "exploration",
		Rule: "bounded-exhaustive: (i) every sequence of 1..3 messages over 120 shapes (1-4 segments of 0-2 words; quick: 2-message sequences with chunkings {1,8,whole} only and 3-message sequences over the 12 shapes of <=2 segments, thorough: over the 39 shapes of <=3 segments with the full matrix and all 120^3 with a lean matrix of 4 configurations and one index-derived fill) x 3 content fills, plus 511/512/513/514-segment messages alone/after/before/between small ones; written by Encoder and packed Encoder (output compared byte for byte with an independent spec framing / spec unpacker), cut at EVERY byte position, decoded by Decoder and packed Decoder x ReuseBuffer on/off x reader chunking {1,3,8,whole,whole+EOF-with-data}. (ii) hostile headers: segcount-1 in {0,1,2,511,512,513,2^31,2^32-1} x (first,second,last size word) in {0,1,2^28,2^29-1,2^29,2^31,2^32-1}^3 x MaxMessageSize in {0,7,8,16,64,1024,2^63} x {plain,packed} x {no reuse, reuse, reuse after a valid message}, then endless zeros; plus exact-fit/one-word-over frames for MaxMessageSize in {8,16,64,1024,1MiB,default 64MiB} with 1,2,3,512 segments. (iii) Unmarshal on every hostile header (bare, +8, +complete/24 bytes) and every prefix (and 1..8 trailing bytes) of every valid single frame. A case is non-trivial when the encoder output matched the independent framing (i) or a Decode/Unmarshal call was judged against the independently computed verdict (ii, iii); all cases are distinct by construction.",
		Assumptions: []string{
			"the framing written in this harness from encoding.html#serialization-over-a-stream and ref.Pack/ref.Unpack are the specification",
			"segment-count limit: the constant 512 in message.go is compared with count-1, so 513 segments is treated as left open (outcome), >=514 must be rejected, <=512 must be accepted",
			"packed decoder: a cut inside a frame must give a non-EOF error at that frame, or (packed.Reader reports a missing run-count byte one word late) deliver exactly the original frame and fail with a non-EOF error on the following Decode",
			"allocation = runtime.MemStats.TotalAlloc delta around the call, GC disabled, one goroutine; bound MaxMessageSize(or 64MiB default)+header+64KiB, resp. 8*len(input)+64KiB; for MaxMessageSize=2^63 only absence of panics/overflow is checked and the zero reader stops after 1MiB",
			"a well-formed frame of at most MaxMessageSize bytes and <=512 segments must be accepted (MaxMessageSize is documented as the maximum number of bytes read per Decode)",
		},
		Families: families,
	})
}

func families(tier string) []vlib.Family {
	n3 := int64(nShapes2)
	seq2Cfgs := midCfgs
	if tier == "thorough" {
		n3 = nShapes3
		seq2Cfgs = fullCfgs
	}
	fams := []vlib.Family{
		{
			Name: "seq1", N: 3 * nShapes4,
			Run:      func(i int64, r *vlib.Rec) { runSeq(seqFromIndex(i, 1, nShapes4), fullCfgs, r) },
			Describe: func(i int64) interface{} { return seqFromIndex(i, 1, nShapes4).desc },
		},
		{
			Name: "seq2", N: 3 * nShapes4 * nShapes4,
			Run:      func(i int64, r *vlib.Rec) { runSeq(seqFromIndex(i, 2, nShapes4), seq2Cfgs, r) },
			Describe: func(i int64) interface{} { return seqFromIndex(i, 2, nShapes4).desc },
		},
		{
			Name: "seq3", N: 3 * pow(n3, 3),
			Run:      func(i int64, r *vlib.Rec) { runSeq(seqFromIndex(i, 3, int(n3)), fullCfgs, r) },
			Describe: func(i int64) interface{} { return seqFromIndex(i, 3, int(n3)).desc },
		},
	}
	if tier == "thorough" {
		fams = append(fams, vlib.Family{
			Name: "seq3-all-lean", N: pow(nShapes4, 3),
			Run:      func(i int64, r *vlib.Rec) { runSeq(seqFromIndexFill(i, 3, nShapes4, -1), leanCfgs, r) },
			Describe: func(i int64) interface{} { return seqFromIndexFill(i, 3, nShapes4, -1).desc },
		})
	}
	fams = append(fams,
		vlib.Family{
			Name: "bigseg", N: int64(3 * 4 * len(bigCounts)),
			Run:      func(i int64, r *vlib.Rec) { runSeq(bigFromIndex(i), bigCfgs, r) },
			Describe: func(i int64) interface{} { return bigFromIndex(i).desc },
		},
		vlib.Family{
			Name: "hostile", N: 7 * 8 * 343,
			Run:      hostileCase,
			Describe: func(i int64) interface{} { return hostileFromIndex(i).String() },
		},
		vlib.Family{
			Name: "boundary", N: int64(3 * 4 * len(boundMax)),
			Run: boundaryCase,
			Describe: func(i int64) interface{} {
				return fmt.Sprintf("fit=%+d words, segments=%d, MaxMessageSize=%d", i%3-1, boundSegs[i/3%4], boundMax[i/12])
			},
		},
		vlib.Family{
			Name: "unmarshal-hostile", N: 3 * 8 * 343,
			Run: unmarshalHostileCase,
			Describe: func(i int64) interface{} {
				return fmt.Sprintf("%s tail=%d", hostileFromIndex(i/3*7), i%3)
			},
		},
		vlib.Family{
			Name: "unmarshal-prefix", N: 3*nShapes4 + int64(3*len(bigCounts)),
			Run: func(i int64, r *vlib.Rec) {
				if i < 3*nShapes4 {
					sc := seqFromIndex(i, 1, nShapes4)
					unmarshalPrefixes(sc.frames[0], sc.desc, r)
					return
				}
				i -= 3 * nShapes4
				n := bigCounts[i/3]
				unmarshalPrefixes(bigSegs(0, n, int(i%3)), fmt.Sprintf("%d-segment message pattern %d", n, i%3), r)
			},
			Describe: func(i int64) interface{} {
				if i < 3*nShapes4 {
					return seqFromIndex(i, 1, nShapes4).desc
				}
				i -= 3 * nShapes4
				return fmt.Sprintf("%d-segment message pattern %d", bigCounts[i/3], i%3)
			},
		},
	)
	return fams
}
