package hostile

// Unfold estimates, with the independent decoder, how many objects a full
// recursive traversal of the message from the root would visit (pointer
// graph unfolded into a tree, cut at maxDepth levels and at `cap` visits).
// It is used only to decide whether recursive consumers are given a clamped
// traversal budget (cyclic / heavily shared graphs cost time exponential in
// the depth limit at the default 64 MiB budget).
func Unfold(segs [][]byte, maxDepth int, cap int) (visits int, cyclic bool) {
	type key struct{ seg, word int }
	onPath := map[key]bool{}
	var rec func(seg, word, depth int)
	rec = func(seg, word, depth int) {
		if visits >= cap {
			return
		}
		o := Resolve(segs, seg, word)
		if o.Kind != KStruct && o.Kind != KList {
			return
		}
		visits++
		k := key{seg, word}
		if onPath[k] {
			cyclic = true
		}
		if depth >= maxDepth {
			return
		}
		onPath[k] = true
		defer func() { onPath[k] = false }()
		switch {
		case o.Kind == KStruct:
			for i := 0; i < o.PC && visits < cap; i++ {
				s, w := o.PtrSlot(i)
				rec(s, w, depth+1)
			}
		case o.ET == 6:
			for i := int64(0); i < o.N && visits < cap; i++ {
				rec(o.Seg, o.Off+int(i), depth+1)
			}
		case o.ET == 7 && o.PC > 0:
			for i := int64(0); i < o.N && visits < cap; i++ {
				e := o.Elem(int(i))
				for j := 0; j < e.PC && visits < cap; j++ {
					s, w := e.PtrSlot(j)
					rec(s, w, depth+2)
				}
			}
		}
	}
	rec(0, 0, 0)
	return visits, cyclic
}

// UnfoldCost is the upper bound used by C02(d): the sum of the spec'd
// charges (ReadHi) of all objects in the pointer graph unfolded from the
// root to maxDepth dereference levels (every dereference costs one level;
// element projection is not counted, which only makes the bound larger).
// capped reports that more than capVisits objects were met (bound unusable).
func UnfoldCost(segs [][]byte, maxDepth int, capVisits int) (cost uint64, visits int, cyclic, capped bool) {
	type key struct{ seg, word int }
	onPath := map[key]bool{}
	var rec func(seg, word, depth int)
	rec = func(seg, word, depth int) {
		if capped || depth >= maxDepth {
			return
		}
		o := Resolve(segs, seg, word)
		if o.Kind != KStruct && o.Kind != KList {
			return
		}
		visits++
		if visits > capVisits {
			capped = true
			return
		}
		cost += o.ReadHi
		k := key{seg, word}
		if onPath[k] {
			cyclic = true
		}
		was := onPath[k]
		onPath[k] = true
		switch {
		case o.Kind == KStruct:
			for i := 0; i < o.PC; i++ {
				s, w := o.PtrSlot(i)
				rec(s, w, depth+1)
			}
		case o.ET == 6:
			for i := int64(0); i < o.N && !capped; i++ {
				rec(o.Seg, o.Off+int(i), depth+1)
			}
		case o.ET == 7 && o.PC > 0:
			for i := int64(0); i < o.N && !capped; i++ {
				e := o.Elem(int(i))
				for j := 0; j < e.PC; j++ {
					s, w := e.PtrSlot(j)
					rec(s, w, depth+1)
				}
			}
		}
		onPath[k] = was
	}
	rec(0, 0, 0)
	return
}
