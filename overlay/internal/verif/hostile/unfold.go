package hostile

// Unfold estimates, with the independent decoder, how many objects a full
// recursive traversal of the message from the root would visit (pointer
// graph unfolded into a tree, cut at maxDepth levels and at `cap` visits).
// It is used only to decide whether recursive consumers are given a clamped
// traversal budget (cyclic / heavily shared graphs cost time exponential in
// the depth limit at the default 64 MiB budget).
func Unfold(segs [][]byte, maxDepth int, cap int) (visits int, cyclic bool) {
	type key struct{ seg, word int }
	onPath := map[key]bool{}
	var rec func(seg, word, depth int)
	rec = func(seg, word, depth int) {
		if visits >= cap {
			return
		}
		o := Resolve(segs, seg, word)
		if o.Kind != KStruct && o.Kind != KList {
			return
		}
		visits++
		k := key{seg, word}
		if onPath[k] {
			cyclic = true
		}
		if depth >= maxDepth {
			return
		}
		onPath[k] = true
		defer func() { onPath[k] = false }()
		switch {
		case o.Kind == KStruct:
			for i := 0; i < o.PC && visits < cap; i++ {
				s, w := o.PtrSlot(i)
				rec(s, w, depth+1)
			}
		case o.ET == 6:
			for i := int64(0); i < o.N && visits < cap; i++ {
				rec(o.Seg, o.Off+int(i), depth+1)
			}
		case o.ET == 7 && o.PC > 0:
			for i := int64(0); i < o.N && visits < cap; i++ {
				e := o.Elem(int(i))
				for j := 0; j < e.PC && visits < cap; j++ {
					s, w := e.PtrSlot(j)
					rec(s, w, depth+2)
				}
			}
		}
	}
	rec(0, 0, 0)
	return visits, cyclic
}
