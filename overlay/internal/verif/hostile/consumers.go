package hostile

import (
	"reflect"

	capnp "capnproto.org/go/capnp/v3"
	"capnproto.org/go/capnp/v3/encoding/text"
	air "capnproto.org/go/capnp/v3/internal/aircraftlib"
	"capnproto.org/go/capnp/v3/pogs"
)

// Go mirror types of a few aircraftlib schema types for pogs.Extract.

type GoZdate struct {
	Year  int16
	Month uint8
	Day   uint8
}

type GoZdata struct {
	Data []byte `verif:"alias"`
}

type GoPlaneBase struct {
	Name     string
	Homes    []air.Airport
	Rating   int64
	CanFly   bool
	Capacity int64
	MaxSpeed float64
}

type GoB737 struct{ Base *GoPlaneBase }

type GoAircraft struct {
	Which air.Aircraft_Which
	B737  *GoB737
	A320  *GoB737
	F16   *GoB737
}

type GoRegression struct {
	Base   *GoPlaneBase
	B0     float64
	Beta   []float64
	Planes []GoAircraft
	Ymu    float64
	Ysd    float64
}

type GoZGroup struct {
	First  uint64
	Second uint64
}

type GoZ struct {
	Which air.Z_Which
	Zz    *GoZ

	F64 float64
	F32 float32
	I64 int64
	I32 int32
	I16 int16
	I8  int8
	U64 uint64
	U32 uint32
	U16 uint16
	U8  uint8

	Bool bool
	Text string
	Blob []byte `verif:"alias"`

	F64vec []float64
	F32vec []float32
	I64vec []int64
	I32vec []int32
	I16vec []int16
	I8vec  []int8
	U64vec []uint64
	U32vec []uint32
	U16vec []uint16
	U8vec  []uint8

	Boolvec []bool
	Datavec [][]byte `verif:"alias"`
	Textvec []string

	Zvec    []*GoZ
	Zvecvec [][]*GoZ

	Zdate *GoZdate
	Zdata *GoZdata

	Aircraftvec []GoAircraft
	Aircraft    *GoAircraft
	Regression  *GoRegression
	Planebase   *GoPlaneBase
	Airport     air.Airport
	B737        *GoB737
	A320        *GoB737
	F16         *GoB737
	Zdatevec    []GoZdate
	Zdatavec    []*GoZdata

	Grp *GoZGroup

	Echo   air.Echo
	Echoes []air.Echo

	AnyPtr        capnp.Ptr
	AnyStruct     capnp.Struct
	AnyList       capnp.List
	AnyCapability *capnp.Client
}

type GoCounter struct {
	Size     int64
	Words    string
	Wordlist []string
	Bitlist  []bool
}

type GoHoldsText struct {
	Txt    []byte   `verif:"alias"`
	Lst    [][]byte `verif:"alias"`
	Lstlst [][]string
}

// Typed is one schema type with its Go mirror.
type Typed struct {
	Name string
	ID   uint64
	New  func() interface{}
}

// Types are the schema types the typed consumers are run against: the
// union-heavy Z (also the only recursive type: zz, zvec, zvecvec),
// PlaneBase, the list-heavy Regression / HoldsText, and Counter (bit list).
var Types = []Typed{
	{"Z", air.Z_TypeID, func() interface{} { return new(GoZ) }},
	{"PlaneBase", air.PlaneBase_TypeID, func() interface{} { return new(GoPlaneBase) }},
	{"Regression", air.Regression_TypeID, func() interface{} { return new(GoRegression) }},
	{"HoldsText", air.HoldsText_TypeID, func() interface{} { return new(GoHoldsText) }},
	{"Counter", air.Counter_TypeID, func() interface{} { return new(GoCounter) }},
}

// TextMarshal renders s as type t.
func TextMarshal(t Typed, s capnp.Struct) (string, error) { return text.Marshal(t.ID, s) }

// PogsExtract extracts s as type t and returns the Go value.
func PogsExtract(t Typed, s capnp.Struct) (interface{}, error) {
	v := t.New()
	err := pogs.Extract(v, t.ID, s)
	return v, err
}

// ByteSlices calls f for every non-empty byte slice in v that pogs documents
// as pointing into the original segment (Data fields and Text fields
// extracted into []byte; they carry the struct tag verif:"alias" above).
// Slices extracted from List(UInt8) are copies and are not reported.  At
// most `budget` values are visited.
func ByteSlices(v interface{}, budget int, f func([]byte)) {
	n := budget
	var walk func(x reflect.Value, depth int, alias bool)
	walk = func(x reflect.Value, depth int, alias bool) {
		if n <= 0 || depth > 80 {
			return
		}
		n--
		switch x.Kind() {
		case reflect.Ptr:
			if !x.IsNil() {
				walk(x.Elem(), depth+1, false)
			}
		case reflect.Struct:
			t := x.Type()
			if t == reflect.TypeOf(capnp.Ptr{}) || t == reflect.TypeOf(capnp.Struct{}) || t == reflect.TypeOf(capnp.List{}) || t == reflect.TypeOf(capnp.Client{}) {
				return
			}
			for i := 0; i < x.NumField(); i++ {
				walk(x.Field(i), depth+1, t.Field(i).Tag.Get("verif") == "alias")
			}
		case reflect.Slice:
			if x.Type().Elem().Kind() == reflect.Uint8 {
				if alias && x.Len() > 0 {
					f(x.Bytes())
				}
				return
			}
			k := x.Type().Elem().Kind()
			if k != reflect.Ptr && k != reflect.Struct && k != reflect.Slice {
				return
			}
			for i := 0; i < x.Len() && n > 0; i++ {
				walk(x.Index(i), depth+1, alias)
			}
		}
	}
	walk(reflect.ValueOf(v), 0, false)
}
