package hostile

import "encoding/binary"

// Independent mini decoder: what object does the pointer word at
// (segment, word) designate according to the encoding spec, and what is its
// spec'd traversal charge (C02: struct = data+pointer section size; list =
// count x element size, a zero-sized element counting one word).

const (
	KNull = iota
	KStruct
	KList
	KCap
	KInvalid
)

// Obj describes the designated object.
type Obj struct {
	Kind   int
	Seg    int   // segment of the content
	Off    int   // word offset of the content (after the tag for composite lists)
	DW, PC int   // struct sections / composite element sections, in words
	ET     int   // list element type 0..7
	N      int64 // element count
	// spec'd charge in bytes: [ReadLo, ReadHi].  They differ only for bit
	// lists (spec size ceil(n/8) bytes; the statement's "zero-sized element"
	// rule does not obviously apply, so anything up to one word per element is
	// accepted).
	ReadLo, ReadHi uint64
	Why            string // for KInvalid
}

func invalid(why string) Obj { return Obj{Kind: KInvalid, Why: why} }

// WordAt returns word i of a segment (ok=false if not fully inside).
func WordAt(seg []byte, i int) (uint64, bool) {
	if i < 0 || (i+1)*8 > len(seg) {
		return 0, false
	}
	return binary.LittleEndian.Uint64(seg[i*8:]), true
}

func sext30(w uint64) int64 { return int64(int32(uint32(w))) >> 2 }

var elemBytes = [8]uint64{0, 0, 1, 2, 4, 8, 8, 0}

// Resolve decodes the pointer stored at word `word` of segment `seg`.
func Resolve(segs [][]byte, seg, word int) Obj {
	if seg < 0 || seg >= len(segs) {
		return invalid("segment out of range")
	}
	w, ok := WordAt(segs[seg], word)
	if !ok {
		return invalid("pointer word out of bounds")
	}
	if w == 0 {
		return Obj{Kind: KNull}
	}
	switch w & 3 {
	case 2:
		id := int64(w >> 32)
		po := int((w >> 3) & 0x1FFFFFFF)
		if id >= int64(len(segs)) {
			return invalid("far: segment id out of range")
		}
		ps := int(id)
		if w&4 == 0 {
			pad, ok := WordAt(segs[ps], po)
			if !ok {
				return invalid("far: landing pad out of bounds")
			}
			if pad == 0 {
				return Obj{Kind: KNull}
			}
			if pad&3 == 2 {
				return invalid("far: landing pad is a far pointer")
			}
			return near(segs, ps, int64(po)+1+sext30(pad), pad)
		}
		far, ok1 := WordAt(segs[ps], po)
		tag, ok2 := WordAt(segs[ps], po+1)
		if !ok1 || !ok2 {
			return invalid("double-far: landing pad out of bounds")
		}
		if far&7 != 2 {
			return invalid("double-far: first pad word is not a far pointer")
		}
		if k := tag & 3; (k != 0 && k != 1) || sext30(tag) != 0 {
			return invalid("double-far: tag is not a zero-offset struct/list pointer")
		}
		id2 := int64(far >> 32)
		if id2 >= int64(len(segs)) {
			return invalid("double-far: content segment out of range")
		}
		return near(segs, int(id2), int64((far>>3)&0x1FFFFFFF), tag)
	case 3:
		if uint32(w)>>2 != 0 {
			return invalid("unknown other pointer")
		}
		return Obj{Kind: KCap, N: int64(w >> 32)}
	}
	return near(segs, seg, int64(word)+1+sext30(w), w)
}

// near decodes struct/list pointer word w whose target starts at word
// `start` of segment seg.
func near(segs [][]byte, seg int, start int64, w uint64) Obj {
	L := int64(len(segs[seg]))
	if start < 0 {
		return invalid("target before segment start")
	}
	switch w & 3 {
	case 0:
		dw, pc := int64(uint16(w>>32)), int64(uint16(w>>48))
		if (start+dw+pc)*8 > L {
			return invalid("struct out of bounds")
		}
		sz := uint64(dw+pc) * 8
		return Obj{Kind: KStruct, Seg: seg, Off: int(start), DW: int(dw), PC: int(pc), ReadLo: sz, ReadHi: sz}
	case 1:
		et := int((w >> 32) & 7)
		n := int64(w >> 35)
		switch et {
		case 7:
			if (start+1+n)*8 > L {
				return invalid("composite list out of bounds")
			}
			tag, _ := WordAt(segs[seg], int(start))
			if tag&3 != 0 {
				return invalid("composite tag is not a struct pointer")
			}
			cnt := sext30(tag)
			dw, pc := int64(uint16(tag>>32)), int64(uint16(tag>>48))
			if cnt < 0 {
				return invalid("composite tag: negative element count")
			}
			if (start+1+cnt*(dw+pc))*8 > L {
				return invalid("composite elements out of bounds")
			}
			e := uint64(dw+pc) * 8
			if e == 0 {
				e = 8
			}
			sz := uint64(cnt) * e
			o := Obj{Kind: KList, Seg: seg, Off: int(start + 1), DW: int(dw), PC: int(pc), ET: 7, N: cnt, ReadLo: sz, ReadHi: sz}
			if cnt*(dw+pc) > n {
				o.Why = "elements exceed the pointer's word count" // spec-invalid, the library tolerates it
			}
			return o
		case 1:
			bytes := (n + 7) / 8
			if start*8+bytes > L {
				return invalid("bit list out of bounds")
			}
			return Obj{Kind: KList, Seg: seg, Off: int(start), ET: 1, N: n, ReadLo: uint64(bytes), ReadHi: uint64(n) * 8}
		case 0:
			if start*8 > L {
				return invalid("void list out of bounds")
			}
			return Obj{Kind: KList, Seg: seg, Off: int(start), ET: 0, N: n, ReadLo: uint64(n) * 8, ReadHi: uint64(n) * 8}
		default:
			sz := uint64(n) * elemBytes[et]
			if uint64(start)*8+sz > uint64(L) {
				return invalid("list out of bounds")
			}
			o := Obj{Kind: KList, Seg: seg, Off: int(start), ET: et, N: n, ReadLo: sz, ReadHi: sz}
			if et == 6 {
				o.PC = 1
			}
			return o
		}
	}
	return invalid("not a struct/list pointer")
}

// PtrSlot returns the (segment, word) of pointer i of struct o, or element
// i of pointer list o.
func (o Obj) PtrSlot(i int) (seg, word int) {
	if o.Kind == KStruct {
		return o.Seg, o.Off + o.DW + i
	}
	return o.Seg, o.Off + i
}

// Elem returns the struct view of element i of list o (composite or
// pointer list), as the library's List.Struct(i) would project it.
func (o Obj) Elem(i int) Obj {
	if o.ET == 7 {
		return Obj{Kind: KStruct, Seg: o.Seg, Off: o.Off + i*(o.DW+o.PC), DW: o.DW, PC: o.PC}
	}
	if o.ET == 6 {
		return Obj{Kind: KStruct, Seg: o.Seg, Off: o.Off + i, DW: 0, PC: 1}
	}
	return Obj{Kind: KStruct, Seg: o.Seg, Off: o.Off, DW: 0, PC: 0}
}

// HugeCapable reports whether any word of the message, read as a list
// pointer or as a composite tag, carries an element count above limit
// (negative tag counts do not amplify anything and are not counted).
func HugeCapable(segs [][]byte, limit int64) bool {
	maxSeg := int64(0)
	for _, s := range segs {
		if int64(len(s)) > maxSeg {
			maxSeg = int64(len(s))
		}
	}
	bits := [8]int64{0, 1, 8, 16, 32, 64, 64, 0}
	for _, s := range segs {
		for i := 0; (i+1)*8 <= len(s); i++ {
			w, _ := WordAt(s, i)
			switch w & 3 {
			case 1:
				// a list of n elements can only be handed out if it fits a segment
				et := (w >> 32) & 7
				if n := int64(w >> 35); n > limit && et != 7 && n*bits[et]/8 <= maxSeg {
					return true
				}
			case 0:
				sz := int64(uint16(w>>32)) + int64(uint16(w>>48))
				if c := sext30(w); c > limit && c*sz*8 <= maxSeg {
					return true
				}
			}
		}
	}
	return false
}
