package hostile

import (
	"bytes"
	"os"
	"os/exec"
	"regexp"
	"runtime/debug"
	"strings"
	"time"
)

// Process isolation for operations that may die with a Go fatal error
// (stack overflow is not recoverable): the harness binary re-executes itself
// with VERIF_CHILD=<payload>; main() must call ChildPayload first and, if it
// is non-empty, do the work and exit.  The child announces each step with
// ChildStep so that the parent knows which one killed it.

const childEnv = "VERIF_CHILD"

// ChildPayload returns the payload if this process is an isolation child.
// It also applies the runner's 48 MiB stack cap.
func ChildPayload() string {
	p := os.Getenv(childEnv)
	if p != "" {
		debug.SetMaxStack(48 << 20)
	}
	return p
}

// ChildStep announces the step the child is about to perform.
func ChildStep(name string) { os.Stderr.WriteString("\nVERIF-STEP " + name + "\n") }

type capWriter struct {
	head bytes.Buffer
	tail []byte
}

func (w *capWriter) Write(p []byte) (int, error) {
	if w.head.Len() < 16<<10 {
		w.head.Write(p)
	} else {
		w.tail = append(w.tail, p...)
		if len(w.tail) > 16<<10 {
			w.tail = w.tail[len(w.tail)-(8<<10):]
		}
	}
	return len(p), nil
}

var stepRe = regexp.MustCompile(`VERIF-STEP ([^\n]+)`)

// RunChild runs the payload in a child process.  ok means exit status 0.
// Otherwise class is "stack-overflow", "out-of-memory", "timeout", "panic"
// or "exit", step the last announced step, and detail the head of stderr.
func RunChild(payload string, timeout time.Duration) (ok bool, class, step, detail string) {
	cmd := exec.Command(os.Args[0])
	cmd.Env = append(os.Environ(), childEnv+"="+payload, "GOTRACEBACK=single")
	w := &capWriter{}
	cmd.Stderr = w
	if err := cmd.Start(); err != nil {
		return false, "exit", "", "cannot start child: " + err.Error()
	}
	done := make(chan error, 1)
	go func() { done <- cmd.Wait() }()
	var err error
	select {
	case err = <-done:
	case <-time.After(timeout):
		cmd.Process.Kill()
		<-done
		return false, "timeout", lastStep(w), "child exceeded " + timeout.String()
	}
	if err == nil {
		return true, "", "", ""
	}
	out := w.head.String() + string(w.tail)
	switch {
	case strings.Contains(out, "stack overflow") || strings.Contains(out, "goroutine stack exceeds"):
		class = "stack-overflow"
	case strings.Contains(out, "out of memory"):
		class = "out-of-memory"
	case strings.Contains(out, "panic:"):
		class = "panic"
	default:
		class = "exit"
	}
	d := w.head.String()
	if i := strings.LastIndex(d, "VERIF-STEP"); i >= 0 {
		d = d[i:]
	}
	if len(d) > 1800 {
		d = d[:1800] + "\n...[truncated]"
	}
	return false, class, lastStep(w), d
}

func lastStep(w *capWriter) string {
	all := stepRe.FindAllStringSubmatch(w.head.String()+string(w.tail), -1)
	if len(all) == 0 {
		return ""
	}
	return all[len(all)-1][1]
}
