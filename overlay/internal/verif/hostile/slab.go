package hostile

import (
	"bytes"
	"encoding/binary"
	"errors"
	"fmt"
	"reflect"
	"unsafe"

	capnp "capnproto.org/go/capnp/v3"
	"capnproto.org/go/capnp/v3/internal/verif/ref"
)

// Mem is a canary-filled slab from which segments are carved with
// cap == len, so that any reslice beyond a segment panics and any slice the
// library returns can be range-checked against the segment memory.
type Mem struct {
	buf []byte
}

const canary = 0xA5
const gap = 64

// NewMem allocates a slab able to hold `bytes` of segment data.
func NewMem(bytes int) *Mem {
	m := &Mem{buf: make([]byte, bytes+16*gap)}
	for i := range m.buf {
		m.buf[i] = canary
	}
	return m
}

// Lay carves segments with the given contents out of the slab.  Previous
// carvings become invalid.
func (m *Mem) Lay(contents [][]byte) [][]byte {
	out := make([][]byte, len(contents))
	o := gap
	for i, c := range contents {
		n := len(c)
		if o+n+gap > len(m.buf) {
			panic("hostile: slab too small")
		}
		copy(m.buf[o:], c)
		out[i] = m.buf[o : o+n : o+n]
		o += n
		for k := 0; k < gap; k++ {
			m.buf[o+k] = canary
		}
		o += gap
		o = (o + 7) &^ 7
	}
	return out
}

// Region is a half-open address range.
type Region struct{ Lo, Hi uintptr }

// Regions is the memory a reader may hand out.
type Regions []Region

func dataPtr(b []byte) uintptr {
	return (*reflect.SliceHeader)(unsafe.Pointer(&b)).Data
}

// RegionsOf returns the address ranges of the given slices.
func RegionsOf(segs [][]byte) Regions {
	var r Regions
	for _, s := range segs {
		p := dataPtr(s)
		r = append(r, Region{p, p + uintptr(len(s))})
	}
	return r
}

// Contains reports whether b (if non-empty) lies inside one region,
// including its capacity.
func (r Regions) Contains(b []byte) bool {
	if len(b) == 0 {
		return true
	}
	p := dataPtr(b)
	for _, g := range r {
		if p >= g.Lo && p+uintptr(len(b)) <= g.Hi && p+uintptr(cap(b)) <= g.Hi {
			return true
		}
	}
	return false
}

// ---- arenas ----

// HArena is a harness arena: it claims N segments, delivers Segs, and fails
// Data for FailID (or for ids it cannot deliver).  It is read-only.
type HArena struct {
	Segs   [][]byte
	N      int64
	FailID int64
}

func (a *HArena) NumSegments() int64 { return a.N }
func (a *HArena) Data(id capnp.SegmentID) ([]byte, error) {
	if int64(id) == a.FailID {
		return nil, errors.New("harness arena: injected Data failure")
	}
	if int64(id) >= int64(len(a.Segs)) {
		return nil, errors.New("harness arena: segment not deliverable")
	}
	return a.Segs[id], nil
}
func (a *HArena) Allocate(sz capnp.Size, segs map[capnp.SegmentID]*capnp.Segment) (capnp.SegmentID, []byte, error) {
	return 0, nil, errors.New("harness arena: read-only")
}

// ---- framings ----

const (
	FBare    = iota // SingleSegment / MultiSegment arena over the slab segments
	FHarness        // HArena over the slab segments
	FUnmarshal
	FUnmarshalPacked
	FDecoder
	FPackedDecoder
	FDecoderReuse
	NFramings
)

var FramingName = [...]string{"bare", "harness-arena", "unmarshal", "unmarshal-packed", "decoder", "packed-decoder", "decoder-reuse"}

// Frame writes the stream framing of encoding.html#serialization-over-a-stream.
// Segments must be whole words.
func Frame(segs [][]byte) []byte {
	n := len(segs)
	hdr := make([]byte, 4*(n+1))
	binary.LittleEndian.PutUint32(hdr, uint32(n-1))
	for i, s := range segs {
		binary.LittleEndian.PutUint32(hdr[4*(i+1):], uint32(len(s)/8))
	}
	if len(hdr)%8 != 0 {
		hdr = append(hdr, 0, 0, 0, 0)
	}
	for _, s := range segs {
		hdr = append(hdr, s...)
	}
	return hdr
}

// Opened is a message under test together with the memory it may hand out.
type Opened struct {
	Msg     *capnp.Message
	Regions Regions
	Segs    [][]byte // the supplied segment contents (for the shadow decoder)
}

// Open builds the message for the given framing.  contents are the segment
// bytes; mem supplies canary memory.  A framing error is returned as err
// (never a violation by itself); check reports deviations of the delivered
// segments from the supplied ones.
func Open(framing int, contents [][]byte, mem *Mem, check func(key, detail string)) (*Opened, error) {
	switch framing {
	case FBare:
		segs := mem.Lay(contents)
		var a capnp.Arena
		if len(segs) == 1 {
			a = capnp.SingleSegment(segs[0])
		} else {
			a = capnp.MultiSegment(segs)
		}
		return &Opened{Msg: &capnp.Message{Arena: a}, Regions: RegionsOf(segs), Segs: segs}, nil
	case FHarness:
		segs := mem.Lay(contents)
		a := &HArena{Segs: segs, N: int64(len(segs)), FailID: -1}
		return &Opened{Msg: &capnp.Message{Arena: a}, Regions: RegionsOf(segs), Segs: segs}, nil
	}
	for _, c := range contents {
		if len(c)%8 != 0 {
			return nil, errors.New("framing needs whole words")
		}
	}
	frame := Frame(contents)
	var msg *capnp.Message
	var err error
	switch framing {
	case FUnmarshal:
		fr := mem.Lay([][]byte{frame})[0]
		msg, err = capnp.Unmarshal(fr)
		if err != nil {
			return nil, err
		}
		// expected segment positions inside the frame
		hdr := (4*(len(contents)+1) + 7) &^ 7
		var segs [][]byte
		o := hdr
		for _, c := range contents {
			segs = append(segs, fr[o:o+len(c):o+len(c)])
			o += len(c)
		}
		op := &Opened{Msg: msg, Regions: RegionsOf(segs), Segs: segs}
		verifySegs(op, true, check)
		return op, nil
	case FUnmarshalPacked:
		pk := ref.Pack(frame)
		msg, err = capnp.UnmarshalPacked(mem.Lay([][]byte{pk})[0])
	case FDecoder:
		msg, err = capnp.NewDecoder(bytes.NewReader(frame)).Decode()
	case FPackedDecoder:
		msg, err = capnp.NewPackedDecoder(bytes.NewReader(ref.Pack(frame))).Decode()
	case FDecoderReuse:
		d := capnp.NewDecoder(bytes.NewReader(frame))
		d.ReuseBuffer()
		msg, err = d.Decode()
	default:
		panic("hostile: unknown framing")
	}
	if err != nil {
		return nil, err
	}
	op := &Opened{Msg: msg}
	// The decoder owns the memory; take the regions from the delivered
	// segments and require their contents to be the supplied bytes.
	n := msg.NumSegments()
	if n != int64(len(contents)) {
		check("framing-segment-count/"+FramingName[framing], fmt.Sprintf("%d segments delivered, %d supplied", n, len(contents)))
		return nil, errors.New("segment count differs")
	}
	for id := int64(0); id < n; id++ {
		s, err := msg.Segment(capnp.SegmentID(id))
		if err != nil {
			check("framing-segment-error/"+FramingName[framing], err.Error())
			return nil, err
		}
		op.Segs = append(op.Segs, s.Data())
	}
	op.Regions = RegionsOf(op.Segs)
	for i := range contents {
		if !bytes.Equal(op.Segs[i], contents[i]) {
			check("framing-bytes-differ/"+FramingName[framing], fmt.Sprintf("segment %d: got %x want %x", i, op.Segs[i], contents[i]))
		}
	}
	return op, nil
}

// verifySegs checks (after the walk would be too late for nothing: it only
// reads) that the library's view of each segment is exactly the supplied
// memory.
func verifySegs(op *Opened, identity bool, check func(key, detail string)) {
	for i, want := range op.Segs {
		s, err := op.Msg.Segment(capnp.SegmentID(i))
		if err != nil {
			check("segment-load-error", err.Error())
			continue
		}
		got := s.Data()
		if len(got) != len(want) || (len(got) > 0 && dataPtr(got) != dataPtr(want)) || cap(got) != len(got) {
			check("segment-not-supplied-bytes", fmt.Sprintf("segment %d: len %d cap %d (supplied len %d)", i, len(got), cap(got), len(want)))
		}
	}
}
