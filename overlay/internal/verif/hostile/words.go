// Package hostile generates boundary-complete hostile Cap'n Proto messages
// for the C01/C02 harnesses: pointer-word constructors written from the
// encoding spec, per-position word alphabets, an independent mini decoder
// (object kind and spec'd read size of the object a pointer word designates),
// canary-slab segment memory, arenas and framings.
//
// Nothing in words.go / decode.go uses the library under test.
package hostile

import "sort"

// ---- pointer word constructors (encoding.html) ----

// StructPtr: bits 0-1 = 0, 2-31 signed word offset, 32-47 data words, 48-63 pointers.
func StructPtr(off int32, dw, pc uint16) uint64 {
	return uint64(uint32(off)<<2) | uint64(dw)<<32 | uint64(pc)<<48
}

// ListPtr: bits 0-1 = 1, 2-31 offset, 32-34 element type, 35-63 count.
func ListPtr(off int32, et uint8, n uint32) uint64 {
	return 1 | uint64(uint32(off)<<2) | uint64(et&7)<<32 | uint64(n&0x1FFFFFFF)<<35
}

// FarPtr: bits 0-1 = 2, bit 2 = double-far, 3-31 landing pad word offset, 32-63 segment.
func FarPtr(seg uint32, wordOff uint32, double bool) uint64 {
	w := uint64(2) | uint64(wordOff&0x1FFFFFFF)<<3 | uint64(seg)<<32
	if double {
		w |= 4
	}
	return w
}

// CapPtr: bits 0-1 = 3, 2-31 = 0, 32-63 capability index.
func CapPtr(idx uint32) uint64 { return 3 | uint64(idx)<<32 }

// OtherPtr: bits 0-1 = 3 with non-zero type bits 2-31.
func OtherPtr(typeBits uint32, hi uint32) uint64 {
	return 3 | uint64(typeBits&0x3FFFFFFF)<<2 | uint64(hi)<<32
}

// Tag is a composite-list tag word: a struct pointer whose offset field is
// the element count.
func Tag(count int32, dw, pc uint16) uint64 { return StructPtr(count, dw, pc) }

const (
	MaxCount  = 1<<29 - 1
	MinOffset = -(1 << 29)
	MaxOffset = 1<<29 - 1
)

// elements per word for list element types 1..6 (0 = void, 7 = composite)
var perWord = [8]int{0, 64, 8, 4, 2, 1, 1, 0}

type wordSet struct {
	seen map[uint64]bool
	out  []uint64
}

func (s *wordSet) add(w uint64) {
	if !s.seen[w] {
		s.seen[w] = true
		s.out = append(s.out, w)
	}
}

func uniqInts(xs []int) []int {
	sort.Ints(xs)
	var o []int
	for i, x := range xs {
		if i == 0 || x != xs[i-1] {
			o = append(o, x)
		}
	}
	return o
}

// Level of an alphabet.
const (
	Micro = -2 // ~40 words: one witness per boundary class
	Mini  = -1 // ~75 words
	Core  = 0  // ~110 words
	Full  = 1  // ~150-190 words
)

// Alphabet returns the word alphabet for word i of segment s of a message
// whose segments have segLens[k] words (a trailing partial word counts as a
// word).  It is boundary-complete in the sense of DESIGN.md C01: for every
// pointer kind, field values that put the start or the end of the referenced
// region on every word boundary in [-1, L+1] of the addressed segment
// (Full; Core keeps -1, 0, just-behind-the-pointer, L-1, L, L+1), the field
// extrema, every composite tag shape, every segment id incl. out of range
// with every landing offset, capability / other pointers and data words.
// The order is deterministic.
func Alphabet(segLens []int, s, i int, level int) []uint64 {
	if level < Core {
		return alphabetSmall(segLens, s, i, level)
	}
	L := segLens[s]
	ws := &wordSet{seen: map[uint64]bool{}}
	t0 := i + 1 // target of offset 0
	var starts []int
	if level == Full {
		for t := -1; t <= L+1; t++ {
			starts = append(starts, t)
		}
	} else {
		starts = uniqInts([]int{-1, 0, t0, L - 1, L, L + 1})
	}
	ends := starts
	off := func(t int) int32 { return int32(t - t0) }

	// null and data words
	ws.add(0)
	ws.add(0x0000000021006968) // "hi\0!" : bytes 68 69 00 21 00.. (NUL inside, NUL at end)
	ws.add(0x4141414141414141) // no NUL
	ws.add(^uint64(0))

	// struct pointers: every start with sizes 0, 1 data, 1 pointer
	for _, t := range starts {
		ws.add(StructPtr(off(t), 0, 0))
		ws.add(StructPtr(off(t), 1, 0))
		ws.add(StructPtr(off(t), 0, 1))
	}
	// every end, from the two fixed starts t0 and 0
	for _, b := range []int{t0, 0} {
		for _, e := range ends {
			z := e - b
			if z < 0 || z > 0xFFFF {
				continue
			}
			ws.add(StructPtr(off(b), uint16(z), 0))
			ws.add(StructPtr(off(b), 0, uint16(z)))
			if z >= 2 && (level == Full || b == t0) {
				ws.add(StructPtr(off(b), 1, uint16(z-1)))
			}
		}
	}
	ws.add(StructPtr(0, 1, 1))
	ws.add(StructPtr(0, 0xFFFF, 0))
	ws.add(StructPtr(0, 0, 0xFFFF))
	if level == Full {
		ws.add(StructPtr(0, 0xFFFF, 0xFFFF))
		ws.add(StructPtr(MinOffset, 0, 0))
		ws.add(StructPtr(MaxOffset, 0, 0))
		ws.add(StructPtr(MinOffset, 1, 1))
		ws.add(StructPtr(MaxOffset, 1, 1))
	} else {
		ws.add(StructPtr(MaxOffset, 1, 1))
	}

	// non-composite lists
	for et := uint8(0); et <= 6; et++ {
		pw := perWord[et]
		if et == 0 {
			for _, t := range uniqInts([]int{-1, t0, L, L + 1}) {
				ws.add(ListPtr(off(t), 0, 1))
			}
			ws.add(ListPtr(0, 0, 0))
			ws.add(ListPtr(0, 0, 2))
			ws.add(ListPtr(0, 0, MaxCount))
			continue
		}
		lstarts := starts
		if level == Core {
			lstarts = uniqInts([]int{-1, 0, L - 1, L, L + 1})
		}
		for _, t := range lstarts {
			ws.add(ListPtr(off(t), et, 1))
		}
		ws.add(ListPtr(0, et, 0))
		ws.add(ListPtr(off(L+1), et, 0))
		ws.add(ListPtr(0, et, 2))
		ws.add(ListPtr(0, et, MaxCount))
		if level == Full {
			ws.add(ListPtr(0, et, 3))
			ws.add(ListPtr(0, et, 8))
		}
		// exactly filling the rest of the segment, and one element more
		for _, b := range []int{t0, 0} {
			if room := L - b; room >= 0 {
				ws.add(ListPtr(off(b), et, uint32(room*pw)))
				ws.add(ListPtr(off(b), et, uint32(room*pw+1)))
				if level == Full && room >= 1 && pw > 1 {
					// last element ends one sub-word unit before / after a word boundary
					ws.add(ListPtr(off(b), et, uint32((room-1)*pw+1)))
				}
			}
			if level == Core {
				break
			}
		}
	}

	// composite list pointers: tag word at t, wc content words behind it
	for _, t := range starts {
		ws.add(ListPtr(off(t), 7, 0))
		ws.add(ListPtr(off(t), 7, 1))
	}
	for _, b := range []int{t0, 0} {
		if room := L - b - 1; room >= 0 {
			ws.add(ListPtr(off(b), 7, uint32(room)))
			ws.add(ListPtr(off(b), 7, uint32(room+1)))
		}
		ws.add(ListPtr(off(b), 7, 2))
	}
	ws.add(ListPtr(0, 7, MaxCount))
	ws.add(ListPtr(-1, 7, 1)) // tag is the pointer itself

	// composite tags (struct-pointer shaped words; offset field = count)
	counts := []int32{-1, 0, 1, 2}
	sizes := [][2]uint16{{0, 0}, {1, 0}, {0, 1}, {1, 1}}
	for _, c := range counts {
		for _, z := range sizes {
			ws.add(Tag(c, z[0], z[1]))
		}
	}
	ws.add(Tag(MaxCount, 0, 0))
	ws.add(Tag(MaxCount, 1, 0))
	ws.add(Tag(-1, 0xFFFF, 0xFFFF))
	ws.add(Tag(1, 0xFFFF, 0xFFFF))
	if level == Full {
		ws.add(Tag(MaxCount, 0xFFFF, 0xFFFF))
		ws.add(Tag(MinOffset, 0, 0))
		ws.add(Tag(3, 0, 0))
		ws.add(Tag(3, 0, 1))
	}

	// far and double-far pointers
	n := len(segLens)
	for _, dbl := range []bool{false, true} {
		for id := 0; id < n; id++ {
			for o := 0; o <= segLens[id]+1; o++ {
				ws.add(FarPtr(uint32(id), uint32(o), dbl))
			}
		}
		ws.add(FarPtr(uint32(n), 0, dbl))
		ws.add(FarPtr(0xFFFFFFFF, 0, dbl))
		if level == Full {
			ws.add(FarPtr(uint32(n), 1, dbl))
			ws.add(FarPtr(0, MaxCount, dbl))
		}
	}

	// capabilities and unknown "other" pointers
	ws.add(CapPtr(0))
	ws.add(CapPtr(1))
	ws.add(CapPtr(0xFFFFFFFF))
	ws.add(OtherPtr(1, 0))
	ws.add(OtherPtr(0x3FFFFFFF, 0)) // all type bits, index 0 (^0 above has both)
	return ws.out
}

// PointerOnly returns the pointer-only sub-alphabet used by the C02 depth
// family for word i of a single segment of L words: struct pointers with
// (data,pointer) sizes (0,1) (0,2) (1,1) to every start that keeps the
// struct in bounds, pointer-list pointers and composite-list pointers to
// every in-bounds start with every in-bounds count, composite tags, far and
// double-far pointers to every word, and null.
func PointerOnly(L, i int) []uint64 {
	ws := &wordSet{seen: map[uint64]bool{}}
	t0 := i + 1
	ws.add(0)
	for t := 0; t <= L; t++ {
		o := int32(t - t0)
		for _, z := range [][2]uint16{{0, 1}, {0, 2}, {1, 1}} {
			if t+int(z[0])+int(z[1]) <= L {
				ws.add(StructPtr(o, z[0], z[1]))
			}
		}
		for c := 1; t+c <= L && c <= 2; c++ {
			ws.add(ListPtr(o, 6, uint32(c)))
		}
		for wc := 1; t+1+wc <= L && wc <= 2; wc++ {
			ws.add(ListPtr(o, 7, uint32(wc)))
		}
	}
	// tags: count 1 or 2 of pointer-only / data+pointer elements
	ws.add(Tag(1, 0, 1))
	ws.add(Tag(2, 0, 1))
	ws.add(Tag(1, 1, 1))
	ws.add(Tag(1, 0, 2))
	for o := 0; o < L; o++ {
		ws.add(FarPtr(0, uint32(o), false))
		if o+1 < L {
			ws.add(FarPtr(0, uint32(o), true))
		}
	}
	return ws.out
}

// alphabetSmall is the reduced alphabet: for each pointer kind the region
// that exactly fits the rest of the segment and the one that overflows it by
// one unit, regions starting at -1, 0, L and L+1, the field extrema and the
// composite tag shapes; Mini adds the second fixed start and more list types.
func alphabetSmall(segLens []int, s, i int, level int) []uint64 {
	L := segLens[s]
	ws := &wordSet{seen: map[uint64]bool{}}
	t0 := i + 1
	off := func(t int) int32 { return int32(t - t0) }
	room := L - t0
	if room < 0 {
		room = 0
	}
	mini := level == Mini
	ws.add(0)
	ws.add(0x0000000021006968)
	// structs
	ws.add(StructPtr(0, 0, 0))
	ws.add(StructPtr(-1, 0, 0))
	ws.add(StructPtr(0, 1, 1))
	ws.add(StructPtr(0, 0, uint16(room)))
	ws.add(StructPtr(0, 0, uint16(room+1)))
	ws.add(StructPtr(0, uint16(room+1), 0))
	ws.add(StructPtr(off(0), 0, 1))
	ws.add(StructPtr(off(-1), 0, 1))
	ws.add(StructPtr(off(L), 0, 1))
	ws.add(StructPtr(0, 0xFFFF, 0xFFFF))
	if mini {
		ws.add(StructPtr(0, 1, 0))
		ws.add(StructPtr(0, 0, 1))
		ws.add(StructPtr(0, uint16(room), 0))
		ws.add(StructPtr(off(0), 1, 1))
		ws.add(StructPtr(off(0), 0, uint16(L)))
		ws.add(StructPtr(off(0), 0, uint16(L+1)))
		ws.add(StructPtr(off(L), 0, 0))
		ws.add(StructPtr(off(L+1), 0, 0))
		ws.add(StructPtr(0, 0xFFFF, 0))
		ws.add(StructPtr(0, 0, 0xFFFF))
		ws.add(StructPtr(MaxOffset, 1, 1))
		ws.add(StructPtr(MinOffset, 0, 0))
	}
	// lists
	ets := []uint8{2, 6}
	if mini {
		ets = []uint8{1, 2, 3, 4, 5, 6}
	}
	for _, et := range ets {
		ws.add(ListPtr(0, et, uint32(room*perWord[et])))
		ws.add(ListPtr(0, et, uint32(room*perWord[et]+1)))
	}
	ws.add(ListPtr(0, 1, uint32(room*64+1)))
	ws.add(ListPtr(0, 5, uint32(room+1)))
	ws.add(ListPtr(0, 0, MaxCount))
	ws.add(ListPtr(off(-1), 2, 1))
	ws.add(ListPtr(off(0), 6, 1))
	if mini {
		ws.add(ListPtr(0, 0, 1))
		ws.add(ListPtr(0, 2, 0))
		ws.add(ListPtr(off(L), 2, 1))
		ws.add(ListPtr(off(L+1), 2, 0))
		ws.add(ListPtr(off(-1), 6, 1))
		ws.add(ListPtr(off(L), 6, 1))
		ws.add(ListPtr(off(0), 2, uint32(8*L)))
		ws.add(ListPtr(off(0), 2, uint32(8*L+1)))
		ws.add(ListPtr(0, 5, MaxCount))
		ws.add(ListPtr(0, 1, MaxCount))
		ws.add(ListPtr(0, 6, 2))
	}
	// composite list pointers
	if room >= 1 {
		ws.add(ListPtr(0, 7, uint32(room-1)))
	}
	ws.add(ListPtr(0, 7, uint32(room)))
	ws.add(ListPtr(-1, 7, 1))
	ws.add(ListPtr(off(0), 7, 1))
	if mini {
		ws.add(ListPtr(0, 7, 0))
		ws.add(ListPtr(0, 7, 1))
		ws.add(ListPtr(off(0), 7, uint32(L)))
		ws.add(ListPtr(off(L-1), 7, 0))
		ws.add(ListPtr(off(L), 7, 0))
		ws.add(ListPtr(0, 7, MaxCount))
	}
	// tags
	ws.add(Tag(-1, 0, 0))
	ws.add(Tag(1, 0, 1))
	ws.add(Tag(1, 1, 1))
	ws.add(Tag(1, 1, 0))
	ws.add(Tag(2, 0, 1))
	ws.add(Tag(MaxCount, 0, 0))
	if mini {
		ws.add(Tag(0, 0, 0))
		ws.add(Tag(1, 0, 0))
		ws.add(Tag(0, 1, 1))
		ws.add(Tag(-1, 1, 1))
		ws.add(Tag(2, 1, 0))
		ws.add(Tag(1, 0xFFFF, 0xFFFF))
		ws.add(Tag(MaxCount, 1, 0))
	}
	// far / double-far
	n := len(segLens)
	for id := 0; id < n; id++ {
		l := segLens[id]
		for _, o := range uniqInts([]int{0, l - 1, l}) {
			if o >= 0 {
				ws.add(FarPtr(uint32(id), uint32(o), false))
			}
		}
		for _, o := range uniqInts([]int{0, l - 2, l - 1}) {
			if o >= 0 {
				ws.add(FarPtr(uint32(id), uint32(o), true))
			}
		}
		if mini {
			ws.add(FarPtr(uint32(id), uint32(l+1), false))
			ws.add(FarPtr(uint32(id), uint32(l), true))
			if l >= 2 {
				ws.add(FarPtr(uint32(id), 1, false))
			}
		}
	}
	ws.add(FarPtr(uint32(n), 0, false))
	if mini {
		ws.add(FarPtr(uint32(n), 0, true))
		ws.add(FarPtr(0xFFFFFFFF, 0, false))
		ws.add(FarPtr(0xFFFFFFFF, 0, true))
	}
	ws.add(CapPtr(0))
	ws.add(OtherPtr(1, 0))
	if mini {
		ws.add(CapPtr(0xFFFFFFFF))
		ws.add(^uint64(0))
	}
	return ws.out
}
