// C01 — reading arbitrary bytes never crashes, hangs or escapes the segments.
//
// Bounded-exhaustive enumeration of messages (segment configuration x words
// from a boundary-complete per-position alphabet, package hostile), every
// framing, limit configurations, and a walker that applies the read-side API
// to everything reachable.  Oracle: no panic / fatal / hang (runner),
// Len() >= 0, returned byte slices lie inside the supplied segment memory,
// errors are returned errors.
package main

import (
	"encoding/binary"
	"encoding/hex"
	"fmt"
	"os"
	"regexp"
	"runtime/debug"
	"strings"
	"time"

	capnp "capnproto.org/go/capnp/v3"
	"capnproto.org/go/capnp/v3/internal/verif/hostile"
	"capnproto.org/go/capnp/v3/internal/verif/vlib"
)

// ---- message spaces ----

type space struct {
	name     string
	segWords []int      // words per segment (a trailing partial word counts)
	segBytes []int      // byte length per segment
	alpha    [][]uint64 // per global word position
	arena    int        // 0 normal framings, 1 harness arena with faults
	n        int64
}

func newSpace(name string, segWords []int, level int) *space {
	sp := &space{name: name, segWords: segWords}
	sp.n = 1
	for s, L := range segWords {
		sp.segBytes = append(sp.segBytes, 8*L)
		for i := 0; i < L; i++ {
			a := hostile.Alphabet(segWords, s, i, level)
			sp.alpha = append(sp.alpha, a)
			sp.n *= int64(len(a))
		}
	}
	return sp
}

// contents decodes case index i into segment contents.
func (sp *space) contents(i int64) [][]byte {
	out := make([][]byte, len(sp.segWords))
	pos := 0
	for s, L := range sp.segWords {
		b := make([]byte, 8*L)
		for k := 0; k < L; k++ {
			a := sp.alpha[pos]
			binary.LittleEndian.PutUint64(b[8*k:], a[i%int64(len(a))])
			i /= int64(len(a))
			pos++
		}
		out[s] = b[:sp.segBytes[s]]
	}
	return out
}

func hexSegs(segs [][]byte) string {
	var parts []string
	for _, s := range segs {
		if len(s) > 64 {
			parts = append(parts, hex.EncodeToString(s[:32])+fmt.Sprintf("...(%d bytes)", len(s)))
		} else {
			parts = append(parts, hex.EncodeToString(s))
		}
	}
	return "[" + strings.Join(parts, " | ") + "]"
}

// ---- limit configurations ----

type limits struct {
	T uint64
	D uint
}

func (l limits) String() string {
	t := "default"
	if l.T != 0 {
		t = fmt.Sprint(l.T)
	}
	d := "default"
	if l.D != 0 {
		d = fmt.Sprint(l.D)
	}
	return "T=" + t + ",D=" + d
}

var allLimits = []limits{{0, 0}, {64, 0}, {1 << 40, 0}, {0, 3}, {64, 3}, {1 << 40, 3}}

// consumerClamp is the traversal budget given to recursive consumers on
// messages whose pointer graph is cyclic / heavily shared or that declare
// huge lists (time and memory at the default budget are exponential in the
// depth limit resp. gigabytes; C02 owns the budget accounting).
const consumerClamp = 4 << 10

// ---- walker ----

type walker struct {
	r         *vlib.Rec
	op        *hostile.Opened
	ctx       string // framing + limits, for details
	src       [][]byte
	budget    int
	objs      int
	prev      capnp.Ptr
	expensive bool
	md        mode
}

// mode selects which recursive consumers a walk applies.
type mode struct {
	consumers bool            // Equal, SetRoot, Canonicalize
	types     []hostile.Typed // text.Marshal / pogs.Extract at the root struct
}

var (
	accessorsOnly = mode{}
	untyped       = mode{consumers: true}
	typedAll      = mode{consumers: true, types: hostile.Types}
	typedZ        = mode{consumers: true, types: hostile.Types[:1]}
	typedPlain    = mode{consumers: true, types: hostile.Types[1:]}
)

func (w *walker) fail(key, format string, a ...interface{}) {
	w.r.Fail(key, fmt.Sprintf("%s segments=%s: ", w.ctx, hexSegs(w.src))+fmt.Sprintf(format, a...))
}

func (w *walker) inside(what string, b []byte) {
	if !w.op.Regions.Contains(b) {
		w.fail("escape/"+what, "%s returned %d bytes (cap %d) outside the supplied segment memory", what, len(b), cap(b))
	}
}

// guarded runs a recursive consumer with a clamped budget when needed.
func (w *walker) guarded(f func()) {
	if !w.expensive {
		f()
		return
	}
	m := w.op.Msg
	rem := m.VerifReadLimit()
	if rem > consumerClamp {
		m.ResetReadLimit(consumerClamp)
		f()
		m.ResetReadLimit(rem)
		return
	}
	f()
}

const maxDepth = 6

// recursive consumers (Equal, SetRoot, Canonicalize, typed) are applied to
// the root object, its direct children and the first element of a root list
const consumerDepth = 1

func (w *walker) ptr(p capnp.Ptr, depth int) {
	if !p.IsValid() {
		return
	}
	w.objs++
	w.budget--
	if w.budget < 0 {
		return
	}
	_ = p.Message()
	_ = p.Segment()
	tb := p.TextBytes()
	w.inside("Ptr.TextBytes", tb)
	if t := p.Text(); t != string(tb) {
		w.fail("text-mismatch", "Text()=%q TextBytes()=%q", t, tb)
	}
	w.inside("Ptr.TextBytesDefault", p.TextBytesDefault(""))
	_ = p.TextDefault("d")
	d := p.Data()
	w.inside("Ptr.Data", d)
	w.inside("Ptr.DataDefault", p.DataDefault(nil))
	if q, err := p.Default(nil); err == nil {
		_ = q
	}
	if depth <= consumerDepth && w.md.consumers {
		w.guarded(func() {
			capnp.Equal(p, p)
			if w.prev.IsValid() {
				capnp.Equal(p, w.prev)
				capnp.Equal(w.prev, p)
			}
		})
	}
	_ = capnp.SamePtr(p, w.prev)
	w.prev = p
	s, l, in := p.Struct(), p.List(), p.Interface()
	if in.IsValid() {
		_ = in.Capability()
		_ = in.Client()
		_ = in.Message()
	}
	if s.IsValid() {
		w.strct(s, depth)
	}
	if l.IsValid() {
		w.list(l, depth)
	}
	if depth <= consumerDepth && w.md.consumers {
		w.consume(p, depth == 0)
	}
}

func u16set(xs ...int) []uint16 {
	var out []uint16
	for _, x := range xs {
		if x < 0 || x > 0xFFFF {
			continue
		}
		dup := false
		for _, y := range out {
			if int(y) == x {
				dup = true
			}
		}
		if !dup {
			out = append(out, uint16(x))
		}
	}
	return out
}

func (w *walker) strct(s capnp.Struct, depth int) {
	sz := s.Size()
	ds := int64(sz.DataSize)
	for _, n := range []int64{1, 2, 4, 8} {
		for _, off := range []int64{0, ds - n, ds - n + 1, ds} {
			if off < 0 {
				continue
			}
			o := capnp.DataOffset(off)
			switch n {
			case 1:
				s.Uint8(o)
			case 2:
				s.Uint16(o)
			case 4:
				s.Uint32(o)
			case 8:
				s.Uint64(o)
			}
		}
	}
	s.Bit(0)
	if ds > 0 {
		s.Bit(capnp.BitOffset(ds*8 - 1))
	}
	s.Bit(capnp.BitOffset(ds * 8))
	_ = s.Message()
	_ = s.Segment()
	pc := int(sz.PointerCount)
	for _, i := range u16set(0, 1, 2, pc-1, pc) {
		s.HasPtr(i)
		p, err := s.Ptr(i)
		if err == nil && depth < maxDepth {
			w.ptr(p, depth+1)
		}
	}
}

func (w *walker) list(l capnp.List, depth int) {
	n := l.Len()
	if n < 0 {
		w.fail("len-negative", "List.Len() = %d", n)
		return
	}
	_ = l.Message()
	_ = l.Segment()
	idx := []int{}
	if n > 0 {
		idx = append(idx, 0)
		if n > 1 {
			idx = append(idx, n-1)
		}
	}
	for _, i := range idx {
		capnp.BitList{List: l}.At(i)
		capnp.UInt8List{List: l}.At(i)
		capnp.Int8List{List: l}.At(i)
		capnp.UInt16List{List: l}.At(i)
		capnp.Int16List{List: l}.At(i)
		capnp.UInt32List{List: l}.At(i)
		capnp.Int32List{List: l}.At(i)
		capnp.UInt64List{List: l}.At(i)
		capnp.Int64List{List: l}.At(i)
		capnp.Float32List{List: l}.At(i)
		capnp.Float64List{List: l}.At(i)
		if t, err := (capnp.TextList{List: l}).At(i); err == nil {
			_ = t
		}
		if b, err := (capnp.TextList{List: l}).BytesAt(i); err == nil {
			w.inside("TextList.BytesAt", b)
		}
		if b, err := (capnp.DataList{List: l}).At(i); err == nil {
			w.inside("DataList.At", b)
		}
		if p, err := (capnp.PointerList{List: l}).At(i); err == nil && depth < maxDepth {
			w.ptr(p, depth+1)
		}
		if st := l.Struct(i); st.IsValid() && depth < maxDepth {
			w.strct(st, depth+1)
			if depth == 0 && i == 0 && w.md.consumers {
				w.consume(st.ToPtr(), false)
			}
		}
	}
	if n <= 16 {
		_ = capnp.VoidList{List: l}.String()
		_ = capnp.BitList{List: l}.String()
		_ = capnp.UInt8List{List: l}.String()
		_ = capnp.Int8List{List: l}.String()
		_ = capnp.UInt16List{List: l}.String()
		_ = capnp.Int16List{List: l}.String()
		_ = capnp.UInt32List{List: l}.String()
		_ = capnp.Int32List{List: l}.String()
		_ = capnp.UInt64List{List: l}.String()
		_ = capnp.Int64List{List: l}.String()
		_ = capnp.Float32List{List: l}.String()
		_ = capnp.Float64List{List: l}.String()
		_ = capnp.TextList{List: l}.String()
		_ = capnp.DataList{List: l}.String()
	}
}

// consume applies the recursive consumers to p.
func (w *walker) consume(p capnp.Ptr, typed bool) {
	w.guarded(func() {
		if m2, _, err := capnp.NewMessage(capnp.SingleSegment(nil)); err == nil {
			m2.SetRoot(p)
		}
		if m3, _, err := capnp.NewMessage(capnp.MultiSegment(nil)); err == nil {
			m3.SetRoot(p)
		}
	})
	s := p.Struct()
	if !s.IsValid() {
		return
	}
	w.guarded(func() { capnp.Canonicalize(s) })
	if !typed {
		return
	}
	for _, t := range w.md.types {
		t := t
		w.guarded(func() {
			hostile.TextMarshal(t, s)
			v, _ := hostile.PogsExtract(t, s)
			hostile.ByteSlices(v, 64, func(b []byte) { w.inside("pogs.Extract/"+t.Name, b) })
		})
	}
}

var digits = regexp.MustCompile(`[0-9]+`)

func errClass(err error) string {
	s := err.Error()
	if len(s) > 70 {
		s = s[:70]
	}
	return digits.ReplaceAllString(s, "N")
}

// walkOne opens the message under one framing / limit configuration and
// walks it.  It returns the number of objects handed out.
var frameRe = regexp.MustCompile(`capnproto\.org/go/capnp/v3[A-Za-z0-9_/.]*\.(\(\*?[A-Za-z0-9_]+\)\.)?[A-Za-z0-9_]+`)

// panicKey builds a stable classification key: panic text with numbers
// normalised + innermost library function on the stack.
func panicKey(p interface{}, stack []byte) string {
	msg := digits.ReplaceAllString(fmt.Sprint(p), "N")
	if len(msg) > 60 {
		msg = msg[:60]
	}
	fn := ""
	for _, m := range frameRe.FindAll(stack, -1) {
		f := string(m)
		if strings.Contains(f, "/internal/verif/") {
			continue
		}
		fn = strings.TrimPrefix(f, "capnproto.org/go/capnp/v3")
		break
	}
	return "panic:" + msg + "@" + fn
}

func walkOne(r *vlib.Rec, mem *hostile.Mem, contents [][]byte, framing int, arena capnp.Arena, lim limits, md mode, expensive bool) (objs int) {
	ctx := hostile.FramingName[framing] + " " + lim.String()
	defer func() {
		if p := recover(); p != nil {
			st := debug.Stack()
			if len(st) > 2500 {
				st = st[:2500]
			}
			r.Fail(panicKey(p, st), fmt.Sprintf("%s segments=%s: panic: %v\n%s", ctx, hexSegs(contents), p, st))
			objs = 1 // the message did hand out something before it panicked (or Root itself panicked): keep exploring the other configurations
		}
	}()
	var op *hostile.Opened
	if arena != nil {
		// caller-built arena over slab segments
		op = &hostile.Opened{Msg: &capnp.Message{Arena: arena}, Segs: contents, Regions: hostile.RegionsOf(contents)}
		ctx = fmt.Sprintf("%T %s", arena, lim.String())
	} else {
		var err error
		op, err = hostile.Open(framing, contents, mem, func(key, detail string) {
			r.Fail(key, ctx+" segments="+hexSegs(contents)+": "+detail)
		})
		if err != nil {
			r.Outcome("open-error/" + hostile.FramingName[framing] + ": " + errClass(err))
			return 0
		}
	}
	op.Msg.TraverseLimit = lim.T
	op.Msg.DepthLimit = lim.D
	w := &walker{r: r, op: op, ctx: ctx, src: contents, budget: 120, expensive: expensive, md: md}
	p, err := op.Msg.Root()
	if err != nil {
		if framing == hostile.FBare && lim == allLimits[0] {
			r.Outcome("root-error: " + errClass(err))
		}
		return 0
	}
	if framing == hostile.FBare && lim == allLimits[0] {
		switch {
		case !p.IsValid():
			r.Outcome("root-null")
		case p.Struct().IsValid():
			r.Outcome("root-struct")
		case p.List().IsValid():
			r.Outcome("root-list")
		default:
			r.Outcome("root-cap")
		}
	}
	w.ptr(p, 0)
	return w.objs
}

func isExpensive(contents [][]byte) bool {
	if hostile.HugeCapable(contents, 1024) {
		return true
	}
	v, cyclic := hostile.Unfold(contents, 64, 400)
	return cyclic || v >= 400
}

// plan says how much of the framing x limits x consumer matrix a family
// applies to each message.
type plan struct {
	// product: every framing x every limit configuration with the untyped
	// consumers.  Otherwise non-default limits are applied under the first
	// framing only and the stream framings get the accessor walk only (the
	// framings differ only in how segment memory is obtained, the limits only
	// in what the reader does with it).
	product bool
	ref     mode  // first framing, default limits
	lim     mode  // first framing, limit configurations in typedLimits
	typedAt []int // indices into allLimits that get `lim`; others get untyped
}

var (
	planSmall      = plan{product: true, ref: typedAll, lim: typedAll, typedAt: []int{2, 4}}
	planBig        = plan{product: false, ref: typedZ, lim: typedZ, typedAt: []int{2, 4}}
	planTypedZ     = plan{product: false, ref: typedZ, lim: typedZ, typedAt: []int{2, 4}}
	planTypedPlain = plan{product: false, ref: typedPlain, lim: typedPlain, typedAt: []int{2, 4}}
)

func inInts(xs []int, x int) bool {
	for _, y := range xs {
		if x == y {
			return true
		}
	}
	return false
}

// runMessage is one case: framings x limit configurations.
func runMessage(r *vlib.Rec, mem *hostile.Mem, contents [][]byte, framings []int, pl plan) {
	expensive := isExpensive(contents)
	// reference walk
	n := walkOne(r, mem, contents, framings[0], nil, allLimits[0], pl.ref, expensive)
	if n > 0 {
		r.NonTrivial()
		r.Note("objects_handed_out_reference_walk", int64(n))
		if expensive {
			r.Note("messages_with_clamped_consumers", 1)
		}
	}
	for fi, f := range framings {
		for li, lim := range allLimits {
			if fi == 0 && li == 0 {
				continue
			}
			if !pl.product && fi > 0 && li > 0 {
				continue
			}
			if n == 0 && li > 0 {
				// nothing was handed out under the default limits: the limits are
				// never consulted (all failures precede the budget / depth checks)
				continue
			}
			md := untyped
			switch {
			case fi == 0 && inInts(pl.typedAt, li):
				md = pl.lim
			case !pl.product && f != hostile.FBare && f != hostile.FHarness:
				md = accessorsOnly
			}
			walkOne(r, mem, contents, f, nil, lim, md, expensive)
		}
	}
}

var stdFramings = []int{hostile.FBare, hostile.FHarness, hostile.FUnmarshal, hostile.FUnmarshalPacked, hostile.FDecoder, hostile.FPackedDecoder, hostile.FDecoderReuse}

var smallMem *hostile.Mem

func mem() *hostile.Mem {
	if smallMem == nil {
		smallMem = hostile.NewMem(4096)
	}
	return smallMem
}

func spaceFamily(sp *space, framings []int) vlib.Family {
	words := 0
	for _, L := range sp.segWords {
		words += L
	}
	pl := planBig
	if words <= 2 {
		pl = planSmall
	}
	return vlib.Family{
		Name: sp.name, N: sp.n,
		Run: func(i int64, r *vlib.Rec) {
			runMessage(r, mem(), sp.contents(i), framings, pl)
		},
		Describe: func(i int64) interface{} {
			return map[string]interface{}{"segment_bytes": sp.segBytes, "segments_hex": hexSegs(sp.contents(i))}
		},
	}
}

// ---- odd byte lengths (SingleSegment accepts them) ----

func oddFamily(thorough bool) vlib.Family {
	var sps []*space
	for _, nb := range []int{4, 12, 20} {
		level := hostile.Core
		if nb == 20 {
			level = hostile.Micro
			if thorough {
				level = hostile.Mini
			}
		}
		sp := newSpace(fmt.Sprintf("odd-%d", nb), []int{(nb + 7) / 8}, level)
		sp.segBytes = []int{nb}
		sps = append(sps, sp)
	}
	total := int64(0)
	for _, sp := range sps {
		total += sp.n
	}
	pick := func(i int64) (*space, int64) {
		for _, sp := range sps {
			if i < sp.n {
				return sp, i
			}
			i -= sp.n
		}
		panic("index")
	}
	return vlib.Family{
		Name: "odd-byte-lengths", N: total,
		Run: func(i int64, r *vlib.Rec) {
			sp, k := pick(i)
			runMessage(r, mem(), sp.contents(k), []int{hostile.FBare, hostile.FHarness}, planBig)
		},
		Describe: func(i int64) interface{} {
			sp, k := pick(i)
			return map[string]interface{}{"segment_bytes": sp.segBytes, "segments_hex": hexSegs(sp.contents(k))}
		},
	}
}

// ---- arena faults: Data fails for one id / NumSegments exceeds deliverable ----

func arenaFaultFamily(sp *space) vlib.Family {
	nseg := len(sp.segWords)
	type variant struct {
		n    int64
		fail int64
	}
	var vs []variant
	for f := int64(0); f < int64(nseg); f++ {
		vs = append(vs, variant{int64(nseg), f})
	}
	vs = append(vs, variant{int64(nseg) + 1, -1}, variant{1 << 32, -1}, variant{0, -1})
	return vlib.Family{
		Name: "arena-faults-" + sp.name, N: sp.n * int64(len(vs)),
		Run: func(i int64, r *vlib.Rec) {
			v := vs[i%int64(len(vs))]
			contents := sp.contents(i / int64(len(vs)))
			segs := mem().Lay(contents)
			exp := isExpensive(contents)
			for _, lim := range []limits{allLimits[0], allLimits[4]} {
				a := &hostile.HArena{Segs: segs, N: v.n, FailID: v.fail}
				if walkOne(r, mem(), segs, hostile.FHarness, a, lim, untyped, exp) > 0 && lim == allLimits[0] {
					r.NonTrivial()
				}
			}
		},
		Describe: func(i int64) interface{} {
			v := vs[i%int64(len(vs))]
			return map[string]interface{}{"arena_claims_segments": v.n, "data_fails_for_id": v.fail, "segments_hex": hexSegs(sp.contents(i / int64(len(vs))))}
		},
	}
}

// ---- large tier ----

const largeBytes = 512<<10 + 16

func largeAlphabet(pos int) []uint64 {
	var out []uint64
	add := func(w uint64) { out = append(out, w) }
	counts := []uint32{1<<19 - 1, 1 << 19, 1<<19 + 1, 1<<22 - 1, 1 << 22, 1<<22 + 1, hostile.MaxCount}
	for _, et := range []uint8{0, 1, 2} {
		for _, c := range counts {
			add(hostile.ListPtr(0, et, c))
		}
	}
	add(hostile.ListPtr(0, 5, 1<<16))   // 8-byte list filling the segment
	add(hostile.ListPtr(0, 5, 1<<16+1)) // one too many for pos 0
	add(hostile.ListPtr(0, 7, 1<<16))
	add(hostile.ListPtr(0, 7, 1<<16-1))
	add(hostile.StructPtr(0, 0xFFFF, 0))
	add(hostile.StructPtr(0, 0xFFFE, 1))
	add(hostile.StructPtr(0, 0xFFFF, 1))
	add(hostile.StructPtr(0, 0xFFFF, 2))
	add(hostile.StructPtr(0, 0, 0xFFFF))
	add(hostile.StructPtr(0, 3, 1)) // Z-sized struct behind the pointer
	add(hostile.StructPtr(0, 1, 3)) // Counter-sized
	if pos == 1 {
		add(hostile.Tag(1<<22, 0, 0))
		add(hostile.Tag(1<<22+1, 0, 0))
		add(hostile.Tag(1<<16-1, 1, 0))
		add(hostile.Tag(1<<15, 1, 1))
		add(hostile.Tag(1, 0xFFFF, 0))
		add(hostile.Tag(-1, 0, 0))
		add(39) // Z.which = boolvec, as the data word of a root struct
		add(0)
	}
	return out
}

var largeMem *hostile.Mem

func largeFamily() vlib.Family {
	a0, a1 := largeAlphabet(0), largeAlphabet(1)
	// word 2 candidates: pointer slot of a (1 data, n ptr) root / anything
	a2 := []uint64{0, hostile.ListPtr(0, 1, 1<<22+1), hostile.ListPtr(0, 0, 1<<22), hostile.ListPtr(0, 2, 1<<19)}
	fills := []byte{0x00, 0xFF}
	n := int64(len(a0) * len(a1) * len(a2) * len(fills))
	build := func(i int64) [][]byte {
		b := make([]byte, largeBytes)
		fill := fills[i%int64(len(fills))]
		i /= int64(len(fills))
		if fill != 0 {
			for k := range b {
				b[k] = fill
			}
		}
		binary.LittleEndian.PutUint64(b[0:], a0[i%int64(len(a0))])
		i /= int64(len(a0))
		binary.LittleEndian.PutUint64(b[8:], a1[i%int64(len(a1))])
		i /= int64(len(a1))
		binary.LittleEndian.PutUint64(b[16:], a2[i%int64(len(a2))])
		return [][]byte{b}
	}
	return vlib.Family{
		Name: "large-512KiB", N: n,
		Run: func(i int64, r *vlib.Rec) {
			if largeMem == nil {
				largeMem = hostile.NewMem(2*largeBytes + 4096)
			}
			contents := build(i)
			// bare + one stream framing; every limit configuration
			exp := true
			k := walkOne(r, largeMem, contents, hostile.FBare, nil, allLimits[0], typedAll, exp)
			if k > 0 {
				r.NonTrivial()
			}
			for li, lim := range allLimits {
				if li > 0 {
					walkOne(r, largeMem, contents, hostile.FBare, nil, lim, untyped, exp)
				}
			}
			walkOne(r, largeMem, contents, hostile.FUnmarshal, nil, allLimits[0], untyped, exp)
			walkOne(r, largeMem, contents, hostile.FPackedDecoder, nil, allLimits[0], accessorsOnly, exp)
		},
		Describe: func(i int64) interface{} {
			c := build(i)
			return map[string]interface{}{"segment_bytes": largeBytes, "first_words_hex": hex.EncodeToString(c[0][:24]), "fill": fmt.Sprintf("%02x", c[0][100])}
		},
	}
}

func selfTest() error {
	// the typed consumers must work on a well-formed message (otherwise they
	// would only ever exercise their own argument errors)
	for _, t := range hostile.Types {
		_, seg, err := capnp.NewMessage(capnp.SingleSegment(nil))
		if err != nil {
			return err
		}
		s, err := capnp.NewRootStruct(seg, capnp.ObjectSize{DataSize: 24, PointerCount: 4})
		if err != nil {
			return err
		}
		if _, err := hostile.TextMarshal(t, s); err != nil {
			return fmt.Errorf("text.Marshal %s on an empty struct: %v", t.Name, err)
		}
		if _, err := hostile.PogsExtract(t, s); err != nil {
			return fmt.Errorf("pogs.Extract %s on an empty struct: %v", t.Name, err)
		}
	}
	// decoder self-check: the alphabet is deterministic and non-empty
	a := hostile.Alphabet([]int{3}, 0, 0, hostile.Full)
	b := hostile.Alphabet([]int{3}, 0, 0, hostile.Full)
	if len(a) == 0 || len(a) != len(b) {
		return fmt.Errorf("alphabet not deterministic")
	}
	for i := range a {
		if a[i] != b[i] {
			return fmt.Errorf("alphabet not deterministic")
		}
	}
	return nil
}

func cfgName(prefix string, m []int, level int) string {
	lv := map[int]string{hostile.Micro: "micro", hostile.Mini: "mini", hostile.Core: "core", hostile.Full: "full"}[level]
	return prefix + strings.Trim(strings.Replace(fmt.Sprint(m), " ", "-", -1), "[]") + "-" + lv
}

// ---- raw stream headers: bytes that are not a well-formed frame at all ----

func rawHeaderFamily() vlib.Family {
	h0 := []uint32{0, 1, 2, 3, 511, 512, 0x7fffffff, 0xfffffffe, 0xffffffff}
	h1 := []uint32{0, 1, 2, 0x1fffffff, 0xffffffff}
	lens := []int{0, 3, 4, 7, 8, 12, 16, 24}
	const entries = 4
	n := int64(len(h0) * len(h1) * len(lens) * entries)
	build := func(i int64) ([]byte, int) {
		e := int(i % entries)
		i /= entries
		l := lens[i%int64(len(lens))]
		i /= int64(len(lens))
		b := make([]byte, 24)
		binary.LittleEndian.PutUint32(b[0:], h0[i/int64(len(h1))])
		binary.LittleEndian.PutUint32(b[4:], h1[i%int64(len(h1))])
		binary.LittleEndian.PutUint32(b[8:], 1)
		return b[:l:l], e
	}
	return vlib.Family{
		Name: "raw-stream-headers", N: n,
		Run: func(i int64, r *vlib.Rec) {
			b, e := build(i)
			var m *capnp.Message
			var err error
			switch e {
			case 0:
				m, err = capnp.Unmarshal(b)
			case 1:
				m, err = capnp.UnmarshalPacked(b)
			case 2:
				m, err = capnp.NewDecoder(strings.NewReader(string(b))).Decode()
			case 3:
				m, err = capnp.NewPackedDecoder(strings.NewReader(string(b))).Decode()
			}
			if err != nil {
				r.Outcome("rejected")
				return
			}
			r.Outcome("accepted")
			if p, err := m.Root(); err == nil && p.IsValid() {
				r.NonTrivial()
			}
		},
		Describe: func(i int64) interface{} {
			b, e := build(i)
			return map[string]interface{}{"entry": []string{"Unmarshal", "UnmarshalPacked", "Decoder", "PackedDecoder"}[e], "bytes_hex": hex.EncodeToString(b)}
		},
	}
}

func families(tier string) []vlib.Family {
	var fams []vlib.Family
	add := func(prefix string, m []int, level int) {
		fams = append(fams, spaceFamily(newSpace(cfgName(prefix, m, level), m, level), stdFramings))
	}
	thorough := tier == "thorough"
	add("seg-", []int{0}, hostile.Full)
	add("seg-", []int{1}, hostile.Full)
	add("seg-", []int{2}, hostile.Full)
	fams = append(fams, cycleFamily())
	fams = append(fams, rawHeaderFamily())
	fams = append(fams, oddFamily(thorough))
	add("multi-", []int{1, 1}, hostile.Core)
	add("multi-", []int{0, 1}, hostile.Core)
	add("multi-", []int{1, 0}, hostile.Core)
	lvl := hostile.Micro
	if thorough {
		lvl = hostile.Mini
	}
	add("multi-", []int{1, 2}, lvl)
	add("multi-", []int{2, 1}, lvl)
	add("multi-", []int{1, 1, 1}, lvl)
	if thorough {
		add("multi-", []int{0, 2}, hostile.Core)
		add("multi-", []int{1, 0, 1}, hostile.Core)
		add("multi-", []int{0, 1, 1}, hostile.Core)
		add("multi-", []int{2, 2}, hostile.Micro)
		add("multi-", []int{1, 3}, hostile.Micro)
		add("multi-", []int{1, 1, 2}, hostile.Micro)
	}
	fams = append(fams, arenaFaultFamily(newSpace(cfgName("", []int{1, 1}, hostile.Mini), []int{1, 1}, hostile.Mini)))
	fams = append(fams, typedZFamily(lvl), typedPlainFamily(lvl))
	if thorough {
		fams = append(fams, arenaFaultFamily(newSpace(cfgName("", []int{1, 2}, hostile.Micro), []int{1, 2}, hostile.Micro)))
		fams = append(fams, arenaFaultFamily(newSpace(cfgName("", []int{2}, hostile.Core), []int{2}, hostile.Core)))
		add("seg-", []int{3}, hostile.Full)
		add("seg-", []int{4}, hostile.Micro)
		fams = append(fams, largeFamily())
	} else {
		add("seg-", []int{3}, hostile.Mini)
	}
	if os.Getenv("C01_SIZES") != "" {
		t := int64(0)
		for _, f := range fams {
			fmt.Fprintf(os.Stderr, "family %-28s N=%d\n", f.Name, f.N)
			t += f.N
		}
		fmt.Fprintf(os.Stderr, "total %d\n", t)
	}
	return fams
}

// ---- schema-shaped messages for the typed consumers ----

// typedZFamily: root struct (1 data word, 1 pointer) whose data word carries
// every Z union discriminant, pointer word and the word behind it from the
// alphabet: every Z field type against every pointer kind.
func typedZFamily(level int) vlib.Family {
	segLens := []int{4}
	a2 := hostile.Alphabet(segLens, 0, 2, level)
	a3 := hostile.Alphabet(segLens, 0, 3, level)
	var whichs []uint64
	for w := uint64(0); w <= 50; w++ {
		whichs = append(whichs, w)
	}
	whichs = append(whichs, 0xFFFF)
	n := int64(len(whichs) * len(a2) * len(a3))
	build := func(i int64) [][]byte {
		b := make([]byte, 32)
		binary.LittleEndian.PutUint64(b[0:], hostile.StructPtr(0, 1, 1))
		binary.LittleEndian.PutUint64(b[8:], whichs[i%int64(len(whichs))])
		i /= int64(len(whichs))
		binary.LittleEndian.PutUint64(b[16:], a2[i%int64(len(a2))])
		i /= int64(len(a2))
		binary.LittleEndian.PutUint64(b[24:], a3[i])
		return [][]byte{b}
	}
	return vlib.Family{
		Name: "typed-Z", N: n,
		Run: func(i int64, r *vlib.Rec) {
			runMessage(r, mem(), build(i), []int{hostile.FBare, hostile.FUnmarshal}, planTypedZ)
		},
		Describe: func(i int64) interface{} { return map[string]interface{}{"segments_hex": hexSegs(build(i))} },
	}
}

// typedPlainFamily: root struct with three pointers (Counter / HoldsText /
// Regression / PlaneBase shaped), one slot at a time taken from the alphabet
// together with the word behind the struct.
func typedPlainFamily(level int) vlib.Family {
	segLens := []int{5}
	var as [3][]uint64
	for k := 0; k < 3; k++ {
		as[k] = hostile.Alphabet(segLens, 0, 1+k, level)
	}
	a4 := hostile.Alphabet(segLens, 0, 4, level)
	n := int64(0)
	for k := 0; k < 3; k++ {
		n += int64(len(as[k]) * len(a4))
	}
	build := func(i int64) [][]byte {
		b := make([]byte, 40)
		binary.LittleEndian.PutUint64(b[0:], hostile.StructPtr(0, 0, 3))
		for k := 0; k < 3; k++ {
			m := int64(len(as[k]) * len(a4))
			if i < m {
				binary.LittleEndian.PutUint64(b[8+8*k:], as[k][i%int64(len(as[k]))])
				binary.LittleEndian.PutUint64(b[32:], a4[i/int64(len(as[k]))])
				break
			}
			i -= m
		}
		return [][]byte{b}
	}
	return vlib.Family{
		Name: "typed-plain", N: n,
		Run: func(i int64, r *vlib.Rec) {
			runMessage(r, mem(), build(i), []int{hostile.FBare, hostile.FUnmarshal}, planTypedPlain)
		},
		Describe: func(i int64) interface{} { return map[string]interface{}{"segments_hex": hexSegs(build(i))} },
	}
}

// cycleFamily: every 1-segment message of <= 2 words over the pointer-only
// alphabet whose pointer graph is a single-path cycle, default limits and
// D=3, recursive consumers with the FULL default traversal budget (no
// clamp): only the depth limit stands between a consumer and unbounded
// recursion, which overflows the stack (48 MiB cap, a Go fatal error).  Each
// case therefore runs in a child process of its own; a dead child is a
// violation of this case and costs the runner nothing.
func cycleFamily() vlib.Family {
	a0 := hostile.PointerOnly(2, 0)
	a1 := hostile.PointerOnly(2, 1)
	n := int64(len(a0) + len(a0)*len(a1))
	build := func(i int64) [][]byte {
		if i < int64(len(a0)) {
			b := make([]byte, 8)
			binary.LittleEndian.PutUint64(b, a0[i])
			return [][]byte{b}
		}
		i -= int64(len(a0))
		b := make([]byte, 16)
		binary.LittleEndian.PutUint64(b[0:], a0[i%int64(len(a0))])
		binary.LittleEndian.PutUint64(b[8:], a1[i/int64(len(a0))])
		return [][]byte{b}
	}
	return vlib.Family{
		Name: "cycles-unclamped-isolated", N: n,
		Run: func(i int64, r *vlib.Rec) {
			c := build(i)
			// fan-out 1 only: with fan-out 2 a correct depth limit of 64 still
			// allows 2^64 visits (bounded only by the traversal budget)
			v, cyc := hostile.Unfold(c, 64, 400)
			if !cyc || v > 70 {
				r.Outcome("cycles: acyclic or branching, skipped here")
				return
			}
			r.NonTrivial()
			for _, li := range []int{0, 3} {
				ok, class, step, detail := hostile.RunChild(fmt.Sprintf("%d|%s", li, hex.EncodeToString(c[0])), 100*time.Second)
				if ok {
					r.Outcome("cycles: all consumers returned under the full budget")
					continue
				}
				r.Fail("unclamped-consumer-dies/"+step+"/"+class,
					fmt.Sprintf("bare %s segments=%s: %s on the root object with the default 64 MiB traversal budget kills the process (%s)\n%s", allLimits[li], hexSegs(c), step, class, detail))
			}
		},
		Describe: func(i int64) interface{} { return map[string]interface{}{"segments_hex": hexSegs(build(i))} },
	}
}

func childMain(payload string) {
	parts := strings.Split(payload, "|")
	var li int
	fmt.Sscan(parts[0], &li)
	b, err := hex.DecodeString(parts[1])
	if err != nil {
		fmt.Fprintln(os.Stderr, "bad payload")
		os.Exit(3)
	}
	m := &capnp.Message{Arena: capnp.SingleSegment(b), TraverseLimit: allLimits[li].T, DepthLimit: allLimits[li].D}
	root, err := m.Root()
	if err != nil || !root.IsValid() {
		os.Exit(0)
	}
	hostile.ChildStep("Equal")
	capnp.Equal(root, root)
	hostile.ChildStep("SetRoot")
	if m2, _, err := capnp.NewMessage(capnp.SingleSegment(nil)); err == nil {
		m2.SetRoot(root)
	}
	if s := root.Struct(); s.IsValid() {
		hostile.ChildStep("Canonicalize")
		capnp.Canonicalize(s)
		hostile.ChildStep("text.Marshal")
		hostile.TextMarshal(hostile.Types[0], s)
		hostile.ChildStep("pogs.Extract")
		hostile.PogsExtract(hostile.Types[0], s)
	}
	os.Exit(0)
}

func main() {
	if p := hostile.ChildPayload(); p != "" {
		childMain(p)
		return
	}
	debug.SetGCPercent(800)
	vlib.Main(vlib.Spec{
		ID:    "C01",
		Level: "exploration",
		Rule:  "bounded-exhaustive enumeration of messages = segment configuration x words from a per-position boundary-complete alphabet (package hostile: every pointer kind with start or end of the referenced region on the word boundaries in [-1,L+1], field extrema, composite tags incl. zero-size x count -1, far/double-far to every segment id incl. out of range and every landing word, capability and unknown pointers, data words; four alphabet sizes full ~180, core ~130, mini ~75, micro ~35 words per position). Configurations: 1 segment of 0,1,2 words (full), 3 words (quick mini, thorough full), 4 words (thorough, micro); byte lengths 4/12/20; 2-3 segments (1-1, 0-1, 1-0 core; 1-2, 2-1, 1-1-1 micro/mini; thorough also 0-2, 1-0-1, 0-1-1 core and 2-2, 1-3, 1-1-2 micro); harness arenas whose Data fails for one id or that claim 0 / n+1 / 2^32 segments; Z-shaped frames (every union discriminant x pointer word x target word) and Counter/HoldsText/Regression/PlaneBase-shaped frames for the typed consumers; all 1-2 word pointer-only cycles with the full default budget in isolated child processes; thorough: one 512 KiB+16 segment with size-extreme first words (2^19, 2^22, 2^29 element boundaries). Every message under bare Single/MultiSegment arenas, a harness Arena, Unmarshal, UnmarshalPacked(ref.Pack), NewDecoder, NewPackedDecoder and a buffer-reusing Decoder; raw byte strings that are not frames at all (first header word in {0,1,2,3,511,512,2^31-1,2^32-2,2^32-1} x second word x cut lengths 0..24) through Unmarshal, UnmarshalPacked and both decoders; messages that hand out at least one object additionally under T in {default,64,2^40} x D in {default,3} (full framing x limit product for <= 2 words, first framing only above). The walker applies the read-side API to everything reachable to depth 6: Root, struct accessors at first/last/beyond offsets, Ptr/HasPtr, every list wrapper Len/At(0)/At(Len-1)/String, Text/Data, and on the root object, its children and the first element of a root list Equal, Canonicalize, SetRoot deep copy into fresh Single/Multi messages, text.Marshal and pogs.Extract (Z on every root struct; PlaneBase/Regression/HoldsText/Counter on <= 2-word messages and the typed frames). Oracle: no panic, no fatal error, no hang, Len() >= 0, returned byte slices inside the supplied segment memory (segments carved cap==len from a canary slab). A message is non-trivial if the library handed out at least one non-null object for it.",
		Assumptions: []string{
			"recursive consumers (Equal, SetRoot, Canonicalize, text, pogs) run with the traversal budget clamped to 4 KiB on messages that are cyclic, declare lists of more than 1024 elements, or whose unfolded pointer graph has >= 400 nodes (time/memory at the default 64 MiB budget is otherwise exponential in the depth limit); the unclamped default budget is exercised on the 1-2 word single-path cycles (family cycles-unclamped-isolated); the budget accounting itself is C02's subject",
			"limit configurations other than the default are applied only to messages for which the default configuration hands out at least one object (every earlier failure precedes the budget and depth checks in segment.go readPtr)",
			"stream framings (Unmarshal, decoders) of messages of more than 2 words get the accessor walk without the recursive consumers: they differ from the bare arena only in how the segment memory is obtained",
			"list elements other than index 0 and Len-1 are not touched; documented programmer-error panics (index >= Len, setters) are never provoked",
			"pogs.Extract results are range-checked only for fields pogs documents as aliasing the segment (Data, Text extracted into []byte)",
		},
		Families: families,
		SelfTest: selfTest,
	})
}
