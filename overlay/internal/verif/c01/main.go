// C01 — reading arbitrary bytes never crashes, hangs or escapes the segments.
//
// Bounded-exhaustive enumeration of messages (segment configuration x words
// from a boundary-complete per-position alphabet, package hostile), every
// framing, limit configurations, and a walker that applies the read-side API
// to everything reachable.  Oracle: no panic / fatal / hang (runner),
// Len() >= 0, returned byte slices lie inside the supplied segment memory,
// errors are returned errors.
package main

import (
	"encoding/binary"
	"encoding/hex"
	"fmt"
	"os"
	"regexp"
	"strings"

	capnp "capnproto.org/go/capnp/v3"
	"capnproto.org/go/capnp/v3/internal/verif/hostile"
	"capnproto.org/go/capnp/v3/internal/verif/vlib"
)

// ---- message spaces ----

type space struct {
	name     string
	segWords []int      // words per segment (a trailing partial word counts)
	segBytes []int      // byte length per segment
	alpha    [][]uint64 // per global word position
	arena    int        // 0 normal framings, 1 harness arena with faults
	n        int64
}

func newSpace(name string, segWords []int, level int) *space {
	sp := &space{name: name, segWords: segWords}
	sp.n = 1
	for s, L := range segWords {
		sp.segBytes = append(sp.segBytes, 8*L)
		for i := 0; i < L; i++ {
			a := hostile.Alphabet(segWords, s, i, level)
			sp.alpha = append(sp.alpha, a)
			sp.n *= int64(len(a))
		}
	}
	return sp
}

// contents decodes case index i into segment contents.
func (sp *space) contents(i int64) [][]byte {
	out := make([][]byte, len(sp.segWords))
	pos := 0
	for s, L := range sp.segWords {
		b := make([]byte, 8*L)
		for k := 0; k < L; k++ {
			a := sp.alpha[pos]
			binary.LittleEndian.PutUint64(b[8*k:], a[i%int64(len(a))])
			i /= int64(len(a))
			pos++
		}
		out[s] = b[:sp.segBytes[s]]
	}
	return out
}

func hexSegs(segs [][]byte) string {
	var parts []string
	for _, s := range segs {
		if len(s) > 64 {
			parts = append(parts, hex.EncodeToString(s[:32])+fmt.Sprintf("...(%d bytes)", len(s)))
		} else {
			parts = append(parts, hex.EncodeToString(s))
		}
	}
	return "[" + strings.Join(parts, " | ") + "]"
}

// ---- limit configurations ----

type limits struct {
	T uint64
	D uint
}

func (l limits) String() string {
	t := "default"
	if l.T != 0 {
		t = fmt.Sprint(l.T)
	}
	d := "default"
	if l.D != 0 {
		d = fmt.Sprint(l.D)
	}
	return "T=" + t + ",D=" + d
}

var allLimits = []limits{{0, 0}, {64, 0}, {1 << 40, 0}, {0, 3}, {64, 3}, {1 << 40, 3}}

// consumerClamp is the traversal budget given to recursive consumers on
// messages whose pointer graph is cyclic / heavily shared or that declare
// huge lists (time and memory at the default budget are exponential in the
// depth limit resp. gigabytes; C02 owns the budget accounting).
const consumerClamp = 8 << 10

// ---- walker ----

type walker struct {
	r         *vlib.Rec
	op        *hostile.Opened
	ctx       string // framing + limits, for details
	src       [][]byte
	budget    int
	objs      int
	prev      capnp.Ptr
	expensive bool
	typed     bool // run the schema-typed consumers at the root
}

func (w *walker) fail(key, format string, a ...interface{}) {
	w.r.Fail(key, fmt.Sprintf("%s segments=%s: ", w.ctx, hexSegs(w.src))+fmt.Sprintf(format, a...))
}

func (w *walker) inside(what string, b []byte) {
	if !w.op.Regions.Contains(b) {
		w.fail("escape/"+what, "%s returned %d bytes (cap %d) outside the supplied segment memory", what, len(b), cap(b))
	}
}

// guarded runs a recursive consumer with a clamped budget when needed.
func (w *walker) guarded(f func()) {
	if !w.expensive {
		f()
		return
	}
	m := w.op.Msg
	rem := m.VerifReadLimit()
	if rem > consumerClamp {
		m.ResetReadLimit(consumerClamp)
		f()
		m.ResetReadLimit(rem)
		return
	}
	f()
}

const maxDepth = 6

func (w *walker) ptr(p capnp.Ptr, depth int) {
	if !p.IsValid() {
		return
	}
	w.objs++
	w.budget--
	if w.budget < 0 {
		return
	}
	_ = p.Message()
	_ = p.Segment()
	tb := p.TextBytes()
	w.inside("Ptr.TextBytes", tb)
	if t := p.Text(); t != string(tb) {
		w.fail("text-mismatch", "Text()=%q TextBytes()=%q", t, tb)
	}
	w.inside("Ptr.TextBytesDefault", p.TextBytesDefault(""))
	_ = p.TextDefault("d")
	d := p.Data()
	w.inside("Ptr.Data", d)
	w.inside("Ptr.DataDefault", p.DataDefault(nil))
	if q, err := p.Default(nil); err == nil {
		_ = q
	}
	w.guarded(func() {
		capnp.Equal(p, p)
		if w.prev.IsValid() {
			capnp.Equal(p, w.prev)
			capnp.Equal(w.prev, p)
		}
	})
	_ = capnp.SamePtr(p, w.prev)
	w.prev = p
	s, l, in := p.Struct(), p.List(), p.Interface()
	if in.IsValid() {
		_ = in.Capability()
		_ = in.Client()
		_ = in.Message()
	}
	if s.IsValid() {
		w.strct(s, depth)
	}
	if l.IsValid() {
		w.list(l, depth)
	}
	if depth <= 1 {
		w.consume(p, depth == 0)
	}
}

func u16set(xs ...int) []uint16 {
	var out []uint16
	for _, x := range xs {
		if x < 0 || x > 0xFFFF {
			continue
		}
		dup := false
		for _, y := range out {
			if int(y) == x {
				dup = true
			}
		}
		if !dup {
			out = append(out, uint16(x))
		}
	}
	return out
}

func (w *walker) strct(s capnp.Struct, depth int) {
	sz := s.Size()
	ds := int64(sz.DataSize)
	for _, n := range []int64{1, 2, 4, 8} {
		for _, off := range []int64{0, ds - n, ds - n + 1, ds} {
			if off < 0 {
				continue
			}
			o := capnp.DataOffset(off)
			switch n {
			case 1:
				s.Uint8(o)
			case 2:
				s.Uint16(o)
			case 4:
				s.Uint32(o)
			case 8:
				s.Uint64(o)
			}
		}
	}
	s.Bit(0)
	if ds > 0 {
		s.Bit(capnp.BitOffset(ds*8 - 1))
	}
	s.Bit(capnp.BitOffset(ds * 8))
	_ = s.Message()
	_ = s.Segment()
	pc := int(sz.PointerCount)
	for _, i := range u16set(0, 1, 2, pc-1, pc) {
		s.HasPtr(i)
		p, err := s.Ptr(i)
		if err == nil && depth < maxDepth {
			w.ptr(p, depth+1)
		}
	}
}

func (w *walker) list(l capnp.List, depth int) {
	n := l.Len()
	if n < 0 {
		w.fail("len-negative", "List.Len() = %d", n)
		return
	}
	_ = l.Message()
	_ = l.Segment()
	idx := []int{}
	if n > 0 {
		idx = append(idx, 0)
		if n > 1 {
			idx = append(idx, n-1)
		}
	}
	for _, i := range idx {
		capnp.BitList{List: l}.At(i)
		capnp.UInt8List{List: l}.At(i)
		capnp.Int8List{List: l}.At(i)
		capnp.UInt16List{List: l}.At(i)
		capnp.Int16List{List: l}.At(i)
		capnp.UInt32List{List: l}.At(i)
		capnp.Int32List{List: l}.At(i)
		capnp.UInt64List{List: l}.At(i)
		capnp.Int64List{List: l}.At(i)
		capnp.Float32List{List: l}.At(i)
		capnp.Float64List{List: l}.At(i)
		if t, err := (capnp.TextList{List: l}).At(i); err == nil {
			_ = t
		}
		if b, err := (capnp.TextList{List: l}).BytesAt(i); err == nil {
			w.inside("TextList.BytesAt", b)
		}
		if b, err := (capnp.DataList{List: l}).At(i); err == nil {
			w.inside("DataList.At", b)
		}
		if p, err := (capnp.PointerList{List: l}).At(i); err == nil && depth < maxDepth {
			w.ptr(p, depth+1)
		}
		if st := l.Struct(i); st.IsValid() && depth < maxDepth {
			w.strct(st, depth+1)
			if depth == 0 && i == 0 {
				w.consume(st.ToPtr(), false)
			}
		}
	}
	if n <= 16 {
		_ = capnp.VoidList{List: l}.String()
		_ = capnp.BitList{List: l}.String()
		_ = capnp.UInt8List{List: l}.String()
		_ = capnp.Int8List{List: l}.String()
		_ = capnp.UInt16List{List: l}.String()
		_ = capnp.Int16List{List: l}.String()
		_ = capnp.UInt32List{List: l}.String()
		_ = capnp.Int32List{List: l}.String()
		_ = capnp.UInt64List{List: l}.String()
		_ = capnp.Int64List{List: l}.String()
		_ = capnp.Float32List{List: l}.String()
		_ = capnp.Float64List{List: l}.String()
		_ = capnp.TextList{List: l}.String()
		_ = capnp.DataList{List: l}.String()
	}
}

// consume applies the recursive consumers to p.
func (w *walker) consume(p capnp.Ptr, typed bool) {
	w.guarded(func() {
		if m2, _, err := capnp.NewMessage(capnp.SingleSegment(nil)); err == nil {
			m2.SetRoot(p)
		}
		if m3, _, err := capnp.NewMessage(capnp.MultiSegment(nil)); err == nil {
			m3.SetRoot(p)
		}
	})
	s := p.Struct()
	if !s.IsValid() {
		return
	}
	w.guarded(func() { capnp.Canonicalize(s) })
	if !typed || !w.typed {
		return
	}
	for _, t := range hostile.Types {
		t := t
		w.guarded(func() {
			hostile.TextMarshal(t, s)
			v, _ := hostile.PogsExtract(t, s)
			hostile.ByteSlices(v, 64, func(b []byte) { w.inside("pogs.Extract/"+t.Name, b) })
		})
	}
}

var digits = regexp.MustCompile(`[0-9]+`)

func errClass(err error) string {
	s := err.Error()
	if len(s) > 70 {
		s = s[:70]
	}
	return digits.ReplaceAllString(s, "N")
}

// walkOne opens the message under one framing / limit configuration and
// walks it.  It returns the number of objects handed out.
func walkOne(r *vlib.Rec, mem *hostile.Mem, contents [][]byte, framing int, arena capnp.Arena, lim limits, typed, expensive bool) int {
	ctx := hostile.FramingName[framing] + " " + lim.String()
	var op *hostile.Opened
	if arena != nil {
		// caller-built arena over slab segments
		op = &hostile.Opened{Msg: &capnp.Message{Arena: arena}, Segs: contents, Regions: hostile.RegionsOf(contents)}
		ctx = fmt.Sprintf("%T %s", arena, lim.String())
	} else {
		var err error
		op, err = hostile.Open(framing, contents, mem, func(key, detail string) {
			r.Fail(key, ctx+" segments="+hexSegs(contents)+": "+detail)
		})
		if err != nil {
			r.Outcome("open-error/" + hostile.FramingName[framing] + ": " + errClass(err))
			return 0
		}
	}
	op.Msg.TraverseLimit = lim.T
	op.Msg.DepthLimit = lim.D
	w := &walker{r: r, op: op, ctx: ctx, src: contents, budget: 300, expensive: expensive, typed: typed}
	p, err := op.Msg.Root()
	if err != nil {
		if framing == hostile.FBare && lim == allLimits[0] {
			r.Outcome("root-error: " + errClass(err))
		}
		return 0
	}
	if framing == hostile.FBare && lim == allLimits[0] {
		switch {
		case !p.IsValid():
			r.Outcome("root-null")
		case p.Struct().IsValid():
			r.Outcome("root-struct")
		case p.List().IsValid():
			r.Outcome("root-list")
		default:
			r.Outcome("root-cap")
		}
	}
	w.ptr(p, 0)
	return w.objs
}

func isExpensive(contents [][]byte) bool {
	if hostile.HugeCapable(contents, 1024) {
		return true
	}
	v, cyclic := hostile.Unfold(contents, 64, 400)
	return cyclic || v >= 400
}

// runMessage is one case: all framings x limit configurations.
func runMessage(r *vlib.Rec, mem *hostile.Mem, contents [][]byte, framings []int) {
	expensive := isExpensive(contents)
	// reference walk
	n := walkOne(r, mem, contents, framings[0], nil, allLimits[0], true, expensive)
	if n > 0 {
		r.NonTrivial()
		r.Note("objects_handed_out_reference_walk", int64(n))
		if expensive {
			r.Note("messages_with_clamped_consumers", 1)
		}
	}
	for fi, f := range framings {
		for li, lim := range allLimits {
			if fi == 0 && li == 0 {
				continue
			}
			if n == 0 && li > 0 {
				// nothing was handed out under the default limits: the limits are
				// never consulted (all failures precede the budget / depth checks)
				continue
			}
			walkOne(r, mem, contents, f, nil, lim, fi == 0, expensive)
		}
	}
}

var stdFramings = []int{hostile.FBare, hostile.FHarness, hostile.FUnmarshal, hostile.FUnmarshalPacked, hostile.FDecoder, hostile.FPackedDecoder, hostile.FDecoderReuse}

var smallMem *hostile.Mem

func mem() *hostile.Mem {
	if smallMem == nil {
		smallMem = hostile.NewMem(4096)
	}
	return smallMem
}

func spaceFamily(sp *space, framings []int) vlib.Family {
	return vlib.Family{
		Name: sp.name, N: sp.n,
		Run: func(i int64, r *vlib.Rec) {
			runMessage(r, mem(), sp.contents(i), framings)
		},
		Describe: func(i int64) interface{} {
			return map[string]interface{}{"segment_bytes": sp.segBytes, "segments_hex": hexSegs(sp.contents(i))}
		},
	}
}

// ---- odd byte lengths (SingleSegment accepts them) ----

func oddFamily() vlib.Family {
	var sps []*space
	for _, nb := range []int{4, 12, 20} {
		sp := newSpace(fmt.Sprintf("odd-%d", nb), []int{(nb + 7) / 8}, hostile.Core)
		sp.segBytes = []int{nb}
		sps = append(sps, sp)
	}
	total := int64(0)
	for _, sp := range sps {
		total += sp.n
	}
	pick := func(i int64) (*space, int64) {
		for _, sp := range sps {
			if i < sp.n {
				return sp, i
			}
			i -= sp.n
		}
		panic("index")
	}
	return vlib.Family{
		Name: "odd-byte-lengths", N: total,
		Run: func(i int64, r *vlib.Rec) {
			sp, k := pick(i)
			runMessage(r, mem(), sp.contents(k), []int{hostile.FBare, hostile.FHarness})
		},
		Describe: func(i int64) interface{} {
			sp, k := pick(i)
			return map[string]interface{}{"segment_bytes": sp.segBytes, "segments_hex": hexSegs(sp.contents(k))}
		},
	}
}

// ---- arena faults: Data fails for one id / NumSegments exceeds deliverable ----

func arenaFaultFamily(sp *space) vlib.Family {
	nseg := len(sp.segWords)
	type variant struct {
		n    int64
		fail int64
	}
	var vs []variant
	for f := int64(0); f < int64(nseg); f++ {
		vs = append(vs, variant{int64(nseg), f})
	}
	vs = append(vs, variant{int64(nseg) + 1, -1}, variant{1 << 32, -1}, variant{0, -1})
	return vlib.Family{
		Name: "arena-faults-" + sp.name, N: sp.n * int64(len(vs)),
		Run: func(i int64, r *vlib.Rec) {
			v := vs[i%int64(len(vs))]
			contents := sp.contents(i / int64(len(vs)))
			segs := mem().Lay(contents)
			exp := isExpensive(contents)
			for _, lim := range []limits{allLimits[0], allLimits[4]} {
				a := &hostile.HArena{Segs: segs, N: v.n, FailID: v.fail}
				if walkOne(r, mem(), segs, hostile.FHarness, a, lim, false, exp) > 0 && lim == allLimits[0] {
					r.NonTrivial()
				}
			}
		},
		Describe: func(i int64) interface{} {
			v := vs[i%int64(len(vs))]
			return map[string]interface{}{"arena_claims_segments": v.n, "data_fails_for_id": v.fail, "segments_hex": hexSegs(sp.contents(i / int64(len(vs))))}
		},
	}
}

// ---- large tier ----

const largeBytes = 512<<10 + 16

func largeAlphabet(pos int) []uint64 {
	var out []uint64
	add := func(w uint64) { out = append(out, w) }
	counts := []uint32{1<<19 - 1, 1 << 19, 1<<19 + 1, 1<<22 - 1, 1 << 22, 1<<22 + 1, hostile.MaxCount}
	for _, et := range []uint8{0, 1, 2} {
		for _, c := range counts {
			add(hostile.ListPtr(0, et, c))
		}
	}
	add(hostile.ListPtr(0, 5, 1<<16))   // 8-byte list filling the segment
	add(hostile.ListPtr(0, 5, 1<<16+1)) // one too many for pos 0
	add(hostile.ListPtr(0, 7, 1<<16))
	add(hostile.ListPtr(0, 7, 1<<16-1))
	add(hostile.StructPtr(0, 0xFFFF, 0))
	add(hostile.StructPtr(0, 0xFFFE, 1))
	add(hostile.StructPtr(0, 0xFFFF, 1))
	add(hostile.StructPtr(0, 0xFFFF, 2))
	add(hostile.StructPtr(0, 0, 0xFFFF))
	add(hostile.StructPtr(0, 3, 1)) // Z-sized struct behind the pointer
	add(hostile.StructPtr(0, 1, 3)) // Counter-sized
	if pos == 1 {
		add(hostile.Tag(1<<22, 0, 0))
		add(hostile.Tag(1<<22+1, 0, 0))
		add(hostile.Tag(1<<16-1, 1, 0))
		add(hostile.Tag(1<<15, 1, 1))
		add(hostile.Tag(1, 0xFFFF, 0))
		add(hostile.Tag(-1, 0, 0))
		add(39) // Z.which = boolvec, as the data word of a root struct
		add(0)
	}
	return out
}

var largeMem *hostile.Mem

func largeFamily() vlib.Family {
	a0, a1 := largeAlphabet(0), largeAlphabet(1)
	// word 2 candidates: pointer slot of a (1 data, n ptr) root / anything
	a2 := []uint64{0, hostile.ListPtr(0, 1, 1<<22+1), hostile.ListPtr(0, 0, 1<<22), hostile.ListPtr(0, 2, 1<<19)}
	fills := []byte{0x00, 0xFF}
	n := int64(len(a0) * len(a1) * len(a2) * len(fills))
	build := func(i int64) [][]byte {
		b := make([]byte, largeBytes)
		fill := fills[i%int64(len(fills))]
		i /= int64(len(fills))
		if fill != 0 {
			for k := range b {
				b[k] = fill
			}
		}
		binary.LittleEndian.PutUint64(b[0:], a0[i%int64(len(a0))])
		i /= int64(len(a0))
		binary.LittleEndian.PutUint64(b[8:], a1[i%int64(len(a1))])
		i /= int64(len(a1))
		binary.LittleEndian.PutUint64(b[16:], a2[i%int64(len(a2))])
		return [][]byte{b}
	}
	return vlib.Family{
		Name: "large-512KiB", N: n,
		Run: func(i int64, r *vlib.Rec) {
			if largeMem == nil {
				largeMem = hostile.NewMem(2*largeBytes + 4096)
			}
			contents := build(i)
			// bare + one stream framing; every limit configuration
			exp := true
			k := walkOne(r, largeMem, contents, hostile.FBare, nil, allLimits[0], true, exp)
			if k > 0 {
				r.NonTrivial()
			}
			for li, lim := range allLimits {
				if li > 0 {
					walkOne(r, largeMem, contents, hostile.FBare, nil, lim, false, exp)
				}
			}
			walkOne(r, largeMem, contents, hostile.FUnmarshal, nil, allLimits[0], false, exp)
			walkOne(r, largeMem, contents, hostile.FPackedDecoder, nil, allLimits[0], false, exp)
		},
		Describe: func(i int64) interface{} {
			c := build(i)
			return map[string]interface{}{"segment_bytes": largeBytes, "first_words_hex": hex.EncodeToString(c[0][:24]), "fill": fmt.Sprintf("%02x", c[0][100])}
		},
	}
}

func selfTest() error {
	// the typed consumers must work on a well-formed message (otherwise they
	// would only ever exercise their own argument errors)
	for _, t := range hostile.Types {
		_, seg, err := capnp.NewMessage(capnp.SingleSegment(nil))
		if err != nil {
			return err
		}
		s, err := capnp.NewRootStruct(seg, capnp.ObjectSize{DataSize: 24, PointerCount: 4})
		if err != nil {
			return err
		}
		if _, err := hostile.TextMarshal(t, s); err != nil {
			return fmt.Errorf("text.Marshal %s on an empty struct: %v", t.Name, err)
		}
		if _, err := hostile.PogsExtract(t, s); err != nil {
			return fmt.Errorf("pogs.Extract %s on an empty struct: %v", t.Name, err)
		}
	}
	// decoder self-check: the alphabet is deterministic and non-empty
	a := hostile.Alphabet([]int{3}, 0, 0, hostile.Full)
	b := hostile.Alphabet([]int{3}, 0, 0, hostile.Full)
	if len(a) == 0 || len(a) != len(b) {
		return fmt.Errorf("alphabet not deterministic")
	}
	for i := range a {
		if a[i] != b[i] {
			return fmt.Errorf("alphabet not deterministic")
		}
	}
	return nil
}

func families(tier string) []vlib.Family {
	var fams []vlib.Family
	add := func(sp *space) { fams = append(fams, spaceFamily(sp, stdFramings)) }
	fams = append(fams, spaceFamily(newSpace("seg0-empty", []int{0}, hostile.Full), stdFramings))
	add(newSpace("seg1-w1-full", []int{1}, hostile.Full))
	add(newSpace("seg1-w2-full", []int{2}, hostile.Full))
	fams = append(fams, oddFamily())
	// multi-segment, core alphabet
	multi := [][]int{{1, 1}, {0, 1}, {1, 0}, {1, 2}, {2, 1}, {1, 1, 1}}
	if tier == "thorough" {
		multi = append(multi, []int{1, 3}, []int{2, 2}, []int{3, 1}, []int{1, 1, 2}, []int{1, 2, 1}, []int{2, 1, 1}, []int{1, 0, 1}, []int{0, 2}, []int{0, 1, 1})
	}
	for _, m := range multi {
		add(newSpace("multi-"+strings.Trim(strings.Replace(fmt.Sprint(m), " ", "-", -1), "[]"), m, hostile.Core))
	}
	fams = append(fams, arenaFaultFamily(newSpace("1-1", []int{1, 1}, hostile.Core)))
	if tier == "thorough" {
		fams = append(fams, arenaFaultFamily(newSpace("1-2", []int{1, 2}, hostile.Core)))
		fams = append(fams, arenaFaultFamily(newSpace("2", []int{2}, hostile.Core)))
	}
	if tier == "thorough" {
		add(newSpace("seg1-w3-full", []int{3}, hostile.Full))
		add(newSpace("seg1-w4-core", []int{4}, hostile.Core))
		fams = append(fams, largeFamily())
	} else {
		add(newSpace("seg1-w3-core", []int{3}, hostile.Core))
	}
	if os.Getenv("C01_SIZES") != "" {
		for _, f := range fams {
			fmt.Fprintf(os.Stderr, "family %-28s N=%d\n", f.Name, f.N)
		}
	}
	return fams
}

func main() {
	vlib.Main(vlib.Spec{
		ID:    "C01",
		Level: "exploration",
		Rule: "bounded-exhaustive enumeration of messages = segment configuration x words from a per-position boundary-complete alphabet (package hostile: every pointer kind with start or end of the referenced region on every word boundary in [-1,L+1], field extrema, composite tags incl. zero-size x count -1, far/double-far to every segment id incl. out of range and every landing word, capability and unknown pointers, data words); every message under bare Single/MultiSegment arenas, a harness Arena, Unmarshal, UnmarshalPacked(ref.Pack), NewDecoder, NewPackedDecoder and a buffer-reusing Decoder; messages that hand out at least one object additionally under T in {default,64,2^40} x D in {default,3}; a walker applies the read-side API (Root, struct accessors, every list wrapper Len/At(0)/At(Len-1)/String, Text/Data, Equal, Canonicalize, SetRoot deep copy into fresh Single/Multi messages, text.Marshal and pogs.Extract as Z/PlaneBase/Regression/HoldsText/Counter) to everything reachable to depth 6. A message is non-trivial if the library handed out at least one non-null object for it.",
		Assumptions: []string{
			"recursive consumers (Equal, SetRoot, Canonicalize, text, pogs) run with the traversal budget clamped to 8 KiB on messages that declare lists of more than 1024 elements or whose unfolded pointer graph has >= 400 nodes (time/memory at the default 64 MiB budget is otherwise exponential in the depth limit); the budget accounting itself is C02's subject",
			"limit configurations other than the default are applied only to messages for which the default configuration hands out at least one object (every earlier failure precedes the budget and depth checks in segment.go readPtr)",
			"list elements other than index 0 and Len-1 are not touched; documented programmer-error panics (index >= Len, setters) are never provoked",
		},
		Families: families,
		SelfTest: selfTest,
	})
}
