// C17 — capnp.Equal is exactly the documented structural equality.
//
// Family "pairs": all ordered pairs (a, b) of the universe U17, each value
// under four whole-tree layouts (default / multi-segment far+double-far /
// skewed: longer sections, gaps, garbage padding / upgraded lists), a and b in
// different messages whose capability tables share the client at index 0 and
// differ at index 1: Equal(pa, pb) and Equal(pb, pa) must both be
// ref.ValueEqual(decoded a, decoded b), without error.
// Family "self": reflexivity, equality with the deep copy (SetRoot into a
// fresh message) and with every other layout of the same value.
// Family "caps" (capability-bearing values only): a and b as two fields of one struct, so that
// capability pointers are compared inside one message — with a table whose
// two entries are different clients, the same client twice, or no table; and
// in two messages of which one has no capability table.
package main

import (
	"errors"
	"fmt"
	"sync"

	capnp "capnproto.org/go/capnp/v3"
	"capnproto.org/go/capnp/v3/internal/verif/rcmp"
	"capnproto.org/go/capnp/v3/internal/verif/ref"
	"capnproto.org/go/capnp/v3/internal/verif/vlib"
)

var (
	clientX = capnp.ErrorClient(errors.New("X"))
	clientY = capnp.ErrorClient(errors.New("Y"))
	clientZ = capnp.ErrorClient(errors.New("Z"))
)

// universe17 is U(1) plus the 2-object trees over the primary containers and
// slim leaves (quick) or all of U(2) (thorough), capabilities included.
func universe17(tier string) []ref.Value {
	if tier == "thorough" {
		return ref.Universe(2)
	}
	u := ref.Universe(1)
	seen := map[string]bool{}
	for _, v := range u {
		seen[v.String()] = true
	}
	slim := map[string]bool{}
	for _, l := range ref.SlimLeaves() {
		slim[l.String()] = true
	}
	for _, v := range ref.Universe(2) {
		if seen[v.String()] || v.Objects() != 2 && !v.HasCap() {
			continue
		}
		// keep 2-object trees whose child is a slim leaf, in a struct or list container
		keep := v.HasCap()
		if !keep {
			var kid ref.Value
			n := 0
			walkKids(v, func(k ref.Value) {
				if !k.IsNull() {
					kid = k
					n++
				}
			})
			keep = n == 1 && slim[kid.String()] && (v.Kind == ref.KindStruct && len(v.Ptrs) <= 2 && len(v.Data) <= 8 || v.Kind == ref.KindList && v.N <= 2)
		}
		if keep {
			seen[v.String()] = true
			u = append(u, v)
		}
	}
	return u
}

func walkKids(v ref.Value, f func(ref.Value)) {
	switch {
	case v.Kind == ref.KindStruct:
		for _, p := range v.Ptrs {
			f(p)
		}
	case v.Kind == ref.KindList && v.Elem == ref.ElemPtr:
		for _, p := range v.Elems {
			f(p)
		}
	case v.Kind == ref.KindList && v.Elem == ref.ElemComposite:
		for _, e := range v.Elems {
			for _, p := range e.Ptrs {
				f(p)
			}
		}
	}
}

type loaded struct {
	root capnp.Ptr
	dec  ref.Value
	desc string
	segs [][]byte
	err  error
}

// side 0: table [X, Y]; side 1: table [X', Z] (X' is another reference to X).
type cacheT struct {
	once sync.Once
	u    []ref.Value
	m    [2][][]loaded // [side][value][preset]
}

var cache cacheT

func load(l ref.Layout, table []*capnp.Client) loaded {
	msg := rcmp.Load(l.Segments)
	msg.CapTable = table
	root, err := msg.Root()
	return loaded{root: root, dec: l.Decoded, desc: l.Desc(), segs: l.Segments, err: err}
}

func (c *cacheT) init(tier string) {
	c.once.Do(func() {
		c.u = universe17(tier)
		for side := 0; side < 2; side++ {
			c.m[side] = make([][]loaded, len(c.u))
			for i, v := range c.u {
				for _, name := range ref.Presets {
					var tab []*capnp.Client
					if side == 0 {
						tab = []*capnp.Client{clientX, clientY}
					} else {
						tab = []*capnp.Client{clientX.AddRef(), clientZ}
					}
					c.m[side][i] = append(c.m[side][i], load(ref.Preset(v, name), tab))
				}
			}
		}
	})
}

func kindOf(v ref.Value) string {
	switch v.Kind {
	case ref.KindStruct:
		return "struct"
	case ref.KindList:
		return "list-" + v.Elem.String()
	case ref.KindCap:
		return "cap"
	}
	return "null"
}

// children returns the pointer children of p / v that Equal compares
// pairwise (nil if p is a leaf or the shapes are not comparable child-wise).
func children(p capnp.Ptr, v ref.Value) ([]capnp.Ptr, []ref.Value) {
	var ps []capnp.Ptr
	var vs []ref.Value
	switch {
	case v.Kind == ref.KindStruct:
		for i := range v.Ptrs {
			q, err := p.Struct().Ptr(uint16(i))
			if err != nil {
				return nil, nil
			}
			ps, vs = append(ps, q), append(vs, v.Ptrs[i])
		}
	case v.Kind == ref.KindList && v.Elem == ref.ElemPtr:
		for i := range v.Elems {
			q, err := capnp.PointerList{List: p.List()}.At(i)
			if err != nil {
				return nil, nil
			}
			ps, vs = append(ps, q), append(vs, v.Elems[i])
		}
	case v.Kind == ref.KindList && v.Elem == ref.ElemComposite && v.Elems != nil:
		for i := range v.Elems {
			ps, vs = append(ps, p.List().Struct(i).ToPtr()), append(vs, v.Elems[i])
		}
	}
	return ps, vs
}

// witness descends to the smallest sub-pair on which the library and the
// reference disagree and names it.
func witness(pa, pb capnp.Ptr, va, vb ref.Value, capEq func(i, j uint32) ref.Verdict, depth int) string {
	if depth < 6 && kindOf(va) == kindOf(vb) {
		ca, xa := children(pa, va)
		cb, xb := children(pb, vb)
		n := len(ca)
		if len(cb) < n {
			n = len(cb)
		}
		for i := 0; i < n; i++ {
			want := ref.ValueEqualCaps(xa[i], xb[i], capEq)
			got, err := capnp.Equal(ca[i], cb[i])
			if want != ref.VUnspecified && (err != nil || got != (want == ref.VEqual)) {
				return witness(ca[i], cb[i], xa[i], xb[i], capEq, depth+1)
			}
		}
	}
	a, b := kindOf(va), kindOf(vb)
	if b < a {
		a, b = b, a
	}
	return a + "~" + b
}

// judge compares one Equal call with the reference.
func judge(r *vlib.Rec, fam string, a, b loaded, capEq func(i, j uint32) ref.Verdict) {
	if a.err != nil || b.err != nil {
		r.Failf("harness/root-error", "Root(): %v / %v", a.err, b.err)
		return
	}
	want := ref.ValueEqualCaps(a.dec, b.dec, capEq)
	got, err := capnp.Equal(a.root, b.root)
	ctx := func() string {
		return fmt.Sprintf("\n a = %s   (layout %s: %s)\n b = %s   (layout %s: %s)", a.dec, a.desc, ref.HexSegments(a.segs), b.dec, b.desc, ref.HexSegments(b.segs))
	}
	if err != nil {
		r.Failf(fam+"/error/"+witness(a.root, b.root, a.dec, b.dec, capEq, 0), "Equal returns error %v (limits are lifted)%s", err, ctx())
		return
	}
	if want == ref.VUnspecified {
		r.Outcome(fmt.Sprintf("unspecified/%s~%s:%v", kindOf(a.dec), kindOf(b.dec), got))
		return
	}
	r.Outcome(fmt.Sprintf("%s~%s:%v", kindOf(a.dec), kindOf(b.dec), got))
	if got != (want == ref.VEqual) {
		r.Failf(fmt.Sprintf("%s/%s/got-%v", fam, witness(a.root, b.root, a.dec, b.dec, capEq, 0), got),
			"Equal(a, b) = %v, documented equality says %v%s", got, want, ctx())
	}
}

// capEq for a on side 0 and b on side 1: index 0 is the same client, index 1
// are different clients.
func crossCaps(i, j uint32) ref.Verdict {
	if i == 0 && j == 0 {
		return ref.VEqual
	}
	return ref.VNotEqual
}

func flip(f func(i, j uint32) ref.Verdict) func(i, j uint32) ref.Verdict {
	return func(i, j uint32) ref.Verdict { return f(j, i) }
}

func main() {
	vlib.Main(vlib.Spec{
		ID:    "C17",
		Level: "exploration",
		Rule:  "pairs: all ordered pairs of the universe U17 (every leaf object of the shared universe — all list kinds incl. every bit list of length <= 3, void/bit/byte lists of equal length, primitive and composite lists, structs of every section size — plus null, capabilities and 2-object trees; thorough: all of U(2)) x 4 layouts each, both argument orders; self: reflexive / deep copy / re-layout; caps: all ordered pairs of the capability-bearing values as two fields of one message under three capability-table states (distinct clients, same client twice, no table), and in two messages of which one has no table. Every pair is distinct, so every case is non-trivial; outcome classes count (kind pair, result) combinations.",
		Assumptions: []string{
			"ref.ValueEqual is the doc comment of Equal transcribed; where that text does not decide (two empty lists of different primitive kinds, bit list vs struct list, capabilities of two messages that both lack a table entry) no verdict is demanded",
			"capability identity is that of the clients placed in Message.CapTable (ErrorClient clients; AddRef gives the same capability)",
			"traversal limit 2^40 and depth limit 1000, so no limit can be the reason for an error",
		},
		SelfTest: ref.SelfTest,
		Families: func(tier string) []vlib.Family {
			u := universe17(tier)
			n := int64(len(u))
			np := len(ref.Presets)
			var capIdx []int
			for i, v := range u {
				if v.HasCap() {
					capIdx = append(capIdx, i)
				}
			}
			nc := int64(len(capIdx))
			return []vlib.Family{
				{
					Name: "pairs", N: n * n,
					Run: func(i int64, r *vlib.Rec) {
						cache.init(tier)
						ia, ib := i/n, i%n
						r.NonTrivial()
						for la := 0; la < np; la++ {
							for lb := 0; lb < np; lb++ {
								a, b := cache.m[0][ia][la], cache.m[1][ib][lb]
								judge(r, "pairs", a, b, crossCaps)
								judge(r, "pairs", b, a, flip(crossCaps))
							}
						}
					},
					Describe: func(i int64) interface{} {
						return map[string]string{"a": u[i/n].String(), "b": u[i%n].String()}
					},
				},
				{
					Name: "self", N: n,
					Run: func(i int64, r *vlib.Rec) {
						cache.init(tier)
						r.NonTrivial()
						same := func(i, j uint32) ref.Verdict {
							if i == j {
								return ref.VEqual
							}
							return ref.VNotEqual
						}
						for la := 0; la < np; la++ {
							a := cache.m[0][i][la]
							judge(r, "self/reflexive", a, a, same)
							// every other layout of the same value, same table
							for lb := 0; lb < np; lb++ {
								b := load(ref.Preset(u[i], ref.Presets[lb]), []*capnp.Client{clientX.AddRef(), clientY.AddRef()})
								judge(r, "self/relayout", a, b, same)
								judge(r, "self/relayout", b, a, same)
							}
							// deep copy into a fresh message
							msg, _, err := capnp.NewMessage(capnp.MultiSegment(nil))
							if err != nil {
								r.Fail("harness/newmessage", err.Error())
								continue
							}
							msg.TraverseLimit = 1 << 40
							msg.DepthLimit = 1000
							if err := msg.SetRoot(a.root); err != nil {
								r.Failf("self/copy/setroot-error", "SetRoot(copy of %s, layout %s): %v", a.dec, a.desc, err)
								continue
							}
							cp, err := msg.Root()
							c := loaded{root: cp, dec: a.dec, desc: "deep copy", err: err}
							judge(r, "self/copy", a, c, same)
							judge(r, "self/copy", c, a, same)
						}
					},
					Describe: func(i int64) interface{} { return u[i].String() },
				},
				{
					// only the capability-bearing values: everything else is
					// covered by family pairs, here capability identity matters
					Name: "caps", N: nc * nc,
					Run: func(i int64, r *vlib.Rec) {
						va, vb := u[capIdx[i/nc]], u[capIdx[i%nc]]
						r.NonTrivial()
						l := ref.DefaultLayout(ref.StructV(nil, va, vb))
						for variant, tab := range [][]*capnp.Client{
							{clientX, clientY},
							{clientX, clientX.AddRef()},
							nil,
						} {
							msg := rcmp.Load(l.Segments)
							msg.CapTable = tab
							root, err := msg.Root()
							if err != nil {
								r.Fail("harness/root-error", err.Error())
								return
							}
							pa, e1 := root.Struct().Ptr(0)
							pb, e2 := root.Struct().Ptr(1)
							if e1 != nil || e2 != nil {
								r.Failf("harness/root-error", "%v %v", e1, e2)
								return
							}
							capEq := func(i, j uint32) ref.Verdict {
								// same index in the same message is always equal; different
								// indices are equal iff the table holds the same client there
								if i == j || variant == 1 {
									return ref.VEqual
								}
								return ref.VNotEqual
							}
							name := [...]string{"same-message/distinct-clients", "same-message/same-client-twice", "same-message/no-table"}[variant]
							a := loaded{root: pa, dec: va, desc: "field 0", segs: l.Segments}
							b := loaded{root: pb, dec: vb, desc: "field 1", segs: nil}
							judge(r, name, a, b, capEq)
							judge(r, name, b, a, flip(capEq))
						}
						// two messages, one of them without capability table: a
						// real client never equals a missing one.  (Both tables
						// missing: the text does not decide; recorded only.)
						never := func(i, j uint32) ref.Verdict { return ref.VNotEqual }
						la, lb := ref.DefaultLayout(va), ref.DefaultLayout(vb)
						withTab := load(la, []*capnp.Client{clientX, clientY})
						noTabA, noTabB := load(la, nil), load(lb, nil)
						judge(r, "two-messages/one-without-table", withTab, noTabB, never)
						judge(r, "two-messages/one-without-table", noTabB, withTab, never)
						if eq, err := capnp.Equal(noTabA.root, noTabB.root); err != nil {
							r.Failf("two-messages/no-tables/error", "Equal: %v\n a = %s\n b = %s", err, va, vb)
						} else {
							r.Outcome(fmt.Sprintf("two-messages/no-tables:%v", eq))
						}
					},
					Describe: func(i int64) interface{} {
						return map[string]string{"a": u[capIdx[i/nc]].String(), "b": u[capIdx[i%nc]].String()}
					},
				},
			}
		},
		Extra: func(tier string) map[string]interface{} {
			return map[string]interface{}{"universe_size": len(universe17(tier)), "layouts_per_value": len(ref.Presets)}
		},
	})
}
