// C03 — every value read equals what the encoding spec says the bytes denote.
//
// Family "layouts": every value of the shared universe U(n) x every layout of
// ref.Layouts (near/far/double-far per edge, segment placement, garbage gaps,
// early placement = negative offsets, longer struct sections, primitive lists
// upgraded to composite lists, garbage in list padding) is loaded into a real
// Message and read through the public accessors: every integer width at every
// aligned offset up to one word beyond the data section, bits of the first,
// last and first-beyond byte, every pointer and one beyond, every typed list
// view.  The result must equal the tree the layout was generated from, which
// is cross-checked against the independent decoder ref.Decode.
//
// Family "bytes-*": every message of <= 3 words over a boundary-rich word
// alphabet in 1-2 segments.  Whenever ref.Decode accepts, the library (with
// traversal limit 2^40 and depth limit 1000) must succeed and agree; whatever
// the library hands out must be safe to walk (no panic, Len() >= 0, segments
// have cap == len so any out-of-segment access panics).
package main

import (
	"fmt"

	capnp "capnproto.org/go/capnp/v3"
	"capnproto.org/go/capnp/v3/internal/verif/rcmp"
	"capnproto.org/go/capnp/v3/internal/verif/ref"
	"capnproto.org/go/capnp/v3/internal/verif/vlib"
)

func layoutBound(tier string, objects int) int {
	switch {
	case objects <= 1:
		return -1
	case objects == 2:
		return 3
	case objects == 3 && tier == "thorough":
		return 3
	}
	return 2
}

func layoutCase(u []ref.Value, tier string) func(i int64, r *vlib.Rec) {
	return func(i int64, r *vlib.Rec) {
		v := u[i]
		ls := ref.Layouts(v, layoutBound(tier, v.Objects()))
		r.NonTrivial()
		r.Note("layouts", int64(len(ls)))
		for _, l := range ls {
			dec, err := ref.Decode(l.Segments)
			if err != nil || !ref.Identical(dec, l.Decoded) {
				r.Failf("harness/ref-decode-disagrees-with-ref-encoder", "layout %s of %s: Decode = %s, %v", l.Desc(), v, dec, err)
				continue
			}
			msg, slab := rcmp.LoadSlab(l.Segments)
			ck := &rcmp.Checker{
				Fail:    func(key, detail string) { r.Fail("layouts/"+key, detail) },
				Outcome: r.Outcome,
				Slab:    slab,
				Sweep:   true,
				Context: fmt.Sprintf("\n value  %s\n layout %s\n decoded %s\n %s", v, l.Desc(), l.Decoded, ref.HexSegments(l.Segments)),
			}
			root, err := msg.Root()
			ck.Ptr(root, err, l.Decoded, "root")
			if len(l.Devs) == 0 {
				r.Outcome("layout/default")
			}
			for _, d := range l.Devs {
				for k := 0; k < len(d); k++ {
					if d[k] == ':' {
						r.Outcome("layout/" + d[k+1:])
					}
				}
			}
		}
	}
}

// ---- arbitrary small messages ----

// alphabet returns the boundary-rich word alphabet.  Words are chosen so that
// for segments of <= 3 words every pointer kind has targets starting/ending on
// every word boundary in [-1, 4], every list element code, counts around the
// byte/word boundaries, tag words with zero/negative/huge counts, far and
// double-far pointers to every word of segments 0..2, capability and unknown
// "other" pointers, and data words.
func alphabet(tier string) []uint64 {
	seen := map[uint64]bool{}
	var a []uint64
	add := func(w uint64) {
		if !seen[w] {
			seen[w] = true
			a = append(a, w)
		}
	}
	st := func(off int32, dw, pc uint16) uint64 {
		return uint64(uint32(off)<<2) | uint64(dw)<<32 | uint64(pc)<<48
	}
	li := func(off int32, code uint64, n uint64) uint64 {
		return 1 | uint64(uint32(off)<<2) | code<<32 | n<<35
	}
	far := func(dbl uint64, seg uint64, off uint64) uint64 { return 2 | dbl<<2 | off<<3 | seg<<32 }
	thorough := tier == "thorough"
	add(0)
	// struct pointers / composite tags (a tag with count c looks like a struct pointer with offset c)
	offs := []int32{-1, 0, 1}
	sizes := [][2]uint16{{0, 0}, {1, 0}, {0, 1}, {1, 1}}
	if thorough {
		offs = []int32{-2, -1, 0, 1, 2}
		sizes = append(sizes, [2]uint16{2, 0}, [2]uint16{0, 2})
	}
	for _, o := range offs {
		for _, s := range sizes {
			add(st(o, s[0], s[1]))
		}
	}
	add(st(0, 0xFFFF, 0xFFFF))
	add(st(-1<<29, 1, 0))  // most negative offset
	add(st(1<<29-1, 0, 0)) // tag count 2^29-1, zero-sized elements
	add(st(1<<29-1, 1, 0))
	add(uint64(0x3FFFFFFF) << 2)       // tag count "-1" / 2^30-1, zero-sized elements
	add(uint64(0x3FFFFFFF)<<2 | 1<<32) // same with one data word
	add(uint64(0x20000000) << 2)       // tag count 2^29
	add(st(2, 0, 0))
	add(st(3, 0, 0))
	// list pointers
	for code := uint64(0); code < 8; code++ {
		add(li(0, code, 0))
		add(li(0, code, 1))
		add(li(0, code, 2))
		add(li(-1, code, 1))
		if thorough {
			add(li(1, code, 1))
			add(li(0, code, 3))
			add(li(-1, code, 2))
			add(li(-2, code, 1))
		}
	}
	add(li(0, 1, 64))
	add(li(0, 1, 65))
	add(li(0, 1, 128))
	add(li(0, 1, 129))
	add(li(0, 2, 8))
	add(li(0, 2, 9))
	add(li(0, 2, 16))
	add(li(0, 2, 17))
	add(li(0, 3, 4))
	add(li(0, 3, 5))
	add(li(0, 4, 3))
	add(li(1, 7, 0))
	add(li(0, 0, 1<<29-1))
	add(li(0, 1, 1<<29-1))
	add(li(0, 5, 1<<29-1))
	add(li(0, 7, 1<<29-1))
	add(li(-1, 6, 3))
	// far and double-far pointers
	maxOff := uint64(2)
	if thorough {
		maxOff = 3
	}
	for dbl := uint64(0); dbl < 2; dbl++ {
		for seg := uint64(0); seg < 3; seg++ {
			for off := uint64(0); off <= maxOff; off++ {
				if seg == 2 && off > 0 {
					continue
				}
				add(far(dbl, seg, off))
			}
		}
		add(far(dbl, 0xFFFFFFFF, 0))
		add(far(dbl, 0, 1<<29-1))
	}
	// capabilities / other
	add(3)
	add(3 | 1<<32)
	add(3 | 0xFFFFFFFF<<32)
	add(7)
	add(0xFFFFFFFFFFFFFFFF)
	// data
	add(0x0807060504030201)
	add(0x8000000000000000)
	return a
}

type segCfg struct{ s0, s1 int } // words in segment 0 and 1 (s1 < 0: one segment)

func bytesFamilies(tier string) []vlib.Family {
	A := alphabet(tier)
	n := int64(len(A))
	cfgs := []segCfg{{1, -1}, {2, -1}, {3, -1}, {1, 0}, {1, 1}, {1, 2}, {2, 1}}
	type sub struct {
		c     segCfg
		words int
		n     int64
	}
	var subs []sub
	total := int64(0)
	for _, c := range cfgs {
		words := c.s0
		if c.s1 > 0 {
			words += c.s1
		}
		N := int64(1)
		for k := 0; k < words; k++ {
			N *= n
		}
		subs = append(subs, sub{c, words, N})
		total += N
	}
	build := func(i int64) [][]byte {
		var sb sub
		for _, sb = range subs {
			if i < sb.n {
				break
			}
			i -= sb.n
		}
		ws := make([]uint64, sb.words)
		for k := 0; k < sb.words; k++ {
			ws[k] = A[i%n]
			i /= n
		}
		mk := func(w []uint64) []byte {
			b := make([]byte, 8*len(w))
			for k, x := range w {
				for j := 0; j < 8; j++ {
					b[8*k+j] = byte(x >> uint(8*j))
				}
			}
			return b
		}
		if sb.c.s1 < 0 {
			return [][]byte{mk(ws)}
		}
		return [][]byte{mk(ws[:sb.c.s0]), mk(ws[sb.c.s0:])}
	}
	return []vlib.Family{{
		Name: "bytes", N: total,
		Run:      func(i int64, r *vlib.Rec) { bytesCase(build(i), r) },
		Describe: func(i int64) interface{} { return ref.HexSegments(build(i)) },
	}}
}

func bytesCase(segs [][]byte, r *vlib.Rec) {
	want, rerr := ref.DecodeWith(segs, ref.DecodeOptions{MaxDepth: 48, MaxNodes: 600})
	msg, slab := rcmp.LoadSlab(segs)
	root, err := msg.Root()
	ctx := "\n " + ref.HexSegments(segs)
	switch {
	case rerr == nil:
		r.NonTrivial()
		r.Outcome("ref-accepts/" + kindOf(want))
		ck := &rcmp.Checker{
			Fail:    func(key, detail string) { r.Fail("bytes/"+key, detail) },
			Outcome: r.Outcome,
			Slab:    slab,
			Sweep:   true,
			Context: fmt.Sprintf("\n spec value %s%s", want, ctx),
		}
		ck.Ptr(root, err, want, "root")
	case ref.IsUnspecified(rerr):
		r.Outcome("ref-unspecified/" + ref.ErrClass(rerr) + libVerdict(err))
		safeWalk(root, err, 0, r, ctx)
	default:
		r.Outcome("ref-rejects/" + ref.ErrClass(rerr) + libVerdict(err))
		safeWalk(root, err, 0, r, ctx)
	}
}

func libVerdict(err error) string {
	if err != nil {
		return ":lib-rejects"
	}
	return ":lib-accepts"
}

func kindOf(v ref.Value) string {
	switch v.Kind {
	case ref.KindStruct:
		return "struct"
	case ref.KindList:
		return "list-" + v.Elem.String()
	case ref.KindCap:
		return "cap"
	}
	return "null"
}

// safeWalk touches everything the library hands out for a message the
// reference did not accept: nothing may panic (segments have cap == len) and
// no list may have a negative length.
func safeWalk(p capnp.Ptr, err error, depth int, r *vlib.Rec, ctx string) {
	if err != nil || !p.IsValid() || depth > 4 {
		return
	}
	if s := p.Struct(); s.IsValid() {
		sz := s.Size()
		_ = s.Uint64(0)
		if sz.DataSize > 0 {
			_ = s.Uint8(capnp.DataOffset(sz.DataSize - 1))
			_ = s.Bit(capnp.BitOffset(sz.DataSize*8 - 1))
		}
		for i := 0; i < int(sz.PointerCount) && i < 3; i++ {
			q, e := s.Ptr(uint16(i))
			safeWalk(q, e, depth+1, r, ctx)
		}
		if sz.PointerCount > 3 {
			q, e := s.Ptr(sz.PointerCount - 1)
			safeWalk(q, e, depth+1, r, ctx)
		}
		return
	}
	l := p.List()
	if !l.IsValid() {
		return
	}
	n := l.Len()
	if n < 0 {
		r.Failf("bytes/list-negative-length", "List.Len() = %d on a pointer the library accepted without error%s", n, ctx)
		return
	}
	if n == 0 {
		return
	}
	_ = p.Data()
	_ = p.Text()
	for _, i := range []int{0, n - 1} {
		_ = (capnp.BitList{List: l}).At(i)
		_ = (capnp.UInt8List{List: l}).At(i)
		_ = (capnp.UInt16List{List: l}).At(i)
		_ = (capnp.UInt32List{List: l}).At(i)
		_ = (capnp.UInt64List{List: l}).At(i)
		q, e := (capnp.PointerList{List: l}).At(i)
		safeWalk(q, e, depth+1, r, ctx)
		if s := l.Struct(i); s.IsValid() {
			safeWalk(s.ToPtr(), nil, depth+1, r, ctx)
		}
	}
}

func main() {
	var cache = map[string][]ref.Value{}
	universe := func(tier string) []ref.Value {
		if u, ok := cache[tier]; ok {
			return u
		}
		n := 3
		if tier == "thorough" {
			n = 5
		}
		cache[tier] = ref.Universe(n)
		return cache[tier]
	}
	vlib.Main(vlib.Spec{
		ID:    "C03",
		Level: "exploration",
		Rule:  "layouts: every value of the universe U(n) (n=3 quick, 5 thorough objects; all list kinds, lengths 0-3 and byte/word-boundary lengths, struct sections 0-2 words/pointers, capabilities) x every layout with <= 2 deviations (all layouts for 1-object values, <= 3 for 2-object values) is read through all public accessors and compared with the generating tree and with ref.Decode. bytes-*: every message of <= 3 words over the boundary-rich alphabet in 1-2 segments. A layouts case is non-trivial always (each value is distinct); a bytes case is non-trivial when the reference decoder accepts the message, so that the library's result is actually compared.",
		Assumptions: []string{
			"ref.Decode / ref.Layouts (written from encoding.html) are the specification; they are cross-checked against each other on every case and by ref.SelfTest on every run",
			"inputs the encoding spec does not clearly decide (far landing pad null/capability, double-far to a zero-sized struct, composite tag count >= 2^29, cycles deeper than the reference's own limits) are not judged, only walked for memory safety",
			"the library does not expose a list's element kind; typed views are chosen from the expected tree, views of another kind are only checked not to panic",
		},
		SelfTest: ref.SelfTest,
		Families: func(tier string) []vlib.Family {
			u := universe(tier)
			fams := []vlib.Family{{
				Name: "layouts", N: int64(len(u)),
				Run:      layoutCase(u, tier),
				Describe: func(i int64) interface{} { return u[i].String() },
			}}
			return append(fams, bytesFamilies(tier)...)
		},
		Extra: func(tier string) map[string]interface{} {
			return map[string]interface{}{"universe_size": len(universe(tier)), "alphabet_words": len(alphabet(tier))}
		},
	})
}
