// C04 — what is written through the builder API is what is read back,
// everywhere.
//
// Explicit-state breadth-first search (package bfsbuild) over sequences of
// builder operations on a real Message, in lock-step with a plain-Go model
// heap, in every arena configuration of bfsbuild.Configs (SingleSegment /
// MultiSegment with and without pre-sized buffers, TightArena for every
// capacity sequence of length <= 3 over {8,16,24,32} bytes; spare capacity
// pre-filled with 0xAA).  One family per exploration pass (menu x depth), one
// case per arena configuration (= that configuration's whole BFS).
//
// Oracle after EVERY operation: every live handle and the root pointer read
// back (rcmp.Checker with the full accessor sweep) exactly the tree the model
// denotes — so a set that disturbs another field or object, and a fresh
// object that is not all-zero, are seen at once; the storage of distinct
// handles is pairwise disjoint.  In every distinct state additionally:
// Marshal→Unmarshal, MarshalPacked→UnmarshalPacked, Encoder→Decoder packed
// and unpacked (the message written twice by one Encoder and read twice by
// one Decoder, with and without ReuseBuffer) through readers delivering
// chunks of {1,2,3,7,8,9,whole} bytes ({3,whole} while the root is still
// null) all yield the model tree of the root.
package main

import (
	"bytes"
	"fmt"
	"io"
	"time"

	capnp "capnproto.org/go/capnp/v3"
	"capnproto.org/go/capnp/v3/internal/verif/bfsbuild"
	"capnproto.org/go/capnp/v3/internal/verif/rcmp"
	"capnproto.org/go/capnp/v3/internal/verif/ref"
	"capnproto.org/go/capnp/v3/internal/verif/vlib"
)

// chunkReader delivers at most k bytes per Read (k <= 0: everything).
type chunkReader struct {
	b []byte
	k int
}

func (c *chunkReader) Read(p []byte) (int, error) {
	if len(c.b) == 0 {
		return 0, io.EOF
	}
	n := len(p)
	if c.k > 0 && n > c.k {
		n = c.k
	}
	if n > len(c.b) {
		n = len(c.b)
	}
	copy(p, c.b[:n])
	c.b = c.b[n:]
	return n, nil
}

var chunks = []int{1, 2, 3, 7, 8, 9, 0}

func oracle(r *vlib.Rec) bfsbuild.Oracle {
	return bfsbuild.Oracle{
		Transition: func(w *bfsbuild.World, last bfsbuild.Op, fail func(key, detail string)) {
			r.Outcome("op/" + last.Name())
			w.ReadBack(true, func(key, detail string) {
				fail("readback/"+key+"/after-"+last.Name(), detail)
			})
			if d := w.Disjoint(); d != "" {
				fail("alloc/objects-overlap/after-"+last.Name(), d)
			}
		},
		NewState: func(w *bfsbuild.World, fail func(key, detail string)) {
			want, cut := w.Unfold(w.Root)
			if cut {
				r.Outcome("root/cyclic")
				return
			}
			if want.IsNull() {
				r.Outcome("root/null")
			}
			segs, err := w.Segments()
			if err == nil {
				classify(segs, r)
			}
			check := func(path, how string, m *capnp.Message, err error) {
				if err != nil {
					fail("roundtrip/"+path+"/error", fmt.Sprintf("%s: %v (model root %s)", how, err, want))
					return
				}
				root, err := m.Root()
				ck := &rcmp.Checker{
					Fail: func(key, detail string) {
						fail("roundtrip/"+path+"/"+key, how+": "+detail+"\n model root "+want.String())
					},
				}
				ck.Ptr(root, err, want, "root")
			}
			b, err := w.Msg.Marshal()
			if err != nil {
				fail("roundtrip/marshal/error", "Marshal: "+err.Error())
				return
			}
			m, err := capnp.Unmarshal(b)
			check("marshal", "Marshal→Unmarshal", m, err)
			// a received message can be modified: allocating in any of its
			// segments must not disturb what is already there
			allocIn := func(path, how string, m *capnp.Message) {
				if m == nil {
					return
				}
				for id := int64(0); id < m.NumSegments(); id++ {
					seg, serr := m.Segment(capnp.SegmentID(id))
					if serr != nil {
						continue
					}
					if st, aerr := capnp.NewStruct(seg, capnp.ObjectSize{DataSize: 16, PointerCount: 1}); aerr == nil {
						st.SetUint64(0, ^uint64(0))
						st.SetUint64(8, ^uint64(0))
						st.SetNewText(0, "\xff\xff\xff\xff\xff\xff\xff\xff\xff")
					}
				}
				check(path, how+", then a struct and a text allocated through every segment of the received message and filled with 0xFF: everything that was there must read as before", m, nil)
			}
			if err == nil {
				allocIn("marshal+alloc", "Marshal→Unmarshal", m)
			}
			bp, err := w.Msg.MarshalPacked()
			if err != nil {
				fail("roundtrip/marshal-packed/error", "MarshalPacked: "+err.Error())
				return
			}
			m, err = capnp.UnmarshalPacked(bp)
			check("marshal-packed", "MarshalPacked→UnmarshalPacked", m, err)
			if err == nil {
				allocIn("marshal-packed+alloc", "MarshalPacked→UnmarshalPacked", m)
			}
			for _, packed := range []bool{false, true} {
				var buf bytes.Buffer
				path := "stream"
				enc := capnp.NewEncoder(&buf)
				if packed {
					path = "stream-packed"
					enc = capnp.NewPackedEncoder(&buf)
				}
				// the same Encoder writes the message twice, the same Decoder
				// reads it twice (header / buffer reuse inside both)
				if err := enc.Encode(w.Msg); err != nil {
					fail("roundtrip/"+path+"/error", "Encode: "+err.Error())
					continue
				}
				if err := enc.Encode(w.Msg); err != nil {
					fail("roundtrip/"+path+"/error", "second Encode: "+err.Error())
					continue
				}
				cs := chunks
				if want.IsNull() {
					// nothing but the segment table varies: two chunkings do
					cs = []int{3, 0}
				}
				for _, k := range cs {
					for _, reuse := range []bool{false, true} {
						if reuse && k != 3 && k != 0 {
							continue
						}
						rd := &chunkReader{b: buf.Bytes(), k: k}
						var dec *capnp.Decoder
						if packed {
							dec = capnp.NewPackedDecoder(rd)
						} else {
							dec = capnp.NewDecoder(rd)
						}
						if reuse {
							dec.ReuseBuffer()
						}
						for n := 1; n <= 2; n++ {
							m, err := dec.Decode()
							how := fmt.Sprintf("Encoder→Decoder (%s, message %d of 2 on the stream, reader chunks of %d bytes (0 = whole), ReuseBuffer %v)", path, n, k, reuse)
							check(path, how, m, err)
							if err == nil && k == 0 && !reuse && n == 2 {
								allocIn(path+"+alloc", how, m)
							}
						}
						if _, err := dec.Decode(); err == io.EOF {
							r.Outcome("stream/end:EOF")
						} else {
							r.Outcome("stream/end:other")
						}
					}
				}
			}
		},
	}
}

// classify records which pointer encodings the state contains (vacuity
// indicator only; judging the bytes is C05's job).
func classify(segs [][]byte, r *vlib.Rec) {
	rep, err := ref.Validate(segs)
	if err != nil {
		r.Outcome("layout/not-judged")
		return
	}
	far, dfar := false, false
	for _, e := range rep.Extents {
		if e.Kind == "pad" {
			if e.End-e.Start == 2 {
				dfar = true
			} else {
				far = true
			}
		}
	}
	switch {
	case dfar && far:
		r.Outcome("layout/far+double-far")
	case dfar:
		r.Outcome("layout/double-far")
	case far:
		r.Outcome("layout/far")
	case len(rep.Extents) > 0:
		r.Outcome("layout/near-only")
	}
	if len(segs) > 1 {
		r.Outcome("layout/multi-segment")
	}
}

func main() {
	vlib.Main(vlib.Spec{
		ID:    "C04",
		Level: "model_checking",
		Rule: "A case is one arena configuration's whole breadth-first search for one pass (menu x depth); it is non-trivial when it explores more than one distinct state. " +
			"State = operation sequence (replayed on a fresh Message, plus one operation); states are de-duplicated by a hash of (model forest with the location of every handle's object, root slot, capability count, per-segment len/cap vector). " +
			"Passes (exact list in coverage.passes): full menu (5 struct sizes incl. NewRootStruct, every list kind x n in 0..3 plus bit 9/64/65 and byte 9, composite lists of 5 element sizes, NewText/NewData 0,1,7,8,9, 14 field setters, list element setters incl. UInt8List/UInt64List/PointerList/TextList views of composite lists, SetPtr/PointerList.Set with every source incl. re-parenting, overwrite of non-null slots, self-reference, composite-list members, capabilities (AddCap), SetText/SetNewText/SetTextFromBytes/SetData/TextList.Set/DataList.Set, List.SetStruct, SetRoot) to depth 2; mid menu to depth 3 (thorough 4); slim menu to depth 4 (thorough 6, state cap 300000 per configuration); big menu (objects > 1 KiB, crosses the arena growth policy) to depth 3 (thorough 4) on the standard arenas.",
		Assumptions: []string{
			"the model is a heap of objects with pointer slots: Struct.SetPtr/PointerList.Set/SetRoot of an object of the same message aliases it, of a composite-list member deep-copies it; List.SetStruct copies with the documented truncation/zero-extension and deep-copies the kept pointers; SetText(\"\")/TextList.Set(\"\")/DataList.Set(empty) write null",
			"operations the property leaves open are not in the menu: deep copies that would walk a cyclic graph, aliasing assignments that close a cycle other than a direct self-reference, SetStruct into a list reachable from the source",
			"cyclic graphs (self-reference) are compared to nesting depth 4 only and are not serialised",
			"arena spare capacity is pre-filled with 0xAA (the Arena contract promises nothing about it; alloc documents zero-filled allocations)",
			"TightArena never fails: behind the given capacity sequence every segment has exactly the requested size",
		},
		CaseTimeout: 15 * time.Minute,
		SelfTest:    ref.SelfTest,
		Families: func(tier string) []vlib.Family { return bfsbuild.Families(tier, oracle) },
		Extra:    bfsbuild.PlanSummary,
	})
}
