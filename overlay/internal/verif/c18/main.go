// C18 — canonical form is valid, value-preserving and layout-independent.
//
// Family "canon": every capability-free value of the universe (a struct as
// is, anything else as the only field of a struct) x every layout of
// ref.Layouts: capnp.Canonicalize(root) must equal ref.Canonical(value) byte
// for byte; independently the output must decode (ref.Decode, one segment, no
// table) to a value equal to the input, satisfy ref.IsCanonical, and be a
// fixed point of Canonicalize.  Family "caps": the same values with one
// capability inserted at each pointer position must be rejected with an error.
//
// Violations are classed by the smallest sub-object that still shows them
// (e.g. canon/undecodable/list-composite-dataonly, .../list-bit).
package main

import (
	"bytes"
	"fmt"
	"runtime/debug"

	capnp "capnproto.org/go/capnp/v3"
	"capnproto.org/go/capnp/v3/internal/verif/rcmp"
	"capnproto.org/go/capnp/v3/internal/verif/ref"
	"capnproto.org/go/capnp/v3/internal/verif/vlib"
)

func layoutBound(tier string, objects int) int {
	switch {
	case objects <= 1:
		return -1
	case objects == 2:
		return 3
	case objects == 3 && tier == "thorough":
		return 3
	}
	return 2
}

func rootOf(v ref.Value) ref.Value {
	if v.Kind == ref.KindStruct {
		return v
	}
	return ref.StructV(nil, v)
}

// class names an object for violation keys.
func class(v ref.Value) string {
	switch v.Kind {
	case ref.KindStruct:
		if len(v.Data) == 0 && len(v.Ptrs) == 0 {
			return "struct-zero-sized"
		}
		return "struct"
	case ref.KindList:
		if v.Elem != ref.ElemComposite {
			return "list-" + v.Elem.String()
		}
		switch {
		case v.DW+v.PC == 0:
			return "list-composite-zero-sized"
		case v.PC == 0:
			return "list-composite-dataonly"
		case v.DW == 0:
			return "list-composite-ptronly"
		}
		return "list-composite-data+ptr"
	}
	return "leaf"
}

// Results must be independent memory: the previous result is kept and compared
// after the next call.
var (
	lastOut, lastCopy []byte
	clobbered         string
)

// phase1 runs Canonicalize on one layout and compares the output with the
// reference; check is "" if everything holds.
func phase1(l ref.Layout) (check string, detail string, out []byte) {
	defer func() {
		// panics are classified here (not by the runner) so that the key
		// names the sub-object like every other C18 finding
		if p := recover(); p != nil {
			st := debug.Stack()
			if len(st) > 1800 {
				st = st[:1800]
			}
			check, detail = "panic", fmt.Sprintf("Canonicalize panics: %v\n%s", p, st)
		}
	}()
	msg := rcmp.Load(l.Segments)
	root, err := msg.Root()
	if err != nil {
		return "root-error", err.Error(), nil
	}
	out, err = capnp.Canonicalize(root.Struct())
	// the result of the previous call must not have been touched by this one
	if lastOut != nil && !bytes.Equal(lastOut, lastCopy) && clobbered == "" {
		clobbered = fmt.Sprintf("the canonical form returned by an earlier Canonicalize call changed when Canonicalize was called again:\n was %s\n now %s", ref.HexSegments([][]byte{lastCopy}), ref.HexSegments([][]byte{lastOut}))
	}
	lastOut, lastCopy = nil, nil
	if err != nil {
		return "error", "Canonicalize: " + err.Error(), nil
	}
	lastOut, lastCopy = out, append([]byte{}, out...)
	want, werr := ref.Canonical(l.Decoded)
	if werr != nil {
		return "harness", werr.Error(), nil
	}
	if bytes.Equal(out, want) {
		return "", "", out
	}
	detail = fmt.Sprintf("output differs from the reference canonical form\n got  %s\n want %s", ref.HexSegments([][]byte{out}), ref.HexSegments([][]byte{want}))
	back, derr := ref.Decode([][]byte{out})
	switch {
	case derr != nil:
		return "undecodable", detail + "\n the output is not a valid message: " + derr.Error(), out
	case ref.ValueEqual(back, l.Decoded) != ref.VEqual:
		return "value-changed", detail + "\n the output decodes to " + back.String(), out
	}
	if cerr := ref.IsCanonical(out); cerr != nil {
		return "not-canonical", detail + "\n " + cerr.Error(), out
	}
	return "differs-from-reference", detail, out
}

// verdict is phase1 plus idempotence.  tree/wcheck say on which tree and for
// which phase-1 check the witness search has to run.
func verdict(l ref.Layout) (check, detail string, tree ref.Value, wcheck string) {
	c, d, out := phase1(l)
	if c != "" {
		return c, d, l.Decoded, c
	}
	back, err := ref.Decode([][]byte{out})
	if err != nil {
		return "harness", "ref.Decode(ref.Canonical) fails: " + err.Error(), l.Decoded, ""
	}
	c2, d2, _ := phase1(ref.Layout{Segments: [][]byte{out}, Decoded: back})
	if c2 != "" {
		return "not-idempotent", "Canonicalize applied to its own (correct) output " + ref.HexSegments([][]byte{out}) + " fails with " + c2 + ": " + d2, back, c2
	}
	return "", "", l.Decoded, ""
}

func kids(v ref.Value) []ref.Value {
	var out []ref.Value
	add := func(p ref.Value) {
		if p.Kind == ref.KindStruct || p.Kind == ref.KindList {
			out = append(out, p)
		}
	}
	switch {
	case v.Kind == ref.KindStruct:
		for _, p := range v.Ptrs {
			add(p)
		}
	case v.Kind == ref.KindList && v.Elem == ref.ElemPtr:
		for _, p := range v.Elems {
			add(p)
		}
	case v.Kind == ref.KindList && v.Elem == ref.ElemComposite:
		for _, e := range v.Elems {
			for _, p := range e.Ptrs {
				add(p)
			}
		}
	}
	return out
}

var failMemo = map[string]string{}

// failCheck returns the phase-1 check that object o, alone in a message,
// fails under the default (deviate=false) or the skewed layout of o and its
// subtree ("" if none).  Memoised per worker.
func failCheck(o ref.Value, deviate bool) string {
	name := "default"
	if deviate {
		name = "skew"
	}
	key := name + " " + o.String()
	if c, ok := failMemo[key]; ok {
		return c
	}
	from := 0
	if o.Kind != ref.KindStruct {
		from = 1 // do not deviate the wrapper struct
	}
	c, _, _ := phase1(ref.PresetFrom(rootOf(o), name, from))
	failMemo[key] = c
	return c
}

// witness names the smallest sub-object of o that still fails: it descends
// into a child that fails the same check when alone in a message, else into
// any failing child (the way a defect shows — panic, undecodable output,
// changed value — can depend on what lies behind the object in memory).
func witness(o ref.Value, check string, depth int) string {
	if depth < 8 {
		ks := kids(o)
		for _, k := range ks {
			if failCheck(k, false) == check || failCheck(k, true) == check {
				return witness(k, check, depth+1)
			}
		}
		for _, k := range ks {
			if failCheck(k, false) != "" {
				return witness(k, check, depth+1)
			}
		}
		for _, k := range ks {
			if failCheck(k, true) != "" {
				return witness(k, check, depth+1)
			}
		}
	}
	switch {
	case failCheck(o, false) != "":
		return class(o)
	case failCheck(o, true) != "":
		return class(o) + "/non-default-layout"
	}
	return class(o) + "/only-in-context"
}

func canonCase(u []ref.Value, tier string) func(i int64, r *vlib.Rec) {
	return func(i int64, r *vlib.Rec) {
		v := rootOf(u[i])
		ls := ref.Layouts(v, layoutBound(tier, v.Objects()))
		r.NonTrivial()
		r.Note("layouts", int64(len(ls)))
		base, _ := ref.Canonical(v)
		for _, l := range ls {
			ctx := fmt.Sprintf("\n value   %s\n layout  %s\n decoded %s\n %s", v, l.Desc(), l.Decoded, ref.HexSegments(l.Segments))
			check, detail, tree, wcheck := verdict(l)
			if check == "" {
				r.Outcome("ok/" + class(u[i]))
				// layout independence, stated directly: unless a list was
				// re-encoded as another kind of list, the bytes do not depend
				// on the layout (implied by the comparison with ref.Canonical)
				if !upgraded(l) {
					if c, _ := ref.Canonical(l.Decoded); !bytes.Equal(c, base) {
						r.Failf("harness/ref-canonical-layout-dependent", "ref.Canonical differs between a value and its layout%s", ctx)
					}
				}
				continue
			}
			if check == "harness" || check == "root-error" {
				r.Fail("harness/"+check, detail+ctx)
				continue
			}
			r.Fail("canon/"+check+"/"+witness(tree, wcheck, 0), detail+ctx)
		}
		if clobbered != "" {
			r.Fail("canon/result-clobbered-by-later-call", clobbered)
			clobbered = ""
		}
	}
}

func upgraded(l ref.Layout) bool {
	for _, d := range l.Devs {
		if len(d) > 3 && d[len(d)-3:] == "upg" {
			return true
		}
	}
	return false
}

// withCap returns copies of v with a capability at each pointer position.
func withCap(v ref.Value) []ref.Value {
	var out []ref.Value
	var paths [][]int
	var walk func(x ref.Value, path []int)
	walk = func(x ref.Value, path []int) {
		slot := func(k int, p ref.Value) {
			np := append(append([]int{}, path...), k)
			paths = append(paths, np)
			walk(p, np)
		}
		switch {
		case x.Kind == ref.KindStruct:
			for k, p := range x.Ptrs {
				slot(k, p)
			}
		case x.Kind == ref.KindList && x.Elem == ref.ElemPtr:
			for k, p := range x.Elems {
				slot(k, p)
			}
		case x.Kind == ref.KindList && x.Elem == ref.ElemComposite:
			for e := range x.Elems {
				for k, p := range x.Elems[e].Ptrs {
					slot(e*x.PC+k, p)
				}
			}
		}
	}
	walk(v, nil)
	for _, path := range paths {
		c := v.Clone()
		cur := &c
		for d, k := range path {
			var next *ref.Value
			switch {
			case cur.Kind == ref.KindStruct:
				next = &cur.Ptrs[k]
			case cur.Elem == ref.ElemPtr:
				next = &cur.Elems[k]
			default:
				next = &cur.Elems[k/cur.PC].Ptrs[k%cur.PC]
			}
			if d == len(path)-1 {
				*next = ref.CapV(uint32(len(path) % 2))
			}
			cur = next
		}
		out = append(out, c)
	}
	return out
}

func capCase(u []ref.Value) func(i int64, r *vlib.Rec) {
	return func(i int64, r *vlib.Rec) {
		v := rootOf(u[i])
		vs := withCap(v)
		if len(vs) == 0 {
			r.Outcome("caps/no-pointer-slot")
			return
		}
		r.NonTrivial()
		for _, cv := range vs {
			for _, name := range ref.Presets {
				l := ref.Preset(cv, name)
				msg := rcmp.Load(l.Segments)
				root, err := msg.Root()
				if err != nil {
					r.Fail("harness/root-error", err.Error())
					continue
				}
				out, err, pan := canonRecover(root.Struct())
				switch {
				case pan != "":
					r.Failf("canon/panic/"+witness(l.Decoded, "panic", 0), "Canonicalize panics: %s\n value %s\n layout %s %s", pan, cv, name, ref.HexSegments(l.Segments))
				case err == nil:
					r.Failf("canon/capability-accepted", "Canonicalize accepts a struct containing a capability and returns %s\n value %s\n layout %s %s", ref.HexSegments([][]byte{out}), cv, name, ref.HexSegments(l.Segments))
				default:
					r.Outcome("caps/rejected")
				}
			}
		}
	}
}

func canonRecover(s capnp.Struct) (out []byte, err error, pan string) {
	defer func() {
		if p := recover(); p != nil {
			pan = fmt.Sprint(p)
		}
	}()
	out, err = capnp.Canonicalize(s)
	return
}

func main() {
	cache := map[string][]ref.Value{}
	universe := func(tier string) []ref.Value {
		if u, ok := cache[tier]; ok {
			return u
		}
		n := 3
		if tier == "thorough" {
			n = 4
		}
		var u []ref.Value
		for _, v := range ref.UniverseWith(ref.UniverseConfig{MaxObjects: n, MaxDepth: 3, Caps: false}) {
			u = append(u, v)
		}
		cache[tier] = u
		return u
	}
	vlib.Main(vlib.Spec{
		ID:    "C18",
		Level: "exploration",
		Rule:  "canon: every capability-free value of U(n) (n=3 quick, 4 thorough; all list kinds incl. data-only, pointer-only, mixed and zero-sized composite lists, nested lists, zero-sized structs, trailing-zero words) as root struct (non-structs wrapped as sole field) x every layout with <= 2 deviations (all for 1 object, <= 3 for 2 objects): Canonicalize output == ref.Canonical byte for byte, decodes to an equal value, passes ref.IsCanonical, is a fixed point. caps: each value with one capability at each pointer position x 4 whole-tree layouts must give an error. Every value is distinct, so every canon case is non-trivial; a caps case is non-trivial when the value has a pointer slot.",
		Assumptions: []string{
			"ref.Canonical / ref.IsCanonical are written from encoding.html#canonicalization (pre-order, single segment, truncation of trailing zero words per struct and uniformly per struct list, zero-sized struct offset -1, zero padding); they are cross-checked against each other and against ref.Decode by ref.SelfTest on every run",
			"a primitive list encoded as struct list is a different canonical value (lists keep their element code), so layout independence is demanded among layouts that do not re-encode lists",
		},
		SelfTest: ref.SelfTest,
		Families: func(tier string) []vlib.Family {
			u := universe(tier)
			return []vlib.Family{
				{Name: "canon", N: int64(len(u)), Run: canonCase(u, tier), Describe: func(i int64) interface{} { return rootOf(u[i]).String() }},
				{Name: "caps", N: int64(len(u)), Run: capCase(u), Describe: func(i int64) interface{} { return rootOf(u[i]).String() }},
			}
		},
		Extra: func(tier string) map[string]interface{} {
			return map[string]interface{}{"universe_size": len(universe(tier))}
		},
	})
}
