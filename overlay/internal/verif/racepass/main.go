// racepass — free-running -race pass over the code that engine E2 explores.
//
// The controlled scheduler only interleaves threads at synchronisation
// operations; that is sufficient only if the explored code has no
// unsynchronised shared accesses.  This program checks that assumption the
// only way it can be checked: it runs the same kinds of scenario bodies with
// real goroutines (vsched inactive, the instrumented sync shims delegate to the
// real primitives) under the Go race detector, many times.  It is SAMPLING and
// decides no property; it is not a registered check.  Exit status 0 unless the
// race detector reports (exit 66) or a scenario misbehaves.
package main

import (
	"context"
	"flag"
	"fmt"
	"io"
	"os"
	"runtime"
	"sync"
	"sync/atomic"

	capnp "capnproto.org/go/capnp/v3"
	"capnproto.org/go/capnp/v3/rpc"
	"capnproto.org/go/capnp/v3/server"
)

type hook struct {
	sends, shut int64
}

func (h *hook) Send(ctx context.Context, s capnp.Send) (*capnp.Answer, capnp.ReleaseFunc) {
	atomic.AddInt64(&h.sends, 1)
	runtime.Gosched()
	return capnp.ErrorAnswer(s.Method, fmt.Errorf("x")), func() {}
}
func (h *hook) Recv(ctx context.Context, r capnp.Recv) capnp.PipelineCaller {
	atomic.AddInt64(&h.sends, 1)
	r.Reject(fmt.Errorf("x"))
	return nil
}
func (h *hook) Brand() capnp.Brand { return capnp.Brand{} }
func (h *hook) Shutdown()          { atomic.AddInt64(&h.shut, 1) }

var meth = capnp.Method{InterfaceID: 1, MethodID: 1}

func par(fs ...func()) {
	var wg sync.WaitGroup
	for _, f := range fs {
		wg.Add(1)
		go func(f func()) { defer wg.Done(); f() }(f)
	}
	wg.Wait()
}

// capability.go: references, weak upgrade, calls, fulfilment
func capScenario(i int) error {
	h, hp, ht := &hook{}, &hook{}, &hook{}
	c0 := capnp.NewClient(h)
	c1 := c0.AddRef()
	w := c0.WeakRef()
	pc, cp := capnp.NewPromisedClient(hp)
	pc1 := pc.AddRef()
	t := capnp.NewClient(ht)
	ctx := context.Background()
	par(
		func() { a, r := c1.SendCall(ctx, capnp.Send{Method: meth}); a.Struct(); r(); c1.Release() },
		func() { c0.Release() },
		func() {
			if c, ok := w.AddRef(); ok && c != nil {
				c.Release()
			}
		},
		func() { a, r := pc1.SendCall(ctx, capnp.Send{Method: meth}); a.Struct(); r(); pc1.Release() },
		func() {
			if i%2 == 0 {
				cp.Fulfill(t)
			} else {
				cp.Fulfill(nil)
			}
			t.Release()
		},
		func() { pc.Release() },
	)
	if n := atomic.LoadInt64(&h.shut); n != 1 {
		return fmt.Errorf("cap: hook shut down %d times", n)
	}
	if n := atomic.LoadInt64(&hp.shut); n != 1 {
		return fmt.Errorf("cap: promise hook shut down %d times", n)
	}
	if n := atomic.LoadInt64(&ht.shut); n != 1 {
		return fmt.Errorf("cap: target hook shut down %d times", n)
	}
	return nil
}

type pcaller struct{ n int64 }

func (p *pcaller) PipelineSend(ctx context.Context, tr []capnp.PipelineOp, s capnp.Send) (*capnp.Answer, capnp.ReleaseFunc) {
	atomic.AddInt64(&p.n, 1)
	runtime.Gosched()
	return capnp.ErrorAnswer(s.Method, fmt.Errorf("pc")), func() {}
}
func (p *pcaller) PipelineRecv(ctx context.Context, tr []capnp.PipelineOp, r capnp.Recv) capnp.PipelineCaller {
	atomic.AddInt64(&p.n, 1)
	r.Reject(fmt.Errorf("pc"))
	return nil
}

// answer.go: pipelined calls and clients racing with resolution
func promiseScenario(i int) error {
	h := &hook{}
	msg, seg, _ := capnp.NewMessage(capnp.SingleSegment(nil))
	root, _ := capnp.NewRootStruct(seg, capnp.ObjectSize{PointerCount: 1})
	id := msg.AddCap(capnp.NewClient(h))
	root.SetPtr(0, capnp.NewInterface(seg, id).ToPtr())
	p := capnp.NewPromise(meth, &pcaller{})
	q := capnp.NewPromise(meth, &pcaller{})
	ctx := context.Background()
	path := []capnp.PipelineOp{{Field: 0}}
	par(
		func() { a, r := p.Answer().PipelineSend(ctx, path, capnp.Send{Method: meth}); a.Struct(); r() },
		func() {
			c := p.Answer().Field(0, nil).Client()
			a, r := c.SendCall(ctx, capnp.Send{Method: meth})
			a.Struct()
			r()
		},
		func() { p.Answer().Field(0, nil).Client() },
		func() {
			switch i % 3 {
			case 0:
				p.Fulfill(root.ToPtr())
			case 1:
				p.Reject(fmt.Errorf("no"))
			default:
				p.Join(q.Answer())
				q.Fulfill(root.ToPtr())
			}
		},
		func() { p.Answer().Struct() },
	)
	if i%3 != 2 {
		q.Fulfill(root.ToPtr())
	}
	p.ReleaseClients()
	q.ReleaseClients()
	for _, c := range msg.CapTable {
		c.Release()
	}
	if n := atomic.LoadInt64(&h.shut); n != 1 {
		return fmt.Errorf("promise: result capability shut down %d times", n)
	}
	return nil
}

type shutdowner struct{ n int64 }

func (s *shutdowner) Shutdown() { atomic.AddInt64(&s.n, 1) }

// server/: concurrent callers, pipelined calls, release
func serverScenario(i int) error {
	sd := &shutdowner{}
	var running, maxRunning int64
	impl := func(ctx context.Context, call *server.Call) error {
		n := atomic.AddInt64(&running, 1)
		for {
			m := atomic.LoadInt64(&maxRunning)
			if n <= m || atomic.CompareAndSwapInt64(&maxRunning, m, n) {
				break
			}
		}
		if i%2 == 0 {
			call.Ack()
		}
		runtime.Gosched()
		atomic.AddInt64(&running, -1)
		return nil
	}
	srv := server.New([]server.Method{{Method: meth, Impl: impl}}, nil, sd, &server.Policy{MaxConcurrentCalls: 2, AnswerQueueSize: 2})
	c := capnp.NewClient(srv)
	c2 := c.AddRef()
	ctx := context.Background()
	call := func(cl *capnp.Client) func() {
		return func() {
			a, r := cl.SendCall(ctx, capnp.Send{Method: meth})
			a2, r2 := a.PipelineSend(ctx, []capnp.PipelineOp{{Field: 0}}, capnp.Send{Method: meth})
			a.Struct()
			a2.Struct()
			r2()
			r()
		}
	}
	par(call(c), call(c), call(c2), func() { call(c2)(); c2.Release() })
	c.Release()
	if atomic.LoadInt64(&maxRunning) > 2 {
		return fmt.Errorf("server: %d calls ran at once", maxRunning)
	}
	if n := atomic.LoadInt64(&sd.n); n != 1 {
		return fmt.Errorf("server: Shutdown ran %d times", n)
	}
	return nil
}

// half is one direction of an unbounded in-memory byte pipe (net.Pipe is
// synchronous: with it two vats whose receive loops both send at the same
// time block each other by construction).
type half struct {
	mu     sync.Mutex
	cond   *sync.Cond
	buf    []byte
	closed bool
}

type duplex struct{ r, w *half }

func (d duplex) Read(p []byte) (int, error) {
	h := d.r
	h.mu.Lock()
	defer h.mu.Unlock()
	for len(h.buf) == 0 && !h.closed {
		h.cond.Wait()
	}
	if len(h.buf) == 0 {
		return 0, io.EOF
	}
	n := copy(p, h.buf)
	h.buf = h.buf[n:]
	return n, nil
}

func (d duplex) Write(p []byte) (int, error) {
	h := d.w
	h.mu.Lock()
	defer h.mu.Unlock()
	if h.closed {
		return 0, io.ErrClosedPipe
	}
	h.buf = append(h.buf, p...)
	h.cond.Broadcast()
	return len(p), nil
}

func (d duplex) Close() error {
	for _, h := range []*half{d.r, d.w} {
		h.mu.Lock()
		h.closed = true
		h.cond.Broadcast()
		h.mu.Unlock()
	}
	return nil
}

func bufPipe() (duplex, duplex) {
	a, b := &half{}, &half{}
	a.cond, b.cond = sync.NewCond(&a.mu), sync.NewCond(&b.mu)
	return duplex{r: a, w: b}, duplex{r: b, w: a}
}

// rpc/: two Conns over an in-memory pipe, bootstrap, calls, pipelining, Close
func rpcScenario(i int) error {
	sd := &shutdowner{}
	impl := func(ctx context.Context, call *server.Call) error {
		res, err := call.AllocResults(capnp.ObjectSize{DataSize: 8})
		if err != nil {
			return err
		}
		res.SetUint64(0, 42)
		if i%2 == 0 {
			call.Ack()
		}
		return nil
	}
	srv := server.New([]server.Method{{Method: meth, Impl: impl}}, nil, sd, nil)
	p1, p2 := bufPipe()
	c1 := rpc.NewConn(rpc.NewStreamTransport(p1), &rpc.Options{BootstrapClient: capnp.NewClient(srv)})
	c2 := rpc.NewConn(rpc.NewStreamTransport(p2), nil)
	ctx := context.Background()
	bc := c2.Bootstrap(ctx)
	var bad int64
	one := func() {
		a, r := bc.SendCall(ctx, capnp.Send{Method: meth})
		st, err := a.Struct()
		if err != nil || st.Uint64(0) != 42 {
			atomic.AddInt64(&bad, 1)
		}
		r()
	}
	par(one, one, one, func() { x := bc.AddRef(); one(); x.Release() })
	bc.Release()
	par(func() { c2.Close() }, func() {
		if i%2 == 1 {
			c1.Close()
		}
	})
	c1.Close()
	<-c1.Done()
	<-c2.Done()
	if bad != 0 {
		return fmt.Errorf("rpc: %d calls failed", bad)
	}
	return nil
}

func main() {
	n := flag.Int("n", 300, "iterations per scenario")
	// flags passed by bin/vcheck that mean nothing here
	flag.String("tier", "", "")
	flag.String("evidence", "", "")
	flag.String("known", "", "")
	flag.String("replays", "", "")
	flag.Parse()
	scen := []struct {
		name string
		f    func(int) error
	}{{"capability", capScenario}, {"promise", promiseScenario}, {"server", serverScenario}, {"rpc", rpcScenario}}
	for _, s := range scen {
		for i := 0; i < *n; i++ {
			if err := s.f(i); err != nil {
				fmt.Printf("racepass: scenario %s iteration %d: %v\n", s.name, i, err)
				os.Exit(1)
			}
		}
		fmt.Printf("racepass: %s: %d iterations, no race reported\n", s.name, *n)
	}
}
