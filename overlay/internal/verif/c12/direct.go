// Family "direct-shutdown": Shutdown racing with Sends that are already in
// progress.
//
// Through capnp.Client a Shutdown never overlaps a Send (the Client waits for
// calls in progress), so the main families cannot park a call at the server's
// admission gate while Shutdown runs.  Here the *server.Server is driven
// directly, as any ClientHook user may: N caller threads each issue one Send;
// the main thread calls Shutdown either at once or only when nothing else can
// run (calls running un-acked, later calls parked at the gate or at the
// semaphore).  Oracle: Shutdown returns; the user's shutdown runs exactly once
// and only when no implementation is running; no implementation starts or ends
// after it; every Send's answer resolves exactly once (a result, the
// implementation's error, or a rejection); a call whose implementation never
// ran is rejected with "call after shutdown" or its context error; no panic,
// no deadlock.
package main

import (
	"fmt"
	"strings"

	capnp "capnproto.org/go/capnp/v3"
	"capnproto.org/go/capnp/v3/internal/verif/vlib"
	"capnproto.org/go/capnp/v3/internal/vsched"
	context "capnproto.org/go/capnp/v3/internal/vsched/vctx"
	"capnproto.org/go/capnp/v3/server"
)

type dprog struct {
	modes []int // per caller thread: opCallR, opCallA, opCallG
	max   int   // MaxConcurrentCalls (0 = default)
	late  bool  // Shutdown only once nothing else can run
}

func (p dprog) String() string {
	var s []string
	for _, m := range p.modes {
		s = append(s, opNames[m])
	}
	when := "at once"
	if p.late {
		when = "when nothing else can run"
	}
	return fmt.Sprintf("direct Server: callers [%s] one Send each (gates are never opened), MaxConcurrentCalls=%d, Shutdown %s", strings.Join(s, " | "), p.max, when)
}

func dprogs(maxCallers int) []dprog {
	var out []dprog
	modes := []int{opCallR, opCallA, opCallG}
	var rec func(cur []int)
	rec = func(cur []int) {
		if len(cur) > 0 {
			for _, max := range []int{0, 1, 2} {
				for _, late := range []bool{false, true} {
					out = append(out, dprog{modes: append([]int{}, cur...), max: max, late: late})
				}
			}
		}
		if len(cur) == maxCallers {
			return
		}
		for _, m := range modes {
			rec(append(cur, m))
		}
	}
	rec(nil)
	return out
}

type dout struct {
	w            *world
	results      []string // per caller: "" (not finished), classify(err)
	resolved     []int
	shutCalled   int // index into w.ev
	shutReturned int
	mainDone     bool
	panics       []string
}

func runDirect(p dprog, o *dout) {
	w := &world{}
	o.w = w
	w.gate = map[int]bool{}
	w.mode = map[int]int{}
	w.hookH = &recHook{w}
	for i, m := range p.modes {
		w.mode[i] = m
	}
	o.results = make([]string, len(p.modes))
	o.resolved = make([]int, len(p.modes))
	o.shutCalled, o.shutReturned = -1, -1
	srv := server.New([]server.Method{{Method: theMethod, Impl: w.impl}}, "brand", shutdowner{w}, &server.Policy{MaxConcurrentCalls: p.max})
	done := 0
	for i := range p.modes {
		i := i
		vsched.GoNamed(fmt.Sprintf("caller%d", i), func() {
			defer func() {
				if x := recover(); x != nil {
					o.panics = append(o.panics, fmt.Sprint(x))
				}
				done++
			}()
			id := uint32(i)
			ans, rel := srv.Send(context.Background(), capnp.Send{
				Method:   theMethod,
				ArgsSize: capnp.ObjectSize{DataSize: 8},
				PlaceArgs: func(s capnp.Struct) error {
					s.SetUint32(0, id)
					return nil
				},
			})
			_, err := ans.Struct()
			o.resolved[i]++
			o.results[i] = classify(err)
			rel()
		})
	}
	if p.late {
		vsched.WaitQuiescent()
	}
	o.shutCalled = len(w.ev)
	w.ev = append(w.ev, event{"opstart", -1, "Shutdown"})
	srv.Shutdown()
	o.shutReturned = len(w.ev)
	w.ev = append(w.ev, event{"opend", -1, "Shutdown"})
	vsched.WaitUntil("callers", func() bool { return done == len(p.modes) })
	o.mainDone = true
}

func judgeDirect(p dprog, o *dout, vr *vsched.Result) (string, string) {
	evs := renderEvents(o.w)
	if len(vr.Panics) > 0 {
		return "direct/panic/" + firstLine(vr.Panics[0]), vr.Panics[0] + "\nevents: " + evs
	}
	if len(o.panics) > 0 {
		return "direct/panic/" + firstLine(o.panics[0]), o.panics[0] + "\nevents: " + evs
	}
	if vr.Livelock {
		return "direct/livelock", "step limit reached\nevents: " + evs
	}
	if vr.Deadlocked() {
		return "direct/deadlock", "threads blocked forever: " + strings.Join(vr.Blocked, " | ") + "\nevents: " + evs
	}
	if !o.mainDone {
		return "direct/incomplete", "scenario did not run to completion\nevents: " + evs
	}
	w := o.w
	if w.userShut != 1 {
		return "direct/user-shutdown-count", fmt.Sprintf("the user's shutdown ran %d times\nevents: %s", w.userShut, evs)
	}
	userAt := -1
	started := map[int]bool{}
	ended := map[int]bool{}
	for i, e := range w.ev {
		switch e.kind {
		case "userShutdown":
			userAt = i
			if e.info != "running=0" {
				return "direct/user-shutdown-while-running", fmt.Sprintf("the user's shutdown ran while an implementation was running (%s)\nevents: %s", e.info, evs)
			}
		case "start":
			started[e.call] = true
			if userAt >= 0 {
				return "direct/start-after-shutdown", fmt.Sprintf("call %d's implementation started after Shutdown had run the user's shutdown\nevents: %s", e.call, evs)
			}
		case "end":
			ended[e.call] = true
			if userAt >= 0 {
				return "direct/end-after-shutdown", fmt.Sprintf("call %d's implementation was still running when Shutdown ran the user's shutdown\nevents: %s", e.call, evs)
			}
		}
	}
	if userAt > o.shutReturned || userAt < o.shutCalled {
		return "direct/user-shutdown-outside-shutdown", "the user's shutdown did not run inside Shutdown\nevents: " + evs
	}
	for i, m := range p.modes {
		if o.resolved[i] != 1 {
			return "direct/answer-count", fmt.Sprintf("caller %d's answer resolved %d times\nevents: %s", i, o.resolved[i], evs)
		}
		r := o.results[i]
		switch {
		case !started[i]:
			if r != "aftershutdown" {
				return "direct/unstarted-result", fmt.Sprintf("caller %d's implementation never ran, its answer is %q (want the call-after-shutdown rejection)\nevents: %s", i, r, evs)
			}
		case !ended[i]:
			return "direct/start-without-end", fmt.Sprintf("caller %d's implementation started and never ended\nevents: %s", i, evs)
		case m == opCallR:
			if r != "ok" {
				return "direct/result", fmt.Sprintf("caller %d (returns at once) got %q\nevents: %s", i, r, evs)
			}
		default:
			// gates are never opened: the implementation ends only by cancellation
			if r != "cancelled" {
				return "direct/result", fmt.Sprintf("caller %d (waits for a gate that never opens) got %q, want the implementation's cancellation error\nevents: %s", i, r, evs)
			}
		}
	}
	return "", ""
}

func firstLine(s string) string {
	if i := strings.Index(s, "\n"); i >= 0 {
		s = s[:i]
	}
	if len(s) > 60 {
		s = s[:60]
	}
	return s
}

func directFamily(name string, progs []dprog, cfg vsched.Config) vlib.Family {
	return vlib.Family{
		Name: name, N: int64(len(progs)),
		Describe: func(i int64) interface{} { return progs[i].String() },
		Run: func(i int64, r *vlib.Rec) {
			p := progs[i]
			var o *dout
			body := func() { o = &dout{}; runDirect(p, o) }
			outcomes := map[string]bool{}
			st, f := vsched.Explore(cfg, body, func(vr *vsched.Result) string {
				key, msg := judgeDirect(p, o, vr)
				if key != "" {
					return key + "\x00" + msg
				}
				outcomes[strings.Join(o.results, ",")] = true
				return ""
			})
			r.States += int64(len(st.Configs))
			r.Transitions += st.Steps
			r.Traces += st.Execs
			r.Note("executions", st.Execs)
			if st.Capped {
				r.Capped = true
			}
			for oc := range outcomes {
				r.Outcome("direct:" + oc)
			}
			r.NonTrivial()
			if f != nil {
				if f.Engine {
					r.Failf("ENGINE:"+f.Msg, "%s", f.Msg)
					return
				}
				parts := strings.SplitN(f.Msg, "\x00", 2)
				rr := vsched.Replay(f.Choices, cfg.MaxSteps, body)
				r.Failf(parts[0], "program %s\n%s\nchoices %v\n%s", p, parts[1], f.Choices, rr.Describe())
			}
		},
	}
}
