// C12 — a local server sees calls in order, within its concurrency cap, until shutdown.
//
// Engine E2: the real server/ package (plus capability.go and answer.go,
// instrumented copies) runs under the controlled scheduler.  Programs: one or
// two caller threads issuing calls of five behaviours (return at once / ack
// then wait for a gate / wait for a gate without ack / ack then fail / ack and
// return a capability), pipelined calls on not-yet-returned answers, release
// of the client handle (which shuts the server down), and a gatekeeper thread
// that opens, cancels or leaves each gate, under every policy in
// {MaxConcurrentCalls, AnswerQueueSize} in {1,2}^2 (quick: (1,1),(2,2)).
package main

import (
	"fmt"
	"os"
	"strings"
	"time"

	capnp "capnproto.org/go/capnp/v3"
	"capnproto.org/go/capnp/v3/internal/verif/vlib"
	"capnproto.org/go/capnp/v3/internal/vsched"
	context "capnproto.org/go/capnp/v3/internal/vsched/vctx"
	"capnproto.org/go/capnp/v3/server"
)

type event struct {
	kind string // start ack end cancelled deliver userShutdown opstart opend
	call int
	info string
}

// caller ops
const (
	opCallR     = iota // return immediately, no ack
	opCallA            // ack, wait gate, return
	opCallG            // wait gate (no ack), return
	opCallE            // ack, wait gate, return error
	opCallP            // alloc results with capability H, ack, wait gate, return
	opPipe             // pipelined call on this thread's most recent answer, path [0]
	opRel              // release this thread's client handle
	opPipeAsync        // the same pipelined call issued from a helper goroutine
	opPipeLate         // ... issued by a helper goroutine once the base call's implementation has ended
	opPipe2            // pipelined call on this thread's most recent *pipelined* answer, path [0]
	nOps
)

var opNames = []string{"Call/return", "Call/ack+gate", "Call/gate-noack", "Call/ack+gate+error", "Call/ack+gate+cap", "Pipe[0]", "Release", "go Pipe[0]", "go Pipe[0] after base ended", "Pipe[0] on the latest pipelined answer"}

// keeper actions per gated call
const (
	kOpen = iota
	kCancel
	kLeave
	kOpenLate // open the gate only once nothing else can run
)

var kNames = []string{"Open", "Cancel", "Leave", "OpenWhenQuiescent"}

type keeperOp struct{ call, act int }

type program struct {
	threads [][]int // caller threads
	keeper  []keeperOp
	max, q  int
}

func (p program) String() string {
	var parts []string
	for _, th := range p.threads {
		var s []string
		for _, o := range th {
			s = append(s, opNames[o])
		}
		parts = append(parts, "["+strings.Join(s, "; ")+"]")
	}
	var k []string
	for _, o := range p.keeper {
		k = append(k, fmt.Sprintf("%s(%d)", kNames[o.act], o.call))
	}
	return fmt.Sprintf("policy{max=%d,queue=%d} %s || keeper[%s]", p.max, p.q, strings.Join(parts, " || "), strings.Join(k, "; "))
}

func gated(o int) bool { return o == opCallA || o == opCallG || o == opCallE || o == opCallP }

type world struct {
	ev          []event
	srv         *server.Server
	handles     []*capnp.Client
	released    []bool
	gate        map[int]bool
	mode        map[int]int
	cancels     map[int]context.CancelFunc
	answers     map[int]*capnp.Answer
	pipeAns     map[int]*capnp.Answer // keyed by pipe op id
	pipeBase    map[int]int
	relAns      []capnp.ReleaseFunc
	doneThr     int
	asyncN      int
	giveUp      bool
	asyncDone   int
	callersDone int
	running     int
	maxRun      int
	hookH       *recHook
	userShut    int
	callOrder   []int // issue order per thread is static; start order recorded in ev
}

type recHook struct{ w *world }

var errMarkerH = fmt.Errorf("marker:H")
var errImpl = fmt.Errorf("marker:implerror")
var errCancelled = fmt.Errorf("marker:cancelled")

func (h *recHook) Send(ctx context.Context, s capnp.Send) (*capnp.Answer, capnp.ReleaseFunc) {
	id := -1
	if s.PlaceArgs != nil {
		// read back the id the caller places
		_, seg, _ := capnp.NewMessage(capnp.SingleSegment(nil))
		st, _ := capnp.NewRootStruct(seg, capnp.ObjectSize{DataSize: 8})
		s.PlaceArgs(st)
		id = int(st.Uint32(0))
	}
	h.w.ev = append(h.w.ev, event{"deliver", id, "send"})
	return capnp.ErrorAnswer(s.Method, errMarkerH), func() {}
}
func (h *recHook) Recv(ctx context.Context, r capnp.Recv) capnp.PipelineCaller {
	id := int(r.Args.Uint32(0))
	h.w.ev = append(h.w.ev, event{"deliver", id, "recv"})
	r.Reject(errMarkerH)
	return nil
}
func (h *recHook) Brand() capnp.Brand { return capnp.Brand{} }
func (h *recHook) Shutdown()          {}

type shutdowner struct{ w *world }

func (s shutdowner) Shutdown() {
	s.w.userShut++
	s.w.ev = append(s.w.ev, event{"userShutdown", -1, fmt.Sprintf("running=%d", s.w.running)})
}

var theMethod = capnp.Method{InterfaceID: 0xabc, MethodID: 1}

func (w *world) impl(ctx context.Context, call *server.Call) error {
	id := int(call.Args().Uint32(0))
	mode := w.mode[id]
	w.running++
	if w.running > w.maxRun {
		w.maxRun = w.running
	}
	w.ev = append(w.ev, event{"start", id, fmt.Sprintf("running=%d", w.running)})
	defer func() {
		w.running--
		w.ev = append(w.ev, event{"end", id, ""})
	}()
	if mode == opCallR {
		return nil
	}
	if mode == opCallP {
		res, err := call.AllocResults(capnp.ObjectSize{PointerCount: 1})
		if err != nil {
			return err
		}
		cid := res.Message().AddCap(capnp.NewClient(w.hookH))
		res.SetPtr(0, capnp.NewInterface(res.Segment(), cid).ToPtr())
	}
	if mode != opCallG {
		w.ev = append(w.ev, event{"ack", id, ""})
		call.Ack()
	}
	vsched.WaitUntil(fmt.Sprintf("gate%d", id), func() bool { return w.gate[id] || ctx.Err() != nil })
	if !w.gate[id] && ctx.Err() != nil {
		w.ev = append(w.ev, event{"cancelled", id, ""})
		return errCancelled
	}
	if mode == opCallE {
		return errImpl
	}
	return nil
}

func classify(err error) string {
	if err == nil {
		return "ok"
	}
	s := err.Error()
	switch {
	case strings.Contains(s, "marker:H"):
		return "H"
	case strings.Contains(s, "marker:implerror"):
		return "implerror"
	case strings.Contains(s, "marker:cancelled"):
		return "cancelled"
	case strings.Contains(s, "context canceled"):
		return "ctxcanceled"
	case strings.Contains(s, "released client"):
		return "released"
	case strings.Contains(s, "call after shutdown"):
		return "aftershutdown"
	}
	return "err:" + s
}

type opResult struct {
	started, ended bool
	panicMsg       string
	info           string
}

func runProgram(p program, w *world, res [][]opResult, fin map[int]string) {
	w.gate = map[int]bool{}
	w.mode = map[int]int{}
	w.cancels = map[int]context.CancelFunc{}
	w.answers = map[int]*capnp.Answer{}
	w.pipeAns = map[int]*capnp.Answer{}
	w.pipeBase = map[int]int{}
	w.hookH = &recHook{w}
	w.srv = server.New([]server.Method{{Method: theMethod, Impl: w.impl}}, "brand", shutdowner{w}, &server.Policy{MaxConcurrentCalls: p.max, AnswerQueueSize: p.q})
	c0 := capnp.NewClient(w.srv)
	w.handles = []*capnp.Client{c0}
	for i := 1; i < len(p.threads); i++ {
		w.handles = append(w.handles, c0.AddRef())
	}
	w.released = make([]bool, len(p.threads))
	for ti, th := range p.threads {
		for pi, o := range th {
			w.mode[ti*10+pi] = o
		}
	}
	nThreads := len(p.threads) + 1
	body := func(ti int) {
		last := -1
		lastPipe := -1
		for pi, o := range p.threads[ti] {
			opid := ti*10 + pi
			r := &res[ti][pi]
			r.started = true
			w.ev = append(w.ev, event{"opstart", opid, ""})
			func() {
				defer func() {
					if x := recover(); x != nil {
						r.panicMsg = fmt.Sprint(x)
					}
				}()
				switch o {
				case opRel:
					w.released[ti] = true
					w.handles[ti].Release()
				case opPipe, opPipeAsync, opPipeLate, opPipe2:
					if last < 0 || (o == opPipe2 && lastPipe < 0) {
						r.info = "nobase"
						return
					}
					base := w.answers[last]
					baseID := last
					if o == opPipe2 {
						base = w.pipeAns[lastPipe]
						baseID = lastPipe
					}
					id := uint32(opid)
					do := func() {
						w.ev = append(w.ev, event{"pipestart", int(id), ""})
						ans, rel := base.PipelineSend(context.Background(), []capnp.PipelineOp{{Field: 0}}, capnp.Send{
							Method: theMethod, ArgsSize: capnp.ObjectSize{DataSize: 8},
							PlaceArgs: func(s capnp.Struct) error { s.SetUint32(0, id); return nil },
						})
						w.pipeAns[int(id)] = ans
						w.pipeBase[int(id)] = baseID
						w.relAns = append(w.relAns, rel)
						w.ev = append(w.ev, event{"pipeend", int(id), ""})
					}
					if o == opPipeAsync {
						w.asyncN++
						vsched.GoNamed(fmt.Sprintf("apipe%d", id), func() { do(); w.asyncDone++ })
					} else if o == opPipeLate {
						w.asyncN++
						vsched.GoNamed(fmt.Sprintf("lpipe%d", id), func() {
							vsched.WaitUntil("base ended", func() bool {
								for _, e := range w.ev {
									if e.kind == "end" && e.call == baseID {
										return true
									}
								}
								return w.giveUp
							})
							do()
							w.asyncDone++
						})
					} else {
						do()
						lastPipe = int(id)
					}
					r.info = "sent"
				default:
					ctx, cancel := context.WithCancel(context.Background())
					w.cancels[opid] = cancel
					id := uint32(opid)
					ans, rel := w.handles[ti].SendCall(ctx, capnp.Send{
						Method: theMethod, ArgsSize: capnp.ObjectSize{DataSize: 8},
						PlaceArgs: func(s capnp.Struct) error { s.SetUint32(0, id); return nil },
					})
					w.answers[opid] = ans
					w.relAns = append(w.relAns, rel)
					last = opid
					r.info = "sent"
				}
			}()
			r.ended = true
			w.ev = append(w.ev, event{"opend", opid, r.info})
		}
		w.doneThr++
		w.callersDone++
	}
	for ti := 1; ti < len(p.threads); ti++ {
		ti := ti
		vsched.GoNamed(fmt.Sprintf("T%d", ti), func() { body(ti) })
	}
	vsched.GoNamed("keeper", func() {
		for _, k := range p.keeper {
			switch k.act {
			case kOpen:
				vsched.Point("open-gate")
				w.gate[k.call] = true
			case kOpenLate:
				vsched.WaitQuiescent()
				w.gate[k.call] = true
			case kCancel:
				// the call's context exists once the caller has issued it; a
				// helper thread waits for that so the keeper's later gate
				// openings are not held up behind it
				call := k.call
				nThreads++
				vsched.GoNamed(fmt.Sprintf("cancel%d", call), func() {
					vsched.WaitUntil("issued", func() bool { return w.cancels[call] != nil || w.callersDone >= len(p.threads) })
					if c := w.cancels[call]; c != nil {
						c()
					}
					w.doneThr++
				})
			}
		}
		w.doneThr++
	})
	body(0)
	vsched.WaitUntil("threads", func() bool { return w.doneThr == nThreads })
	w.giveUp = true // late helpers stop waiting for a base call that only Shutdown can end
	vsched.WaitUntil("helpers", func() bool { return w.asyncDone == w.asyncN })
	// epilogue: drop remaining handles (last one shuts the server down, which
	// must cancel whatever is still running), then collect every answer.
	for ti := range p.threads {
		if !w.released[ti] {
			w.released[ti] = true
			w.handles[ti].Release()
		}
	}
	for id, ans := range w.answers {
		_ = id
		_ = ans
	}
	ids := []int{}
	for ti, th := range p.threads {
		for pi := range th {
			ids = append(ids, ti*10+pi)
		}
	}
	for _, id := range ids {
		if ans := w.answers[id]; ans != nil {
			_, err := ans.Struct()
			fin[id] = classify(err)
		}
		if ans := w.pipeAns[id]; ans != nil {
			_, err := ans.Struct()
			fin[id] = classify(err)
		}
	}
	for _, rel := range w.relAns {
		rel()
	}
}

// ---- oracle ----

func judge(p program, w *world, res [][]opResult, fin map[int]string, vr *vsched.Result) (string, string) {
	if len(vr.Panics) > 0 {
		return "panic", "panic in a controlled thread: " + vr.Panics[0]
	}
	for ti, th := range p.threads {
		for pi, o := range th {
			if m := res[ti][pi].panicMsg; m != "" {
				return "op-panic/" + opNames[o], fmt.Sprintf("thread %d op %s panicked: %s", ti, opNames[o], m)
			}
		}
	}
	if vr.Livelock {
		return "livelock", "step limit reached"
	}
	if vr.Deadlocked() {
		return "deadlock", "threads blocked forever: " + strings.Join(vr.Blocked, " | ")
	}
	started := map[int]int{}
	acked := map[int]bool{}
	ended := map[int]int{}
	running := 0
	shutAt := -1
	var startOrder []int
	var deliverOrder []int
	for i, e := range w.ev {
		switch e.kind {
		case "start":
			if _, dup := started[e.call]; dup {
				return "started-twice", fmt.Sprintf("call %d started twice", e.call)
			}
			for j := range started {
				if _, fin := ended[j]; !fin && !acked[j] {
					return "start-before-ack", fmt.Sprintf("event %d: call %d started while call %d has neither returned nor acknowledged delivery", i, e.call, j)
				}
			}
			started[e.call] = i
			startOrder = append(startOrder, e.call)
			running++
			if running > p.max {
				return "over-concurrency", fmt.Sprintf("event %d: %d implementations running, MaxConcurrentCalls=%d", i, running, p.max)
			}
			if shutAt >= 0 {
				return "start-after-shutdown", fmt.Sprintf("event %d: call %d started after the user's Shutdown ran", i, e.call)
			}
		case "ack":
			acked[e.call] = true
		case "end":
			ended[e.call] = i
			running--
		case "userShutdown":
			if shutAt >= 0 {
				return "shutdown-twice", "user Shutdown ran twice"
			}
			shutAt = i
			if running != 0 {
				return "shutdown-while-running", fmt.Sprintf("event %d: user Shutdown ran while %d call(s) were still running", i, running)
			}
		case "deliver":
			deliverOrder = append(deliverOrder, e.call)
		}
	}
	if shutAt < 0 {
		return "no-shutdown", "all client handles released but the user's Shutdown never ran"
	}
	for id, at := range started {
		if _, ok := ended[id]; !ok {
			return "call-never-ended", fmt.Sprintf("call %d started at event %d never ended", id, at)
		}
	}
	// per-thread start order == issue order
	pos := map[int]int{}
	for i, id := range startOrder {
		pos[id] = i
	}
	for ti, th := range p.threads {
		prev := -1
		for pi, o := range th {
			id := ti*10 + pi
			if o >= opPipe {
				continue
			}
			if at, ok := pos[id]; ok {
				if at < prev {
					return "order", fmt.Sprintf("thread %d: call %d started before an earlier call of the same thread", ti, id)
				}
				prev = at
			}
		}
	}
	// every call resolves consistently with what the implementation did
	cancelAct := map[int]bool{}
	for _, k := range p.keeper {
		if k.act == kCancel || k.act == kLeave {
			cancelAct[k.call] = true
		}
	}
	relBefore := func(ti, pi int) bool {
		for j := 0; j < pi; j++ {
			if p.threads[ti][j] == opRel {
				return true
			}
		}
		return false
	}
	dpos := map[int]int{}
	for i, id := range deliverOrder {
		if _, dup := dpos[id]; dup {
			return "pipe-delivered-twice", fmt.Sprintf("pipelined call %d delivered twice", id)
		}
		dpos[id] = i
	}
	type pspan struct{ id, base, end int }
	var pipeSpans []pspan
	pipeStart := map[int]int{}
	for i, e := range w.ev {
		switch e.kind {
		case "pipestart":
			pipeStart[e.call] = i
		case "pipeend":
			pipeSpans = append(pipeSpans, pspan{e.call, w.pipeBase[e.call], i})
		}
	}
	for ti, th := range p.threads {
		lastPipeD := -1
		for pi, o := range th {
			id := ti*10 + pi
			f, has := fin[id]
			switch {
			case o == opRel:
			case o == opPipe || o == opPipeAsync || o == opPipeLate || o == opPipe2:
				base, ok := w.pipeBase[id]
				if !ok {
					continue
				}
				if !has {
					return "pipe-unresolved", fmt.Sprintf("pipelined call %d has no result", id)
				}
				_, delivered := dpos[id]
				bmode := w.mode[base]
				bfin := fin[base]
				if bmode >= opPipe {
					// the base is itself a pipelined call: whatever it resolved to
					// carries no capability (H answers with an error, or the call
					// failed), so this call can only fail and must not reach H
					if delivered || f == "ok" {
						return "pipe-phantom", fmt.Sprintf("call %d pipelined on the pipelined call %d (result %q, no capability): delivered=%v result=%q", id, base, bfin, delivered, f)
					}
					continue
				}
				switch {
				case bfin == "ok" && bmode == opCallP:
					if !delivered || f != "H" {
						return "pipe-lost", fmt.Sprintf("pipelined call %d on call %d (returned a capability): delivered=%v result=%q", id, base, delivered, f)
					}
					// a pipelined call whose issuing had completed before this one
					// was issued must have been delivered first
					for _, ev2 := range pipeSpans {
						if ev2.base == base && ev2.end < pipeStart[id] {
							if dp, ok := dpos[ev2.id]; ok && dp > dpos[id] {
								return "pipe-order", fmt.Sprintf("pipelined call %d overtook pipelined call %d, which had been issued completely before it, on the answer of call %d", id, ev2.id, base)
							}
						}
					}
					_ = lastPipeD
					if e, ok := ended[base]; ok {
						// delivery happens after the base call ended
						for i, ev := range w.ev {
							if ev.kind == "deliver" && ev.call == id && i < e {
								return "pipe-early", fmt.Sprintf("pipelined call %d delivered before call %d returned", id, base)
							}
						}
					}
				case bfin == "ok":
					if delivered || f == "ok" || f == "H" {
						return "pipe-phantom", fmt.Sprintf("pipelined call %d on call %d (no capability in result): delivered=%v result=%q", id, base, delivered, f)
					}
				default:
					// base failed: the pipelined call fails with its error
					if delivered {
						return "pipe-phantom", fmt.Sprintf("pipelined call %d delivered although call %d failed with %q", id, base, bfin)
					}
					if f != bfin {
						return "pipe-error", fmt.Sprintf("pipelined call %d on failed call %d: got %q want %q", id, base, f, bfin)
					}
				}
			default:
				if !has {
					return "call-unresolved", fmt.Sprintf("call %d has no result", id)
				}
				_, wasStarted := started[id]
				if relBefore(ti, pi) {
					if f != "released" || wasStarted {
						return "call-after-release", fmt.Sprintf("call %d on a released handle: started=%v result=%q", id, wasStarted, f)
					}
					continue
				}
				if !wasStarted {
					// legal only if its context was cancelled before admission
					if !(f == "ctxcanceled" && cancelAct[id]) && f != "aftershutdown" {
						return "call-not-started", fmt.Sprintf("call %d never reached the implementation, result %q", id, f)
					}
					continue
				}
				cancelledEv := false
				for _, ev := range w.ev {
					if ev.kind == "cancelled" && ev.call == id {
						cancelledEv = true
					}
				}
				want := "ok"
				switch {
				case cancelledEv:
					want = "cancelled"
				case o == opCallE:
					want = "implerror"
				}
				if f != want {
					return "call-result", fmt.Sprintf("call %d (%s): implementation outcome %q but caller got %q", id, opNames[o], want, f)
				}
			}
		}
	}
	return "", ""
}

func outcomeClass(w *world, fin map[int]string) string {
	var b strings.Builder
	for _, e := range w.ev {
		switch e.kind {
		case "start", "end", "ack", "cancelled", "deliver":
			fmt.Fprintf(&b, "%s%d ", e.kind[:1], e.call)
		case "userShutdown":
			b.WriteString("U ")
		}
	}
	return b.String()
}

// ---- enumeration ----

func seqs(maxLen int) [][]int {
	var out [][]int
	var rec func(cur []int)
	rec = func(cur []int) {
		if len(cur) > 0 {
			out = append(out, append([]int{}, cur...))
		}
		if len(cur) == maxLen {
			return
		}
		for o := 0; o < nOps; o++ {
			if o == opPipe2 {
				ok := false
				for _, x := range cur {
					if x == opPipe {
						ok = true
					}
				}
				if !ok {
					continue
				}
			}
			if o == opPipe || o == opPipeAsync || o == opPipeLate {
				// needs an earlier call in this thread
				ok := false
				for _, x := range cur {
					if x < opPipe {
						ok = true
					}
				}
				if !ok {
					continue
				}
			}
			rec(append(cur, o))
		}
	}
	rec(nil)
	return out
}

func permutations(xs []int) [][]int {
	if len(xs) <= 1 {
		return [][]int{append([]int{}, xs...)}
	}
	var out [][]int
	for i := range xs {
		rest := append(append([]int{}, xs[:i]...), xs[i+1:]...)
		for _, p := range permutations(rest) {
			out = append(out, append([]int{xs[i]}, p...))
		}
	}
	return out
}

func programs(len0, len1 int, policies [][2]int, fullKeeper bool) []program {
	var out []program
	t0s := seqs(len0)
	t1s := [][]int{nil}
	if len1 > 0 {
		t1s = append(t1s, seqs(len1)...)
	}
	for _, t0 := range t0s {
		for _, t1 := range t1s {
			threads := [][]int{t0}
			if t1 != nil {
				threads = append(threads, t1)
			}
			var gatedIDs []int
			noAck := map[int]bool{}
			for ti, th := range threads {
				for pi, o := range th {
					if gated(o) {
						gatedIDs = append(gatedIDs, ti*10+pi)
						if o == opCallG {
							noAck[ti*10+pi] = true
						}
					}
				}
			}
			if len(gatedIDs) > 3 {
				continue
			}
			// keeper programs
			var keepers [][]keeperOp
			orders := [][]int{gatedIDs}
			if len(gatedIDs) > 1 {
				if fullKeeper {
					orders = permutations(gatedIDs)
				} else {
					rev := make([]int, len(gatedIDs))
					for i, x := range gatedIDs {
						rev[len(gatedIDs)-1-i] = x
					}
					orders = append(orders, rev)
				}
			}
			for _, ord := range orders {
				base := make([]keeperOp, len(ord))
				for i, id := range ord {
					base[i] = keeperOp{id, kOpen}
				}
				keepers = append(keepers, base)
				if len(ord) > 0 {
					late := make([]keeperOp, len(ord))
					for i, id := range ord {
						late[i] = keeperOp{id, kOpenLate}
					}
					keepers = append(keepers, late)
				}
				for i, id := range ord {
					for _, act := range []int{kCancel, kLeave} {
						if act == kLeave {
							// A call whose gate is never opened ends only through
							// Shutdown's cancellation, i.e. after every handle is
							// released; so nothing may have to wait behind it: it must
							// be acknowledged, be the only caller thread's last call.
							if noAck[id] || len(threads) > 1 {
								continue
							}
							lastCall := -1
							for pi, o := range threads[0] {
								if o < opPipe {
									lastCall = pi
								}
							}
							if id != lastCall {
								continue
							}
						}
						k := append([]keeperOp{}, base...)
						k[i] = keeperOp{id, act}
						keepers = append(keepers, k)
					}
				}
			}
			for _, pol := range policies {
				for _, k := range keepers {
					// a full answer queue blocks the pipelining caller until the
					// base call returns; with a gate that is never opened that is
					// a deadlock by construction, not a finding
					leave := false
					for _, ko := range k {
						if ko.act == kLeave {
							leave = true
						}
					}
					if leave {
						pipes := 0
						for _, o := range threads[0] {
							if o == opPipe || o == opPipeAsync || o == opPipeLate || o == opPipe2 {
								pipes++
							}
						}
						if pipes > pol[1] {
							continue
						}
					}
					out = append(out, program{threads: threads, keeper: k, max: pol[0], q: pol[1]})
				}
			}
		}
	}
	return out
}

func family(name string, progs []program, cfg vsched.Config) vlib.Family {
	return vlib.Family{
		Name: name, N: int64(len(progs)),
		Describe: func(i int64) interface{} { return progs[i].String() },
		Run: func(i int64, r *vlib.Rec) {
			p := progs[i]
			var w *world
			var res [][]opResult
			var fin map[int]string
			body := func() {
				w = &world{}
				fin = map[int]string{}
				res = make([][]opResult, len(p.threads))
				for ti := range p.threads {
					res[ti] = make([]opResult, len(p.threads[ti]))
				}
				runProgram(p, w, res, fin)
			}
			outcomes := map[string]bool{}
			knownSeen := map[string]bool{}
			st, f := vsched.Explore(cfg, body, func(vr *vsched.Result) string {
				key, msg := judge(p, w, res, fin, vr)
				if key != "" && vlib.KnownOpen("C12", key) {
					if !knownSeen[key] {
						knownSeen[key] = true
						r.Failf(key, "program %s\n%s", p, msg)
					}
					return ""
				}
				if key != "" {
					return key + "\x00" + msg
				}
				outcomes[outcomeClass(w, fin)] = true
				return ""
			})
			if os.Getenv("VERIF_TRACE") != "" {
				rr := vsched.Replay(nil, cfg.MaxSteps, body)
				for i, d := range rr.Decisions {
					fmt.Fprintf(os.Stderr, "#%d %c n=%d free=%v %s\n", i, d.Kind, d.N, d.Free, d.Desc)
				}
				fmt.Fprintf(os.Stderr, "events: %s\n", renderEvents(w))
			}
			r.States += int64(len(st.Configs))
			r.Transitions += st.Steps
			r.Traces += st.Execs
			r.Note("executions", st.Execs)
			if st.Capped {
				r.Capped = true
			}
			for o := range outcomes {
				r.Outcome(o)
			}
			if len(outcomes) > 1 || st.Execs > 1 {
				r.NonTrivial()
			}
			if f != nil {
				if f.Engine {
					r.Failf("ENGINE:"+f.Msg, "%s", f.Msg)
					return
				}
				parts := strings.SplitN(f.Msg, "\x00", 2)
				rr := vsched.Replay(f.Choices, cfg.MaxSteps, body)
				r.Failf(parts[0], "program %s\n%s\nchoices %v\nevents: %s\nresults: %v\n%s", p, parts[1], f.Choices, renderEvents(w), fin, rr.Describe())
			}
		},
	}
}

func renderEvents(w *world) string {
	var b strings.Builder
	for _, e := range w.ev {
		fmt.Fprintf(&b, "%s(%d %s) ", e.kind, e.call, e.info)
	}
	return b.String()
}

func main() {
	vlib.Main(vlib.Spec{
		ID:          "C12",
		Level:       "model_checking",
		CaseTimeout: 30 * time.Minute,
		Rule:        "programs = caller thread T0 (1-3 ops over {5 call behaviours, pipelined call on the latest answer, Release}), optional second caller T1 with its own client handle, [family direct-shutdown: the *server.Server driven directly, 1-3 caller threads with one Send each over {return at once, ack and wait, wait un-acked}, Shutdown called at once or only when nothing else can run, MaxConcurrentCalls 0/1/2;] a gatekeeper thread (gate order permutations; each gate opened, its call context cancelled, or left closed so that only Shutdown's cancellation can end the call), policies MaxConcurrentCalls x AnswerQueueSize; fixed epilogue (release remaining handles => server Shutdown, collect every answer). For each program all schedules of the real server/, answer.go, capability.go up to the preemption bound. Non-trivial = more than one schedule or outcome. states = sum over programs of distinct scheduling configurations; transitions = scheduling steps; traces = executions on the implementation.",
		Assumptions: []string{
			"scheduling points at every sync operation are sufficient (data-race freedom checked separately by a free-running -race pass, which decides nothing)",
			"main families: the server is driven through capnp.Client, so Shutdown runs only after the last handle is released and no Send is in progress, as the Client contract guarantees; family direct-shutdown drives the Server's Send/Shutdown directly so that Shutdown overlaps Sends in progress (never Sends issued after Shutdown was called from the same thread)",
		},
		Families: func(tier string) []vlib.Family {
			all4 := [][2]int{{1, 1}, {1, 2}, {2, 1}, {2, 2}}
			two := [][2]int{{1, 1}, {2, 2}}
			if tier == "thorough" {
				return []vlib.Family{
					family("T0<=2,T1<=1,dev2", programs(2, 1, all4, true), vsched.Config{MaxPreempt: 2, MaxFree: 2, MaxTotal: 2, MaxDev: 0, MaxSteps: 3000}),
					family("T0<=3,dev2", programs(3, 0, two, false), vsched.Config{MaxPreempt: 2, MaxFree: 2, MaxTotal: 2, MaxDev: 0, MaxSteps: 3000, MaxExecs: 30000}),
					family("T0<=2,T1<=2,dev1", programs(2, 2, two, false), vsched.Config{MaxPreempt: 1, MaxFree: 1, MaxTotal: 1, MaxDev: 0, MaxSteps: 3000}),
					directFamily("direct-shutdown<=4,dev2", dprogs(4), vsched.Config{MaxPreempt: 2, MaxFree: 2, MaxTotal: 2, MaxDev: 0, MaxSteps: 3000}),
					directFamily("direct-shutdown<=3,dev3", dprogs(3), vsched.Config{MaxPreempt: 3, MaxFree: 3, MaxTotal: 3, MaxDev: 0, MaxSteps: 3000}),
				}
			}
			return []vlib.Family{
				family("T0<=2,T1<=1,dev1", programs(2, 1, two, false), vsched.Config{MaxPreempt: 1, MaxFree: 1, MaxTotal: 1, MaxDev: 0, MaxSteps: 3000}),
				family("T0<=3,dev1", programs(3, 0, two, false), vsched.Config{MaxPreempt: 1, MaxFree: 1, MaxTotal: 1, MaxDev: 0, MaxSteps: 3000}),
				directFamily("direct-shutdown<=2,dev2", dprogs(2), vsched.Config{MaxPreempt: 2, MaxFree: 2, MaxTotal: 2, MaxDev: 0, MaxSteps: 3000}),
			}
		},
	})
}
