// C09 (b) — torn writes on the real stream transports.
//
// rpc.NewStreamTransport / rpc.NewPackedStreamTransport are run over an
// in-memory io.ReadWriteCloser without deadline methods (so neither
// goroutines nor clocks are involved).  For every sequence of 1-3 rpc
// messages (1-2 segments), every Write call index j of the sequence and every
// short count k, the j-th Write returns (k, err); the harness then keeps
// sending.  Oracle (properties.jsonl C09, last sentence): after a torn write
// no further bytes are written to the stream, every later send fails, and a
// Decoder over the captured bytes yields only complete messages.
// Package c09torn is part (b) of the C09 check: torn writes on the real
// stream transports.  It is linked into the c09 harness as one more family.
package c09torn

import (
	"bytes"
	"context"
	"encoding/binary"
	"encoding/hex"
	"errors"
	"fmt"
	"io"

	capnp "capnproto.org/go/capnp/v3"
	"capnproto.org/go/capnp/v3/internal/verif/ref"
	"capnproto.org/go/capnp/v3/internal/verif/vlib"
	"capnproto.org/go/capnp/v3/rpc"
	rpccp "capnproto.org/go/capnp/v3/std/capnp/rpc"
)

// ---- independent framing (encoding.html#serialization-over-a-stream) ----

func refFrame(segs [][]byte) []byte {
	var w [4]byte
	h := make([]byte, 0, 8+4*len(segs))
	binary.LittleEndian.PutUint32(w[:], uint32(len(segs)-1))
	h = append(h, w[:]...)
	for _, s := range segs {
		binary.LittleEndian.PutUint32(w[:], uint32(len(s)/8))
		h = append(h, w[:]...)
	}
	if len(h)%8 != 0 {
		h = append(h, 0, 0, 0, 0)
	}
	for _, s := range segs {
		h = append(h, s...)
	}
	return h
}

func hx(b []byte) string {
	if len(b) > 80 {
		return hex.EncodeToString(b[:40]) + "..." + hex.EncodeToString(b[len(b)-24:]) + fmt.Sprintf("(len %d)", len(b))
	}
	return hex.EncodeToString(b)
}

// ---- fault-injecting stream ----

var errInjected = errors.New("injected write failure")

type faultRWC struct {
	failAt, failK int // Write call index that fails after failK bytes; -1 = healthy
	// failK == -1: Write #failAt accepts everything but, as a side effect,
	// cancels the context of the send in progress (cancellation between two
	// Writes of one frame)
	cancel          func()
	writes          int
	lens            []int    // len(b) of every Write call
	sendOf          []int    // send in progress at every Write call
	cur             int      // send in progress
	contrib         [][]byte // bytes accepted per send
	all             []byte   // everything accepted, in order
	closed          int
	writeAfterClose bool
}

func (f *faultRWC) Read(p []byte) (int, error) { return 0, io.EOF }

func (f *faultRWC) Write(b []byte) (int, error) {
	if f.closed > 0 {
		f.writeAfterClose = true
	}
	j := f.writes
	f.writes++
	f.lens = append(f.lens, len(b))
	f.sendOf = append(f.sendOf, f.cur)
	for len(f.contrib) <= f.cur {
		f.contrib = append(f.contrib, nil)
	}
	n := len(b)
	var err error
	if j == f.failAt && f.failK == -1 {
		if f.cancel != nil {
			f.cancel()
		}
	} else if j == f.failAt {
		n = f.failK
		if n > len(b) {
			n = len(b)
		}
		err = errInjected
	}
	f.contrib[f.cur] = append(f.contrib[f.cur], b[:n]...)
	f.all = append(f.all, b[:n]...)
	return n, err
}

func (f *faultRWC) Close() error { f.closed++; return nil }

// ---- messages ----

const nKinds = 3

var kindName = []string{"finish(1seg)", "call-small(1seg)", "call-1100B(2seg)"}

func build(m rpccp.Message, kind, s int) error {
	switch kind {
	case 0:
		f, err := m.NewFinish()
		if err != nil {
			return err
		}
		f.SetQuestionId(uint32(0x1000 + s))
		f.SetReleaseResultCaps(s%2 == 0)
		return nil
	default:
		c, err := m.NewCall()
		if err != nil {
			return err
		}
		c.SetQuestionId(uint32(0x2000 + s))
		c.SetInterfaceId(0xfeedfacecafe0000 + uint64(s))
		c.SetMethodId(uint16(7 + s))
		p, err := c.NewParams()
		if err != nil {
			return err
		}
		n := 5
		if kind == 2 {
			n = 1100 // does not fit the 1024-byte first segment -> second segment
		}
		b := make([]byte, n)
		for i := range b {
			b[i] = byte(1 + (i*7+s*13)%251)
			if kind == 2 && i%64 >= 40 { // some zero words for the packed encoding
				b[i] = 0
			}
		}
		d, err := capnp.NewData(m.Struct.Segment(), b)
		if err != nil {
			return err
		}
		return p.SetContent(d.ToPtr())
	}
}

func snapshot(m rpccp.Message) [][]byte {
	msg := m.Struct.Segment().Message()
	n := msg.NumSegments()
	out := make([][]byte, n)
	for i := int64(0); i < n; i++ {
		s, err := msg.Segment(capnp.SegmentID(i))
		if err != nil {
			panic(err)
		}
		out[i] = append([]byte{}, s.Data()...)
	}
	return out
}

type sendRec struct {
	kind      int
	segs      [][]byte // nil if NewMessage failed
	newMsgErr error
	sendErr   error
}

func (s sendRec) failed() bool { return s.newMsgErr != nil || s.sendErr != nil }

// run sends the messages of kinds over a fresh transport with one fault.
//
// pre >= 0: message number pre is allocated and built BEFORE the first send
// (as the Conn does with the Return of a running call) and sent at its place
// in the sequence.
func run(packed bool, kinds []int, failAt, failK int, pre int) (*faultRWC, []sendRec, error) {
	rwc := &faultRWC{failAt: failAt, failK: failK}
	var tr rpc.Transport
	if packed {
		tr = rpc.NewPackedStreamTransport(rwc)
	} else {
		tr = rpc.NewStreamTransport(rwc)
	}
	recs := make([]sendRec, len(kinds))
	var preSend func() error
	var preRelease func()
	var preCancel context.CancelFunc
	if pre >= 0 {
		ctx, cancel := context.WithCancel(context.Background())
		preCancel = cancel
		defer cancel()
		m, send, release, err := tr.NewMessage(ctx)
		if err != nil {
			return nil, nil, fmt.Errorf("harness: NewMessage on a fresh transport: %v", err)
		}
		if err := build(m, kinds[pre], pre); err != nil {
			release()
			return nil, nil, fmt.Errorf("harness: building message %d: %v", pre, err)
		}
		recs[pre].segs = snapshot(m)
		preSend, preRelease = send, release
	}
	for s, kind := range kinds {
		rwc.cur = s
		for len(rwc.contrib) <= s {
			rwc.contrib = append(rwc.contrib, nil)
		}
		recs[s].kind = kind
		if s == pre {
			rwc.cancel = preCancel
			recs[s].sendErr = preSend()
			preRelease()
			continue
		}
		ctx, cancel := context.WithCancel(context.Background())
		rwc.cancel = cancel
		defer cancel()
		m, send, release, err := tr.NewMessage(ctx)
		if err != nil {
			recs[s].newMsgErr = err
			continue
		}
		if err := build(m, kind, s); err != nil {
			release()
			return nil, nil, fmt.Errorf("harness: building message %d: %v", s, err)
		}
		recs[s].segs = snapshot(m)
		recs[s].sendErr = send()
		release()
	}
	rwc.cur = len(kinds)
	before := len(rwc.all)
	if err := tr.Close(); err != nil {
		return nil, nil, fmt.Errorf("harness: Close: %v", err)
	}
	if len(rwc.all) != before || rwc.closed != 1 {
		return nil, nil, fmt.Errorf("harness: Close wrote %d bytes / closed the stream %d times", len(rwc.all)-before, rwc.closed)
	}
	return rwc, recs, nil
}

// ---- scenarios ----

type seqSpec struct {
	packed bool
	base   []int // kinds of the base sequence (faults are injected in its writes)
	lens   []int // Write sizes of the base sequence on a healthy stream
}

// extra sends after the base sequence: the harness keeps sending.
var extra = []int{0, 2, 1}

func (q seqSpec) kinds() []int { return append(append([]int{}, q.base...), extra...) }

func (q seqSpec) String() string {
	t := "stream"
	if q.packed {
		t = "packed-stream"
	}
	s := ""
	for i, k := range q.base {
		if i > 0 {
			s += ","
		}
		s += kindName[k]
	}
	return fmt.Sprintf("%s transport, base messages [%s] then [finish, call-1100B, call-small]", t, s)
}

type faultCase struct {
	seq  int
	j, k int
	pre  bool // the first message after the base sequence is allocated before everything else
}

func seqSpecs() []seqSpec {
	var out []seqSpec
	for _, packed := range []bool{false, true} {
		for n := 1; n <= 3; n++ {
			cnt := 1
			for i := 0; i < n; i++ {
				cnt *= nKinds
			}
			for x := 0; x < cnt; x++ {
				q := seqSpec{packed: packed}
				y := x
				for i := 0; i < n; i++ {
					q.base = append(q.base, y%nKinds)
					y /= nKinds
				}
				rwc, _, err := run(packed, q.base, -1, 0, -1)
				if err != nil {
					panic(err)
				}
				q.lens = rwc.lens
				out = append(out, q)
			}
		}
	}
	return out
}

func shortCounts(L int, all bool) []int {
	if L <= 32 || all {
		ks := make([]int, 0, L)
		for k := 0; k < L; k++ {
			ks = append(ks, k)
		}
		if L == 0 {
			ks = append(ks, 0)
		}
		return ks
	}
	seen := map[int]bool{}
	var ks []int
	for _, k := range []int{0, 1, 2, 3, 4, 7, 8, 9, 15, 16, 17, 31, 32, 33, L / 2, L - 33, L - 17, L - 16, L - 9, L - 8, L - 7, L - 2, L - 1} {
		if k >= 0 && k < L && !seen[k] {
			seen[k] = true
			ks = append(ks, k)
		}
	}
	return ks
}

func sameSegs(m *capnp.Message, segs [][]byte) bool {
	if m.NumSegments() != int64(len(segs)) {
		return false
	}
	for i, want := range segs {
		s, err := m.Segment(capnp.SegmentID(i))
		if err != nil || !bytes.Equal(s.Data(), want) {
			return false
		}
	}
	return true
}

// judge applies the oracle to one faulty run, given the frames of the healthy
// run of the same sends.
func judge(q seqSpec, fc faultCase, frames [][]byte, rwc *faultRWC, recs []sendRec, r *vlib.Rec) {
	desc := func() string {
		res := ""
		for s, rec := range recs {
			st := "ok"
			if rec.newMsgErr != nil {
				st = "NewMessage error: " + rec.newMsgErr.Error()
			} else if rec.sendErr != nil {
				st = "send error: " + rec.sendErr.Error()
			}
			res += fmt.Sprintf("\n   send %d (%s, frame %d bytes): %s; bytes put on the stream: %d", s, kindName[rec.kind], len(frames[s]), st, len(rwc.contrib[s]))
		}
		pre := ""
		if fc.pre {
			pre = fmt.Sprintf("; message %d was allocated and built before the first send", len(q.base))
		}
		return fmt.Sprintf("%s%s; Write call #%d (of %d bytes, during send %d) returns (%d, err)%s\n   stream: %s", q, pre, fc.j, q.lens[fc.j], rwc.sendOf[fc.j], fc.k, res, hx(rwc.all))
	}
	// fail formats the (long) detail only while it is still kept by vlib
	fail := func(key, format string, a ...interface{}) {
		if r.ViolCount[key] >= 3 {
			r.Fail(key, "")
			return
		}
		r.Fail(key, fmt.Sprintf(format, a...)+"; "+desc())
	}
	faultSend := rwc.sendOf[fc.j]
	sub := "midbuffer"
	if fc.k == 0 {
		sub = "between-buffers"
	}
	if fc.k == -1 {
		sub = "cancelled-between-buffers"
	}
	torn := -1 // send whose frame is partly on the stream
	var delivered [][][]byte
	for s, rec := range recs {
		got := rwc.contrib[s]
		if torn >= 0 {
			// the property: no further bytes, every later send fails
			if len(got) > 0 {
				fail("bytes-after-torn-write/"+sub, "send %d put %d more bytes on the stream after the frame of send %d was torn", s, len(got), torn)
			}
			if !rec.failed() {
				fail("send-succeeds-after-torn-write/"+sub, "send %d reported success after the frame of send %d was torn", s, torn)
			}
			continue
		}
		switch {
		case !rec.failed():
			if s == faultSend && fc.k != -1 {
				fail("send-hides-write-error", "send %d returned nil although a Write failed", s)
			}
			// fc.k == -1: the context was cancelled after the frame's last
			// Write; the frame is complete and the send may report success
			if !bytes.Equal(got, frames[s]) {
				fail("successful-send-wrong-bytes", "send %d returned nil but the bytes on the stream are not its frame", s)
			} else {
				delivered = append(delivered, rec.segs)
			}
		default:
			if !bytes.HasPrefix(frames[s], got) {
				fail("failed-send-wrote-foreign-bytes", "failed send %d put bytes on the stream that are not a prefix of its frame", s)
			}
			if len(got) == len(frames[s]) && len(got) > 0 {
				// complete frame on the wire but error reported: the peer will see it
				delivered = append(delivered, rec.segs)
				r.Outcome("failed-send-frame-complete")
			} else if len(got) > 0 && torn < 0 {
				torn = s
			}
		}
	}
	if torn >= 0 {
		r.Outcome("torn/" + sub)
	} else {
		r.Outcome("write-failed-at-frame-boundary")
		// nothing of the frame was written: the stream is still at a frame
		// boundary; whether later sends are refused is left open
		later := "later-sends-continue"
		for s := faultSend + 1; s < len(recs); s++ {
			if recs[s].failed() {
				later = "later-sends-refused"
			}
		}
		r.Outcome(later)
	}
	// receiver: a Decoder over the captured bytes
	var dec *capnp.Decoder
	if q.packed {
		dec = capnp.NewPackedDecoder(bytes.NewReader(rwc.all))
	} else {
		dec = capnp.NewDecoder(bytes.NewReader(rwc.all))
	}
	n := 0
	for {
		m, err := dec.Decode()
		if err != nil {
			break
		}
		switch {
		case n < len(delivered) && sameSegs(m, delivered[n]):
		case n == len(delivered) && torn >= 0 && q.packed && sameSegs(m, recs[torn].segs) && len(rwc.contrib[torn]) == len(frames[torn])-1:
			// packed.Reader hands out a word whose run-count byte is missing
			// (reported one read late): all words of the torn frame are
			// present and it is the true message, not garbage.
			r.Outcome("peer-decodes-torn-frame-with-all-words")
		default:
			fail("peer-decodes-garbage", "the receiving Decoder returned as message #%d something that is not the next completely written message", n)
			return
		}
		n++
		if n > len(recs)+1 {
			break
		}
	}
	if n < len(delivered) {
		fail("peer-loses-complete-frames", "the receiving Decoder returned %d messages but %d complete frames were written", n, len(delivered))
	}
}

func runCase(q seqSpec, fc faultCase, r *vlib.Rec) {
	kinds := q.kinds()
	// healthy run: frames of every send, checked against the independent framing
	pre := -1
	if fc.pre {
		pre = len(q.base)
	}
	h, hrecs, err := run(q.packed, kinds, -1, 0, pre)
	if err != nil {
		r.Fail("harness", err.Error())
		return
	}
	frames := make([][]byte, len(kinds))
	for s, rec := range hrecs {
		if rec.failed() {
			r.Failf("healthy-send-fails", "send %d on a healthy stream failed: %v %v; %s", s, rec.newMsgErr, rec.sendErr, q)
			return
		}
		frames[s] = h.contrib[s]
		want := refFrame(rec.segs)
		got := frames[s]
		if q.packed {
			var e error
			got, _, e = ref.Unpack(frames[s])
			if e != nil {
				r.Failf("healthy-frame-nonconformant", "send %d: packed frame does not spec-unpack: %v; %s", s, e, q)
				return
			}
		}
		if !bytes.Equal(got, want) {
			r.Failf("healthy-frame-nonconformant", "send %d: bytes on the stream are not the spec framing of the message; %s", s, q)
			return
		}
	}
	if fc.j < 0 {
		// healthy case: receiver sees all messages
		rwc := h
		rwc.sendOf = append(rwc.sendOf, 0)
		r.NonTrivial()
		var dec *capnp.Decoder
		if q.packed {
			dec = capnp.NewPackedDecoder(bytes.NewReader(rwc.all))
		} else {
			dec = capnp.NewDecoder(bytes.NewReader(rwc.all))
		}
		for s := range kinds {
			m, err := dec.Decode()
			if err != nil || !sameSegs(m, hrecs[s].segs) {
				r.Failf("healthy-stream-undecodable", "message %d of the healthy stream does not decode to what was sent (err=%v); %s", s, err, q)
				return
			}
		}
		if _, err := dec.Decode(); err != io.EOF {
			r.Failf("healthy-stream-undecodable", "no io.EOF at the end of the healthy stream: %v; %s", err, q)
		}
		r.Outcome("healthy")
		return
	}
	rwc, recs, err := run(q.packed, kinds, fc.j, fc.k, pre)
	if err != nil {
		r.Fail("harness", err.Error())
		return
	}
	if rwc.writes <= fc.j {
		r.Failf("harness", "write #%d never happened; %s", fc.j, q)
		return
	}
	r.NonTrivial()
	judge(q, fc, frames, rwc, recs, r)
}

// Rule describes the enumeration of this part.
const Rule = "part (b) torn writes: real rpc.NewStreamTransport and rpc.NewPackedStreamTransport over an in-memory io.ReadWriteCloser without deadline methods; every sequence of 1..3 rpc messages over {Finish (1 segment), Call with 5-byte params (1 segment), Call with 1100-byte params (2 segments)} followed by three more sends; for EVERY Write call index j issued while sending the base sequence and every short count k in [0,len(b)) (quick: all k for buffers <=32 bytes, 23 boundary values otherwise; thorough: all k) that one Write returns (k, err) and all other writes succeed. Non-trivial = a faulty run whose j-th Write happened and whose result was judged (all (sequence, j, k) triples are distinct), plus one healthy run per sequence; everything once more with the first message after the base sequence allocated and built before the first send (a message that exists before the tear and is sent after it)."

// Assumptions of this part.
var Assumptions = []string{
	"a frame is torn when at least one and not all of its bytes were accepted by the stream; a Write failing with 0 bytes at the first Write of a frame leaves the stream at a frame boundary and whether later sends are then refused is left open (outcome)",
	"expected frame bytes of each send are taken from a healthy run of the same sends in the same case and are themselves checked against an independent spec framing (and ref.Unpack for the packed transport)",
	"packed receiver: when only the final run-count byte of the torn frame is missing, packed.Reader hands out all words of that frame (C13/C14 late report); the Decoder then returns the true torn message, which is counted as an outcome, not as garbage",
	"contract of Transport.NewMessage followed: send called at most once, release called afterwards, CapTable nil; context.Background so no goroutines or timers take part",
}

// Families returns the torn-write family.
func Families(tier string) []vlib.Family {
	specs := seqSpecs()
	var cases []faultCase
	for si, q := range specs {
		for _, pre := range []bool{false, true} {
			cases = append(cases, faultCase{si, -1, 0, pre})
			for j, L := range q.lens {
				for _, k := range shortCounts(L, tier == "thorough") {
					cases = append(cases, faultCase{si, j, k, pre})
				}
				// the sending context is cancelled right after Write #j completed
				cases = append(cases, faultCase{si, j, -1, pre})
			}
		}
	}
	return []vlib.Family{{
		Name: "torn-write", N: int64(len(cases)),
		Run: func(i int64, r *vlib.Rec) {
			fc := cases[i]
			runCase(specs[fc.seq], fc, r)
		},
		Describe: func(i int64) interface{} {
			fc := cases[i]
			q := specs[fc.seq]
			if fc.pre {
				return describe(q.String()+"; the first message after the base sequence is allocated and built before the first send", fc, q)
			}
			return describe(q.String(), fc, q)
		},
	}}
}

func describe(qs string, fc faultCase, q seqSpec) string {
	if fc.j < 0 {
		return qs + "; healthy"
	}
	if fc.k == -1 {
		return fmt.Sprintf("%s; the send's context is cancelled right after Write #%d (%d bytes) completed", qs, fc.j, q.lens[fc.j])
	}
	return fmt.Sprintf("%s; Write #%d (%d bytes) returns (%d, err)", qs, fc.j, q.lens[fc.j], fc.k)
}
