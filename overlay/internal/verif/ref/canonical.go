// canonical.go — canonical form, from encoding.html#canonicalization.
//
//	Canonical(v)     → ([]byte, error)  the canonical single segment (no
//	                   segment table) of the message whose root pointer is v;
//	                   error iff v contains a capability
//	IsCanonical(b)   → error            nil iff b is a canonical segment;
//	                   written as an independent checker, it shares no code
//	                   with Canonical
//
// Rules: one segment; objects in pre-order (an object, then the targets of its
// pointers in order; for a composite list all elements first, then the targets
// element by element); near pointers only; trailing zero data words and
// trailing null pointers of every struct truncated; for a struct list a
// trailing word is truncated only if it is zero/null in ALL elements; a
// pointer to a zero-sized struct has offset -1; no capabilities; padding
// (unused bits of the last byte of a bit list, bytes up to the word boundary
// of a bit/byte list) is zero because equal values must give equal bytes.
// Lists keep their element code (a primitive list is not a struct list).
package ref

import (
	"encoding/binary"
	"errors"
	"fmt"
)

// ErrCanonicalCap is returned by Canonical for a tree with a capability.
var ErrCanonicalCap = errors.New("ref: capabilities have no canonical form")

type canon struct {
	buf []byte
}

func (c *canon) alloc(words int) int {
	start := len(c.buf) / 8
	c.buf = append(c.buf, make([]byte, 8*words)...)
	return start
}

func (c *canon) put(word int, w uint64) { binary.LittleEndian.PutUint64(c.buf[8*word:], w) }

func truncSize(s Value) (dw, pc int) {
	dw = len(s.Data) / 8
	for dw > 0 && allZero(s.Data[8*(dw-1):8*dw]) {
		dw--
	}
	pc = len(s.Ptrs)
	for pc > 0 && s.Ptrs[pc-1].Kind == KindNull {
		pc--
	}
	return
}

// Canonical returns the canonical encoding of the message with root v.
func Canonical(v Value) ([]byte, error) {
	if v.HasCap() {
		return nil, ErrCanonicalCap
	}
	c := &canon{}
	c.alloc(1)
	c.pointer(0, v)
	return c.buf, nil
}

func (c *canon) pointer(slot int, v Value) {
	switch v.Kind {
	case KindNull:
		c.put(slot, 0)
	case KindStruct:
		dw, pc := truncSize(v)
		if dw+pc == 0 {
			c.put(slot, 0xfffffffc)
			return
		}
		start := c.alloc(dw + pc)
		c.put(slot, off30(start-slot-1)|uint64(dw)<<32|uint64(pc)<<48)
		copy(c.buf[8*start:], v.Data[:8*dw])
		for i := 0; i < pc; i++ {
			c.pointer(start+dw+i, v.Ptrs[i])
		}
	case KindList:
		switch v.Elem {
		case ElemVoid:
			start := len(c.buf) / 8
			c.put(slot, 1|off30(start-slot-1)|uint64(v.N)<<35)
		case ElemBit, ElemByte1, ElemByte2, ElemByte4, ElemByte8:
			start := c.alloc((len(v.Raw) + 7) / 8)
			c.put(slot, 1|off30(start-slot-1)|uint64(v.Elem)<<32|uint64(v.N)<<35)
			copy(c.buf[8*start:], v.Raw)
		case ElemPtr:
			start := c.alloc(v.N)
			c.put(slot, 1|off30(start-slot-1)|uint64(ElemPtr)<<32|uint64(v.N)<<35)
			for i := 0; i < v.N; i++ {
				c.pointer(start+i, v.Elems[i])
			}
		case ElemComposite:
			dw, pc := 0, 0
			for _, e := range v.Elems {
				d, p := truncSize(e)
				if d > dw {
					dw = d
				}
				if p > pc {
					pc = p
				}
			}
			ew := dw + pc
			start := c.alloc(1 + v.N*ew)
			c.put(slot, 1|off30(start-slot-1)|uint64(ElemComposite)<<32|uint64(v.N*ew)<<35)
			c.put(start, uint64(uint32(v.N)<<2)|uint64(dw)<<32|uint64(pc)<<48)
			if ew == 0 {
				return
			}
			for i, e := range v.Elems {
				copy(c.buf[8*(start+1+i*ew):], e.Data[:8*dw])
			}
			for i, e := range v.Elems {
				for j := 0; j < pc; j++ {
					c.pointer(start+1+i*ew+dw+j, e.Ptrs[j])
				}
			}
		}
	}
}

// IsCanonical checks that b (one segment, root pointer in word 0) is in
// canonical form and that every word of b belongs to the tree.
func IsCanonical(b []byte) error {
	if len(b) == 0 || len(b)%8 != 0 {
		return fmt.Errorf("not canonical: %d bytes is not a positive number of words", len(b))
	}
	k := &canonCheck{b: b, next: 1}
	if err := k.pointer(0, 0); err != nil {
		return err
	}
	if k.next != len(b)/8 {
		return fmt.Errorf("not canonical: %d trailing words after the last object", len(b)/8-k.next)
	}
	return nil
}

type canonCheck struct {
	b    []byte
	next int // the word where the next object must start (pre-order frontier)
}

func (k *canonCheck) w(i int) uint64 { return binary.LittleEndian.Uint64(k.b[8*i:]) }

// claim checks that an object of n words starts exactly at the frontier.
func (k *canonCheck) claim(slot int, off int, n int, what string) (int, error) {
	start := slot + 1 + off
	if start != k.next {
		return 0, fmt.Errorf("not canonical: %s referenced from word %d starts at word %d, pre-order position is %d", what, slot, start, k.next)
	}
	if start+n > len(k.b)/8 {
		return 0, fmt.Errorf("not canonical: %s at word %d (%d words) runs past the end", what, start, n)
	}
	k.next = start + n
	return start, nil
}

func (k *canonCheck) pointer(slot, depth int) error {
	if depth > 512 {
		return fmt.Errorf("not canonical: nesting deeper than 512")
	}
	p := k.w(slot)
	if p == 0 {
		return nil
	}
	off := int(int32(uint32(p)) >> 2)
	switch p & 3 {
	case 2:
		return fmt.Errorf("not canonical: far pointer in word %d", slot)
	case 3:
		return fmt.Errorf("not canonical: capability/other pointer in word %d", slot)
	case 0:
		dw, pc := int(uint16(p>>32)), int(uint16(p>>48))
		if dw+pc == 0 {
			if off != -1 {
				return fmt.Errorf("not canonical: zero-sized struct pointer in word %d has offset %d, want -1", slot, off)
			}
			return nil
		}
		start, err := k.claim(slot, off, dw+pc, "struct")
		if err != nil {
			return err
		}
		if dw > 0 && k.w(start+dw-1) == 0 {
			return fmt.Errorf("not canonical: struct at word %d has a trailing zero data word", start)
		}
		if pc > 0 && k.w(start+dw+pc-1) == 0 {
			return fmt.Errorf("not canonical: struct at word %d has a trailing null pointer", start)
		}
		for i := 0; i < pc; i++ {
			if err := k.pointer(start+dw+i, depth+1); err != nil {
				return err
			}
		}
		return nil
	}
	code := Elem(p >> 32 & 7)
	cnt := int(p >> 35)
	switch code {
	case ElemVoid:
		_, err := k.claim(slot, off, 0, "void list")
		return err
	case ElemBit, ElemByte1, ElemByte2, ElemByte4, ElemByte8:
		bits := cnt
		if code != ElemBit {
			bits = cnt * code.ByteSize() * 8
		}
		words := (bits + 63) / 64
		start, err := k.claim(slot, off, words, "list")
		if err != nil {
			return err
		}
		for bit := bits; bit < words*64; bit++ {
			if k.b[8*start+bit/8]>>(uint(bit)%8)&1 != 0 {
				return fmt.Errorf("not canonical: list at word %d has non-zero padding (bit %d)", start, bit)
			}
		}
		return nil
	case ElemPtr:
		start, err := k.claim(slot, off, cnt, "pointer list")
		if err != nil {
			return err
		}
		for i := 0; i < cnt; i++ {
			if err := k.pointer(start+i, depth+1); err != nil {
				return err
			}
		}
		return nil
	}
	// composite
	start, err := k.claim(slot, off, cnt+1, "composite list")
	if err != nil {
		return err
	}
	tag := k.w(start)
	if tag&3 != 0 {
		return fmt.Errorf("not canonical: composite tag at word %d is not struct-shaped", start)
	}
	n, dw, pc := int(uint32(tag)>>2), int(uint16(tag>>32)), int(uint16(tag>>48))
	if n*(dw+pc) != cnt {
		return fmt.Errorf("not canonical: composite list at word %d: %d elements of %d words, pointer says %d words", start, n, dw+pc, cnt)
	}
	ew := dw + pc
	if dw > 0 {
		any := false
		for i := 0; i < n; i++ {
			any = any || k.w(start+1+i*ew+dw-1) != 0
		}
		if !any {
			return fmt.Errorf("not canonical: composite list at word %d: last data word is zero in all elements", start)
		}
	}
	if pc > 0 {
		any := false
		for i := 0; i < n; i++ {
			any = any || k.w(start+1+i*ew+ew-1) != 0
		}
		if !any {
			return fmt.Errorf("not canonical: composite list at word %d: last pointer is null in all elements", start)
		}
	}
	for i := 0; i < n; i++ {
		for j := 0; j < pc; j++ {
			if err := k.pointer(start+1+i*ew+dw+j, depth+1); err != nil {
				return err
			}
		}
	}
	return nil
}
