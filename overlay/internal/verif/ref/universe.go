// universe.go — the shared value universe U(n).
//
//	Universe(n)            all trees with at most n objects (n = 1..5), depth
//	                       <= 3, capabilities included; deterministic order
//	UniverseWith(cfg)      the same with knobs
//	Leaves(), SlimLeaves() the childless objects the universe is built from
//
// Building blocks.  Data words come from three patterns: Z = 00.., P = the
// byte sequence 8k+1..8k+8 for word k, F = FF...  Struct data sections:
// 0 words; 1 word Z|P|F; 2 words ZZ|PZ|ZP|PF|FF (so trailing-zero and
// leading-zero words occur).  Lists: void, bit, 1/2/4/8-byte, pointer,
// composite(dw,pc) with lengths 0..3 (bit lists also 8, 9; byte lists also 7,
// 8, 9 to cross byte/word boundaries; bit lists of length <= 3 with every
// content).  Containers (struct with 1-2 pointers, pointer list of 1-3,
// composite list with 1-2 pointers per element) hold children.
//
// To keep |U| polynomial the product is thinned the same way layouts are:
// a container with ONE non-null child takes that child from the full set of
// smaller trees; with TWO OR MORE non-null children each child comes from the
// slim set (one representative per kind).  Every kind of object therefore
// occurs in every kind of slot, and every pair of kinds occurs as siblings.
package ref

// UniverseConfig tunes the universe.
type UniverseConfig struct {
	MaxObjects int  // 1..5
	MaxDepth   int  // default 3
	Caps       bool // include capability pointers
}

// Universe returns U(n) including capabilities.
func Universe(n int) []Value {
	return UniverseWith(UniverseConfig{MaxObjects: n, MaxDepth: 3, Caps: true})
}

func pat(k int, c byte) []byte {
	w := make([]byte, 8)
	switch c {
	case 'P':
		for i := range w {
			w[i] = byte(8*k + i + 1)
		}
	case 'F':
		for i := range w {
			w[i] = 0xFF
		}
	}
	return w
}

// DataPattern builds a data section from a pattern string over {Z,P,F}.
func DataPattern(p string) []byte {
	var d []byte
	for k := 0; k < len(p); k++ {
		d = append(d, pat(k, p[k])...)
	}
	return d
}

var structData = []string{"", "Z", "P", "F", "ZZ", "PZ", "ZP", "PF", "FF"}

func seqBytes(n int, mode byte) []byte {
	b := make([]byte, n)
	for i := range b {
		switch mode {
		case 'S':
			b[i] = byte(i + 1)
		case 'F':
			b[i] = 0xFF
		case 'T': // text-like: sequence with a NUL terminator
			b[i] = byte('a' + i)
			if i == n-1 {
				b[i] = 0
			}
		}
	}
	return b
}

func nulls(n int) []Value { return make([]Value, n) }

// Leaves returns every childless object of the universe (structs and lists
// whose pointers, if any, are all null).
func Leaves() []Value {
	var out []Value
	for _, d := range structData {
		out = append(out, StructV(DataPattern(d)))
	}
	for _, s := range []struct {
		d  string
		pc int
	}{{"", 1}, {"P", 1}, {"", 2}, {"Z", 1}, {"PZ", 2}, {"ZP", 1}} {
		out = append(out, StructV(DataPattern(s.d), nulls(s.pc)...))
	}
	for n := 0; n <= 3; n++ {
		out = append(out, VoidListV(n))
	}
	for n := 0; n <= 3; n++ {
		for m := 0; m < 1<<uint(n); m++ {
			out = append(out, BitListRawV(n, []byte{byte(m)}))
		}
	}
	for _, b := range [][]byte{{0x00}, {0xFF}, {0x01}, {0x80}, {0xA5}} {
		out = append(out, BitListRawV(8, b))
	}
	for _, b := range [][]byte{{0x00, 0x00}, {0xFF, 0x01}, {0x00, 0x01}, {0x01, 0x00}, {0xAA, 0x00}} {
		out = append(out, BitListRawV(9, b))
	}
	out = append(out, BytesListV(ElemByte1, nil))
	for _, n := range []int{1, 2, 3, 7, 8, 9} {
		for _, m := range []byte{'S', 'Z', 'F'} {
			out = append(out, BytesListV(ElemByte1, seqBytes(n, m)))
		}
	}
	for _, n := range []int{3, 8, 9} {
		out = append(out, BytesListV(ElemByte1, seqBytes(n, 'T')))
	}
	for _, e := range []Elem{ElemByte2, ElemByte4, ElemByte8} {
		out = append(out, BytesListV(e, nil))
		for n := 1; n <= 3; n++ {
			for _, m := range []byte{'S', 'Z', 'F'} {
				out = append(out, BytesListV(e, seqBytes(n*e.ByteSize(), m)))
			}
		}
	}
	for n := 0; n <= 3; n++ {
		out = append(out, PtrListV(nulls(n)...))
	}
	// composite lists
	for n := 0; n <= 3; n++ {
		out = append(out, CompositeEmptyV(n))
	}
	comp := func(dw, pc int, pats ...string) Value {
		es := make([]Value, len(pats))
		for i, p := range pats {
			es[i] = StructV(DataPattern(p), nulls(pc)...)
		}
		return CompositeV(dw, pc, es...)
	}
	out = append(out, comp(1, 0))
	for _, ps := range [][]string{{"Z"}, {"P"}, {"F"}, {"Z", "Z"}, {"P", "Z"}, {"Z", "P"}, {"P", "P"}, {"F", "F"},
		{"Z", "Z", "Z"}, {"P", "P", "P"}, {"P", "Z", "P"}, {"Z", "Z", "P"}, {"P", "Z", "Z"}} {
		out = append(out, comp(1, 0, ps...))
	}
	out = append(out, comp(2, 0))
	for _, ps := range [][]string{{"PZ"}, {"ZP"}, {"PF"}, {"ZZ"}, {"PZ", "PZ"}, {"PZ", "ZP"}, {"PF", "ZZ"}, {"ZZ", "ZZ"}} {
		out = append(out, comp(2, 0, ps...))
	}
	for n := 0; n <= 2; n++ {
		ps := make([]string, n)
		out = append(out, comp(0, 1, ps...))
	}
	for _, ps := range [][]string{{"P"}, {"Z"}, {"P", "Z"}, {"Z", "P"}} {
		out = append(out, comp(1, 1, ps...))
	}
	out = append(out, comp(0, 2, ""))
	out = append(out, comp(2, 2, "PZ"))
	return out
}

// SlimLeaves returns one or two representatives of every kind of leaf.
func SlimLeaves() []Value {
	comp := func(dw, pc int, pats ...string) Value {
		es := make([]Value, len(pats))
		for i, p := range pats {
			es[i] = StructV(DataPattern(p), nulls(pc)...)
		}
		return CompositeV(dw, pc, es...)
	}
	return []Value{
		StructV(nil),
		StructV(DataPattern("P")),
		StructV(DataPattern("PZ"), nulls(1)...),
		VoidListV(2),
		BitListRawV(3, []byte{0x05}),
		BytesListV(ElemByte1, seqBytes(3, 'T')),
		BytesListV(ElemByte2, seqBytes(4, 'S')),
		BytesListV(ElemByte8, seqBytes(8, 'S')),
		PtrListV(nulls(2)...),
		BytesListV(ElemByte1, nil),
		comp(1, 0, "P", "Z"),
		comp(1, 1, "P"),
		CompositeEmptyV(2),
	}
}

// container is a template with pointer slots.
type container struct {
	slots int
	fill  func(kids []Value) Value
}

func containers(primaryOnly bool) []container {
	st := func(d string, pc int) container {
		return container{pc, func(k []Value) Value { return StructV(DataPattern(d), k...) }}
	}
	pl := func(n int) container {
		return container{n, func(k []Value) Value { return PtrListV(k...) }}
	}
	cl := func(d string, pc, n int) container {
		return container{pc * n, func(k []Value) Value {
			es := make([]Value, n)
			for i := range es {
				es[i] = StructV(DataPattern(d), k[i*pc:(i+1)*pc]...)
			}
			return CompositeV(len(d), pc, es...)
		}}
	}
	prim := []container{st("", 1), st("P", 2), pl(2), cl("P", 1, 2), cl("", 1, 1)}
	if primaryOnly {
		return prim
	}
	return append(prim, st("P", 1), st("Z", 1), st("", 2), st("PZ", 2), pl(1), pl(3), cl("", 1, 2), cl("P", 1, 1), cl("", 2, 1))
}

// UniverseWith builds the universe.
func UniverseWith(cfg UniverseConfig) []Value {
	if cfg.MaxDepth <= 0 {
		cfg.MaxDepth = 3
	}
	full := Leaves()
	slim := SlimLeaves()
	var out []Value
	out = append(out, NullV())
	if cfg.Caps {
		out = append(out, CapV(0), CapV(1))
	}
	out = append(out, full...)
	if cfg.MaxObjects < 2 || cfg.MaxDepth < 2 {
		return withCaps(out, cfg, slim)
	}
	all, prim := containers(false), containers(true)
	one := func(c container, pos int, kid Value) Value {
		k := nulls(c.slots)
		k[pos] = kid
		return c.fill(k)
	}
	// 2 objects: one child.  Primary containers x full leaves at the last
	// slot; all containers x slim leaves at every slot.
	var two []Value // slim 2-object trees, reused as children below
	for _, c := range prim {
		for _, l := range full {
			out = append(out, one(c, c.slots-1, l))
		}
	}
	for ci, c := range all {
		for pos := 0; pos < c.slots; pos++ {
			if ci < len(prim) && pos == c.slots-1 {
				continue
			}
			for _, l := range slim {
				out = append(out, one(c, pos, l))
			}
		}
	}
	for _, c := range prim {
		for _, l := range slim {
			two = append(two, one(c, c.slots-1, l))
		}
	}
	if cfg.MaxObjects >= 3 {
		// 3 objects, two siblings
		for _, c := range all {
			if c.slots < 2 {
				continue
			}
			for p := 0; p < c.slots; p++ {
				for q := p + 1; q < c.slots; q++ {
					for _, a := range slim {
						for _, b := range slim {
							k := nulls(c.slots)
							k[p], k[q] = a, b
							out = append(out, c.fill(k))
						}
					}
				}
			}
		}
		if cfg.MaxDepth >= 3 {
			// 3 objects, chain: container -> container -> leaf
			for _, c1 := range prim {
				for _, c2 := range prim {
					for _, l := range full {
						out = append(out, one(c1, c1.slots-1, one(c2, c2.slots-1, l)))
					}
				}
			}
			for _, c1 := range all[len(prim):] {
				for _, t := range two {
					out = append(out, one(c1, 0, t))
				}
			}
		}
	}
	if cfg.MaxObjects >= 4 {
		// 4 objects: three siblings; a chain next to a sibling
		pl3 := all[len(prim)+5] // pointer list of 3
		for _, a := range slim {
			for _, b := range slim {
				for _, c := range slim {
					out = append(out, pl3.fill([]Value{a, b, c}))
				}
			}
		}
		if cfg.MaxDepth >= 3 {
			for _, c := range all {
				if c.slots < 2 {
					continue
				}
				for _, t := range two {
					for _, s := range slim {
						k := nulls(c.slots)
						k[0], k[c.slots-1] = t, s
						out = append(out, c.fill(k))
						k = nulls(c.slots)
						k[0], k[c.slots-1] = s, t
						out = append(out, c.fill(k))
					}
				}
			}
		}
	}
	if cfg.MaxObjects >= 5 && cfg.MaxDepth >= 3 {
		// 5 objects: two 2-object subtrees as siblings
		for _, c := range prim {
			if c.slots < 2 {
				continue
			}
			for _, t1 := range two {
				for _, t2 := range two {
					k := nulls(c.slots)
					k[0], k[c.slots-1] = t1, t2
					out = append(out, c.fill(k))
				}
			}
		}
	}
	return withCaps(out, cfg, slim)
}

// withCaps appends the capability-bearing trees.
func withCaps(out []Value, cfg UniverseConfig, slim []Value) []Value {
	if !cfg.Caps {
		return out
	}
	c0, c1 := CapV(0), CapV(1)
	out = append(out,
		StructV(nil, c0), StructV(nil, c1), StructV(DataPattern("P"), c0, c1), StructV(nil, c0, c0),
		StructV(nil, NullV(), c1), StructV(nil, c1, NullV()),
		PtrListV(c0), PtrListV(c1), PtrListV(c0, NullV(), c1), PtrListV(c1, c0),
		CompositeV(0, 1, StructV(nil, c0), StructV(nil, c1)), CompositeV(0, 1, StructV(nil, c1), StructV(nil, c0)),
		CompositeV(1, 1, StructV(DataPattern("P"), c0)),
	)
	if cfg.MaxObjects >= 2 {
		for _, l := range slim {
			out = append(out, StructV(nil, l, c0), StructV(nil, c1, l), PtrListV(c0, l))
		}
		out = append(out, StructV(nil, StructV(nil, c0)), StructV(nil, StructV(nil, c1)), PtrListV(PtrListV(c0), c0))
	}
	return out
}
