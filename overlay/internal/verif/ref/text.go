package ref

// An independent parser for Cap'n Proto text-format *values* as printed by
// `capnp decode` / kj::str and accepted by the schema language for constants
// (language.html, "Constants" / value expressions):
//
//	value  := struct | list | string | data | number | ident
//	struct := '(' [ ident '=' value { ',' ident '=' value } ] ')'
//	list   := '[' [ value { ',' value } ] ']'
//	string := '"' { char | escape } '"'
//	           escape := \a \b \f \n \r \t \v \' \" \\ \? \xHH \OOO (1-3 octal digits)
//	data   := string | 0x"hex digits, blanks allowed"
//	number := [+-] ( 0x hex | digits [ . digits ] [ (e|E) [+-] digits ] )
//	ident  := letter { letter | digit | '_' }      (enumerants, void, true, false, inf, nan;
//	                                                inf / nan may carry a sign)
//
// Blanks (space, tab, CR, LF) and '#' comments are skipped between tokens.
// Some printers emit a marker in angle brackets (<...>) for values without a
// text form (capabilities, AnyPointer); it is returned as TextOpaque.
//
// Inside a string literal a raw control byte (< 0x20 or 0x7f), a raw '"' or
// an unknown escape is an error: such bytes must be escaped.  Raw bytes >=
// 0x80 are accepted (UTF-8 text is legal in a literal) and counted in RawHigh.
//
// This file imports nothing from the repository under test.

import (
	"errors"
	"fmt"
	"math"
	"strconv"
	"strings"
)

// TextKind is the syntactic class of a parsed value.
type TextKind int

const (
	TextStruct TextKind = iota
	TextList
	TextString
	TextNumber
	TextIdent
	TextOpaque
)

func (k TextKind) String() string {
	switch k {
	case TextStruct:
		return "struct"
	case TextList:
		return "list"
	case TextString:
		return "string"
	case TextNumber:
		return "number"
	case TextIdent:
		return "identifier"
	case TextOpaque:
		return "opaque-marker"
	}
	return "?"
}

// TextField is one `name = value` of a struct value.
type TextField struct {
	Name  string
	Value *TextValue
}

// TextValue is a parsed value.
type TextValue struct {
	Kind    TextKind
	Fields  []TextField  // TextStruct, in source order
	Elems   []*TextValue // TextList
	Bytes   []byte       // TextString: decoded bytes
	Hex     bool         // TextString: written as 0x"..."
	RawHigh int          // TextString: number of unescaped bytes >= 0x80
	Lit     string       // TextNumber / TextIdent (sign included) / TextOpaque (without brackets)
}

// Field returns the value of the named field and how often the name occurs.
func (v *TextValue) Field(name string) (*TextValue, int) {
	var found *TextValue
	n := 0
	for _, f := range v.Fields {
		if f.Name == name {
			if found == nil {
				found = f.Value
			}
			n++
		}
	}
	return found, n
}

type textParser struct {
	s     string
	i     int
	depth int
}

// ParseText parses exactly one value; anything but blanks after it is an error.
func ParseText(s string) (*TextValue, error) {
	p := &textParser{s: s}
	v, err := p.value()
	if err != nil {
		return nil, err
	}
	p.skip()
	if p.i != len(p.s) {
		return nil, p.errf("unexpected %q after the value", p.s[p.i])
	}
	return v, nil
}

func (p *textParser) errf(format string, a ...interface{}) error {
	return fmt.Errorf("text syntax error at byte %d: %s", p.i, fmt.Sprintf(format, a...))
}

func (p *textParser) skip() {
	for p.i < len(p.s) {
		switch c := p.s[p.i]; {
		case c == ' ' || c == '\t' || c == '\n' || c == '\r':
			p.i++
		case c == '#':
			for p.i < len(p.s) && p.s[p.i] != '\n' {
				p.i++
			}
		default:
			return
		}
	}
}

func txtIsLetter(c byte) bool { return c >= 'a' && c <= 'z' || c >= 'A' && c <= 'Z' || c == '_' }
func txtIsDigit(c byte) bool  { return c >= '0' && c <= '9' }
func txtHexVal(c byte) int {
	switch {
	case c >= '0' && c <= '9':
		return int(c - '0')
	case c >= 'a' && c <= 'f':
		return int(c-'a') + 10
	case c >= 'A' && c <= 'F':
		return int(c-'A') + 10
	}
	return -1
}

func (p *textParser) value() (*TextValue, error) {
	p.depth++
	defer func() { p.depth-- }()
	if p.depth > 2000 {
		return nil, p.errf("nesting too deep")
	}
	p.skip()
	if p.i >= len(p.s) {
		return nil, p.errf("unexpected end of input, value expected")
	}
	c := p.s[p.i]
	switch {
	case c == '(':
		return p.structValue()
	case c == '[':
		return p.listValue()
	case c == '"':
		return p.stringValue()
	case c == '<':
		j := strings.IndexByte(p.s[p.i:], '>')
		if j < 0 {
			return nil, p.errf("unterminated <...> marker")
		}
		v := &TextValue{Kind: TextOpaque, Lit: p.s[p.i+1 : p.i+j]}
		p.i += j + 1
		return v, nil
	case c == '0' && p.i+2 < len(p.s) && (p.s[p.i+1] == 'x' || p.s[p.i+1] == 'X') && p.s[p.i+2] == '"':
		return p.hexData()
	case c == '+' || c == '-' || txtIsDigit(c) || c == '.':
		return p.numberValue()
	case txtIsLetter(c):
		start := p.i
		for p.i < len(p.s) && (txtIsLetter(p.s[p.i]) || txtIsDigit(p.s[p.i])) {
			p.i++
		}
		return &TextValue{Kind: TextIdent, Lit: p.s[start:p.i]}, nil
	}
	return nil, p.errf("unexpected %q, value expected", c)
}

func (p *textParser) structValue() (*TextValue, error) {
	p.i++ // (
	v := &TextValue{Kind: TextStruct}
	p.skip()
	if p.i < len(p.s) && p.s[p.i] == ')' {
		p.i++
		return v, nil
	}
	for {
		p.skip()
		start := p.i
		if p.i >= len(p.s) || !txtIsLetter(p.s[p.i]) {
			return nil, p.errf("field name expected")
		}
		for p.i < len(p.s) && (txtIsLetter(p.s[p.i]) || txtIsDigit(p.s[p.i])) {
			p.i++
		}
		name := p.s[start:p.i]
		p.skip()
		if p.i >= len(p.s) || p.s[p.i] != '=' {
			return nil, p.errf("'=' expected after field name %q", name)
		}
		p.i++
		val, err := p.value()
		if err != nil {
			return nil, err
		}
		v.Fields = append(v.Fields, TextField{name, val})
		p.skip()
		if p.i >= len(p.s) {
			return nil, p.errf("unterminated struct value")
		}
		switch p.s[p.i] {
		case ',':
			p.i++
		case ')':
			p.i++
			return v, nil
		default:
			return nil, p.errf("',' or ')' expected in struct value, found %q", p.s[p.i])
		}
	}
}

func (p *textParser) listValue() (*TextValue, error) {
	p.i++ // [
	v := &TextValue{Kind: TextList}
	p.skip()
	if p.i < len(p.s) && p.s[p.i] == ']' {
		p.i++
		return v, nil
	}
	for {
		val, err := p.value()
		if err != nil {
			return nil, err
		}
		v.Elems = append(v.Elems, val)
		p.skip()
		if p.i >= len(p.s) {
			return nil, p.errf("unterminated list value")
		}
		switch p.s[p.i] {
		case ',':
			p.i++
		case ']':
			p.i++
			return v, nil
		default:
			return nil, p.errf("',' or ']' expected in list value, found %q", p.s[p.i])
		}
	}
}

func (p *textParser) stringValue() (*TextValue, error) {
	p.i++ // opening quote
	v := &TextValue{Kind: TextString, Bytes: []byte{}}
	for {
		if p.i >= len(p.s) {
			return nil, p.errf("unterminated string literal")
		}
		c := p.s[p.i]
		switch {
		case c == '"':
			p.i++
			return v, nil
		case c == '\\':
			p.i++
			if p.i >= len(p.s) {
				return nil, p.errf("unterminated escape sequence")
			}
			e := p.s[p.i]
			p.i++
			switch e {
			case 'a':
				v.Bytes = append(v.Bytes, 7)
			case 'b':
				v.Bytes = append(v.Bytes, 8)
			case 'f':
				v.Bytes = append(v.Bytes, 12)
			case 'n':
				v.Bytes = append(v.Bytes, 10)
			case 'r':
				v.Bytes = append(v.Bytes, 13)
			case 't':
				v.Bytes = append(v.Bytes, 9)
			case 'v':
				v.Bytes = append(v.Bytes, 11)
			case '\'', '"', '\\', '?':
				v.Bytes = append(v.Bytes, e)
			case 'x', 'X':
				if p.i+1 >= len(p.s) || txtHexVal(p.s[p.i]) < 0 || txtHexVal(p.s[p.i+1]) < 0 {
					return nil, p.errf("\\x needs two hex digits")
				}
				v.Bytes = append(v.Bytes, byte(txtHexVal(p.s[p.i])<<4|txtHexVal(p.s[p.i+1])))
				p.i += 2
			default:
				if e < '0' || e > '7' {
					return nil, p.errf("unknown escape sequence \\%c", e)
				}
				n := int(e - '0')
				for k := 0; k < 2 && p.i < len(p.s) && p.s[p.i] >= '0' && p.s[p.i] <= '7'; k++ {
					n = n*8 + int(p.s[p.i]-'0')
					p.i++
				}
				if n > 255 {
					return nil, p.errf("octal escape out of range")
				}
				v.Bytes = append(v.Bytes, byte(n))
			}
		case c < 0x20 || c == 0x7f:
			return nil, p.errf("unescaped control byte 0x%02x in string literal", c)
		default:
			if c >= 0x80 {
				v.RawHigh++
			}
			v.Bytes = append(v.Bytes, c)
			p.i++
		}
	}
}

func (p *textParser) hexData() (*TextValue, error) {
	p.i += 3 // 0x"
	v := &TextValue{Kind: TextString, Hex: true, Bytes: []byte{}}
	hi := -1
	for {
		if p.i >= len(p.s) {
			return nil, p.errf("unterminated hex data literal")
		}
		c := p.s[p.i]
		p.i++
		switch {
		case c == '"':
			if hi >= 0 {
				return nil, p.errf("odd number of hex digits in data literal")
			}
			return v, nil
		case c == ' ' || c == '\t' || c == '\n' || c == '\r':
		case txtHexVal(c) >= 0:
			if hi < 0 {
				hi = txtHexVal(c)
			} else {
				v.Bytes = append(v.Bytes, byte(hi<<4|txtHexVal(c)))
				hi = -1
			}
		default:
			return nil, p.errf("unexpected %q in hex data literal", c)
		}
	}
}

func (p *textParser) numberValue() (*TextValue, error) {
	start := p.i
	if p.s[p.i] == '+' || p.s[p.i] == '-' {
		p.i++
		if p.i < len(p.s) && txtIsLetter(p.s[p.i]) { // -inf, +Inf, -nan ...
			for p.i < len(p.s) && (txtIsLetter(p.s[p.i]) || txtIsDigit(p.s[p.i])) {
				p.i++
			}
			return &TextValue{Kind: TextIdent, Lit: p.s[start:p.i]}, nil
		}
	}
	d0 := p.i
	if p.i+1 < len(p.s) && p.s[p.i] == '0' && (p.s[p.i+1] == 'x' || p.s[p.i+1] == 'X') {
		p.i += 2
		h0 := p.i
		for p.i < len(p.s) && txtHexVal(p.s[p.i]) >= 0 {
			p.i++
		}
		if p.i == h0 {
			return nil, p.errf("hex digits expected")
		}
		return &TextValue{Kind: TextNumber, Lit: p.s[start:p.i]}, nil
	}
	for p.i < len(p.s) && txtIsDigit(p.s[p.i]) {
		p.i++
	}
	if p.i == d0 {
		return nil, p.errf("digits expected in number")
	}
	if p.i < len(p.s) && p.s[p.i] == '.' {
		p.i++
		f0 := p.i
		for p.i < len(p.s) && txtIsDigit(p.s[p.i]) {
			p.i++
		}
		if p.i == f0 {
			return nil, p.errf("digits expected after decimal point")
		}
	}
	if p.i < len(p.s) && (p.s[p.i] == 'e' || p.s[p.i] == 'E') {
		p.i++
		if p.i < len(p.s) && (p.s[p.i] == '+' || p.s[p.i] == '-') {
			p.i++
		}
		e0 := p.i
		for p.i < len(p.s) && txtIsDigit(p.s[p.i]) {
			p.i++
		}
		if p.i == e0 {
			return nil, p.errf("digits expected in exponent")
		}
	}
	if p.i < len(p.s) && (txtIsLetter(p.s[p.i]) || txtIsDigit(p.s[p.i])) {
		return nil, p.errf("malformed number")
	}
	return &TextValue{Kind: TextNumber, Lit: p.s[start:p.i]}, nil
}

// ---- interpretation helpers ----

var errTxtKind = errors.New("value is not a number")

// TextInt interprets v as a signed integer.
func TextInt(v *TextValue) (int64, error) {
	if v.Kind != TextNumber {
		return 0, errTxtKind
	}
	return strconv.ParseInt(v.Lit, 0, 64)
}

// TextUint interprets v as an unsigned integer.
func TextUint(v *TextValue) (uint64, error) {
	if v.Kind != TextNumber {
		return 0, errTxtKind
	}
	return strconv.ParseUint(strings.TrimPrefix(v.Lit, "+"), 0, 64)
}

// TextFloat interprets v as a floating point number of the given bit size.
// canonical reports whether inf / nan were spelled the way the reference
// implementation prints them ("inf", "-inf", "nan").
func TextFloat(v *TextValue, bits int) (f float64, canonical bool, err error) {
	switch v.Kind {
	case TextNumber:
		f, err = strconv.ParseFloat(v.Lit, bits)
		if err != nil {
			if ne, ok := err.(*strconv.NumError); ok && ne.Err == strconv.ErrRange {
				return f, true, fmt.Errorf("number %s out of range", v.Lit)
			}
			// hex integers etc.
			i, e2 := strconv.ParseInt(v.Lit, 0, 64)
			if e2 != nil {
				return 0, true, err
			}
			return float64(i), true, nil
		}
		return f, true, nil
	case TextIdent:
		lit := v.Lit
		neg := false
		if strings.HasPrefix(lit, "-") {
			neg, lit = true, lit[1:]
		} else if strings.HasPrefix(lit, "+") {
			lit = lit[1:]
		}
		switch strings.ToLower(lit) {
		case "inf", "infinity":
			f = math.Inf(1)
			if neg {
				f = math.Inf(-1)
			}
			return f, v.Lit == "inf" || v.Lit == "-inf", nil
		case "nan":
			return math.NaN(), v.Lit == "nan", nil
		}
	}
	return 0, true, errTxtKind
}
