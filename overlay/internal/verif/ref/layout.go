// layout.go — a spec ENCODER that enumerates layouts of a value tree.
//
//	DefaultLayout(v)      the default layout: one segment, pre-order, near
//	                      pointers, no padding, zero-sized structs at offset -1
//	Layouts(v, bound)     the default layout plus every layout that differs
//	                      from it by at most `bound` deviations (bound < 0: all
//	                      combinations); deterministic order, default first
//
// A Layout carries the segments, the exact tree a spec decoder must read from
// them (Decoded) and the list of deviations applied.  Decoded is Identical to
// v unless a reshaping deviation was applied (Reshaped): struct or composite
// element encoded with one extra trailing zero data word / null pointer (a
// newer-version writer), or a primitive list encoded as a composite list
// (list upgrade).  Decoded is always ValueEqual to v.
//
// Deviations (each counts 1; at most one per object and dimension):
//
//	edge   far       object in the parent's segment, reached through a far
//	                 pointer (landing pad right behind the object)
//	       far+1/+2  object (and, by default, its subtree) in segment
//	                 (parent's+1)%3 / (parent's+2)%3, far pointer
//	       dfar      object in the parent's segment, double-far pointer, pad in
//	                 segment (parent's+1)%3
//	       dfar+1    object in segment +1, pad in segment +2
//	       dfar+1p   object in segment +1, pad in the parent's segment
//	early  object allocated before all normally placed objects (gives negative
//	       near offsets)
//	gap    one unreferenced garbage word (0xAA..) in front of the object
//	extD   one extra trailing zero data word (struct / every composite element)
//	extP   one extra trailing null pointer   (struct / every composite element)
//	upg    void / 1,2,4,8-byte / pointer list encoded as composite list whose
//	       elements hold the value as sole field
//	dirty  garbage in the padding bytes of a byte list / unused bits and
//	       padding bytes of a bit list
//	zoff   zero-sized struct pointed to with its real offset instead of -1
//
// Segments that end up unused between used ones are emitted empty (legal).
package ref

import (
	"encoding/binary"
	"fmt"
)

// Layout is one encoding of a value.
type Layout struct {
	Segments [][]byte
	Decoded  Value    // what a spec decoder reads from Segments
	Devs     []string // deviations from the default layout, e.g. "o1:far+1"
	Reshaped bool     // Decoded is not Identical to the source value
}

// Desc renders the deviations.
func (l Layout) Desc() string {
	if len(l.Devs) == 0 {
		return "default"
	}
	return fmt.Sprint(l.Devs)
}

const (
	dimEdge = iota
	dimEarly
	dimGap
	dimExtD
	dimExtP
	dimUpg
	dimDirty
	dimZoff
	nDims
)

const (
	edgeNear = iota
	edgeFar
	edgeFar1
	edgeFar2
	edgeDfar
	edgeDfar1
	edgeDfar1p
	nEdges
)

var edgeNames = [...]string{"near", "far", "far+1", "far+2", "dfar", "dfar+1", "dfar+1p"}
var dimNames = [...]string{"edge", "early", "gap", "extD", "extP", "upg", "dirty", "zoff"}

type lslot struct {
	word  int   // word offset of the pointer inside the encoded object
	child int   // object index, or -1
	leaf  Value // null or cap when child == -1
}

type lobj struct {
	v      Value
	parent int // -1: the root pointer
	plan   [nDims]int

	// computed by shape()
	content []byte
	slots   []lslot
	desc    uint64
	// computed by place()
	seg, start     int
	padSeg, padOff int
}

type lbuilder struct {
	objs []*lobj
	root lslot
}

func (b *lbuilder) collect(v Value, parent int) lslot {
	if v.Kind != KindStruct && v.Kind != KindList {
		return lslot{child: -1, leaf: v}
	}
	id := len(b.objs)
	o := &lobj{v: v, parent: parent}
	b.objs = append(b.objs, o)
	return lslot{child: id}
}

// children registers the pointer children of object id in pre-order.  It is
// separate from collect so that ids are assigned in pre-order.
func (b *lbuilder) build(v Value, parent int) lslot {
	s := b.collect(v, parent)
	if s.child < 0 {
		return s
	}
	o := b.objs[s.child]
	switch v.Kind {
	case KindStruct:
		for _, p := range v.Ptrs {
			o.slots = append(o.slots, b.build(p, s.child))
		}
	case KindList:
		switch v.Elem {
		case ElemPtr:
			for _, p := range v.Elems {
				o.slots = append(o.slots, b.build(p, s.child))
			}
		case ElemComposite:
			for _, e := range v.Elems {
				for _, p := range e.Ptrs {
					o.slots = append(o.slots, b.build(p, s.child))
				}
			}
		}
	}
	return s
}

type lopt struct{ obj, dim, choice int }

func (b *lbuilder) options() []lopt {
	var out []lopt
	for i, o := range b.objs {
		v := o.v
		for e := 1; e < nEdges; e++ {
			out = append(out, lopt{i, dimEdge, e})
		}
		zero := v.Kind == KindStruct && len(v.Data) == 0 && len(v.Ptrs) == 0
		if !zero {
			out = append(out, lopt{i, dimEarly, 1})
		}
		out = append(out, lopt{i, dimGap, 1})
		if v.Kind == KindStruct || v.Elem == ElemComposite {
			out = append(out, lopt{i, dimExtD, 1}, lopt{i, dimExtP, 1})
		}
		if v.Kind == KindList {
			switch v.Elem {
			case ElemVoid, ElemByte1, ElemByte2, ElemByte4, ElemByte8, ElemPtr:
				out = append(out, lopt{i, dimUpg, 1})
			}
			switch v.Elem {
			case ElemBit:
				if v.N%64 != 0 {
					out = append(out, lopt{i, dimDirty, 1})
				}
			case ElemByte1, ElemByte2, ElemByte4:
				if v.N*v.Elem.ByteSize()%8 != 0 {
					out = append(out, lopt{i, dimDirty, 1})
				}
			}
		}
		if zero {
			out = append(out, lopt{i, dimZoff, 1})
		}
	}
	return out
}

// DefaultLayout returns the default layout of v.
func DefaultLayout(v Value) Layout {
	b := &lbuilder{}
	b.root = b.build(v, -1)
	l, ok := b.emit(nil)
	if !ok {
		panic("ref: default layout failed")
	}
	return l
}

// Layouts enumerates layouts of v; see the file comment.
func Layouts(v Value, bound int) []Layout {
	b := &lbuilder{}
	b.root = b.build(v, -1)
	opts := b.options()
	var out []Layout
	var chosen []lopt
	var rec func(from int)
	rec = func(from int) {
		if l, ok := b.emit(chosen); ok {
			out = append(out, l)
		}
		if bound >= 0 && len(chosen) >= bound {
			return
		}
		for k := from; k < len(opts); k++ {
			o := opts[k]
			clash := false
			for _, c := range chosen {
				if c.obj == o.obj && c.dim == o.dim {
					clash = true
					break
				}
			}
			if clash {
				continue
			}
			chosen = append(chosen, o)
			rec(k + 1)
			chosen = chosen[:len(chosen)-1]
		}
	}
	rec(0)
	return out
}

// CountLayouts returns len(Layouts(v, bound)) without keeping them.
func CountLayouts(v Value, bound int) int { return len(Layouts(v, bound)) }

func extendStruct(s Value, extD, extP bool) Value {
	r := Value{Kind: KindStruct, Data: append([]byte{}, s.Data...), Ptrs: append([]Value{}, s.Ptrs...)}
	if extD {
		r.Data = append(r.Data, make([]byte, 8)...)
	}
	if extP {
		r.Ptrs = append(r.Ptrs, Value{})
	}
	return r
}

// shaped returns the value object o is encoded as (children still the
// original ones), given its plan.
func (o *lobj) shaped() (Value, bool) {
	v := o.v
	extD, extP := o.plan[dimExtD] != 0, o.plan[dimExtP] != 0
	switch {
	case v.Kind == KindStruct:
		if extD || extP {
			return extendStruct(v, extD, extP), true
		}
		return v, false
	case v.Elem == ElemComposite:
		if !extD && !extP {
			return v, false
		}
		r := Value{Kind: KindList, Elem: ElemComposite, N: v.N, DW: v.DW, PC: v.PC}
		if extD {
			r.DW++
		}
		if extP {
			r.PC++
		}
		r.Elems = make([]Value, v.N)
		for i := 0; i < v.N; i++ {
			r.Elems[i] = extendStruct(v.ElemAt(i), extD, extP)
		}
		return r, true
	case o.plan[dimUpg] != 0:
		r := Value{Kind: KindList, Elem: ElemComposite, N: v.N}
		switch v.Elem {
		case ElemVoid:
			return r, true
		case ElemPtr:
			r.PC = 1
			r.Elems = make([]Value, v.N)
			for i := range r.Elems {
				r.Elems[i] = Value{Kind: KindStruct, Ptrs: []Value{v.Elems[i]}}
			}
			return r, true
		default:
			sz := v.Elem.ByteSize()
			r.DW = 1
			r.Elems = make([]Value, v.N)
			for i := range r.Elems {
				d := make([]byte, 8)
				copy(d, v.Raw[i*sz:(i+1)*sz])
				r.Elems[i] = Value{Kind: KindStruct, Data: d}
			}
			return r, true
		}
	}
	return v, false
}

// encode fills o.content / o.desc and re-targets o.slots' word offsets for
// the shaped value sv.
func (o *lobj) encode(sv Value) {
	dirty := o.plan[dimDirty] != 0
	k := 0 // index into o.slots (children in original order)
	setSlot := func(word int) {
		o.slots[k].word = word
		k++
	}
	switch sv.Kind {
	case KindStruct:
		dw, pc := len(sv.Data)/8, len(sv.Ptrs)
		o.content = make([]byte, 8*(dw+pc))
		copy(o.content, sv.Data)
		for i := 0; i < len(o.v.Ptrs); i++ {
			setSlot(dw + i)
		}
		o.desc = uint64(dw)<<32 | uint64(pc)<<48
	case KindList:
		switch sv.Elem {
		case ElemVoid:
			o.content = nil
			o.desc = 1 | uint64(sv.N)<<35
		case ElemBit, ElemByte1, ElemByte2, ElemByte4, ElemByte8:
			o.content = make([]byte, (len(sv.Raw)+7)/8*8)
			if dirty {
				for i := range o.content {
					o.content[i] = 0xAA
				}
			}
			copy(o.content, sv.Raw)
			if dirty && sv.Elem == ElemBit && sv.N%8 != 0 {
				o.content[len(sv.Raw)-1] |= 0xFF << uint(sv.N%8)
			}
			o.desc = 1 | uint64(sv.Elem)<<32 | uint64(sv.N)<<35
		case ElemPtr:
			o.content = make([]byte, 8*sv.N)
			for i := 0; i < sv.N; i++ {
				setSlot(i)
			}
			o.desc = 1 | uint64(ElemPtr)<<32 | uint64(sv.N)<<35
		case ElemComposite:
			ew := sv.DW + sv.PC
			o.content = make([]byte, 8*(1+sv.N*ew))
			binary.LittleEndian.PutUint64(o.content, uint64(uint32(sv.N)<<2)|uint64(sv.DW)<<32|uint64(sv.PC)<<48)
			// number of original (non-extension) pointers per element
			origPC := sv.PC
			if o.plan[dimExtP] != 0 {
				origPC--
			}
			if o.v.Elem == ElemVoid || (o.v.Elem != ElemPtr && o.v.Elem != ElemComposite) {
				origPC = 0
			}
			for i := 0; i < sv.N && ew > 0; i++ {
				es := 1 + i*ew
				copy(o.content[8*es:], sv.Elems[i].Data)
				for j := 0; j < origPC; j++ {
					setSlot(es + sv.DW + j)
				}
			}
			o.desc = 1 | uint64(ElemComposite)<<32 | uint64(sv.N*ew)<<35
		}
	}
	if k != len(o.slots) {
		panic(fmt.Sprintf("ref: layout slot bookkeeping: %d of %d", k, len(o.slots)))
	}
}

func off30(off int) uint64 { return uint64(uint32(int32(off)) << 2) }

// emit builds the layout for the chosen deviations; ok is false when the
// combination is not expressible (e.g. zoff with a resulting offset of 0 or
// -1, double-far to a zero-sized struct).
func (b *lbuilder) emit(chosen []lopt) (Layout, bool) {
	for _, o := range b.objs {
		o.plan = [nDims]int{}
	}
	var devs []string
	for _, c := range chosen {
		b.objs[c.obj].plan[c.dim] = c.choice
		if c.dim == dimEdge {
			devs = append(devs, fmt.Sprintf("o%d:%s", c.obj, edgeNames[c.choice]))
		} else {
			devs = append(devs, fmt.Sprintf("o%d:%s", c.obj, dimNames[c.dim]))
		}
	}
	reshaped := false
	shapedVals := make([]Value, len(b.objs))
	for i, o := range b.objs {
		sv, r := o.shaped()
		reshaped = reshaped || r
		shapedVals[i] = sv
		o.encode(sv)
		// segment assignment is top-down; parents precede children in b.objs
		ps := 0
		if o.parent >= 0 {
			ps = b.objs[o.parent].seg
		}
		o.padSeg = -1
		switch o.plan[dimEdge] {
		case edgeNear, edgeFar:
			o.seg = ps
		case edgeFar1:
			o.seg = (ps + 1) % 3
		case edgeFar2:
			o.seg = (ps + 2) % 3
		case edgeDfar:
			o.seg, o.padSeg = ps, (ps+1)%3
		case edgeDfar1:
			o.seg, o.padSeg = (ps+1)%3, (ps+2)%3
		case edgeDfar1p:
			o.seg, o.padSeg = (ps+1)%3, ps
		}
		zero := len(o.content) == 0 && sv.Kind == KindStruct
		if zero && o.plan[dimEdge] >= edgeDfar {
			return Layout{}, false // Decode declares this unspecified
		}
		if !zero && o.plan[dimZoff] != 0 {
			return Layout{}, false
		}
		if zero && o.plan[dimEarly] != 0 {
			return Layout{}, false
		}
	}
	var segs [3][]byte
	segs[0] = make([]byte, 8) // root pointer
	place := func(o *lobj) {
		s := o.seg
		if o.plan[dimGap] != 0 {
			segs[s] = append(segs[s], 0xAA, 0xAA, 0xAA, 0xAA, 0xAA, 0xAA, 0xAA, 0xAA)
		}
		o.start = len(segs[s]) / 8
		segs[s] = append(segs[s], o.content...)
		switch e := o.plan[dimEdge]; {
		case e == edgeFar || e == edgeFar1 || e == edgeFar2:
			o.padSeg = s
			o.padOff = len(segs[s]) / 8
			segs[s] = append(segs[s], make([]byte, 8)...)
		case e >= edgeDfar:
			o.padOff = len(segs[o.padSeg]) / 8
			segs[o.padSeg] = append(segs[o.padSeg], make([]byte, 16)...)
		}
	}
	for _, o := range b.objs {
		if o.plan[dimEarly] != 0 {
			place(o)
		}
	}
	for _, o := range b.objs {
		if o.plan[dimEarly] == 0 {
			place(o)
		}
	}
	put := func(seg, word int, w uint64) {
		binary.LittleEndian.PutUint64(segs[seg][8*word:], w)
	}
	ok := true
	var writeSlot func(seg, word int, s lslot)
	writeSlot = func(seg, word int, s lslot) {
		if s.child < 0 {
			switch s.leaf.Kind {
			case KindNull:
				put(seg, word, 0)
			case KindCap:
				put(seg, word, 3|uint64(s.leaf.Cap)<<32)
			}
			return
		}
		c := b.objs[s.child]
		switch e := c.plan[dimEdge]; {
		case e == edgeNear:
			off := c.start - (word + 1)
			if len(c.content) == 0 && c.desc&3 == 0 {
				if c.plan[dimZoff] == 0 {
					off = -1
				} else if off == 0 || off == -1 {
					ok = false
				}
			}
			put(seg, word, c.desc|off30(off))
		case e < edgeDfar:
			put(seg, word, 2|uint64(c.padOff)<<3|uint64(c.seg)<<32)
			put(c.seg, c.padOff, c.desc|off30(c.start-(c.padOff+1)))
		default:
			put(seg, word, 6|uint64(c.padOff)<<3|uint64(c.padSeg)<<32)
			put(c.padSeg, c.padOff, 2|uint64(c.start)<<3|uint64(c.seg)<<32)
			put(c.padSeg, c.padOff+1, c.desc)
		}
	}
	writeSlot(0, 0, b.root)
	for _, o := range b.objs {
		for _, s := range o.slots {
			writeSlot(o.seg, o.start+s.word, s)
		}
	}
	if !ok {
		return Layout{}, false
	}
	nseg := 1
	for _, o := range b.objs {
		if o.seg+1 > nseg {
			nseg = o.seg + 1
		}
		if o.padSeg+1 > nseg {
			nseg = o.padSeg + 1
		}
	}
	out := make([][]byte, nseg)
	for i := range out {
		out[i] = segs[i]
		if out[i] == nil {
			out[i] = []byte{}
		}
	}
	// the decoded tree: shaped values with children substituted bottom-up
	var dec func(s lslot) Value
	dec = func(s lslot) Value {
		if s.child < 0 {
			return s.leaf
		}
		o := b.objs[s.child]
		sv := shapedVals[s.child]
		k := 0
		next := func() Value { v := dec(o.slots[k]); k++; return v }
		switch sv.Kind {
		case KindStruct:
			r := Value{Kind: KindStruct, Data: sv.Data, Ptrs: make([]Value, len(sv.Ptrs))}
			for i := range o.v.Ptrs {
				r.Ptrs[i] = next()
			}
			return r
		case KindList:
			switch sv.Elem {
			case ElemPtr:
				r := sv
				r.Elems = make([]Value, sv.N)
				for i := range r.Elems {
					r.Elems[i] = next()
				}
				return r
			case ElemComposite:
				if sv.Elems == nil {
					return sv
				}
				r := sv
				r.Elems = make([]Value, sv.N)
				for i := range r.Elems {
					e := sv.Elems[i]
					ne := Value{Kind: KindStruct, Data: e.Data, Ptrs: make([]Value, len(e.Ptrs))}
					for j := range e.Ptrs {
						// extension pointers (null, no slot) stay null
						if k < len(o.slots) && o.slots[k].word == 1+i*(sv.DW+sv.PC)+sv.DW+j {
							ne.Ptrs[j] = next()
						}
					}
					r.Elems[i] = ne
				}
				return r
			}
		}
		return sv
	}
	return Layout{Segments: out, Decoded: dec(b.root), Devs: devs, Reshaped: reshaped}, true
}

// Presets are the named whole-tree layouts of Preset.
var Presets = []string{"default", "far", "skew", "upgrade"}

// Preset returns one named layout in which a deviation is applied to EVERY
// object it applies to (unlike Layouts, which bounds the number of
// deviations):
//
//	default  the default layout
//	far      every object in the segment after its parent's, far pointers;
//	         objects at depth 3 double-far (pad in the third segment)
//	skew     every struct / composite element with an extra zero data word
//	         and null pointer, a garbage word in front of every object,
//	         garbage in all list padding, objects allocated children-first
//	         where possible
//	upgrade  every void/byte/pointer list encoded as composite list; every
//	         other object reached through a same-segment far pointer
func Preset(v Value, name string) Layout { return PresetFrom(v, name, 0) }

// PresetFrom is Preset with the deviations applied only to the objects whose
// pre-order index is >= from (0 is the root object); the others keep the
// default layout.  Used to deviate a sub-object but not a wrapper around it.
func PresetFrom(v Value, name string, from int) Layout {
	b := &lbuilder{}
	b.root = b.build(v, -1)
	var chosen []lopt
	depth := make([]int, len(b.objs))
	for i, o := range b.objs {
		if o.parent >= 0 {
			depth[i] = depth[o.parent] + 1
		}
	}
	for _, o := range b.options() {
		if o.obj < from {
			continue
		}
		zero := b.objs[o.obj].v.Kind == KindStruct && len(b.objs[o.obj].v.Data) == 0 && len(b.objs[o.obj].v.Ptrs) == 0
		take := false
		switch name {
		case "far":
			if depth[o.obj] >= 2 && !zero {
				take = o.dim == dimEdge && o.choice == edgeDfar1
			} else {
				take = o.dim == dimEdge && o.choice == edgeFar1
			}
		case "skew":
			take = o.dim == dimExtD || o.dim == dimExtP || o.dim == dimGap || o.dim == dimDirty || (o.dim == dimEarly && o.obj > 0)
		case "upgrade":
			up := false
			if x := b.objs[o.obj].v; x.Kind == KindList {
				switch x.Elem {
				case ElemVoid, ElemByte1, ElemByte2, ElemByte4, ElemByte8, ElemPtr:
					up = true
				}
			}
			take = (up && o.dim == dimUpg) || (!up && o.dim == dimEdge && o.choice == edgeFar)
		}
		if take {
			chosen = append(chosen, o)
		}
	}
	l, ok := b.emit(chosen)
	if !ok {
		panic("ref: preset " + name + " not expressible for " + v.String())
	}
	return l
}
