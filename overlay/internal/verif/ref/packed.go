// Package ref holds independent reference implementations written from the
// Cap'n Proto specifications (encoding, packing, canonical form, text format).
// It imports nothing from the repository under test.
package ref

import "errors"

// ErrTruncated is returned by Unpack for input that ends inside a tag's
// bytes, before a run count, or inside a literal run.
var ErrTruncated = errors.New("ref: truncated packed input")

// Pack is the packing algorithm of encoding.html#packing, written for
// clarity.  len(src) must be a multiple of 8.
func Pack(src []byte) []byte {
	var out []byte
	nw := len(src) / 8
	w := 0
	for w < nw {
		word := src[w*8 : w*8+8]
		var tag byte
		var nz []byte
		for i, b := range word {
			if b != 0 {
				tag |= 1 << uint(i)
				nz = append(nz, b)
			}
		}
		out = append(out, tag)
		out = append(out, nz...)
		w++
		switch tag {
		case 0x00:
			n := 0
			for w+n < nw && n < 255 && isZero(src[(w+n)*8:(w+n)*8+8]) {
				n++
			}
			out = append(out, byte(n))
			w += n
		case 0xff:
			// A literal run of 0 words is always legal; the reference packer
			// does not try to be clever.
			out = append(out, 0)
		}
	}
	return out
}

func isZero(b []byte) bool {
	for _, x := range b {
		if x != 0 {
			return false
		}
	}
	return true
}

// Unpack decodes a packed byte string strictly by the spec.  It returns the
// words decoded so far together with ErrTruncated if the input ends anywhere
// but at a tag boundary.  where tells in which production the input ended.
func Unpack(src []byte) (out []byte, where string, err error) {
	i := 0
	for i < len(src) {
		tag := src[i]
		i++
		var word [8]byte
		for b := uint(0); b < 8; b++ {
			if tag&(1<<b) != 0 {
				if i >= len(src) {
					return out, "tagbytes", ErrTruncated
				}
				word[b] = src[i]
				i++
			}
		}
		out = append(out, word[:]...)
		switch tag {
		case 0x00:
			if i >= len(src) {
				return out, "zerocount", ErrTruncated
			}
			n := int(src[i])
			i++
			out = append(out, make([]byte, 8*n)...)
		case 0xff:
			if i >= len(src) {
				return out, "literalcount", ErrTruncated
			}
			n := int(src[i])
			i++
			if i+8*n > len(src) {
				return out, "literal", ErrTruncated
			}
			out = append(out, src[i:i+8*n]...)
			i += 8 * n
		}
	}
	return out, "", nil
}
