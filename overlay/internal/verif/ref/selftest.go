// selftest.go — the oracle checks itself, so that an error in ref shows up as
// an engine error (exit 2) instead of a verdict.
//
//	SelfTest() error        full self-test (about a second); pass as
//	                        vlib.Spec.SelfTest
//	SelfTestValue(v, bound) the per-value part, usable on any universe
package ref

import (
	"bytes"
	"fmt"
)

// SelfTestValue checks the ref invariants for one value and its layouts.
func SelfTestValue(v Value, bound int) error {
	var canon []byte
	var err error
	if !v.HasCap() {
		canon, err = Canonical(v)
		if err != nil {
			return fmt.Errorf("Canonical(%s): %v", v, err)
		}
		if err := IsCanonical(canon); err != nil {
			return fmt.Errorf("IsCanonical(Canonical(%s)): %v", v, err)
		}
		back, err := Decode([][]byte{canon})
		if err != nil {
			return fmt.Errorf("Decode(Canonical(%s)): %v", v, err)
		}
		if ValueEqual(back, v) != VEqual {
			return fmt.Errorf("Decode(Canonical(v)) not value-equal to v=%s: %s", v, back)
		}
		again, _ := Canonical(back)
		if !bytes.Equal(again, canon) {
			return fmt.Errorf("Canonical not idempotent for %s", v)
		}
	} else if _, err := Canonical(v); err == nil {
		return fmt.Errorf("Canonical accepts a capability in %s", v)
	}
	if ValueEqual(v, v) != VEqual || !Identical(v, v.Clone()) {
		return fmt.Errorf("ValueEqual/Identical not reflexive for %s", v)
	}
	ls := Layouts(v, bound)
	if len(ls) == 0 || len(ls[0].Devs) != 0 {
		return fmt.Errorf("Layouts(%s) does not start with the default layout", v)
	}
	for _, l := range ls {
		got, err := Decode(l.Segments)
		if err != nil {
			return fmt.Errorf("Decode(layout %s of %s): %v\n%s", l.Desc(), v, err, HexSegments(l.Segments))
		}
		if !Identical(got, l.Decoded) {
			return fmt.Errorf("Decode(layout %s of %s) = %s, layout says %s\n%s", l.Desc(), v, got, l.Decoded, HexSegments(l.Segments))
		}
		if l.Reshaped == Identical(got, v) {
			return fmt.Errorf("layout %s of %s: Reshaped=%v is wrong", l.Desc(), v, l.Reshaped)
		}
		if ValueEqual(got, v) != VEqual || ValueEqual(v, got) != VEqual {
			return fmt.Errorf("layout %s of %s decodes to %s which is not value-equal", l.Desc(), v, got)
		}
		segs, err := Unframe(Frame(l.Segments))
		if err != nil || len(segs) != len(l.Segments) {
			return fmt.Errorf("Unframe(Frame(layout %s of %s)): %v", l.Desc(), v, err)
		}
		for i := range segs {
			if !bytes.Equal(segs[i], l.Segments[i]) {
				return fmt.Errorf("Unframe(Frame()) changes segment %d", i)
			}
		}
		if canon != nil {
			upg := false
			for _, d := range l.Devs {
				if len(d) > 4 && d[len(d)-3:] == "upg" {
					upg = true
				}
			}
			c2, err := Canonical(got)
			if err != nil {
				return fmt.Errorf("Canonical(decoded layout): %v", err)
			}
			if !upg && !bytes.Equal(c2, canon) {
				return fmt.Errorf("Canonical differs between %s and its layout %s", v, l.Desc())
			}
		}
	}
	for _, name := range Presets {
		l := Preset(v, name)
		got, err := Decode(l.Segments)
		if err != nil || !Identical(got, l.Decoded) || ValueEqual(got, v) != VEqual {
			return fmt.Errorf("preset %s of %s: Decode = %s, %v; layout says %s\n%s", name, v, got, err, l.Decoded, HexSegments(l.Segments))
		}
	}
	// the default layout is what a conforming writer emits
	rep, err := Validate(ls[0].Segments)
	if err != nil {
		return fmt.Errorf("Validate(default layout of %s): %v", v, err)
	}
	if rep.DirtyPadding != 0 || rep.WordsUsed != rep.WordsTotal || !Identical(rep.Root, v) {
		return fmt.Errorf("Validate(default layout of %s): report %+v", v, rep)
	}
	if canon != nil {
		// the default layout of the truncated tree IS the canonical form
		back, _ := Decode([][]byte{canon})
		if d := DefaultLayout(back); len(d.Segments) != 1 || !bytes.Equal(d.Segments[0], canon) {
			return fmt.Errorf("default layout of the canonical tree of %s differs from Canonical", v)
		}
	}
	return nil
}

// SelfTest runs the self-test over U(3) (layout bound 1, all layouts for the
// leaves) and a set of hand-written vectors from the encoding spec.
func SelfTest() error {
	if err := selfTestVectors(); err != nil {
		return err
	}
	for _, v := range Leaves() {
		if err := SelfTestValue(v, -1); err != nil {
			return err
		}
	}
	u := Universe(3)
	for i, v := range u {
		b := 1
		if i%16 == 0 {
			b = 2
		}
		if err := SelfTestValue(v, b); err != nil {
			return err
		}
	}
	return nil
}

func wordsLE(ws ...uint64) []byte {
	b := make([]byte, 8*len(ws))
	for i, w := range ws {
		for k := 0; k < 8; k++ {
			b[8*i+k] = byte(w >> uint(8*k))
		}
	}
	return b
}

// selfTestVectors decodes messages written out by hand from the spec, so that
// Decode is not only checked against the encoder of the same package.
func selfTestVectors() error {
	type vec struct {
		name string
		segs [][]byte
		want Value
		bad  string // expected error class ("" = must decode)
	}
	P := DataPattern("P")
	vs := []vec{
		{"null root", [][]byte{wordsLE(0)}, NullV(), ""},
		{"empty struct", [][]byte{wordsLE(0xfffffffc)}, StructV(nil), ""},
		{"struct 1/1", [][]byte{wordsLE(0x0001000100000000, 0x0807060504030201, 0)}, StructV(P, NullV()), ""},
		{"struct out of bounds", [][]byte{wordsLE(0x0001000100000000, 1)}, Value{}, "struct-out-of-bounds"},
		{"negative offset", [][]byte{wordsLE(0x00000001fffffff8, 5)}, Value{}, "struct-out-of-bounds"},
		{"byte list 3", [][]byte{wordsLE(0x0000001a00000001, 0xAAAAAAAAAA030201)}, BytesListV(ElemByte1, []byte{1, 2, 3}), ""},
		{"bit list 3 with garbage", [][]byte{wordsLE(0x0000001900000001, 0xFFFFFFFFFFFFFFFD)}, BitListV(true, false, true), ""},
		{"void list max", [][]byte{wordsLE(0xfffffff800000001)}, VoidListV(1<<29 - 1), ""},
		{"u64 list", [][]byte{wordsLE(0x0000001500000001, 7, 9)}, BytesListV(ElemByte8, wordsLE(7, 9)), ""},
		{"pointer list", [][]byte{wordsLE(0x0000001600000001, 0, 0xfffffffc)}, PtrListV(NullV(), StructV(nil)), ""},
		{"composite 2x(1/0)", [][]byte{wordsLE(0x0000001700000001, 0x0000000100000008, 5, 6)},
			CompositeV(1, 0, StructV(wordsLE(5)), StructV(wordsLE(6))), ""},
		{"composite overrun", [][]byte{wordsLE(0x0000000f00000001, 0x0000000100000008, 5, 6)}, Value{}, "composite-overrun"},
		{"composite zero-size x 5", [][]byte{wordsLE(0x0000000700000001, 0x0000000000000014)}, CompositeEmptyV(5), ""},
		{"composite count 2^30-1", [][]byte{wordsLE(0x0000000700000001, 0x00000000fffffffc)}, Value{}, "composite-count-ge-2^29"},
		{"capability", [][]byte{wordsLE(0x0000000700000003)}, CapV(7), ""},
		{"other kind", [][]byte{wordsLE(0x0000000700000007)}, Value{}, "other-pointer-unknown"},
		{"far", [][]byte{wordsLE(0x000000010000000a), wordsLE(0x0807060504030201, 0x00000001fffffff8)}, StructV(P), ""},
		{"far pad out of bounds", [][]byte{wordsLE(0x0000000100000012), wordsLE(0x0807060504030201, 0x00000001fffffff8)}, Value{}, "far-pad-out-of-bounds"},
		{"far bad segment", [][]byte{wordsLE(0x000000020000000a), wordsLE(0, 0)}, Value{}, "far-bad-segment"},
		{"far to far", [][]byte{wordsLE(0x0000000100000002), wordsLE(0x0000000100000002)}, Value{}, "far-pad-is-far"},
		{"double far", [][]byte{wordsLE(0x0000000100000006), wordsLE(0x0000000200000002, 0x0000000100000000), wordsLE(0x0807060504030201)}, StructV(P), ""},
		{"double far tag offset", [][]byte{wordsLE(0x0000000100000006), wordsLE(0x0000000200000002, 0x0000000100000004), wordsLE(0x0807060504030201)}, Value{}, "dfar-tag-offset"},
		{"double far pad cut", [][]byte{wordsLE(0x0000000100000006), wordsLE(0x0000000200000002), wordsLE(0x0807060504030201)}, Value{}, "dfar-pad-out-of-bounds"},
		{"double far first word double", [][]byte{wordsLE(0x0000000100000006), wordsLE(0x0000000200000006, 0x0000000100000000), wordsLE(1)}, Value{}, "dfar-pad-first-not-far"},
		{"no root", [][]byte{{}}, Value{}, "no-root"},
	}
	for _, v := range vs {
		got, err := Decode(v.segs)
		if v.bad != "" {
			if ErrClass(err) != v.bad {
				return fmt.Errorf("vector %q: want error class %s, got value %s err %v", v.name, v.bad, got, err)
			}
			continue
		}
		if err != nil || !Identical(got, v.want) {
			return fmt.Errorf("vector %q: got %s, %v; want %s", v.name, got, err, v.want)
		}
	}
	// canonical vectors: struct{data P,Z; ptrs: [text "ab", null]} truncates to 1/1
	c, err := Canonical(StructV(DataPattern("PZ"), BytesListV(ElemByte1, []byte{'a', 'b', 0}), NullV()))
	want := wordsLE(0x0001000100000000, 0x0807060504030201, 0x0000001a00000001, 0x0000000000006261)
	if err != nil || !bytes.Equal(c, want) {
		return fmt.Errorf("canonical vector: got %x want %x (%v)", c, want, err)
	}
	// composite list: elements [P,Z | null] [Z,Z | null] -> element size 1/0
	c, _ = Canonical(CompositeV(2, 1, StructV(DataPattern("PZ"), NullV()), StructV(DataPattern("ZZ"), NullV())))
	want = wordsLE(0x0000001700000001, 0x0000000100000008, 0x0807060504030201, 0)
	if !bytes.Equal(c, want) {
		return fmt.Errorf("canonical composite vector: got %x want %x", c, want)
	}
	if IsCanonical(wordsLE(0x0000000100000000, 0)) == nil {
		return fmt.Errorf("IsCanonical accepts an untruncated struct")
	}
	if IsCanonical(wordsLE(0x0000000100000004, 0xAA, 1)) == nil {
		return fmt.Errorf("IsCanonical accepts a gap")
	}
	if IsCanonical(wordsLE(0x0000001900000001, 0xFD)) == nil {
		return fmt.Errorf("IsCanonical accepts non-zero bit padding")
	}
	// ValueEqual spot checks of the documented rules
	eq := func(a, b Value, want Verdict, what string) error {
		if got := ValueEqual(a, b); got != want {
			return fmt.Errorf("ValueEqual %s: got %v want %v", what, got, want)
		}
		if got := ValueEqual(b, a); got != want {
			return fmt.Errorf("ValueEqual %s (swapped): got %v want %v", what, got, want)
		}
		return nil
	}
	for _, e := range []error{
		eq(StructV(DataPattern("PZ"), NullV()), StructV(DataPattern("P")), VEqual, "zero extension"),
		eq(StructV(DataPattern("PF")), StructV(DataPattern("P")), VNotEqual, "non-zero extra word"),
		eq(BitListV(true, false, true), BitListV(true, true, true), VNotEqual, "bit lists"),
		eq(BitListV(false, false), VoidListV(2), VNotEqual, "bit vs void"),
		eq(BitListV(), VoidListV(0), VUnspecified, "empty bit vs empty void"),
		eq(BytesListV(ElemByte2, []byte{5, 0}), CompositeV(1, 0, StructV(wordsLE(5))), VEqual, "primitive vs struct list"),
		eq(BytesListV(ElemByte2, []byte{5, 0}), CompositeV(1, 0, StructV(wordsLE(0x10005))), VNotEqual, "primitive vs struct list with extra"),
		eq(BytesListV(ElemByte1, []byte{5}), BytesListV(ElemByte2, []byte{5, 0}), VNotEqual, "u8 vs u16 list"),
		eq(PtrListV(StructV(nil)), CompositeV(0, 1, StructV(nil, StructV(nil))), VEqual, "pointer vs struct list"),
		eq(NullV(), StructV(nil), VNotEqual, "null vs empty struct"),
		eq(CapV(1), CapV(1), VEqual, "cap"),
	} {
		if e != nil {
			return e
		}
	}
	return nil
}
