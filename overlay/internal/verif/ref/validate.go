// validate.go — structural conformance of a produced message (what a WRITER
// must emit), and the stream framing (segment table).
//
//	Validate(segments)  → (*Report, error)
//	Frame(segments)     → []byte            segment table + segments
//	Unframe(b)          → ([][]byte, error) strict inverse of Frame
//
// Validate decodes like Decode and additionally demands: composite list
// pointer word count == element count x element words; zero-sized struct
// pointers use offset -1 (and are near pointers); objects reached through
// different pointers are either the very same extent (aliasing, counted in
// Report.Aliased) or disjoint — partial overlap is an error; landing pads do
// not overlap objects.  The Report lists every extent, the decoded root and
// the number of primitive lists whose padding is not zero (DirtyPadding; a
// writer that zero-fills its allocations produces 0).
package ref

import (
	"encoding/binary"
	"sort"
)

// Report is the result of Validate.
type Report struct {
	Root         Value
	Extents      []Extent // every object and landing pad, in decode order
	Aliased      int      // extents reached more than once (identical range)
	DirtyPadding int      // primitive lists with non-zero padding bits/bytes
	WordsUsed    int      // words covered by extents plus the root pointer
	WordsTotal   int
}

// Validate checks that segments form a message a conforming writer may emit.
func Validate(segments [][]byte) (*Report, error) {
	var ext []Extent
	d := newDecoder(segments, DecodeOptions{})
	d.strict = true
	d.extents = &ext
	root, err := d.root()
	if err != nil {
		return nil, err
	}
	rep := &Report{Root: root, Extents: ext, DirtyPadding: d.dirtyPad}
	for _, s := range segments {
		rep.WordsTotal += len(s) / 8
	}
	sorted := append([]Extent{{Seg: 0, Start: 0, End: 1, Kind: "root"}}, ext...)
	sort.SliceStable(sorted, func(i, j int) bool {
		a, b := sorted[i], sorted[j]
		if a.Seg != b.Seg {
			return a.Seg < b.Seg
		}
		if a.Start != b.Start {
			return a.Start < b.Start
		}
		return a.End < b.End
	})
	var prev *Extent
	for i := range sorted {
		e := &sorted[i]
		if prev != nil && prev.Seg == e.Seg {
			if prev.Start == e.Start && prev.End == e.End && prev.Kind == e.Kind {
				rep.Aliased++
				continue
			}
			if e.Start < prev.End {
				return nil, invalid("objects-overlap", "%s words [%d,%d) and %s words [%d,%d) of segment %d overlap", prev.Kind, prev.Start, prev.End, e.Kind, e.Start, e.End, e.Seg)
			}
		}
		rep.WordsUsed += e.End - e.Start
		prev = e
	}
	return rep, nil
}

// Frame prepends the stream segment table: (count-1) as uint32, each segment
// size in words as uint32, padded with one zero uint32 to a word boundary.
func Frame(segments [][]byte) []byte {
	n := len(segments)
	hdr := make([]byte, 0, 8*(n/2+1))
	put := func(v uint32) { hdr = append(hdr, byte(v), byte(v>>8), byte(v>>16), byte(v>>24)) }
	put(uint32(n - 1))
	for _, s := range segments {
		put(uint32(len(s) / 8))
	}
	if n%2 == 0 {
		put(0)
	}
	for _, s := range segments {
		hdr = append(hdr, s...)
	}
	return hdr
}

// Unframe splits a framed message; the input must be exactly one message.
func Unframe(b []byte) ([][]byte, error) {
	if len(b) < 8 {
		return nil, invalid("frame-short", "%d bytes", len(b))
	}
	n := int64(binary.LittleEndian.Uint32(b)) + 1
	hdrLen := 8 * (n/2 + 1)
	if int64(len(b)) < hdrLen {
		return nil, invalid("frame-short", "segment table of %d segments needs %d bytes, have %d", n, hdrLen, len(b))
	}
	if n%2 == 0 && binary.LittleEndian.Uint32(b[4+4*n:]) != 0 {
		return nil, invalid("frame-padding", "segment table padding is not zero")
	}
	segs := make([][]byte, n)
	off := hdrLen
	for i := int64(0); i < n; i++ {
		sz := 8 * int64(binary.LittleEndian.Uint32(b[4+4*i:]))
		if off+sz > int64(len(b)) {
			return nil, invalid("frame-short", "segment %d (%d bytes) runs past the end", i, sz)
		}
		segs[i] = b[off : off+sz : off+sz]
		off += sz
	}
	if off != int64(len(b)) {
		return nil, invalid("frame-trailing", "%d bytes after the last segment", int64(len(b))-off)
	}
	return segs, nil
}
