// decode.go — strict decoder of the Cap'n Proto message encoding, written
// from https://capnproto.org/encoding.html.
//
//	Decode(segments)                 → (Value, error)   default limits
//	DecodeWith(segments, options)    → (Value, error)
//
// segments[i] is the content of segment i (no segment table); the root
// pointer is word 0 of segment 0.  Errors are *DecodeError.  An error with
// Unspecified == true means "this oracle declines to judge" (the spec does
// not clearly say whether the input is valid, or one of the decoder's own
// resource limits was hit): callers must not treat such input as valid NOR as
// invalid.  All other errors mean the message is not spec-valid.
//
// What is accepted (and nothing else):
//   - null pointer (all-zero word);
//   - struct pointer A=0: target [start, start+dw+pc) inside the segment
//     (a zero-sized struct may sit anywhere in [0, len], conventionally -1);
//   - list pointer A=1, C=0..6: content (rounded up to words) inside the
//     segment; C=7: tag word + D content words inside the segment, tag is a
//     struct-shaped word whose B field is the element count (30 bit,
//     unsigned), count*(dw+pc) <= D;
//   - far pointer A=2, B=0: landing pad word inside the named segment holding
//     a struct or list pointer relative to the pad;
//   - far pointer A=2, B=1 (double far): two-word pad inside the named
//     segment: a B=0 far pointer to the object start, then a struct/list tag
//     with zero offset;
//   - capability pointer A=3 with bits 2..31 zero.
//
// Declared Unspecified: single-far landing pad that is null or a capability
// pointer; double-far pointer whose tag is the all-zero word (a zero-sized
// struct by the letter of the spec, never produced by any writer); composite tag count >= 2^29; nesting deeper than MaxDepth; more
// than MaxNodes pointers decoded (DAG/cycle amplification).
package ref

import (
	"encoding/binary"
	"fmt"
)

// DecodeError is the error type of Decode and Validate.
type DecodeError struct {
	Unspecified bool   // the oracle declines to judge
	Class       string // short stable class, e.g. "struct-out-of-bounds"
	Msg         string
}

func (e *DecodeError) Error() string {
	if e.Unspecified {
		return "ref: unspecified: " + e.Class + ": " + e.Msg
	}
	return "ref: invalid: " + e.Class + ": " + e.Msg
}

// IsUnspecified reports whether err is a DecodeError with Unspecified set.
func IsUnspecified(err error) bool {
	de, ok := err.(*DecodeError)
	return ok && de.Unspecified
}

// ErrClass returns the Class of a DecodeError ("" for other errors).
func ErrClass(err error) string {
	if de, ok := err.(*DecodeError); ok {
		return de.Class
	}
	return ""
}

func invalid(class, format string, a ...interface{}) error {
	return &DecodeError{Class: class, Msg: fmt.Sprintf(format, a...)}
}

func unspecified(class, format string, a ...interface{}) error {
	return &DecodeError{Unspecified: true, Class: class, Msg: fmt.Sprintf(format, a...)}
}

// DecodeOptions bounds the decoder's own resource use.
type DecodeOptions struct {
	MaxDepth int // pointer nesting (default 256)
	MaxNodes int // pointers decoded (default 1<<20)
}

// Extent is the storage of one object: words [Start, End) of segment Seg.
// Landing pads are reported with Kind "pad".
type Extent struct {
	Seg, Start, End int
	Kind            string // "struct" | "list" | "pad"
}

type decoder struct {
	segs     [][]byte
	maxDepth int
	maxNodes int
	nodes    int
	strict   bool      // Validate: additionally demand what a writer must produce
	extents  *[]Extent // optional collector
	dirtyPad int       // lists with non-zero padding (counted when extents != nil)
}

// Decode decodes the message with generous limits.
func Decode(segments [][]byte) (Value, error) {
	return DecodeWith(segments, DecodeOptions{})
}

// DecodeWith decodes the message.
func DecodeWith(segments [][]byte, o DecodeOptions) (Value, error) {
	d := newDecoder(segments, o)
	return d.root()
}

func newDecoder(segments [][]byte, o DecodeOptions) *decoder {
	d := &decoder{segs: segments, maxDepth: o.MaxDepth, maxNodes: o.MaxNodes}
	if d.maxDepth <= 0 {
		d.maxDepth = 256
	}
	if d.maxNodes <= 0 {
		d.maxNodes = 1 << 20
	}
	return d
}

func (d *decoder) root() (Value, error) {
	for i, s := range d.segs {
		if len(s)%8 != 0 {
			return Value{}, invalid("segment-not-word-aligned", "segment %d has %d bytes", i, len(s))
		}
	}
	if len(d.segs) == 0 || len(d.segs[0]) < 8 {
		return Value{}, invalid("no-root", "segment 0 has no root pointer word")
	}
	return d.pointer(0, 0, 0)
}

func (d *decoder) words(seg int) int64 { return int64(len(d.segs[seg]) / 8) }

func (d *decoder) word(seg int, w int64) uint64 {
	return binary.LittleEndian.Uint64(d.segs[seg][8*w:])
}

func (d *decoder) note(seg int, start, end int64, kind string) {
	if d.extents != nil {
		*d.extents = append(*d.extents, Extent{Seg: seg, Start: int(start), End: int(end), Kind: kind})
	}
}

// pointer decodes the pointer stored in word w of segment seg.
func (d *decoder) pointer(seg int, w int64, depth int) (Value, error) {
	d.nodes++
	if d.nodes > d.maxNodes {
		return Value{}, unspecified("too-many-nodes", "more than %d pointers decoded", d.maxNodes)
	}
	p := d.word(seg, w)
	if p == 0 {
		return Value{}, nil
	}
	switch p & 3 {
	case 0, 1:
		off := int64(int32(uint32(p)) >> 2)
		if d.strict && p>>32 == 0 && p&3 == 0 && off != -1 {
			return Value{}, invalid("zero-struct-offset", "zero-sized struct pointer with offset %d instead of -1", off)
		}
		return d.object(seg, w+1+off, p, depth)
	case 2:
		padOff := int64(uint32(p) >> 3)
		padSeg := int64(p >> 32)
		if padSeg >= int64(len(d.segs)) {
			return Value{}, invalid("far-bad-segment", "far pointer names segment %d of %d", padSeg, len(d.segs))
		}
		ps := int(padSeg)
		if p&4 == 0 {
			// single far: one-word landing pad in the object's segment
			if padOff+1 > d.words(ps) {
				return Value{}, invalid("far-pad-out-of-bounds", "landing pad word %d outside segment %d (%d words)", padOff, ps, d.words(ps))
			}
			pad := d.word(ps, padOff)
			switch {
			case pad == 0:
				return Value{}, unspecified("far-pad-null", "landing pad of a far pointer is null")
			case pad&3 == 2:
				return Value{}, invalid("far-pad-is-far", "landing pad of a far pointer is itself a far pointer")
			case pad&3 == 3:
				return Value{}, unspecified("far-pad-other", "landing pad of a far pointer is a capability/other pointer")
			}
			d.note(ps, padOff, padOff+1, "pad")
			off := int64(int32(uint32(pad)) >> 2)
			return d.object(ps, padOff+1+off, pad, depth)
		}
		// double far: two-word landing pad anywhere
		if padOff+2 > d.words(ps) {
			return Value{}, invalid("dfar-pad-out-of-bounds", "double-far landing pad words %d..%d outside segment %d (%d words)", padOff, padOff+1, ps, d.words(ps))
		}
		far := d.word(ps, padOff)
		tag := d.word(ps, padOff+1)
		if far&7 != 2 {
			return Value{}, invalid("dfar-pad-first-not-far", "first landing pad word %#x is not a (single) far pointer", far)
		}
		if tag&3 > 1 {
			return Value{}, invalid("dfar-tag-kind", "second landing pad word %#x is not a struct or list pointer", tag)
		}
		if uint32(tag)>>2 != 0 {
			return Value{}, invalid("dfar-tag-offset", "second landing pad word %#x has a non-zero offset", tag)
		}
		if tag == 0 {
			return Value{}, unspecified("dfar-zero-struct", "double-far pointer whose tag describes a zero-sized struct (the tag is the null word)")
		}
		tseg := int64(far >> 32)
		if tseg >= int64(len(d.segs)) {
			return Value{}, invalid("far-bad-segment", "double-far landing pad names segment %d of %d", tseg, len(d.segs))
		}
		d.note(ps, padOff, padOff+2, "pad")
		return d.object(int(tseg), int64(uint32(far)>>3), tag, depth)
	default:
		if uint32(p)>>2 != 0 {
			return Value{}, invalid("other-pointer-unknown", "pointer %#x has kind 3 with non-zero type bits", p)
		}
		return Value{Kind: KindCap, Cap: uint32(p >> 32)}, nil
	}
}

// object decodes the struct or list described by desc (a struct/list pointer
// word whose offset field is ignored) that starts at word start of seg.
func (d *decoder) object(seg int, start int64, desc uint64, depth int) (Value, error) {
	if depth >= d.maxDepth {
		return Value{}, unspecified("too-deep", "nesting deeper than %d", d.maxDepth)
	}
	n := d.words(seg)
	if desc&3 == 0 {
		dw := int64(uint16(desc >> 32))
		pc := int64(uint16(desc >> 48))
		if start < 0 || start+dw+pc > n {
			return Value{}, invalid("struct-out-of-bounds", "struct words [%d,%d) outside segment %d (%d words)", start, start+dw+pc, seg, n)
		}
		if dw+pc > 0 {
			d.note(seg, start, start+dw+pc, "struct")
		}
		v := Value{Kind: KindStruct, Data: append([]byte{}, d.segs[seg][8*start:8*(start+dw)]...), Ptrs: make([]Value, pc)}
		for i := int64(0); i < pc; i++ {
			c, err := d.pointer(seg, start+dw+i, depth+1)
			if err != nil {
				return Value{}, err
			}
			v.Ptrs[i] = c
		}
		return v, nil
	}
	code := Elem(desc >> 32 & 7)
	cnt := int64(desc >> 35)
	v := Value{Kind: KindList, Elem: code}
	var wordsNeeded int64
	switch code {
	case ElemVoid:
		wordsNeeded = 0
	case ElemBit:
		wordsNeeded = (cnt + 63) / 64
	case ElemByte1, ElemByte2, ElemByte4, ElemByte8:
		wordsNeeded = (cnt*int64(code.ByteSize()) + 7) / 8
	case ElemPtr:
		wordsNeeded = cnt
	case ElemComposite:
		wordsNeeded = cnt + 1
	}
	if start < 0 || start+wordsNeeded > n {
		return Value{}, invalid("list-out-of-bounds", "list (%s) words [%d,%d) outside segment %d (%d words)", code, start, start+wordsNeeded, seg, n)
	}
	if wordsNeeded > 0 {
		d.note(seg, start, start+wordsNeeded, "list")
	}
	switch code {
	case ElemVoid:
		v.N = int(cnt)
	case ElemBit:
		v.N = int(cnt)
		nb := (cnt + 7) / 8
		v.Raw = append([]byte{}, d.segs[seg][8*start:8*start+nb]...)
		if cnt%8 != 0 {
			v.Raw[nb-1] &= byte(1<<uint(cnt%8)) - 1
		}
		if d.extents != nil {
			d.padding(seg, 8*start+nb, cnt%8)
		}
	case ElemByte1, ElemByte2, ElemByte4, ElemByte8:
		v.N = int(cnt)
		nb := cnt * int64(code.ByteSize())
		v.Raw = append([]byte{}, d.segs[seg][8*start:8*start+nb]...)
		if d.extents != nil {
			d.padding(seg, 8*start+nb, 0)
		}
	case ElemPtr:
		v.N = int(cnt)
		v.Elems = make([]Value, cnt)
		for i := int64(0); i < cnt; i++ {
			c, err := d.pointer(seg, start+i, depth+1)
			if err != nil {
				return Value{}, err
			}
			v.Elems[i] = c
		}
	case ElemComposite:
		tag := d.word(seg, start)
		if tag&3 != 0 {
			return Value{}, invalid("composite-tag-kind", "composite list tag %#x is not struct-shaped", tag)
		}
		ec := int64(uint32(tag) >> 2)
		dw := int64(uint16(tag >> 32))
		pc := int64(uint16(tag >> 48))
		if ec >= 1<<29 {
			return Value{}, unspecified("composite-count-ge-2^29", "composite tag element count %d", ec)
		}
		if ec*(dw+pc) > cnt {
			return Value{}, invalid("composite-overrun", "composite list: %d elements of %d words exceed the %d words of the pointer", ec, dw+pc, cnt)
		}
		if d.strict && ec*(dw+pc) != cnt {
			return Value{}, invalid("composite-word-count", "composite list: pointer says %d words, tag says %d x %d", cnt, ec, dw+pc)
		}
		v.N, v.DW, v.PC = int(ec), int(dw), int(pc)
		if dw+pc > 0 {
			v.Elems = make([]Value, ec)
			for i := int64(0); i < ec; i++ {
				es := start + 1 + i*(dw+pc)
				e := Value{Kind: KindStruct, Data: append([]byte{}, d.segs[seg][8*es:8*(es+dw)]...), Ptrs: make([]Value, pc)}
				for j := int64(0); j < pc; j++ {
					c, err := d.pointer(seg, es+dw+j, depth+1)
					if err != nil {
						return Value{}, err
					}
					e.Ptrs[j] = c
				}
				v.Elems[i] = e
			}
		}
	}
	return v, nil
}

// padding counts non-zero padding of a primitive list whose content ends at
// byte byteEnd of seg (remBits = used bits of the last content byte, 0 if it
// is fully used).  Readers must ignore padding, so this is only reported (by
// Validate), never an error.
func (d *decoder) padding(seg int, byteEnd int64, remBits int64) {
	s := d.segs[seg]
	if remBits != 0 && s[byteEnd-1]>>uint(remBits) != 0 {
		d.dirtyPad++
	}
	for i := byteEnd; i%8 != 0; i++ {
		if s[i] != 0 {
			d.dirtyPad++
			break
		}
	}
}
