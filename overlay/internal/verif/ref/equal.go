// equal.go — the documented equality of capnp.Equal, transcribed, and the
// struct copy version rule.
//
//	ValueEqual(a, b)               → Verdict, capabilities equal iff same index
//	ValueEqualCaps(a, b, capEq)    → Verdict, capabilities compared by capEq
//	Truncate(v, dw, pc)            → struct v copied into a struct with dw data
//	                                 words and pc pointers
//
// The rules (doc comment of capnp.Equal):
//
//   - Two structs are equal iff all of their fields are equal; if one has more
//     fields than the other, the extra fields must all be zero (data
//     zero-extended, missing pointers null).
//   - Two lists are equal iff they have the same length and corresponding
//     elements are equal.  If one is a list of primitives and the other a list
//     of structs, the primitive list is treated as a list of structs with the
//     element value as the sole field.
//   - Two interfaces are equal iff they are the same capability.
//   - Two null pointers are equal.
//   - All other combinations are not equal.
//
// The verdict is three-valued.  VUnspecified is returned (and must not be
// judged) where the text does not decide and nothing else in the two trees
// already makes them unequal:
//
//   - two EMPTY lists of different non-composite element kinds ("same length
//     and corresponding elements equal" holds vacuously, "other combinations
//     are not equal" says no);
//   - a bit list against a composite list (the encoding has no upgrade path
//     from bit lists to struct lists, the Equal text does not exclude it).
//
// Non-empty lists of different non-composite kinds (void/bit/1/2/4/8-byte/
// pointer) are VNotEqual: their elements are different kinds of things.
package ref

// Verdict of ValueEqual.
type Verdict int

const (
	VNotEqual Verdict = iota
	VEqual
	VUnspecified
)

func (v Verdict) String() string { return [...]string{"not-equal", "equal", "unspecified"}[v] }

// and3 combines verdicts of parts: VNotEqual dominates, then VUnspecified.
func and3(a, b Verdict) Verdict {
	if a == VNotEqual || b == VNotEqual {
		return VNotEqual
	}
	if a == VUnspecified || b == VUnspecified {
		return VUnspecified
	}
	return VEqual
}

// ValueEqual compares with capabilities equal iff their indices are equal
// (two pointers into the same message).
func ValueEqual(a, b Value) Verdict {
	return ValueEqualCaps(a, b, func(i, j uint32) Verdict {
		if i == j {
			return VEqual
		}
		return VNotEqual
	})
}

func allZero(b []byte) bool {
	for _, x := range b {
		if x != 0 {
			return false
		}
	}
	return true
}

// ValueEqualCaps compares with a caller-supplied capability identity.
func ValueEqualCaps(a, b Value, capEq func(i, j uint32) Verdict) Verdict {
	if a.Kind != b.Kind {
		return VNotEqual
	}
	switch a.Kind {
	case KindNull:
		return VEqual
	case KindCap:
		return capEq(a.Cap, b.Cap)
	case KindStruct:
		return structEqual(a, b, capEq)
	}
	// lists
	if a.N != b.N {
		return VNotEqual
	}
	ac, bc := a.Elem == ElemComposite, b.Elem == ElemComposite
	switch {
	case !ac && !bc:
		if a.Elem != b.Elem {
			if a.N == 0 {
				return VUnspecified
			}
			return VNotEqual
		}
		switch a.Elem {
		case ElemVoid:
			return VEqual
		case ElemPtr:
			r := VEqual
			for i := 0; i < a.N; i++ {
				r = and3(r, ValueEqualCaps(a.Elems[i], b.Elems[i], capEq))
				if r == VNotEqual {
					return r
				}
			}
			return r
		default:
			for i := range a.Raw {
				if a.Raw[i] != b.Raw[i] {
					return VNotEqual
				}
			}
			return VEqual
		}
	case ac && bc:
		r := VEqual
		for i := 0; i < a.N && (a.Elems != nil || b.Elems != nil); i++ {
			r = and3(r, structEqual(a.ElemAt(i), b.ElemAt(i), capEq))
			if r == VNotEqual {
				return r
			}
		}
		return r
	}
	// one primitive, one composite
	prim, comp := a, b
	flip := false
	if ac {
		prim, comp = b, a
		flip = true
	}
	if prim.Elem == ElemBit {
		return VUnspecified
	}
	r := VEqual
	for i := 0; i < prim.N; i++ {
		var e Value
		switch prim.Elem {
		case ElemVoid:
			e = Value{Kind: KindStruct}
		case ElemPtr:
			e = Value{Kind: KindStruct, Ptrs: []Value{prim.Elems[i]}}
		default:
			sz := prim.Elem.ByteSize()
			e = Value{Kind: KindStruct, Data: prim.Raw[i*sz : (i+1)*sz]} // sub-word data section, zero-extended below
		}
		var x Verdict
		if flip {
			x = structEqual(comp.ElemAt(i), e, capEq)
		} else {
			x = structEqual(e, comp.ElemAt(i), capEq)
		}
		r = and3(r, x)
		if r == VNotEqual {
			return r
		}
	}
	return r
}

func structEqual(a, b Value, capEq func(i, j uint32) Verdict) Verdict {
	n := len(a.Data)
	if len(b.Data) < n {
		n = len(b.Data)
	}
	for i := 0; i < n; i++ {
		if a.Data[i] != b.Data[i] {
			return VNotEqual
		}
	}
	if !allZero(a.Data[n:]) || !allZero(b.Data[n:]) {
		return VNotEqual
	}
	m := len(a.Ptrs)
	if len(b.Ptrs) < m {
		m = len(b.Ptrs)
	}
	for _, p := range a.Ptrs[m:] {
		if p.Kind != KindNull {
			return VNotEqual
		}
	}
	for _, p := range b.Ptrs[m:] {
		if p.Kind != KindNull {
			return VNotEqual
		}
	}
	r := VEqual
	for i := 0; i < m; i++ {
		r = and3(r, ValueEqualCaps(a.Ptrs[i], b.Ptrs[i], capEq))
		if r == VNotEqual {
			return r
		}
	}
	return r
}

// Truncate returns what a struct destination with dw data words and pc
// pointers holds after the struct v has been copied into it (Struct.CopyFrom,
// List.SetStruct, copies between schema versions): the data section is cut
// or zero-extended to dw words, the pointer section cut or null-extended to
// pc pointers; the pointers that are kept are deep copies (unchanged values).
// A null v leaves an all-zero destination.
func Truncate(v Value, dw, pc int) Value {
	r := Value{Kind: KindStruct, Data: make([]byte, 8*dw), Ptrs: make([]Value, pc)}
	if v.Kind != KindStruct {
		return r
	}
	copy(r.Data, v.Data)
	for i := 0; i < pc && i < len(v.Ptrs); i++ {
		r.Ptrs[i] = v.Ptrs[i].Clone()
	}
	return r
}
