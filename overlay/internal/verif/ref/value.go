// value.go — the plain-Go value tree that every message-level oracle in this
// package speaks.
//
// API summary (all of package ref's message-level API, by file):
//
//	value.go      Value, Kind*, Elem*, constructors (NullV, StructV, VoidListV,
//	              BitListV, BytesListV, PtrListV, CompositeV, CapV, ...),
//	              Identical(a,b) exact tree equality, (Value).String(),
//	              (Value).ElemAt(i), (Value).Objects(), (Value).HasCap(),
//	              HexSegments(segs) for messages in details
//	decode.go     Decode(segments) / DecodeWith(segments, DecodeOptions):
//	              strict spec decoder; *DecodeError with .Unspecified / .Class,
//	              IsUnspecified(err), ErrClass(err)
//	layout.go     Layouts(v, bound) []Layout: spec ENCODER that enumerates
//	              layouts of v (deviation-bounded); DefaultLayout(v);
//	              Preset(v, name) / PresetFrom: whole-tree layouts "default",
//	              "far", "skew", "upgrade"
//	universe.go   Universe(n) / UniverseWith(cfg): the value universe U(n);
//	              Leaves(), SlimLeaves(), DataPattern("PZ")
//	canonical.go  Canonical(v) ([]byte, error), IsCanonical(b) error
//	equal.go      ValueEqual(a,b) / ValueEqualCaps → Verdict (VEqual, VNotEqual,
//	              VUnspecified): the documented capnp.Equal rules;
//	              Truncate(v, dw, pc): the struct copy version rule
//	validate.go   Validate(segments) (*Report, error): structural conformance
//	              of a WRITER's output + object extents; Frame / Unframe: the
//	              stream segment table
//	selftest.go   SelfTest() error: the oracle checks itself (pass it as
//	              vlib.Spec.SelfTest); SelfTestValue(v, bound)
//
// A message is always [][]byte: one slice per segment, no segment table, root
// pointer in word 0 of segment 0.  The sibling package internal/verif/rcmp
// loads such segments into a real capnp.Message and compares library reads
// with a Value (rcmp.Load, rcmp.Checker, rcmp.Read).
//
// The package imports nothing from the repository under test; everything is
// written from https://capnproto.org/encoding.html.
package ref

import (
	"bytes"
	"fmt"
	"strings"
)

// Kind is the kind of a pointer value.
type Kind uint8

const (
	KindNull   Kind = iota // null pointer
	KindStruct             // struct: Data (whole words) + Ptrs
	KindList               // list: Elem, N and Raw or Elems
	KindCap                // capability pointer: Cap = table index
)

// Elem is a list element size code, exactly the 3-bit "C" field of a list
// pointer.
type Elem uint8

const (
	ElemVoid      Elem = 0
	ElemBit       Elem = 1
	ElemByte1     Elem = 2
	ElemByte2     Elem = 3
	ElemByte4     Elem = 4
	ElemByte8     Elem = 5
	ElemPtr       Elem = 6
	ElemComposite Elem = 7
)

// ByteSize is the element size in bytes of the codes ElemByte1..ElemByte8
// (0 for every other code).
func (e Elem) ByteSize() int {
	switch e {
	case ElemByte1:
		return 1
	case ElemByte2:
		return 2
	case ElemByte4:
		return 4
	case ElemByte8:
		return 8
	}
	return 0
}

func (e Elem) String() string {
	return [...]string{"void", "bit", "u8", "u16", "u32", "u64", "ptr", "composite"}[e&7]
}

// Value is what a pointer denotes.  The zero Value is the null pointer.
//
//	KindStruct: Data is the data section (len is a multiple of 8, possibly 0),
//	            Ptrs the pointer section.
//	KindList:   Elem is the element code and N the element count.
//	            ElemVoid:            nothing else.
//	            ElemBit:             Raw holds ceil(N/8) bytes, bit i is
//	                                 Raw[i/8]>>(i%8)&1; unused bits are zero.
//	            ElemByte1..8:        Raw holds exactly N*size bytes.
//	            ElemPtr:             Elems holds the N pointers.
//	            ElemComposite:       DW/PC is the per-element size in words /
//	                                 pointers; Elems holds N KindStruct values
//	                                 of exactly that size, or is nil when
//	                                 DW+PC == 0 (N may then be huge).
//	KindCap:    Cap is the capability table index.
type Value struct {
	Kind  Kind
	Data  []byte
	Ptrs  []Value
	Elem  Elem
	N     int
	Raw   []byte
	Elems []Value
	DW    int
	PC    int
	Cap   uint32
}

// NullV returns the null pointer value.
func NullV() Value { return Value{} }

// CapV returns a capability pointer value.
func CapV(index uint32) Value { return Value{Kind: KindCap, Cap: index} }

// StructV returns a struct value; len(data) must be a multiple of 8.
func StructV(data []byte, ptrs ...Value) Value {
	if len(data)%8 != 0 {
		panic("ref.StructV: data is not whole words")
	}
	return Value{Kind: KindStruct, Data: append([]byte{}, data...), Ptrs: append([]Value{}, ptrs...)}
}

// VoidListV returns a List(Void) of n elements.
func VoidListV(n int) Value { return Value{Kind: KindList, Elem: ElemVoid, N: n} }

// BitListV returns a List(Bool).
func BitListV(bits ...bool) Value {
	raw := make([]byte, (len(bits)+7)/8)
	for i, b := range bits {
		if b {
			raw[i/8] |= 1 << uint(i%8)
		}
	}
	return Value{Kind: KindList, Elem: ElemBit, N: len(bits), Raw: raw}
}

// BitListRawV returns a List(Bool) of n elements from packed bytes (unused
// bits are cleared).
func BitListRawV(n int, raw []byte) Value {
	r := make([]byte, (n+7)/8)
	copy(r, raw)
	if n%8 != 0 {
		r[len(r)-1] &= byte(1<<uint(n%8)) - 1
	}
	return Value{Kind: KindList, Elem: ElemBit, N: n, Raw: r}
}

// BytesListV returns a list of 1/2/4/8-byte elements from its packed
// little-endian content; len(raw) must be a multiple of the element size.
func BytesListV(e Elem, raw []byte) Value {
	sz := e.ByteSize()
	if sz == 0 || len(raw)%sz != 0 {
		panic("ref.BytesListV: bad element code or length")
	}
	return Value{Kind: KindList, Elem: e, N: len(raw) / sz, Raw: append([]byte{}, raw...)}
}

// PtrListV returns a list of pointers.
func PtrListV(elems ...Value) Value {
	return Value{Kind: KindList, Elem: ElemPtr, N: len(elems), Elems: append([]Value{}, elems...)}
}

// CompositeV returns a composite (struct) list whose elements all have dw
// data words and pc pointers; every element must be a struct of that size.
func CompositeV(dw, pc int, elems ...Value) Value {
	v := Value{Kind: KindList, Elem: ElemComposite, N: len(elems), DW: dw, PC: pc}
	if dw+pc == 0 {
		return v
	}
	for _, e := range elems {
		if e.Kind != KindStruct || len(e.Data) != 8*dw || len(e.Ptrs) != pc {
			panic("ref.CompositeV: element size mismatch")
		}
	}
	v.Elems = append([]Value{}, elems...)
	return v
}

// CompositeEmptyV returns a composite list of n zero-sized structs.
func CompositeEmptyV(n int) Value {
	return Value{Kind: KindList, Elem: ElemComposite, N: n}
}

// ElemAt returns element i of a pointer or composite list as a Value (for a
// composite list of zero-sized structs: the empty struct).
func (v Value) ElemAt(i int) Value {
	if v.Kind != KindList || i < 0 || i >= v.N {
		panic("ref: ElemAt out of range")
	}
	switch v.Elem {
	case ElemPtr:
		return v.Elems[i]
	case ElemComposite:
		if v.Elems == nil {
			return Value{Kind: KindStruct}
		}
		return v.Elems[i]
	}
	panic("ref: ElemAt on a primitive list")
}

// Bit returns bit i of a bit list.
func (v Value) Bit(i int) bool { return v.Raw[i/8]>>(uint(i)%8)&1 != 0 }

// IsNull reports whether v is the null pointer.
func (v Value) IsNull() bool { return v.Kind == KindNull }

// Objects counts the separately allocated objects of the tree: every struct
// or list reached through a pointer (composite list elements are inline and
// do not count; null and capability pointers are not objects).
func (v Value) Objects() int {
	switch v.Kind {
	case KindStruct:
		n := 1
		for _, p := range v.Ptrs {
			n += p.Objects()
		}
		return n
	case KindList:
		n := 1
		switch v.Elem {
		case ElemPtr:
			for _, p := range v.Elems {
				n += p.Objects()
			}
		case ElemComposite:
			for _, e := range v.Elems {
				for _, p := range e.Ptrs {
					n += p.Objects()
				}
			}
		}
		return n
	}
	return 0
}

// HasCap reports whether the tree contains a capability pointer.
func (v Value) HasCap() bool {
	switch v.Kind {
	case KindCap:
		return true
	case KindStruct:
		for _, p := range v.Ptrs {
			if p.HasCap() {
				return true
			}
		}
	case KindList:
		for _, e := range v.Elems {
			if e.HasCap() {
				return true
			}
		}
	}
	return false
}

// Depth is the pointer nesting depth (null/cap 0, leaf object 1, ...).
func (v Value) Depth() int {
	d := 0
	switch v.Kind {
	case KindStruct:
		for _, p := range v.Ptrs {
			if x := p.Depth(); x > d {
				d = x
			}
		}
		return d + 1
	case KindList:
		switch v.Elem {
		case ElemPtr:
			for _, p := range v.Elems {
				if x := p.Depth(); x > d {
					d = x
				}
			}
		case ElemComposite:
			for _, e := range v.Elems {
				for _, p := range e.Ptrs {
					if x := p.Depth(); x > d {
						d = x
					}
				}
			}
		}
		return d + 1
	}
	return 0
}

// Identical reports exact equality of two trees: same kinds, same section
// sizes, same element codes, same bytes, same capability indices.  (This is
// NOT capnp.Equal; see ValueEqual for that.)
func Identical(a, b Value) bool {
	if a.Kind != b.Kind {
		return false
	}
	switch a.Kind {
	case KindNull:
		return true
	case KindCap:
		return a.Cap == b.Cap
	case KindStruct:
		if !bytes.Equal(a.Data, b.Data) || len(a.Ptrs) != len(b.Ptrs) {
			return false
		}
		for i := range a.Ptrs {
			if !Identical(a.Ptrs[i], b.Ptrs[i]) {
				return false
			}
		}
		return true
	case KindList:
		if a.Elem != b.Elem || a.N != b.N {
			return false
		}
		switch a.Elem {
		case ElemVoid:
			return true
		case ElemPtr:
			for i := range a.Elems {
				if !Identical(a.Elems[i], b.Elems[i]) {
					return false
				}
			}
			return true
		case ElemComposite:
			if a.DW != b.DW || a.PC != b.PC || len(a.Elems) != len(b.Elems) {
				return false
			}
			for i := range a.Elems {
				if !Identical(a.Elems[i], b.Elems[i]) {
					return false
				}
			}
			return true
		default:
			return bytes.Equal(a.Raw, b.Raw)
		}
	}
	return false
}

// String renders the tree compactly (for violation details and samples).
func (v Value) String() string {
	var sb strings.Builder
	v.render(&sb)
	return sb.String()
}

func hexWords(sb *strings.Builder, b []byte) {
	for i := 0; i < len(b); i += 8 {
		if i > 0 {
			sb.WriteByte('|')
		}
		e := i + 8
		if e > len(b) {
			e = len(b)
		}
		fmt.Fprintf(sb, "%x", b[i:e])
	}
}

func (v Value) render(sb *strings.Builder) {
	switch v.Kind {
	case KindNull:
		sb.WriteString("null")
	case KindCap:
		fmt.Fprintf(sb, "cap%d", v.Cap)
	case KindStruct:
		fmt.Fprintf(sb, "S%d/%d(", len(v.Data)/8, len(v.Ptrs))
		hexWords(sb, v.Data)
		for i, p := range v.Ptrs {
			if i > 0 || len(v.Data) > 0 {
				sb.WriteString("; ")
			}
			p.render(sb)
		}
		sb.WriteByte(')')
	case KindList:
		switch v.Elem {
		case ElemVoid:
			fmt.Fprintf(sb, "L.void[%d]", v.N)
		case ElemBit:
			fmt.Fprintf(sb, "L.bit[%d:", v.N)
			for i := 0; i < v.N && i < 80; i++ {
				if v.Bit(i) {
					sb.WriteByte('1')
				} else {
					sb.WriteByte('0')
				}
			}
			sb.WriteByte(']')
		case ElemPtr:
			fmt.Fprintf(sb, "L.ptr[%d:", v.N)
			for i, p := range v.Elems {
				if i > 0 {
					sb.WriteString(", ")
				}
				p.render(sb)
			}
			sb.WriteByte(']')
		case ElemComposite:
			fmt.Fprintf(sb, "L.comp%d/%d[%d:", v.DW, v.PC, v.N)
			for i, p := range v.Elems {
				if i > 0 {
					sb.WriteString(", ")
				}
				p.render(sb)
			}
			sb.WriteByte(']')
		default:
			fmt.Fprintf(sb, "L.%s[%d:", v.Elem, v.N)
			if len(v.Raw) > 64 {
				fmt.Fprintf(sb, "%x...", v.Raw[:64])
			} else {
				fmt.Fprintf(sb, "%x", v.Raw)
			}
			sb.WriteByte(']')
		}
	}
}

// Clone returns a deep copy of v.
func (v Value) Clone() Value {
	c := v
	if v.Data != nil {
		c.Data = append([]byte{}, v.Data...)
	}
	if v.Raw != nil {
		c.Raw = append([]byte{}, v.Raw...)
	}
	if v.Ptrs != nil {
		c.Ptrs = make([]Value, len(v.Ptrs))
		for i := range v.Ptrs {
			c.Ptrs[i] = v.Ptrs[i].Clone()
		}
	}
	if v.Elems != nil {
		c.Elems = make([]Value, len(v.Elems))
		for i := range v.Elems {
			c.Elems[i] = v.Elems[i].Clone()
		}
	}
	return c
}

// HexSegments renders segments for violation details.
func HexSegments(segs [][]byte) string {
	var sb strings.Builder
	for i, s := range segs {
		if i > 0 {
			sb.WriteString(" || ")
		}
		fmt.Fprintf(&sb, "seg%d:", i)
		if len(s) == 0 {
			sb.WriteString("(empty)")
		}
		for w := 0; w+8 <= len(s); w += 8 {
			fmt.Fprintf(&sb, " %016x", uint64(s[w])|uint64(s[w+1])<<8|uint64(s[w+2])<<16|uint64(s[w+3])<<24|uint64(s[w+4])<<32|uint64(s[w+5])<<40|uint64(s[w+6])<<48|uint64(s[w+7])<<56)
		}
		if len(s)%8 != 0 {
			fmt.Fprintf(&sb, " +%x", s[len(s)&^7:])
		}
	}
	return sb.String()
}
