// C11 — promise pipelining delivers each call exactly once and never deadlocks.
//
// Engine E2: the real answer.go / capability.go (instrumented copies) run
// under the controlled scheduler.  All programs of 1-3 threads over a
// 18-operation alphabet on a promise P, a second promise Q (join target) and a
// result message holding two capabilities are enumerated; every schedule up to
// the preemption bound is executed; the oracle checks exactly-once delivery
// with the linearisation rule of the property, resolution, waiter release,
// proxy-client release (by Shutdown counting) and absence of deadlock.
package main

import (
	"context"
	"fmt"
	"strings"
	"time"

	capnp "capnproto.org/go/capnp/v3"
	"capnproto.org/go/capnp/v3/internal/verif/vlib"
	"capnproto.org/go/capnp/v3/internal/vsched"
)

const (
	tPCP = iota // pipeline caller of P
	tPCQ        // pipeline caller of Q
	tA          // capability at path [0]
	tB          // capability at path [1,0]
	tPCS        // pipeline caller of S
	nTargets
)

var targetNames = []string{"PC_P", "PC_Q", "capA", "capB", "PC_S"}

type event struct {
	kind   string // opstart opend deliver shutdown
	target int
	op     int
	info   string
}

type world struct {
	ev       []event
	curOp    map[int]int
	P, Q, S  *capnp.Promise
	savedP   [2]*capnp.Client // pipelined clients obtained from P by any thread
	msg      *capnp.Message
	result   capnp.Ptr
	doneThr  int
	hookA    *recHook
	hookB    *recHook
	shutdown [nTargets]int
}

type marker struct{ t int }

func (m marker) Error() string { return "marker:" + targetNames[m.t] }

var errReject = fmt.Errorf("marker:rejected")

type recHook struct {
	t int
	w *world
}

func (h *recHook) deliver(kind string) {
	h.w.ev = append(h.w.ev, event{"deliver", h.t, h.w.curOp[vsched.Tid()], kind})
	vsched.Yield()
}

func (h *recHook) Send(ctx context.Context, s capnp.Send) (*capnp.Answer, capnp.ReleaseFunc) {
	h.deliver("send")
	return capnp.ErrorAnswer(s.Method, marker{h.t}), func() {}
}
func (h *recHook) Recv(ctx context.Context, r capnp.Recv) capnp.PipelineCaller {
	h.deliver("recv")
	r.Reject(marker{h.t})
	return nil
}
func (h *recHook) Brand() capnp.Brand { return capnp.Brand{Value: h.t} }
func (h *recHook) Shutdown() {
	h.w.shutdown[h.t]++
	h.w.ev = append(h.w.ev, event{"shutdown", h.t, -1, ""})
}

type recCaller struct {
	t int
	w *world
}

func (c *recCaller) PipelineSend(ctx context.Context, tr []capnp.PipelineOp, s capnp.Send) (*capnp.Answer, capnp.ReleaseFunc) {
	c.w.ev = append(c.w.ev, event{"deliver", c.t, c.w.curOp[vsched.Tid()], pathName(tr)})
	vsched.Yield()
	return capnp.ErrorAnswer(s.Method, marker{c.t}), func() {}
}
func (c *recCaller) PipelineRecv(ctx context.Context, tr []capnp.PipelineOp, r capnp.Recv) capnp.PipelineCaller {
	c.w.ev = append(c.w.ev, event{"deliver", c.t, c.w.curOp[vsched.Tid()], pathName(tr)})
	vsched.Yield()
	r.Reject(marker{c.t})
	return nil
}

func pathName(tr []capnp.PipelineOp) string {
	s := ""
	for _, o := range tr {
		s += fmt.Sprint(o.Field)
	}
	return s
}

// ---- operations ----

const (
	opSendA = iota
	opSendB
	opRecvA
	opClientA
	opClientB
	opCallSavedA
	opCallSavedB
	opFulfill
	opReject
	opJoin
	opQFulfill
	opQReject
	opQSendA
	opRelease
	opStruct
	opQJoinS
	opSFulfill
	opSReject
	nOps
)

var opNames = []string{"P.Send[0]", "P.Send[1,0]", "P.Recv[0]", "a=P.Client[0]", "b=P.Client[1,0]", "a.SendCall", "b.SendCall",
	"P.Fulfill", "P.Reject", "P.Join(Q)", "Q.Fulfill", "Q.Reject", "Q.Send[0]", "P.ReleaseClients", "P.Struct", "Q.Join(S)", "S.Fulfill", "S.Reject"}

var pathA = []capnp.PipelineOp{{Field: 0}}
var pathB = []capnp.PipelineOp{{Field: 1}, {Field: 0}}

type program [][]int

func (p program) String() string {
	var parts []string
	for _, th := range p {
		var s []string
		for _, o := range th {
			s = append(s, opNames[o])
		}
		parts = append(parts, "["+strings.Join(s, "; ")+"]")
	}
	return strings.Join(parts, " || ")
}

func isPRes(o int) bool { return o == opFulfill || o == opReject || o == opJoin }
func isQRes(o int) bool { return o == opQFulfill || o == opQReject || o == opQJoinS }
func isSRes(o int) bool { return o == opSFulfill || o == opSReject }

// valid: at most one resolution op per promise (API contract); blocking
// waits (ReleaseClients, Struct) only when the promise is eventually
// resolved by the program and never before the resolving op in the same
// thread.
func (p program) valid() bool {
	n := [3]int{}
	var resOps [3]int
	for i := range resOps {
		resOps[i] = -1
	}
	for _, th := range p {
		for _, o := range th {
			switch {
			case isPRes(o):
				n[0]++
				resOps[0] = o
			case isQRes(o):
				n[1]++
				resOps[1] = o
			case isSRes(o):
				n[2]++
				resOps[2] = o
			}
		}
	}
	if n[0] > 1 || n[1] > 1 || n[2] > 1 {
		return false
	}
	// does the program resolve P eventually?
	resolved := func() bool {
		switch resOps[0] {
		case opFulfill, opReject:
			return true
		case opJoin:
			switch resOps[1] {
			case opQFulfill, opQReject:
				return true
			case opQJoinS:
				return resOps[2] >= 0
			}
		}
		return false
	}()
	for _, th := range p {
		// a blocking wait must come after every resolving operation of its own thread
		pending := 0
		for _, o := range th {
			if isPRes(o) || isQRes(o) || isSRes(o) {
				pending++
			}
		}
		for _, o := range th {
			if isPRes(o) || isQRes(o) || isSRes(o) {
				pending--
			}
			if (o == opRelease || o == opStruct) && (!resolved || pending > 0) {
				return false
			}
		}
	}
	return true
}

type opResult struct {
	started, ended bool
	panicMsg       string
	info           string
}

func classify(err error) string {
	if err == nil {
		return "ok"
	}
	s := err.Error()
	for i, n := range targetNames {
		if strings.Contains(s, "marker:"+n) {
			return targetNames[i]
		}
	}
	switch {
	case strings.Contains(s, "marker:rejected"):
		return "rejected"
	}
	return "err:" + s
}

type rejRecorder struct {
	err    error
	called int
}

func (r *rejRecorder) AllocResults(sz capnp.ObjectSize) (capnp.Struct, error) {
	return capnp.Struct{}, fmt.Errorf("no results")
}
func (r *rejRecorder) Return(e error) { r.err = e; r.called++ }

func setup(w *world) {
	w.curOp = map[int]int{}
	w.hookA = &recHook{tA, w}
	w.hookB = &recHook{tB, w}
	msg, seg, err := capnp.NewMessage(capnp.SingleSegment(nil))
	if err != nil {
		panic(err)
	}
	root, _ := capnp.NewRootStruct(seg, capnp.ObjectSize{PointerCount: 2})
	idA := msg.AddCap(capnp.NewClient(w.hookA))
	root.SetPtr(0, capnp.NewInterface(seg, idA).ToPtr())
	inner, _ := capnp.NewStruct(seg, capnp.ObjectSize{PointerCount: 1})
	idB := msg.AddCap(capnp.NewClient(w.hookB))
	inner.SetPtr(0, capnp.NewInterface(seg, idB).ToPtr())
	root.SetPtr(1, inner.ToPtr())
	w.msg = msg
	w.result = root.ToPtr()
	w.P = capnp.NewPromise(capnp.Method{InterfaceID: 1, MethodID: 1}, &recCaller{tPCP, w})
	w.Q = capnp.NewPromise(capnp.Method{InterfaceID: 1, MethodID: 2}, &recCaller{tPCQ, w})
	w.S = capnp.NewPromise(capnp.Method{InterfaceID: 1, MethodID: 3}, &recCaller{tPCS, w})
}

func runProgram(p program, w *world, res [][]opResult, epi *string) {
	setup(w)
	body := func(ti int) {
		var saved [2]*capnp.Client
		for pi, o := range p[ti] {
			opid := ti*10 + pi
			w.curOp[vsched.Tid()] = opid
			r := &res[ti][pi]
			r.started = true
			w.ev = append(w.ev, event{"opstart", -1, opid, ""})
			func() {
				defer func() {
					if x := recover(); x != nil {
						r.panicMsg = fmt.Sprint(x)
					}
				}()
				doOp(o, w, &saved, r)
			}()
			r.ended = true
			w.ev = append(w.ev, event{"opend", -1, opid, r.info})
		}
		w.curOp[vsched.Tid()] = -1
		w.doneThr++
	}
	for ti := 1; ti < len(p); ti++ {
		ti := ti
		vsched.GoNamed(fmt.Sprintf("T%d", ti), func() { body(ti) })
	}
	body(0)
	vsched.WaitUntil("threads", func() bool { return w.doneThr == len(p) })
	// epilogue: resolve what the program left unresolved; the owners of the
	// other promises release their clients; the pipelined clients obtained
	// from P must still work until P itself calls ReleaseClients; then P
	// releases, and the result message drops its own references.
	has := [3]bool{}
	pRelease := false
	for _, th := range p {
		for _, o := range th {
			switch {
			case isPRes(o):
				has[0] = true
			case isQRes(o):
				has[1] = true
			case isSRes(o):
				has[2] = true
			case o == opRelease:
				pRelease = true
			}
		}
	}
	w.curOp[vsched.Tid()] = 99 // epilogue probe op id
	if !has[2] {
		w.S.Fulfill(w.result)
	}
	if !has[1] {
		w.Q.Fulfill(w.result)
	}
	if !has[0] {
		w.P.Fulfill(w.result)
	}
	w.S.ReleaseClients()
	w.Q.ReleaseClients()
	if !pRelease {
		for i, c := range w.savedP {
			if c == nil {
				continue
			}
			ans, rel := c.SendCall(context.Background(), capnp.Send{Method: capnp.Method{InterfaceID: 7, MethodID: 8}})
			_, err := ans.Struct()
			cls := classify(err)
			rel()
			want := []string{"capA", "capB"}[i]
			if cls != want && cls != "rejected" {
				*epi = fmt.Sprintf("proxy-released-early\x00a pipelined client obtained from P was used after the owners of the joined promises called ReleaseClients but before P did: result %q, want delivery to %s (or the rejection error)", cls, want)
				return
			}
		}
	}
	w.P.ReleaseClients()
	if w.shutdown[tA] != 0 || w.shutdown[tB] != 0 {
		*epi = fmt.Sprintf("early-shutdown\x00capability in the result shut down (A=%d B=%d) while the result message still holds its reference", w.shutdown[tA], w.shutdown[tB])
		return
	}
	for _, c := range w.msg.CapTable {
		c.Release()
	}
	if w.shutdown[tA] != 1 || w.shutdown[tB] != 1 {
		*epi = fmt.Sprintf("proxy-leak\x00after ReleaseClients on P, Q and S and release of the result message's own references, Shutdown counts are A=%d B=%d (want 1,1): pipelined proxy clients still hold references", w.shutdown[tA], w.shutdown[tB])
	}
}

func doOp(o int, w *world, saved *[2]*capnp.Client, r *opResult) {
	ctx := context.Background()
	meth := capnp.Method{InterfaceID: 7, MethodID: 7}
	send := func(ans *capnp.Answer, rel capnp.ReleaseFunc) {
		_, err := ans.Struct()
		r.info = classify(err)
		rel()
	}
	switch o {
	case opSendA:
		send(w.P.Answer().PipelineSend(ctx, pathA, capnp.Send{Method: meth}))
	case opSendB:
		send(w.P.Answer().PipelineSend(ctx, pathB, capnp.Send{Method: meth}))
	case opQSendA:
		send(w.Q.Answer().PipelineSend(ctx, pathA, capnp.Send{Method: meth}))
	case opRecvA:
		rej := &rejRecorder{}
		w.P.Answer().PipelineRecv(ctx, pathA, capnp.Recv{Method: meth, ReleaseArgs: func() {}, Returner: rej})
		if rej.called != 1 {
			r.info = fmt.Sprintf("returner-called-%d", rej.called)
		} else {
			r.info = classify(rej.err)
		}
	case opClientA:
		saved[0] = w.P.Answer().Field(0, nil).Client()
		w.savedP[0] = saved[0]
		r.info = "got"
	case opClientB:
		saved[1] = w.P.Answer().Field(1, nil).Field(0, nil).Client()
		w.savedP[1] = saved[1]
		r.info = "got"
	case opCallSavedA:
		if saved[0] == nil {
			saved[0] = w.P.Answer().Field(0, nil).Client()
			w.savedP[0] = saved[0]
		}
		send(saved[0].SendCall(ctx, capnp.Send{Method: meth}))
	case opCallSavedB:
		if saved[1] == nil {
			saved[1] = w.P.Answer().Field(1, nil).Field(0, nil).Client()
			w.savedP[1] = saved[1]
		}
		send(saved[1].SendCall(ctx, capnp.Send{Method: meth}))
	case opQJoinS:
		w.Q.Join(w.S.Answer())
	case opSFulfill:
		w.S.Fulfill(w.result)
	case opSReject:
		w.S.Reject(errReject)
	case opFulfill:
		w.P.Fulfill(w.result)
	case opReject:
		w.P.Reject(errReject)
	case opJoin:
		w.P.Join(w.Q.Answer())
	case opQFulfill:
		w.Q.Fulfill(w.result)
	case opQReject:
		w.Q.Reject(errReject)
	case opRelease:
		w.P.ReleaseClients()
	case opStruct:
		s, err := w.P.Answer().Struct()
		if err != nil {
			r.info = classify(err)
		} else if s.ToPtr() != w.result {
			r.info = "wrong-struct"
		} else {
			r.info = "result"
		}
	}
}

// ---- oracle ----

type span struct{ start, end int }

func judge(p program, w *world, res [][]opResult, vr *vsched.Result, epi string) (string, string) {
	if len(vr.Panics) > 0 {
		return "panic", "panic in a controlled thread: " + vr.Panics[0]
	}
	if vr.Livelock {
		return "livelock", "step limit reached"
	}
	for ti, th := range p {
		for pi, o := range th {
			if m := res[ti][pi].panicMsg; m != "" {
				return "op-panic/" + opClass(o), fmt.Sprintf("thread %d op %s panicked: %s", ti, opNames[o], m)
			}
		}
	}
	if vr.Deadlocked() {
		return deadlockKey(p, w, res, vr), "threads blocked forever: " + strings.Join(vr.Blocked, " | ")
	}
	spans := map[int]span{}
	for i, e := range w.ev {
		switch e.kind {
		case "opstart":
			spans[e.op] = span{i, 1 << 30}
		case "opend":
			s := spans[e.op]
			s.end = i
			spans[e.op] = s
		}
	}
	find := func(pred func(o int) bool) (span, int, bool) {
		for ti, th := range p {
			for pi, o := range th {
				if pred(o) {
					return spans[ti*10+pi], o, true
				}
			}
		}
		return span{}, -1, false
	}
	never := span{1 << 30, 1 << 30}
	// chain P --Join--> Q --Join--> S
	var resSpan [3]span
	var resOp [3]int
	preds := []func(int) bool{isPRes, isQRes, isSRes}
	for i := range resSpan {
		sp, op, ok := find(preds[i])
		if !ok {
			sp, op = never, -1
		}
		resSpan[i], resOp[i] = sp, op
	}
	isJoin := func(i int) bool { return resOp[i] == opJoin || resOp[i] == opQJoinS }
	isFul := func(i int) bool { return resOp[i] == opFulfill || resOp[i] == opQFulfill || resOp[i] == opSFulfill }
	isRej := func(i int) bool { return resOp[i] == opReject || resOp[i] == opQReject || resOp[i] == opSReject }
	pcTarget := []int{tPCP, tPCQ, tPCS}
	// allowed computes, for a call x made on promise i0, which pipeline callers
	// may legally receive it and whether the result capability / the rejection
	// error are legal outcomes.
	allowed := func(i0 int, x span) (pcs map[int]bool, capOK, rejOK bool) {
		pcs = map[int]bool{}
		for i := i0; i < 3; i++ {
			if !(resSpan[i].end < x.start) {
				pcs[pcTarget[i]] = true
			}
			if !(resSpan[i].start < x.end) {
				break // this promise's resolution had not started: the call cannot have gone further
			}
			if isFul(i) {
				capOK = true
			}
			if isRej(i) {
				rejOK = true
			}
			if !isJoin(i) {
				break
			}
		}
		return
	}
	finalRejected := func() bool {
		for i := 0; i < 3; i++ {
			if isRej(i) {
				return true
			}
			if !isJoin(i) {
				return false
			}
		}
		return false
	}()
	for ti, th := range p {
		for pi, o := range th {
			r := res[ti][pi]
			opid := ti*10 + pi
			if !r.started || !r.ended {
				return "op-incomplete", fmt.Sprintf("thread %d op %s did not complete", ti, opNames[o])
			}
			if r.panicMsg != "" {
				return "unexpected-panic", fmt.Sprintf("thread %d op %s panicked: %s", ti, opNames[o], r.panicMsg)
			}
			x := spans[opid]
			wantCap := -1
			on := 0
			switch o {
			case opSendA, opRecvA, opCallSavedA:
				wantCap = tA
			case opSendB, opCallSavedB:
				wantCap = tB
			case opQSendA:
				wantCap = tA
				on = 1
			case opStruct:
				want := "result"
				if finalRejected {
					want = "rejected"
				}
				if r.info != want {
					return "struct-result", fmt.Sprintf("thread %d P.Struct(): got %q want %q", ti, r.info, want)
				}
				continue
			default:
				continue
			}
			var del []event
			for _, e := range w.ev {
				if e.kind == "deliver" && e.op == opid {
					del = append(del, e)
				}
			}
			if len(del) > 1 {
				return "delivered-twice", fmt.Sprintf("thread %d op %s delivered %d times", ti, opNames[o], len(del))
			}
			pcs, capOK, rejOK := allowed(on, x)
			if len(del) == 0 && strings.Contains(r.info, "released client") && (o == opCallSavedA || o == opCallSavedB) {
				// a pipelined client is borrowed from the promise; using it
				// after P.ReleaseClients has started is outside the contract
				okRel := false
				for tj, th2 := range p {
					for pj, o2 := range th2 {
						if o2 == opRelease && spans[tj*10+pj].start < x.end {
							okRel = true
						}
					}
				}
				if okRel {
					continue
				}
			}
			if len(del) == 0 {
				if r.info != "rejected" {
					return "call-lost", fmt.Sprintf("thread %d op %s: not delivered anywhere, result %q", ti, opNames[o], r.info)
				}
				if !rejOK {
					return "spurious-rejection", fmt.Sprintf("thread %d op %s failed with the rejection error although no Reject on its promise chain had started", ti, opNames[o])
				}
				continue
			}
			d := del[0]
			if r.info != targetNames[d.target] {
				return "answer-mismatch", fmt.Sprintf("thread %d op %s delivered to %s but the caller's answer came from %q", ti, opNames[o], targetNames[d.target], r.info)
			}
			switch d.target {
			case tPCP, tPCQ, tPCS:
				if !pcs[d.target] {
					return "stale-or-wrong-pipeline-call", fmt.Sprintf("thread %d op %s went to %s; legal pipeline callers at that time: %v", ti, opNames[o], targetNames[d.target], pcs)
				}
			case tA, tB:
				if d.target != wantCap {
					return "wrong-target", fmt.Sprintf("thread %d op %s delivered to %s", ti, opNames[o], targetNames[d.target])
				}
				if !capOK {
					return "premature-delivery", fmt.Sprintf("thread %d op %s reached the result capability before any Fulfill on its promise chain started", ti, opNames[o])
				}
			}
		}
	}
	if epi != "" {
		parts := strings.SplitN(epi, "\x00", 2)
		return parts[0], parts[1]
	}
	return "", ""
}

// deadlockKey classifies a deadlock by the kinds of program operations that
// never completed and the primitive each blocked thread waits on.
func deadlockKey(p program, w *world, res [][]opResult, vr *vsched.Result) string {
	var parts []string
	for ti, th := range p {
		for pi, o := range th {
			r := res[ti][pi]
			if r.started && !r.ended {
				class := opClass(o)
				name := "main"
				if ti > 0 {
					name = fmt.Sprintf("T%d", ti)
				}
				prim := "?"
				for _, b := range vr.Blocked {
					if strings.HasPrefix(b, name+": ") {
						prim = strings.TrimPrefix(b, name+": ")
					}
				}
				parts = append(parts, class+":"+prim)
			}
		}
	}
	if len(parts) == 0 {
		return "deadlock/epilogue"
	}
	sortStrings(parts)
	// Root cause "proxycall-vs-resolve": a call through a pipelined (proxy)
	// client is counted as in flight on the proxy hook and waits for the
	// promise to resolve, while Fulfill/Reject/Join waits, inside
	// ClientPromise.Fulfill, for the proxy hook's in-flight calls to end.
	// Every other blocked operation must merely be waiting for that same
	// resolution; anything else keeps its full key.
	hasProxy, hasRes, onlyWaiters := false, false, true
	for _, x := range parts {
		switch x {
		case "proxycall:select":
			hasProxy = true
		case "resolve:recv", "join:recv":
			hasRes = true
		case "struct:recv", "releaseclients:recv", "pipelinecall:select", "client:recv", "proxycall:recv":
		default:
			onlyWaiters = false
		}
	}
	if hasProxy && hasRes && onlyWaiters {
		return "deadlock/proxycall-vs-resolve"
	}
	return "deadlock/" + strings.Join(parts, "|")
}

func opClass(o int) string {
	switch {
	case o == opCallSavedA || o == opCallSavedB:
		return "proxycall"
	case o == opSendA || o == opSendB || o == opRecvA || o == opQSendA:
		return "pipelinecall"
	case o == opJoin || o == opQJoinS:
		return "join"
	case isPRes(o) || isQRes(o) || isSRes(o):
		return "resolve"
	case o == opClientA || o == opClientB:
		return "client"
	case o == opRelease:
		return "releaseclients"
	case o == opStruct:
		return "struct"
	}
	return "op"
}

func sortStrings(a []string) {
	for i := 1; i < len(a); i++ {
		for j := i; j > 0 && a[j] < a[j-1]; j-- {
			a[j], a[j-1] = a[j-1], a[j]
		}
	}
}

func outcomeClass(w *world, res [][]opResult) string {
	var b strings.Builder
	for _, e := range w.ev {
		if e.kind == "deliver" {
			b.WriteString(targetNames[e.target] + " ")
		}
	}
	for _, th := range res {
		for _, r := range th {
			b.WriteString(r.info + ",")
		}
	}
	return b.String()
}

// ---- program enumeration ----

func seqs(maxLen int) [][]int {
	var out [][]int
	var rec func(cur []int)
	rec = func(cur []int) {
		if len(cur) > 0 {
			out = append(out, append([]int{}, cur...))
		}
		if len(cur) == maxLen {
			return
		}
		for o := 0; o < nOps; o++ {
			rec(append(cur, o))
		}
	}
	rec(nil)
	return out
}

func lessEq(a, b []int) bool {
	for i := 0; i < len(a) && i < len(b); i++ {
		if a[i] != b[i] {
			return a[i] < b[i]
		}
	}
	return len(a) <= len(b)
}

func programs(threads, maxLen int) []program {
	ss := seqs(maxLen)
	var out []program
	var rec func(cur program)
	rec = func(cur program) {
		if len(cur) == threads {
			p := append(program{}, cur...)
			if p.valid() {
				out = append(out, p)
			}
			return
		}
		for _, s := range ss {
			if len(cur) > 0 && !lessEq(cur[len(cur)-1], s) {
				continue
			}
			rec(append(cur, s))
		}
	}
	rec(nil)
	return out
}

func family(name string, progs []program, cfg vsched.Config) vlib.Family {
	return vlib.Family{
		Name: name, N: int64(len(progs)),
		Describe: func(i int64) interface{} { return progs[i].String() },
		Run: func(i int64, r *vlib.Rec) {
			p := progs[i]
			var w *world
			var res [][]opResult
			var epi string
			body := func() {
				w = &world{}
				epi = ""
				res = make([][]opResult, len(p))
				for ti := range p {
					res[ti] = make([]opResult, len(p[ti]))
				}
				runProgram(p, w, res, &epi)
			}
			outcomes := map[string]bool{}
			knownSeen := map[string]bool{}
			st, f := vsched.Explore(cfg, body, func(vr *vsched.Result) string {
				key, msg := judge(p, w, res, vr, epi)
				if key != "" && vlib.KnownOpen("C11", key) {
					// recorded, but the search goes on behind it
					if !knownSeen[key] {
						knownSeen[key] = true
						r.Failf(key, "program %s\n%s\nchoices %v", p, msg, choicesOf(vr))
					}
					return ""
				}
				if key != "" {
					return key + "\x00" + msg
				}
				outcomes[outcomeClass(w, res)] = true
				return ""
			})
			r.States += int64(len(st.Configs))
			r.Transitions += st.Steps
			r.Traces += st.Execs
			r.Note("executions", st.Execs)
			if st.Capped {
				r.Capped = true
			}
			for o := range outcomes {
				r.Outcome(o)
			}
			if len(outcomes) > 1 || st.Execs > 1 {
				r.NonTrivial()
			}
			if f != nil {
				if f.Engine {
					r.Failf("ENGINE:"+f.Msg, "%s", f.Msg)
					return
				}
				parts := strings.SplitN(f.Msg, "\x00", 2)
				rr := vsched.Replay(f.Choices, cfg.MaxSteps, body)
				r.Failf(parts[0], "program %s\n%s\nchoices %v\nevents: %s\n%s", p, parts[1], f.Choices, renderEvents(p, w), rr.Describe())
			}
		},
	}
}

func choicesOf(vr *vsched.Result) []int {
	c := make([]int, len(vr.Decisions))
	for i, d := range vr.Decisions {
		c[i] = d.Chosen
	}
	return c
}

func renderEvents(p program, w *world) string {
	var b strings.Builder
	for _, e := range w.ev {
		switch e.kind {
		case "opstart", "opend":
			fmt.Fprintf(&b, "%s(T%d:%s %s) ", e.kind, e.op/10, opNames[p[e.op/10][e.op%10]], e.info)
		default:
			fmt.Fprintf(&b, "%s(%s) ", e.kind, targetNames[e.target])
		}
	}
	return b.String()
}

func main() {
	vlib.Main(vlib.Spec{
		ID:          "C11",
		Level:       "model_checking",
		CaseTimeout: 30 * time.Minute,
		Rule:        "programs = all valid assignments of operation sequences (18-op alphabet: PipelineSend/PipelineRecv on paths [0] and [1,0], Future.Client() incl. repeated requests for the same path, calls through saved pipelined clients, Fulfill, Reject, Join(Q), Q.Fulfill/Reject/Send/Join(S), S.Fulfill/Reject, ReleaseClients, Struct) to 1-3 symmetric threads, followed by a fixed epilogue (resolve what is unresolved, ReleaseClients on both promises, release the result message's capability table); for each program all schedules of the real answer.go/capability.go up to the preemption bound. Non-trivial = more than one schedule or outcome. states = sum over programs of distinct scheduling configurations; transitions = scheduling steps; traces = executions on the implementation.",
		Assumptions: []string{
			"scheduling points at every sync operation are sufficient (data-race freedom checked separately by a free-running -race pass, which decides nothing)",
			"API contract filter: at most one of Fulfill/Reject/Join per promise; blocking waits only in programs that eventually resolve the promise",
		},
		Families: func(tier string) []vlib.Family {
			if tier == "thorough" {
				return []vlib.Family{
					family("seq<=5", programs(1, 5), vsched.Config{MaxPreempt: 0, MaxDev: 0, MaxSteps: 20000}),
					family("par2x2-pb2", programs(2, 2), vsched.Config{MaxPreempt: 2, MaxDev: 0, MaxSteps: 20000}),
					family("par3x1-pb2", programs(3, 1), vsched.Config{MaxPreempt: 2, MaxDev: 0, MaxSteps: 20000}),
				}
			}
			return []vlib.Family{
				family("seq<=4", programs(1, 4), vsched.Config{MaxPreempt: 0, MaxDev: 0, MaxSteps: 20000}),
				family("par2x2-pb1", programs(2, 2), vsched.Config{MaxPreempt: 1, MaxDev: 0, MaxSteps: 20000}),
				family("par3x1-pb1", programs(3, 1), vsched.Config{MaxPreempt: 1, MaxDev: 0, MaxSteps: 20000}),
			}
		},
	})
}
