package sgen

import (
	"bytes"
	"fmt"
	"math"

	capnp "capnproto.org/go/capnp/v3"
	"capnproto.org/go/capnp/v3/internal/schema"
)

// Ids of std/go.capnp (file and annotations), from /repo/std/go.capnp as
// compiled into every real request (see capnpc-go/testdata/*.capnp.out).
const (
	goFileID  = 0xd12a1c51fedd6c88
	annPkg    = 0xbea97f1023792be0
	annImport = 0xe130b601260e44b5
	annDoc    = 0xc58ad6bd519f935e
	annTag    = 0xa574b41924caefc7
	annNoTag  = 0xc8768679ec52e012
	annCustom = 0xfa10659ae02f2093
	annName   = 0xc2b96012172f8df1
)

type goAnn struct {
	name                                                            string
	id                                                              uint64
	void                                                            bool
	file, cnst, enum, enumerant, strct, field, union, group, iface  bool
	method, param, annotation                                       bool
}

var goAnns = []goAnn{
	{name: "package", id: annPkg, file: true},
	{name: "import", id: annImport, file: true},
	{name: "doc", id: annDoc, strct: true, field: true, enum: true},
	{name: "tag", id: annTag, enumerant: true},
	{name: "notag", id: annNoTag, void: true, enumerant: true},
	{name: "customtype", id: annCustom, field: true},
	{name: "name", id: annName, strct: true, field: true, union: true, enum: true, enumerant: true, iface: true, method: true, param: true, annotation: true, cnst: true, group: true},
}

type ann struct {
	id   uint64
	text string
	void bool
}

type reqWriter struct {
	seg      *capnp.Segment
	usedAnns map[uint64]bool
}

func (w *reqWriter) anns(newList func(int32) (schema.Annotation_List, error), as []ann) error {
	if len(as) == 0 {
		return nil
	}
	l, err := newList(int32(len(as)))
	if err != nil {
		return err
	}
	for i, a := range as {
		w.usedAnns[a.id] = true
		l.At(i).SetId(a.id)
		v, err := l.At(i).NewValue()
		if err != nil {
			return err
		}
		if a.void {
			v.SetVoid()
		} else if err := v.SetText(a.text); err != nil {
			return err
		}
	}
	return nil
}

func (w *reqWriter) setType(t schema.Type, ty Type) error {
	switch ty.Kind {
	case Void:
		t.SetVoid()
	case Bool:
		t.SetBool()
	case Int8:
		t.SetInt8()
	case Int16:
		t.SetInt16()
	case Int32:
		t.SetInt32()
	case Int64:
		t.SetInt64()
	case Uint8:
		t.SetUint8()
	case Uint16:
		t.SetUint16()
	case Uint32:
		t.SetUint32()
	case Uint64:
		t.SetUint64()
	case Float32:
		t.SetFloat32()
	case Float64:
		t.SetFloat64()
	case Text:
		t.SetText()
	case Data:
		t.SetData()
	case List:
		t.SetList()
		e, err := t.List().NewElementType()
		if err != nil {
			return err
		}
		return w.setType(e, *ty.Elem)
	case Enum:
		t.SetEnum()
		t.Enum().SetTypeId(ty.Ref.ID)
	case Struct:
		t.SetStructType()
		t.StructType().SetTypeId(ty.Ref.ID)
	case Interface:
		t.SetInterface()
		t.Interface().SetTypeId(ty.Ref.ID)
	case AnyPointer:
		t.SetAnyPointer()
		t.AnyPointer().SetUnconstrained()
		t.AnyPointer().Unconstrained().SetAnyKind()
	default:
		return fmt.Errorf("sgen: type kind %d", ty.Kind)
	}
	return nil
}

// NodeSize is the object size the schema node declares.
func NodeSize(n *Node) capnp.ObjectSize {
	return capnp.ObjectSize{DataSize: capnp.Size(n.DataWords) * 8, PointerCount: n.PtrCount}
}

// BuildPtrDefault builds the struct / list default value d of type ty in seg
// using library primitives only (no generated code).
func BuildPtrDefault(seg *capnp.Segment, ty Type, d Default) (capnp.Ptr, error) {
	switch ty.Kind {
	case Struct:
		s, err := capnp.NewStruct(seg, NodeSize(ty.Ref))
		if err != nil {
			return capnp.Ptr{}, err
		}
		for i, x := range d.StructWords {
			if i < int(ty.Ref.DataWords) {
				s.SetUint64(capnp.DataOffset(8*i), x)
			}
		}
		if d.StructText != "" && ty.Ref.PtrCount > 0 {
			if err := s.SetText(0, d.StructText); err != nil {
				return capnp.Ptr{}, err
			}
		}
		return s.ToPtr(), nil
	case List:
		l, err := buildList(seg, *ty.Elem, d)
		return l.ToPtr(), err
	}
	return capnp.Ptr{}, fmt.Errorf("sgen: no pointer default for %v", ty)
}

// BuildList builds a list with element type et from d (library primitives).
func BuildList(seg *capnp.Segment, et Type, d Default) (capnp.List, error) {
	return buildList(seg, et, d)
}

func buildList(seg *capnp.Segment, et Type, d Default) (capnp.List, error) {
	n := int32(len(d.Elems))
	switch et.Kind {
	case Void:
		return capnp.NewVoidList(seg, n).List, nil
	case Bool:
		l, err := capnp.NewBitList(seg, n)
		if err != nil {
			return capnp.List{}, err
		}
		for i, x := range d.Elems {
			l.Set(i, x&1 != 0)
		}
		return l.List, nil
	case Int8, Uint8:
		l, err := capnp.NewUInt8List(seg, n)
		if err != nil {
			return capnp.List{}, err
		}
		for i, x := range d.Elems {
			l.Set(i, uint8(x))
		}
		return l.List, nil
	case Int16, Uint16, Enum:
		l, err := capnp.NewUInt16List(seg, n)
		if err != nil {
			return capnp.List{}, err
		}
		for i, x := range d.Elems {
			l.Set(i, uint16(x))
		}
		return l.List, nil
	case Int32, Uint32, Float32:
		l, err := capnp.NewUInt32List(seg, n)
		if err != nil {
			return capnp.List{}, err
		}
		for i, x := range d.Elems {
			l.Set(i, uint32(x))
		}
		return l.List, nil
	case Int64, Uint64, Float64:
		l, err := capnp.NewUInt64List(seg, n)
		if err != nil {
			return capnp.List{}, err
		}
		for i, x := range d.Elems {
			l.Set(i, x)
		}
		return l.List, nil
	case Text:
		l, err := capnp.NewTextList(seg, int32(len(d.Strs)))
		if err != nil {
			return capnp.List{}, err
		}
		for i, s := range d.Strs {
			if err := l.Set(i, s); err != nil {
				return capnp.List{}, err
			}
		}
		return l.List, nil
	case Data:
		l, err := capnp.NewDataList(seg, int32(len(d.Strs)))
		if err != nil {
			return capnp.List{}, err
		}
		for i, s := range d.Strs {
			if err := l.Set(i, []byte(s)); err != nil {
				return capnp.List{}, err
			}
		}
		return l.List, nil
	case Struct:
		l, err := capnp.NewCompositeList(seg, NodeSize(et.Ref), n)
		if err != nil {
			return capnp.List{}, err
		}
		if et.Ref.DataWords > 0 {
			for i, x := range d.Elems {
				l.Struct(i).SetUint64(0, x)
			}
		}
		return l, nil
	case Interface, AnyPointer:
		// elements stay null
		l, err := capnp.NewPointerList(seg, n)
		return l.List, err
	case List:
		if d.Sub == nil || (et.Elem.Kind.IsPtr() || et.Elem.Kind == Void) {
			l, err := capnp.NewPointerList(seg, n)
			return l.List, err
		}
		l, err := capnp.NewPointerList(seg, int32(len(d.Sub)))
		if err != nil {
			return capnp.List{}, err
		}
		for i, sub := range d.Sub {
			in, err := buildList(seg, *et.Elem, Default{Elems: sub})
			if err != nil {
				return capnp.List{}, err
			}
			if err := l.Set(i, in.ToPtr()); err != nil {
				return capnp.List{}, err
			}
		}
		return l.List, nil
	}
	return capnp.List{}, fmt.Errorf("sgen: no list default for element %v", et)
}

func (w *reqWriter) setValue(v schema.Value, ty Type, d Default) error {
	switch ty.Kind {
	case Void:
		v.SetVoid()
	case Bool:
		v.SetBool(d.Bits&1 != 0)
	case Int8:
		v.SetInt8(int8(d.Bits))
	case Int16:
		v.SetInt16(int16(d.Bits))
	case Int32:
		v.SetInt32(int32(d.Bits))
	case Int64:
		v.SetInt64(int64(d.Bits))
	case Uint8:
		v.SetUint8(uint8(d.Bits))
	case Uint16:
		v.SetUint16(uint16(d.Bits))
	case Uint32:
		v.SetUint32(uint32(d.Bits))
	case Uint64:
		v.SetUint64(d.Bits)
	case Float32:
		v.SetFloat32(math.Float32frombits(uint32(d.Bits)))
	case Float64:
		v.SetFloat64(math.Float64frombits(d.Bits))
	case Enum:
		v.SetEnum(uint16(d.Bits))
	case Text:
		// the compiler leaves the pointer null when there is no default
		if d.Explicit {
			return v.SetText(d.Text)
		}
		return v.SetText("")
	case Data:
		if d.Explicit {
			b := d.Data
			if b == nil {
				b = []byte{}
			}
			return v.SetData(b)
		}
		return v.SetData(nil)
	case Struct:
		if d.HasPtr {
			p, err := BuildPtrDefault(w.seg, ty, d)
			if err != nil {
				return err
			}
			return v.SetStructValue(p)
		}
		return v.SetStructValue(capnp.Ptr{})
	case List:
		if d.HasPtr {
			p, err := BuildPtrDefault(w.seg, ty, d)
			if err != nil {
				return err
			}
			return v.SetList(p)
		}
		return v.SetList(capnp.Ptr{})
	case Interface:
		v.SetInterface()
	case AnyPointer:
		return v.SetAnyPointer(capnp.Ptr{})
	}
	return nil
}

func nodeAnns(rename, doc string) []ann {
	var as []ann
	if doc != "" {
		as = append(as, ann{id: annDoc, text: doc})
	}
	if rename != "" {
		as = append(as, ann{id: annName, text: rename})
	}
	return as
}

func (w *reqWriter) writeNode(out schema.Node, n *Node) error {
	out.SetId(n.ID)
	if err := out.SetDisplayName(n.Display); err != nil {
		return err
	}
	out.SetDisplayNamePrefixLength(uint32(n.Prefix))
	switch {
	case n.ImplicitOf != "":
		out.SetScopeId(0)
	case n.Scope != nil:
		out.SetScopeId(n.Scope.ID)
	default:
		out.SetScopeId(n.File.ID)
	}
	if len(n.Nested) > 0 {
		nn, err := out.NewNestedNodes(int32(len(n.Nested)))
		if err != nil {
			return err
		}
		for i, c := range n.Nested {
			nn.At(i).SetId(c.ID)
			if err := nn.At(i).SetName(c.Name); err != nil {
				return err
			}
		}
	}
	if !n.IsGroup {
		if err := w.anns(out.NewAnnotations, nodeAnns(n.Rename, n.Doc)); err != nil {
			return err
		}
	}
	switch n.Kind {
	case NStruct:
		out.SetStructNode()
		sn := out.StructNode()
		sn.SetDataWordCount(n.DataWords)
		sn.SetPointerCount(n.PtrCount)
		sn.SetPreferredListEncoding(schema.ElementSize_inlineComposite)
		sn.SetIsGroup(n.IsGroup)
		sn.SetDiscriminantCount(n.DiscCount)
		sn.SetDiscriminantOffset(n.DiscOffset)
		fl, err := sn.NewFields(int32(len(n.Fields)))
		if err != nil {
			return err
		}
		for i, f := range n.Fields {
			of := fl.At(i)
			if err := of.SetName(f.Name); err != nil {
				return err
			}
			of.SetCodeOrder(uint16(i))
			of.SetDiscriminantValue(f.Disc)
			if err := w.anns(of.NewAnnotations, nodeAnns(f.Rename, f.Doc)); err != nil {
				return err
			}
			if f.Group != nil {
				of.SetGroup()
				of.Group().SetTypeId(f.Group.ID)
				of.Ordinal().SetImplicit()
				continue
			}
			of.SetSlot()
			sl := of.Slot()
			sl.SetOffset(f.Offset)
			t, err := sl.NewType()
			if err != nil {
				return err
			}
			if err := w.setType(t, f.Type); err != nil {
				return err
			}
			v, err := sl.NewDefaultValue()
			if err != nil {
				return err
			}
			if err := w.setValue(v, f.Type, f.Def); err != nil {
				return err
			}
			sl.SetHadExplicitDefault(f.Def.Explicit)
			of.Ordinal().SetExplicit(uint16(f.Ordinal))
		}
	case NEnum:
		out.SetEnum()
		el, err := out.Enum().NewEnumerants(int32(len(n.Enumerants)))
		if err != nil {
			return err
		}
		for i, e := range n.Enumerants {
			if err := el.At(i).SetName(e.Name); err != nil {
				return err
			}
			el.At(i).SetCodeOrder(uint16(i))
			var as []ann
			if e.Tag != "" {
				as = append(as, ann{id: annTag, text: e.Tag})
			}
			if e.NoTag {
				as = append(as, ann{id: annNoTag, void: true})
			}
			if e.Rename != "" {
				as = append(as, ann{id: annName, text: e.Rename})
			}
			if err := w.anns(el.At(i).NewAnnotations, as); err != nil {
				return err
			}
		}
	case NInterface:
		out.SetInterface()
		ml, err := out.Interface().NewMethods(int32(len(n.Methods)))
		if err != nil {
			return err
		}
		for i, m := range n.Methods {
			if err := ml.At(i).SetName(m.Name); err != nil {
				return err
			}
			ml.At(i).SetCodeOrder(uint16(i))
			ml.At(i).SetParamStructType(m.Params.ID)
			ml.At(i).SetResultStructType(m.Results.ID)
		}
		if len(n.Supers) > 0 {
			sl, err := out.Interface().NewSuperclasses(int32(len(n.Supers)))
			if err != nil {
				return err
			}
			for i, s := range n.Supers {
				sl.At(i).SetId(s.ID)
			}
		}
	case NConst:
		out.SetConst()
		t, err := out.Const().NewType()
		if err != nil {
			return err
		}
		if err := w.setType(t, n.CType); err != nil {
			return err
		}
		v, err := out.Const().NewValue()
		if err != nil {
			return err
		}
		d := n.CVal
		d.Explicit = true
		if err := w.setValue(v, n.CType, d); err != nil {
			return err
		}
	case NAnnotation:
		out.SetAnnotation()
		a := out.Annotation()
		t, err := a.NewType()
		if err != nil {
			return err
		}
		if err := w.setType(t, n.CType); err != nil {
			return err
		}
		a.SetTargetsStruct(true)
		a.SetTargetsField(true)
	}
	return nil
}

func (w *reqWriter) writeFile(out schema.Node, f *File) error {
	out.SetId(f.ID)
	if err := out.SetDisplayName(f.Name); err != nil {
		return err
	}
	// as observed in real requests ("group.capnp" -> 6, "go.capnp" -> 3)
	out.SetDisplayNamePrefixLength(uint32(len(f.Name) - len("capnp")))
	out.SetFile()
	nn, err := out.NewNestedNodes(int32(len(f.Nodes)))
	if err != nil {
		return err
	}
	for i, c := range f.Nodes {
		nn.At(i).SetId(c.ID)
		if err := nn.At(i).SetName(c.Name); err != nil {
			return err
		}
	}
	return w.anns(out.NewAnnotations, []ann{{id: annPkg, text: f.Pkg}, {id: annImport, text: f.Import}})
}

// closure returns f and every file it (transitively) imports.
func closure(fs []*File) []*File {
	var out []*File
	seen := map[*File]bool{}
	var add func(f *File)
	add = func(f *File) {
		if seen[f] {
			return
		}
		seen[f] = true
		out = append(out, f)
		for _, i := range f.Imports {
			add(i)
		}
	}
	for _, f := range fs {
		add(f)
	}
	return out
}

// Marshal serialises the request as the stream-framed message capnpc-go
// reads from stdin.
func (r *Request) Marshal() ([]byte, error) {
	msg, seg, err := capnp.NewMessage(capnp.SingleSegment(nil))
	if err != nil {
		return nil, err
	}
	req, err := schema.NewRootCodeGeneratorRequest(seg)
	if err != nil {
		return nil, err
	}
	w := &reqWriter{seg: seg, usedAnns: map[uint64]bool{annPkg: true, annImport: true}}
	files := closure(r.Files)
	// pass 1 only to learn which go.capnp annotations are referenced
	total := 0
	for _, f := range files {
		total += 1 + len(f.all)
		for _, n := range f.all {
			if n.Rename != "" {
				w.usedAnns[annName] = true
			}
			if n.Doc != "" {
				w.usedAnns[annDoc] = true
			}
			for _, fl := range n.Fields {
				if fl.Rename != "" {
					w.usedAnns[annName] = true
				}
				if fl.Doc != "" {
					w.usedAnns[annDoc] = true
				}
			}
			for _, e := range n.Enumerants {
				if e.Rename != "" {
					w.usedAnns[annName] = true
				}
				if e.Tag != "" {
					w.usedAnns[annTag] = true
				}
				if e.NoTag {
					w.usedAnns[annNoTag] = true
				}
			}
		}
	}
	nGo := 0
	for _, a := range goAnns {
		if w.usedAnns[a.id] {
			nGo++
		}
	}
	nodes, err := req.NewNodes(int32(total + 1 + nGo))
	if err != nil {
		return nil, err
	}
	k := 0
	for _, f := range files {
		if err := w.writeFile(nodes.At(k), f); err != nil {
			return nil, err
		}
		k++
		for _, n := range f.all {
			if err := w.writeNode(nodes.At(k), n); err != nil {
				return nil, fmt.Errorf("%s: %v", n.Display, err)
			}
			k++
		}
	}
	// go.capnp: file node and the annotation declarations in use
	gf := nodes.At(k)
	k++
	gf.SetId(goFileID)
	gf.SetDisplayName("go.capnp")
	gf.SetDisplayNamePrefixLength(3)
	gf.SetFile()
	gnn, err := gf.NewNestedNodes(int32(len(goAnns)))
	if err != nil {
		return nil, err
	}
	for i, a := range goAnns {
		gnn.At(i).SetId(a.id)
		gnn.At(i).SetName(a.name)
	}
	if err := w.anns(gf.NewAnnotations, []ann{{id: annPkg, text: "gocp"}, {id: annImport, text: "capnproto.org/go/capnp/v3/std/go"}}); err != nil {
		return nil, err
	}
	for _, a := range goAnns {
		if !w.usedAnns[a.id] {
			continue
		}
		an := nodes.At(k)
		k++
		an.SetId(a.id)
		an.SetDisplayName("go.capnp:" + a.name)
		an.SetDisplayNamePrefixLength(9)
		an.SetScopeId(goFileID)
		an.SetAnnotation()
		t, err := an.Annotation().NewType()
		if err != nil {
			return nil, err
		}
		if a.void {
			t.SetVoid()
		} else {
			t.SetText()
		}
		x := an.Annotation()
		x.SetTargetsFile(a.file)
		x.SetTargetsConst(a.cnst)
		x.SetTargetsEnum(a.enum)
		x.SetTargetsEnumerant(a.enumerant)
		x.SetTargetsStruct(a.strct)
		x.SetTargetsField(a.field)
		x.SetTargetsUnion(a.union)
		x.SetTargetsGroup(a.group)
		x.SetTargetsInterface(a.iface)
		x.SetTargetsMethod(a.method)
		x.SetTargetsParam(a.param)
		x.SetTargetsAnnotation(a.annotation)
	}
	if k != nodes.Len() {
		return nil, fmt.Errorf("sgen: wrote %d of %d nodes", k, nodes.Len())
	}
	rfs, err := req.NewRequestedFiles(int32(len(r.Files)))
	if err != nil {
		return nil, err
	}
	for i, f := range r.Files {
		rf := rfs.At(i)
		rf.SetId(f.ID)
		if err := rf.SetFilename(f.Name); err != nil {
			return nil, err
		}
		imps, err := rf.NewImports(int32(1 + len(f.Imports)))
		if err != nil {
			return nil, err
		}
		imps.At(0).SetId(goFileID)
		imps.At(0).SetName("/go.capnp")
		for j, im := range f.Imports {
			imps.At(j + 1).SetId(im.ID)
			imps.At(j + 1).SetName("/" + im.Name)
		}
	}
	var buf bytes.Buffer
	if err := capnp.NewEncoder(&buf).Encode(msg); err != nil {
		return nil, err
	}
	return buf.Bytes(), nil
}
