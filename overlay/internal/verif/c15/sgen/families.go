package sgen

import (
	"fmt"

	"capnproto.org/go/capnp/v3/internal/verif/c15/layout"
)

// Offsets is the slot-offset alphabet of the enumeration (the thorough tier
// uses every offset 0..13 for union members, too).
var Offsets = []uint32{0, 1, 2, 3, 5, 8, 13}

var denseOffsets = []uint32{0, 1, 2, 3, 4, 5, 6, 7, 8, 9, 10, 11, 12, 13}

func (sc Scope) offsets() []uint32 {
	if sc.Full {
		return denseOffsets
	}
	return Offsets
}

// DataKinds are the kinds stored in the data section (besides Void).
var DataKinds = []Kind{Bool, Int8, Int16, Int32, Int64, Uint8, Uint16, Uint32, Uint64, Float32, Float64, Enum}

// DefKind is the default-value alphabet.
type DefKind int

// Default kinds.
const (
	DZero DefKind = iota
	DOnes
	DSign
	DPattern
)

// DefKinds lists the alphabet; Tag names them.
var DefKinds = []DefKind{DZero, DOnes, DSign, DPattern}

// Tag is the identifier suffix of a default kind.
func (d DefKind) Tag() string { return []string{"Z", "O", "S", "P"}[d] }

// NEnumerants is the size of the enums the families declare.
const NEnumerants = 8

// DataDefault returns the default of kind k for default class d.
func DataDefault(k Kind, d DefKind) Default {
	if d == DZero {
		return Default{}
	}
	w := k.Bits()
	var bits uint64
	switch {
	case k == Bool:
		bits = map[DefKind]uint64{DOnes: 1, DSign: 1, DPattern: 0}[d]
	case k == Enum:
		// the compiler only accepts declared enumerants as defaults
		bits = map[DefKind]uint64{DOnes: NEnumerants - 1, DSign: NEnumerants / 2, DPattern: 5}[d]
	case d == DOnes:
		bits = layout.Mask(w, ^uint64(0))
	case d == DSign:
		bits = uint64(1) << uint(w-1)
	default:
		bits = layout.Mask(w, 0x5A5A5A5A5A5A5A5A)
	}
	return Default{Explicit: true, Bits: bits}
}

// Env is the set of helper nodes a file needs for reference types.
type Env struct {
	F *File
	E *Node // enum with NEnumerants enumerants
	T *Node // small target struct (2 data words, 1 pointer)
	I *Node // interface with one method
}

func newEnv(f *File) *Env {
	e := &Env{F: f}
	names := make([]string, NEnumerants)
	for i := range names {
		names[i] = fmt.Sprintf("e%d", i)
	}
	e.E = f.Enum("E", names...)
	e.T = f.Struct("T")
	e.T.Add("a", T(Uint64), 0, Default{})
	e.T.Add("b", T(Int32), 2, Default{})
	e.T.Add("c", T(Bool), 96, Default{})
	e.T.Add("t", T(Text), 0, Default{})
	e.T.Finish(0, 0)
	return e
}

func (e *Env) withIface() *Env {
	e.I = e.F.Iface("I")
	e.I.AddMethod("ping", nil, nil)
	m := e.I.Methods[0]
	m.Params.Add("n", T(Uint32), 0, Default{})
	m.Params.Finish(0, 0)
	m.Results.Add("r", T(Text), 0, Default{})
	m.Results.Finish(0, 0)
	return e
}

func (e *Env) dataType(k Kind) Type {
	if k == Enum {
		return RefTo(e.E)
	}
	return T(k)
}

// PtrType is one enumerated pointer field type with its optional default.
type PtrType struct {
	Tag string
	Ty  Type
	Def *Default // nil: the schema language has no default for this type
}

func (e *Env) ptrTypes(full bool) []PtrType {
	dl := func(d Default) *Default { d.Explicit, d.HasPtr = true, true; return &d }
	out := []PtrType{
		{"Text", T(Text), &Default{Explicit: true, Text: "dflt"}},
		{"Data", T(Data), &Default{Explicit: true, Data: []byte{0xd0, 0x00, 0xd2}}},
		{"Struct", RefTo(e.T), dl(Default{StructWords: []uint64{0x1122334455667788, 0x5A5A0000FFFF}, StructText: "dt"})},
		// a second struct-typed pointer with a different default: in unions it
		// shares its pointer slot with the first one
		{"Struct2", RefTo(e.T), dl(Default{StructWords: []uint64{0x0807060504030201, 0x00A5A5A500000001}, StructText: "second"})},
		{"Any", T(AnyPointer), nil},
		{"LBool", ListOf(T(Bool)), dl(Default{Elems: []uint64{1, 0, 1, 1, 0, 0, 0, 0, 1}})},
		{"LU8", ListOf(T(Uint8)), dl(Default{Elems: []uint64{1, 0xff, 0x5a}})},
		{"LI16", ListOf(T(Int16)), dl(Default{Elems: []uint64{0x8000, 1}})},
		{"LU32", ListOf(T(Uint32)), dl(Default{Elems: []uint64{0xffffffff}})},
		{"LF64", ListOf(T(Float64)), dl(Default{Elems: []uint64{0x3ff8000000000000, 0}})},
		{"LText", ListOf(T(Text)), dl(Default{Strs: []string{"x", "", "yz"}})},
		{"LData", ListOf(T(Data)), dl(Default{Strs: []string{"\x00\x01", "q"}})},
		{"LEnum", ListOf(RefTo(e.E)), dl(Default{Elems: []uint64{3, 0, 7}})},
		{"LStruct", ListOf(RefTo(e.T)), dl(Default{Elems: []uint64{7, 0xffffffffffffffff}})},
		{"LLI8", ListOf(ListOf(T(Int8))), dl(Default{Sub: [][]uint64{{1}, {}, {2, 0x80}}})},
	}
	if e.I != nil {
		out = append(out, PtrType{"Iface", RefTo(e.I), nil}, PtrType{"LIface", ListOf(RefTo(e.I)), nil})
	}
	if full {
		out = append(out,
			PtrType{"LI8", ListOf(T(Int8)), dl(Default{Elems: []uint64{0x80}})},
			PtrType{"LU16", ListOf(T(Uint16)), dl(Default{Elems: []uint64{0xffff, 2}})},
			PtrType{"LI32", ListOf(T(Int32)), dl(Default{Elems: []uint64{0x80000000}})},
			PtrType{"LF32", ListOf(T(Float32)), dl(Default{Elems: []uint64{0x3fc00000}})},
			PtrType{"LI64", ListOf(T(Int64)), dl(Default{Elems: []uint64{1 << 63}})},
			PtrType{"LU64", ListOf(T(Uint64)), dl(Default{Elems: []uint64{1, 2, 3}})},
			PtrType{"LLStruct", ListOf(ListOf(RefTo(e.T))), nil},
			PtrType{"LLText", ListOf(ListOf(T(Text))), nil},
		)
	}
	return out
}

func overlaps(s, n, s2, n2 int) bool { return s < s2+n2 && s2 < s+n }

// Scope selects the size of the enumeration.
type Scope struct {
	Tier string
	Full bool // thorough tier
}

// Universe is everything the harnesses enumerate.
type Universe struct {
	Requests []*Request
	Files    []*File
}

// Build enumerates the schema families for a tier.
func Build(tier string) *Universe {
	sc := Scope{Tier: tier, Full: tier == "thorough"}
	u := &Universe{}
	add := func(name string, fs ...*File) {
		u.Requests = append(u.Requests, &Request{Name: name, Files: fs})
	}
	plain := buildPlain(sc)
	ptr := buildPtr(sc)
	uni := buildUnion(sc)
	uptr := buildUnionPtr(sc)
	grp := buildGroup(sc)
	sizes := buildSizes(sc)
	other := buildOther(sc)
	misc := buildMisc(sc, other)
	lvoid := buildLVoid(sc)
	wide := buildWide(sc)
	deps, alias := buildAlias(sc)
	multiA, multiB := buildMulti(sc)
	add("plain", plain)
	add("ptr", ptr)
	add("union", uni)
	add("uptr", uptr)
	add("group", grp)
	// two requested files in one request, one importing the other
	add("sizes-other", sizes, other)
	// one requested file whose import is not requested (its nodes are in
	// the request nevertheless, as the compiler does)
	add("misc", misc)
	add("lvoid", lvoid)
	add("wide", wide)
	// four requested files in four directories, two of them with the same
	// Go package name, the others named like packages the generator imports
	add("aliasdeps", deps...)
	add("alias", alias)
	// two schema files of one Go package
	add("multi", multiA, multiB)
	u.Files = []*File{plain, ptr, uni, uptr, grp, sizes, other, misc, lvoid, wide}
	u.Files = append(u.Files, deps...)
	u.Files = append(u.Files, alias, multiA, multiB)
	for _, f := range u.Files {
		if err := f.Validate(); err != nil {
			panic(err)
		}
	}
	return u
}

// ---- plain: one struct per data kind and default class, dense offsets 0..13

func buildPlain(sc Scope) *File {
	f := NewFile("c15plain")
	env := newEnv(f)
	for _, k := range DataKinds {
		for _, d := range DefKinds {
			if k == Bool && d >= DSign {
				continue
			}
			s := f.Struct("P" + k.Tag() + d.Tag())
			for off := uint32(0); off <= 13; off++ {
				s.Add(fmt.Sprintf("f%d", off), env.dataType(k), off, DataDefault(k, d))
			}
			s.Finish(0, 0)
		}
	}
	v := f.Struct("PVoid")
	v.Add("v0", T(Void), 0, Default{})
	v.Add("v1", T(Void), 0, Default{})
	v.Finish(0, 0)
	// mixed widths packed the way the compiler packs them
	m := f.Struct("PMixed")
	m.Add("a", T(Uint8), 0, DataDefault(Uint8, DPattern))
	m.Add("b", T(Bool), 8, DataDefault(Bool, DOnes))
	m.Add("c", T(Int16), 1, DataDefault(Int16, DSign))
	m.Add("d", T(Float32), 1, DataDefault(Float32, DPattern))
	m.Add("e", T(Int64), 1, DataDefault(Int64, DOnes))
	m.Add("f", T(Bool), 9, Default{})
	m.Add("g", RefTo(env.E), 8, DataDefault(Enum, DOnes))
	m.Add("h", T(Text), 0, Default{})
	m.Finish(0, 0)
	return f
}

// ---- ptr: one struct per pointer type, with and without default, slots 0..13

func buildPtr(sc Scope) *File {
	f := NewFile("c15ptr")
	env := newEnv(f).withIface()
	for _, pt := range env.ptrTypes(sc.Full) {
		for _, withDef := range []bool{false, true} {
			if withDef && pt.Def == nil {
				continue
			}
			tag := "A"
			d := Default{}
			if withDef {
				tag, d = "D", *pt.Def
			}
			s := f.Struct("P" + pt.Tag + tag)
			for off := uint32(0); off <= 13; off++ {
				s.Add(fmt.Sprintf("p%d", off), pt.Ty, off, d)
			}
			s.Finish(0, 0)
		}
	}
	return f
}

// discVariants: discriminant offsets (16-bit units) 0, 1, 3 and one beyond
// every member (word 14).
var discVariants = []struct {
	Tag string
	Off uint32
}{{"0", 0}, {"1", 1}, {"3", 3}, {"H", 56}}

func addDataMembers(env *Env, n *Node, d DefKind, reserved [][2]int, shift func(k Kind) uint32, offs []uint32) {
	for _, k := range DataKinds {
		for _, o := range offs {
			off := o
			if shift != nil {
				off += shift(k)
			}
			s, w := layout.FieldBits(k.Bits(), off)
			bad := false
			for _, r := range reserved {
				if overlaps(s, w, r[0], r[1]) {
					bad = true
				}
			}
			if bad {
				continue
			}
			n.AddMember(fmt.Sprintf("m%so%d", k.Tag(), o), env.dataType(k), off, DataDefault(k, d))
		}
	}
}

func buildUnion(sc Scope) *File {
	f := NewFile("c15union")
	env := newEnv(f)
	for _, dv := range discVariants {
		for _, d := range DefKinds {
			s := f.Struct("U" + dv.Tag + d.Tag())
			s.DiscOffset = dv.Off
			ds, dw := layout.DiscriminantBits(dv.Off)
			s.AddMember("mVoidA", T(Void), 0, Default{})
			addDataMembers(env, s, d, [][2]int{{ds, dw}}, nil, sc.offsets())
			s.AddMember("mVoidB", T(Void), 0, Default{})
			// an ordinary field behind the union
			s.Add("tail", T(Uint64), 15, DataDefault(Uint64, d))
			s.Add("tailPtr", T(Text), 0, Default{})
			s.Finish(0, 0)
		}
	}
	return f
}

func buildUnionPtr(sc Scope) *File {
	f := NewFile("c15uptr")
	env := newEnv(f).withIface()
	for _, dv := range discVariants {
		if !sc.Full && (dv.Tag == "1" || dv.Tag == "H") {
			continue
		}
		for _, withDef := range []bool{false, true} {
			tag := "A"
			if withDef {
				tag = "D"
			}
			s := f.Struct("UP" + dv.Tag + tag)
			s.DiscOffset = dv.Off
			for _, pt := range env.ptrTypes(sc.Full) {
				d := Default{}
				if withDef {
					if pt.Def == nil {
						continue
					}
					d = *pt.Def
				}
				for _, o := range sc.offsets() {
					s.AddMember(fmt.Sprintf("m%so%d", pt.Tag, o), pt.Ty, o, d)
				}
			}
			s.AddMember("mVoid", T(Void), 0, Default{})
			// a data member shares the union with the pointer members
			s.AddMember("mU64", T(Uint64), 1, DataDefault(Uint64, DPattern))
			s.Finish(0, 0)
		}
	}
	return f
}

// ---- groups: in group, union inside group, group inside union

// regionOffsets are the in-region offsets of group fields.
var regionOffsets = []uint32{0, 1, 2, 3, 5}

func addRegionFields(env *Env, n *Node, prefix string, d DefKind, cursorBits *int, member bool) {
	for _, k := range DataKinds {
		w := k.Bits()
		// align the region to the field width and to a byte
		for *cursorBits%w != 0 || *cursorBits%8 != 0 {
			*cursorBits++
		}
		base := uint32(*cursorBits / w)
		for _, o := range regionOffsets {
			name := fmt.Sprintf("%s%so%d", prefix, k.Tag(), o)
			if member {
				n.AddMember(name, env.dataType(k), base+o, DataDefault(k, d))
			} else {
				n.Add(name, env.dataType(k), base+o, DataDefault(k, d))
			}
		}
		*cursorBits += w * 6
	}
}

func buildGroup(sc Scope) *File {
	f := NewFile("c15group")
	env := newEnv(f).withIface()
	pts := env.ptrTypes(false)
	for _, d := range DefKinds {
		// G: plain group
		{
			s := f.Struct("G" + d.Tag())
			s.Add("head", T(Uint16), 0, DataDefault(Uint16, d))
			g := s.AddGroup("g", false)
			cur := 16
			addRegionFields(env, g, "f", d, &cur, false)
			slot := uint32(0)
			for _, pt := range pts {
				df := Default{}
				if d != DZero && pt.Def != nil {
					df = *pt.Def
				}
				g.Add("p"+pt.Tag, pt.Ty, slot, df)
				slot++
			}
			g.Add("v", T(Void), 0, Default{})
			// group inside group
			gg := g.AddGroup("inner", false)
			for cur%64 != 0 {
				cur++
			}
			gg.Add("x", T(Uint64), uint32(cur/64), DataDefault(Uint64, d))
			gg.Add("y", T(Text), slot, Default{})
			s.Finish(0, 0)
		}
		// GU: union inside group (named union = group with a discriminant)
		{
			s := f.Struct("GU" + d.Tag())
			s.Add("head", T(Uint32), 0, DataDefault(Uint32, d))
			un := s.AddGroup("u", false)
			un.DiscOffset = 2 // bits 32..47
			un.AddMember("none", T(Void), 0, Default{})
			addDataMembers(env, un, d, [][2]int{{0, 48}}, nil, sc.offsets())
			for i, pt := range pts {
				df := Default{}
				if d != DZero && pt.Def != nil {
					df = *pt.Def
				}
				un.AddMember("p"+pt.Tag, pt.Ty, uint32(i%3), df)
			}
			// second, anonymous-style group with its own union after it
			g2 := s.AddGroup("w", false)
			g2.DiscOffset = 15 * 4 // word 15, first 16 bits
			g2.AddMember("a", T(Uint16), 15*4+1, DataDefault(Uint16, d))
			g2.AddMember("b", T(Bool), 15*64+16, DataDefault(Bool, d))
			g2.AddMember("c", T(Text), 3, Default{})
			s.Finish(0, 0)
		}
		// UG: group inside union
		{
			s := f.Struct("UG" + d.Tag())
			s.DiscOffset = 1
			s.Add("head", T(Uint16), 0, DataDefault(Uint16, d))
			s.AddMember("none", T(Void), 0, Default{})
			ga := s.AddGroup("ga", true)
			cur := 32
			addRegionFields(env, ga, "a", d, &cur, false)
			ga.Add("pa", T(Text), 0, Default{})
			ga.Add("sa", RefTo(env.T), 1, Default{})
			gb := s.AddGroup("gb", true)
			cur = 32
			addRegionFields(env, gb, "b", d, &cur, false)
			gb.Add("pb", T(Data), 0, Default{})
			gb.Add("lb", ListOf(T(Uint8)), 1, Default{})
			s.AddMember("solo", T(Uint64), 1, DataDefault(Uint64, d))
			// group in union holding a union itself
			gu := s.AddGroup("gu", true)
			gu.DiscOffset = 2
			gu.AddMember("x", T(Uint32), 2, DataDefault(Uint32, d))
			gu.AddMember("y", T(Float64), 2, DataDefault(Float64, d))
			gu.AddMember("z", T(Text), 0, Default{})
			gv := gu.AddGroup("gv", true)
			gv.Add("q", T(Int8), 16, DataDefault(Int8, d))
			gv.Add("r", T(Bool), 17*8+3, DataDefault(Bool, d))
			s.Finish(0, 0)
		}
	}
	return f
}

// ---- sizes: every data/pointer section size 0..3, holders with struct and
// list-of-struct fields

func buildSizes(sc Scope) *File {
	f := NewFile("c15sizes")
	var szs []*Node
	for dw := 0; dw <= 3; dw++ {
		for pc := 0; pc <= 3; pc++ {
			s := f.Struct(fmt.Sprintf("S%dx%d", dw, pc))
			for i := 0; i < dw; i++ {
				s.Add(fmt.Sprintf("d%d", i), T(Uint64), uint32(i), Default{})
			}
			for i := 0; i < pc; i++ {
				s.Add(fmt.Sprintf("p%d", i), T(Text), uint32(i), Default{})
			}
			s.Finish(0, 0)
			szs = append(szs, s)
		}
	}
	one := f.Struct("SBit")
	one.Add("b", T(Bool), 0, Default{})
	one.Finish(0, 0)
	big := f.Struct("SBig")
	big.Add("last", T(Uint8), 8*40-1, Default{})
	big.Add("lastPtr", T(Data), 20, Default{})
	big.Finish(0, 0)
	szs = append(szs, one, big)
	h := f.Struct("Holder")
	for i, s := range szs {
		h.Add("s"+s.Name[1:], RefTo(s), uint32(2*i), Default{})
		h.Add("l"+s.Name[1:], ListOf(RefTo(s)), uint32(2*i+1), Default{})
	}
	h.Finish(0, 0)
	// union of struct and list members of different sizes
	hu := f.Struct("HolderU")
	hu.DiscOffset = 2
	for _, s := range szs {
		hu.AddMember("s"+s.Name[1:], RefTo(s), 0, Default{})
		hu.AddMember("l"+s.Name[1:], ListOf(RefTo(s)), 1, Default{})
	}
	hu.Finish(0, 0)
	return f
}

// ---- other / misc: cross-package references, nesting, renames, docs,
// constants, annotations, interfaces

func buildOther(sc Scope) *File {
	f := NewFile("c15other")
	e := f.Enum("ExtEnum", "north", "east", "south", "west")
	e.Enumerants[1].Tag = "EAST!"
	e.Enumerants[2].NoTag = true
	e.Enumerants[3].Rename = "occident"
	x := f.Struct("Ext")
	x.Add("n", T(Int32), 0, DataDefault(Int32, DPattern))
	x.Add("dir", RefTo(e), 2, Default{Explicit: true, Bits: 2})
	x.Add("name", T(Text), 0, Default{})
	x.Finish(0, 0)
	i := f.Iface("ExtIface")
	i.AddMethod("poke", x, x)
	return f
}

func buildMisc(sc Scope, other *File) *File {
	f := NewFile("c15misc")
	f.Imports = []*File{other}
	var ext, extEnum, extIface *Node
	for _, n := range other.Nodes {
		switch n.Name {
		case "Ext":
			ext = n
		case "ExtEnum":
			extEnum = n
		case "ExtIface":
			extIface = n
		}
	}
	env := newEnv(f).withIface()

	// cross-package references
	x := f.Struct("X")
	x.Add("e", RefTo(ext), 0, Default{})
	x.Add("ed", RefTo(ext), 1, Default{Explicit: true, HasPtr: true, StructWords: []uint64{0x0003000000000009}})
	x.Add("le", ListOf(RefTo(ext)), 2, Default{})
	x.Add("en", RefTo(extEnum), 0, Default{})
	x.Add("end", RefTo(extEnum), 1, Default{Explicit: true, Bits: 3})
	x.Add("len", ListOf(RefTo(extEnum)), 3, Default{})
	x.Add("i", RefTo(extIface), 4, Default{})
	x.Add("li", ListOf(RefTo(extIface)), 5, Default{})
	x.Finish(0, 0)

	// nesting and renames
	o := f.Struct("Outer")
	in := o.NestedStruct("Inner")
	ie := o.NestedEnum("Color", "red", "green")
	deep := in.NestedStruct("Deep")
	deep.Add("v", T(Uint8), 3, DataDefault(Uint8, DOnes))
	deep.Finish(0, 0)
	in.Add("d", RefTo(deep), 0, Default{})
	in.Add("c", RefTo(ie), 1, Default{Explicit: true, Bits: 1})
	in.Add("ld", ListOf(RefTo(deep)), 1, Default{})
	in.Finish(0, 0)
	o.Add("in", RefTo(in), 0, Default{})
	o.Add("lin", ListOf(RefTo(in)), 1, Default{})
	o.Add("col", RefTo(ie), 0, Default{})
	o.Finish(0, 0)

	r := f.Struct("OldStruct").SetRename("Shiny")
	r.Doc = "Shiny has a doc comment."
	rf := r.Add("oldName", T(Int16), 1, DataDefault(Int16, DSign))
	rf.Rename = "newName"
	rf.Doc = "newName is documented."
	rg := r.AddGroup("oldGroup", false)
	r.Fields[len(r.Fields)-1].Rename = "freshGroup"
	rg.SetRename("freshGroup")
	rg.Add("inside", T(Uint32), 1, DataDefault(Uint32, DOnes))
	ru := r.AddGroup("pick", false)
	ru.DiscOffset = 4
	m1 := ru.AddMember("left", T(Uint16), 5, Default{})
	m1.Rename = "port"
	ru.AddMember("right", T(Text), 0, Default{})
	r.Finish(0, 0)
	re := f.Enum("PlainEnum", "alpha", "beta")
	re.SetRename("FancyEnum")
	re.Doc = "FancyEnum is documented."
	re.Enumerants[0].Rename = "first"
	re.Enumerants[1].Tag = "two"

	// interfaces: explicit and implicit parameter structs, inheritance
	base := f.Iface("BaseIface")
	base.AddMethod("get", nil, nil)
	base.Methods[0].Params.Finish(0, 0)
	base.Methods[0].Results.Add("v", T(Uint64), 0, Default{})
	base.Methods[0].Results.Finish(0, 0)
	der := f.Iface("DerivedIface")
	der.Supers = []*Node{base}
	der.AddMethod("put", x, nil)
	der.Methods[0].Results.Finish(0, 0)
	der.AddMethod("both", env.T, env.T)
	hold := f.Struct("IfaceHolder")
	hold.Add("b", RefTo(base), 0, Default{})
	hold.Add("d", RefTo(der), 1, Default{})
	hold.Add("any", T(AnyPointer), 2, Default{})
	hold.Finish(0, 0)

	// constants of every kind
	for _, k := range DataKinds {
		for _, d := range []DefKind{DOnes, DPattern} {
			f.Const("c"+k.Tag()+d.Tag(), env.dataType(k), DataDefault(k, d))
		}
	}
	f.Const("cText", T(Text), Default{Text: "const \"text\"\n"})
	f.Const("cData", T(Data), Default{Data: []byte{0, 1, 0xfe, 0xff}})
	f.Const("cStruct", RefTo(env.T), Default{HasPtr: true, StructWords: []uint64{42, 7}, StructText: "cs"})
	f.Const("cListU16", ListOf(T(Uint16)), Default{HasPtr: true, Elems: []uint64{1, 0xffff}})
	f.Const("cListText", ListOf(T(Text)), Default{HasPtr: true, Strs: []string{"a", "b"}})
	f.Const("cListStruct", ListOf(RefTo(env.T)), Default{HasPtr: true, Elems: []uint64{5, 6}})
	f.Const("cExtEnum", RefTo(extEnum), Default{Bits: 3})
	f.Const("cVoid", T(Void), Default{})
	f.Annotation("myAnn", T(Text))
	return f
}

// ---- List(Void) fields, kept in a package of their own: the generator is
// known to reject them ("no new function for VoidList"), which must not hide
// the rest of the pointer families.

func buildLVoid(sc Scope) *File {
	f := NewFile("c15lvoid")
	lv := ListOf(T(Void))
	def := Default{Explicit: true, HasPtr: true, Elems: []uint64{0, 0, 0}}
	for _, withDef := range []bool{false, true} {
		tag, d := "A", Default{}
		if withDef {
			tag, d = "D", def
		}
		s := f.Struct("PLVoid" + tag)
		for _, off := range Offsets {
			s.Add(fmt.Sprintf("p%d", off), lv, off, d)
		}
		s.Finish(0, 0)
		u := f.Struct("ULVoid" + tag)
		u.DiscOffset = 1
		for _, off := range Offsets {
			u.AddMember(fmt.Sprintf("m%d", off), lv, off, d)
		}
		u.Finish(0, 0)
	}
	return f
}

// ---- wide: offsets beyond 16 bits (byte offsets > 65535, 300 pointers)

func buildWide(sc Scope) *File {
	f := NewFile("c15wide")
	env := newEnv(f)
	s := f.Struct("Wide")
	s.Add("b63", T(Bool), 63, DataDefault(Bool, DOnes))
	s.Add("b64", T(Bool), 64, Default{})
	s.Add("b65", T(Bool), 65, DataDefault(Bool, DOnes))
	s.Add("b127", T(Bool), 127, Default{})
	s.Add("f64mid", T(Float64), 4096, DataDefault(Float64, DPattern))
	s.Add("e", RefTo(env.E), 32768, DataDefault(Enum, DOnes))
	s.Add("i16mid", T(Int16), 32769, DataDefault(Int16, DSign))
	s.Add("u64far", T(Uint64), 8998, DataDefault(Uint64, DOnes))
	s.Add("u32far", T(Uint32), 17998, DataDefault(Uint32, DPattern))
	s.Add("u16far", T(Uint16), 35998, DataDefault(Uint16, DSign))
	s.Add("bfar", T(Bool), 575991, DataDefault(Bool, DOnes))
	s.Add("u8far", T(Uint8), 71999, DataDefault(Uint8, DPattern))
	s.Add("lfar", ListOf(T(Uint8)), 297, Default{})
	s.Add("sfar", RefTo(env.T), 298, Default{})
	s.Add("pfar", T(Text), 299, Default{Explicit: true, Text: "far"})
	s.Finish(0, 0)
	u := f.Struct("WideU")
	u.DiscOffset = 35999
	u.AddMember("a", T(Uint8), 71990, DataDefault(Uint8, DOnes))
	u.AddMember("b", T(Bool), 575900, Default{})
	u.AddMember("c", T(Text), 299, Default{})
	u.AddMember("d", T(Int64), 8997, DataDefault(Int64, DSign))
	u.AddMember("v", T(Void), 0, Default{})
	u.Finish(0, 0)
	return f
}

// ---- alias: imported packages whose names clash with each other and with
// the packages the generated code itself imports

func buildAlias(sc Scope) ([]*File, *File) {
	var deps []*File
	var structs, enums []*Node
	for _, d := range []struct{ dir, pkg string }{
		{"c15a/text", "text"}, {"c15b/text", "text"}, {"c15c/capnp", "capnp"}, {"c15d/math", "math"},
		{"c15e/strconv", "strconv"}, {"c15f/schemas", "schemas"},
	} {
		f := NewFileIn(d.dir, d.pkg, d.pkg)
		e := f.Enum("Kind", "k0", "k1", "k2")
		x := f.Struct("Item")
		x.Add("v", T(Float32), 0, DataDefault(Float32, DPattern))
		x.Add("k", RefTo(e), 2, Default{Explicit: true, Bits: 2})
		x.Add("name", T(Text), 0, Default{Explicit: true, Text: d.dir})
		x.DiscOffset = 3
		x.AddMember("left", T(Uint8), 8, Default{})
		x.AddMember("right", T(Uint8), 8, DataDefault(Uint8, DOnes))
		x.Finish(0, 0)
		deps = append(deps, f)
		structs = append(structs, x)
		enums = append(enums, e)
	}
	f := NewFile("c15alias")
	f.Imports = deps
	a := f.Struct("UsesAll")
	a.Add("f", T(Float64), 0, DataDefault(Float64, DPattern))
	for i, x := range structs {
		a.Add(fmt.Sprintf("s%d", i), RefTo(x), uint32(2*i), Default{})
		a.Add(fmt.Sprintf("l%d", i), ListOf(RefTo(x)), uint32(2*i+1), Default{})
		a.Add(fmt.Sprintf("e%d", i), RefTo(enums[i]), uint32(4+i), Default{Explicit: true, Bits: 1})
	}
	a.DiscOffset = 4 + uint32(len(structs))
	a.AddMember("one", T(Void), 0, Default{})
	a.AddMember("two", T(Bool), 200, Default{})
	a.Finish(0, 0)
	f.Const("cItem", RefTo(structs[1]), Default{HasPtr: true, StructWords: []uint64{3}, StructText: "ci"})
	f.Const("cKind", RefTo(enums[2]), Default{Bits: 2})
	return deps, f
}

// ---- multi: two schema files compiled into the same Go package

func buildMulti(sc Scope) (*File, *File) {
	a := NewFileIn("c15multi", "first", "c15multi")
	b := NewFileIn("c15multi", "second", "c15multi")
	b.Imports = []*File{a}
	e := a.Enum("Shade", "dark", "light")
	sa := a.Struct("First")
	sa.Add("n", T(Int32), 0, DataDefault(Int32, DSign))
	sa.Add("sh", RefTo(e), 2, Default{Explicit: true, Bits: 1})
	sa.Add("t", T(Text), 0, Default{Explicit: true, Text: "one"})
	sa.Finish(0, 0)
	sb := b.Struct("Second")
	sb.Add("f", RefTo(sa), 0, Default{Explicit: true, HasPtr: true, StructWords: []uint64{5}, StructText: "two"})
	sb.Add("lf", ListOf(RefTo(sa)), 1, Default{})
	sb.Add("sh", RefTo(e), 0, Default{})
	sb.Add("lsh", ListOf(RefTo(e)), 2, Default{Explicit: true, HasPtr: true, Elems: []uint64{1, 0}})
	sb.Add("d", T(Data), 3, Default{Explicit: true, Data: []byte{9}})
	sb.Finish(0, 0)
	return a, b
}

// Filter keeps the files for which keep returns true (nil: all), their
// imports, and the requests all of whose requested files are kept.
func (u *Universe) Filter(keep func(*File) bool) *Universe {
	if keep == nil {
		return u
	}
	in := map[*File]bool{}
	var add func(f *File)
	add = func(f *File) {
		if !in[f] {
			in[f] = true
			for _, i := range f.Imports {
				add(i)
			}
		}
	}
	for _, f := range u.Files {
		if keep(f) {
			add(f)
		}
	}
	out := &Universe{}
	for _, f := range u.Files {
		if in[f] {
			out.Files = append(out.Files, f)
		}
	}
	for _, r := range u.Requests {
		ok := true
		for _, f := range r.Files {
			ok = ok && in[f]
		}
		if ok {
			out.Requests = append(out.Requests, r)
		}
	}
	return out
}
