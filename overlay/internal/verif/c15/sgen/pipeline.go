package sgen

import (
	"bytes"
	"crypto/sha256"
	"encoding/hex"
	"encoding/json"
	"fmt"
	"io/ioutil"
	"os"
	"os/exec"
	"path/filepath"
	"regexp"
	"sort"
	"strconv"
	"strings"
)

// The pipeline (run by pre.sh through the stage-1 harness binary):
//
//   requests -> capnpc-go built from $VERIF_REPO -> generated packages
//   (virtual packages internal/verif/c15gen/<pkg> through an overlay) ->
//   go build of each package (the "compiles" obligation; failures are
//   recorded, not fatal) -> registry files -> final harness linked with
//   every package that compiled.

const genTag = "c15gen"

// RepoDir returns the repository under test.
func RepoDir() string {
	if r := os.Getenv("VERIF_REPO"); r != "" {
		return r
	}
	return "/repo"
}

func goEnv() []string {
	env := os.Environ()
	return append(env, "GOFLAGS=-mod=mod", "GOPROXY=off", "GOSUMDB=off", "GOTOOLCHAIN=local")
}

func runIn(dir string, stdin []byte, name string, args ...string) (string, error) {
	cmd := exec.Command(name, args...)
	cmd.Dir = dir
	cmd.Env = goEnv()
	if stdin != nil {
		cmd.Stdin = bytes.NewReader(stdin)
	}
	var out bytes.Buffer
	cmd.Stdout = &out
	cmd.Stderr = &out
	err := cmd.Run()
	return out.String(), err
}

// RunGenerator runs the capnpc-go binary on a request in a fresh directory
// and returns the files it wrote (relative path -> content).
func RunGenerator(bin string, req []byte, dir string) (map[string][]byte, string, error) {
	if err := os.MkdirAll(dir, 0755); err != nil {
		return nil, "", err
	}
	out, err := runIn(dir, req, bin)
	files := map[string][]byte{}
	filepath.Walk(dir, func(p string, info os.FileInfo, e error) error {
		if e == nil && !info.IsDir() {
			b, _ := ioutil.ReadFile(p)
			rel, _ := filepath.Rel(dir, p)
			files[rel] = b
		}
		return nil
	})
	return files, out, err
}

func sha(b []byte) string {
	h := sha256.Sum256(b)
	return hex.EncodeToString(h[:])
}

// RunPipeline performs the whole multi-stage build for the harness package
// harnessRel (e.g. "internal/verif/c15") into build directory B.
func RunPipeline(B, harnessRel, tier string, keep func(*File) bool) error {
	repo := RepoDir()
	u := Build(tier).Filter(keep)
	gen := filepath.Join(B, "gen")
	os.RemoveAll(gen)
	for _, d := range []string{"req", "out", "reg"} {
		if err := os.MkdirAll(filepath.Join(gen, d), 0755); err != nil {
			return err
		}
	}
	st := &Status{BuildDir: B, Repo: repo, Tier: tier, Pkgs: map[string]*PkgStatus{}}
	for _, f := range u.Files {
		st.Pkgs[f.Key] = &PkgStatus{Name: f.Key, Generated: true}
	}

	// 1. the generator, from the current working tree
	bin := filepath.Join(B, "capnpc-go")
	if out, err := runIn(repo, nil, "go", "build", "-o", bin, "./capnpc-go"); err != nil {
		return fmt.Errorf("capnpc-go does not build from %s: %v\n%s", repo, err, out)
	}

	// 2. requests and generation
	outDir := filepath.Join(gen, "out")
	for _, r := range u.Requests {
		b, err := r.Marshal()
		if err != nil {
			return fmt.Errorf("request %s: %v", r.Name, err)
		}
		if err := VerifyRequest(r, b); err != nil {
			return fmt.Errorf("request %s does not read back as modelled: %v", r.Name, err)
		}
		if err := ioutil.WriteFile(filepath.Join(gen, "req", r.Name+".bin"), b, 0644); err != nil {
			return err
		}
		rs := &ReqStatus{Name: r.Name, Outputs: map[string]string{}}
		for _, f := range r.Files {
			rs.Files = append(rs.Files, f.Key)
		}
		tmp := filepath.Join(gen, "run-"+r.Name)
		files, stderr, err := RunGenerator(bin, b, tmp)
		rs.GenOK = err == nil
		rs.GenStderr = stderr
		if err != nil && stderr == "" {
			rs.GenStderr = err.Error()
		}
		for rel, content := range files {
			rs.Outputs[rel] = sha(content)
			dst := filepath.Join(outDir, rel)
			os.MkdirAll(filepath.Dir(dst), 0755)
			if err := ioutil.WriteFile(dst, content, 0644); err != nil {
				return err
			}
		}
		os.RemoveAll(tmp)
		st.Requests = append(st.Requests, rs)
	}

	// 3. overlay: base overlay of vcheck + generated packages
	var ov struct {
		Replace map[string]string
	}
	ob, err := ioutil.ReadFile(filepath.Join(B, "overlay.json"))
	if err != nil {
		return err
	}
	if err := json.Unmarshal(ob, &ov); err != nil {
		return err
	}
	for _, f := range u.Files {
		src := filepath.Join(outDir, f.Name+".go")
		ps := st.Pkgs[f.Key]
		if b, err := ioutil.ReadFile(src); err == nil {
			ps.Lines += bytes.Count(b, []byte("\n"))
			ov.Replace[filepath.Join(repo, "internal/verif/c15gen", f.Name+".go")] = src
		} else {
			ps.Generated = false // a package is generated iff all its files are
		}
	}
	ovPath := filepath.Join(B, "overlay-gen.json")
	writeOverlay := func() error {
		b, _ := json.MarshalIndent(ov, "", " ")
		return ioutil.WriteFile(ovPath, b, 0644)
	}
	if err := writeOverlay(); err != nil {
		return err
	}

	// 4. compile every generated package on its own
	var pkgs []string
	seenDir := map[string]bool{}
	for _, f := range u.Files {
		if st.Pkgs[f.Key].Generated && !seenDir[f.Dir] {
			seenDir[f.Dir] = true
			pkgs = append(pkgs, "./internal/verif/c15gen/"+f.Dir)
		}
	}
	if len(pkgs) > 0 {
		out, err := runIn(repo, nil, "go", append([]string{"build", "-overlay", ovPath}, pkgs...)...)
		failed := splitBuildErrors(out)
		for _, f := range u.Files {
			ps := st.Pkgs[f.Key]
			if !ps.Generated {
				continue
			}
			if msg, bad := failed[ImportBase+f.Dir]; bad {
				ps.CompileErr = msg
			} else {
				ps.Compiled = true
			}
		}
		if err != nil && len(failed) == 0 {
			return fmt.Errorf("go build of generated packages failed without package errors:\n%s", out)
		}
		// a package whose import failed to compile cannot be linked either
		for changed := true; changed; {
			changed = false
			for _, f := range u.Files {
				ps := st.Pkgs[f.Key]
				for _, im := range f.Imports {
					if ps.Compiled && !st.Pkgs[im.Key].Compiled {
						ps.Compiled = false
						ps.CompileErr = "import " + im.Key + " does not compile"
						changed = true
					}
				}
			}
		}
	}

	// 5. registry files + final link; drop packages whose registry does not
	// compile (a documented identifier is missing or has another type)
	regDir := filepath.Join(gen, "reg")
	for attempt := 0; ; attempt++ {
		for k := range ov.Replace {
			if strings.HasPrefix(filepath.Base(k), "zz_reg_") || filepath.Base(k) == "zz_status.go" {
				delete(ov.Replace, k)
			}
		}
		for _, f := range u.Files {
			ps := st.Pkgs[f.Key]
			ps.Linked = ps.Compiled && ps.LinkErr == ""
			if !ps.Linked {
				continue
			}
			name := "zz_reg_" + f.Key + "__" + strconv.FormatUint(f.ID, 16) + ".go"
			if err := ioutil.WriteFile(filepath.Join(regDir, name), []byte(RegistrySource(f)), 0644); err != nil {
				return err
			}
			ov.Replace[filepath.Join(repo, harnessRel, name)] = filepath.Join(regDir, name)
		}
		sj, _ := json.Marshal(st)
		status := "// +build " + genTag + "\n\npackage main\n\nimport (\n\t\"encoding/json\"\n\n\t\"capnproto.org/go/capnp/v3/internal/verif/c15/sgen\"\n)\n\n" +
			"func init() {\n\tsgen.Pipeline = new(sgen.Status)\n\tif err := json.Unmarshal([]byte(" + strconv.Quote(string(sj)) + "), sgen.Pipeline); err != nil {\n\t\tpanic(err)\n\t}\n}\n"
		if err := ioutil.WriteFile(filepath.Join(regDir, "zz_status.go"), []byte(status), 0644); err != nil {
			return err
		}
		ov.Replace[filepath.Join(repo, harnessRel, "zz_status.go")] = filepath.Join(regDir, "zz_status.go")
		if err := writeOverlay(); err != nil {
			return err
		}
		final := filepath.Join(B, "harness.new")
		out, err := runIn(repo, nil, "go", "build", "-tags", genTag, "-overlay", ovPath, "-o", final, "./"+harnessRel)
		if err == nil {
			return os.Rename(final, filepath.Join(B, "harness"))
		}
		// attribute the errors to registry files
		bad := map[string]string{}
		for _, line := range strings.Split(out, "\n") {
			if m := regexp.MustCompile(`zz_reg_([a-z0-9_]+?)__[0-9a-f]+\.go:\d+:\d+: (.*)`).FindStringSubmatch(line); m != nil {
				if len(bad[m[1]]) < 1500 {
					bad[m[1]] += m[2] + "\n"
				}
			}
		}
		if len(bad) == 0 || attempt > len(u.Files) {
			return fmt.Errorf("final harness does not link:\n%s", out)
		}
		for p, msg := range bad {
			st.Pkgs[p].LinkErr = msg
		}
	}
}

var pkgHeader = regexp.MustCompile(`^# (\S+)`)

// splitBuildErrors splits go build output into per-package error text.
func splitBuildErrors(out string) map[string]string {
	res := map[string]string{}
	cur := ""
	for _, line := range strings.Split(out, "\n") {
		if m := pkgHeader.FindStringSubmatch(line); m != nil {
			cur = m[1]
			res[cur] = ""
			continue
		}
		if cur != "" && line != "" && len(res[cur]) < 3000 {
			res[cur] += line + "\n"
		}
	}
	return res
}

// RegistrySource emits the registry file of one generated package: it names
// every type, constructor, constant the generator documents for the nodes of f.
func RegistrySource(f *File) string {
	var b bytes.Buffer
	p := "gen"
	fmt.Fprintf(&b, "// +build %s\n\n// Code generated by the C15 pipeline. DO NOT EDIT.\n\npackage main\n\nimport (\n", genTag)
	fmt.Fprintf(&b, "\tcapnp \"capnproto.org/go/capnp/v3\"\n\t\"capnproto.org/go/capnp/v3/internal/verif/c15/sgen\"\n\t%s %q\n)\n\n", p, f.Import)
	fmt.Fprintf(&b, "var _ capnp.Struct\n\nfunc init() {\n\tp := sgen.NewPkgEntry(%q)\n", f.Key)
	for _, n := range f.all {
		g := p + "." + n.GoName
		switch {
		case n.Kind == NStruct && n.IsGroup:
			fmt.Fprintf(&b, "\tp.Groups[%q] = func(s capnp.Struct) interface{} { return %s{Struct: s} }\n", n.GoName, g)
		case n.Kind == NStruct:
			fmt.Fprintf(&b, "\tp.Structs[%q] = &sgen.StructEntry{\n\t\tTypeID: %s_TypeID,\n", n.GoName, g)
			fmt.Fprintf(&b, "\t\tWrap: func(s capnp.Struct) interface{} { return %s{Struct: s} },\n", g)
			fmt.Fprintf(&b, "\t\tNew: func(s *capnp.Segment) (interface{}, error) { return %s.New%s(s) },\n", p, n.GoName)
			fmt.Fprintf(&b, "\t\tNewRoot: func(s *capnp.Segment) (interface{}, error) { return %s.NewRoot%s(s) },\n", p, n.GoName)
			fmt.Fprintf(&b, "\t\tReadRoot: func(m *capnp.Message) (interface{}, error) { return %s.ReadRoot%s(m) },\n", p, n.GoName)
			fmt.Fprintf(&b, "\t\tNewList: func(s *capnp.Segment, n int32) (interface{}, error) { return %s.New%s_List(s, n) },\n", p, n.GoName)
			fmt.Fprintf(&b, "\t\tWrapList: func(l capnp.List) interface{} { return %s_List{List: l} },\n\t}\n", g)
		case n.Kind == NEnum:
			fmt.Fprintf(&b, "\tp.Enums[%q] = &sgen.EnumEntry{\n\t\tTypeID: %s_TypeID,\n", n.GoName, g)
			fmt.Fprintf(&b, "\t\tMake: func(v uint16) interface{} { return %s(v) },\n", g)
			fmt.Fprintf(&b, "\t\tNewList: func(s *capnp.Segment, n int32) (interface{}, error) { return %s.New%s_List(s, n) },\n", p, n.GoName)
			fmt.Fprintf(&b, "\t\tValues: map[string]uint16{\n")
			for _, e := range n.Enumerants {
				c := n.GoName + "_" + e.GoName()
				fmt.Fprintf(&b, "\t\t\t%q: uint16(%s.%s),\n", c, p, c)
			}
			fmt.Fprintf(&b, "\t\t},\n\t}\n")
		case n.Kind == NInterface:
			fmt.Fprintf(&b, "\tp.Ifaces[%q] = &sgen.IfaceEntry{\n\t\tTypeID: %s_TypeID,\n", n.GoName, g)
			fmt.Fprintf(&b, "\t\tMake: func(c *capnp.Client) interface{} { return %s{Client: c} },\n\t}\n", g)
		case n.Kind == NConst:
			fmt.Fprintf(&b, "\tp.Consts[%q] = %s\n", n.GoName, g)
		case n.Kind == NAnnotation:
			fmt.Fprintf(&b, "\tp.Annots[%q] = %s\n", n.GoName, g)
		}
		if n.Kind == NStruct && n.DiscCount > 0 {
			for _, fl := range n.Fields {
				if fl.InUnion() {
					c := n.GoName + "_Which_" + fl.RawName()
					fmt.Fprintf(&b, "\tp.Which[%q] = uint16(%s.%s)\n", c, p, c)
				}
			}
		}
	}
	b.WriteString("}\n")
	return b.String()
}

// SortedPkgs lists the registry package names.
func SortedPkgs() []string {
	var out []string
	for k := range Registry {
		out = append(out, k)
	}
	sort.Strings(out)
	return out
}
