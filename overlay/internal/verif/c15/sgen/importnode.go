package sgen

import (
	"fmt"
	"math"
	"strings"

	capnp "capnproto.org/go/capnp/v3"
	"capnproto.org/go/capnp/v3/internal/nodemap"
	"capnproto.org/go/capnp/v3/internal/schema"
)

// Importer converts schema nodes found in the schema registry (registered by
// generated code such as internal/aircraftlib) into the sgen model, so the
// same generic walkers serve hand-written schemas and the generated family.
type Importer struct {
	File  *File
	nm    nodemap.Map
	nodes map[uint64]*Node
}

// NewImporter creates an importer whose nodes belong to the Go package pkg.
func NewImporter(pkg string) *Importer {
	return &Importer{File: NewFile(pkg), nodes: map[uint64]*Node{}}
}

// Node imports (memoised) the node with the given id.
func (im *Importer) Node(id uint64) (*Node, error) {
	if n, ok := im.nodes[id]; ok {
		return n, nil
	}
	sn, err := im.nm.Find(id)
	if err != nil {
		return nil, err
	}
	if !sn.IsValid() {
		return nil, fmt.Errorf("node %#x not registered", id)
	}
	dn, _ := sn.DisplayName()
	short := dn[sn.DisplayNamePrefixLength():]
	n := &Node{ID: id, Name: short, Display: dn, Prefix: int(sn.DisplayNamePrefixLength()), File: im.File}
	// Go name: scope chain below the file, joined with "_"
	n.GoName = strings.Title(strings.Replace(dn[strings.Index(dn, ":")+1:], ".", "_", -1))
	im.nodes[id] = n
	im.File.all = append(im.File.all, n)
	switch sn.Which() {
	case schema.Node_Which_enum:
		n.Kind = NEnum
		es, _ := sn.Enum().Enumerants()
		for i := 0; i < es.Len(); i++ {
			name, _ := es.At(i).Name()
			n.Enumerants = append(n.Enumerants, Enumerant{Name: name})
		}
	case schema.Node_Which_interface:
		n.Kind = NInterface
	case schema.Node_Which_structNode:
		n.Kind = NStruct
		s := sn.StructNode()
		n.DataWords, n.PtrCount = s.DataWordCount(), s.PointerCount()
		n.IsGroup = s.IsGroup()
		n.DiscCount, n.DiscOffset = s.DiscriminantCount(), s.DiscriminantOffset()
		if n.IsGroup {
			sc, err := im.Node(sn.ScopeId())
			if err != nil {
				return nil, err
			}
			n.Scope = sc
		}
		fs, err := s.Fields()
		if err != nil {
			return nil, err
		}
		for i := 0; i < fs.Len(); i++ {
			sf := fs.At(i)
			name, _ := sf.Name()
			f := &Field{Name: name, Disc: sf.DiscriminantValue(), Owner: n, Ordinal: -1}
			n.Fields = append(n.Fields, f)
			if sf.Which() == schema.Field_Which_group {
				g, err := im.Node(sf.Group().TypeId())
				if err != nil {
					return nil, err
				}
				g.Scope = n
				g.GoName = n.GoName + "_" + name
				f.Group = g
				continue
			}
			f.Offset = sf.Slot().Offset()
			st, _ := sf.Slot().Type()
			ty, err := im.typ(st)
			if err != nil {
				return nil, fmt.Errorf("%s.%s: %v", dn, name, err)
			}
			f.Type = ty
			dv, _ := sf.Slot().DefaultValue()
			f.Def = importDefault(ty, dv, sf.Slot().HadExplicitDefault())
		}
	default:
		return nil, fmt.Errorf("node %s: unsupported kind %v", dn, sn.Which())
	}
	return n, nil
}

func (im *Importer) typ(t schema.Type) (Type, error) {
	k := Kind(t.Which())
	switch k {
	case List:
		et, err := t.List().ElementType()
		if err != nil {
			return Type{}, err
		}
		e, err := im.typ(et)
		if err != nil {
			return Type{}, err
		}
		return ListOf(e), nil
	case Enum:
		n, err := im.Node(t.Enum().TypeId())
		return Type{Kind: Enum, Ref: n}, err
	case Struct:
		n, err := im.Node(t.StructType().TypeId())
		return Type{Kind: Struct, Ref: n}, err
	case Interface:
		n, err := im.Node(t.Interface().TypeId())
		return Type{Kind: Interface, Ref: n}, err
	case AnyPointer:
		ty := Type{Kind: AnyPointer}
		if t.AnyPointer().Which() == schema.Type_anyPointer_Which_unconstrained {
			ty.AnyKind = int(t.AnyPointer().Unconstrained().Which())
		}
		return ty, nil
	}
	return T(k), nil
}

func importDefault(ty Type, dv schema.Value, explicit bool) Default {
	d := Default{Explicit: explicit}
	if !dv.IsValid() {
		return d
	}
	switch ty.Kind {
	case Bool:
		if dv.Bool() {
			d.Bits = 1
		}
	case Int8:
		d.Bits = uint64(uint8(dv.Int8()))
	case Int16:
		d.Bits = uint64(uint16(dv.Int16()))
	case Int32:
		d.Bits = uint64(uint32(dv.Int32()))
	case Int64:
		d.Bits = uint64(dv.Int64())
	case Uint8:
		d.Bits = uint64(dv.Uint8())
	case Uint16:
		d.Bits = uint64(dv.Uint16())
	case Uint32:
		d.Bits = uint64(dv.Uint32())
	case Uint64:
		d.Bits = dv.Uint64()
	case Float32:
		d.Bits = uint64(math.Float32bits(dv.Float32()))
	case Float64:
		d.Bits = math.Float64bits(dv.Float64())
	case Enum:
		d.Bits = uint64(dv.Enum())
	case Text:
		d.Text, _ = dv.Text()
		d.Explicit = dv.HasText()
	case Data:
		d.Data, _ = dv.Data()
		d.Explicit = dv.HasData()
	case Struct:
		p, _ := dv.StructValue()
		d.Raw, d.HasPtr = p, p.IsValid()
	case List:
		p, _ := dv.List()
		d.Raw, d.HasPtr = p, p.IsValid()
	case AnyPointer:
		p, _ := dv.AnyPointer()
		d.Raw, d.HasPtr = p, p.IsValid()
	}
	return d
}

// DefaultPtr returns the pointer default of a field as a capnp.Ptr (built in
// seg for modelled defaults, or the registered schema's own value).
func DefaultPtr(seg *capnp.Segment, ty Type, d Default) (capnp.Ptr, error) {
	if d.Raw.IsValid() {
		return d.Raw, nil
	}
	if !d.HasPtr {
		return capnp.Ptr{}, nil
	}
	return BuildPtrDefault(seg, ty, d)
}
