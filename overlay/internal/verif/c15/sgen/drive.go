package sgen

import (
	"fmt"
	"math"
	"reflect"

	capnp "capnproto.org/go/capnp/v3"
	"capnproto.org/go/capnp/v3/internal/verif/c15/layout"
)

// This file drives generated code through reflection (shared by C15 and C19).

// Obj is a struct of a schema node allocated as the root of a fresh
// single-segment message, with raw access to its bytes.
type Obj struct {
	Msg  *capnp.Message
	Seg  *capnp.Segment
	St   capnp.Struct
	Node *Node // base (non-group) node
	Base int   // byte offset of the struct inside the segment
}

// Size in bytes of the struct (data + pointers).
func (o *Obj) Size() int { return 8 * (int(o.Node.DataWords) + int(o.Node.PtrCount)) }

// Bytes returns a copy of the struct's bytes.
func (o *Obj) Bytes() []byte {
	d := o.Seg.Data()
	return append([]byte{}, d[o.Base:o.Base+o.Size()]...)
}

// Raw returns the live bytes of the struct (valid until the next allocation).
func (o *Obj) Raw() []byte {
	d := o.Seg.Data()
	return d[o.Base : o.Base+o.Size()]
}

// Snapshot copies the whole segment.
func (o *Obj) Snapshot() []byte { return append([]byte{}, o.Seg.Data()...) }

// PtrWord returns pointer slot i of the struct.
func (o *Obj) PtrWord(i int) uint64 { return layout.Word(o.Raw(), int(o.Node.DataWords)+i) }

// SlotWordIndex is the segment word index of pointer slot i.
func (o *Obj) SlotWordIndex(i int) int { return o.Base/8 + int(o.Node.DataWords) + i }

// NewObj allocates a struct of node n (size from the schema node) as message
// root.  bg 0: all zero; bg 1: every data byte 0xFF and every pointer slot
// pointing to its own small text.
func NewObj(n *Node, bg int) (*Obj, error) {
	msg, seg, err := capnp.NewMessage(capnp.SingleSegment(nil))
	if err != nil {
		return nil, err
	}
	st, err := capnp.NewRootStruct(seg, NodeSize(n))
	if err != nil {
		return nil, err
	}
	o := &Obj{Msg: msg, Seg: seg, St: st, Node: n}
	root := layout.DecodePtr(layout.Word(seg.Data(), 0))
	if n.DataWords == 0 && n.PtrCount == 0 {
		// zero-sized struct: the spec encodes it with offset -1; there is
		// nothing to look at
		o.Base = 8
		if root.Null || root.Kind != layout.PtrStruct || root.DataWords != 0 || root.PtrWords != 0 {
			return nil, fmt.Errorf("harness: root pointer of empty struct is %v", root)
		}
		return o, nil
	}
	if root.Null || root.Kind != layout.PtrStruct || root.DataWords != n.DataWords || root.PtrWords != n.PtrCount {
		return nil, fmt.Errorf("harness: root pointer is %v, want struct %d/%d", root, n.DataWords, n.PtrCount)
	}
	o.Base = 8 * (1 + int(root.Off))
	if bg == 1 {
		for i := 0; i < int(n.PtrCount); i++ {
			if err := st.SetText(uint16(i), fmt.Sprintf("bg%02d", i)); err != nil {
				return nil, err
			}
		}
		raw := o.Raw()
		for i := 0; i < 8*int(n.DataWords); i++ {
			raw[i] = 0xFF
		}
	}
	return o, nil
}

// Wrapped returns the generated wrapper value for node g (the base node or
// one of its groups) obtained the documented way: the base type's wrapper,
// then one group accessor per level.
func (o *Obj) Wrapped(p *PkgEntry, g *Node) (reflect.Value, error) {
	e := p.Structs[o.Node.GoName]
	if e == nil {
		return reflect.Value{}, fmt.Errorf("no registry entry for %s", o.Node.GoName)
	}
	v := reflect.ValueOf(e.Wrap(o.St))
	for _, f := range o.Node.PathTo(g) {
		m := v.MethodByName(f.GoName())
		if !m.IsValid() {
			return reflect.Value{}, &MissingError{Type: v.Type().String(), Method: f.GoName()}
		}
		if m.Type().NumIn() != 0 || m.Type().NumOut() != 1 {
			return reflect.Value{}, fmt.Errorf("group accessor %s.%s has signature %v", v.Type(), f.GoName(), m.Type())
		}
		v = m.Call(nil)[0]
		if want := p.Name + "." + f.Group.GoName; v.Type().String() != want {
			return reflect.Value{}, fmt.Errorf("group accessor %s returns %v, want %s", f.GoName(), v.Type(), want)
		}
		if st, ok := v.Field(0).Interface().(capnp.Struct); !ok || st != o.St {
			return reflect.Value{}, fmt.Errorf("group accessor %s does not return the same struct", f.GoName())
		}
	}
	return v, nil
}

// MissingError reports a documented accessor that the generated type lacks.
type MissingError struct{ Type, Method string }

func (e *MissingError) Error() string { return e.Type + " has no method " + e.Method }

// Call invokes method name on v with args converted to the parameter types.
// A panic inside the generated code is returned in pan.
func Call(v reflect.Value, name string, args ...interface{}) (out []reflect.Value, pan interface{}, err error) {
	m := v.MethodByName(name)
	if !m.IsValid() {
		return nil, nil, &MissingError{Type: v.Type().String(), Method: name}
	}
	mt := m.Type()
	if mt.NumIn() != len(args) {
		return nil, nil, fmt.Errorf("%s.%s takes %d arguments, want %d (%v)", v.Type(), name, mt.NumIn(), len(args), mt)
	}
	in := make([]reflect.Value, len(args))
	for i, a := range args {
		pt := mt.In(i)
		var av reflect.Value
		if a == nil {
			av = reflect.Zero(pt)
		} else {
			av = reflect.ValueOf(a)
			if rv, ok := a.(reflect.Value); ok {
				av = rv
			}
		}
		if !av.Type().AssignableTo(pt) {
			if !av.Type().ConvertibleTo(pt) || av.Kind() != pt.Kind() {
				return nil, nil, fmt.Errorf("%s.%s parameter %d is %v, cannot pass %v", v.Type(), name, i, pt, av.Type())
			}
			av = av.Convert(pt)
		}
		in[i] = av
	}
	func() {
		defer func() {
			if p := recover(); p != nil {
				pan = p
			}
		}()
		out = m.Call(in)
	}()
	return out, pan, nil
}

// GoValue converts a bit pattern to the Go value of a data kind (enums as
// uint16; Call converts to the generated enum type).
func GoValue(k Kind, bits uint64) interface{} {
	switch k {
	case Bool:
		return bits&1 != 0
	case Int8:
		return int8(bits)
	case Int16:
		return int16(bits)
	case Int32:
		return int32(bits)
	case Int64:
		return int64(bits)
	case Uint8:
		return uint8(bits)
	case Uint16, Enum:
		return uint16(bits)
	case Uint32:
		return uint32(bits)
	case Uint64:
		return bits
	case Float32:
		return math.Float32frombits(uint32(bits))
	case Float64:
		return math.Float64frombits(bits)
	}
	panic("GoValue: " + k.String())
}

// GoKind is the reflect kind of the Go type documented for a data kind.
func GoKind(k Kind) reflect.Kind {
	return map[Kind]reflect.Kind{Bool: reflect.Bool, Int8: reflect.Int8, Int16: reflect.Int16, Int32: reflect.Int32,
		Int64: reflect.Int64, Uint8: reflect.Uint8, Uint16: reflect.Uint16, Uint32: reflect.Uint32, Uint64: reflect.Uint64,
		Float32: reflect.Float32, Float64: reflect.Float64, Enum: reflect.Uint16}[k]
}

// BitsOf converts a returned Go value of a data kind back to its bit pattern.
func BitsOf(v reflect.Value) uint64 {
	switch v.Kind() {
	case reflect.Bool:
		if v.Bool() {
			return 1
		}
		return 0
	case reflect.Int8:
		return uint64(uint8(v.Int()))
	case reflect.Int16:
		return uint64(uint16(v.Int()))
	case reflect.Int32:
		return uint64(uint32(v.Int()))
	case reflect.Int64:
		return uint64(v.Int())
	case reflect.Uint8, reflect.Uint16, reflect.Uint32, reflect.Uint64:
		return v.Uint()
	case reflect.Float32:
		return uint64(math.Float32bits(v.Convert(reflect.TypeOf(float32(0))).Interface().(float32)))
	case reflect.Float64:
		return math.Float64bits(v.Float())
	}
	panic("BitsOf: " + v.Type().String())
}

// GoTypeName is the Go type the generator documents for a field type, as
// printed by reflect (package-qualified), for file f's package.
func GoTypeName(t Type) string {
	switch t.Kind {
	case Bool, Int8, Int16, Int32, Int64, Uint8, Uint16, Uint32, Uint64, Float32, Float64:
		return GoKind(t.Kind).String()
	case Text:
		return "string"
	case Data:
		return "[]uint8"
	case Enum, Struct, Interface:
		return t.Ref.File.Pkg + "." + t.Ref.GoName
	case AnyPointer:
		return "capnp.Ptr"
	case List:
		switch t.Elem.Kind {
		case Void:
			return "capnp.VoidList"
		case Bool:
			return "capnp.BitList"
		case Int8:
			return "capnp.Int8List"
		case Int16:
			return "capnp.Int16List"
		case Int32:
			return "capnp.Int32List"
		case Int64:
			return "capnp.Int64List"
		case Uint8:
			return "capnp.UInt8List"
		case Uint16:
			return "capnp.UInt16List"
		case Uint32:
			return "capnp.UInt32List"
		case Uint64:
			return "capnp.UInt64List"
		case Float32:
			return "capnp.Float32List"
		case Float64:
			return "capnp.Float64List"
		case Text:
			return "capnp.TextList"
		case Data:
			return "capnp.DataList"
		case Enum, Struct:
			return t.Elem.Ref.File.Pkg + "." + t.Elem.Ref.GoName + "_List"
		default:
			return "capnp.PointerList"
		}
	}
	return "?"
}

// Canon deep-copies p into a fresh message and returns its bytes: two
// pointers have equal Canon bytes iff they are structurally identical.
func Canon(p capnp.Ptr) ([]byte, error) {
	msg, _, err := capnp.NewMessage(capnp.SingleSegment(nil))
	if err != nil {
		return nil, err
	}
	if err := msg.SetRoot(p); err != nil {
		return nil, err
	}
	return msg.Marshal()
}
