// Package sgen is the schema generator shared by the C15 and C19 harnesses.
//
// There is no capnp schema compiler in the sandbox, so sgen keeps a small
// in-memory model of schema files (structs, groups, unions, enums,
// interfaces, constants, annotations), enumerates the schema families the
// checks need, and serialises them as CodeGeneratorRequest messages the way
// `capnp compile` emits them (request.go).  The same model is what the
// oracles read; the generator under test (capnpc-go) only ever sees the
// serialised request.
package sgen

import (
	"fmt"
	"hash/fnv"
	"sort"
	"strings"

	capnp "capnproto.org/go/capnp/v3"
	"capnproto.org/go/capnp/v3/internal/verif/c15/layout"
)

// Kind is a schema type kind (Type union of schema.capnp).
type Kind int

// Kinds, in the order of schema.capnp's Type union.
const (
	Void Kind = iota
	Bool
	Int8
	Int16
	Int32
	Int64
	Uint8
	Uint16
	Uint32
	Uint64
	Float32
	Float64
	Text
	Data
	List
	Enum
	Struct
	Interface
	AnyPointer
)

var kindNames = []string{"void", "bool", "int8", "int16", "int32", "int64", "uint8", "uint16", "uint32", "uint64",
	"float32", "float64", "text", "data", "list", "enum", "struct", "interface", "anyPointer"}

// String returns the schema.capnp name of the kind.
func (k Kind) String() string { return kindNames[k] }

// Tag is a short CamelCase tag for identifiers.
func (k Kind) Tag() string {
	return []string{"Void", "Bool", "I8", "I16", "I32", "I64", "U8", "U16", "U32", "U64", "F32", "F64",
		"Text", "Data", "List", "Enum", "Struct", "Iface", "Any"}[k]
}

// Bits is the data-section width; 0 for void, -1 for pointers.
func (k Kind) Bits() int { return layout.DataBits(k.String()) }

// IsPtr reports whether fields of this kind live in the pointer section.
func (k Kind) IsPtr() bool { return k.Bits() < 0 }

// Type is a schema type.
type Type struct {
	Kind Kind
	Elem *Type // List
	Ref  *Node // Enum, Struct, Interface
	// AnyKind refines AnyPointer: 0 any, 1 AnyStruct, 2 AnyList, 3 Capability
	AnyKind int
}

// T builds a primitive type.
func T(k Kind) Type { return Type{Kind: k} }

// ListOf builds List(e).
func ListOf(e Type) Type { return Type{Kind: List, Elem: &e} }

// RefTo builds a reference to an enum/struct/interface node.
func RefTo(n *Node) Type {
	switch n.Kind {
	case NEnum:
		return Type{Kind: Enum, Ref: n}
	case NStruct:
		return Type{Kind: Struct, Ref: n}
	case NInterface:
		return Type{Kind: Interface, Ref: n}
	}
	panic("sgen: RefTo " + n.Name)
}

// Tag names a type for identifiers (ListOfU8, ...).
func (t Type) Tag() string {
	switch t.Kind {
	case List:
		return "L" + t.Elem.Tag()
	}
	return t.Kind.Tag()
}

func (t Type) String() string {
	switch t.Kind {
	case List:
		return "List(" + t.Elem.String() + ")"
	case Enum, Struct, Interface:
		return t.Kind.String() + ":" + t.Ref.Display
	}
	return t.Kind.String()
}

// Default is a field default or constant value.
type Default struct {
	// Explicit mirrors Field.slot.hadExplicitDefault.
	Explicit bool
	// Bits: bit pattern of a data-kind value (bool 0/1, enum ordinal, float bits).
	Bits uint64
	// Text / Data values.
	Text string
	Data []byte
	// HasPtr: a struct / list default is present.
	HasPtr bool
	// Struct default: data words and the text put in pointer 0 of the target.
	StructWords []uint64
	StructText  string
	// List default: element values (raw bits for data kinds, Strs for
	// text/data, Sub for nested lists, StructWords per element for structs).
	Elems []uint64
	Strs  []string
	Sub   [][]uint64
	// Raw: a pointer default taken from a registered schema (importnode.go)
	Raw capnp.Ptr
}

// NodeKind distinguishes schema nodes.
type NodeKind int

// Node kinds.
const (
	NStruct NodeKind = iota
	NEnum
	NInterface
	NConst
	NAnnotation
)

// NoDisc is Field.discriminantValue of a field outside a union.
const NoDisc = 0xffff

// Enumerant of an enum node.
type Enumerant struct {
	Name   string
	Rename string // $Go.name
	Tag    string // $Go.tag
	NoTag  bool   // $Go.notag
}

// GoName is the identifier suffix the generator documents (Enum_name).
func (e Enumerant) GoName() string {
	if e.Rename != "" {
		return e.Rename
	}
	return e.Name
}

// Method of an interface node.
type Method struct {
	Name    string
	Params  *Node
	Results *Node
	// implicit: Params/Results were declared inline "(a :T) -> (b :U)".
	ImplicitParams, ImplicitResults bool
}

// Field of a struct or group node.
type Field struct {
	Name   string
	Rename string // $Go.name
	Doc    string // $Go.doc
	Type   Type
	Offset uint32
	Def    Default
	Disc   uint16
	Group  *Node // non-nil for a group field
	Owner  *Node
	// Ordinal is the @n number, -1 for groups/unions (implicit).
	Ordinal int
}

// GoName is the accessor stem: the (renamed) field name with an upper-case
// first letter, as documented in the package documentation of capnp.
func (f *Field) GoName() string {
	n := f.Name
	if f.Rename != "" {
		n = f.Rename
	}
	return strings.Title(n)
}

// RawName is the (renamed) field name, as used in Which constants and group
// type names.
func (f *Field) RawName() string {
	if f.Rename != "" {
		return f.Rename
	}
	return f.Name
}

// InUnion reports whether the field is a union member.
func (f *Field) InUnion() bool { return f.Disc != NoDisc }

// Node is a schema node other than a file.
type Node struct {
	Kind   NodeKind
	ID     uint64
	Name   string
	Rename string
	Doc    string
	Scope  *Node // enclosing struct/interface, nil at file level
	File   *File
	// struct
	DataWords  uint16
	PtrCount   uint16
	IsGroup    bool
	DiscCount  uint16
	DiscOffset uint32
	Fields     []*Field
	Nested     []*Node
	// enum
	Enumerants []Enumerant
	// interface
	Methods []*Method
	Supers  []*Node
	// const / annotation
	CType Type
	CVal  Default
	// implicit method parameter struct (scopeId 0)
	ImplicitOf string

	GoName  string // Go identifier of the generated type / constant
	Display string // displayName
	Prefix  int    // displayNamePrefixLength
}

// Base returns the non-group struct a group belongs to (n itself otherwise).
func (n *Node) Base() *Node {
	for n.IsGroup {
		n = n.Scope
	}
	return n
}

// File is a schema file (one generated Go package here).
type File struct {
	ID      uint64
	Name    string // "c15plain/c15plain.capnp" (display name = file name)
	Pkg     string // $Go.package
	Dir     string // directory below c15gen/ (= import path suffix)
	Key     string // unique key of the Go package (registry, status)
	Import  string // $Go.import
	Nodes   []*Node
	Imports []*File // other schema files it imports (besides go.capnp)
	all     []*Node // every node incl. groups and nested, creation order
}

// Request is one CodeGeneratorRequest.
type Request struct {
	Name  string
	Files []*File // all requested
}

// ID derives a stable 64-bit id (high bit set, as capnp ids are) from a name.
func ID(display string) uint64 {
	h := fnv.New64a()
	h.Write([]byte(display))
	return h.Sum64() | 1<<63
}

// ImportBase is the import path prefix of every generated package.
const ImportBase = "capnproto.org/go/capnp/v3/internal/verif/c15gen/"

// NewFile creates a file <pkg>/<pkg>.capnp whose Go package is pkg.
func NewFile(pkg string) *File { return NewFileIn(pkg, pkg, pkg) }

// NewFileIn creates the file <dir>/<base>.capnp with Go package name pkg and
// import path ImportBase+dir.
func NewFileIn(dir, base, pkg string) *File {
	// the compiler uses the path given on its command line as display name
	name := dir + "/" + base + ".capnp"
	return &File{ID: ID(name), Name: name, Pkg: pkg, Dir: dir, Key: strings.Replace(dir, "/", "_", -1), Import: ImportBase + dir}
}

// AllNodes returns every node of the file (structs, groups, nested, enums…)
// in creation order.
func (f *File) AllNodes() []*Node { return f.all }

func (f *File) newNode(kind NodeKind, name string, scope *Node, group bool) *Node {
	n := &Node{Kind: kind, Name: name, Scope: scope, File: f, IsGroup: group}
	f.all = append(f.all, n)
	n.fixNames()
	return n
}

func (n *Node) goBase() string {
	if n.Rename != "" {
		return n.Rename
	}
	return n.Name
}

// fixNames computes Display, Prefix, ID and GoName from Name/Rename/Scope.
func (n *Node) fixNames() {
	f := n.File
	switch {
	case n.ImplicitOf != "":
		// set by the interface builder
	case n.Scope == nil:
		n.Display = f.Name + ":" + n.Name
		n.Prefix = len(f.Name) + 1
		n.GoName = strings.Title(n.goBase())
	default:
		n.Display = n.Scope.Display + "." + n.Name
		n.Prefix = len(n.Scope.Display) + 1
		n.GoName = n.Scope.GoName + "_" + n.goBase()
	}
	n.ID = ID(n.Display)
}

// SetRename applies a $Go.name annotation to the node.
func (n *Node) SetRename(r string) *Node {
	n.Rename = r
	n.fixNames()
	return n
}

// Struct declares a top-level struct.
func (f *File) Struct(name string) *Node {
	n := f.newNode(NStruct, name, nil, false)
	f.Nodes = append(f.Nodes, n)
	return n
}

// NestedStruct declares a struct inside n.
func (n *Node) NestedStruct(name string) *Node {
	c := n.File.newNode(NStruct, name, n, false)
	n.Nested = append(n.Nested, c)
	return c
}

// NestedEnum declares an enum inside n.
func (n *Node) NestedEnum(name string, enumerants ...string) *Node {
	c := n.File.newNode(NEnum, name, n, false)
	for _, e := range enumerants {
		c.Enumerants = append(c.Enumerants, Enumerant{Name: e})
	}
	n.Nested = append(n.Nested, c)
	return c
}

// Enum declares a top-level enum.
func (f *File) Enum(name string, enumerants ...string) *Node {
	n := f.newNode(NEnum, name, nil, false)
	for _, e := range enumerants {
		n.Enumerants = append(n.Enumerants, Enumerant{Name: e})
	}
	f.Nodes = append(f.Nodes, n)
	return n
}

// Const declares a top-level constant.
func (f *File) Const(name string, t Type, v Default) *Node {
	n := f.newNode(NConst, name, nil, false)
	n.CType, n.CVal = t, v
	f.Nodes = append(f.Nodes, n)
	return n
}

// Annotation declares a top-level annotation (targets everything).
func (f *File) Annotation(name string, t Type) *Node {
	n := f.newNode(NAnnotation, name, nil, false)
	n.CType = t
	f.Nodes = append(f.Nodes, n)
	return n
}

// Iface declares a top-level interface.
func (f *File) Iface(name string) *Node {
	n := f.newNode(NInterface, name, nil, false)
	f.Nodes = append(f.Nodes, n)
	return n
}

// AddMethod adds a method; nil params/results declare implicit (inline)
// parameter structs with the given field lists.
func (n *Node) AddMethod(name string, params, results *Node) *Method {
	m := &Method{Name: name, Params: params, Results: results}
	mk := func(suffix string) *Node {
		c := &Node{Kind: NStruct, Name: name + "$" + suffix, File: n.File, ImplicitOf: n.Display}
		c.Display = n.Display + "." + name + "$" + suffix
		c.Prefix = len(n.Display) + 1
		c.ID = ID(c.Display)
		c.GoName = n.GoName + "_" + name + "_" + suffix
		n.File.all = append(n.File.all, c)
		return c
	}
	if params == nil {
		m.Params, m.ImplicitParams = mk("Params"), true
	}
	if results == nil {
		m.Results, m.ImplicitResults = mk("Results"), true
	}
	n.Methods = append(n.Methods, m)
	return m
}

// Add appends a slot field.
func (n *Node) Add(name string, t Type, off uint32, d Default) *Field {
	f := &Field{Name: name, Type: t, Offset: off, Def: d, Disc: NoDisc, Owner: n, Ordinal: -1}
	n.Fields = append(n.Fields, f)
	return f
}

// AddMember appends a union member slot field; discriminant values are
// assigned in declaration order, as the compiler does.
func (n *Node) AddMember(name string, t Type, off uint32, d Default) *Field {
	f := n.Add(name, t, off, d)
	f.Disc = n.DiscCount
	n.DiscCount++
	return f
}

// AddGroup appends a group field (member=true: it is a union member).
func (n *Node) AddGroup(name string, member bool) *Node {
	g := n.File.newNode(NStruct, name, n, true)
	f := &Field{Name: name, Disc: NoDisc, Group: g, Owner: n, Ordinal: -1}
	if member {
		f.Disc = n.DiscCount
		n.DiscCount++
	}
	n.Fields = append(n.Fields, f)
	return g
}

// leaf is an occupied region of a struct for the overlap validation.
type leaf struct {
	what       string
	ptr        bool
	start, end int // bits, or pointer slots
	path       []pathElem
}

type pathElem struct {
	union *Node
	disc  uint16
}

func exclusive(a, b []pathElem) bool {
	for _, x := range a {
		for _, y := range b {
			if x.union == y.union && x.disc != y.disc {
				return true
			}
		}
	}
	return false
}

func (n *Node) leaves(path []pathElem, out *[]leaf) {
	if n.DiscCount > 0 {
		s, w := layout.DiscriminantBits(n.DiscOffset)
		*out = append(*out, leaf{what: n.Display + "<tag>", start: s, end: s + w, path: path})
	}
	for _, f := range n.Fields {
		p := path
		if f.InUnion() {
			p = append(append([]pathElem{}, path...), pathElem{n, f.Disc})
		}
		switch {
		case f.Group != nil:
			f.Group.leaves(p, out)
		case f.Type.Kind.IsPtr():
			*out = append(*out, leaf{what: n.Display + "." + f.Name, ptr: true, start: int(f.Offset), end: int(f.Offset) + 1, path: p})
		case f.Type.Kind == Void:
		default:
			s, w := layout.FieldBits(f.Type.Kind.Bits(), f.Offset)
			*out = append(*out, leaf{what: n.Display + "." + f.Name, start: s, end: s + w, path: p})
		}
	}
}

// Finish sizes a top-level struct from its fields (minData/minPtrs are lower
// bounds), propagates the size to its groups, numbers the ordinals and
// validates that no two simultaneously live fields overlap.
func (n *Node) Finish(minData, minPtrs uint16) *Node {
	if n.IsGroup {
		panic("sgen: Finish on group")
	}
	var ls []leaf
	n.leaves(nil, &ls)
	dw, pc := int(minData), int(minPtrs)
	for _, l := range ls {
		if l.ptr {
			if l.end > pc {
				pc = l.end
			}
		} else if w := (l.end + 63) / 64; w > dw {
			dw = w
		}
	}
	for i := range ls {
		for j := i + 1; j < len(ls); j++ {
			a, b := ls[i], ls[j]
			if a.ptr != b.ptr || a.end <= b.start || b.end <= a.start || exclusive(a.path, b.path) {
				continue
			}
			panic(fmt.Sprintf("sgen: invalid schema: %s [%d,%d) overlaps %s [%d,%d)", a.what, a.start, a.end, b.what, b.start, b.end))
		}
	}
	ord := 0
	var walk func(g *Node)
	walk = func(g *Node) {
		g.DataWords, g.PtrCount = uint16(dw), uint16(pc)
		for _, f := range g.Fields {
			if f.Group != nil {
				walk(f.Group)
			} else {
				f.Ordinal = ord
				ord++
			}
		}
	}
	walk(n)
	return n
}

// Groups returns n followed by all group nodes below it (depth first).
func (n *Node) Groups() []*Node {
	out := []*Node{n}
	for _, f := range n.Fields {
		if f.Group != nil {
			out = append(out, f.Group.Groups()...)
		}
	}
	return out
}

// PathTo returns the chain of group fields leading from the base struct to
// node g (empty for the base itself).
func (n *Node) PathTo(g *Node) []*Field {
	if n == g {
		return []*Field{}
	}
	for _, f := range n.Fields {
		if f.Group == nil {
			continue
		}
		if p := f.Group.PathTo(g); p != nil {
			return append([]*Field{f}, p...)
		}
	}
	return nil
}

// Structs returns every non-group struct node of the file, including nested
// ones and implicit method parameter structs, in creation order.
func (f *File) Structs() []*Node {
	var out []*Node
	for _, n := range f.all {
		if n.Kind == NStruct && !n.IsGroup {
			out = append(out, n)
		}
	}
	return out
}

// Enums returns every enum node of the file.
func (f *File) Enums() []*Node {
	var out []*Node
	for _, n := range f.all {
		if n.Kind == NEnum {
			out = append(out, n)
		}
	}
	return out
}

// ByKind returns the nodes of a kind.
func (f *File) ByKind(k NodeKind) []*Node {
	var out []*Node
	for _, n := range f.all {
		if n.Kind == k {
			out = append(out, n)
		}
	}
	return out
}

// Validate checks identifier uniqueness inside the file (a harness bug
// otherwise: the generated package would not compile for our own fault).
func (f *File) Validate() error {
	seen := map[string]string{}
	ids := map[uint64]string{}
	for _, n := range f.all {
		if o, ok := seen[n.GoName]; ok {
			return fmt.Errorf("%s: Go name %s used by %s and %s", f.Name, n.GoName, o, n.Display)
		}
		seen[n.GoName] = n.Display
		if o, ok := ids[n.ID]; ok {
			return fmt.Errorf("%s: id clash %s / %s", f.Name, o, n.Display)
		}
		ids[n.ID] = n.Display
		if n.Kind == NStruct {
			fs := map[string]bool{}
			for _, fl := range n.Fields {
				if fs[fl.GoName()] {
					return fmt.Errorf("%s: duplicate field %s", n.Display, fl.GoName())
				}
				fs[fl.GoName()] = true
			}
		}
	}
	return nil
}

// sortedIDs is used by tests of the request writer.
func sortedIDs(m map[uint64]*Node) []uint64 {
	ids := make([]uint64, 0, len(m))
	for id := range m {
		ids = append(ids, id)
	}
	sort.Slice(ids, func(i, j int) bool { return ids[i] < ids[j] })
	return ids
}
