package sgen

import (
	"bytes"
	"fmt"
	"math"

	capnp "capnproto.org/go/capnp/v3"
	"capnproto.org/go/capnp/v3/internal/schema"
)

// VerifyRequest decodes the serialised request and checks that every node
// reads back exactly as modelled (self-test of the request writer: a mismatch
// is an engine error, never a verdict).
func VerifyRequest(r *Request, b []byte) error {
	msg, err := capnp.NewDecoder(bytes.NewReader(b)).Decode()
	if err != nil {
		return err
	}
	msg.TraverseLimit = 1 << 40
	req, err := schema.ReadRootCodeGeneratorRequest(msg)
	if err != nil {
		return err
	}
	nodes, err := req.Nodes()
	if err != nil {
		return err
	}
	byID := map[uint64]schema.Node{}
	for i := 0; i < nodes.Len(); i++ {
		n := nodes.At(i)
		if _, dup := byID[n.Id()]; dup {
			return fmt.Errorf("duplicate node id %#x", n.Id())
		}
		byID[n.Id()] = n
	}
	for _, f := range closure(r.Files) {
		fn, ok := byID[f.ID]
		if !ok || fn.Which() != schema.Node_Which_file {
			return fmt.Errorf("file node %s missing", f.Name)
		}
		for _, n := range f.all {
			sn, ok := byID[n.ID]
			if !ok {
				return fmt.Errorf("node %s missing", n.Display)
			}
			if err := verifyNode(n, sn); err != nil {
				return fmt.Errorf("%s: %v", n.Display, err)
			}
		}
	}
	rfs, _ := req.RequestedFiles()
	if rfs.Len() != len(r.Files) {
		return fmt.Errorf("requested files: %d", rfs.Len())
	}
	return nil
}

func verifyNode(n *Node, sn schema.Node) error {
	dn, _ := sn.DisplayName()
	if dn != n.Display || int(sn.DisplayNamePrefixLength()) != n.Prefix {
		return fmt.Errorf("display name %q/%d", dn, sn.DisplayNamePrefixLength())
	}
	if n.Kind != NStruct {
		return nil
	}
	if sn.Which() != schema.Node_Which_structNode {
		return fmt.Errorf("not a struct node")
	}
	s := sn.StructNode()
	if s.DataWordCount() != n.DataWords || s.PointerCount() != n.PtrCount || s.IsGroup() != n.IsGroup ||
		s.DiscriminantCount() != n.DiscCount || s.DiscriminantOffset() != n.DiscOffset {
		return fmt.Errorf("struct header differs")
	}
	fl, _ := s.Fields()
	if fl.Len() != len(n.Fields) {
		return fmt.Errorf("field count")
	}
	for i, f := range n.Fields {
		sf := fl.At(i)
		name, _ := sf.Name()
		if name != f.Name || sf.DiscriminantValue() != f.Disc || int(sf.CodeOrder()) != i {
			return fmt.Errorf("field %s header differs", f.Name)
		}
		if f.Group != nil {
			if sf.Which() != schema.Field_Which_group || sf.Group().TypeId() != f.Group.ID {
				return fmt.Errorf("field %s: group", f.Name)
			}
			continue
		}
		if sf.Which() != schema.Field_Which_slot || sf.Slot().Offset() != f.Offset || sf.Slot().HadExplicitDefault() != f.Def.Explicit {
			return fmt.Errorf("field %s: slot", f.Name)
		}
		t, _ := sf.Slot().Type()
		if int(t.Which()) != int(f.Type.Kind) {
			return fmt.Errorf("field %s: type %v", f.Name, t.Which())
		}
		dv, _ := sf.Slot().DefaultValue()
		if int(dv.Which()) != int(f.Type.Kind) {
			return fmt.Errorf("field %s: default value kind %v", f.Name, dv.Which())
		}
		var got uint64
		switch f.Type.Kind {
		case Bool:
			if dv.Bool() {
				got = 1
			}
		case Int8:
			got = uint64(uint8(dv.Int8()))
		case Int16:
			got = uint64(uint16(dv.Int16()))
		case Int32:
			got = uint64(uint32(dv.Int32()))
		case Int64:
			got = uint64(dv.Int64())
		case Uint8:
			got = uint64(dv.Uint8())
		case Uint16:
			got = uint64(dv.Uint16())
		case Uint32:
			got = uint64(dv.Uint32())
		case Uint64:
			got = dv.Uint64()
		case Float32:
			got = uint64(math.Float32bits(dv.Float32()))
		case Float64:
			got = math.Float64bits(dv.Float64())
		case Enum:
			got = uint64(dv.Enum())
			if t.Enum().TypeId() != f.Type.Ref.ID {
				return fmt.Errorf("field %s: enum id", f.Name)
			}
		case Struct:
			if t.StructType().TypeId() != f.Type.Ref.ID || dv.HasStructValue() != f.Def.HasPtr {
				return fmt.Errorf("field %s: struct type/default", f.Name)
			}
			continue
		case List:
			if dv.HasList() != f.Def.HasPtr {
				return fmt.Errorf("field %s: list default", f.Name)
			}
			continue
		case Text:
			if dv.HasText() != f.Def.Explicit {
				return fmt.Errorf("field %s: text default", f.Name)
			}
			continue
		case Data:
			if dv.HasData() != f.Def.Explicit {
				return fmt.Errorf("field %s: data default", f.Name)
			}
			continue
		default:
			continue
		}
		if got != f.Def.Bits {
			return fmt.Errorf("field %s: default bits %#x, model %#x", f.Name, got, f.Def.Bits)
		}
	}
	return nil
}
