package sgen

import (
	capnp "capnproto.org/go/capnp/v3"
)

// The registry is filled by generated files (zz_reg_<pkg>.go, written by the
// pipeline into the harness package) that reference every identifier the
// generator is documented to emit for a schema node.  The harness then drives
// the generated code through reflection, so one missing or mistyped accessor
// is reported for that accessor instead of breaking the whole build.

// StructEntry gives access to the generated API of one struct node.
type StructEntry struct {
	TypeID   uint64
	Wrap     func(capnp.Struct) interface{}
	New      func(*capnp.Segment) (interface{}, error)
	NewRoot  func(*capnp.Segment) (interface{}, error)
	ReadRoot func(*capnp.Message) (interface{}, error)
	NewList  func(*capnp.Segment, int32) (interface{}, error)
	WrapList func(capnp.List) interface{}
}

// EnumEntry gives access to a generated enum type.
type EnumEntry struct {
	TypeID  uint64
	Make    func(uint16) interface{}
	NewList func(*capnp.Segment, int32) (interface{}, error)
	Values  map[string]uint16 // generated constant name -> value
}

// IfaceEntry gives access to a generated interface client type.
type IfaceEntry struct {
	TypeID uint64
	Make   func(*capnp.Client) interface{}
}

// PkgEntry is one generated package.
type PkgEntry struct {
	Name    string
	Structs map[string]*StructEntry                // by Go type name
	Groups  map[string]func(capnp.Struct) interface{} // group Go type name -> converter
	Enums   map[string]*EnumEntry
	Ifaces  map[string]*IfaceEntry
	Which   map[string]uint16      // X_Which_member constants
	Consts  map[string]interface{} // schema constants
	Annots  map[string]uint64
}

// Registry holds the generated packages linked into this binary.
var Registry = map[string]*PkgEntry{}

// NewPkgEntry registers a package.
func NewPkgEntry(name string) *PkgEntry {
	if p := Registry[name]; p != nil {
		return p // a second schema file of the same Go package
	}
	p := &PkgEntry{Name: name,
		Structs: map[string]*StructEntry{}, Groups: map[string]func(capnp.Struct) interface{}{},
		Enums: map[string]*EnumEntry{}, Ifaces: map[string]*IfaceEntry{},
		Which: map[string]uint16{}, Consts: map[string]interface{}{}, Annots: map[string]uint64{}}
	Registry[name] = p
	return p
}

// ReqStatus is what happened to one request in the pipeline.
type ReqStatus struct {
	Name      string            `json:"name"`
	Files     []string          `json:"files"` // package names requested
	GenOK     bool              `json:"gen_ok"`
	GenStderr string            `json:"gen_stderr"`
	Outputs   map[string]string `json:"outputs"` // relative path -> sha256
}

// PkgStatus is what happened to one generated package.
type PkgStatus struct {
	Name       string `json:"name"`
	Generated  bool   `json:"generated"`
	Compiled   bool   `json:"compiled"`
	CompileErr string `json:"compile_err"`
	Linked     bool   `json:"linked"` // registry file compiled against it
	LinkErr    string `json:"link_err"`
	Lines      int    `json:"lines"`
}

// Status is embedded into the final harness by the pipeline.
type Status struct {
	BuildDir string                `json:"build_dir"`
	Repo     string                `json:"repo"`
	Tier     string                `json:"tier"`
	Requests []*ReqStatus          `json:"requests"`
	Pkgs     map[string]*PkgStatus `json:"pkgs"`
}

// Pipeline is set by the generated status file; nil in a stage-1 binary.
var Pipeline *Status
