// Package layout is the independent oracle of C15/C19 for "where does a schema
// field live in a struct": written from the Cap'n Proto encoding spec
// (encoding.html: structs, pointers, lists) and the field semantics stated in
// schema.capnp (slot.offset is "in multiples of the field's size", default
// values are XOR-ed in, discriminantOffset is "in 16-bit units").
//
// It imports nothing from the repository (same rule as package ref; it lives
// next to the C15 harness instead of inside ref only to avoid identifier
// clashes with the files other harness authors add there).
package layout

import "fmt"

// DataBits returns the width in bits of a data-section field kind, 0 for Void
// and -1 for pointer kinds.  Kind names are those of schema.capnp's Type union.
func DataBits(kind string) int {
	switch kind {
	case "void":
		return 0
	case "bool":
		return 1
	case "int8", "uint8":
		return 8
	case "int16", "uint16", "enum":
		return 16
	case "int32", "uint32", "float32":
		return 32
	case "int64", "uint64", "float64":
		return 64
	case "text", "data", "list", "struct", "interface", "anyPointer":
		return -1
	}
	panic("layout: unknown kind " + kind)
}

// FieldBits returns the bit range [start, start+n) inside the data section that
// a data field of the given width occupies at slot offset off.
func FieldBits(width int, off uint32) (start, n int) {
	return int(off) * width, width
}

// DiscriminantBits returns the bit range of the 16-bit union tag.
func DiscriminantBits(discOffset uint32) (start, n int) {
	return int(discOffset) * 16, 16
}

// Mask returns the low width bits of v.
func Mask(width int, v uint64) uint64 {
	if width >= 64 {
		return v
	}
	return v & (uint64(1)<<uint(width) - 1)
}

// PutBits writes the low n bits of v at bit position start of buf
// (little-endian, least significant bit first, as in the encoding spec).
func PutBits(buf []byte, start, n int, v uint64) {
	for i := 0; i < n; i++ {
		bit := byte(v >> uint(i) & 1)
		p := start + i
		buf[p/8] = buf[p/8]&^(1<<uint(p%8)) | bit<<uint(p%8)
	}
}

// GetBits reads n bits at bit position start.
func GetBits(buf []byte, start, n int) uint64 {
	var v uint64
	for i := 0; i < n; i++ {
		p := start + i
		v |= uint64(buf[p/8]>>uint(p%8)&1) << uint(i)
	}
	return v
}

// Word reads the little-endian 64-bit word i of buf.
func Word(buf []byte, i int) uint64 {
	var v uint64
	for k := 0; k < 8; k++ {
		v |= uint64(buf[8*i+k]) << uint(8*k)
	}
	return v
}

// PutWord writes word i.
func PutWord(buf []byte, i int, v uint64) {
	for k := 0; k < 8; k++ {
		buf[8*i+k] = byte(v >> uint(8*k))
	}
}

// Pointer kinds (low two bits of a pointer word).
const (
	PtrStruct = 0
	PtrList   = 1
	PtrFar    = 2
	PtrOther  = 3
)

// Ptr is a decoded (near) pointer word.
type Ptr struct {
	Null bool
	Kind int
	// struct / list: target word index = (index of the pointer word) + 1 + Off
	Off int32
	// struct
	DataWords, PtrWords uint16
	// list
	ElemSize int // 0 void, 1 bit, 2 byte, 3 two bytes, 4 four bytes, 5 eight bytes, 6 pointer, 7 inline composite
	Count    uint32
	// other (capability)
	Cap uint32
}

// DecodePtr splits a pointer word per the encoding spec.
func DecodePtr(w uint64) Ptr {
	if w == 0 {
		return Ptr{Null: true}
	}
	p := Ptr{Kind: int(w & 3)}
	switch p.Kind {
	case PtrStruct:
		p.Off = int32(uint32(w)) >> 2
		p.DataWords = uint16(w >> 32)
		p.PtrWords = uint16(w >> 48)
	case PtrList:
		p.Off = int32(uint32(w)) >> 2
		p.ElemSize = int(w >> 32 & 7)
		p.Count = uint32(w >> 35)
	case PtrOther:
		p.Cap = uint32(w >> 32)
	}
	return p
}

func (p Ptr) String() string {
	switch {
	case p.Null:
		return "null"
	case p.Kind == PtrStruct:
		return fmt.Sprintf("struct(off=%d data=%d ptrs=%d)", p.Off, p.DataWords, p.PtrWords)
	case p.Kind == PtrList:
		return fmt.Sprintf("list(off=%d elem=%d count=%d)", p.Off, p.ElemSize, p.Count)
	case p.Kind == PtrFar:
		return "far"
	}
	return fmt.Sprintf("cap(%d)", p.Cap)
}

// ListElemSize returns the element-size code the spec prescribes for a list
// whose element type is the given schema kind.
func ListElemSize(kind string) int {
	switch kind {
	case "void":
		return 0
	case "bool":
		return 1
	case "int8", "uint8":
		return 2
	case "int16", "uint16", "enum":
		return 3
	case "int32", "uint32", "float32":
		return 4
	case "int64", "uint64", "float64":
		return 5
	case "text", "data", "list", "interface", "anyPointer":
		return 6
	case "struct":
		return 7
	}
	panic("layout: unknown kind " + kind)
}
