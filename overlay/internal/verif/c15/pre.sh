#!/bin/bash
# pre.sh <builddir> <tier>: multi-stage build (see sgen/pipeline.go).  The
# stage-1 harness built by vcheck generates the requests, builds capnpc-go from
# $VERIF_REPO, runs it, compiles the generated packages and relinks itself
# (as <builddir>/harness) together with them.
set -u
B=$1; TIER=$2
cp "$B/harness" "$B/harness.stage1" || exit 1
VERIF_C15_PIPELINE="$B" VERIF_C15_TIER="$TIER" exec "$B/harness.stage1"
