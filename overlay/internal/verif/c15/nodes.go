package main

import (
	"fmt"
	"math"
	"reflect"

	capnp "capnproto.org/go/capnp/v3"
	"capnproto.org/go/capnp/v3/internal/verif/c15/layout"
	"capnproto.org/go/capnp/v3/internal/verif/c15/sgen"
	"capnproto.org/go/capnp/v3/internal/verif/vlib"
)

// nodeCase checks the per-node products: type ids, New / NewRoot / ReadRoot
// sizes, list wrappers, Which() and the Which constants, enum constants.
func nodeCase(c ncase, r *vlib.Rec) {
	p, why := pkgOf(c.file)
	if p == nil {
		r.Outcome("skipped/" + why)
		return
	}
	n := c.n
	where := c.file.Pkg + "." + n.GoName
	fail := func(key, format string, a ...interface{}) { r.Fail(key, where+": "+fmt.Sprintf(format, a...)) }
	switch n.Kind {
	case sgen.NStruct:
		if n.DiscCount > 0 {
			whichCase(c, p, r)
		}
		if n.IsGroup {
			if n.DiscCount == 0 {
				r.Outcome("group-node")
			}
			return
		}
		e := p.Structs[n.GoName]
		if e == nil {
			fail("harness", "no registry entry")
			return
		}
		r.NonTrivial()
		if e.TypeID != n.ID {
			fail("type-id/struct", "%s_TypeID = %#x, schema node id is %#x", n.GoName, e.TypeID, n.ID)
		}
		wantT := c.file.Pkg + "." + n.GoName
		// NewRootX: root pointer carries the node's sizes
		{
			msg, seg, _ := capnp.NewMessage(capnp.SingleSegment(nil))
			v, err := e.NewRoot(seg)
			if err != nil {
				fail("new-root/error", "%v", err)
			} else {
				if reflect.TypeOf(v).String() != wantT {
					fail("accessor-signature/struct/new-root", "NewRoot%s returns %T", n.GoName, v)
				}
				checkStructPtr(fail, "new-root/size", layout.Word(seg.Data(), 0), n)
				// ReadRootX gives the same struct back
				rv, err := e.ReadRoot(msg)
				if err != nil {
					fail("read-root/error", "%v", err)
				} else if a, b := structOf(rv), structOf(v); a.Size() != b.Size() || (a.Size() != capnp.ObjectSize{} && !capnp.SamePtr(a.ToPtr(), b.ToPtr())) {
					fail("read-root/other-struct", "ReadRoot%s does not return the root struct", n.GoName)
				}
			}
		}
		// NewX: orphan of the node's size
		{
			_, seg, _ := capnp.NewMessage(capnp.SingleSegment(nil))
			h, _ := capnp.NewRootStruct(seg, capnp.ObjectSize{PointerCount: 1})
			v, err := e.New(seg)
			if err != nil {
				fail("new/error", "%v", err)
			} else {
				if err := h.SetPtr(0, structOf(v).ToPtr()); err != nil {
					fail("harness", "%v", err)
				}
				// holder: root ptr (word 0), holder's pointer (word 1)
				checkStructPtr(fail, "new/size", layout.Word(seg.Data(), 1), n)
			}
		}
		// NewX_List: composite list with the node's element size
		for _, cnt := range []int{0, 1, 3} {
			_, seg, _ := capnp.NewMessage(capnp.SingleSegment(nil))
			h, _ := capnp.NewRootStruct(seg, capnp.ObjectSize{PointerCount: 1})
			v, err := e.NewList(seg, int32(cnt))
			if err != nil {
				fail("new-list/error", "%v", err)
				continue
			}
			if reflect.TypeOf(v).String() != wantT+"_List" {
				fail("accessor-signature/struct/new-list", "New%s_List returns %T", n.GoName, v)
				continue
			}
			l := reflect.ValueOf(v).FieldByName("List").Interface().(capnp.List)
			if err := h.SetPtr(0, l.ToPtr()); err != nil {
				fail("harness", "%v", err)
				continue
			}
			d := seg.Data()
			lp := layout.DecodePtr(layout.Word(d, 1))
			words := int(n.DataWords) + int(n.PtrCount)
			if lp.Null || lp.Kind != layout.PtrList || lp.ElemSize != 7 || int(lp.Count) != cnt*words {
				fail("new-list/element-size", "New%s_List(%d): list pointer %v, want inline composite with %d words", n.GoName, cnt, lp, cnt*words)
				continue
			}
			tag := layout.DecodePtr(layout.Word(d, 2+int(lp.Off)))
			if !(tag.Null && cnt == 0 && words == 0) && (tag.Kind != layout.PtrStruct || int(tag.Off) != cnt || tag.DataWords != n.DataWords || tag.PtrWords != n.PtrCount) {
				fail("new-list/element-size", "New%s_List(%d): tag word %v, node declares %d/%d", n.GoName, cnt, tag, n.DataWords, n.PtrCount)
			}
			// At(i) is element i, typed
			if cnt > 0 {
				out, pan, err := sgen.Call(reflect.ValueOf(v), "At", cnt-1)
				if err != nil || pan != nil {
					fail("list-wrapper/at", "At: %v %v", err, pan)
				} else if out[0].Type().String() != wantT {
					fail("accessor-signature/struct/list-at", "%s_List.At returns %v", n.GoName, out[0].Type())
				} else if structOf(out[0].Interface()) != l.Struct(cnt-1) {
					fail("list-wrapper/at", "%s_List.At(%d) is not element %d", n.GoName, cnt-1, cnt-1)
				}
			}
		}
		r.Outcome("struct-node")
	case sgen.NEnum:
		e := p.Enums[n.GoName]
		if e == nil {
			fail("harness", "no registry entry")
			return
		}
		r.NonTrivial()
		if e.TypeID != n.ID {
			fail("type-id/enum", "%s_TypeID = %#x, schema node id is %#x", n.GoName, e.TypeID, n.ID)
		}
		for i, en := range n.Enumerants {
			name := n.GoName + "_" + en.GoName()
			if got := e.Values[name]; int(got) != i {
				fail("enum-constant", "%s = %d, enumerant ordinal is %d", name, got, i)
			}
		}
		if v := e.Make(3); reflect.TypeOf(v).Kind() != reflect.Uint16 || reflect.TypeOf(v).String() != c.file.Pkg+"."+n.GoName {
			fail("accessor-signature/enum/type", "enum type is %T", v)
		}
		_, seg, _ := capnp.NewMessage(capnp.SingleSegment(nil))
		h, _ := capnp.NewRootStruct(seg, capnp.ObjectSize{PointerCount: 1})
		v, err := e.NewList(seg, 3)
		if err != nil {
			fail("new-list/error", "%v", err)
			return
		}
		l := reflect.ValueOf(v).FieldByName("List").Interface().(capnp.List)
		h.SetPtr(0, l.ToPtr())
		lp := layout.DecodePtr(layout.Word(seg.Data(), 1))
		if lp.Null || lp.Kind != layout.PtrList || lp.ElemSize != 3 || lp.Count != 3 {
			fail("new-list/element-size", "New%s_List(3): list pointer %v, want 3 two-byte elements", n.GoName, lp)
		}
		// Set / At through the wrapper hit 16-bit element i
		if _, pan, err := sgen.Call(reflect.ValueOf(v), "Set", 1, e.Make(0xBEEF)); err != nil || pan != nil {
			fail("list-wrapper/set", "%v %v", err, pan)
		} else {
			d := seg.Data()
			base := 8 * (2 + int(lp.Off))
			if got := layout.GetBits(d[base:], 16, 16); got != 0xBEEF || layout.GetBits(d[base:], 0, 16) != 0 || layout.GetBits(d[base:], 32, 16) != 0 {
				fail("list-wrapper/set", "%s_List.Set(1, 0xBEEF) wrote %x", n.GoName, d[base:base+8])
			}
			out, pan, err := sgen.Call(reflect.ValueOf(v), "At", 1)
			if err != nil || pan != nil || sgen.BitsOf(out[0]) != 0xBEEF {
				fail("list-wrapper/at", "%s_List.At(1) after Set(1, 0xBEEF): %v %v %v", n.GoName, out, pan, err)
			}
		}
		r.Outcome("enum-node")
	case sgen.NInterface:
		e := p.Ifaces[n.GoName]
		if e == nil {
			fail("harness", "no registry entry")
			return
		}
		r.NonTrivial()
		if e.TypeID != n.ID {
			fail("type-id/interface", "%s_TypeID = %#x, schema node id is %#x", n.GoName, e.TypeID, n.ID)
		}
		r.Outcome("interface-node")
	case sgen.NAnnotation:
		if p.Annots[n.GoName] != n.ID {
			fail("type-id/annotation", "%s = %#x, schema node id is %#x", n.GoName, p.Annots[n.GoName], n.ID)
		}
		r.NonTrivial()
		r.Outcome("annotation-node")
	case sgen.NConst:
		// Constants are outside the statement of C15 (it speaks of accessors,
		// sizes, ids, list wrappers); a wrong value is recorded as an outcome.
		if constMatches(p.Consts[n.GoName], n) {
			r.Outcome("const-ok")
		} else {
			r.Outcome("const-MISMATCH/" + n.GoName)
		}
	}
}

func structOf(v interface{}) capnp.Struct {
	return reflect.ValueOf(v).FieldByName("Struct").Interface().(capnp.Struct)
}

func checkStructPtr(fail func(key, format string, a ...interface{}), key string, word uint64, n *sgen.Node) {
	sp := layout.DecodePtr(word)
	if n.DataWords == 0 && n.PtrCount == 0 {
		if !sp.Null && (sp.Kind != layout.PtrStruct || sp.DataWords != 0 || sp.PtrWords != 0) {
			fail(key, "pointer %v, node declares an empty struct", sp)
		}
		return
	}
	if sp.Null || sp.Kind != layout.PtrStruct || sp.DataWords != n.DataWords || sp.PtrWords != n.PtrCount {
		fail(key, "allocated %v, node declares %d data words / %d pointers", sp, n.DataWords, n.PtrCount)
	}
}

// whichCase: Which() reads the 16 bits at discriminantOffset; the Which
// constants carry the members' discriminant values.
func whichCase(c ncase, p *sgen.PkgEntry, r *vlib.Rec) {
	n := c.n
	base := n.Base()
	where := c.file.Pkg + "." + n.GoName
	r.NonTrivial()
	for _, f := range n.Fields {
		if !f.InUnion() {
			continue
		}
		name := n.GoName + "_Which_" + f.RawName()
		if got, ok := p.Which[name]; !ok || got != f.Disc {
			r.Failf("which-constant", "%s: %s = %d, schema discriminantValue is %d", where, name, got, f.Disc)
		}
	}
	s, w := layout.DiscriminantBits(n.DiscOffset)
	for bg := 0; bg <= 1; bg++ {
		for _, t := range []uint16{0, 1, n.DiscCount - 1, n.DiscCount, 0x5A5A, 0x8000, 0xffff} {
			o, err := sgen.NewObj(base, bg)
			if err != nil {
				r.Fail("harness", err.Error())
				return
			}
			wv, err := o.Wrapped(p, n)
			if err != nil {
				r.Failf("group-accessor", "%s: %v", where, err)
				return
			}
			layout.PutBits(o.Raw(), s, w, uint64(t))
			out, pan, err := sgen.Call(wv, "Which")
			if err != nil {
				r.Failf("missing-accessor/union/which", "%s: %v", where, err)
				return
			}
			if pan != nil {
				r.Failf("which/panics", "%s: %v", where, pan)
				return
			}
			if out[0].Type().String() != c.file.Pkg+"."+n.GoName+"_Which" {
				r.Failf("accessor-signature/union/which", "%s: Which returns %v", where, out[0].Type())
				return
			}
			if got := uint16(out[0].Uint()); got != t {
				r.Failf("which/value", "%s: tag bits (16-bit offset %d) hold %d, Which() = %d", where, n.DiscOffset, t, got)
			}
		}
	}
	r.Outcome("union-node")
}

func constMatches(v interface{}, n *sgen.Node) bool {
	if v == nil {
		return false
	}
	rv := reflect.ValueOf(v)
	k := n.CType.Kind
	switch {
	case k == sgen.Void:
		return true
	case k == sgen.Text:
		return rv.Kind() == reflect.String && rv.String() == n.CVal.Text
	case k == sgen.Data:
		return rv.Kind() == reflect.Slice && string(rv.Bytes()) == string(n.CVal.Data)
	case !k.IsPtr():
		if rv.Kind() != sgen.GoKind(k) {
			return false
		}
		if k == sgen.Float32 {
			return math.Float32bits(float32(rv.Float())) == uint32(n.CVal.Bits)
		}
		return sgen.BitsOf(rv) == n.CVal.Bits
	case k == sgen.Struct || k == sgen.List:
		var got capnp.Ptr
		if k == sgen.Struct {
			got = rv.FieldByName("Struct").Interface().(capnp.Struct).ToPtr()
		} else {
			got = rv.FieldByName("List").Interface().(capnp.List).ToPtr()
		}
		_, seg, _ := capnp.NewMessage(capnp.SingleSegment(nil))
		want, err := sgen.BuildPtrDefault(seg, n.CType, n.CVal)
		if err != nil {
			return false
		}
		eq, _ := canonEq(got, want)
		return eq
	}
	return true
}
