package main

import (
	"bytes"
	"errors"
	"fmt"
	"reflect"

	capnp "capnproto.org/go/capnp/v3"
	"capnproto.org/go/capnp/v3/internal/verif/c15/layout"
	"capnproto.org/go/capnp/v3/internal/verif/c15/sgen"
	"capnproto.org/go/capnp/v3/internal/verif/vlib"
)

// fx is the context of one field case.
type fx struct {
	c    fcase
	p    *sgen.PkgEntry
	r    *vlib.Rec
	kind string // key component: schema kind ("int8", "list-of-struct", "group", ...)
	ran  bool
}

func kindName(t sgen.Type) string {
	if t.Kind == sgen.List {
		return "list-of-" + t.Elem.Kind.String()
	}
	return t.Kind.String()
}

func fieldCase(c fcase, r *vlib.Rec) {
	p, why := pkgOf(c.file)
	if p == nil {
		r.Outcome("skipped/" + why)
		return
	}
	x := &fx{c: c, p: p, r: r}
	f := c.f
	switch {
	case f.Group != nil:
		x.kind = "group"
		x.groupField()
	case f.Type.Kind == sgen.Void:
		x.kind = "void"
		x.voidField()
	case !f.Type.Kind.IsPtr():
		x.kind = kindName(f.Type)
		x.dataField()
	default:
		x.kind = kindName(f.Type)
		x.ptrField()
	}
	if x.ran {
		r.NonTrivial()
	}
}

func (x *fx) failf(key, format string, a ...interface{}) {
	x.r.Fail(key, x.c.String()+": "+fmt.Sprintf(format, a...))
}

// callErr classifies a reflection-level problem (missing accessor, wrong
// arity / parameter type): the generated API is not the documented one.
func (x *fx) callErr(method string, err error) {
	var me *sgen.MissingError
	if errors.As(err, &me) {
		x.failf("missing-accessor/"+x.kind+"/"+accessorClass(method, x.c.f), "%v", err)
		return
	}
	x.failf("accessor-signature/"+x.kind+"/"+accessorClass(method, x.c.f), "%v", err)
}

func accessorClass(method string, f *sgen.Field) string {
	g := f.GoName()
	switch method {
	case g:
		return "get"
	case "Set" + g:
		return "set"
	case "Has" + g:
		return "has"
	case "New" + g:
		return "new"
	case g + "Bytes":
		return "bytes"
	}
	return "other"
}

// obj allocates the struct and the generated wrapper of the owner node.
func (x *fx) obj(bg int) (*sgen.Obj, reflect.Value, bool) {
	o, err := sgen.NewObj(x.c.base, bg)
	if err != nil {
		x.failf("harness", "%v", err)
		return nil, reflect.Value{}, false
	}
	wv, err := o.Wrapped(x.p, x.c.owner)
	if err != nil {
		var me *sgen.MissingError
		if errors.As(err, &me) {
			x.failf("missing-accessor/group/get", "%v", err)
		} else {
			x.failf("group-accessor", "%v", err)
		}
		return nil, reflect.Value{}, false
	}
	return o, wv, true
}

func (x *fx) tagRange() (int, int) { return layout.DiscriminantBits(x.c.owner.DiscOffset) }

// setTag writes the field's own discriminant into raw struct bytes.
func (x *fx) setTag(raw []byte, v uint16) {
	s, n := x.tagRange()
	layout.PutBits(raw, s, n, uint64(v))
}

// wrongTags are discriminant values other than the field's own.
func (x *fx) wrongTags() []uint16 {
	f, cnt := x.c.f, x.c.owner.DiscCount
	seen := map[uint16]bool{f.Disc: true}
	var out []uint16
	for _, t := range []uint16{(f.Disc + 1) % cnt, (f.Disc + cnt - 1) % cnt, 0, cnt, 0xffff, f.Disc ^ 0x100} {
		if !seen[t] {
			seen[t] = true
			out = append(out, t)
		}
	}
	return out
}

// compareSegment checks the segment after an operation against the expected
// struct bytes: classes of deviation are reported under separate keys.
// fieldStart/fieldLen: bit range (data) the operation may change besides the tag.
// Returns true if all is as expected.
func (x *fx) compareSegment(op string, o *sgen.Obj, before []byte, expStruct []byte, allowGrow bool, ptrSlot int) bool {
	after := o.Seg.Data()
	ok := true
	if len(after) < len(before) || (!allowGrow && len(after) != len(before)) {
		x.failf(op+"-"+x.kind+"/allocates", "segment length %d -> %d", len(before), len(after))
		return false
	}
	lo, hi := o.Base, o.Base+o.Size()
	for i := 0; i < len(before); i++ {
		if (i < lo || i >= hi) && after[i] != before[i] {
			x.failf(op+"-"+x.kind+"/stray-write-outside-struct", "byte %d of the segment (struct is [%d,%d)) changed %#02x -> %#02x", i, lo, hi, before[i], after[i])
			ok = false
			break
		}
	}
	got := after[lo:hi]
	if bytes.Equal(got, expStruct) {
		return ok
	}
	// classify the differing bits
	ts, tn := -1, 0
	if x.c.f.InUnion() {
		ts, tn = x.tagRange()
	}
	fs, fn := -1, 0
	if k := x.c.f.Type.Kind; x.c.f.Group == nil && !k.IsPtr() && k != sgen.Void {
		fs, fn = layout.FieldBits(k.Bits(), x.c.f.Offset)
	}
	dataBits := 64 * int(o.Node.DataWords)
	var inField, inTag, stray, inSlot bool
	firstStray := -1
	for b := 0; b < 8*len(got); b++ {
		if got[b/8]>>uint(b%8)&1 == expStruct[b/8]>>uint(b%8)&1 {
			continue
		}
		switch {
		case ts >= 0 && b >= ts && b < ts+tn:
			inTag = true
		case fs >= 0 && b >= fs && b < fs+fn:
			inField = true
		case ptrSlot >= 0 && b >= dataBits+64*ptrSlot && b < dataBits+64*ptrSlot+64:
			inSlot = true
		default:
			stray = true
			if firstStray < 0 {
				firstStray = b
			}
		}
	}
	detail := fmt.Sprintf("struct bytes after %s:\n got  %x\n want %x\n was  %x", op, got, expStruct, before[lo:hi])
	if inField {
		x.failf(op+"-"+x.kind+"/value-bits", "the field's own bit range holds the wrong bits; %s", detail)
	}
	if inSlot {
		x.failf(op+"-"+x.kind+"/pointer-slot", "the field's pointer slot holds an unexpected word; %s", detail)
	}
	if inTag {
		x.failf(op+"-"+x.kind+"/tag/"+x.c.ctx, "the 16 discriminant bits are wrong (want %d at 16-bit offset %d); %s", x.c.f.Disc, x.c.owner.DiscOffset, detail)
	}
	if stray {
		where := "data section"
		if firstStray >= dataBits {
			where = "pointer section"
		}
		x.failf(op+"-"+x.kind+"/stray-write/"+x.c.ctx, "bits outside the field and its tag changed (first at bit %d, %s); %s", firstStray, where, detail)
	}
	return false
}

func dedup(vs []uint64) []uint64 {
	seen := map[uint64]bool{}
	var out []uint64
	for _, v := range vs {
		if !seen[v] {
			seen[v] = true
			out = append(out, v)
		}
	}
	return out
}

func alphabet(k sgen.Kind, def uint64) []uint64 {
	w := k.Bits()
	if k == sgen.Bool {
		return []uint64{0, 1}
	}
	m := func(v uint64) uint64 { return layout.Mask(w, v) }
	return dedup([]uint64{0, m(^uint64(0)), uint64(1) << uint(w-1), m(0x5A5A5A5A5A5A5A5A), 1, def, m(^def), m(0xA5A5A5A5A5A5A5A5)})
}

// ---- data fields

func (x *fx) dataField() {
	f := x.c.f
	k := f.Type.Kind
	w := k.Bits()
	start, _ := layout.FieldBits(w, f.Offset)
	def := f.Def.Bits
	g := f.GoName()
	wantType := sgen.GoTypeName(f.Type)
	for bg := 0; bg <= 1; bg++ {
		for _, v := range alphabet(k, def) {
			// setter from background
			o, wv, ok := x.obj(bg)
			if !ok {
				return
			}
			before := o.Snapshot()
			_, pan, err := sgen.Call(wv, "Set"+g, sgen.GoValue(k, v))
			if err != nil {
				x.callErr("Set"+g, err)
				return
			}
			x.ran = true
			if pan != nil {
				x.failf("set-"+x.kind+"/panics", "Set%s(%#x) on a struct of the schema's size panics: %v", g, v, pan)
				return
			}
			exp := append([]byte{}, before[o.Base:o.Base+o.Size()]...)
			layout.PutBits(exp, start, w, v^def)
			if f.InUnion() {
				x.setTag(exp, f.Disc)
			}
			good := x.compareSegment("set", o, before, exp, false, -1)
			// getter after setter
			out, pan, err := sgen.Call(wv, g)
			if err != nil {
				x.callErr(g, err)
				return
			}
			if pan != nil {
				if good {
					x.failf("get-"+x.kind+"/panics-after-set", "%s() panics right after Set%s: %v", g, g, pan)
				}
				continue
			}
			if len(out) != 1 || out[0].Type().String() != wantType {
				x.failf("accessor-signature/"+x.kind+"/get", "%s() returns %v, documented type is %s", g, wv.MethodByName(g).Type(), wantType)
				return
			}
			if got := sgen.BitsOf(out[0]); got != v && good {
				x.failf("get-"+x.kind+"/after-set", "Set%s(%#x) then %s() = %#x", g, v, g, got)
			}
			x.r.Outcome("data/" + x.c.ctx)
		}
		// getter on crafted bytes
		for _, raw := range alphabet(k, def) {
			o, wv, ok := x.obj(bg)
			if !ok {
				return
			}
			layout.PutBits(o.Raw(), start, w, raw)
			if f.InUnion() {
				x.setTag(o.Raw(), f.Disc)
			}
			before := o.Snapshot()
			out, pan, err := sgen.Call(wv, g)
			if err != nil {
				x.callErr(g, err)
				return
			}
			if pan != nil {
				x.failf("get-"+x.kind+"/panics", "%s() panics although the discriminant matches: %v", g, pan)
				continue
			}
			if got := sgen.BitsOf(out[0]); got != raw^def {
				x.failf("get-"+x.kind+"/value", "stored bits %#x, default %#x: %s() = %#x, want %#x", raw, def, g, got, raw^def)
			}
			if !bytes.Equal(before, o.Seg.Data()) {
				x.failf("get-"+x.kind+"/writes", "%s() modified the message", g)
			}
		}
		// wrong discriminant
		if f.InUnion() {
			for _, t := range x.wrongTags() {
				o, wv, ok := x.obj(bg)
				if !ok {
					return
				}
				x.setTag(o.Raw(), t)
				_, pan, err := sgen.Call(wv, g)
				if err != nil {
					x.callErr(g, err)
					return
				}
				if pan == nil {
					x.failf("get-"+x.kind+"/no-tag-check/"+x.c.ctx, "discriminant is %d, member is %d: %s() returns instead of panicking", t, f.Disc, g)
				} else if s, _ := pan.(string); s != "Which() != "+f.RawName() {
					x.r.Outcome("wrong-tag-panic-message-differs")
				} else {
					x.r.Outcome("wrong-tag-panics")
				}
			}
		}
	}
}

// ---- void members and member groups: the setter only writes the tag

func (x *fx) tagOnlySetter() {
	f := x.c.f
	g := f.GoName()
	for bg := 0; bg <= 1; bg++ {
		o, wv, ok := x.obj(bg)
		if !ok {
			return
		}
		before := o.Snapshot()
		_, pan, err := sgen.Call(wv, "Set"+g)
		if err != nil {
			x.callErr("Set"+g, err)
			return
		}
		x.ran = true
		if pan != nil {
			x.failf("set-"+x.kind+"/panics", "Set%s() panics: %v", g, pan)
			return
		}
		exp := append([]byte{}, before[o.Base:o.Base+o.Size()]...)
		x.setTag(exp, f.Disc)
		x.compareSegment("set", o, before, exp, false, -1)
		x.r.Outcome(x.kind + "-member/" + x.c.ctx)
	}
}

func (x *fx) voidField() {
	if !x.c.f.InUnion() {
		// documented: no accessors for a Void field outside a union
		x.r.Outcome("void-outside-union")
		return
	}
	x.tagOnlySetter()
}

func (x *fx) groupField() {
	// the accessor itself (type conversion, same struct)
	o, err := sgen.NewObj(x.c.base, 0)
	if err != nil {
		x.failf("harness", "%v", err)
		return
	}
	if _, err := o.Wrapped(x.p, x.c.f.Group); err != nil {
		var me *sgen.MissingError
		if errors.As(err, &me) {
			x.failf("missing-accessor/group/get", "%v", err)
		} else {
			x.failf("group-accessor", "%v", err)
		}
		return
	}
	x.ran = true
	if x.c.f.InUnion() {
		x.tagOnlySetter()
	} else {
		x.r.Outcome("group-accessor/" + x.c.ctx)
	}
}

// ---- pointer fields

// pval is one value of a pointer field's alphabet.
type pval struct {
	name string
	null bool      // the value is "no object"
	ptr  capnp.Ptr // the object (library-built, in the object's segment)
	text string
	data []byte
	cl   *capnp.Client
}

func (x *fx) ptrValues(o *sgen.Obj) ([]pval, error) {
	t := x.c.f.Type
	seg := o.Seg
	switch t.Kind {
	case sgen.Text:
		return []pval{{name: "empty", null: true, text: ""}, {name: "a", text: "a"}, {name: "hello", text: "hello, w\u00f6rld"}}, nil
	case sgen.Data:
		return []pval{{name: "nil", null: true}, {name: "empty", data: []byte{}}, {name: "bytes", data: []byte{1, 0, 0xff}}}, nil
	case sgen.Struct:
		p, err := sgen.BuildPtrDefault(seg, t, sgen.Default{StructWords: []uint64{0x0123456789abcdef, 0xffffffffffffffff, 7, 9}, StructText: "sv"})
		if err != nil {
			return nil, err
		}
		z, err := sgen.BuildPtrDefault(seg, t, sgen.Default{})
		if err != nil {
			return nil, err
		}
		return []pval{{name: "null", null: true}, {name: "filled", ptr: p}, {name: "zero", ptr: z}}, nil
	case sgen.List:
		var out []pval
		out = append(out, pval{name: "null", null: true})
		for _, d := range []sgen.Default{{}, {Elems: []uint64{1, 0xfffffffffffffffe}, Strs: []string{"p", "qq"}, Sub: [][]uint64{{5}, {6, 7}}}} {
			l, err := sgen.BuildList(seg, *t.Elem, d)
			if err != nil {
				return nil, err
			}
			out = append(out, pval{name: fmt.Sprintf("len%d", l.Len()), ptr: l.ToPtr()})
		}
		return out, nil
	case sgen.Interface:
		return []pval{{name: "nil-client", null: true}, {name: "client", cl: capnp.ErrorClient(errors.New("c15"))}}, nil
	case sgen.AnyPointer:
		s, err := capnp.NewStruct(seg, capnp.ObjectSize{DataSize: 8, PointerCount: 1})
		if err != nil {
			return nil, err
		}
		s.SetUint64(0, 0x1122334455667788)
		l, err := capnp.NewTextList(seg, 2)
		if err != nil {
			return nil, err
		}
		l.Set(0, "any")
		return []pval{{name: "null", null: true}, {name: "struct", ptr: s.ToPtr()}, {name: "list", ptr: l.List.ToPtr()}}, nil
	}
	return nil, fmt.Errorf("no values for %v", t)
}

// arg converts a pval to the setter's parameter.
func (x *fx) arg(v pval, pt reflect.Type) reflect.Value {
	switch x.c.f.Type.Kind {
	case sgen.Text:
		return reflect.ValueOf(v.text)
	case sgen.Data:
		if v.data == nil {
			return reflect.Zero(pt)
		}
		return reflect.ValueOf(v.data)
	case sgen.AnyPointer:
		return reflect.ValueOf(v.ptr)
	case sgen.Struct:
		a := reflect.New(pt).Elem()
		a.FieldByName("Struct").Set(reflect.ValueOf(v.ptr.Struct()))
		return a
	case sgen.List:
		a := reflect.New(pt).Elem()
		a.FieldByName("List").Set(reflect.ValueOf(v.ptr.List()))
		return a
	case sgen.Interface:
		a := reflect.New(pt).Elem()
		a.FieldByName("Client").Set(reflect.ValueOf(v.cl))
		return a
	}
	panic("arg")
}

// resultPtr extracts the capnp.Ptr behind a getter result.
func resultPtr(k sgen.Kind, v reflect.Value) capnp.Ptr {
	switch k {
	case sgen.Struct:
		return v.FieldByName("Struct").Interface().(capnp.Struct).ToPtr()
	case sgen.List:
		return v.FieldByName("List").Interface().(capnp.List).ToPtr()
	case sgen.AnyPointer:
		return v.Interface().(capnp.Ptr)
	}
	panic("resultPtr")
}

func canonEq(a, b capnp.Ptr) (bool, string) {
	ca, err := sgen.Canon(a)
	if err != nil {
		return false, "copy of first: " + err.Error()
	}
	cb, err := sgen.Canon(b)
	if err != nil {
		return false, "copy of second: " + err.Error()
	}
	if bytes.Equal(ca, cb) {
		return true, ""
	}
	return false, fmt.Sprintf("%x vs %x", ca, cb)
}

// checkSlotShape checks the raw pointer word against the schema: struct
// pointers carry the target node's section sizes, list pointers the element
// size code of the element type (composite: tag word with the element node's
// sizes).  Only applied to objects allocated by generated New functions.
func (x *fx) checkSlotShape(op string, o *sgen.Obj, n int) {
	f := x.c.f
	word := o.PtrWord(int(f.Offset))
	p := layout.DecodePtr(word)
	switch f.Type.Kind {
	case sgen.Struct:
		tn := f.Type.Ref
		if tn.DataWords == 0 && tn.PtrCount == 0 {
			return
		}
		if p.Null || p.Kind != layout.PtrStruct || p.DataWords != tn.DataWords || p.PtrWords != tn.PtrCount {
			x.failf(op+"-"+x.kind+"/allocated-size", "slot holds %v, target node %s declares %d data words / %d pointers", p, tn.Display, tn.DataWords, tn.PtrCount)
		}
	case sgen.List:
		ek := f.Type.Elem.Kind
		code := layout.ListElemSize(ek.String())
		if p.Null || p.Kind != layout.PtrList || p.ElemSize != code {
			x.failf(op+"-"+x.kind+"/element-size", "slot holds %v, List(%v) is encoded with element size code %d", p, f.Type.Elem.Kind, code)
			return
		}
		if ek == sgen.Struct {
			tn := f.Type.Elem.Ref
			words := int(tn.DataWords) + int(tn.PtrCount)
			tag := layout.DecodePtr(layout.Word(o.Seg.Data(), o.SlotWordIndex(int(f.Offset))+1+int(p.Off)))
			// the tag word is struct-pointer shaped: "offset" = element count
			if int(p.Count) != n*words || (!tag.Null && (tag.Kind != layout.PtrStruct || int(tag.Off) != n || tag.DataWords != tn.DataWords || tag.PtrWords != tn.PtrCount)) || (tag.Null && (n != 0 || words != 0)) {
				x.failf(op+"-"+x.kind+"/allocated-size", "composite list: pointer %v tag %v, want %d elements of %d/%d (%d words)", p, tag, n, tn.DataWords, tn.PtrCount, n*words)
			}
		} else if int(p.Count) != n {
			x.failf(op+"-"+x.kind+"/length", "list pointer %v, want %d elements", p, n)
		}
	}
}

func (x *fx) ptrField() {
	f := x.c.f
	k := f.Type.Kind
	g := f.GoName()
	slot := int(f.Offset)
	wantType := sgen.GoTypeName(f.Type)
	for bg := 0; bg <= 1; bg++ {
		// --- setter, then Has and getter
		o0, _, ok := x.obj(bg)
		if !ok {
			return
		}
		vals, err := x.ptrValues(o0)
		if err != nil {
			x.failf("harness", "%v", err)
			return
		}
		for vi := range vals {
			o, wv, ok := x.obj(bg)
			if !ok {
				return
			}
			vs, _ := x.ptrValues(o)
			v := vs[vi]
			sm := wv.MethodByName("Set" + g)
			if !sm.IsValid() {
				x.callErr("Set"+g, &sgen.MissingError{Type: wv.Type().String(), Method: "Set" + g})
				return
			}
			if sm.Type().NumIn() != 1 || sm.Type().NumOut() != 1 || sm.Type().In(0).String() != wantType {
				x.failf("accessor-signature/"+x.kind+"/set", "Set%s has type %v, documented parameter type is %s and result error", g, sm.Type(), wantType)
				return
			}
			before := o.Snapshot()
			out, pan, err := sgen.Call(wv, "Set"+g, x.arg(v, sm.Type().In(0)))
			if err != nil {
				x.callErr("Set"+g, err)
				return
			}
			x.ran = true
			if pan != nil {
				x.failf("set-"+x.kind+"/panics", "Set%s(%s) panics: %v", g, v.name, pan)
				return
			}
			if e, _ := out[0].Interface().(error); e != nil {
				x.failf("set-"+x.kind+"/error", "Set%s(%s) = %v", g, v.name, e)
				continue
			}
			exp := append([]byte{}, before[o.Base:o.Base+o.Size()]...)
			if f.InUnion() {
				x.setTag(exp, f.Disc)
			}
			// the slot itself is compared separately: copy what is there now
			cur := o.PtrWord(slot)
			layout.PutWord(exp, int(o.Node.DataWords)+slot, cur)
			good := x.compareSegment("set", o, before, exp, true, slot)
			isNull := cur == 0
			// what the slot must reference
			lp, lerr := o.St.Ptr(uint16(slot))
			if lerr != nil {
				x.failf("set-"+x.kind+"/pointer-slot", "library cannot read the slot after Set%s(%s): %v", g, v.name, lerr)
				continue
			}
			switch k {
			case sgen.Text:
				if lp.Text() != v.text {
					x.failf("set-"+x.kind+"/pointer-slot", "after Set%s(%q) the slot holds text %q", g, v.text, lp.Text())
				}
				if isNull && v.text != "" {
					x.failf("set-"+x.kind+"/pointer-slot", "after Set%s(%q) the slot is null", g, v.text)
				}
			case sgen.Data:
				if !bytes.Equal(lp.Data(), v.data) {
					x.failf("set-"+x.kind+"/pointer-slot", "after Set%s(%x) the slot holds data %x", g, v.data, lp.Data())
				}
			case sgen.Interface:
				if v.null != isNull {
					x.failf("set-"+x.kind+"/pointer-slot", "after Set%s(%s) the slot is %v", g, v.name, layout.DecodePtr(cur))
				} else if !v.null {
					d := layout.DecodePtr(cur)
					if d.Kind != layout.PtrOther || int(d.Cap) >= len(o.Msg.CapTable) || o.Msg.CapTable[d.Cap] != v.cl {
						x.failf("set-"+x.kind+"/pointer-slot", "after Set%s(client) the slot is %v and the capability table has %d entries", g, d, len(o.Msg.CapTable))
					}
				}
			default:
				if v.null != isNull {
					x.failf("set-"+x.kind+"/pointer-slot", "after Set%s(%s) the slot is %v", g, v.name, layout.DecodePtr(cur))
				} else if !v.null {
					if eq, why := canonEq(lp, v.ptr); !eq {
						x.failf("set-"+x.kind+"/pointer-slot", "after Set%s(%s) the slot references a different object: %s", g, v.name, why)
					}
				}
			}
			// Has
			hout, pan, err := sgen.Call(wv, "Has"+g)
			if err != nil {
				x.callErr("Has"+g, err)
				return
			}
			if pan != nil {
				x.failf("has-"+x.kind+"/panics", "Has%s() panics: %v", g, pan)
			} else if hout[0].Kind() != reflect.Bool {
				x.failf("accessor-signature/"+x.kind+"/has", "Has%s has type %v", g, wv.MethodByName("Has"+g).Type())
			} else if hout[0].Bool() != !isNull && good {
				x.failf("has-"+x.kind+"/value", "slot null=%v, discriminant matches: Has%s() = %v", isNull, g, hout[0].Bool())
			}
			// getter
			x.checkGetter(o, wv, v, isNull, "after Set"+g+"("+v.name+")")
			if k == sgen.Text {
				// what the setter stored is what the getter returns, also for
				// the empty string on a field with a non-empty default
				if out, pan, err := sgen.Call(wv, g); err == nil && pan == nil && len(out) == 2 {
					if e, _ := out[1].Interface().(error); e == nil && out[0].Kind() == reflect.String && out[0].String() != v.text {
						x.failf("set-get-"+x.kind+"/roundtrip", "after Set%s(%q) the getter returns %q (default %q, slot null=%v)", g, v.text, out[0].String(), f.Def.Text, isNull)
					}
				}
			}
			x.r.Outcome("ptr-set/" + x.c.ctx)
		}
		// --- getter on a slot written by the library (not by generated code)
		for vi := range vals {
			o, wv, ok := x.obj(bg)
			if !ok {
				return
			}
			vs, _ := x.ptrValues(o)
			v := vs[vi]
			var perr error
			switch k {
			case sgen.Text:
				if v.null {
					perr = o.St.SetPtr(uint16(slot), capnp.Ptr{})
				} else {
					perr = o.St.SetNewText(uint16(slot), v.text)
				}
			case sgen.Data:
				perr = o.St.SetData(uint16(slot), v.data)
			case sgen.Interface:
				if v.null {
					perr = o.St.SetPtr(uint16(slot), capnp.Ptr{})
				} else {
					perr = o.St.SetPtr(uint16(slot), capnp.NewInterface(o.Seg, o.Msg.AddCap(v.cl)).ToPtr())
				}
			default:
				perr = o.St.SetPtr(uint16(slot), v.ptr)
			}
			if perr != nil {
				x.failf("harness", "library SetPtr: %v", perr)
				return
			}
			if f.InUnion() {
				x.setTag(o.Raw(), f.Disc)
			}
			isNull := o.PtrWord(slot) == 0
			before := o.Snapshot()
			x.checkGetter(o, wv, v, isNull, "slot written by the library with "+v.name)
			hout, pan, err := sgen.Call(wv, "Has"+g)
			if err == nil && pan == nil && hout[0].Kind() == reflect.Bool && hout[0].Bool() != !isNull {
				x.failf("has-"+x.kind+"/value", "slot null=%v, discriminant matches: Has%s() = %v", isNull, g, hout[0].Bool())
			}
			if !bytes.Equal(before, o.Seg.Data()) {
				x.failf("get-"+x.kind+"/writes", "%s()/Has%s() modified the message", g, g)
			}
		}
		// --- New
		x.newAccessor(bg)
		// --- wrong discriminant
		if f.InUnion() {
			for _, t := range x.wrongTags() {
				o, wv, ok := x.obj(1) // every slot non-null
				if !ok {
					return
				}
				x.setTag(o.Raw(), t)
				_, pan, err := sgen.Call(wv, g)
				if err != nil {
					x.callErr(g, err)
					return
				}
				if pan == nil {
					x.failf("get-"+x.kind+"/no-tag-check/"+x.c.ctx, "discriminant is %d, member is %d: %s() returns instead of panicking", t, f.Disc, g)
				} else {
					x.r.Outcome("wrong-tag-panics")
				}
				hout, pan, err := sgen.Call(wv, "Has"+g)
				if err != nil {
					x.callErr("Has"+g, err)
					return
				}
				if pan != nil {
					x.r.Outcome("has-wrong-tag-panics")
				} else if hout[0].Kind() == reflect.Bool && hout[0].Bool() {
					x.failf("has-"+x.kind+"/no-tag-check/"+x.c.ctx, "discriminant is %d, member is %d, slot non-null: Has%s() = true", t, f.Disc, g)
				}
			}
		}
	}
}

// checkGetter compares X() (and XBytes for text) with the value v that the
// slot holds (isNull: the slot is a null pointer, so the default applies).
func (x *fx) checkGetter(o *sgen.Obj, wv reflect.Value, v pval, isNull bool, when string) {
	f := x.c.f
	k := f.Type.Kind
	g := f.GoName()
	wantType := sgen.GoTypeName(f.Type)
	out, pan, err := sgen.Call(wv, g)
	if err != nil {
		x.callErr(g, err)
		return
	}
	if pan != nil {
		x.failf("get-"+x.kind+"/panics", "%s() panics although the discriminant matches (%s): %v", g, when, pan)
		return
	}
	gm := wv.MethodByName(g).Type()
	if k == sgen.Interface {
		if len(out) != 1 || out[0].Type().String() != wantType {
			x.failf("accessor-signature/"+x.kind+"/get", "%s has type %v, documented result is %s", g, gm, wantType)
			return
		}
		cl, _ := out[0].FieldByName("Client").Interface().(*capnp.Client)
		if isNull && cl != nil && cl.IsValid() {
			x.failf("get-"+x.kind+"/value", "%s: null slot but %s() returns a valid client", when, g)
		}
		if !isNull && cl != v.cl {
			x.failf("get-"+x.kind+"/value", "%s: %s() does not return the client stored in the capability table", when, g)
		}
		return
	}
	if len(out) != 2 || out[0].Type().String() != wantType {
		x.failf("accessor-signature/"+x.kind+"/get", "%s has type %v, documented results are (%s, error)", g, gm, wantType)
		return
	}
	if e, _ := out[1].Interface().(error); e != nil {
		x.failf("get-"+x.kind+"/error", "%s: %s() = %v", when, g, e)
		return
	}
	def := f.Def
	switch k {
	case sgen.Text:
		want := v.text
		if isNull {
			want = def.Text // "" without default
		}
		if got := out[0].String(); got != want {
			x.failf("get-"+x.kind+"/value", "%s (slot null=%v, default %q): %s() = %q, want %q", when, isNull, def.Text, g, got, want)
		}
		bo, pan, err := sgen.Call(wv, g+"Bytes")
		if err != nil {
			x.callErr(g+"Bytes", err)
			return
		}
		if pan == nil && len(bo) == 2 && bo[0].Kind() == reflect.Slice {
			if got := string(bo[0].Bytes()); got != want {
				x.failf("get-"+x.kind+"/bytes-value", "%s: %sBytes() = %q, want %q", when, g, got, want)
			}
		}
	case sgen.Data:
		want := v.data
		if isNull {
			want = def.Data
		}
		if got := out[0].Bytes(); !bytes.Equal(got, want) {
			x.failf("get-"+x.kind+"/value", "%s (slot null=%v, default %x): %s() = %x, want %x", when, isNull, def.Data, g, got, want)
		}
	default:
		got := resultPtr(k, out[0])
		switch {
		case isNull && def.HasPtr:
			msg, seg, _ := capnp.NewMessage(capnp.SingleSegment(nil))
			_ = msg
			dp, err := sgen.BuildPtrDefault(seg, f.Type, def)
			if err != nil {
				x.failf("harness", "%v", err)
				return
			}
			if eq, why := canonEq(got, dp); !eq {
				x.failf("get-"+x.kind+"/default", "%s: null slot, %s() does not return the schema default: %s", when, g, why)
			}
		case isNull:
			if got.IsValid() {
				x.failf("get-"+x.kind+"/value", "%s: null slot, no default, but %s() returns a valid object", when, g)
			}
		default:
			if eq, why := canonEq(got, v.ptr); !eq {
				x.failf("get-"+x.kind+"/value", "%s: %s() returns a different object: %s", when, g, why)
			}
		}
	}
}

// newAccessor checks NewX (struct and list fields).
func (x *fx) newAccessor(bg int) {
	f := x.c.f
	k := f.Type.Kind
	g := f.GoName()
	slot := int(f.Offset)
	wantType := sgen.GoTypeName(f.Type)
	var counts []int
	switch k {
	case sgen.Struct:
		counts = []int{-1}
	case sgen.List:
		counts = []int{0, 1, 3}
	default:
		return
	}
	for _, n := range counts {
		o, wv, ok := x.obj(bg)
		if !ok {
			return
		}
		before := o.Snapshot()
		var out []reflect.Value
		var pan interface{}
		var err error
		if n < 0 {
			out, pan, err = sgen.Call(wv, "New"+g)
		} else {
			out, pan, err = sgen.Call(wv, "New"+g, int32(n))
		}
		if err != nil {
			x.callErr("New"+g, err)
			return
		}
		if pan != nil {
			x.failf("new-"+x.kind+"/panics", "New%s panics: %v", g, pan)
			return
		}
		if len(out) != 2 || out[0].Type().String() != wantType {
			x.failf("accessor-signature/"+x.kind+"/new", "New%s has type %v, documented results are (%s, error)", g, wv.MethodByName("New"+g).Type(), wantType)
			return
		}
		if e, _ := out[1].Interface().(error); e != nil {
			x.failf("new-"+x.kind+"/error", "New%s = %v", g, e)
			continue
		}
		exp := append([]byte{}, before[o.Base:o.Base+o.Size()]...)
		if f.InUnion() {
			x.setTag(exp, f.Disc)
		}
		cur := o.PtrWord(slot)
		layout.PutWord(exp, int(o.Node.DataWords)+slot, cur)
		x.compareSegment("new", o, before, exp, true, slot)
		if n < 0 {
			n = 0
		}
		x.checkSlotShape("new", o, n)
		// the returned object is the one in the slot, and it is all zero
		lp, lerr := o.St.Ptr(uint16(slot))
		if lerr != nil {
			x.failf("new-"+x.kind+"/pointer-slot", "library cannot read the slot after New%s: %v", g, lerr)
			continue
		}
		if eq, why := canonEq(resultPtr(k, out[0]), lp); !eq {
			x.failf("new-"+x.kind+"/result", "New%s returns an object different from the one in the slot: %s", g, why)
		}
		if k == sgen.Struct {
			z, _ := sgen.BuildPtrDefault(o.Seg, f.Type, sgen.Default{})
			if eq, why := canonEq(lp, z); !eq {
				x.failf("new-"+x.kind+"/result", "New%s does not allocate a zeroed struct of the target's size: %s", g, why)
			}
		}
		x.r.Outcome("ptr-new/" + x.c.ctx)
	}
}
