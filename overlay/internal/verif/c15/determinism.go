package main

import (
	"bytes"
	"crypto/sha256"
	"encoding/hex"
	"fmt"
	"go/ast"
	"go/importer"
	"go/parser"
	"go/printer"
	"go/token"
	"go/types"
	"io"
	"io/ioutil"
	"os"
	"os/exec"
	"path/filepath"
	"sort"
	"strings"

	"capnproto.org/go/capnp/v3/internal/verif/c15/sgen"
	"capnproto.org/go/capnp/v3/internal/verif/vlib"
)

// regenCase re-runs the generator on one request three more times, each in a
// fresh process (fresh map hash seed), and compares all outputs byte for
// byte, with each other and with the files that were compiled into this
// binary.  This part of the determinism clause is SAMPLING (three draws of
// the runtime's map seed); the structural argument is mapRangeCase.
func regenCase(w *world, i int64, r *vlib.Rec) {
	st := sgen.Pipeline
	req := w.u.Requests[i]
	b, err := req.Marshal()
	if err != nil {
		r.Fail("harness", err.Error())
		return
	}
	// the request bytes themselves are a deterministic function of the model
	stored, err := ioutil.ReadFile(filepath.Join(st.BuildDir, "gen", "req", req.Name+".bin"))
	if err != nil || !bytes.Equal(stored, b) {
		r.Failf("harness", "request %s is not reproducible (%v)", req.Name, err)
		return
	}
	ref := st.Requests[i].Outputs
	bin := filepath.Join(st.BuildDir, "capnpc-go")
	for run := 0; run < 3; run++ {
		dir, err := ioutil.TempDir("", "c15regen")
		if err != nil {
			r.Fail("harness", err.Error())
			return
		}
		files, stderr, gerr := sgen.RunGenerator(bin, b, dir)
		os.RemoveAll(dir)
		if (gerr == nil) != st.Requests[i].GenOK {
			r.Failf("nondeterminism/generator-exit", "request %s: run %d exit %v, pipeline run ok=%v\n%s", req.Name, run, gerr, st.Requests[i].GenOK, stderr)
			return
		}
		if len(files) != len(ref) {
			r.Failf("nondeterminism/output-files", "request %s: run %d wrote %d files, first run %d", req.Name, run, len(files), len(ref))
			return
		}
		for rel, content := range files {
			h := sha256.Sum256(content)
			if hex.EncodeToString(h[:]) != ref[rel] {
				first, _ := ioutil.ReadFile(filepath.Join(st.BuildDir, "gen", "out", rel))
				r.Failf("nondeterminism/output-bytes", "request %s: %s differs between two runs of the same generator binary on the same request (sampling: run %d of 3)\n%s", req.Name, rel, run+1, firstDiff(first, content))
				return
			}
		}
	}
	r.NonTrivial()
	r.Outcome("regen-identical(sampling,3-runs)")
	r.Note("regen_runs_sampling", 3)
}

func firstDiff(a, b []byte) string {
	la, lb := strings.Split(string(a), "\n"), strings.Split(string(b), "\n")
	for i := 0; i < len(la) && i < len(lb); i++ {
		if la[i] != lb[i] {
			return fmt.Sprintf("line %d:\n - %s\n + %s", i+1, la[i], lb[i])
		}
	}
	return fmt.Sprintf("lengths %d / %d lines", len(la), len(lb))
}

// mapRangeAllow lists reviewed `range` statements over maps in capnpc-go whose
// iteration order cannot reach the output ("func: expr").  Empty today: the
// generator has no map ranges at all (nodeMap and imports.used are only
// indexed).
var mapRangeAllow = map[string]string{}

// mapRangeCase is the structural half of the determinism clause: capnpc-go has
// no goroutines, clocks or random sources, text/template walks maps in sorted
// key order, so the only way two runs can differ is Go's randomised map
// iteration inside the generator's own code.  Type-check the generator's
// sources (go/types, importer "source", offline) and require that no range
// statement has a map-typed operand (outside the reviewed allow-list) and that
// no other order/time dependent construct is present.
func mapRangeCase(r *vlib.Rec) {
	dir := filepath.Join(sgen.RepoDir(), "capnpc-go")
	fset := token.NewFileSet()
	pkgs, err := parser.ParseDir(fset, dir, func(fi os.FileInfo) bool { return !strings.HasSuffix(fi.Name(), "_test.go") }, 0)
	if err != nil {
		r.Failf("harness", "parse %s: %v", dir, err)
		return
	}
	pkg := pkgs["main"]
	if pkg == nil {
		r.Failf("harness", "no package main in %s", dir)
		return
	}
	var files []*ast.File
	var names []string
	for name := range pkg.Files {
		names = append(names, name)
	}
	sort.Strings(names)
	for _, name := range names {
		files = append(files, pkg.Files[name])
	}
	info := &types.Info{Types: map[ast.Expr]types.TypeAndValue{}}
	typed := true
	old, _ := os.Getwd()
	os.Chdir(dir) // the source importer resolves module imports relative to the cwd
	// "gc" reads export data of the already compiled dependencies (go list
	// -export, offline, fast); "source" type-checks them from source (slow)
	// and is the fallback.
	var terr error
	exports := map[string]string{}
	if out, err := exec.Command("go", "list", "-export", "-deps", "-f", "{{.ImportPath}}={{.Export}}", ".").Output(); err == nil {
		for _, line := range strings.Split(string(out), "\n") {
			if kv := strings.SplitN(line, "=", 2); len(kv) == 2 && kv[1] != "" {
				exports[kv[0]] = kv[1]
			}
		}
	}
	lookup := func(path string) (io.ReadCloser, error) {
		if f, ok := exports[path]; ok {
			return os.Open(f)
		}
		return nil, fmt.Errorf("no export data for %s", path)
	}
	for _, comp := range []string{"gc", "source"} {
		info.Types = map[ast.Expr]types.TypeAndValue{}
		var imp types.Importer
		if comp == "gc" {
			imp = importer.ForCompiler(fset, "gc", lookup)
		} else {
			imp = importer.ForCompiler(fset, "source", nil)
		}
		conf := types.Config{Importer: imp, Error: func(error) {}}
		if _, terr = conf.Check("main", fset, files, info); terr == nil {
			r.Outcome("typechecked-with-importer-" + comp)
			break
		}
	}
	os.Chdir(old)
	if terr != nil {
		typed = false
		r.Note("maprange_typecheck_failed", 1)
	}
	text := func(e ast.Node) string {
		var b bytes.Buffer
		printer.Fprint(&b, fset, e)
		return b.String()
	}
	ranges, maps := 0, 0
	for _, f := range files {
		for _, imp := range f.Imports {
			switch strings.Trim(imp.Path.Value, `"`) {
			case "math/rand", "crypto/rand", "time", "sync", "runtime":
				r.Failf("nondeterminism/imports-"+keyify(strings.Trim(imp.Path.Value, `"`)), "%s imports %s: generator output may depend on time, randomness or scheduling", fset.Position(imp.Pos()), imp.Path.Value)
			}
		}
		var fn string
		ast.Inspect(f, func(n ast.Node) bool {
			switch x := n.(type) {
			case *ast.FuncDecl:
				fn = x.Name.Name
				if x.Recv != nil && len(x.Recv.List) == 1 {
					fn = strings.TrimPrefix(text(x.Recv.List[0].Type), "*") + "." + fn
				}
			case *ast.GoStmt:
				r.Failf("nondeterminism/goroutine", "%s: go statement in the generator (%s)", fset.Position(x.Pos()), fn)
			case *ast.SelectStmt:
				r.Failf("nondeterminism/select", "%s: select statement in the generator (%s)", fset.Position(x.Pos()), fn)
			case *ast.RangeStmt:
				ranges++
				isMap, known := false, false
				if tv, ok := info.Types[x.X]; ok && tv.Type != nil {
					known = true
					_, isMap = tv.Type.Underlying().(*types.Map)
				}
				if !known {
					// no type information: fall back to the syntactic allow-list
					typed = false
				}
				if isMap {
					maps++
					key := fn + ": " + text(x.X)
					if _, ok := mapRangeAllow[key]; ok {
						r.Outcome("map-range-allowed")
						return true
					}
					r.Failf("nondeterminism/map-range-in-generator", "%s: `for ... := range %s` in %s iterates a map (%v); Go randomises the order, so emitted code may differ from run to run unless the order provably cannot reach the output (then add it to the reviewed allow-list)", fset.Position(x.Pos()), text(x.X), fn, info.Types[x.X].Type)
				}
			}
			return true
		})
	}
	if !typed {
		r.Failf("harness", "type information for capnpc-go incomplete (%v); the map-range analysis needs go/types with the source importer", terr)
		return
	}
	r.NonTrivial()
	r.Note("range_statements_checked", int64(ranges))
	r.Note("map_ranges_found", int64(maps))
	r.Outcome(fmt.Sprintf("static-ok(%d-range-statements,%d-over-maps)", ranges, maps))
}
