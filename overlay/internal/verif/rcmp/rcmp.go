// Package rcmp bridges the independent reference (package ref) and the real
// library: it loads ref segments into a capnp.Message and compares what the
// PUBLIC accessors of the library return with a ref.Value tree.
//
//	Load(segs)                 → *capnp.Message reading a private copy of segs
//	                             (every segment has cap == len, so any read or
//	                             reslice past a segment end panics), with
//	                             TraverseLimit 2^40 and DepthLimit 1000
//	(&Checker{...}).Ptr(...)   directed comparison of a capnp.Ptr with the tree
//	                             the spec says it denotes
//	Read(p, shape)             → ref.Value read back through the accessors,
//	                             guided by the kinds in shape
//
// It is shared by the C03, C17 and C18 harnesses and meant for C04/C05/C16.
package rcmp

import (
	"bytes"
	"encoding/binary"
	"fmt"
	"math"
	"unsafe"

	capnp "capnproto.org/go/capnp/v3"
	"capnproto.org/go/capnp/v3/internal/verif/ref"
)

// Load copies segs into fresh memory and returns a Message over it with the
// security limits lifted (traversal 2^40 bytes, depth 1000).
func Load(segs [][]byte) *capnp.Message {
	m, _ := LoadSlab(segs)
	return m
}

// Slab remembers where the segments of a loaded message live.
type Slab struct {
	Segs [][]byte
}

// Contains reports whether b (non-empty) lies completely inside one segment.
func (s *Slab) Contains(b []byte) bool {
	if len(b) == 0 {
		return true
	}
	lo := uintptr(unsafe.Pointer(&b[0]))
	hi := lo + uintptr(len(b))
	for _, seg := range s.Segs {
		if len(seg) == 0 {
			continue
		}
		slo := uintptr(unsafe.Pointer(&seg[0]))
		if lo >= slo && hi <= slo+uintptr(len(seg)) {
			return true
		}
	}
	return false
}

// LoadSlab is Load that also returns the memory map.
func LoadSlab(segs [][]byte) (*capnp.Message, *Slab) {
	total := 0
	for _, s := range segs {
		total += len(s) + 16
	}
	slab := make([]byte, total+16)
	for i := range slab {
		slab[i] = 0xC5
	}
	out := make([][]byte, len(segs))
	off := 16
	for i, s := range segs {
		out[i] = slab[off : off+len(s) : off+len(s)]
		copy(out[i], s)
		off += len(s) + 16
	}
	cp := make([][]byte, len(out))
	copy(cp, out)
	return &capnp.Message{Arena: capnp.MultiSegment(cp), TraverseLimit: 1 << 40, DepthLimit: 1000}, &Slab{Segs: out}
}

// Checker compares library reads with a reference tree.
type Checker struct {
	// Fail receives a violation class (stable, no indices) and a detail.
	Fail func(key, detail string)
	// Outcome, if set, receives behaviours the property leaves open.
	Outcome func(class string)
	// Slab, if set, is used to check that byte slices handed out by the
	// library alias segment memory.
	Slab *Slab
	// Sweep enables the full accessor sweep (every width at every aligned
	// offset, bits, cross-kind list views); without it only the matching
	// accessors are used.
	Sweep bool
	// Context is appended to every detail (layout description, hex dump).
	Context string
}

func (c *Checker) fail(key, path, format string, a ...interface{}) {
	c.Fail(key, fmt.Sprintf("at %s: ", path)+fmt.Sprintf(format, a...)+c.Context)
}

func (c *Checker) outcome(class string) {
	if c.Outcome != nil {
		c.Outcome(class)
	}
}

func kindName(p capnp.Ptr) string {
	switch {
	case !p.IsValid():
		return "null"
	case p.Struct().IsValid():
		return "struct"
	case p.List().IsValid():
		return "list"
	case p.Interface().IsValid():
		return "cap"
	}
	return "?"
}

func wantKind(v ref.Value) string {
	return [...]string{"null", "struct", "list", "cap"}[v.Kind]
}

// Ptr checks that p (obtained with error err) denotes want.
func (c *Checker) Ptr(p capnp.Ptr, err error, want ref.Value, path string) {
	if err != nil {
		c.fail("lib-error/"+wantKind(want), path, "library error %q where the spec value is %s", err, want)
		return
	}
	if got := kindName(p); got != wantKind(want) {
		c.fail("kind/"+wantKind(want)+"-read-as-"+got, path, "pointer kind %s, spec says %s", got, want)
		return
	}
	switch want.Kind {
	case ref.KindCap:
		if got := uint32(p.Interface().Capability()); got != want.Cap {
			c.fail("cap/index", path, "capability index %d, want %d", got, want.Cap)
		}
	case ref.KindStruct:
		c.Struct(p.Struct(), want, path)
	case ref.KindList:
		c.List(p, want, path)
	}
}

func le(b []byte, off, n int) uint64 {
	if off+n > len(b) {
		return 0
	}
	var x uint64
	for i := n - 1; i >= 0; i-- {
		x = x<<8 | uint64(b[off+i])
	}
	return x
}

// Struct checks a struct against want (Kind == KindStruct).
func (c *Checker) Struct(s capnp.Struct, want ref.Value, path string) {
	dl, pc := len(want.Data), len(want.Ptrs)
	if sz := s.Size(); int(sz.DataSize) != dl || int(sz.PointerCount) != pc {
		c.fail("struct/size", path, "Size() = %d bytes/%d pointers, want %d/%d", sz.DataSize, sz.PointerCount, dl, pc)
		return
	}
	c.structFields(s, want.Data, want.Ptrs, path, true)
}

// structFields checks the accessors of s against a data section (which need
// not be whole words: elements of primitive lists) and pointers.
func (c *Checker) structFields(s capnp.Struct, data []byte, ptrs []ref.Value, path string, whole bool) {
	dl, pc := len(data), len(ptrs)
	lim := dl
	if c.Sweep && whole {
		lim = dl + 8 // reads beyond the section give the default
	}
	for off := 0; off+8 <= lim; off += 8 {
		if got, w := s.Uint64(capnp.DataOffset(off)), le(data, off, 8); got != w {
			c.fail(beyond("struct/uint64", off, 8, dl), path, "Uint64(%d) = %#x, want %#x", off, got, w)
			return
		}
	}
	if c.Sweep || !whole {
		for off := 0; off+4 <= lim; off += 4 {
			if got, w := s.Uint32(capnp.DataOffset(off)), uint32(le(data, off, 4)); got != w {
				c.fail(beyond("struct/uint32", off, 4, dl), path, "Uint32(%d) = %#x, want %#x", off, got, w)
				return
			}
		}
		for off := 0; off+2 <= lim; off += 2 {
			if got, w := s.Uint16(capnp.DataOffset(off)), uint16(le(data, off, 2)); got != w {
				c.fail(beyond("struct/uint16", off, 2, dl), path, "Uint16(%d) = %#x, want %#x", off, got, w)
				return
			}
		}
		for off := 0; off < lim; off++ {
			if got, w := s.Uint8(capnp.DataOffset(off)), uint8(le(data, off, 1)); got != w {
				c.fail(beyond("struct/uint8", off, 1, dl), path, "Uint8(%d) = %#x, want %#x", off, got, w)
				return
			}
		}
		// bits of the first, last and first-beyond byte
		for _, by := range []int{0, dl - 1, dl} {
			if by < 0 || (by >= dl && !whole) {
				continue
			}
			for bit := 8 * by; bit < 8*by+8; bit++ {
				w := by < dl && data[by]>>(uint(bit)%8)&1 != 0
				if got := s.Bit(capnp.BitOffset(bit)); got != w {
					c.fail(beyond("struct/bit", by, 1, dl), path, "Bit(%d) = %v, want %v", bit, got, w)
					return
				}
			}
		}
	}
	for i := 0; i < pc; i++ {
		if got, w := s.HasPtr(uint16(i)), !ptrs[i].IsNull(); got != w {
			c.fail("struct/hasptr", path, "HasPtr(%d) = %v, want %v", i, got, w)
		}
		p, err := s.Ptr(uint16(i))
		c.Ptr(p, err, ptrs[i], fmt.Sprintf("%s.p%d", path, i))
	}
	if whole {
		// the first pointer beyond the section reads as null
		p, err := s.Ptr(uint16(pc))
		if err != nil || p.IsValid() || s.HasPtr(uint16(pc)) {
			c.fail("struct/ptr-beyond-section", path, "Ptr(%d) beyond a %d-pointer section = valid:%v err:%v HasPtr:%v, want null", pc, pc, p.IsValid(), err, s.HasPtr(uint16(pc)))
		}
	}
}

func beyond(key string, off, n, dl int) string {
	if off+n > dl {
		return key + "-beyond-section"
	}
	return key
}

// List checks a list pointer against want (Kind == KindList).
func (c *Checker) List(p capnp.Ptr, want ref.Value, path string) {
	l := p.List()
	if l.Len() != want.N {
		c.fail("list/len/"+want.Elem.String(), path, "Len() = %d, want %d (%s)", l.Len(), want.N, want)
		return
	}
	n := want.N
	// indices to visit: all for small lists, the ends for huge ones
	idx := make([]int, 0, 8)
	if n <= 4096 {
		for i := 0; i < n; i++ {
			idx = append(idx, i)
		}
	} else {
		idx = append(idx, 0, 1, n/2, n-2, n-1)
	}
	switch want.Elem {
	case ref.ElemVoid:
		for _, i := range idx {
			if s := l.Struct(i); !s.IsValid() || s.Size() != (capnp.ObjectSize{}) {
				c.fail("list/void-struct-view", path, "Struct(%d) of a void list: valid=%v size=%v", i, s.IsValid(), s.Size())
				return
			}
		}
		if c.Sweep {
			c.foreignViews(l, idx, path, "void")
		}
	case ref.ElemBit:
		bl := capnp.BitList{List: l}
		for _, i := range idx {
			if got := bl.At(i); got != want.Bit(i) {
				c.fail("list/bit", path, "BitList.At(%d) = %v, want %v (%s)", i, got, want.Bit(i), want)
				return
			}
		}
		if c.Sweep {
			c.foreignViews(l, idx, path, "bit")
		}
	case ref.ElemByte1, ref.ElemByte2, ref.ElemByte4, ref.ElemByte8:
		sz := want.Elem.ByteSize()
		for _, i := range idx {
			w := le(want.Raw, i*sz, sz)
			var got, got2 uint64
			switch sz {
			case 1:
				got, got2 = uint64(capnp.UInt8List{List: l}.At(i)), uint64(uint8(capnp.Int8List{List: l}.At(i)))
			case 2:
				got, got2 = uint64(capnp.UInt16List{List: l}.At(i)), uint64(uint16(capnp.Int16List{List: l}.At(i)))
			case 4:
				got, got2 = uint64(capnp.UInt32List{List: l}.At(i)), uint64(uint32(capnp.Int32List{List: l}.At(i)))
				if f := math.Float32bits(capnp.Float32List{List: l}.At(i)); uint64(f) != w && !(math.IsNaN(float64(math.Float32frombits(uint32(w))))) {
					c.fail("list/float32", path, "Float32List.At(%d) bits %#x, want %#x", i, f, w)
					return
				}
			case 8:
				got, got2 = (capnp.UInt64List{List: l}).At(i), uint64(capnp.Int64List{List: l}.At(i))
				if f := math.Float64bits(capnp.Float64List{List: l}.At(i)); f != w && !math.IsNaN(math.Float64frombits(w)) {
					c.fail("list/float64", path, "Float64List.At(%d) bits %#x, want %#x", i, f, w)
					return
				}
			}
			if got != w || got2 != w {
				c.fail("list/"+want.Elem.String(), path, "typed At(%d) = %#x / %#x, want %#x (%s)", i, got, got2, w, want)
				return
			}
			// the element seen as a struct holding the value as sole field
			s := l.Struct(i)
			if !s.IsValid() {
				c.fail("list/struct-view-of-"+want.Elem.String(), path, "Struct(%d) invalid", i)
				return
			}
			if ss := s.Size(); int(ss.DataSize) != sz || ss.PointerCount != 0 {
				c.fail("list/struct-view-of-"+want.Elem.String(), path, "Struct(%d).Size() = %v, want %d bytes/0", i, ss, sz)
				return
			}
			c.structFields(s, want.Raw[i*sz:(i+1)*sz], nil, fmt.Sprintf("%s[%d]", path, i), false)
		}
		if want.Elem == ref.ElemByte1 {
			c.bytesViews(p, want, path)
		}
		if c.Sweep {
			c.foreignViews(l, idx, path, want.Elem.String())
		}
	case ref.ElemPtr:
		pl := capnp.PointerList{List: l}
		for _, i := range idx {
			q, err := pl.At(i)
			ep := fmt.Sprintf("%s[%d]", path, i)
			c.Ptr(q, err, want.Elems[i], ep)
			s := l.Struct(i)
			if ss := s.Size(); !s.IsValid() || ss.DataSize != 0 || ss.PointerCount != 1 {
				c.fail("list/struct-view-of-ptr", path, "Struct(%d): valid=%v size=%v, want 0 bytes/1 pointer", i, s.IsValid(), ss)
				return
			}
			if c.Sweep {
				q2, err2 := s.Ptr(0)
				c.Ptr(q2, err2, want.Elems[i], ep+".asStruct.p0")
				c.textDataElem(l, i, want.Elems[i], ep)
			}
		}
		if c.Sweep {
			c.foreignViews(l, idx, path, "ptr")
		}
	case ref.ElemComposite:
		for _, i := range idx {
			e := want.ElemAt(i)
			s := l.Struct(i)
			ep := fmt.Sprintf("%s[%d]", path, i)
			if !s.IsValid() {
				c.fail("list/composite-struct-invalid", path, "Struct(%d) invalid", i)
				return
			}
			c.Struct(s, e, ep)
			if !c.Sweep {
				continue
			}
			// list upgrade rule read the other way: a reader expecting a
			// primitive / pointer list gets the first field of each element
			if want.DW >= 1 {
				d := e.Data
				if got := (capnp.UInt8List{List: l}).At(i); got != d[0] {
					c.fail("list/composite-as-u8", ep, "UInt8List.At on composite(%d/%d) = %#x, want first byte %#x", want.DW, want.PC, got, d[0])
				}
				if got := (capnp.UInt16List{List: l}).At(i); got != binary.LittleEndian.Uint16(d) {
					c.fail("list/composite-as-u16", ep, "UInt16List.At on composite(%d/%d) = %#x, want %#x", want.DW, want.PC, got, binary.LittleEndian.Uint16(d))
				}
				if got := (capnp.UInt32List{List: l}).At(i); got != binary.LittleEndian.Uint32(d) {
					c.fail("list/composite-as-u32", ep, "UInt32List.At on composite(%d/%d) = %#x, want %#x", want.DW, want.PC, got, binary.LittleEndian.Uint32(d))
				}
				if got := (capnp.UInt64List{List: l}).At(i); got != binary.LittleEndian.Uint64(d) {
					c.fail("list/composite-as-u64", ep, "UInt64List.At on composite(%d/%d) = %#x, want %#x", want.DW, want.PC, got, binary.LittleEndian.Uint64(d))
				}
			} else {
				// no data section: the primitive field is absent, reads give 0
				if g8, g64 := (capnp.UInt8List{List: l}).At(i), (capnp.UInt64List{List: l}).At(i); g8 != 0 || g64 != 0 {
					c.fail("list/composite-nodata-as-int", ep, "integer view on composite(0/%d) = %#x/%#x, want 0", want.PC, g8, g64)
				}
			}
			if want.PC >= 1 {
				q, err := (capnp.PointerList{List: l}).At(i)
				first := ""
				sub := &Checker{Fail: func(key, detail string) {
					if first == "" {
						first = key + ": " + detail
					}
				}}
				sub.Ptr(q, err, e.Ptrs[0], ep+".asPointerList")
				if first != "" {
					k := "list/composite-as-ptr/no-data-words"
					if want.DW > 0 {
						k = "list/composite-as-ptr/with-data-words"
					}
					c.fail(k, ep, "PointerList.At on composite(%d/%d) does not give the element's first pointer %s: %s", want.DW, want.PC, e.Ptrs[0], first)
				}
			} else if _, err := (capnp.PointerList{List: l}).At(i); err != nil {
				c.outcome("view/ptr-on-composite-without-pointers:error")
			} else {
				c.outcome("view/ptr-on-composite-without-pointers:ok")
			}
			if (capnp.BitList{List: l}).At(i) {
				c.outcome("view/bit-on-composite:true")
			}
		}
	}
}

// bytesViews checks Data/Text/TextBytes on a List(UInt8) pointer.
func (c *Checker) bytesViews(p capnp.Ptr, want ref.Value, path string) {
	d := p.Data()
	if !bytes.Equal(d, want.Raw) {
		c.fail("list/data-bytes", path, "Data() = %x, want %x", d, want.Raw)
		return
	}
	if c.Slab != nil && !c.Slab.Contains(d) {
		c.fail("list/data-not-in-segment", path, "Data() returns memory outside the segments")
	}
	var wt []byte
	isText := want.N > 0 && want.Raw[want.N-1] == 0
	if isText {
		wt = want.Raw[:want.N-1]
	}
	if tb := p.TextBytes(); !bytes.Equal(tb, wt) {
		c.fail("list/text-bytes", path, "TextBytes() = %q (nil:%v), want %q", tb, tb == nil, wt)
	} else if c.Slab != nil && !c.Slab.Contains(tb) {
		c.fail("list/text-not-in-segment", path, "TextBytes() returns memory outside the segments")
	}
	if t := p.Text(); t != string(wt) {
		c.fail("list/text", path, "Text() = %q, want %q", t, wt)
	}
	if !isText {
		if t := p.TextDefault("dflt"); t != "dflt" {
			c.fail("list/text-default", path, "TextDefault on a byte list without NUL terminator = %q, want the default", t)
		}
	}
}

// textDataElem checks TextList/DataList views of element i of a pointer list.
func (c *Checker) textDataElem(l capnp.List, i int, want ref.Value, path string) {
	if want.Kind != ref.KindList || want.Elem != ref.ElemByte1 {
		return
	}
	d, err := (capnp.DataList{List: l}).At(i)
	if err != nil || !bytes.Equal(d, want.Raw) {
		c.fail("list/datalist-at", path, "DataList.At = %x, %v; want %x", d, err, want.Raw)
	}
	wt := ""
	if want.N > 0 && want.Raw[want.N-1] == 0 {
		wt = string(want.Raw[:want.N-1])
	}
	t, err := (capnp.TextList{List: l}).At(i)
	if err != nil || t != wt {
		c.fail("list/textlist-at", path, "TextList.At = %q, %v; want %q", t, err, wt)
	}
}

// foreignViews applies every typed view that does NOT match the list kind.
// The property leaves the results open (recorded as outcomes); only panics
// (caught by the runner) matter.
func (c *Checker) foreignViews(l capnp.List, idx []int, path string, kind string) {
	for _, i := range idx {
		if kind != "bit" && (capnp.BitList{List: l}).At(i) {
			c.outcome("view/bit-on-" + kind + ":true")
		}
		if kind != "u8" && (capnp.UInt8List{List: l}).At(i) != 0 {
			c.outcome("view/u8-on-" + kind + ":nonzero")
		}
		if kind != "u16" && (capnp.UInt16List{List: l}).At(i) != 0 {
			c.outcome("view/u16-on-" + kind + ":nonzero")
		}
		if kind != "u32" && (capnp.UInt32List{List: l}).At(i) != 0 {
			c.outcome("view/u32-on-" + kind + ":nonzero")
		}
		if kind != "u64" && (capnp.UInt64List{List: l}).At(i) != 0 {
			c.outcome("view/u64-on-" + kind + ":nonzero")
		}
		if kind != "ptr" {
			if q, err := (capnp.PointerList{List: l}).At(i); err == nil {
				c.outcome("view/ptr-on-" + kind + ":" + kindName(q))
			}
		}
		_ = l.Struct(i)
	}
}

// Read reads p back into a ref.Value through the public accessors.  The
// library does not expose a list's element kind, so the kinds are taken from
// shape (normally the expected tree); everything else (sizes, bytes, counts,
// capability indices, nested pointers) is read from the library.  ok is false
// if the pointer kinds disagree with shape or the library returns an error.
func Read(p capnp.Ptr, shape ref.Value) (v ref.Value, ok bool) {
	if kindName(p) != wantKind(shape) {
		return ref.Value{}, false
	}
	switch shape.Kind {
	case ref.KindNull:
		return ref.Value{}, true
	case ref.KindCap:
		return ref.CapV(uint32(p.Interface().Capability())), true
	case ref.KindStruct:
		return readStruct(p.Struct(), shape)
	}
	l := p.List()
	n := l.Len()
	if n < 0 || n > 1<<16 {
		return ref.Value{}, false
	}
	v = ref.Value{Kind: ref.KindList, Elem: shape.Elem, N: n}
	switch shape.Elem {
	case ref.ElemVoid:
	case ref.ElemBit:
		v.Raw = make([]byte, (n+7)/8)
		for i := 0; i < n; i++ {
			if (capnp.BitList{List: l}).At(i) {
				v.Raw[i/8] |= 1 << uint(i%8)
			}
		}
	case ref.ElemByte1:
		for i := 0; i < n; i++ {
			v.Raw = append(v.Raw, (capnp.UInt8List{List: l}).At(i))
		}
	case ref.ElemByte2:
		v.Raw = make([]byte, 2*n)
		for i := 0; i < n; i++ {
			binary.LittleEndian.PutUint16(v.Raw[2*i:], (capnp.UInt16List{List: l}).At(i))
		}
	case ref.ElemByte4:
		v.Raw = make([]byte, 4*n)
		for i := 0; i < n; i++ {
			binary.LittleEndian.PutUint32(v.Raw[4*i:], (capnp.UInt32List{List: l}).At(i))
		}
	case ref.ElemByte8:
		v.Raw = make([]byte, 8*n)
		for i := 0; i < n; i++ {
			binary.LittleEndian.PutUint64(v.Raw[8*i:], (capnp.UInt64List{List: l}).At(i))
		}
	case ref.ElemPtr:
		v.Elems = make([]ref.Value, n)
		for i := 0; i < n; i++ {
			q, err := (capnp.PointerList{List: l}).At(i)
			if err != nil {
				return ref.Value{}, false
			}
			var sh ref.Value
			if i < len(shape.Elems) {
				sh = shape.Elems[i]
			}
			e, ok := Read(q, sh)
			if !ok {
				return ref.Value{}, false
			}
			v.Elems[i] = e
		}
	case ref.ElemComposite:
		if n == 0 {
			v.DW, v.PC = shape.DW, shape.PC
			if v.DW+v.PC > 0 {
				v.Elems = []ref.Value{}
			}
			return v, true
		}
		sz := l.Struct(0).Size()
		if sz.DataSize%8 != 0 {
			return ref.Value{}, false
		}
		v.DW, v.PC = int(sz.DataSize/8), int(sz.PointerCount)
		if v.DW+v.PC == 0 {
			return v, true
		}
		v.Elems = make([]ref.Value, n)
		for i := 0; i < n; i++ {
			sh := ref.Value{Kind: ref.KindStruct}
			if i < shape.N && shape.Elems != nil {
				sh = shape.Elems[i]
			}
			e, ok := readStruct(l.Struct(i), sh)
			if !ok {
				return ref.Value{}, false
			}
			v.Elems[i] = e
		}
	}
	return v, true
}

func readStruct(s capnp.Struct, shape ref.Value) (ref.Value, bool) {
	sz := s.Size()
	if sz.DataSize%8 != 0 {
		return ref.Value{}, false
	}
	v := ref.Value{Kind: ref.KindStruct, Data: make([]byte, sz.DataSize), Ptrs: make([]ref.Value, sz.PointerCount)}
	for off := 0; off < len(v.Data); off += 8 {
		binary.LittleEndian.PutUint64(v.Data[off:], s.Uint64(capnp.DataOffset(off)))
	}
	for i := range v.Ptrs {
		q, err := s.Ptr(uint16(i))
		if err != nil {
			return ref.Value{}, false
		}
		var sh ref.Value
		if i < len(shape.Ptrs) {
			sh = shape.Ptrs[i]
		} else if q.IsValid() {
			return ref.Value{}, false
		}
		e, ok := Read(q, sh)
		if !ok {
			return ref.Value{}, false
		}
		v.Ptrs[i] = e
	}
	return v, true
}
