// C05 — produced messages are valid Cap'n Proto that any implementation can
// read.
//
// The same exploration as C04 (package bfsbuild: breadth-first search over
// builder-operation sequences x arena configurations, model heap in
// lock-step), with an oracle that never uses the library's own decoder:
// after EVERY operation the bytes of Message.Marshal() are split by
// ref.Unframe (strict stream-framing parser: segment count, sizes, padding
// word, no trailing bytes) and must be exactly the message's segments;
// ref.Validate (independent spec decoder + writer rules) must accept them:
// every segment word-aligned, every pointer resolves inside its target
// segment, far landing pads are struct/list pointers, double-far pads are
// [far pointer, tag with zero offset], composite list pointers carry exactly
// count x element words, zero-sized structs use offset -1, objects and
// landing pads reached through different pointers are identical or disjoint,
// list padding is zero; and the tree ref.Validate decodes must be Identical
// to the model tree of the root; the same for every live handle whose object
// is not (yet) reachable from the root, on a copy of the segments re-rooted
// at that object.  The storage of distinct handles must be
// pairwise disjoint and inside the segments.
package main

import (
	"bytes"
	"encoding/binary"
	"fmt"
	"time"

	"capnproto.org/go/capnp/v3/internal/verif/bfsbuild"
	"capnproto.org/go/capnp/v3/internal/verif/ref"
	"capnproto.org/go/capnp/v3/internal/verif/vlib"
)

func oracle(r *vlib.Rec) bfsbuild.Oracle {
	return bfsbuild.Oracle{
		Transition: func(w *bfsbuild.World, last bfsbuild.Op, fail func(key, detail string)) {
			after := "/after-" + last.Name()
			r.Outcome("op/" + last.Name())
			if d := w.Disjoint(); d != "" {
				fail("alloc/objects-overlap"+after, d)
				return
			}
			b, err := w.Msg.Marshal()
			if err != nil {
				fail("marshal/error"+after, err.Error())
				return
			}
			segs, err := ref.Unframe(b)
			if err != nil {
				fail("frame/"+ref.ErrClass(err)+after, fmt.Sprintf("the output of Marshal is not one well-framed message: %v\n bytes %x", err, b))
				return
			}
			real, err := w.Segments()
			if err != nil {
				fail("frame/segment-error"+after, err.Error())
				return
			}
			if len(real) != len(segs) {
				fail("frame/segment-count"+after, fmt.Sprintf("Marshal frames %d segments, the message has %d", len(segs), len(real)))
				return
			}
			for i := range segs {
				if !bytes.Equal(segs[i], real[i]) {
					fail("frame/segment-content"+after, fmt.Sprintf("framed segment %d differs from the message's segment\n framed %x\n real   %x", i, segs[i], real[i]))
					return
				}
			}
			want, cut := w.Unfold(w.Root)
			rep, err := ref.Validate(segs)
			ctx := "\n " + ref.HexSegments(segs)
			if err != nil {
				if cut && ref.IsUnspecified(err) {
					r.Outcome("root/cyclic")
					return
				}
				mt := "(cyclic)"
				if !cut {
					mt = want.String()
				}
				fail("validate/"+ref.ErrClass(err)+after, fmt.Sprintf("%v\n model root %s%s", err, mt, ctx))
				return
			}
			if cut {
				fail("harness/cyclic-root-validated", "ref.Validate accepts a cyclic message"+ctx)
				return
			}
			if !ref.Identical(rep.Root, want) {
				fail("decode/differs-from-model"+after, fmt.Sprintf("independent decoder reads %s\n model root %s%s", rep.Root, want, ctx))
				return
			}
			if rep.DirtyPadding > 0 {
				fail("validate/list-padding-not-zero"+after, fmt.Sprintf("%d primitive lists reachable from the root have non-zero padding%s", rep.DirtyPadding, ctx))
				return
			}
			// Objects not (yet) reachable from the root: re-root a copy of the
			// segments at every live handle (root word := double-far pointer
			// to a landing pad in an extra last segment that addresses the
			// handle's object) and judge that message the same way.
			for hi, h := range w.H {
				o := w.Objs[h.Obj]
				hs := bfsbuild.Slot{K: bfsbuild.SlotObj, Obj: h.Obj}
				hwant, hcut := w.Unfold(hs)
				if hcut || o.Seg < 0 || handleWords(o) == 0 {
					continue
				}
				segs2 := reroot(segs, o)
				hrep, err := ref.Validate(segs2)
				hctx := "\n (message re-rooted at the handle through an extra landing-pad segment) " + ref.HexSegments(segs2)
				if err != nil {
					fail("validate-handle/"+ref.ErrClass(err)+after, fmt.Sprintf("object behind handle h%d: %v\n model %s%s", hi, err, hwant, hctx))
					return
				}
				if !ref.Identical(hrep.Root, hwant) {
					fail("decode-handle/differs-from-model"+after, fmt.Sprintf("independent decoder reads the object behind handle h%d as %s\n model %s%s", hi, hrep.Root, hwant, hctx))
					return
				}
				r.Outcome("handle/judged")
			}
			far, dfar := 0, 0
			for _, e := range rep.Extents {
				if e.Kind == "pad" {
					if e.End-e.Start == 2 {
						dfar++
					} else {
						far++
					}
				}
			}
			switch {
			case want.IsNull():
				r.Outcome("root/null")
			case far > 0 && dfar > 0:
				r.Outcome("layout/far+double-far")
			case dfar > 0:
				r.Outcome("layout/double-far")
			case far > 0:
				r.Outcome("layout/far")
			default:
				r.Outcome("layout/near-only")
			}
			if rep.Aliased > 0 {
				r.Outcome("layout/aliased-objects")
			}
		},
	}
}

// handleWords is the size in words of what a pointer to o addresses.
func handleWords(o *bfsbuild.Obj) int {
	if !o.IsList {
		return o.DW + o.PC
	}
	switch o.Elem {
	case ref.ElemVoid:
		return 0
	case ref.ElemPtr:
		return o.N
	case ref.ElemComposite:
		return 1 + o.N*(o.DW+o.PC)
	}
	return (len(o.Data) + 7) / 8
}

// reroot returns a copy of segs with one more segment holding a double-far
// landing pad [far pointer to o, tag describing o], and the root word replaced
// by the double-far pointer to it.
func reroot(segs [][]byte, o *bfsbuild.Obj) [][]byte {
	out := make([][]byte, len(segs)+1)
	for i := range segs {
		out[i] = append([]byte{}, segs[i]...)
	}
	start := uint64(o.Off / 8)
	var tag uint64
	switch {
	case !o.IsList:
		tag = uint64(o.DW)<<32 | uint64(o.PC)<<48
	case o.Elem == ref.ElemComposite:
		start-- // the tag word
		tag = 1 | 7<<32 | uint64(o.N*(o.DW+o.PC))<<35
	default:
		tag = 1 | uint64(o.Elem)<<32 | uint64(o.N)<<35
	}
	pad := make([]byte, 16)
	binary.LittleEndian.PutUint64(pad[0:], 2|start<<3|uint64(o.Seg)<<32)
	binary.LittleEndian.PutUint64(pad[8:], tag)
	out[len(segs)] = pad
	binary.LittleEndian.PutUint64(out[0][0:], 2|4|uint64(len(segs))<<32)
	return out
}

func main() {
	vlib.Main(vlib.Spec{
		ID:    "C05",
		Level: "model_checking",
		Rule: "A case is one arena configuration's whole breadth-first search for one pass (menu x depth); it is non-trivial when it explores more than one distinct state. " +
			"Same state space as C04 (bfsbuild; exact list in coverage.passes): full menu to depth 2, mid menu to depth 3 (thorough 4), slim menu to depth 4 (thorough 6, state cap 300000 per configuration), big-object menu to depth 3 (thorough 4); arena configurations: SingleSegment(nil / cap 0,8,16,24,32), MultiSegment(nil / cap 8,16,24,32), TightArena for every capacity sequence of length <= 3 over {8,16,24,32}. " +
			"The oracle (ref.Unframe + ref.Validate + Identical to the model tree) runs after every operation, not only in new states.",
		Assumptions: []string{
			"ref.Unframe / ref.Validate are written from encoding.html and import nothing from the repository; ref.SelfTest cross-checks them against the reference encoder on every run",
			"only what is reachable from the root pointer can be judged by a decoder; every object becomes root in a successor state (SetRoot is in every menu)",
			"cyclic messages (self-reference) are outside the encoding spec and are not judged",
			"the model assumptions of C04 (aliasing vs deep copy, SetStruct truncation, empty text/data written as null)",
		},
		CaseTimeout: 15 * time.Minute,
		SelfTest:    ref.SelfTest,
		Families:    func(tier string) []vlib.Family { return bfsbuild.Families(tier, oracle) },
		Extra:       bfsbuild.PlanSummary,
	})
}
