// C10 — a capability is shut down exactly once, only after its last user is gone.
//
// Engine E2: the real capability.go (instrumented copy) runs under the
// controlled scheduler.  All programs of 1-3 threads over a 17-operation
// alphabet on a fixed set of client handles are enumerated; for each program
// every schedule up to the preemption bound is executed and checked against a
// reference-count model driven by the recorded operation/hook events.
package main

import (
	"context"
	"fmt"
	"strings"
	"time"

	capnp "capnproto.org/go/capnp/v3"
	"capnproto.org/go/capnp/v3/internal/verif/vlib"
	"capnproto.org/go/capnp/v3/internal/vsched"
)

// ---- world ----

const (
	hR   = 0 // hook behind c0, c1, weak
	hRP  = 1 // promise hook behind pc, pc1
	hR2  = 2 // hook behind t (fulfilment target)
	hRP2 = 3 // second promise hook behind pd (fulfilled with the promised client pc)
)

var hookNames = []string{"R", "RP", "R2", "RP2"}

type event struct {
	kind string // send-enter send-exit brand shutdown opstart opend
	hook int
	op   int // global op id (thread*10+pos), -1 for none
	info string
}

type world struct {
	ev    []event
	hooks [4]*recHook
	c0    *capnp.Client
	c1    *capnp.Client
	w     *capnp.WeakClient
	pc    *capnp.Client
	pc1   *capnp.Client
	cp    *capnp.ClientPromise
	t     *capnp.Client
	pd    *capnp.Client
	cp2   *capnp.ClientPromise
	curOp map[int]int // thread id -> op id running
}

type recHook struct {
	id int
	w  *world
}

var errMarker = fmt.Errorf("marker")

func (h *recHook) Send(ctx context.Context, s capnp.Send) (*capnp.Answer, capnp.ReleaseFunc) {
	op := h.w.curOp[vsched.Tid()]
	h.w.ev = append(h.w.ev, event{"send-enter", h.id, op, ""})
	vsched.Yield()
	h.w.ev = append(h.w.ev, event{"send-exit", h.id, op, ""})
	return capnp.ErrorAnswer(s.Method, errMarker), func() {}
}

func (h *recHook) Recv(ctx context.Context, r capnp.Recv) capnp.PipelineCaller {
	op := h.w.curOp[vsched.Tid()]
	h.w.ev = append(h.w.ev, event{"send-enter", h.id, op, "recv"})
	vsched.Yield()
	h.w.ev = append(h.w.ev, event{"send-exit", h.id, op, "recv"})
	r.Reject(errMarker)
	return nil
}

func (h *recHook) Brand() capnp.Brand {
	op := h.w.curOp[vsched.Tid()]
	h.w.ev = append(h.w.ev, event{"send-enter", h.id, op, "brand"})
	h.w.ev = append(h.w.ev, event{"send-exit", h.id, op, "brand"})
	return capnp.Brand{Value: h.id}
}

func (h *recHook) Shutdown() {
	h.w.ev = append(h.w.ev, event{"shutdown", h.id, h.w.curOp[vsched.Tid()], ""})
	vsched.Yield()
	h.w.ev = append(h.w.ev, event{"shutdown-end", h.id, -1, ""})
}

type nullReturner struct{ w *world }

func (nullReturner) AllocResults(sz capnp.ObjectSize) (capnp.Struct, error) {
	return capnp.Struct{}, fmt.Errorf("no results")
}
func (nullReturner) Return(e error) {}

// ---- operations ----

const (
	opRelC0 = iota
	opRelC1
	opAddRefC1
	opRelTmp
	opWeakAddRef
	opSendC1
	opRecvC0
	opStateC1
	opRelPC
	opRelPC1
	opSendPC1
	opAddRefPC1
	opFulfillT
	opFulfillNil
	opRelT
	opResolvePC1
	opSendC0
	opRelPD
	opSendPD
	opAddRefPD
	opFulfill2PC
	nOps
)

var opNames = []string{"Release(c0)", "Release(c1)", "tmp=AddRef(c1)", "Release(tmp)", "tmp=Weak.AddRef()", "SendCall(c1)", "RecvCall(c0)", "State(c1)",
	"Release(pc)", "Release(pc1)", "SendCall(pc1)", "tmp=AddRef(pc1)", "Fulfill(t)", "Fulfill(nil)", "Release(t)", "Resolve(pc1)", "SendCall(c0)",
	"Release(pd)", "SendCall(pd)", "tmp=AddRef(pd)", "Fulfill2(pc)"}

// handles
const (
	hdC0 = iota
	hdC1
	hdPC
	hdPC1
	hdT
	hdW
	hdPD
	nHandles
)

// families of handles
const (
	famR = iota
	famP
	famT
	famP2
	nFam
)

func handleFam(h int) int {
	switch h {
	case hdC0, hdC1, hdW:
		return famR
	case hdPC, hdPC1:
		return famP
	case hdT:
		return famT
	case hdPD:
		return famP2
	}
	return -1
}

func opHandle(o int) int {
	switch o {
	case opRelC0, opRecvC0, opSendC0:
		return hdC0
	case opRelC1, opAddRefC1, opSendC1, opStateC1:
		return hdC1
	case opRelPC, opFulfill2PC:
		return hdPC
	case opRelPC1, opSendPC1, opAddRefPC1, opResolvePC1:
		return hdPC1
	case opFulfillT, opRelT:
		return hdT
	case opWeakAddRef:
		return hdW
	case opRelPD, opSendPD, opAddRefPD:
		return hdPD
	}
	return -1
}

func isRelease(o int) bool {
	return o == opRelC0 || o == opRelC1 || o == opRelPC || o == opRelPC1 || o == opRelT || o == opRelPD
}

func isCall(o int) bool {
	return o == opSendC0 || o == opSendC1 || o == opRecvC0 || o == opSendPC1 || o == opSendPD || o == opStateC1
}

type program [][]int

func (p program) String() string {
	var parts []string
	for _, th := range p {
		var s []string
		for _, o := range th {
			s = append(s, opNames[o])
		}
		parts = append(parts, "["+strings.Join(s, "; ")+"]")
	}
	return strings.Join(parts, " || ")
}

// valid applies the API-contract filter: at most one Fulfill per promise;
// Resolve only when a Fulfill exists and never before it in the same thread;
// the client passed to a Fulfill must stay alive while Fulfill runs, so it is
// released only by the fulfilling thread, after the Fulfill (t for Fulfill(t),
// pc for Fulfill2(pc)).  A handle may be released by one thread while another
// thread calls through it: the Client is documented as safe for concurrent
// use, and the call then either is delivered or fails as "released".
func (p program) valid() bool {
	nF, nF2 := 0, 0
	fThread, f2Thread := -1, -1
	fulfillT := false
	for ti, th := range p {
		for _, o := range th {
			switch o {
			case opFulfillT, opFulfillNil:
				nF++
				fThread = ti
				if o == opFulfillT {
					fulfillT = true
				}
			case opFulfill2PC:
				nF2++
				f2Thread = ti
			}
		}
	}
	if nF > 1 || nF2 > 1 {
		return false
	}
	for ti, th := range p {
		seenF, seenF2 := false, false
		for _, o := range th {
			switch o {
			case opFulfillT, opFulfillNil:
				seenF = true
			case opFulfill2PC:
				seenF2 = true
			case opResolvePC1:
				if nF == 0 || (ti == fThread && !seenF) {
					return false
				}
			case opRelT:
				if fulfillT && (ti != fThread || !seenF) {
					return false
				}
			case opRelPC:
				if nF2 > 0 && (ti != f2Thread || !seenF2) {
					return false
				}
			case opAddRefC1, opAddRefPC1, opAddRefPD:
				// AddRef racing with a Release of the same handle by another
				// thread is a plain use-after-release race of the caller
				h := opHandle(o)
				for tj, th2 := range p {
					if tj == ti {
						continue
					}
					for _, o2 := range th2 {
						if isRelease(o2) && opHandle(o2) == h {
							return false
						}
					}
				}
			}
		}
	}
	return true
}

type opResult struct {
	started, ended bool
	panicMsg       string
	info           string // "ok", "released", "null", "weak-fail", ...
}

type tmpRef struct {
	c   *capnp.Client
	fam int
}

// run executes the program under the scheduler (as thread 0 body).
func runProgram(p program, w *world, res [][]opResult) {
	for i := range w.hooks {
		w.hooks[i] = &recHook{id: i, w: w}
	}
	w.curOp = map[int]int{}
	w.c0 = capnp.NewClient(w.hooks[hR])
	w.c1 = w.c0.AddRef()
	w.w = w.c0.WeakRef()
	w.pc, w.cp = capnp.NewPromisedClient(w.hooks[hRP])
	w.pc1 = w.pc.AddRef()
	w.t = capnp.NewClient(w.hooks[hR2])
	w.pd, w.cp2 = capnp.NewPromisedClient(w.hooks[hRP2])
	body := func(ti int) {
		var tmp []tmpRef
		for pi, o := range p[ti] {
			opid := ti*10 + pi
			w.curOp[vsched.Tid()] = opid
			r := &res[ti][pi]
			r.started = true
			w.ev = append(w.ev, event{"opstart", -1, opid, ""})
			func() {
				defer func() {
					if x := recover(); x != nil {
						r.panicMsg = fmt.Sprint(x)
					}
				}()
				doOp(o, w, &tmp, r)
			}()
			r.ended = true
			w.ev = append(w.ev, event{"opend", -1, opid, r.info})
		}
	}
	for ti := 1; ti < len(p); ti++ {
		ti := ti
		vsched.GoNamed(fmt.Sprintf("T%d", ti), func() { body(ti) })
	}
	body(0)
}

func answerClass(ans *capnp.Answer) string {
	_, err := ans.Struct()
	if err == nil {
		return "ok"
	}
	s := err.Error()
	switch {
	case strings.Contains(s, "released client"):
		return "released"
	case strings.Contains(s, "null client"):
		return "null"
	case strings.Contains(s, "marker"):
		return "delivered"
	}
	return "err:" + s
}

func doOp(o int, w *world, tmp *[]tmpRef, r *opResult) {
	ctx := context.Background()
	meth := capnp.Method{InterfaceID: 1, MethodID: 2}
	send := func(c *capnp.Client) {
		ans, rel := c.SendCall(ctx, capnp.Send{Method: meth})
		r.info = answerClass(ans)
		rel()
	}
	addref := func(c *capnp.Client, fam int) {
		d := c.AddRef()
		if d != nil {
			*tmp = append(*tmp, tmpRef{d, fam})
			r.info = "ok"
		} else {
			r.info = "nil"
		}
	}
	switch o {
	case opRelC0:
		w.c0.Release()
	case opRelC1:
		w.c1.Release()
	case opAddRefC1:
		addref(w.c1, famR)
	case opRelTmp:
		if n := len(*tmp); n > 0 {
			c := (*tmp)[n-1]
			*tmp = (*tmp)[:n-1]
			r.info = fmt.Sprintf("rel%d", c.fam)
			c.c.Release()
		} else {
			r.info = "none"
		}
	case opWeakAddRef:
		c, ok := w.w.AddRef()
		if ok && c != nil {
			*tmp = append(*tmp, tmpRef{c, famR})
			r.info = "ok"
		} else {
			r.info = "weak-fail"
		}
	case opSendC1:
		send(w.c1)
	case opSendC0:
		send(w.c0)
	case opRecvC0:
		rej := &rejRecorder{}
		w.c0.RecvCall(ctx, capnp.Recv{Method: meth, ReleaseArgs: func() {}, Returner: rej})
		r.info = rej.class()
	case opStateC1:
		st := w.c1.State()
		r.info = fmt.Sprintf("brand=%v promise=%v", st.Brand.Value, st.IsPromise)
	case opRelPC:
		w.pc.Release()
	case opRelPC1:
		w.pc1.Release()
	case opSendPC1:
		send(w.pc1)
	case opAddRefPC1:
		addref(w.pc1, famP)
	case opFulfillT:
		w.cp.Fulfill(w.t)
	case opFulfillNil:
		w.cp.Fulfill(nil)
	case opRelT:
		w.t.Release()
	case opResolvePC1:
		if err := w.pc1.Resolve(ctx); err != nil {
			r.info = "err:" + err.Error()
		} else {
			r.info = "ok"
		}
	case opRelPD:
		w.pd.Release()
	case opSendPD:
		send(w.pd)
	case opAddRefPD:
		addref(w.pd, famP2)
	case opFulfill2PC:
		w.cp2.Fulfill(w.pc)
	}
}

type rejRecorder struct {
	err    error
	called int
}

func (r *rejRecorder) AllocResults(sz capnp.ObjectSize) (capnp.Struct, error) {
	return capnp.Struct{}, fmt.Errorf("no results")
}
func (r *rejRecorder) Return(e error) { r.err = e; r.called++ }
func (r *rejRecorder) class() string {
	if r.called != 1 {
		return fmt.Sprintf("returner-called-%d", r.called)
	}
	if r.err == nil {
		return "ok"
	}
	s := r.err.Error()
	switch {
	case strings.Contains(s, "released client"):
		return "released"
	case strings.Contains(s, "null client"):
		return "null"
	case strings.Contains(s, "marker"):
		return "delivered"
	}
	return "err:" + s
}

// ---- oracle ----

type span struct{ start, end int }

const never = 1 << 30

// judge replays the event log against the reference-count model.  Families:
// famR (c0, c1, tmp from c1 / weak) on hook R; famP (pc, pc1, tmp from pc1) on
// promise hook RP until Fulfill(t|nil); famT (t) on R2; famP2 (pd, tmp from pd)
// on promise hook RP2 until Fulfill2(pc), which links it to wherever famP goes.
func judge(p program, w *world, res [][]opResult, vr *vsched.Result) (string, string) {
	if len(vr.Panics) > 0 {
		return "panic", "panic in a controlled thread: " + vr.Panics[0]
	}
	if vr.Livelock {
		return "livelock", "step limit reached"
	}
	if vr.Deadlocked() {
		return "deadlock", "threads blocked forever: " + strings.Join(vr.Blocked, " | ")
	}
	opOf := func(id int) int { return p[id/10][id%10] }
	spans := map[int]span{}
	for i, e := range w.ev {
		switch e.kind {
		case "opstart":
			spans[e.op] = span{i, never}
		case "opend":
			s := spans[e.op]
			s.end = i
			spans[e.op] = s
		}
	}
	// spans of the fulfil ops and of every Release per handle
	fP, fP2 := span{never, never}, span{never, never}
	pTarget := -1 // 0: t, 1: nil
	relSpan := map[int][]struct {
		thread int
		s      span
	}{}
	for ti, th := range p {
		for pi, o := range th {
			s := spans[ti*10+pi]
			switch o {
			case opFulfillT:
				fP, pTarget = s, 0
			case opFulfillNil:
				fP, pTarget = s, 1
			case opFulfill2PC:
				fP2 = s
			}
			if isRelease(o) {
				relSpan[opHandle(o)] = append(relSpan[opHandle(o)], struct {
					thread int
					s      span
				}{ti, s})
			}
		}
	}
	live := [nFam]int{2, 2, 1, 1}
	tmpFam := map[int][]int{}
	inflight := [4]int{}
	shut := [4]int{}
	relDone := map[[2]int]bool{}
	for i, e := range w.ev {
		switch e.kind {
		case "opstart":
			o := opOf(e.op)
			ti := e.op / 10
			if isRelease(o) {
				h := opHandle(o)
				if !relDone[[2]int{0, h}] {
					relDone[[2]int{0, h}] = true
					live[handleFam(h)]--
				}
			}
			if o == opRelTmp {
				if st := tmpFam[ti]; len(st) > 0 {
					live[st[len(st)-1]]--
					tmpFam[ti] = st[:len(st)-1]
				}
			}
		case "opend":
			o := opOf(e.op)
			ti := e.op / 10
			r := res[ti][e.op%10]
			switch o {
			case opAddRefC1, opWeakAddRef:
				if r.panicMsg == "" && r.info == "ok" {
					live[famR]++
					tmpFam[ti] = append(tmpFam[ti], famR)
				}
			case opAddRefPC1:
				if r.panicMsg == "" && r.info == "ok" {
					live[famP]++
					tmpFam[ti] = append(tmpFam[ti], famP)
				}
			case opAddRefPD:
				if r.panicMsg == "" && r.info == "ok" {
					live[famP2]++
					tmpFam[ti] = append(tmpFam[ti], famP2)
				}
			}
		case "send-enter":
			if shut[e.hook] > 0 {
				return "call-after-shutdown", fmt.Sprintf("event %d: %s delivered to hook %s after its Shutdown started", i, opNames[opOf(e.op)], hookNames[e.hook])
			}
			inflight[e.hook]++
		case "send-exit":
			inflight[e.hook]--
		case "shutdown":
			shut[e.hook]++
			if shut[e.hook] > 1 {
				return "double-shutdown", fmt.Sprintf("event %d: hook %s shut down twice", i, hookNames[e.hook])
			}
			if inflight[e.hook] > 0 {
				return "shutdown-during-call", fmt.Sprintf("event %d: hook %s shut down while %d call(s) through it are in progress", i, hookNames[e.hook], inflight[e.hook])
			}
			pStarted, pDone := fP.start < i, fP.end < i
			p2Started, p2Done := fP2.start < i, fP2.end < i
			_ = p2Started
			held := ""
			switch e.hook {
			case hR:
				if live[famR] > 0 {
					held = fmt.Sprintf("%d strong reference(s) to it remain", live[famR])
				}
			case hRP:
				if !pStarted && (live[famP] > 0 || (p2Done && live[famP2] > 0)) {
					held = fmt.Sprintf("promised clients remain (pc family %d, pd family %d linked=%v) and no Fulfill started", live[famP], live[famP2], p2Done)
				}
			case hRP2:
				if !p2Started && live[famP2] > 0 {
					held = fmt.Sprintf("%d promised client(s) pd remain and no Fulfill2 started", live[famP2])
				}
			case hR2:
				switch {
				case live[famT] > 0:
					held = "t is still referenced"
				case pTarget == 0 && pDone && live[famP] > 0:
					held = fmt.Sprintf("Fulfill(t) has returned and %d promised reference(s) of pc remain", live[famP])
				case pTarget == 0 && pDone && p2Done && live[famP2] > 0:
					held = fmt.Sprintf("Fulfill(t) and Fulfill2(pc) have returned and %d reference(s) of pd remain", live[famP2])
				}
			}
			if held != "" {
				phase := "steady"
				if (fP.start < i && !(fP.end < i)) || (fP2.start < i && !(fP2.end < i)) {
					phase = "fulfill-in-progress"
				}
				return "shutdown-with-refs/" + hookNames[e.hook] + "/" + phase, fmt.Sprintf("event %d: hook %s shut down while %s", i, hookNames[e.hook], held)
			}
		}
	}
	// final state
	linked2 := fP2.start != never
	fulfilledP := fP.start != never
	wantShut := [4]bool{}
	wantShut[hR] = live[famR] == 0
	wantShut[hRP] = fulfilledP || (live[famP] == 0 && !(linked2 && live[famP2] > 0))
	wantShut[hRP2] = linked2 || live[famP2] == 0
	wantShut[hR2] = live[famT] == 0 && !(pTarget == 0 && (live[famP] > 0 || (linked2 && live[famP2] > 0)))
	for h := 0; h < 4; h++ {
		if wantShut[h] && shut[h] != 1 {
			return "missing-shutdown/" + hookNames[h], fmt.Sprintf("hook %s: nothing refers to it any more (live R=%d P=%d T=%d P2=%d, P fulfilled=%v target=%d, P2 linked=%v) but Shutdown ran %d times", hookNames[h], live[famR], live[famP], live[famT], live[famP2], fulfilledP, pTarget, linked2, shut[h])
		}
		if !wantShut[h] && shut[h] != 0 {
			return "early-shutdown/" + hookNames[h], fmt.Sprintf("hook %s shut down although references remain at the end (live R=%d P=%d T=%d P2=%d, P fulfilled=%v target=%d, P2 linked=%v)", hookNames[h], live[famR], live[famP], live[famT], live[famP2], fulfilledP, pTarget, linked2)
		}
	}
	// per-op results
	for ti, th := range p {
		released := map[int]bool{}
		for pi, o := range th {
			r := res[ti][pi]
			opid := ti*10 + pi
			x := spans[opid]
			h := opHandle(o)
			wasReleased := released[h]
			// a Release of the same handle by another thread that started
			// before this op ended makes both behaviours legal
			raced := false
			for _, rs := range relSpan[h] {
				if rs.thread != ti && rs.s.start < x.end {
					raced = true
				}
			}
			if isRelease(o) {
				released[h] = true
			}
			if !r.started || !r.ended {
				return "op-incomplete", fmt.Sprintf("thread %d op %s did not complete", ti, opNames[o])
			}
			nullP := pTarget == 1 && fP.start < x.end
			nullP2 := fP2.start < x.end && nullP
			if r.panicMsg != "" {
				ok := false
				switch o {
				case opAddRefC1, opAddRefPC1, opAddRefPD:
					ok = wasReleased && strings.Contains(r.panicMsg, "AddRef on released client")
				case opFulfillT, opFulfill2PC:
					ok = wasReleased && strings.Contains(r.panicMsg, "released client")
				}
				if !ok {
					return "unexpected-panic", fmt.Sprintf("thread %d op %s panicked: %s", ti, opNames[o], r.panicMsg)
				}
				continue
			}
			switch o {
			case opAddRefC1:
				if wasReleased {
					return "addref-after-release", fmt.Sprintf("thread %d: %s on a released handle did not panic as documented", ti, opNames[o])
				}
			case opAddRefPC1:
				if wasReleased && !nullP {
					return "addref-after-release", fmt.Sprintf("thread %d: %s on a released handle did not panic as documented", ti, opNames[o])
				}
			case opAddRefPD:
				if wasReleased && !nullP2 {
					return "addref-after-release", fmt.Sprintf("thread %d: %s on a released handle did not panic as documented", ti, opNames[o])
				}
			}
			if !isCall(o) || o == opStateC1 {
				continue
			}
			// where may the call go?
			allowed := map[int]bool{}
			allowNull := false
			fam := handleFam(h)
			var addP func()
			addP = func() {
				if !(fP.end < x.start) {
					allowed[hRP] = true
				}
				if pTarget == 0 && fP.start < x.end {
					allowed[hR2] = true
				}
				if pTarget == 1 && fP.start < x.end {
					allowNull = true
				}
			}
			switch fam {
			case famR:
				allowed[hR] = true
			case famP:
				addP()
			case famP2:
				if !(fP2.end < x.start) {
					allowed[hRP2] = true
				}
				if fP2.start < x.end {
					addP()
				}
			}
			var del []int
			for _, e := range w.ev {
				if e.kind == "send-enter" && e.op == opid && e.info != "brand" {
					del = append(del, e.hook)
				}
			}
			if len(del) > 1 {
				return "call-delivered-twice", fmt.Sprintf("thread %d op %s delivered %d times", ti, opNames[o], len(del))
			}
			switch {
			case len(del) == 1:
				if r.info != "delivered" {
					return "call-result", fmt.Sprintf("thread %d op %s delivered to %s but the caller got %q", ti, opNames[o], hookNames[del[0]], r.info)
				}
				if wasReleased && !(allowNull) {
					return "call-after-release-delivered", fmt.Sprintf("thread %d op %s on a handle released earlier by the same thread was delivered to %s", ti, opNames[o], hookNames[del[0]])
				}
				if !allowed[del[0]] {
					return "call-delivery", fmt.Sprintf("thread %d op %s delivered to %s, allowed %v", ti, opNames[o], hookNames[del[0]], allowed)
				}
			case r.info == "released":
				if !wasReleased && !raced {
					return "call-result", fmt.Sprintf("thread %d op %s failed as 'released' although the handle was not released", ti, opNames[o])
				}
			case r.info == "null":
				if !allowNull {
					return "call-result", fmt.Sprintf("thread %d op %s failed as 'null client' although nothing resolved the handle to null", ti, opNames[o])
				}
			default:
				return "call-result", fmt.Sprintf("thread %d op %s: unexpected result %q with no delivery", ti, opNames[o], r.info)
			}
		}
	}
	return "", ""
}

func outcomeClass(w *world, res [][]opResult) string {
	var b strings.Builder
	for _, e := range w.ev {
		switch e.kind {
		case "shutdown":
			b.WriteString("S" + hookNames[e.hook] + " ")
		case "send-enter":
			b.WriteString("c" + hookNames[e.hook] + " ")
		}
	}
	for _, th := range res {
		for _, r := range th {
			b.WriteString(r.info + ",")
		}
	}
	return b.String()
}

// ---- program enumeration ----

var allOps []int

func init() {
	for o := 0; o < nOps; o++ {
		allOps = append(allOps, o)
	}
}

func seqs(maxLen int) [][]int { return seqsOver(maxLen, allOps) }

func seqsOver(maxLen int, alphabet []int) [][]int {
	var out [][]int
	var rec func(cur []int)
	rec = func(cur []int) {
		if len(cur) > 0 {
			out = append(out, append([]int{}, cur...))
		}
		if len(cur) == maxLen {
			return
		}
		for _, o := range alphabet {
			rec(append(cur, o))
		}
	}
	rec(nil)
	return out
}

func lessEq(a, b []int) bool {
	for i := 0; i < len(a) && i < len(b); i++ {
		if a[i] != b[i] {
			return a[i] < b[i]
		}
	}
	return len(a) <= len(b)
}

func programs(threads, maxLen int) []program { return programsOver(threads, maxLen, allOps) }

func programsOver(threads, maxLen int, alphabet []int) []program {
	ss := seqsOver(maxLen, alphabet)
	var out []program
	var rec func(cur program)
	rec = func(cur program) {
		if len(cur) == threads {
			p := append(program{}, cur...)
			if p.valid() {
				out = append(out, p)
			}
			return
		}
		for _, s := range ss {
			if len(cur) > 0 && !lessEq(cur[len(cur)-1], s) {
				continue // threads are symmetric
			}
			rec(append(cur, s))
		}
	}
	rec(nil)
	return out
}

func family(name string, progs []program, cfg vsched.Config) vlib.Family {
	return vlib.Family{
		Name: name, N: int64(len(progs)),
		Describe: func(i int64) interface{} { return progs[i].String() },
		Run: func(i int64, r *vlib.Rec) {
			p := progs[i]
			var w *world
			var res [][]opResult
			body := func() {
				w = &world{}
				res = make([][]opResult, len(p))
				for ti := range p {
					res[ti] = make([]opResult, len(p[ti]))
				}
				runProgram(p, w, res)
			}
			outcomes := map[string]bool{}
			st, f := vsched.Explore(cfg, body, func(vr *vsched.Result) string {
				key, msg := judge(p, w, res, vr)
				if key != "" {
					return key + "\x00" + msg
				}
				outcomes[outcomeClass(w, res)] = true
				return ""
			})
			r.States += int64(len(st.Configs))
			r.Transitions += st.Steps
			r.Traces += st.Execs
			r.Note("executions", st.Execs)
			if st.Capped {
				r.Capped = true
			}
			for o := range outcomes {
				r.Outcome(o)
			}
			if len(outcomes) > 1 || st.Execs > 1 {
				r.NonTrivial()
			}
			if f != nil {
				if f.Engine {
					r.Failf("ENGINE:"+f.Msg, "%s", f.Msg)
					return
				}
				parts := strings.SplitN(f.Msg, "\x00", 2)
				rr := vsched.Replay(f.Choices, cfg.MaxSteps, body)
				r.Failf(parts[0], "program %s\n%s\nchoices %v\nevents: %s\n%s", p, parts[1], f.Choices, renderEvents(p, w), rr.Describe())
			}
		},
	}
}

func renderEvents(p program, w *world) string {
	var b strings.Builder
	for _, e := range w.ev {
		switch e.kind {
		case "opstart", "opend":
			fmt.Fprintf(&b, "%s(T%d:%s %s) ", e.kind, e.op/10, opNames[p[e.op/10][e.op%10]], e.info)
		default:
			fmt.Fprintf(&b, "%s(%s) ", e.kind, hookNames[e.hook])
		}
	}
	return b.String()
}

func main() {
	vlib.Main(vlib.Spec{
		ID:          "C10",
		Level:       "model_checking",
		CaseTimeout: 30 * time.Minute,
		Rule:        "programs = all valid assignments of operation sequences (21-op alphabet over handles c0,c1,weak on hook R; pc,pc1 + ClientPromise on promise hook RP; t on hook R2) to 1-3 symmetric threads; for each program all schedules of the real capability.go up to the preemption bound under the controlled scheduler; oracle = reference-count model stepped from the recorded op/hook event log. A program is non-trivial if it had more than one schedule or more than one distinct outcome. states = sum over programs of distinct scheduling configurations (enabled set x pending operations); transitions = scheduling steps executed; traces = executions, all on the implementation.",
		Assumptions: []string{
			"scheduling points at every sync operation (mutex lock, channel close/receive/select, go) are sufficient because capability.go has no unsynchronised shared accesses (checked separately by a free-running -race pass, which decides nothing)",
			"API contract filter: at most one Fulfill per promise; the client passed to a Fulfill is released only by the fulfilling thread afterwards; AddRef never races with a Release of the same handle; a Release may race with calls through the same handle (both outcomes legal)",
		},
		Families: func(tier string) []vlib.Family {
			if tier == "thorough" {
				return []vlib.Family{
					family("seq<=5", programs(1, 5), vsched.Config{MaxPreempt: 0, MaxDev: 0, MaxSteps: 5000}),
					family("par2x2-pb3", programs(2, 2), vsched.Config{MaxPreempt: 3, MaxDev: 0, MaxSteps: 5000}),
					family("par3x1-pb3", programs(3, 1), vsched.Config{MaxPreempt: 3, MaxDev: 0, MaxSteps: 5000}),
					family("par3x2-R-pb2", programsOver(3, 2, []int{opRelC0, opRelC1, opAddRefC1, opRelTmp, opWeakAddRef, opSendC1, opRecvC0, opStateC1, opSendC0}), vsched.Config{MaxPreempt: 2, MaxDev: 0, MaxSteps: 5000}),
					family("par3x2-P-pb2", programsOver(3, 2, []int{opRelPC1, opSendPC1, opAddRefPC1, opRelTmp, opFulfillT, opRelT, opSendPD, opFulfill2PC}), vsched.Config{MaxPreempt: 2, MaxDev: 0, MaxSteps: 5000}),
				}
			}
			return []vlib.Family{
				family("seq<=4", programs(1, 4), vsched.Config{MaxPreempt: 0, MaxDev: 0, MaxSteps: 5000}),
				family("par2x2-pb2", programs(2, 2), vsched.Config{MaxPreempt: 2, MaxDev: 0, MaxSteps: 5000}),
				family("par3x1-pb2", programs(3, 1), vsched.Config{MaxPreempt: 2, MaxDev: 0, MaxSteps: 5000}),
				// three threads with up to two operations each over the operations on the
				// plain capability R: last release racing with a call in progress and a weak upgrade
				family("par3x2-R-pb2", programsOver(3, 2, []int{opRelC0, opRelC1, opRelTmp, opWeakAddRef, opSendC1}), vsched.Config{MaxPreempt: 2, MaxDev: 0, MaxSteps: 5000}),
			}
		},
	})
}
