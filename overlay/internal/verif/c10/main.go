// C10 — a capability is shut down exactly once, only after its last user is gone.
//
// Engine E2: the real capability.go (instrumented copy) runs under the
// controlled scheduler.  All programs of 1-3 threads over a 17-operation
// alphabet on a fixed set of client handles are enumerated; for each program
// every schedule up to the preemption bound is executed and checked against a
// reference-count model driven by the recorded operation/hook events.
package main

import (
	"time"
	"context"
	"fmt"
	"strings"

	capnp "capnproto.org/go/capnp/v3"
	"capnproto.org/go/capnp/v3/internal/verif/vlib"
	"capnproto.org/go/capnp/v3/internal/vsched"
)

// ---- world ----

const (
	hR  = 0 // hook behind c0, c1, weak
	hRP = 1 // promise hook behind pc, pc1
	hR2 = 2 // hook behind t (fulfilment target)
)

var hookNames = []string{"R", "RP", "R2"}

type event struct {
	kind string // send-enter send-exit brand shutdown opstart opend
	hook int
	op   int // global op id (thread*10+pos), -1 for none
	info string
}

type world struct {
	ev    []event
	hooks [3]*recHook
	c0    *capnp.Client
	c1    *capnp.Client
	w     *capnp.WeakClient
	pc    *capnp.Client
	pc1   *capnp.Client
	cp    *capnp.ClientPromise
	t     *capnp.Client
	curOp map[int]int // thread id -> op id running
}

type recHook struct {
	id int
	w  *world
}

var errMarker = fmt.Errorf("marker")

func (h *recHook) Send(ctx context.Context, s capnp.Send) (*capnp.Answer, capnp.ReleaseFunc) {
	op := h.w.curOp[vsched.Tid()]
	h.w.ev = append(h.w.ev, event{"send-enter", h.id, op, ""})
	vsched.Yield()
	h.w.ev = append(h.w.ev, event{"send-exit", h.id, op, ""})
	return capnp.ErrorAnswer(s.Method, errMarker), func() {}
}

func (h *recHook) Recv(ctx context.Context, r capnp.Recv) capnp.PipelineCaller {
	op := h.w.curOp[vsched.Tid()]
	h.w.ev = append(h.w.ev, event{"send-enter", h.id, op, "recv"})
	vsched.Yield()
	h.w.ev = append(h.w.ev, event{"send-exit", h.id, op, "recv"})
	r.Reject(errMarker)
	return nil
}

func (h *recHook) Brand() capnp.Brand {
	op := h.w.curOp[vsched.Tid()]
	h.w.ev = append(h.w.ev, event{"send-enter", h.id, op, "brand"})
	h.w.ev = append(h.w.ev, event{"send-exit", h.id, op, "brand"})
	return capnp.Brand{Value: h.id}
}

func (h *recHook) Shutdown() {
	h.w.ev = append(h.w.ev, event{"shutdown", h.id, h.w.curOp[vsched.Tid()], ""})
	vsched.Yield()
	h.w.ev = append(h.w.ev, event{"shutdown-end", h.id, -1, ""})
}

type nullReturner struct{ w *world }

func (nullReturner) AllocResults(sz capnp.ObjectSize) (capnp.Struct, error) {
	return capnp.Struct{}, fmt.Errorf("no results")
}
func (nullReturner) Return(e error) {}

// ---- operations ----

const (
	opRelC0 = iota
	opRelC1
	opAddRefC1
	opRelTmp
	opWeakAddRef
	opSendC1
	opRecvC0
	opStateC1
	opRelPC
	opRelPC1
	opSendPC1
	opAddRefPC1
	opFulfillT
	opFulfillNil
	opRelT
	opResolvePC1
	opSendC0
	nOps
)

var opNames = []string{"Release(c0)", "Release(c1)", "tmp=AddRef(c1)", "Release(tmp)", "tmp=Weak.AddRef()", "SendCall(c1)", "RecvCall(c0)", "State(c1)",
	"Release(pc)", "Release(pc1)", "SendCall(pc1)", "tmp=AddRef(pc1)", "Fulfill(t)", "Fulfill(nil)", "Release(t)", "Resolve(pc1)", "SendCall(c0)"}

// handle used by an op (for the ownership rule), -1 none
const (
	hdC0 = iota
	hdC1
	hdPC
	hdPC1
	hdT
	hdW
	nHandles
)

func opHandle(o int) int {
	switch o {
	case opRelC0, opRecvC0, opSendC0:
		return hdC0
	case opRelC1, opAddRefC1, opSendC1, opStateC1:
		return hdC1
	case opRelPC:
		return hdPC
	case opRelPC1, opSendPC1, opAddRefPC1, opResolvePC1:
		return hdPC1
	case opFulfillT, opRelT:
		return hdT
	case opWeakAddRef:
		return hdW
	}
	return -1
}

func isRelease(o int) bool {
	return o == opRelC0 || o == opRelC1 || o == opRelPC || o == opRelPC1 || o == opRelT
}

type program [][]int

func (p program) String() string {
	var parts []string
	for _, th := range p {
		var s []string
		for _, o := range th {
			s = append(s, opNames[o])
		}
		parts = append(parts, "["+strings.Join(s, "; ")+"]")
	}
	return strings.Join(parts, " || ")
}

// valid applies the API-contract filter (see file comment in DESIGN §5 C10):
// a handle released by one thread is not used by another thread; at most one
// Fulfill per program; Resolve only when some Fulfill exists; t is released
// only by the fulfilling thread after Fulfill (or anywhere if no Fulfill(t)).
func (p program) valid() bool {
	fulfills := 0
	fulfillThread := -1
	for ti, th := range p {
		for _, o := range th {
			if o == opFulfillT || o == opFulfillNil {
				fulfills++
				fulfillThread = ti
			}
		}
	}
	if fulfills > 1 {
		return false
	}
	for ti, th := range p {
		seenFul := false
		for _, o := range th {
			if o == opFulfillT || o == opFulfillNil {
				seenFul = true
			}
			if o == opResolvePC1 && (fulfills == 0 || (ti == fulfillThread && !seenFul)) {
				return false
			}
			if o == opRelT && fulfills > 0 && (ti != fulfillThread || !seenFul) {
				return false
			}
			if isRelease(o) {
				h := opHandle(o)
				for tj, th2 := range p {
					if tj == ti {
						continue
					}
					for _, o2 := range th2 {
						if opHandle(o2) == h {
							return false
						}
					}
				}
			}
		}
	}
	return true
}

type opResult struct {
	started, ended bool
	panicMsg       string
	info           string // "ok", "released", "null", "weak-fail", ...
}

// run executes the program under the scheduler (as thread 0 body).
func runProgram(p program, w *world, res [][]opResult) {
	for i := range w.hooks {
		w.hooks[i] = &recHook{id: i, w: w}
	}
	w.curOp = map[int]int{}
	w.c0 = capnp.NewClient(w.hooks[hR])
	w.c1 = w.c0.AddRef()
	w.w = w.c0.WeakRef()
	w.pc, w.cp = capnp.NewPromisedClient(w.hooks[hRP])
	w.pc1 = w.pc.AddRef()
	w.t = capnp.NewClient(w.hooks[hR2])
	body := func(ti int) {
		var tmp []*capnp.Client
		for pi, o := range p[ti] {
			opid := ti*10 + pi
			w.curOp[vsched.Tid()] = opid
			r := &res[ti][pi]
			r.started = true
			w.ev = append(w.ev, event{"opstart", -1, opid, ""})
			func() {
				defer func() {
					if x := recover(); x != nil {
						r.panicMsg = fmt.Sprint(x)
					}
				}()
				doOp(o, w, &tmp, r)
			}()
			r.ended = true
			w.ev = append(w.ev, event{"opend", -1, opid, r.info})
		}
	}
	for ti := 1; ti < len(p); ti++ {
		ti := ti
		vsched.GoNamed(fmt.Sprintf("T%d", ti), func() { body(ti) })
	}
	body(0)
}

func answerClass(ans *capnp.Answer) string {
	_, err := ans.Struct()
	if err == nil {
		return "ok"
	}
	s := err.Error()
	switch {
	case strings.Contains(s, "released client"):
		return "released"
	case strings.Contains(s, "null client"):
		return "null"
	case strings.Contains(s, "marker"):
		return "delivered"
	}
	return "err:" + s
}

func doOp(o int, w *world, tmp *[]*capnp.Client, r *opResult) {
	ctx := context.Background()
	meth := capnp.Method{InterfaceID: 1, MethodID: 2}
	send := func(c *capnp.Client) {
		ans, rel := c.SendCall(ctx, capnp.Send{Method: meth})
		r.info = answerClass(ans)
		rel()
	}
	switch o {
	case opRelC0:
		w.c0.Release()
	case opRelC1:
		w.c1.Release()
	case opAddRefC1:
		*tmp = append(*tmp, w.c1.AddRef())
		r.info = "ok"
	case opRelTmp:
		if n := len(*tmp); n > 0 {
			c := (*tmp)[n-1]
			*tmp = (*tmp)[:n-1]
			r.info = "rel"
			c.Release()
		} else {
			r.info = "none"
		}
	case opWeakAddRef:
		c, ok := w.w.AddRef()
		if ok && c != nil {
			*tmp = append(*tmp, c)
			r.info = "ok"
		} else {
			r.info = "weak-fail"
		}
	case opSendC1:
		send(w.c1)
	case opSendC0:
		send(w.c0)
	case opRecvC0:
		rej := &rejRecorder{}
		w.c0.RecvCall(ctx, capnp.Recv{Method: meth, ReleaseArgs: func() {}, Returner: rej})
		r.info = rej.class()
	case opStateC1:
		st := w.c1.State()
		r.info = fmt.Sprintf("brand=%v promise=%v", st.Brand.Value, st.IsPromise)
	case opRelPC:
		w.pc.Release()
	case opRelPC1:
		w.pc1.Release()
	case opSendPC1:
		send(w.pc1)
	case opAddRefPC1:
		c := w.pc1.AddRef()
		if c != nil {
			*tmp = append(*tmp, c)
			r.info = "ok"
		} else {
			r.info = "nil"
		}
	case opFulfillT:
		w.cp.Fulfill(w.t)
	case opFulfillNil:
		w.cp.Fulfill(nil)
	case opRelT:
		w.t.Release()
	case opResolvePC1:
		if err := w.pc1.Resolve(ctx); err != nil {
			r.info = "err:" + err.Error()
		} else {
			r.info = "ok"
		}
	}
}

type rejRecorder struct {
	err    error
	called int
}

func (r *rejRecorder) AllocResults(sz capnp.ObjectSize) (capnp.Struct, error) {
	return capnp.Struct{}, fmt.Errorf("no results")
}
func (r *rejRecorder) Return(e error) { r.err = e; r.called++ }
func (r *rejRecorder) class() string {
	if r.called != 1 {
		return fmt.Sprintf("returner-called-%d", r.called)
	}
	if r.err == nil {
		return "ok"
	}
	s := r.err.Error()
	switch {
	case strings.Contains(s, "released client"):
		return "released"
	case strings.Contains(s, "null client"):
		return "null"
	case strings.Contains(s, "marker"):
		return "delivered"
	}
	return "err:" + s
}

// ---- oracle ----

// judge replays the event log against the reference-count model.
// Families of handles: famR (c0,c1,tmp from c1/weak) on hook R; famP (pc,pc1,
// tmp from pc1) on RP until fulfilment, then on the target; t on R2.
func judge(p program, w *world, res [][]opResult, vr *vsched.Result) (string, string) {
	if len(vr.Panics) > 0 {
		return "panic", "panic in a controlled thread: " + vr.Panics[0]
	}
	if vr.Livelock {
		return "livelock", "step limit reached"
	}
	if vr.Deadlocked() {
		return "deadlock", "threads blocked forever: " + strings.Join(vr.Blocked, " | ")
	}
	opOf := func(id int) int { return p[id/10][id%10] }
	liveR, liveP, liveT := 2, 2, 1
	tmpFam := map[int][]int{} // thread -> stack of family ids (0=R,1=P)
	fulfillStarted, fulfillDone := false, false
	fulfillTarget := -1 // 0 = t, 1 = nil
	inflight := [3]int{}
	shut := [3]int{}
	relInThread := map[[2]int]bool{} // (thread, handle) released earlier in this thread
	for i, e := range w.ev {
		switch e.kind {
		case "opstart":
			o := opOf(e.op)
			ti := e.op / 10
			switch o {
			case opRelC0, opRelC1:
				if !relInThread[[2]int{ti, opHandle(o)}] {
					liveR--
					relInThread[[2]int{ti, opHandle(o)}] = true
				}
			case opRelPC, opRelPC1:
				if !relInThread[[2]int{ti, opHandle(o)}] {
					liveP--
					relInThread[[2]int{ti, opHandle(o)}] = true
				}
			case opRelT:
				if !relInThread[[2]int{ti, hdT}] {
					liveT--
					relInThread[[2]int{ti, hdT}] = true
				}
			case opRelTmp:
				if st := tmpFam[ti]; len(st) > 0 {
					if st[len(st)-1] == 0 {
						liveR--
					} else {
						liveP--
					}
					tmpFam[ti] = st[:len(st)-1]
				}
			case opFulfillT:
				fulfillStarted = true
				fulfillTarget = 0
			case opFulfillNil:
				fulfillStarted = true
				fulfillTarget = 1
			}
		case "opend":
			o := opOf(e.op)
			ti := e.op / 10
			r := res[ti][e.op%10]
			switch o {
			case opAddRefC1:
				if r.panicMsg == "" {
					liveR++
					tmpFam[ti] = append(tmpFam[ti], 0)
				}
			case opWeakAddRef:
				if r.info == "ok" {
					liveR++
					tmpFam[ti] = append(tmpFam[ti], 0)
				}
			case opAddRefPC1:
				if r.panicMsg == "" && r.info == "ok" {
					liveP++
					tmpFam[ti] = append(tmpFam[ti], 1)
				}
			case opFulfillT, opFulfillNil:
				fulfillDone = true
			}
		case "send-enter":
			if shut[e.hook] > 0 {
				return "call-after-shutdown", fmt.Sprintf("event %d: %s delivered to hook %s after its Shutdown started", i, opNames[opOf(e.op)], hookNames[e.hook])
			}
			inflight[e.hook]++
		case "send-exit":
			inflight[e.hook]--
		case "shutdown":
			shut[e.hook]++
			if shut[e.hook] > 1 {
				return "double-shutdown", fmt.Sprintf("event %d: hook %s shut down twice", i, hookNames[e.hook])
			}
			if inflight[e.hook] > 0 {
				return "shutdown-during-call", fmt.Sprintf("event %d: hook %s shut down while %d call(s) through it are in progress", i, hookNames[e.hook], inflight[e.hook])
			}
			switch e.hook {
			case hR:
				if liveR > 0 {
					return "shutdown-with-refs/R", fmt.Sprintf("event %d: hook R shut down while %d strong reference(s) remain", i, liveR)
				}
			case hRP:
				if liveP > 0 && !fulfillStarted {
					return "shutdown-with-refs/RP", fmt.Sprintf("event %d: promise hook RP shut down while %d reference(s) remain and no Fulfill started", i, liveP)
				}
			case hR2:
				if liveT > 0 || (fulfillStarted && fulfillTarget == 0 && liveP > 0) {
					phase := "steady"
					if fulfillStarted && !fulfillDone {
						phase = "fulfill-in-progress"
					}
					return "shutdown-with-refs/R2/" + phase, fmt.Sprintf("event %d: hook R2 shut down while references remain (t live=%d, promised refs=%d, fulfil started=%v done=%v)", i, liveT, liveP, fulfillStarted, fulfillDone)
				}
			}
		}
	}
	_ = fulfillDone
	// final state
	wantR := liveR == 0
	wantRP := fulfillStarted || liveP == 0
	wantR2 := liveT == 0 && !(fulfillTarget == 0 && liveP > 0)
	for h, want := range []bool{wantR, wantRP, wantR2} {
		if want && shut[h] != 1 {
			return "missing-shutdown", fmt.Sprintf("hook %s: all references released (model live R=%d P=%d T=%d fulfilled=%v) but Shutdown ran %d times", hookNames[h], liveR, liveP, liveT, fulfillStarted, shut[h])
		}
		if !want && shut[h] != 0 {
			return "early-shutdown", fmt.Sprintf("hook %s shut down although references remain at the end (model live R=%d P=%d T=%d)", hookNames[h], liveR, liveP, liveT)
		}
	}
	// per-op results
	for ti, th := range p {
		released := map[int]bool{}
		for pi, o := range th {
			r := res[ti][pi]
			h := opHandle(o)
			wasReleased := released[h]
			if isRelease(o) {
				released[h] = true
			}
			if !r.started || !r.ended {
				return "op-incomplete", fmt.Sprintf("thread %d op %s did not complete", ti, opNames[o])
			}
			// documented panics
			if r.panicMsg != "" {
				ok := false
				if fulfillTarget == 1 && o == opAddRefPC1 && wasReleased && strings.Contains(r.panicMsg, "AddRef on released client") {
					continue
				}
				switch o {
				case opAddRefC1, opAddRefPC1:
					ok = wasReleased && strings.Contains(r.panicMsg, "AddRef on released client")
				case opFulfillT:
					ok = wasReleased && strings.Contains(r.panicMsg, "released client")
				}
				if !ok {
					return "unexpected-panic", fmt.Sprintf("thread %d op %s panicked: %s", ti, opNames[o], r.panicMsg)
				}
				continue
			}
			nullResolved := fulfillTarget == 1 && (h == hdPC || h == hdPC1)
			if nullResolved && wasReleased {
				// Release on a client that has resolved to null is a documented
				// no-op that may or may not mark the handle released, depending on
				// whether an earlier operation observed the resolution; both the
				// "released" and the "null" behaviour are within the contract.
				switch o {
				case opAddRefPC1:
					if r.info != "nil" {
						return "addref-null", fmt.Sprintf("thread %d: %s after Fulfill(nil): %q", ti, opNames[o], r.info)
					}
					continue
				case opSendPC1:
					if r.info != "null" && r.info != "released" {
						return "call-result", fmt.Sprintf("thread %d op %s after Fulfill(nil)+Release: %q", ti, opNames[o], r.info)
					}
					continue
				}
			}
			if (o == opAddRefC1 || o == opAddRefPC1) && wasReleased {
				return "addref-after-release", fmt.Sprintf("thread %d: %s on a released handle did not panic as documented", ti, opNames[o])
			}
			switch o {
			case opSendC1, opSendC0, opRecvC0:
				want := "delivered"
				if wasReleased {
					want = "released"
				}
				if r.info != want {
					return "call-result", fmt.Sprintf("thread %d op %s: got %q want %q", ti, opNames[o], r.info, want)
				}
				n := countSends(w, ti*10+pi, hR)
				if (want == "delivered") != (n == 1) || countSendsOther(w, ti*10+pi, hR) != 0 {
					return "call-delivery", fmt.Sprintf("thread %d op %s: delivered %d times to R, %d to others", ti, opNames[o], n, countSendsOther(w, ti*10+pi, hR))
				}
			case opSendPC1:
				nRP, nR2, nR := countSends(w, ti*10+pi, hRP), countSends(w, ti*10+pi, hR2), countSends(w, ti*10+pi, hR)
				if nR != 0 || nRP+nR2 > 1 {
					return "call-delivery", fmt.Sprintf("thread %d op %s: delivered RP=%d R2=%d R=%d", ti, opNames[o], nRP, nR2, nR)
				}
				switch {
				case wasReleased:
					if r.info != "released" || nRP+nR2 != 0 {
						return "call-result", fmt.Sprintf("thread %d op %s on released handle: %q delivered=%d", ti, opNames[o], r.info, nRP+nR2)
					}
				case r.info == "delivered":
					if nRP+nR2 != 1 {
						return "call-delivery", fmt.Sprintf("thread %d op %s: answer from hook but %d deliveries recorded", ti, opNames[o], nRP+nR2)
					}
					if nR2 == 1 && fulfillTarget != 0 {
						return "call-delivery", fmt.Sprintf("thread %d op %s: delivered to R2 without Fulfill(t)", ti, opNames[o])
					}
				case r.info == "null":
					if fulfillTarget != 1 || nRP+nR2 != 0 {
						return "call-result", fmt.Sprintf("thread %d op %s: null-client error without Fulfill(nil) (deliveries %d)", ti, opNames[o], nRP+nR2)
					}
				default:
					return "call-result", fmt.Sprintf("thread %d op %s: unexpected result %q", ti, opNames[o], r.info)
				}
			}
		}
	}
	return "", ""
}

func countSends(w *world, opid, hook int) int {
	n := 0
	for _, e := range w.ev {
		if e.kind == "send-enter" && e.op == opid && e.hook == hook && e.info != "brand" {
			n++
		}
	}
	return n
}

func countSendsOther(w *world, opid, hook int) int {
	n := 0
	for _, e := range w.ev {
		if e.kind == "send-enter" && e.op == opid && e.hook != hook && e.info != "brand" {
			n++
		}
	}
	return n
}

func outcomeClass(w *world, res [][]opResult) string {
	var b strings.Builder
	for _, e := range w.ev {
		switch e.kind {
		case "shutdown":
			b.WriteString("S" + hookNames[e.hook] + " ")
		case "send-enter":
			b.WriteString("c" + hookNames[e.hook] + " ")
		}
	}
	for _, th := range res {
		for _, r := range th {
			b.WriteString(r.info + ",")
		}
	}
	return b.String()
}

// ---- program enumeration ----

func seqs(maxLen int) [][]int {
	var out [][]int
	var rec func(cur []int)
	rec = func(cur []int) {
		if len(cur) > 0 {
			out = append(out, append([]int{}, cur...))
		}
		if len(cur) == maxLen {
			return
		}
		for o := 0; o < nOps; o++ {
			rec(append(cur, o))
		}
	}
	rec(nil)
	return out
}

func lessEq(a, b []int) bool {
	for i := 0; i < len(a) && i < len(b); i++ {
		if a[i] != b[i] {
			return a[i] < b[i]
		}
	}
	return len(a) <= len(b)
}

func programs(threads, maxLen int) []program {
	ss := seqs(maxLen)
	var out []program
	var rec func(cur program)
	rec = func(cur program) {
		if len(cur) == threads {
			p := append(program{}, cur...)
			if p.valid() {
				out = append(out, p)
			}
			return
		}
		for _, s := range ss {
			if len(cur) > 0 && !lessEq(cur[len(cur)-1], s) {
				continue // threads are symmetric
			}
			rec(append(cur, s))
		}
	}
	rec(nil)
	return out
}

func family(name string, progs []program, cfg vsched.Config) vlib.Family {
	return vlib.Family{
		Name: name, N: int64(len(progs)),
		Describe: func(i int64) interface{} { return progs[i].String() },
		Run: func(i int64, r *vlib.Rec) {
			p := progs[i]
			var w *world
			var res [][]opResult
			body := func() {
				w = &world{}
				res = make([][]opResult, len(p))
				for ti := range p {
					res[ti] = make([]opResult, len(p[ti]))
				}
				runProgram(p, w, res)
			}
			outcomes := map[string]bool{}
			st, f := vsched.Explore(cfg, body, func(vr *vsched.Result) string {
				key, msg := judge(p, w, res, vr)
				if key != "" {
					return key + "\x00" + msg
				}
				outcomes[outcomeClass(w, res)] = true
				return ""
			})
			r.States += int64(len(st.Configs))
			r.Transitions += st.Steps
			r.Traces += st.Execs
			r.Note("executions", st.Execs)
			if st.Capped {
				r.Capped = true
			}
			for o := range outcomes {
				r.Outcome(o)
			}
			if len(outcomes) > 1 || st.Execs > 1 {
				r.NonTrivial()
			}
			if f != nil {
				if f.Engine {
					r.Failf("ENGINE:"+f.Msg, "%s", f.Msg)
					return
				}
				parts := strings.SplitN(f.Msg, "\x00", 2)
				rr := vsched.Replay(f.Choices, cfg.MaxSteps, body)
				r.Failf(parts[0], "program %s\n%s\nchoices %v\nevents: %s\n%s", p, parts[1], f.Choices, renderEvents(p, w), rr.Describe())
			}
		},
	}
}

func renderEvents(p program, w *world) string {
	var b strings.Builder
	for _, e := range w.ev {
		switch e.kind {
		case "opstart", "opend":
			fmt.Fprintf(&b, "%s(T%d:%s %s) ", e.kind, e.op/10, opNames[p[e.op/10][e.op%10]], e.info)
		default:
			fmt.Fprintf(&b, "%s(%s) ", e.kind, hookNames[e.hook])
		}
	}
	return b.String()
}

func main() {
	vlib.Main(vlib.Spec{
		ID:    "C10",
		Level: "model_checking",
		CaseTimeout: 30 * time.Minute,
		Rule:  "programs = all valid assignments of operation sequences (17-op alphabet over handles c0,c1,weak on hook R; pc,pc1 + ClientPromise on promise hook RP; t on hook R2) to 1-3 symmetric threads; for each program all schedules of the real capability.go up to the preemption bound under the controlled scheduler; oracle = reference-count model stepped from the recorded op/hook event log. A program is non-trivial if it had more than one schedule or more than one distinct outcome. states = sum over programs of distinct scheduling configurations (enabled set x pending operations); transitions = scheduling steps executed; traces = executions, all on the implementation.",
		Assumptions: []string{
			"scheduling points at every sync operation (mutex lock, channel close/receive/select, go) are sufficient because capability.go has no unsynchronised shared accesses (checked separately by a free-running -race pass, which decides nothing)",
			"API contract filter: a handle released by one thread is not used by another; at most one Fulfill; the fulfilment target is released only by the fulfilling thread afterwards",
		},
		Families: func(tier string) []vlib.Family {
			if tier == "thorough" {
				return []vlib.Family{
					family("seq<=5", programs(1, 5), vsched.Config{MaxPreempt: 0, MaxDev: 0, MaxSteps: 5000}),
					family("par2x2-pb3", programs(2, 2), vsched.Config{MaxPreempt: 3, MaxDev: 0, MaxSteps: 5000}),
					family("par3x1-pb3", programs(3, 1), vsched.Config{MaxPreempt: 3, MaxDev: 0, MaxSteps: 5000}),
				}
			}
			return []vlib.Family{
				family("seq<=4", programs(1, 4), vsched.Config{MaxPreempt: 0, MaxDev: 0, MaxSteps: 5000}),
				family("par2x2-pb2", programs(2, 2), vsched.Config{MaxPreempt: 2, MaxDev: 0, MaxSteps: 5000}),
				family("par3x1-pb2", programs(3, 1), vsched.Config{MaxPreempt: 2, MaxDev: 0, MaxSteps: 5000}),
			}
		},
	})
}
