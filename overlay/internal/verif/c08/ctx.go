package main

import context "capnproto.org/go/capnp/v3/internal/vsched/vctx"

func context_Background() context.Context { return context.Background() }

func context_WithCancel() (context.Context, context.CancelFunc) {
	return context.WithCancel(context.Background())
}
