// C08 — a hostile or buggy peer cannot crash or wedge an RPC connection.
//
// Engine E2 on the real rpc.Conn (instrumented rpc/, server/, capability.go,
// answer.go) over the scheduler-aware transport of rpcsim.  Enumerated: a
// valid prefix (nothing / Bootstrap / Bootstrap + one gated call in flight)
// followed by every sequence of 1..L messages of a structured hostile
// alphabet (every message type with unknown, reused, finished and extreme
// ids; every capability-descriptor variant incl. a bad descriptor after a
// good one; malformed params; unknown union members; unsupported features),
// then a liveness probe (a fresh valid Bootstrap) and Close.  In the thorough
// tier also every pointer word of each valid message corrupted by a
// corruption alphabet.  For every scenario all schedules inside the bound.
package main

import (
	"encoding/binary"
	"fmt"
	"strings"
	"time"

	capnp "capnproto.org/go/capnp/v3"
	"capnproto.org/go/capnp/v3/internal/verif/rpcsim"
	"capnproto.org/go/capnp/v3/internal/verif/vlib"
	"capnproto.org/go/capnp/v3/internal/vsched"
	rpccp "capnproto.org/go/capnp/v3/std/capnp/rpc"
)

type hmsg struct {
	name  string
	build func(m rpccp.Message)
	raw   []byte // if non-nil, sent verbatim
	// question id that this message opens (Bootstrap/Call), -1 if none
	opens int
}

func must(err error) {
	if err != nil {
		panic(err)
	}
}

const probeQ = 77

func call(name string, q uint32, tgt rpcsim.Target, id int, caps []rpcsim.CapD, tweak func(c rpccp.Call)) hmsg {
	return hmsg{name: name, opens: int(q), build: func(m rpccp.Message) {
		c := rpcsim.BuildCall(m, q, tgt, id, caps)
		if tweak != nil {
			tweak(c)
		}
	}}
}

func alphabet() []hmsg {
	imp0 := rpcsim.Target{ID: 0}
	var a []hmsg
	add := func(h hmsg) { a = append(a, h) }
	boot := func(q uint32) hmsg {
		return hmsg{name: fmt.Sprintf("Bootstrap(q%d)", q), opens: int(q), build: func(m rpccp.Message) {
			b, err := m.NewBootstrap()
			must(err)
			b.SetQuestionId(q)
		}}
	}
	// --- valid messages (needed to reach finished / released states)
	add(boot(5))
	add(call("Call(q6,import0)", 6, imp0, 60, nil, nil))
	add(hmsg{name: "Finish(q0)", opens: -1, build: func(m rpccp.Message) { f, _ := m.NewFinish(); f.SetQuestionId(0) }})
	add(hmsg{name: "Release(0,1)", opens: -1, build: func(m rpccp.Message) { r, _ := m.NewRelease(); r.SetId(0); r.SetReferenceCount(1) }})
	// --- ids
	add(boot(0)) // reused when the prefix used 0
	add(boot(0xFFFFFFFF))
	add(call("Call(q0 reused,import0)", 0, imp0, 61, nil, nil))
	add(call("Call(q7,import9 unknown)", 7, rpcsim.Target{ID: 9}, 62, nil, nil))
	add(call("Call(q7,import 2^32-1)", 7, rpcsim.Target{ID: 0xFFFFFFFF}, 62, nil, nil))
	add(call("Call(q8,answer9 unknown)", 8, rpcsim.Target{Promised: true, ID: 9, Path: []uint16{0}}, 63, nil, nil))
	add(call("Call(q8,answer0[])", 8, rpcsim.Target{Promised: true, ID: 0}, 63, nil, nil))
	add(call("Call(q8,answer0[0])", 8, rpcsim.Target{Promised: true, ID: 0, Path: []uint16{0}}, 63, nil, nil))
	add(call("Call(q8,answer0[7])", 8, rpcsim.Target{Promised: true, ID: 0, Path: []uint16{7}}, 63, nil, nil))
	add(call("Call(q8,answer1[0])", 8, rpcsim.Target{Promised: true, ID: 1, Path: []uint16{0}}, 63, nil, nil))
	add(call("Call(q8,answer8[0] itself)", 8, rpcsim.Target{Promised: true, ID: 8, Path: []uint16{0}}, 63, nil, nil))
	add(call("Call(q8,answer8[] itself)", 8, rpcsim.Target{Promised: true, ID: 8}, 63, nil, nil))
	// --- unknown union members / unsupported features
	add(call("Call(q9,target kind 2)", 9, imp0, 64, nil, func(c rpccp.Call) {
		t, _ := c.Target()
		t.Struct.SetUint16(4, 2)
	}))
	add(call("Call(q9,target kind 2,cap in params)", 9, imp0, 64, []rpcsim.CapD{{Kind: 's', ID: 6}}, func(c rpccp.Call) {
		t, _ := c.Target()
		t.Struct.SetUint16(4, 2)
	}))
	add(call("Call(q9,transform op kind 5,cap in params)", 9, rpcsim.Target{Promised: true, ID: 0, Path: []uint16{0}}, 64, []rpcsim.CapD{{Kind: 's', ID: 6}}, func(c rpccp.Call) {
		t, _ := c.Target()
		pa, _ := t.PromisedAnswer()
		ops, _ := pa.Transform()
		ops.At(0).Struct.SetUint16(0, 5)
	}))
	add(call("Call(q9,sendResultsTo yourself)", 9, imp0, 64, nil, func(c rpccp.Call) { c.SendResultsTo().SetYourself() }))
	add(call("Call(q9,sendResultsTo yourself,cap in params)", 9, imp0, 64, []rpcsim.CapD{{Kind: 's', ID: 4}}, func(c rpccp.Call) { c.SendResultsTo().SetYourself() }))
	add(call("Call(q9,transform op kind 5)", 9, rpcsim.Target{Promised: true, ID: 0, Path: []uint16{0}}, 64, nil, func(c rpccp.Call) {
		t, _ := c.Target()
		pa, _ := t.PromisedAnswer()
		ops, _ := pa.Transform()
		ops.At(0).Struct.SetUint16(0, 5)
	}))
	add(call("Call(q9,unknown method)", 9, imp0, 64, nil, func(c rpccp.Call) { c.SetMethodId(99) }))
	add(call("Call(q9,unknown interface)", 9, imp0, 64, nil, func(c rpccp.Call) { c.SetInterfaceId(1) }))
	// --- params
	add(call("Call(q10,no params)", 10, imp0, 65, nil, func(c rpccp.Call) { c.Struct.SetPtr(1, capnp.Ptr{}) }))
	add(call("Call(q10,params content=list)", 10, imp0, 65, nil, func(c rpccp.Call) {
		pl, _ := c.Params()
		l, _ := capnp.NewUInt8List(pl.Segment(), 3)
		pl.SetContent(l.ToPtr())
	}))
	add(call("Call(q10,params content=cap)", 10, imp0, 65, []rpcsim.CapD{{Kind: 's', ID: 3}}, func(c rpccp.Call) {
		pl, _ := c.Params()
		pl.SetContent(capnp.NewInterface(pl.Segment(), 0).ToPtr())
	}))
	add(call("Call(q10,params content=null)", 10, imp0, 65, nil, func(c rpccp.Call) {
		pl, _ := c.Params()
		pl.SetContent(capnp.Ptr{})
	}))
	// --- capability descriptors
	descs := []struct {
		name string
		caps []rpcsim.CapD
	}{
		{"none", []rpcsim.CapD{{Kind: 'n'}}},
		{"senderHosted5", []rpcsim.CapD{{Kind: 's', ID: 5}}},
		{"senderHosted5x2", []rpcsim.CapD{{Kind: 's', ID: 5}, {Kind: 's', ID: 5}}},
		{"senderPromise6", []rpcsim.CapD{{Kind: 'p', ID: 6}}},
		{"receiverHosted0", []rpcsim.CapD{{Kind: 'r', ID: 0}}},
		{"receiverHosted99", []rpcsim.CapD{{Kind: 'r', ID: 99}}},
		{"senderHosted5,receiverHosted99", []rpcsim.CapD{{Kind: 's', ID: 5}, {Kind: 'r', ID: 99}}},
		{"receiverHosted0,receiverHosted99", []rpcsim.CapD{{Kind: 'r', ID: 0}, {Kind: 'r', ID: 99}}},
		{"receiverAnswer0", []rpcsim.CapD{{Kind: 'a', ID: 0}}},
		{"thirdParty", []rpcsim.CapD{{Kind: 't', ID: 1}}},
	}
	for _, d := range descs {
		add(call("Call(q11,caps="+d.name+")", 11, imp0, 66, d.caps, nil))
	}
	add(call("Call(q11,caps=unknown kind 9)", 11, imp0, 66, []rpcsim.CapD{{Kind: 's', ID: 5}}, func(c rpccp.Call) {
		pl, _ := c.Params()
		l, _ := pl.CapTable()
		l.At(0).Struct.SetUint16(0, 9)
	}))
	// --- Return / Finish / Release / Disembargo for unknown or wrong-state ids
	ret := func(name string, q uint32, f func(r rpccp.Return)) hmsg {
		return hmsg{name: name, opens: -1, build: func(m rpccp.Message) {
			r, err := m.NewReturn()
			must(err)
			r.SetAnswerId(q)
			if f != nil {
				f(r)
			}
		}}
	}
	add(ret("Return(a7 unknown,results)", 7, func(r rpccp.Return) { r.NewResults() }))
	add(ret("Return(a2^32-1,exception)", 0xFFFFFFFF, func(r rpccp.Return) { e, _ := r.NewException(); e.SetReason("x") }))
	add(ret("Return(a0,canceled)", 0, func(r rpccp.Return) { r.SetCanceled() }))
	add(ret("Return(a0,takeFromOtherQuestion)", 0, func(r rpccp.Return) { r.SetTakeFromOtherQuestion(3) }))
	add(hmsg{name: "Finish(q9 unknown)", opens: -1, build: func(m rpccp.Message) { f, _ := m.NewFinish(); f.SetQuestionId(9) }})
	add(hmsg{name: "Finish(q0,relcaps)", opens: -1, build: func(m rpccp.Message) { f, _ := m.NewFinish(); f.SetQuestionId(0); f.SetReleaseResultCaps(true) }})
	add(hmsg{name: "Finish(q1)", opens: -1, build: func(m rpccp.Message) { f, _ := m.NewFinish(); f.SetQuestionId(1) }})
	add(hmsg{name: "Release(9 unknown,1)", opens: -1, build: func(m rpccp.Message) { r, _ := m.NewRelease(); r.SetId(9); r.SetReferenceCount(1) }})
	add(hmsg{name: "Release(0,5 too many)", opens: -1, build: func(m rpccp.Message) { r, _ := m.NewRelease(); r.SetId(0); r.SetReferenceCount(5) }})
	add(hmsg{name: "Release(0,0)", opens: -1, build: func(m rpccp.Message) { r, _ := m.NewRelease(); r.SetId(0); r.SetReferenceCount(0) }})
	dis := func(name string, f func(d rpccp.Disembargo)) hmsg {
		return hmsg{name: name, opens: -1, build: func(m rpccp.Message) {
			d, err := m.NewDisembargo()
			must(err)
			f(d)
		}}
	}
	add(dis("Disembargo(senderLoopback,import0)", func(d rpccp.Disembargo) {
		t, _ := d.NewTarget()
		t.SetImportedCap(0)
		d.Context().SetSenderLoopback(1)
	}))
	add(dis("Disembargo(senderLoopback,answer0[0])", func(d rpccp.Disembargo) {
		t, _ := d.NewTarget()
		pa, _ := t.NewPromisedAnswer()
		pa.SetQuestionId(0)
		ops, _ := pa.NewTransform(1)
		ops.At(0).SetGetPointerField(0)
		d.Context().SetSenderLoopback(1)
	}))
	add(dis("Disembargo(senderLoopback,answer0[])", func(d rpccp.Disembargo) {
		t, _ := d.NewTarget()
		pa, _ := t.NewPromisedAnswer()
		pa.SetQuestionId(0)
		d.Context().SetSenderLoopback(1)
	}))
	add(dis("Disembargo(senderLoopback,answer9 unknown)", func(d rpccp.Disembargo) {
		t, _ := d.NewTarget()
		pa, _ := t.NewPromisedAnswer()
		pa.SetQuestionId(9)
		d.Context().SetSenderLoopback(1)
	}))
	add(dis("Disembargo(receiverLoopback 3 unknown)", func(d rpccp.Disembargo) {
		t, _ := d.NewTarget()
		t.SetImportedCap(0)
		d.Context().SetReceiverLoopback(3)
	}))
	add(dis("Disembargo(accept)", func(d rpccp.Disembargo) {
		t, _ := d.NewTarget()
		t.SetImportedCap(0)
		d.Context().SetAccept()
	}))
	add(dis("Disembargo(provide)", func(d rpccp.Disembargo) {
		t, _ := d.NewTarget()
		t.SetImportedCap(0)
		d.Context().SetProvide(2)
	}))
	add(dis("Disembargo(no target)", func(d rpccp.Disembargo) { d.Context().SetSenderLoopback(1) }))
	add(dis("Disembargo(target kind 3)", func(d rpccp.Disembargo) {
		t, _ := d.NewTarget()
		t.Struct.SetUint16(4, 3)
		d.Context().SetSenderLoopback(1)
	}))
	// --- other message kinds
	add(hmsg{name: "Provide", opens: -1, build: func(m rpccp.Message) { p, _ := m.NewProvide(); p.SetQuestionId(12) }})
	add(hmsg{name: "Accept", opens: -1, build: func(m rpccp.Message) { p, _ := m.NewAccept(); p.SetQuestionId(12) }})
	add(hmsg{name: "Join", opens: -1, build: func(m rpccp.Message) { p, _ := m.NewJoin(); p.SetQuestionId(12) }})
	add(hmsg{name: "Resolve", opens: -1, build: func(m rpccp.Message) { p, _ := m.NewResolve(); p.SetPromiseId(0) }})
	add(hmsg{name: "Message(kind 99)", opens: -1, build: func(m rpccp.Message) { m.Struct.SetUint16(0, 99) }})
	add(hmsg{name: "Message(kind 99 with a capability pointer)", opens: -1, build: func(m rpccp.Message) {
		m.Struct.SetUint16(0, 99)
		must(m.Struct.SetPtr(0, capnp.NewInterface(m.Struct.Segment(), 3).ToPtr()))
	}})
	add(hmsg{name: "Message(call, null body)", opens: -1, build: func(m rpccp.Message) { m.Struct.SetUint16(0, uint16(rpccp.Message_Which_call)) }})
	add(hmsg{name: "Message(return, null body)", opens: -1, build: func(m rpccp.Message) { m.Struct.SetUint16(0, uint16(rpccp.Message_Which_return)) }})
	add(hmsg{name: "Unimplemented", opens: -1, build: func(m rpccp.Message) { u, _ := m.NewUnimplemented(); b, _ := u.NewBootstrap(); b.SetQuestionId(1) }})
	add(hmsg{name: "Abort", opens: -1, build: func(m rpccp.Message) { e, _ := m.NewAbort(); e.SetReason("bye") }})
	add(hmsg{name: "raw: empty frame root null", opens: -1, raw: []byte{0, 0, 0, 0, 1, 0, 0, 0, 0, 0, 0, 0, 0, 0, 0, 0}})
	return a
}

// corruptions of every pointer word of a valid message
func corruptions(base []byte, name string) []hmsg {
	var out []hmsg
	// frame: 1 segment: 8 byte header
	body := base[8:]
	for w := 0; w+8 <= len(body); w += 8 {
		word := binary.LittleEndian.Uint64(body[w:])
		if word == 0 {
			continue
		}
		// treat every non-zero word as a potential pointer: struct/list kinds have low bits 0/1
		alts := []uint64{
			0,                             // null
			word + 4,                      // offset +1
			word - 4,                      // offset -1
			word&^0xFFFFFFFC | 0x7FFFFFFC, // far out of bounds
			word ^ 1,                      // kind flip struct<->list
			word | 0xFFFFFFFF00000000,     // max size
			2 | (9 << 32),                 // far pointer to missing segment 9
			6 | (0 << 32),                 // double-far, pad at offset 0 of segment 0
			3,                             // capability pointer 0
			3 | (0xFFFFFFFF << 32),        // capability pointer 2^32-1
		}
		for ai, alt := range alts {
			b := append([]byte{}, base...)
			binary.LittleEndian.PutUint64(b[8+w:], alt)
			out = append(out, hmsg{name: fmt.Sprintf("corrupt(%s,word%d,alt%d)", name, w/8, ai), opens: -1, raw: b})
		}
	}
	return out
}

type scenario struct {
	prefix int // 0 none, 1 Bootstrap(0), 2 Bootstrap(0)+gated Call(1)
	seq    []hmsg
	local  bool // a local caller waits on the peer's bootstrap capability
}

func (s scenario) String() string {
	var n []string
	for _, h := range s.seq {
		n = append(n, h.name)
	}
	return fmt.Sprintf("prefix%d local=%v hostile[%s]", s.prefix, s.local, strings.Join(n, " ; "))
}

type outcome struct {
	probeAnswered bool
	connDone      bool
	closeReturned bool
	localResult   string
	sim           *rpcsim.Sim
	mainDone      bool
}

func run(sc scenario, out *outcome) {
	s := rpcsim.New(rpcsim.FaultPlan{}, true)
	out.sim = s
	p := s.NewPeer()
	peerDone := false
	localDone := !sc.local
	if sc.local {
		// a local caller uses the peer's bootstrap capability; the peer never
		// answers it, so only connection shutdown (or Close) can end the call
		lctx, lcancel := context_WithCancel()
		cancelDone := false
		localDone2 := &cancelDone
		vsched.GoNamed("canceller", func() {
			lcancel() // its position is a scheduling choice
			*localDone2 = true
		})
		vsched.GoNamed("local", func() {
			ctx := lctx
			bc := s.Conn.Bootstrap(ctx)
			ans, rel := bc.SendCall(ctx, capnp.Send{Method: capnp.Method{InterfaceID: rpcsim.IfaceID, MethodID: rpcsim.MethodEcho}, ArgsSize: capnp.ObjectSize{DataSize: 8},
				PlaceArgs: func(a capnp.Struct) error { a.SetUint32(0, 900); return nil }})
			_, err := ans.Struct()
			if err == nil {
				out.localResult = "ok"
			} else {
				out.localResult = "err"
			}
			rel()
			bc.Release()
			localDone = true
		})
	}
	vsched.GoNamed("peer", func() {
		if sc.prefix >= 1 {
			p.Bootstrap(0)
			p.WaitReturn(0)
		}
		if sc.prefix >= 2 {
			s.W.Mode[1] = rpcsim.ModeAckGate
			p.Call(1, rpcsim.Target{ID: 0}, 1, nil)
		}
		for _, h := range sc.seq {
			if h.raw != nil {
				p.Raw(h.raw)
			} else {
				p.Send(h.build)
			}
		}
		// liveness probe
		p.Bootstrap(probeQ)
		_, ok := p.WaitReturn(probeQ)
		out.probeAnswered = ok
		peerDone = true
	})
	vsched.WaitUntil("peer done", func() bool { return peerDone })
	s.W.OpenAll = true
	select {
	case <-s.Conn.Done():
		out.connDone = true
	default:
	}
	s.Conn.Close()
	out.closeReturned = true
	vsched.WaitUntil("local done", func() bool { return localDone })
	out.mainDone = true
}

func judge(sc scenario, out *outcome, vr *vsched.Result) (string, string) {
	wire := ""
	if out.sim != nil {
		wire = out.sim.T.WireString()
	}
	if len(vr.Panics) > 0 {
		first := strings.SplitN(vr.Panics[0], "\n", 2)[0]
		return "panic/" + normalize(first), "panic in a connection goroutine: " + vr.Panics[0] + "\nwire: " + wire
	}
	if vr.Livelock {
		return "livelock", "step limit reached\nwire: " + wire
	}
	if vr.Deadlocked() {
		return "deadlock/" + blockedSig(vr.Blocked), "threads blocked forever: " + strings.Join(vr.Blocked, " | ") + "\nwire: " + wire + "\nreported: " + strings.Join(out.sim.W.Reported, " | ")
	}
	if !out.mainDone {
		return "incomplete", "scenario did not run to completion\nwire: " + wire
	}
	if !out.probeAnswered && !out.sim.T.Closed {
		return "probe-unanswered", "the liveness probe got no Return and the connection is not shut down\nwire: " + wire
	}
	if len(out.sim.T.Contract) > 0 {
		return "transport-contract/" + normalize(out.sim.T.Contract[0]), "Transport contract violated by the Conn: " + strings.Join(out.sim.T.Contract, "; ") + "\nwire: " + wire
	}
	if sc.local && out.localResult == "" {
		return "local-caller-hung", "local caller never got a result"
	}
	// every hostile Bootstrap/Call with a fresh id must not get two Returns
	counts := map[uint32]int{}
	for _, m := range out.sim.T.Wire {
		if m.ToPeer && m.Msg.IsValid() && m.Msg.Which() == rpccp.Message_Which_return {
			r, err := m.Msg.Return()
			if err == nil {
				counts[r.AnswerId()]++
			}
		}
	}
	opened := map[uint32]int{}
	if sc.prefix >= 1 {
		opened[0]++
	}
	if sc.prefix >= 2 {
		opened[1]++
	}
	for _, h := range sc.seq {
		if h.opens >= 0 {
			opened[uint32(h.opens)]++
		}
	}
	opened[probeQ]++
	// a raw corruption (opens unknown) may itself be a well-formed Bootstrap
	// or Call with another question id: count what actually arrived
	arrived := map[uint32]int{}
	for _, m := range out.sim.T.Wire {
		if m.ToPeer || !m.Msg.IsValid() {
			continue
		}
		switch m.Msg.Which() {
		case rpccp.Message_Which_bootstrap:
			if b, err := m.Msg.Bootstrap(); err == nil {
				arrived[b.QuestionId()]++
			}
		case rpccp.Message_Which_call:
			if c, err := m.Msg.Call(); err == nil {
				arrived[c.QuestionId()]++
			}
		}
	}
	for q, n := range arrived {
		if n > opened[q] {
			opened[q] = n
		}
	}
	for q, n := range counts {
		if n > opened[q] {
			return "return-surplus", fmt.Sprintf("%d Return(s) for answer id %d but the peer opened it %d time(s)\nwire: %s", n, q, opened[q], wire)
		}
	}
	return "", ""
}

func normalize(s string) string {
	var b strings.Builder
	for _, r := range s {
		switch {
		case r >= '0' && r <= '9':
			b.WriteByte('N')
		case r == ' ' || r == ':' || r == '/':
			b.WriteByte('_')
		default:
			b.WriteRune(r)
		}
	}
	x := b.String()
	if len(x) > 70 {
		x = x[:70]
	}
	return x
}

func blockedSig(bl []string) string {
	var parts []string
	for _, b := range bl {
		i := strings.Index(b, ": ")
		name, op := b[:i], b[i+2:]
		if j := strings.Index(name, "#"); j >= 0 {
			name = name[:j]
		}
		parts = append(parts, name+":"+op)
	}
	for i := 1; i < len(parts); i++ {
		for j := i; j > 0 && parts[j] < parts[j-1]; j-- {
			parts[j], parts[j-1] = parts[j-1], parts[j]
		}
	}
	return normalize(strings.Join(parts, "|"))
}

func family(name string, scs []scenario, cfg vsched.Config) vlib.Family {
	return vlib.Family{
		Name: name, N: int64(len(scs)),
		Describe: func(i int64) interface{} { return scs[i].String() },
		Run: func(i int64, r *vlib.Rec) {
			sc := scs[i]
			var out *outcome
			body := func() {
				out = &outcome{}
				run(sc, out)
			}
			outcomes := map[string]bool{}
			knownSeen := map[string]bool{}
			st, f := vsched.Explore(cfg, body, func(vr *vsched.Result) string {
				key, msg := judge(sc, out, vr)
				if key != "" && vlib.KnownOpen("C08", key) {
					if !knownSeen[key] {
						knownSeen[key] = true
						r.Failf(key, "scenario %s\n%s", sc, msg)
					}
					return ""
				}
				if key != "" {
					return key + "\x00" + msg
				}
				oc := "answered"
				if !out.probeAnswered {
					oc = "aborted"
				}
				outcomes[oc+"|"+replies(out)] = true
				return ""
			})
			r.States += int64(len(st.Configs))
			r.Transitions += st.Steps
			r.Traces += st.Execs
			r.Note("executions", st.Execs)
			if st.Capped {
				r.Capped = true
			}
			for o := range outcomes {
				r.Outcome(o)
			}
			r.NonTrivial()
			if f != nil {
				if f.Engine {
					r.Failf("ENGINE:"+f.Msg, "%s", f.Msg)
					return
				}
				parts := strings.SplitN(f.Msg, "\x00", 2)
				rr := vsched.Replay(f.Choices, cfg.MaxSteps, body)
				r.Failf(parts[0], "scenario %s\n%s\nchoices %v\n%s", sc, parts[1], f.Choices, rr.Describe())
			}
		},
	}
}

// replies summarises what the Conn sent (kinds only) for outcome counting.
func replies(out *outcome) string {
	var k []string
	for _, m := range out.sim.T.Wire {
		if m.ToPeer && m.Msg.IsValid() {
			k = append(k, m.Msg.Which().String())
		}
	}
	return strings.Join(k, ",")
}

func scenarios(maxLen int, prefixes []int, withLocal bool, corrupt bool) []scenario {
	a := alphabet()
	var out []scenario
	var rec func(cur []hmsg)
	for _, pf := range prefixes {
		pf := pf
		rec = func(cur []hmsg) {
			if len(cur) > 0 {
				out = append(out, scenario{prefix: pf, seq: append([]hmsg{}, cur...)})
				if withLocal && len(cur) == 1 {
					out = append(out, scenario{prefix: pf, seq: append([]hmsg{}, cur...), local: true})
				}
			}
			if len(cur) == maxLen {
				return
			}
			for _, h := range a {
				rec(append(cur, h))
			}
		}
		rec(nil)
	}
	if corrupt {
		valid := []struct {
			name string
			b    []byte
		}{
			{"Bootstrap", rpcsim.Build(func(m rpccp.Message) { b, _ := m.NewBootstrap(); b.SetQuestionId(20) })},
			{"Call", rpcsim.Build(func(m rpccp.Message) {
				rpcsim.BuildCall(m, 21, rpcsim.Target{ID: 0}, 70, []rpcsim.CapD{{Kind: 's', ID: 4}})
			})},
			{"CallPromised", rpcsim.Build(func(m rpccp.Message) {
				rpcsim.BuildCall(m, 21, rpcsim.Target{Promised: true, ID: 0, Path: []uint16{0}}, 70, nil)
			})},
			{"Finish", rpcsim.Build(func(m rpccp.Message) { f, _ := m.NewFinish(); f.SetQuestionId(0) })},
			{"Return", rpcsim.Build(func(m rpccp.Message) {
				r, _ := m.NewReturn()
				r.SetAnswerId(0)
				pl, _ := r.NewResults()
				st, _ := capnp.NewStruct(pl.Segment(), capnp.ObjectSize{DataSize: 8, PointerCount: 1})
				pl.SetContent(st.ToPtr())
			})},
			{"Disembargo", rpcsim.Build(func(m rpccp.Message) {
				d, _ := m.NewDisembargo()
				t, _ := d.NewTarget()
				pa, _ := t.NewPromisedAnswer()
				pa.SetQuestionId(0)
				d.Context().SetSenderLoopback(1)
			})},
		}
		for _, v := range valid {
			// single-segment frames only (MultiSegment(nil) messages this small are)
			if binary.LittleEndian.Uint32(v.b) != 0 {
				continue
			}
			for _, h := range corruptions(v.b, v.name) {
				for _, pf := range []int{1} {
					out = append(out, scenario{prefix: pf, seq: []hmsg{h}})
				}
			}
		}
	}
	return out
}

func main() {
	vlib.Main(vlib.Spec{
		ID:          "C08",
		Level:       "model_checking",
		CaseTimeout: 30 * time.Minute,
		Rule:        "scenarios = valid prefix (none | Bootstrap | Bootstrap + one gated call in flight) x every sequence of 1..L messages over a structured hostile alphabet (about 70 messages: every rpc.capnp message type with unknown / reused / finished / extreme ids, all capability-descriptor variants incl. a bad one after a good one, malformed params, unknown union members, unsupported features, plus the valid messages needed to reach finished/released states) [x optionally a local caller waiting on the peer], then a liveness probe (fresh Bootstrap) and Conn.Close; thorough also corrupts every word of six valid messages with a 10-value pointer corruption alphabet. For each scenario every schedule of the real rpc/server/capnp code inside the bounds. Oracle: no panic, no deadlock (structural), probe answered or connection shut down, Close returns, all goroutines exit, Transport contract respected, no surplus Return. states = distinct scheduling configurations summed over scenarios; transitions = scheduling steps; traces = executions on the implementation.",
		Assumptions: []string{
			"timers (abort timeout) never fire inside the horizon",
			"scheduling points at every sync operation are sufficient (data-race freedom checked separately)",
		},
		Families: func(tier string) []vlib.Family {
			if tier == "thorough" {
				return []vlib.Family{
					family("len1,dev2", scenarios(1, []int{0, 1, 2}, true, false), vsched.Config{MaxPreempt: 2, MaxFree: 2, MaxTotal: 2, MaxSteps: 20000, MaxExecs: 150000}),
					family("len2,dev1", scenarios(2, []int{1, 2}, false, false), vsched.Config{MaxPreempt: 1, MaxFree: 1, MaxTotal: 1, MaxSteps: 20000}),
					family("corrupt,pb0", scenarios(0, nil, false, true), vsched.Config{MaxPreempt: 0, MaxFree: 1, MaxSteps: 20000}),
					retFailFamily("release-races-return,dev2", vsched.Config{MaxPreempt: 2, MaxFree: 2, MaxTotal: 2, MaxSteps: 20000}),
				}
			}
			return []vlib.Family{
				family("len1,pb1", scenarios(1, []int{0, 1, 2}, true, false), vsched.Config{MaxPreempt: 1, MaxFree: 1, MaxSteps: 20000}),
				family("len2,pb0", scenarios(2, []int{1}, false, false), vsched.Config{MaxPreempt: 0, MaxFree: 1, MaxSteps: 20000}),
				retFailFamily("release-races-return,dev1", vsched.Config{MaxPreempt: 1, MaxFree: 1, MaxTotal: 1, MaxSteps: 20000}),
			}
		},
	})
}
