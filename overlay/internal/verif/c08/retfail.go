// Family "release-races-return": a peer that gives back more references than
// it holds, timed against the Return that creates them.
//
// The alphabet families deliver hostile messages while nothing else happens.
// Here the hostile message is timed by the peer against the Conn's own
// activity: a call that returns a capability is finished with
// releaseResultCaps before it returns; once the peer sees the Return on the
// wire it also sends an explicit Release for the export that Return has just
// created (a double release).  Depending on the schedule the Release is
// handled before or after the Conn has accounted for the Finish, so either the
// receive loop or the goroutine sending the Return detects the protocol
// violation and has to shut the connection down.  Variants: the call targets
// the bootstrap capability (whose only reference the Conn holds) or a child
// capability; the Release names the new export, a wrong count, or comes twice.
//
// Oracle: as for the alphabet families — no panic, no thread left blocked, the
// liveness probe answered or the connection shut down, Close returns, the
// Transport contract respected.
package main

import (
	"fmt"
	"strings"

	"capnproto.org/go/capnp/v3/internal/verif/rpcsim"
	"capnproto.org/go/capnp/v3/internal/verif/vlib"
	"capnproto.org/go/capnp/v3/internal/vsched"
)

type rfcase struct {
	onChild  bool // the capability-returning call targets a child capability instead of the bootstrap capability
	relCaps  bool // Finish.releaseResultCaps
	early    bool // Finish sent before the call returns (gate opened only at quiescence)
	count    uint32
	twice    bool
	lateGate bool
}

func (c rfcase) String() string {
	tgt := "bootstrap capability"
	if c.onChild {
		tgt = "child capability"
	}
	when := "after its Return"
	if c.early {
		when = "before it returns"
	}
	tw := ""
	if c.twice {
		tw = " twice"
	}
	return fmt.Sprintf("Bootstrap; call on the %s returning a new capability; Finish(releaseResultCaps=%v) %s; on seeing the Return: Release(new export, %d)%s; probe; Close", tgt, c.relCaps, when, c.count, tw)
}

func rfcases() []rfcase {
	var out []rfcase
	for _, onChild := range []bool{false, true} {
		for _, relCaps := range []bool{true, false} {
			for _, early := range []bool{true, false} {
				for _, count := range []uint32{1, 2} {
					for _, twice := range []bool{false, true} {
						out = append(out, rfcase{onChild: onChild, relCaps: relCaps, early: early, count: count, twice: twice})
					}
				}
			}
		}
	}
	return out
}

func runRetFail(rc rfcase, out *outcome) {
	s := rpcsim.New(rpcsim.FaultPlan{}, true)
	out.sim = s
	p := s.NewPeer()
	peerDone := false
	vsched.GoNamed("peer", func() {
		defer func() { peerDone = true }()
		p.Bootstrap(0)
		if _, ok := p.WaitReturn(0); !ok {
			return
		}
		target := rpcsim.Target{ID: 0}
		nextExport := uint32(1)
		if rc.onChild {
			// first obtain a child capability (export 1) with an ordinary call
			s.W.Mode[1] = rpcsim.ModeCap
			s.W.Gate[1] = true
			p.Call(1, rpcsim.Target{ID: 0}, 1, nil)
			if _, ok := p.WaitReturn(1); !ok {
				return
			}
			p.Finish(1, false)
			target = rpcsim.Target{ID: 1}
			nextExport = 2
		}
		s.W.Mode[2] = rpcsim.ModeCap
		if !rc.early {
			s.W.Gate[2] = true
		}
		p.Call(2, target, 2, nil)
		if rc.early {
			p.Finish(2, rc.relCaps)
			vsched.WaitQuiescent()
			s.W.Gate[2] = true
		}
		if _, ok := p.WaitReturn(2); !ok {
			return
		}
		// double release of the export the Return has just created
		p.Release(nextExport, rc.count)
		if rc.twice {
			p.Release(nextExport, rc.count)
		}
		if !rc.early {
			p.Finish(2, rc.relCaps)
		}
		p.Bootstrap(probeQ)
		_, ok := p.WaitReturn(probeQ)
		out.probeAnswered = ok
	})
	vsched.WaitUntil("peer done", func() bool { return peerDone })
	s.W.OpenAll = true
	select {
	case <-s.Conn.Done():
		out.connDone = true
	default:
	}
	s.Conn.Close()
	out.closeReturned = true
	out.mainDone = true
}

func judgeRetFail(out *outcome, vr *vsched.Result) (string, string) {
	wire := ""
	if out.sim != nil {
		wire = out.sim.T.WireString()
	}
	if len(vr.Panics) > 0 {
		first := strings.SplitN(vr.Panics[0], "\n", 2)[0]
		return "panic/" + normalize(first), "panic in a controlled goroutine: " + vr.Panics[0] + "\nwire: " + wire
	}
	if vr.Livelock {
		return "livelock", "step limit reached\nwire: " + wire
	}
	if vr.Deadlocked() {
		return "deadlock/" + blockedSig(vr.Blocked), "threads blocked forever: " + strings.Join(vr.Blocked, " | ") + "\nwire: " + wire + "\nreported: " + strings.Join(out.sim.W.Reported, " | ")
	}
	if !out.mainDone {
		return "incomplete", "scenario did not run to completion\nwire: " + wire
	}
	if !out.probeAnswered && !out.sim.T.Closed {
		return "probe-unanswered", "the liveness probe got no Return and the connection is not shut down\nwire: " + wire
	}
	if len(out.sim.T.Contract) > 0 {
		return "transport-contract/" + normalize(out.sim.T.Contract[0]), "Transport contract violated by the Conn: " + strings.Join(out.sim.T.Contract, "; ") + "\nwire: " + wire
	}
	return "", ""
}

func retFailFamily(name string, cfg vsched.Config) vlib.Family {
	cases := rfcases()
	return vlib.Family{Name: name, N: int64(len(cases)),
		Describe: func(i int64) interface{} { return cases[i].String() },
		Run: func(i int64, r *vlib.Rec) {
			rc := cases[i]
			var out *outcome
			body := func() { out = &outcome{}; runRetFail(rc, out) }
			outcomes := map[string]bool{}
			knownSeen := map[string]bool{}
			st, f := vsched.Explore(cfg, body, func(vr *vsched.Result) string {
				key, msg := judgeRetFail(out, vr)
				if key != "" && vlib.KnownOpen("C08", key) {
					if !knownSeen[key] {
						knownSeen[key] = true
						r.Failf(key, "scenario %s\n%s", rc, msg)
					}
					return ""
				}
				if key != "" {
					return key + "\x00" + msg
				}
				outcomes[fmt.Sprintf("probe=%v reported=%d", out.probeAnswered, len(out.sim.W.Reported))] = true
				return ""
			})
			r.States += int64(len(st.Configs))
			r.Transitions += st.Steps
			r.Traces += st.Execs
			r.Note("executions", st.Execs)
			if st.Capped {
				r.Capped = true
			}
			for o := range outcomes {
				r.Outcome("release-races-return:" + o)
			}
			r.NonTrivial()
			if f != nil {
				if f.Engine {
					r.Failf("ENGINE:"+f.Msg, "%s", f.Msg)
					return
				}
				parts := strings.SplitN(f.Msg, "\x00", 2)
				rr := vsched.Replay(f.Choices, cfg.MaxSteps, body)
				r.Failf(parts[0], "scenario %s\n%s\nchoices %v\n%s", rc, parts[1], f.Choices, rr.Describe())
			}
		}}
}
