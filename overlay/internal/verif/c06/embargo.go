package main

// Embargo family of C06: the application passes a local capability L to the
// peer as a call parameter; the peer's Return carries L back (receiverHosted)
// at pointer 0 of the results.  Calls the application pipelined on that
// pointer before the Return arrived travel to the peer, which reflects them
// back to L; calls made on the resolved capability afterwards go to L
// directly but must not overtake the reflected ones: the Conn embargoes the
// resolved capability until its Disembargo has looped back through the peer.

import (
	"fmt"
	"strings"

	capnp "capnproto.org/go/capnp/v3"
	"capnproto.org/go/capnp/v3/internal/verif/rpcsim"
	"capnproto.org/go/capnp/v3/internal/verif/vlib"
	"capnproto.org/go/capnp/v3/internal/vsched"
	context "capnproto.org/go/capnp/v3/internal/vsched/vctx"
	rpccp "capnproto.org/go/capnp/v3/std/capnp/rpc"
)

type eprog struct {
	nPipe      int  // calls pipelined on the answer before it is awaited
	nDirect    int  // calls on the resolved capability afterwards
	lateReturn bool // the peer returns only after it has seen all pipelined calls
	viaProxy   bool // the later calls go through the pipelined client obtained before resolution
	noise      bool // a second application thread makes an unrelated call concurrently (sender-lock contention)
	window     int  // > 0: the transport accepts that many unread messages, then send blocks (sender lock held)
}

func (e eprog) String() string {
	return fmt.Sprintf("embargo pipe=%d direct=%d lateReturn=%v viaProxy=%v noise=%v window=%d", e.nPipe, e.nDirect, e.lateReturn, e.viaProxy, e.noise, e.window)
}

func eprogs() []eprog {
	var out []eprog
	for _, np := range []int{1, 2} {
		for _, nd := range []int{1, 2} {
			for _, late := range []bool{false, true} {
				for _, px := range []bool{false, true} {
					out = append(out, eprog{np, nd, late, px, false, 0})
					if np == 1 && nd == 1 {
						out = append(out, eprog{np, nd, late, px, true, 0})
						out = append(out, eprog{np, nd, late, px, true, 1})
					}
					if nd == 1 {
						out = append(out, eprog{np, nd, late, px, false, 1})
					}
				}
			}
		}
	}
	return out
}

type eoutcome struct {
	outcome
	results map[int]string
	problem string
}

func runEmbargo(ep eprog, out *eoutcome) {
	s := rpcsim.New(rpcsim.FaultPlan{}, false)
	out.sim = s
	out.closeAt = -1
	out.results = map[int]string{}
	p := s.NewPeer()
	s.T.Window = ep.window
	appDone := false
	vsched.GoNamed("peer", func() {
		var exportOfL uint32
		baseQ := uint32(0)
		haveBase := false
		returned := false
		pipesSeen := 0
		nextQ := uint32(1000)
		reflected := map[uint32]uint32{} // peer question -> Conn question
		maybeReturn := func() {
			if haveBase && !returned && (!ep.lateReturn || pipesSeen >= ep.nPipe) {
				returned = true
				p.ReturnResults(baseQ, 500, []rpcsim.CapD{{Kind: 'r', ID: exportOfL}}, false)
			}
		}
		for {
			m, ok := p.Next(func() bool { return appDone })
			if !ok {
				return
			}
			switch m.Msg.Which() {
			case rpccp.Message_Which_bootstrap:
				b, _ := m.Msg.Bootstrap()
				p.ReturnBootstrap(b.QuestionId(), rpcsim.CapD{Kind: 's', ID: 0})
			case rpccp.Message_Which_call:
				c, _ := m.Msg.Call()
				pl, _ := c.Params()
				cnt, _ := pl.Content()
				id := int(cnt.Struct().Uint32(0))
				if id == 520 {
					p.ReturnResults(c.QuestionId(), id, nil, false) // the unrelated call
					continue
				}
				if id == 500 {
					if l, err := pl.CapTable(); err == nil && l.Len() > 0 && l.At(0).Which() == rpccp.CapDescriptor_Which_senderHosted {
						exportOfL = l.At(0).SenderHosted()
					}
					baseQ, haveBase = c.QuestionId(), true
					maybeReturn()
					continue
				}
				// a call pipelined on the base answer's pointer 0: reflect it to L
				pipesSeen++
				qq := nextQ
				nextQ++
				reflected[qq] = c.QuestionId()
				p.Call(qq, rpcsim.Target{ID: exportOfL}, id, nil)
				maybeReturn()
			case rpccp.Message_Which_return:
				r, _ := m.Msg.Return()
				if q, ok := reflected[r.AnswerId()]; ok {
					id := -1
					if r.Which() == rpccp.Return_Which_results {
						pl, _ := r.Results()
						if cnt, err := pl.Content(); err == nil && cnt.Struct().IsValid() {
							id = int(cnt.Struct().Uint32(0))
						}
						p.ReturnResults(q, id, nil, false)
					} else {
						p.ReturnException(q, "reflected call failed")
					}
					p.Finish(r.AnswerId(), false)
				}
			case rpccp.Message_Which_disembargo:
				d, _ := m.Msg.Disembargo()
				if d.Context().Which() == rpccp.Disembargo_context_Which_senderLoopback {
					p.DisembargoReceiverLoopback(exportOfL, d.Context().SenderLoopback())
				}
			}
		}
	})
	ctx := context.Background()
	L := s.W.NewCap("L")
	bc := s.Conn.Bootstrap(ctx)
	mk := func(id uint32) capnp.Send {
		return capnp.Send{Method: capnp.Method{InterfaceID: rpcsim.IfaceID, MethodID: rpcsim.MethodEcho}, ArgsSize: capnp.ObjectSize{DataSize: 8, PointerCount: 1},
			PlaceArgs: func(a capnp.Struct) error { a.SetUint32(0, id); return nil }}
	}
	base := mk(500)
	base.PlaceArgs = func(a capnp.Struct) error {
		a.SetUint32(0, 500)
		cid := a.Message().AddCap(L.AddRef())
		return a.SetPtr(0, capnp.NewInterface(a.Segment(), cid).ToPtr())
	}
	a1, r1 := bc.SendCall(ctx, base)
	noiseDone := !ep.noise
	if ep.noise {
		vsched.GoNamed("noise", func() {
			ans, rel := bc.SendCall(ctx, mk(520))
			if rs, err := ans.Struct(); err != nil || rs.Uint32(0) != 520 {
				out.problem = fmt.Sprintf("unrelated call 520 failed: %v", err)
			}
			rel()
			noiseDone = true
		})
	}
	var proxy *capnp.Client
	if ep.viaProxy {
		proxy = a1.Field(0, nil).Client()
	}
	type pend struct {
		id  int
		ans *capnp.Answer
		rel capnp.ReleaseFunc
	}
	var pending []pend
	for i := 0; i < ep.nPipe; i++ {
		id := 501 + i
		ans, rel := a1.PipelineSend(ctx, []capnp.PipelineOp{{Field: 0}}, mk(uint32(id)))
		pending = append(pending, pend{id, ans, rel})
	}
	st, err := a1.Struct()
	if err != nil {
		out.problem = "base call failed: " + err.Error()
	} else {
		var c *capnp.Client
		if ep.viaProxy {
			c = proxy
		} else {
			ptr, _ := st.Ptr(0)
			c = ptr.Interface().Client()
		}
		for j := 0; j < ep.nDirect; j++ {
			id := 510 + j
			ans, rel := c.SendCall(ctx, mk(uint32(id)))
			pending = append(pending, pend{id, ans, rel})
		}
	}
	for _, pe := range pending {
		rs, err := pe.ans.Struct()
		if err != nil {
			out.results[pe.id] = "exc:" + err.Error()
		} else {
			out.results[pe.id] = fmt.Sprint(rs.Uint32(0))
		}
	}
	for _, pe := range pending {
		pe.rel()
	}
	r1()
	vsched.WaitUntil("noise", func() bool { return noiseDone })
	bc.Release()
	L.Release()
	vsched.WaitQuiescent()
	appDone = true
	out.closeAt = len(s.T.Wire)
	out.closeErr = s.Conn.Close()
	out.mainDone = true
}

func judgeEmbargo(ep eprog, out *eoutcome, vr *vsched.Result) (string, string) {
	if k, m := common(&out.outcome, vr); k != "" {
		return k, m
	}
	wire := wireOf(&out.outcome)
	if out.problem != "" {
		return "embargo/base-call", out.problem + "\nwire: " + wire
	}
	var want []int
	for i := 0; i < ep.nPipe; i++ {
		want = append(want, 501+i)
	}
	for j := 0; j < ep.nDirect; j++ {
		want = append(want, 510+j)
	}
	for _, id := range want {
		if out.results[id] != fmt.Sprint(id) {
			return "embargo/result", fmt.Sprintf("call %d: got %q, want its echo\nwire: %s", id, out.results[id], wire)
		}
	}
	var got []int
	for _, e := range out.sim.W.Ev {
		if e.Kind == "start" && e.Cap == "L" {
			got = append(got, e.ID)
		}
	}
	if fmt.Sprint(got) != fmt.Sprint(want) {
		// classify: was a pipelined call put on the wire after the Return of
		// the call it is pipelined on had already been received?
		retAt := -1
		late := false
		for i, m := range out.sim.T.Wire {
			if !m.Msg.IsValid() {
				continue
			}
			if !m.ToPeer && m.Msg.Which() == rpccp.Message_Which_return {
				r, _ := m.Msg.Return()
				if pl, err := r.Results(); err == nil {
					if l, err := pl.CapTable(); err == nil && l.Len() > 0 && l.At(0).Which() == rpccp.CapDescriptor_Which_receiverHosted {
						retAt = i
					}
				}
			}
			if m.ToPeer && m.Msg.Which() == rpccp.Message_Which_call && retAt >= 0 {
				c, _ := m.Msg.Call()
				if t, err := c.Target(); err == nil && t.Which() == rpccp.MessageTarget_Which_promisedAnswer {
					late = true
				}
			}
		}
		if late {
			// The recorded open finding needs two deviations from the default
			// schedule (the PipelineSend has to be preempted between marking
			// its path and sending, and the Return handled in between); the
			// same symptom inside one deviation is a different violation.
			dev := 0
			for _, d := range vr.Decisions {
				if d.Chosen != 0 {
					dev++
				}
			}
			key := "embargo/order/pipelined-call-sent-after-return"
			if dev < 2 {
				key += "/within-1-deviation"
			}
			return key, fmt.Sprintf("the local capability saw calls in order %v; they were made in order %v: a pipelined call that started before the Return was handled (and was therefore not covered by an embargo) was sent to the peer after the Return, and a later call on the resolved capability overtook it\nwire: %s", got, want, wire)
		}
		return "embargo/order", fmt.Sprintf("the local capability saw calls in order %v; they were made in order %v (calls pipelined before the Return must not be overtaken by calls made on the resolved capability)\nwire: %s", got, want, wire)
	}
	for i, m := range out.sim.T.Wire {
		if m.ToPeer && m.Msg.IsValid() && m.Msg.Which() == rpccp.Message_Which_abort && i < out.closeAt {
			return "abort-on-valid-traffic", "the Conn aborted on well-formed traffic\nwire: " + wire + "\nreported: " + strings.Join(out.sim.W.Reported, " | ")
		}
	}
	return "", ""
}

func embargoFamily(name string, cfg vsched.Config) vlib.Family {
	eps := eprogs()
	return vlib.Family{Name: name, N: int64(len(eps)),
		Describe: func(i int64) interface{} { return eps[i].String() },
		Run: func(i int64, r *vlib.Rec) {
			ep := eps[i]
			var out *eoutcome
			explore("C06", r, cfg, ep.String(), func() { out = &eoutcome{}; runEmbargo(ep, out) },
				func(vr *vsched.Result) (string, string) { return judgeEmbargo(ep, out, vr) },
				func() string { return wireKinds(&out.outcome) })
		}}
}
