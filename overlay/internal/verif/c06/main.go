// C06 — every RPC call gets exactly one correct return, in order, with pipelining.
//
// Engine E2 on the real rpc.Conn over rpcsim's scheduler-aware transport.
// Family "peer-calls": every well-formed peer script of length <= L over
// {Bootstrap, Call on the bootstrap import (after its Return was seen), Call
// pipelined on any unfinished question (returned or not), Finish with either
// releaseResultCaps value}, with call behaviours {return at once, ack+gate,
// ack+gate+return a new capability, ack+gate+error}; a gatekeeper thread opens
// the gates; the script ends by collecting every Return and finishing every
// question, then Close.  Family "conn-calls": application threads bootstrap,
// call and pipeline through the Conn while a scripted responder peer answers
// in issue or reverse order.  Every schedule inside the bounds is executed.
package main

import (
	"fmt"
	"strings"
	"time"

	capnp "capnproto.org/go/capnp/v3"
	"capnproto.org/go/capnp/v3/internal/verif/rpcsim"
	"capnproto.org/go/capnp/v3/internal/verif/vlib"
	"capnproto.org/go/capnp/v3/internal/vsched"
	context "capnproto.org/go/capnp/v3/internal/vsched/vctx"
	rpccp "capnproto.org/go/capnp/v3/std/capnp/rpc"
)

// ---- peer-as-caller scripts ----

type step struct {
	wait    int  // 'I': bootstrap question whose Return makes import 0 known
	kind    byte // 'B' bootstrap, 'I' call on import 0, 'P' pipelined call, 'F' finish
	q       int  // question id opened / finished
	base    int  // 'P': question pipelined on
	mode    int
	relCaps bool
}

type qinfo struct {
	boot bool
	mode int
	base int  // -2: import0, >=0: pipelined on that question, -1: bootstrap
	path bool // pipelined with transform [0]
}

type script struct {
	steps []step
	qs    []qinfo
	// late: the gatekeeper opens each gate only once nothing else can run, so
	// that every call stays unreturned as long as possible (the early keeper
	// opens gates at an arbitrary scheduling point, by default at once)
	late bool
}

var modeNames = map[int]string{rpcsim.ModeReturn: "ret", rpcsim.ModeAckGate: "ack+gate", rpcsim.ModeCap: "cap", rpcsim.ModeError: "error", rpcsim.ModeGate: "gate"}

func (s script) String() string {
	var parts []string
	if s.late {
		parts = append(parts, "[late gates]")
	}
	for _, st := range s.steps {
		switch st.kind {
		case 'B':
			parts = append(parts, fmt.Sprintf("Bootstrap(q%d)", st.q))
		case 'I':
			parts = append(parts, fmt.Sprintf("Call(q%d,import0,%s)", st.q, modeNames[st.mode]))
		case 'P':
			parts = append(parts, fmt.Sprintf("Call(q%d,answer%d,%s)", st.q, st.base, modeNames[st.mode]))
		case 'F':
			parts = append(parts, fmt.Sprintf("Finish(q%d,rel=%v)", st.q, st.relCaps))
		}
	}
	return strings.Join(parts, " ; ")
}

func scripts(maxLen int, modes []int) []script {
	var out []script
	var rec func(cur script, finished map[int]bool)
	relFin := func(cur script) map[int]bool {
		m := map[int]bool{}
		for _, st := range cur.steps {
			if st.kind == 'F' && st.relCaps {
				m[st.q] = true
			}
		}
		return m
	}
	rec = func(cur script, finished map[int]bool) {
		if len(cur.steps) > 0 {
			cp := script{steps: append([]step{}, cur.steps...), qs: append([]qinfo{}, cur.qs...)}
			out = append(out, cp)
		}
		if len(cur.steps) == maxLen {
			return
		}
		next := len(cur.qs)
		// Bootstrap
		{
			n := cur
			n.steps = append(append([]step{}, cur.steps...), step{kind: 'B', q: next})
			n.qs = append(append([]qinfo{}, cur.qs...), qinfo{boot: true, base: -1})
			rec(n, finished)
		}
		hasBoot := false
		usable := -1 // a bootstrap whose reference to export 0 the peer still holds
		rf := relFin(cur)
		for q, qi := range cur.qs {
			if qi.boot {
				hasBoot = true
				if usable < 0 && !rf[q] {
					usable = q
				}
			}
		}
		if !hasBoot {
			return // nothing else is well-formed before a bootstrap
		}
		for _, m := range modes {
			if usable < 0 {
				break
			}
			n := cur
			n.steps = append(append([]step{}, cur.steps...), step{kind: 'I', q: next, mode: m, wait: usable})
			n.qs = append(append([]qinfo{}, cur.qs...), qinfo{mode: m, base: -2})
			rec(n, finished)
		}
		for b, qi := range cur.qs {
			if finished[b] {
				continue
			}
			for _, m := range modes {
				n := cur
				n.steps = append(append([]step{}, cur.steps...), step{kind: 'P', q: next, base: b, mode: m})
				n.qs = append(append([]qinfo{}, cur.qs...), qinfo{mode: m, base: b, path: !qi.boot})
				rec(n, finished)
			}
		}
		for b := range cur.qs {
			if finished[b] {
				continue
			}
			for _, rel := range []bool{false, true} {
				n := cur
				n.steps = append(append([]step{}, cur.steps...), step{kind: 'F', q: b, relCaps: rel})
				f2 := map[int]bool{}
				for k, v := range finished {
					f2[k] = v
				}
				f2[b] = true
				rec(n, f2)
			}
		}
	}
	rec(script{}, map[int]bool{})
	// every script with a gated call also runs with the late gatekeeper
	n := len(out)
	for i := 0; i < n; i++ {
		gatedCall := false
		for _, qi := range out[i].qs {
			if !qi.boot && qi.mode != rpcsim.ModeReturn {
				gatedCall = true
			}
		}
		if gatedCall {
			l := out[i]
			l.late = true
			out = append(out, l)
		}
	}
	return out
}

// chainScripts: Bootstrap; call on import 0; a call pipelined on it; a call
// pipelined on that pipelined call (three levels), every mode combination,
// early and late gatekeeper.
func chainScripts() []script {
	var out []script
	modes := []int{rpcsim.ModeReturn, rpcsim.ModeAckGate, rpcsim.ModeCap}
	for _, m1 := range []int{rpcsim.ModeCap, rpcsim.ModeAckGate} {
		for _, m2 := range modes {
			for _, m3 := range modes {
				for _, late := range []bool{false, true} {
					sc := script{late: late}
					sc.steps = []step{{kind: 'B', q: 0}, {kind: 'I', q: 1, mode: m1, wait: 0}, {kind: 'P', q: 2, base: 1, mode: m2}, {kind: 'P', q: 3, base: 2, mode: m3}}
					sc.qs = []qinfo{{boot: true, base: -1}, {mode: m1, base: -2}, {mode: m2, base: 1, path: true}, {mode: m3, base: 2, path: true}}
					out = append(out, sc)
				}
			}
		}
	}
	return out
}

type outcome struct {
	closeAt   int // wire length when the harness called Close (-1: not yet)
	sim       *rpcsim.Sim
	mainDone  bool
	closeErr  error
	gotReturn map[int]bool
	probeAt   int   // wire length when the peer started re-using question ids (-1: never)
	probed    []int // question ids re-used by a fresh Bootstrap, in order
}

func callID(q int) int { return 100 + q }

func runScript(sc script, out *outcome) {
	out.closeAt = -1
	out.probeAt = -1
	s := rpcsim.New(rpcsim.FaultPlan{}, true)
	out.sim = s
	out.gotReturn = map[int]bool{}
	p := s.NewPeer()
	peerDone, keeperDone := false, false
	var gated []int
	for q, qi := range sc.qs {
		if !qi.boot {
			s.W.Mode[callID(q)] = qi.mode
			if qi.mode != rpcsim.ModeReturn {
				gated = append(gated, callID(q))
			}
		}
	}
	vsched.GoNamed("keeper", func() {
		for _, id := range gated {
			if sc.late {
				vsched.WaitQuiescent()
			} else {
				vsched.Point("open-gate")
			}
			s.W.Gate[id] = true
		}
		keeperDone = true
	})
	vsched.GoNamed("peer", func() {
		finished := map[int]bool{}
		firstBoot := -1
		for _, st := range sc.steps {
			switch st.kind {
			case 'B':
				if firstBoot < 0 {
					firstBoot = st.q
				}
				p.Bootstrap(uint32(st.q))
			case 'I':
				// import 0 is known only once the bootstrap Return has arrived
				if _, ok := p.WaitReturn(uint32(st.wait)); !ok {
					peerDone = true
					return
				}
				p.Call(uint32(st.q), rpcsim.Target{ID: 0}, callID(st.q), nil)
			case 'P':
				tg := rpcsim.Target{Promised: true, ID: uint32(st.base)}
				if sc.qs[st.q].path {
					tg.Path = []uint16{0}
				}
				p.Call(uint32(st.q), tg, callID(st.q), nil)
			case 'F':
				p.Finish(uint32(st.q), st.relCaps)
				finished[st.q] = true
			}
		}
		for q := range sc.qs {
			_, ok := p.WaitReturn(uint32(q))
			out.gotReturn[q] = ok
			if !ok {
				break
			}
			if !finished[q] {
				p.Finish(uint32(q), false)
			}
		}
		// Every question has been answered and finished, so its id is free
		// again: the peer re-uses the id of every question it finished by a
		// script step (the Finish may have raced with the Return) for a
		// fresh Bootstrap, which must be answered like any other.
		allOK := true
		for q := range sc.qs {
			if !out.gotReturn[q] {
				allOK = false
			}
		}
		if allOK {
			out.probeAt = len(s.T.Wire)
			for _, st := range sc.steps {
				if st.kind != 'F' {
					continue
				}
				from := len(s.T.Wire)
				out.probed = append(out.probed, st.q)
				p.Bootstrap(uint32(st.q))
				vsched.WaitUntil(fmt.Sprintf("probe-return%d", st.q), func() bool {
					return s.T.Closed || returnAfter(s, from, uint32(st.q))
				})
				if !returnAfter(s, from, uint32(st.q)) {
					break
				}
				p.Finish(uint32(st.q), true)
			}
		}
		peerDone = true
	})
	vsched.WaitUntil("peer done", func() bool { return peerDone && keeperDone })
	out.closeAt = len(s.T.Wire)
	out.closeErr = s.Conn.Close()
	out.mainDone = true
}

// returnAfter reports whether a Return for answer id q was sent at wire
// position >= from.
func returnAfter(s *rpcsim.Sim, from int, q uint32) bool {
	for i := from; i < len(s.T.Wire); i++ {
		m := s.T.Wire[i]
		if m.ToPeer && m.Msg.IsValid() && m.Msg.Which() == rpccp.Message_Which_return {
			if r, err := m.Msg.Return(); err == nil && r.AnswerId() == q {
				return true
			}
		}
	}
	return false
}

func wireOf(out *outcome) string {
	if out.sim == nil {
		return ""
	}
	return out.sim.T.WireString()
}

func common(out *outcome, vr *vsched.Result) (string, string) {
	wire := wireOf(out)
	if len(vr.Panics) > 0 {
		first := strings.SplitN(vr.Panics[0], "\n", 2)[0]
		return "panic/" + norm(first), "panic in a controlled goroutine: " + vr.Panics[0] + "\nwire: " + wire
	}
	if vr.Livelock {
		return "livelock", "step limit reached\nwire: " + wire
	}
	if vr.Deadlocked() {
		return "deadlock/" + blockedSig(vr.Blocked), "threads blocked forever: " + strings.Join(vr.Blocked, " | ") + "\nwire: " + wire + "\nreported: " + strings.Join(out.sim.W.Reported, " | ")
	}
	if !out.mainDone {
		return "incomplete", "scenario did not run to completion\nwire: " + wire
	}
	if len(out.sim.T.Contract) > 0 {
		return "transport-contract/" + norm(out.sim.T.Contract[0]), "Transport contract violated by the Conn: " + strings.Join(out.sim.T.Contract, "; ") + "\nwire: " + wire
	}
	return "", ""
}

type retInfo struct {
	count     int
	exception bool
	reason    string
	id        int
	caps      string
	pos       int
}

func judgeScript(sc script, out *outcome, vr *vsched.Result) (string, string) {
	if k, m := common(out, vr); k != "" {
		return k, m
	}
	wire := wireOf(out)
	W := out.sim.W
	// Abort on well-formed traffic is a violation
	rets := map[uint32]*retInfo{}
	finishPos := map[int]int{}
	probeRets := map[uint32]int{}
	for i, m := range out.sim.T.Wire {
		if !m.Msg.IsValid() {
			continue
		}
		inProbe := out.probeAt >= 0 && i >= out.probeAt
		if !m.ToPeer {
			if m.Msg.Which() == rpccp.Message_Which_finish && !inProbe {
				f, _ := m.Msg.Finish()
				finishPos[int(f.QuestionId())] = i
			}
			continue
		}
		if inProbe && m.Msg.Which() == rpccp.Message_Which_return {
			r, _ := m.Msg.Return()
			ok := false
			if r.Which() == rpccp.Return_Which_results {
				if pl, err := r.Results(); err == nil {
					if l, err := pl.CapTable(); err == nil && l.Len() == 1 {
						ok = true
					}
				}
			}
			if !ok {
				return "reused-id/bootstrap-return", fmt.Sprintf("Bootstrap re-using the finished question id %d was not answered with the bootstrap capability\nwire: %s", r.AnswerId(), wire)
			}
			probeRets[r.AnswerId()]++
			continue
		}
		switch m.Msg.Which() {
		case rpccp.Message_Which_abort:
			if out.closeAt >= 0 && i >= out.closeAt {
				continue // the abort that Close itself sends
			}
			return "abort-on-valid-traffic", "the Conn aborted on well-formed traffic: " + rpcsim.DescribeMsg(m.Msg) + "\nwire: " + wire + "\nreported: " + strings.Join(W.Reported, " | ")
		case rpccp.Message_Which_return:
			r, _ := m.Msg.Return()
			ri := rets[r.AnswerId()]
			if ri == nil {
				ri = &retInfo{pos: i}
				rets[r.AnswerId()] = ri
			}
			ri.count++
			switch r.Which() {
			case rpccp.Return_Which_results:
				pl, _ := r.Results()
				if c, err := pl.Content(); err == nil && c.Struct().IsValid() {
					ri.id = int(c.Struct().Uint32(0))
				} else {
					ri.id = -1
				}
				if l, err := pl.CapTable(); err == nil {
					ri.caps = fmt.Sprint(l.Len())
				}
			case rpccp.Return_Which_exception:
				ri.exception = true
				e, _ := r.Exception()
				ri.reason, _ = e.Reason()
			default:
				return "return-kind", fmt.Sprintf("Return(a%d) of unexpected kind %v\nwire: %s", r.AnswerId(), r.Which(), wire)
			}
		case rpccp.Message_Which_unimplemented:
			return "unimplemented-on-valid-traffic", "the Conn answered Unimplemented to well-formed traffic\nwire: " + wire
		}
	}
	if out.probeAt >= 0 {
		for _, q := range out.probed {
			if probeRets[uint32(q)] != 1 {
				return "reused-id/return-count", fmt.Sprintf("the peer re-used question id %d (answered and finished before) for a Bootstrap and got %d Returns for it\nwire: %s\nreported: %s", q, probeRets[uint32(q)], wire, strings.Join(W.Reported, " | "))
			}
		}
		for a, n := range probeRets {
			found := false
			for _, q := range out.probed {
				if uint32(q) == a {
					found = true
				}
			}
			if !found {
				return "return-unasked", fmt.Sprintf("%d Return(s) for answer id %d after every question had been answered\nwire: %s", n, a, wire)
			}
		}
	}
	for a, ri := range rets {
		if int(a) >= len(sc.qs) {
			return "return-unasked", fmt.Sprintf("Return for answer id %d which the peer never asked\nwire: %s", a, wire)
		}
		if ri.count > 1 {
			return "return-twice", fmt.Sprintf("%d Returns for answer id %d\nwire: %s", ri.count, a, wire)
		}
	}
	started := map[int]string{}
	startPos := map[int]int{}
	for i, e := range W.Ev {
		if e.Kind == "start" {
			if _, dup := started[e.ID]; dup {
				return "delivered-twice", fmt.Sprintf("call %d delivered to the application twice\nwire: %s", e.ID, wire)
			}
			started[e.ID] = e.Cap
			startPos[e.ID] = i
		}
	}
	for q, qi := range sc.qs {
		ri := rets[uint32(q)]
		if ri == nil {
			return "return-missing", fmt.Sprintf("no Return for question %d (%s)\nwire: %s\nevents: %v\nreported: %s", q, sc, wire, W.Ev, strings.Join(W.Reported, " | "))
		}
		if qi.boot {
			if ri.exception || ri.caps != "1" {
				return "bootstrap-return", fmt.Sprintf("Bootstrap(q%d) answered with exception=%v caps=%s\nwire: %s", q, ri.exception, ri.caps, wire)
			}
			continue
		}
		id := callID(q)
		// where must the call go?
		want := ""
		baseFailed := false
		switch {
		case qi.base == -2:
			want = "boot"
		case sc.qs[qi.base].boot:
			want = "boot"
		case sc.qs[qi.base].mode == rpcsim.ModeCap:
			want = fmt.Sprintf("child%d", callID(qi.base))
			if b := rets[uint32(qi.base)]; b != nil && b.exception {
				baseFailed = true
			}
		default:
			want = "" // the base result has no capability at pointer 0
		}
		finEarly := false
		if fp, ok := finishPos[q]; ok && fp < ri.pos {
			finEarly = true
		}
		got, wasStarted := started[id]
		if want == "" || baseFailed {
			if wasStarted {
				return "phantom-delivery", fmt.Sprintf("call q%d (id %d) has no valid target but was delivered to %s\nwire: %s", q, id, got, wire)
			}
			if !ri.exception {
				return "return-content", fmt.Sprintf("call q%d on a target without capability returned results\nwire: %s", q, wire)
			}
			continue
		}
		if wasStarted && got != want {
			return "wrong-capability", fmt.Sprintf("call q%d (id %d) delivered to %s, want %s\nwire: %s", q, id, got, want, wire)
		}
		if !wasStarted {
			// legal only if it was cancelled by an early Finish (its own, or
			// one that cancelled the call it was pipelined on)
			if !ri.exception {
				return "return-without-delivery", fmt.Sprintf("call q%d returned results but never reached the application\nwire: %s", q, wire)
			}
			if !finEarly && !anyEarlyFinish(sc, q, finishPos, rets) {
				if strings.Contains(ri.reason, "call on null client") && qi.base >= 0 && sc.qs[qi.base].mode == rpcsim.ModeCap {
					return "call-dropped/null-client-in-return-window", fmt.Sprintf("call q%d pipelined on q%d (which returns a capability) arrived between the application's return and the Return message and was answered %q instead of being delivered to %s\nwire: %s", q, qi.base, ri.reason, want, wire)
				}
				return "call-dropped", fmt.Sprintf("call q%d (id %d) was never delivered to %s and got exception %q although nothing cancelled it\nwire: %s\nevents: %v", q, id, want, ri.reason, wire, W.Ev)
			}
			continue
		}
		wantExc := qi.mode == rpcsim.ModeError
		cancelled := false
		for _, e := range W.Ev {
			if e.Kind == "cancelled" && e.ID == id {
				cancelled = true
			}
		}
		if cancelled {
			if !finEarly && !anyEarlyFinish(sc, q, finishPos, rets) {
				return "spurious-cancel", fmt.Sprintf("call q%d saw its context cancelled although no Finish preceded its Return\nwire: %s", q, wire)
			}
			wantExc = true
		}
		if ri.exception != wantExc {
			return "return-content", fmt.Sprintf("call q%d (id %d, %s): Return exception=%v (%q), want exception=%v\nwire: %s", q, id, modeNames[qi.mode], ri.exception, ri.reason, wantExc, wire)
		}
		if !ri.exception && ri.id != id {
			return "return-content", fmt.Sprintf("call q%d: Return carries result %d, want echo %d\nwire: %s", q, ri.id, id, wire)
		}
	}
	// order per capability == send order
	lastPos := map[string]int{}
	lastQ := map[string]int{}
	for q, qi := range sc.qs {
		if qi.boot {
			continue
		}
		id := callID(q)
		cap, ok := started[id]
		if !ok {
			continue
		}
		if lp, seen := lastPos[cap]; seen && startPos[id] < lp {
			return "order", fmt.Sprintf("calls on %s delivered out of order: q%d (sent later) started before q%d\nwire: %s\nevents: %v", cap, q, lastQ[cap], wire, W.Ev)
		}
		lastPos[cap] = startPos[id]
		lastQ[cap] = q
	}
	return "", ""
}

// anyEarlyFinish reports whether q or an ancestor it is pipelined on was
// finished before its own Return.
func anyEarlyFinish(sc script, q int, finishPos map[int]int, rets map[uint32]*retInfo) bool {
	for q >= 0 {
		if fp, ok := finishPos[q]; ok {
			if ri := rets[uint32(q)]; ri == nil || fp < ri.pos {
				return true
			}
		}
		b := sc.qs[q].base
		if b < 0 {
			return false
		}
		q = b
	}
	return false
}

// ---- conn-as-caller programs ----

type cprog struct {
	ops     []int // app ops
	reverse bool  // responder answers calls in reverse order once all have arrived
	except  int   // index of the call answered with an exception (-1 none)
}

const (
	aCallDirect = iota // call on the bootstrap client
	aCallPipe          // call pipelined on the latest call's answer, pointer 0
	aReleaseAns        // release the latest answer
	aCancelLast        // cancel the latest call's context and wait for its answer
	nAppOps
)

var appOpNames = []string{"boot.Call", "ans.Pipe[0]", "ans.Release", "cancel(latest)"}

func (c cprog) String() string {
	var s []string
	for _, o := range c.ops {
		s = append(s, appOpNames[o])
	}
	return fmt.Sprintf("app[%s] reverse=%v except=%d", strings.Join(s, "; "), c.reverse, c.except)
}

func cprogs(maxLen int) []cprog {
	var out []cprog
	var rec func(cur []int)
	rec = func(cur []int) {
		if len(cur) > 0 {
			calls := 0
			for _, o := range cur {
				if o == aCallDirect || o == aCallPipe {
					calls++
				}
			}
			for _, rev := range []bool{false, true} {
				for ex := -1; ex < calls; ex++ {
					if rev && calls < 2 {
						continue
					}
					if rev {
						// the reverse responder answers only after the last call
						// arrived, so no release (which waits) may precede a call
						bad, seenRel := false, false
						for _, o := range cur {
							if o == aReleaseAns {
								seenRel = true
							} else if seenRel && o != aCancelLast {
								bad = true
							}
						}
						if bad {
							continue
						}
					}
					out = append(out, cprog{ops: append([]int{}, cur...), reverse: rev, except: ex})
				}
			}
		}
		if len(cur) == maxLen {
			return
		}
		for o := 0; o < nAppOps; o++ {
			if o != aCallDirect {
				has := false
				for _, x := range cur {
					if x == aCallDirect || x == aCallPipe {
						has = true
					}
				}
				if !has {
					continue
				}
			}
			rec(append(cur, o))
		}
	}
	rec(nil)
	return out
}

type coutcome struct {
	cancelled map[int]bool
	outcome
	results []string // per app call: "id" or "exc:..."
	nCalls  int
}

func runConnProg(cp cprog, out *coutcome) {
	out.closeAt = -1
	s := rpcsim.New(rpcsim.FaultPlan{}, false)
	out.sim = s
	p := s.NewPeer()
	nCalls := 0
	for _, o := range cp.ops {
		if o == aCallDirect || o == aCallPipe {
			nCalls++
		}
	}
	out.nCalls = nCalls
	out.cancelled = map[int]bool{}
	out.results = make([]string, nCalls)
	appDone := false
	// responder peer
	issuedAll := false
	vsched.GoNamed("peer", func() {
		var pending []rpccp.Call
		flushed := false
		reply := func(c rpccp.Call) {
			pl, _ := c.Params()
			cnt, _ := pl.Content()
			id := int(cnt.Struct().Uint32(0))
			if id-500 == cp.except {
				p.ReturnException(c.QuestionId(), fmt.Sprintf("boom%d", id))
			} else {
				p.ReturnResults(c.QuestionId(), id, nil, false)
			}
		}
		for {
			m, ok := p.Next(func() bool { return appDone || (cp.reverse && issuedAll && !flushed) })
			if !ok {
				if cp.reverse && issuedAll && !flushed {
					// the application has issued everything it is going to:
					// answer what arrived, latest first
					flushed = true
					for i := len(pending) - 1; i >= 0; i-- {
						reply(pending[i])
					}
					continue
				}
				return
			}
			switch m.Msg.Which() {
			case rpccp.Message_Which_bootstrap:
				b, _ := m.Msg.Bootstrap()
				p.ReturnBootstrap(b.QuestionId(), rpcsim.CapD{Kind: 's', ID: 0})
			case rpccp.Message_Which_call:
				c, _ := m.Msg.Call()
				if cp.reverse && !flushed {
					pending = append(pending, c)
				} else {
					reply(c)
				}
			}
		}
	})
	// application
	ctx := context.Background()
	bc := s.Conn.Bootstrap(ctx)
	var answers []*capnp.Answer
	var rels []capnp.ReleaseFunc
	released := map[int]bool{}
	k := 0
	var cancels []context.CancelFunc
	var cctx context.Context
	send := func(f func(capnp.Send) (*capnp.Answer, capnp.ReleaseFunc)) {
		var cancel context.CancelFunc
		cctx, cancel = context.WithCancel(ctx)
		cancels = append(cancels, cancel)
		id := uint32(500 + k)
		ans, rel := f(capnp.Send{Method: capnp.Method{InterfaceID: rpcsim.IfaceID, MethodID: rpcsim.MethodEcho}, ArgsSize: capnp.ObjectSize{DataSize: 8},
			PlaceArgs: func(a capnp.Struct) error { a.SetUint32(0, id); return nil }})
		answers = append(answers, ans)
		rels = append(rels, rel)
		k++
	}
	lastCall := -1
	for i, o := range cp.ops {
		if o == aCallDirect || o == aCallPipe {
			lastCall = i
		}
	}
	for oi, o := range cp.ops {
		if oi == lastCall+1 {
			issuedAll = true // (a release after the last call waits for its answer)
		}
		switch o {
		case aCallDirect:
			send(func(sd capnp.Send) (*capnp.Answer, capnp.ReleaseFunc) { return bc.SendCall(cctx, sd) })
		case aCallPipe:
			last := answers[len(answers)-1]
			send(func(sd capnp.Send) (*capnp.Answer, capnp.ReleaseFunc) {
				return last.PipelineSend(cctx, []capnp.PipelineOp{{Field: 0}}, sd)
			})
		case aCancelLast:
			i := len(answers) - 1
			out.cancelled[i] = true
			cancels[i]()
			if out.results[i] == "" {
				st, err := answers[i].Struct()
				out.results[i] = classifyResult(st, err)
			}
		case aReleaseAns:
			i := len(answers) - 1
			if !released[i] {
				// the release function waits for the answer, so collect it first
				st, err := answers[i].Struct()
				out.results[i] = classifyResult(st, err)
				rels[i]()
				released[i] = true
			}
		}
	}
	issuedAll = true
	for i, ans := range answers {
		if out.results[i] == "" {
			st, err := ans.Struct()
			out.results[i] = classifyResult(st, err)
		}
	}
	for i, rel := range rels {
		if !released[i] {
			rel()
		}
	}
	for _, c := range cancels {
		c()
	}
	bc.Release()
	appDone = true
	out.closeAt = len(s.T.Wire)
	out.closeErr = s.Conn.Close()
	out.mainDone = true
}

func classifyResult(st capnp.Struct, err error) string {
	if err != nil {
		return "exc:" + err.Error()
	}
	return fmt.Sprint(st.Uint32(0))
}

func judgeConn(cp cprog, out *coutcome, vr *vsched.Result) (string, string) {
	if k, m := common(&out.outcome, vr); k != "" {
		return k, m
	}
	wire := wireOf(&out.outcome)
	// which app call is pipelined on what
	type cinfo struct{ base int }
	var calls []cinfo
	last := -1
	for _, o := range cp.ops {
		switch o {
		case aCallDirect:
			calls = append(calls, cinfo{-1})
			last = len(calls) - 1
		case aCallPipe:
			calls = append(calls, cinfo{last})
			last = len(calls) - 1
		}
	}
	localNull := map[int]bool{}
	cancelledUnsent := map[int]bool{}
	for i, m := range out.sim.T.Wire {
		if m.ToPeer && m.Msg.IsValid() && m.Msg.Which() == rpccp.Message_Which_abort && (out.closeAt < 0 || i < out.closeAt) {
			e, _ := m.Msg.Abort()
			rs, _ := e.Reason()
			return "abort-on-valid-traffic", "the Conn aborted on well-formed traffic: " + rs + "\nwire: " + wire + "\nreported: " + strings.Join(out.sim.W.Reported, " | ")
		}
	}
	for i, r := range out.results {
		id := fmt.Sprint(500 + i)
		wantExc := i == cp.except
		if out.cancelled[i] && strings.Contains(r, "context canceled") {
			localNull[i] = true // (it was sent, or not, before the cancellation took effect)
			cancelledUnsent[i] = true
			continue
		}
		// ancestors in the pipeline chain (a call pipelined on a call that
		// failed or was cancelled fails with that call's error, transitively)
		ancCancelled, ancFailed := false, false
		for b := calls[i].base; b >= 0; b = calls[b].base {
			if out.cancelled[b] {
				ancCancelled = true
			}
			if b == cp.except && strings.Contains(r, fmt.Sprintf("boom%d", 500+b)) {
				ancFailed = true
			}
		}
		if ancCancelled && strings.HasPrefix(r, "exc:") {
			localNull[i] = true // pipelined on a cancelled call: fails with its error
			cancelledUnsent[i] = true
			continue
		}
		if calls[i].base >= 0 && strings.Contains(r, "null client") {
			// The responder's results carry no capability, so a call
			// pipelined on an answer that has already arrived is resolved
			// locally to the null capability and never sent.
			localNull[i] = true
			continue
		}
		if ancFailed {
			localNull[i] = true // pipelined on a call that failed: fails with its error
			continue
		}
		if wantExc {
			if !strings.HasPrefix(r, "exc:") || !strings.Contains(r, "boom"+id) {
				return "local-result", fmt.Sprintf("call %d: want the peer's exception boom%s, got %q\nwire: %s", i, id, r, wire)
			}
		} else if r != id {
			return "local-result", fmt.Sprintf("call %d: want the peer's result %s, got %q\nwire: %s", i, id, r, wire)
		}
	}
	// question-id discipline on the wire
	inUse := map[uint32]bool{}
	for _, m := range out.sim.T.Wire {
		if !m.ToPeer || !m.Msg.IsValid() {
			continue
		}
		switch m.Msg.Which() {
		case rpccp.Message_Which_bootstrap:
			b, _ := m.Msg.Bootstrap()
			if inUse[b.QuestionId()] {
				return "question-id-reuse", fmt.Sprintf("question id %d reused before its Finish was sent\nwire: %s", b.QuestionId(), wire)
			}
			inUse[b.QuestionId()] = true
		case rpccp.Message_Which_call:
			c, _ := m.Msg.Call()
			if inUse[c.QuestionId()] {
				return "question-id-reuse", fmt.Sprintf("question id %d reused before its Finish was sent\nwire: %s", c.QuestionId(), wire)
			}
			inUse[c.QuestionId()] = true
		case rpccp.Message_Which_finish:
			f, _ := m.Msg.Finish()
			if !inUse[f.QuestionId()] {
				return "finish-unknown", fmt.Sprintf("Finish for question id %d that is not outstanding\nwire: %s", f.QuestionId(), wire)
			}
			inUse[f.QuestionId()] = false
		case rpccp.Message_Which_abort:
			// Close sends an abort: fine at the very end only
		}
	}
	// order: calls appear on the wire in issue order; only locally resolved
	// pipelined calls may be absent
	next := 0
	for _, m := range out.sim.T.Wire {
		if m.ToPeer && m.Msg.IsValid() && m.Msg.Which() == rpccp.Message_Which_call {
			c, _ := m.Msg.Call()
			pl, _ := c.Params()
			cnt, _ := pl.Content()
			idx := int(cnt.Struct().Uint32(0)) - 500
			for next < idx && localNull[next] {
				next++
			}
			if idx != next {
				return "send-order", fmt.Sprintf("calls left the Conn out of order: saw call %d, want %d\nwire: %s", idx, next, wire)
			}
			next++
		}
	}
	for next < out.nCalls && localNull[next] {
		next++
	}
	if next != out.nCalls {
		return "call-not-sent", fmt.Sprintf("%d calls issued, call %d was neither sent nor resolved locally\nwire: %s", out.nCalls, next, wire)
	}
	return "", ""
}

// ---- shared ----

func norm(s string) string {
	var b strings.Builder
	for _, r := range s {
		switch {
		case r >= '0' && r <= '9':
			b.WriteByte('N')
		case r == ' ' || r == ':' || r == '/':
			b.WriteByte('_')
		default:
			b.WriteRune(r)
		}
	}
	x := b.String()
	if len(x) > 70 {
		x = x[:70]
	}
	return x
}

func blockedSig(bl []string) string {
	var parts []string
	for _, b := range bl {
		i := strings.Index(b, ": ")
		name, op := b[:i], b[i+2:]
		if j := strings.Index(name, "#"); j >= 0 {
			name = name[:j]
		}
		parts = append(parts, name+":"+op)
	}
	for i := 1; i < len(parts); i++ {
		for j := i; j > 0 && parts[j] < parts[j-1]; j-- {
			parts[j], parts[j-1] = parts[j-1], parts[j]
		}
	}
	return norm(strings.Join(parts, "|"))
}

func explore(id string, r *vlib.Rec, cfg vsched.Config, desc string, body func(), judge func(vr *vsched.Result) (string, string), oc func() string) {
	outcomes := map[string]bool{}
	knownSeen := map[string]bool{}
	st, f := vsched.Explore(cfg, body, func(vr *vsched.Result) string {
		key, msg := judge(vr)
		if key != "" && vlib.KnownOpen(id, key) {
			if !knownSeen[key] {
				knownSeen[key] = true
				r.Failf(key, "scenario %s\n%s", desc, msg)
			}
			return ""
		}
		if key != "" {
			return key + "\x00" + msg
		}
		outcomes[oc()] = true
		return ""
	})
	r.States += int64(len(st.Configs))
	r.Transitions += st.Steps
	r.Traces += st.Execs
	r.Note("executions", st.Execs)
	if st.Capped {
		r.Capped = true
	}
	for o := range outcomes {
		r.Outcome(o)
	}
	r.NonTrivial()
	if f != nil {
		if f.Engine {
			r.Failf("ENGINE:"+f.Msg, "%s", f.Msg)
			return
		}
		parts := strings.SplitN(f.Msg, "\x00", 2)
		rr := vsched.Replay(f.Choices, cfg.MaxSteps, body)
		r.Failf(parts[0], "scenario %s\n%s\nchoices %v\n%s", desc, parts[1], f.Choices, rr.Describe())
	}
}

func wireKinds(o *outcome) string {
	var k []string
	for _, m := range o.sim.T.Wire {
		if m.Msg.IsValid() {
			d := "<"
			if m.ToPeer {
				d = ">"
			}
			k = append(k, d+m.Msg.Which().String())
		}
	}
	return strings.Join(k, ",")
}

func peerFamily(name string, scs []script, cfg vsched.Config) vlib.Family {
	return vlib.Family{Name: name, N: int64(len(scs)),
		Describe: func(i int64) interface{} { return scs[i].String() },
		Run: func(i int64, r *vlib.Rec) {
			sc := scs[i]
			var out *outcome
			explore("C06", r, cfg, sc.String(), func() { out = &outcome{}; runScript(sc, out) },
				func(vr *vsched.Result) (string, string) { return judgeScript(sc, out, vr) },
				func() string { return wireKinds(out) })
		}}
}

func connFamily(name string, cps []cprog, cfg vsched.Config) vlib.Family {
	return vlib.Family{Name: name, N: int64(len(cps)),
		Describe: func(i int64) interface{} { return cps[i].String() },
		Run: func(i int64, r *vlib.Rec) {
			cp := cps[i]
			var out *coutcome
			explore("C06", r, cfg, cp.String(), func() { out = &coutcome{}; runConnProg(cp, out) },
				func(vr *vsched.Result) (string, string) { return judgeConn(cp, out, vr) },
				func() string { return wireKinds(&out.outcome) })
		}}
}

func main() {
	vlib.Main(vlib.Spec{
		ID:          "C06",
		Level:       "model_checking",
		CaseTimeout: 30 * time.Minute,
		Rule:        "peer-calls: all well-formed peer scripts of length <= L over {Bootstrap, Call on import 0 (after the bootstrap Return), Call pipelined on any unfinished question with the matching transform, Finish(releaseResultCaps f|t)} x call behaviours, gates opened by a keeper thread, script epilogue collects every Return and finishes every question, then Close; conn-calls: application programs of <= L ops over {call on the bootstrap client, call pipelined on the latest answer, release answer} against a responder peer answering in issue or reverse order with one optional exception. For each scenario all schedules of the real rpc/server/capnp code inside the bounds; oracle = RPC call model of DESIGN appendix A.4/D on the wire log and application event log. states = distinct scheduling configurations summed over scenarios; transitions = scheduling steps; traces = executions on the implementation.",
		Assumptions: []string{
			"timers never fire inside the horizon; transport is fault-free here (faults are C09)",
			"scheduling points at every sync operation are sufficient (data-race freedom checked separately)",
		},
		Families: func(tier string) []vlib.Family {
			modes3 := []int{rpcsim.ModeReturn, rpcsim.ModeAckGate, rpcsim.ModeCap}
			modes4 := []int{rpcsim.ModeReturn, rpcsim.ModeAckGate, rpcsim.ModeCap, rpcsim.ModeError}
			if tier == "thorough" {
				return []vlib.Family{
					peerFamily("peer-calls<=4,dev1", scripts(4, modes3), vsched.Config{MaxPreempt: 1, MaxFree: 1, MaxTotal: 1, MaxSteps: 30000}),
					peerFamily("peer-calls<=3,dev2", scripts(3, modes4), vsched.Config{MaxPreempt: 2, MaxFree: 2, MaxTotal: 2, MaxSteps: 30000, MaxExecs: 100000}),
					connFamily("conn-calls<=4,dev1", cprogs(4), vsched.Config{MaxPreempt: 1, MaxFree: 1, MaxTotal: 1, MaxSteps: 30000}),
					connFamily("conn-calls<=3,dev2", cprogs(3), vsched.Config{MaxPreempt: 2, MaxFree: 2, MaxTotal: 2, MaxSteps: 30000, MaxExecs: 100000}),
					embargoFamily("embargo,dev2", vsched.Config{MaxPreempt: 2, MaxFree: 2, MaxTotal: 2, MaxSteps: 30000, MaxExecs: 300000}),
				}
			}
			return []vlib.Family{
				peerFamily("peer-calls<=3,dev1", scripts(3, modes3), vsched.Config{MaxPreempt: 1, MaxFree: 1, MaxTotal: 1, MaxSteps: 30000}),
				connFamily("conn-calls<=3,dev1", cprogs(3), vsched.Config{MaxPreempt: 1, MaxFree: 1, MaxTotal: 1, MaxSteps: 30000}),
				peerFamily("peer-chains,dev1", chainScripts(), vsched.Config{MaxPreempt: 1, MaxFree: 1, MaxTotal: 1, MaxSteps: 30000}),
				embargoFamily("embargo,dev1", vsched.Config{MaxPreempt: 1, MaxFree: 1, MaxTotal: 1, MaxSteps: 30000}),
			}
		},
	})
}
