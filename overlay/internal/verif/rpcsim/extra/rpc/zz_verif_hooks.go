package rpc

// Read-only hooks for the verification harnesses (overlay only, instrumented
// builds only: Conn.mu is a vsync.Mutex there).

// VerifSnapshot describes the occupancy of a Conn's tables.
type VerifSnapshot struct {
	MuHeld     bool
	SenderHeld bool
	Questions  int
	Answers    int
	Exports    map[uint32]uint32 // export id -> wire refs
	Imports    map[uint32]int    // import id -> wire refs
	Embargoes  int
	Tasks      int
}

// VerifSnapshot must be called while no Conn method is executing.
func (c *Conn) VerifSnapshot() VerifSnapshot {
	s := VerifSnapshot{MuHeld: c.mu.Held(), SenderHeld: c.sendCond != nil, Exports: map[uint32]uint32{}, Imports: map[uint32]int{}, Tasks: c.tasks.Count()}
	for _, q := range c.questions {
		if q != nil {
			s.Questions++
		}
	}
	for _, a := range c.answers {
		if a != nil {
			s.Answers++
		}
	}
	for id, e := range c.exports {
		if e != nil {
			s.Exports[uint32(id)] = e.wireRefs
		}
	}
	for id, e := range c.imports {
		if e != nil {
			s.Imports[uint32(id)] = e.wireRefs
		}
	}
	for _, e := range c.embargoes {
		if e != nil {
			s.Embargoes++
		}
	}
	return s
}
