// Package rpcsim closes the real rpc.Conn (instrumented copy) into a finite
// system for the controlled scheduler: a scheduler-aware in-memory Transport
// whose every operation can be a fault choice point, a scripted peer that
// speaks the wire protocol with the generated rpc schema accessors, a gated
// recording application capability, and a wire log that the oracles read.
package rpcsim

import (
	"fmt"
	"strings"

	capnp "capnproto.org/go/capnp/v3"
	"capnproto.org/go/capnp/v3/internal/vsched"
	context "capnproto.org/go/capnp/v3/internal/vsched/vctx"
	"capnproto.org/go/capnp/v3/rpc"
	"capnproto.org/go/capnp/v3/server"
	rpccp "capnproto.org/go/capnp/v3/std/capnp/rpc"
)

// ---------------------------------------------------------------- transport

// WireMsg is one message that crossed the transport.
type WireMsg struct {
	ToPeer bool // true: sent by the Conn; false: sent by the peer
	Bytes  []byte
	Msg    rpccp.Message
	Step   int
}

// FaultPlan tells which transport operations are choice points.
type FaultPlan struct {
	NewMessage bool // NewMessage may fail
	Send       bool // send may fail
	Recv       bool // RecvMessage may fail / report EOF
}

// VT is the scheduler-aware rpc.Transport handed to the Conn.
type VT struct {
	Faults      FaultPlan
	Wire        []WireMsg
	inbox       [][]byte // peer -> Conn, not yet received
	outCursor   int      // peer's read position in Wire (ToPeer messages)
	Closed      bool     // Conn closed the transport
	PeerClosed  bool     // peer hung up: RecvMessage reports EOF once the inbox is empty
	Outstanding int      // messages from NewMessage not yet released
	InFlightOps int      // NewMessage..release sections currently open
	Contract    []string // violations of the Transport contract by the Conn
	Ops         int
	FaultsTaken []string
	RecvErr     error
	// Window, if > 0, models a transport with a bounded pipe: send blocks
	// (with the Conn's sender lock held by the caller) while Window messages
	// to the peer have not been read by it yet.
	Window     int
	peerCursor func() int
}

func (t *VT) pendingToPeer() int {
	from := 0
	if t.peerCursor != nil {
		from = t.peerCursor()
	}
	n := 0
	for i := from; i < len(t.Wire); i++ {
		if t.Wire[i].ToPeer {
			n++
		}
	}
	return n
}

var errInjected = fmt.Errorf("injected transport fault")

func (t *VT) contract(format string, a ...interface{}) {
	t.Contract = append(t.Contract, fmt.Sprintf(format, a...))
}

func (t *VT) choose(kind string, n int, on bool) int {
	t.Ops++
	if !on {
		return 0
	}
	k := vsched.Choose(kind, n)
	if k != 0 {
		t.FaultsTaken = append(t.FaultsTaken, fmt.Sprintf("%s#%d=%d", kind, t.Ops, k))
	}
	return k
}

// NewMessage implements rpc.Transport.
func (t *VT) NewMessage(ctx context.Context) (rpccp.Message, func() error, capnp.ReleaseFunc, error) {
	if t.Closed {
		t.contract("NewMessage after Close")
	}
	if t.choose("newmsg", 2, t.Faults.NewMessage) == 1 {
		return rpccp.Message{}, nil, nil, errInjected
	}
	msg, seg, err := capnp.NewMessage(capnp.MultiSegment(nil))
	if err != nil {
		panic(err)
	}
	rmsg, err := rpccp.NewRootMessage(seg)
	if err != nil {
		panic(err)
	}
	t.Outstanding++
	sent, released := false, false
	send := func() error {
		if released {
			t.contract("send after release")
		}
		if sent {
			t.contract("send called twice")
		}
		sent = true
		if t.Closed {
			t.contract("send after Close")
			return fmt.Errorf("transport closed")
		}
		if msg.CapTable != nil {
			t.contract("message sent with a non-nil CapTable")
		}
		if t.choose("send", 2, t.Faults.Send) == 1 {
			return errInjected
		}
		if t.Window > 0 {
			vsched.Block("transport.send-window", func() bool { return t.Closed || t.pendingToPeer() < t.Window })
			if t.Closed {
				return fmt.Errorf("transport closed")
			}
		}
		b, err := msg.Marshal()
		if err != nil {
			return err
		}
		m2, err := capnp.Unmarshal(b)
		if err != nil {
			panic(err)
		}
		r2, _ := rpccp.ReadRootMessage(m2)
		t.Wire = append(t.Wire, WireMsg{ToPeer: true, Bytes: b, Msg: r2, Step: vsched.Step()})
		return nil
	}
	release := func() {
		if released {
			return
		}
		released = true
		if msg.CapTable != nil {
			t.contract("message released with a non-nil CapTable")
		}
		t.Outstanding--
	}
	return rmsg, send, release, nil
}

// RecvMessage implements rpc.Transport.
func (t *VT) RecvMessage(ctx context.Context) (rpccp.Message, capnp.ReleaseFunc, error) {
	vsched.Block("transport.recv", func() bool {
		return len(t.inbox) > 0 || t.Closed || t.PeerClosed || ctx.Err() != nil
	})
	if err := ctx.Err(); err != nil && len(t.inbox) == 0 {
		return rpccp.Message{}, nil, err
	}
	if t.Closed {
		return rpccp.Message{}, nil, fmt.Errorf("transport closed")
	}
	if len(t.inbox) == 0 {
		return rpccp.Message{}, nil, fmt.Errorf("EOF from peer")
	}
	switch t.choose("recv", 3, t.Faults.Recv) {
	case 1:
		return rpccp.Message{}, nil, errInjected
	case 2:
		t.PeerClosed = true
		t.inbox = nil
		return rpccp.Message{}, nil, fmt.Errorf("EOF from peer")
	}
	b := t.inbox[0]
	t.inbox = t.inbox[1:]
	m, err := capnp.Unmarshal(b)
	if err != nil {
		return rpccp.Message{}, nil, err
	}
	r, err := rpccp.ReadRootMessage(m)
	if err != nil {
		return rpccp.Message{}, nil, err
	}
	return r, func() {
		if m.CapTable != nil {
			t.contract("received message released with a non-nil CapTable")
		}
	}, nil
}

// Close implements rpc.Transport.
func (t *VT) Close() error {
	if t.Closed {
		t.contract("transport closed twice")
	}
	if t.Outstanding != 0 {
		t.contract("transport closed with %d message(s) not released", t.Outstanding)
	}
	t.Closed = true
	return nil
}

// ---------------------------------------------------------------- app side

// Event is an application-level observation.
type Event struct {
	Kind string // start ack end cancelled shutdown childstart result
	ID   int
	Cap  string // which capability observed it
	Info string
}

// Call behaviours of the application capability.
const (
	ModeReturn = iota // return at once, echo id
	ModeAckGate       // ack, wait for gate, echo id
	ModeGate          // wait for gate without ack
	ModeError         // ack, gate, return an error
	ModeCap           // ack, gate, return a capability (child) in pointer 0
	ModeSelfCap       // return the bootstrap capability itself in pointer 0
)

// World holds the application state shared by capabilities.
type World struct {
	Ev       []Event
	Mode     map[int]int
	Gate     map[int]bool
	OpenAll  bool
	Children map[int]*capnp.Client // child capability created by call id
	ShutCnt  map[string]int
	Reported []string
	Boot     *capnp.Client
}

func (w *World) log(kind string, id int, cap, info string) {
	w.Ev = append(w.Ev, Event{kind, id, cap, info})
}

// ReportError implements rpc.ErrorReporter.
func (w *World) ReportError(err error) { w.Reported = append(w.Reported, err.Error()) }

// The wire-visible interface/method ids of the application capability.
const (
	IfaceID    = 0xfeed0001
	MethodEcho = 1
)

var errImpl = fmt.Errorf("marker:implerror")

type shut struct {
	w    *World
	name string
}

func (s shut) Shutdown() {
	s.w.ShutCnt[s.name]++
	s.w.log("shutdown", -1, s.name, "")
}

// NewCap creates a server-backed recording capability.
func (w *World) NewCap(name string) *capnp.Client {
	var self *capnp.Client
	impl := func(ctx context.Context, call *server.Call) error {
		id := int(call.Args().Uint32(0))
		mode := w.Mode[id]
		w.log("start", id, name, "")
		defer w.log("end", id, name, "")
		res, err := call.AllocResults(capnp.ObjectSize{DataSize: 8, PointerCount: 1})
		if err != nil {
			return err
		}
		res.SetUint32(0, uint32(id))
		res.SetUint32(4, 0xE0E0E0E0)
		switch mode {
		case ModeReturn:
			return nil
		case ModeSelfCap:
			cid := res.Message().AddCap(self.AddRef())
			res.SetPtr(0, capnp.NewInterface(res.Segment(), cid).ToPtr())
			return nil
		case ModeCap:
			child := w.NewCap(fmt.Sprintf("child%d", id))
			w.Children[id] = child
			cid := res.Message().AddCap(child)
			res.SetPtr(0, capnp.NewInterface(res.Segment(), cid).ToPtr())
		}
		if mode != ModeGate {
			w.log("ack", id, name, "")
			call.Ack()
		}
		vsched.WaitUntil(fmt.Sprintf("gate%d", id), func() bool { return w.OpenAll || w.Gate[id] || ctx.Err() != nil })
		if !(w.OpenAll || w.Gate[id]) {
			w.log("cancelled", id, name, "")
			return fmt.Errorf("marker:cancelled")
		}
		if mode == ModeError {
			return errImpl
		}
		return nil
	}
	srv := server.New([]server.Method{{Method: capnp.Method{InterfaceID: IfaceID, MethodID: MethodEcho}, Impl: impl}}, name, shut{w, name}, &server.Policy{MaxConcurrentCalls: 4, AnswerQueueSize: 4})
	self = capnp.NewClient(srv)
	return self
}

// ---------------------------------------------------------------- simulation

// Sim is one connection under test.
type Sim struct {
	T    *VT
	W    *World
	Conn *rpc.Conn
}

// New creates the transport, the application world and the Conn.
func New(faults FaultPlan, withBootstrap bool) *Sim {
	w := &World{Mode: map[int]int{}, Gate: map[int]bool{}, Children: map[int]*capnp.Client{}, ShutCnt: map[string]int{}}
	t := &VT{Faults: faults}
	opts := &rpc.Options{ErrorReporter: w}
	if withBootstrap {
		w.Boot = w.NewCap("boot")
		opts.BootstrapClient = w.Boot
	}
	s := &Sim{T: t, W: w}
	s.Conn = rpc.NewConn(t, opts)
	return s
}

// ---------------------------------------------------------------- peer

// Peer is the scripted remote vat.
type Peer struct {
	S      *Sim
	cursor int // next Wire index to scan for messages to the peer
}

// NewPeer returns a peer handle.
func (s *Sim) NewPeer() *Peer {
	p := &Peer{S: s}
	s.T.peerCursor = func() int { return p.cursor }
	return p
}

// Build marshals a message built by f.
func Build(f func(m rpccp.Message)) []byte {
	msg, seg, err := capnp.NewMessage(capnp.MultiSegment(nil))
	if err != nil {
		panic(err)
	}
	r, err := rpccp.NewRootMessage(seg)
	if err != nil {
		panic(err)
	}
	f(r)
	b, err := msg.Marshal()
	if err != nil {
		panic(err)
	}
	return b
}

// Raw delivers raw bytes to the Conn.
func (p *Peer) Raw(b []byte) {
	vsched.Point("peer.send")
	var r rpccp.Message
	if m, err := capnp.Unmarshal(b); err == nil {
		r, _ = rpccp.ReadRootMessage(m)
	}
	p.S.T.Wire = append(p.S.T.Wire, WireMsg{ToPeer: false, Bytes: b, Msg: r, Step: vsched.Step()})
	p.S.T.inbox = append(p.S.T.inbox, b)
}

// Send builds and delivers a message.
func (p *Peer) Send(f func(m rpccp.Message)) { p.Raw(Build(f)) }

// Hangup makes the Conn's receive loop see EOF after the queued messages.
func (p *Peer) Hangup() {
	vsched.Point("peer.hangup")
	p.S.T.PeerClosed = true
}

func must(err error) {
	if err != nil {
		panic(err)
	}
}

// Bootstrap sends Bootstrap(q).
func (p *Peer) Bootstrap(q uint32) {
	p.Send(func(m rpccp.Message) {
		b, err := m.NewBootstrap()
		must(err)
		b.SetQuestionId(q)
	})
}

// Target describes a call target.
type Target struct {
	Promised bool
	ID       uint32   // import id or question id
	Path     []uint16 // transform for promised answers
}

// CapD describes a capability descriptor in a payload.
type CapD struct {
	Kind byte // 'n' none, 's' senderHosted, 'p' senderPromise, 'r' receiverHosted, 'a' receiverAnswer, 't' thirdParty
	ID   uint32
}

func fillCaps(pl rpccp.Payload, caps []CapD) {
	if len(caps) == 0 {
		return
	}
	l, err := pl.NewCapTable(int32(len(caps)))
	must(err)
	for i, c := range caps {
		d := l.At(i)
		switch c.Kind {
		case 'n':
			d.SetNone()
		case 's':
			d.SetSenderHosted(c.ID)
		case 'p':
			d.SetSenderPromise(c.ID)
		case 'r':
			d.SetReceiverHosted(c.ID)
		case 'a':
			pa, err := d.NewReceiverAnswer()
			must(err)
			pa.SetQuestionId(c.ID)
		case 't':
			tp, err := d.NewThirdPartyHosted()
			must(err)
			tp.SetVineId(c.ID)
		}
	}
}

// Call sends Call(q) for the echo method with argument id; params may carry
// capability descriptors, pointer 0 of the params pointing at capability 0.
func (p *Peer) Call(q uint32, tgt Target, id int, caps []CapD) {
	p.Send(func(m rpccp.Message) { BuildCall(m, q, tgt, id, caps) })
}

// BuildCall fills in a Call message.
func BuildCall(m rpccp.Message, q uint32, tgt Target, id int, caps []CapD) rpccp.Call {
	c, err := m.NewCall()
	must(err)
	c.SetQuestionId(q)
	c.SetInterfaceId(IfaceID)
	c.SetMethodId(MethodEcho)
	t, err := c.NewTarget()
	must(err)
	if tgt.Promised {
		pa, err := t.NewPromisedAnswer()
		must(err)
		pa.SetQuestionId(tgt.ID)
		ops, err := pa.NewTransform(int32(len(tgt.Path)))
		must(err)
		for i, f := range tgt.Path {
			ops.At(i).SetGetPointerField(f)
		}
	} else {
		t.SetImportedCap(tgt.ID)
	}
	pl, err := c.NewParams()
	must(err)
	args, err := capnp.NewStruct(pl.Segment(), capnp.ObjectSize{DataSize: 8, PointerCount: 1})
	must(err)
	args.SetUint32(0, uint32(id))
	if len(caps) > 0 {
		must(args.SetPtr(0, capnp.NewInterface(pl.Segment(), 0).ToPtr()))
	}
	must(pl.SetContent(args.ToPtr()))
	fillCaps(pl, caps)
	c.SendResultsTo().SetCaller()
	return c
}

// Finish sends Finish(q).
func (p *Peer) Finish(q uint32, releaseCaps bool) {
	p.Send(func(m rpccp.Message) {
		f, err := m.NewFinish()
		must(err)
		f.SetQuestionId(q)
		f.SetReleaseResultCaps(releaseCaps)
	})
}

// Release sends Release(id, n).
func (p *Peer) Release(id, n uint32) {
	p.Send(func(m rpccp.Message) {
		r, err := m.NewRelease()
		must(err)
		r.SetId(id)
		r.SetReferenceCount(n)
	})
}

// ReturnResults sends Return(q) with a result struct {data: id} whose pointer
// 0 refers to capability 0 of caps (if any).
func (p *Peer) ReturnResults(q uint32, id int, caps []CapD, releaseParamCaps bool) {
	p.Send(func(m rpccp.Message) {
		r, err := m.NewReturn()
		must(err)
		r.SetAnswerId(q)
		r.SetReleaseParamCaps(releaseParamCaps)
		pl, err := r.NewResults()
		must(err)
		res, err := capnp.NewStruct(pl.Segment(), capnp.ObjectSize{DataSize: 8, PointerCount: 1})
		must(err)
		res.SetUint32(0, uint32(id))
		if len(caps) > 0 {
			must(res.SetPtr(0, capnp.NewInterface(pl.Segment(), 0).ToPtr()))
		}
		must(pl.SetContent(res.ToPtr()))
		fillCaps(pl, caps)
	})
}

// ReturnBootstrap answers a Bootstrap question with capability descriptor d.
func (p *Peer) ReturnBootstrap(q uint32, d CapD) {
	p.Send(func(m rpccp.Message) {
		r, err := m.NewReturn()
		must(err)
		r.SetAnswerId(q)
		pl, err := r.NewResults()
		must(err)
		must(pl.SetContent(capnp.NewInterface(pl.Segment(), 0).ToPtr()))
		fillCaps(pl, []CapD{d})
	})
}

// ReturnException sends Return(q) with an exception.
func (p *Peer) ReturnException(q uint32, reason string) {
	p.Send(func(m rpccp.Message) {
		r, err := m.NewReturn()
		must(err)
		r.SetAnswerId(q)
		e, err := r.NewException()
		must(err)
		e.SetType(rpccp.Exception_Type_failed)
		must(e.SetReason(reason))
	})
}

// DisembargoReceiverLoopback answers a senderLoopback.
func (p *Peer) DisembargoReceiverLoopback(importedCap, id uint32) {
	p.Send(func(m rpccp.Message) {
		d, err := m.NewDisembargo()
		must(err)
		t, err := d.NewTarget()
		must(err)
		t.SetImportedCap(importedCap)
		d.Context().SetReceiverLoopback(id)
	})
}

// Next blocks until the Conn has sent another message and returns it; ok is
// false if the Conn closed the transport (or cond() says to stop) first.
func (p *Peer) Next(stop func() bool) (WireMsg, bool) {
	for {
		for p.cursor < len(p.S.T.Wire) {
			m := p.S.T.Wire[p.cursor]
			p.cursor++
			if m.ToPeer {
				return m, true
			}
		}
		if p.S.T.Closed || (stop != nil && stop()) {
			return WireMsg{}, false
		}
		n := len(p.S.T.Wire)
		vsched.WaitUntil("peer.next", func() bool {
			return len(p.S.T.Wire) > n || p.S.T.Closed || (stop != nil && stop())
		})
	}
}

// WaitFor blocks until a message to the peer satisfying pred has been sent
// (searching the whole log from the start) or the transport is closed.
func (p *Peer) WaitFor(what string, pred func(m rpccp.Message) bool) (rpccp.Message, bool) {
	found := func() (rpccp.Message, bool) {
		for _, m := range p.S.T.Wire {
			if m.ToPeer && pred(m.Msg) {
				return m.Msg, true
			}
		}
		return rpccp.Message{}, false
	}
	vsched.WaitUntil("peer.waitfor:"+what, func() bool {
		_, ok := found()
		return ok || p.S.T.Closed
	})
	return found()
}

// WaitReturn waits for Return(q).
func (p *Peer) WaitReturn(q uint32) (rpccp.Return, bool) {
	m, ok := p.WaitFor(fmt.Sprintf("return%d", q), func(m rpccp.Message) bool {
		if m.Which() != rpccp.Message_Which_return {
			return false
		}
		r, err := m.Return()
		return err == nil && r.AnswerId() == q
	})
	if !ok {
		return rpccp.Return{}, false
	}
	r, _ := m.Return()
	return r, true
}

// ---------------------------------------------------------------- wire summary

// Describe renders a wire message compactly.
func Describe(m WireMsg) string {
	dir := "<-peer "
	if m.ToPeer {
		dir = "->peer "
	}
	if !m.Msg.IsValid() {
		return dir + fmt.Sprintf("raw[%d bytes]", len(m.Bytes))
	}
	return dir + DescribeMsg(m.Msg)
}

// DescribeMsg renders an rpc message compactly.
func DescribeMsg(m rpccp.Message) (out string) {
	defer func() {
		if x := recover(); x != nil {
			out = fmt.Sprintf("undescribable(%v)", x)
		}
	}()
	switch m.Which() {
	case rpccp.Message_Which_bootstrap:
		b, _ := m.Bootstrap()
		return fmt.Sprintf("Bootstrap(q%d)", b.QuestionId())
	case rpccp.Message_Which_call:
		c, _ := m.Call()
		t, _ := c.Target()
		tg := "?"
		switch t.Which() {
		case rpccp.MessageTarget_Which_importedCap:
			tg = fmt.Sprintf("import%d", t.ImportedCap())
		case rpccp.MessageTarget_Which_promisedAnswer:
			pa, _ := t.PromisedAnswer()
			tg = fmt.Sprintf("answer%d", pa.QuestionId())
		}
		pl, _ := c.Params()
		return fmt.Sprintf("Call(q%d,%s,arg=%d%s)", c.QuestionId(), tg, payloadID(pl), capsOf(pl))
	case rpccp.Message_Which_return:
		r, _ := m.Return()
		switch r.Which() {
		case rpccp.Return_Which_results:
			pl, _ := r.Results()
			return fmt.Sprintf("Return(a%d,results=%d%s)", r.AnswerId(), payloadID(pl), capsOf(pl))
		case rpccp.Return_Which_exception:
			e, _ := r.Exception()
			rs, _ := e.Reason()
			return fmt.Sprintf("Return(a%d,exception=%q)", r.AnswerId(), rs)
		}
		return fmt.Sprintf("Return(a%d,%v)", r.AnswerId(), r.Which())
	case rpccp.Message_Which_finish:
		f, _ := m.Finish()
		return fmt.Sprintf("Finish(q%d,relcaps=%v)", f.QuestionId(), f.ReleaseResultCaps())
	case rpccp.Message_Which_release:
		r, _ := m.Release()
		return fmt.Sprintf("Release(%d,n=%d)", r.Id(), r.ReferenceCount())
	case rpccp.Message_Which_disembargo:
		d, _ := m.Disembargo()
		return fmt.Sprintf("Disembargo(%v)", d.Context().Which())
	case rpccp.Message_Which_abort:
		e, _ := m.Abort()
		rs, _ := e.Reason()
		return fmt.Sprintf("Abort(%q)", rs)
	case rpccp.Message_Which_unimplemented:
		return "Unimplemented"
	}
	return fmt.Sprintf("Message(%v)", m.Which())
}

func payloadID(pl rpccp.Payload) int {
	if !pl.IsValid() {
		return -1
	}
	p, err := pl.Content()
	if err != nil {
		return -2
	}
	s := p.Struct()
	if !s.IsValid() {
		return -3
	}
	return int(s.Uint32(0))
}

func capsOf(pl rpccp.Payload) string {
	if !pl.IsValid() {
		return ""
	}
	l, err := pl.CapTable()
	if err != nil || l.Len() == 0 {
		return ""
	}
	var parts []string
	for i := 0; i < l.Len(); i++ {
		d := l.At(i)
		switch d.Which() {
		case rpccp.CapDescriptor_Which_none:
			parts = append(parts, "none")
		case rpccp.CapDescriptor_Which_senderHosted:
			parts = append(parts, fmt.Sprintf("senderHosted%d", d.SenderHosted()))
		case rpccp.CapDescriptor_Which_senderPromise:
			parts = append(parts, fmt.Sprintf("senderPromise%d", d.SenderPromise()))
		case rpccp.CapDescriptor_Which_receiverHosted:
			parts = append(parts, fmt.Sprintf("receiverHosted%d", d.ReceiverHosted()))
		default:
			parts = append(parts, d.Which().String())
		}
	}
	return ",caps=[" + strings.Join(parts, " ") + "]"
}

// WireString renders the whole wire log.
func (t *VT) WireString() string {
	var parts []string
	for _, m := range t.Wire {
		parts = append(parts, Describe(m))
	}
	return strings.Join(parts, " ; ")
}
