// Package vlib is the shared runner of every /verif harness: it shards an
// enumerated case space over worker subprocesses, survives worker deaths
// (fatal errors are not recoverable in Go), aggregates coverage counters,
// applies /verif/known_findings.json, writes replay artefacts and the evidence
// file, and prints the VIOLATION / KNOWN-FINDING lines of the interface.
//
// It lives in an overlay-only virtual package inside the repo's module so that
// harnesses can import internal/* packages of the repository.
package vlib

import (
	"bufio"
	"bytes"
	"encoding/json"
	"flag"
	"fmt"
	"io/ioutil"
	"os"
	"os/exec"
	"path/filepath"
	"regexp"
	"runtime"
	"runtime/debug"
	"runtime/pprof"
	"sort"
	"strconv"
	"strings"
	"sync"
	"sync/atomic"
	"time"
)

// Family is one enumerated case space.  Cases are indexed 0..N-1 and must be
// deterministic functions of (tier, index).
type Family struct {
	Name string
	N    int64
	// Run executes case i and records what it saw.
	Run func(i int64, r *Rec)
	// Describe renders case i for samples and replay files.
	Describe func(i int64) interface{}
	// Serial families are run in a single worker (used when Run itself is a
	// whole search, e.g. a BFS, that cannot be split by index).
	Serial bool
}

// Spec describes a check.
type Spec struct {
	ID          string
	Level       string // exploration | model_checking | fault_enumeration
	Rule        string
	Assumptions []string
	// Families returns the case spaces for a tier ("quick" | "thorough").
	Families func(tier string) []Family
	// Extra, if set, is merged into coverage by the parent after the run.
	Extra func(tier string) map[string]interface{}
	// CaseTimeout overrides the per-case hang watchdog (default 120 s); checks
	// whose single case is a whole schedule exploration need more.
	CaseTimeout time.Duration
	// SelfTest, if set, runs in the parent before any family; a non-nil error
	// is an engine error (exit 2), never a verdict.
	SelfTest func() error
}

// Violation is one failed case.
type Violation struct {
	Key    string      `json:"key"`    // classification used for known-finding matching
	Family string      `json:"family"` // family name
	Index  int64       `json:"index"`  // case index
	Detail string      `json:"detail"` // human readable
	Case   interface{} `json:"case,omitempty"`
}

// Rec collects the results of a worker.
type Rec struct {
	Evals       int64            `json:"evals"`
	NonTriv     int64            `json:"nontrivial"`
	States      int64            `json:"states"`
	Transitions int64            `json:"transitions"`
	Traces      int64            `json:"traces"`
	Outcomes    map[string]int64 `json:"outcomes"`
	Viol        []Violation      `json:"violations"`
	ViolCount   map[string]int64 `json:"violation_counts"`
	Samples     []interface{}    `json:"samples"`
	Capped      bool             `json:"capped"`
	Done        int64            `json:"done"` // cases finished
	Notes       map[string]int64 `json:"notes"`
	MaxBound    map[string]int64 `json:"max_bound"`

	cur    int64
	fam    *Family
	failed bool
}

func newRec() *Rec {
	return &Rec{Outcomes: map[string]int64{}, ViolCount: map[string]int64{}, Notes: map[string]int64{}, MaxBound: map[string]int64{}}
}

// Outcome counts an observed outcome class (vacuity indicator).
func (r *Rec) Outcome(class string) { r.Outcomes[class]++ }

// NonTrivial marks the current case as non-trivial by the check's rule.
func (r *Rec) NonTrivial() { r.NonTriv++ }

// Note adds n to a free-form counter reported in coverage.
func (r *Rec) Note(k string, n int64) { r.Notes[k] += n }

// Bound records the maximum of a bound reached (e.g. preemptions completed).
func (r *Rec) Bound(k string, n int64) {
	if n > r.MaxBound[k] {
		r.MaxBound[k] = n
	}
}

// Sample stores a written-out case (first few only).
func (r *Rec) Sample(x interface{}) {
	if len(r.Samples) < 4 {
		r.Samples = append(r.Samples, x)
	}
}

// Fail records a violation of the property for the current case.
func (r *Rec) Fail(key, detail string) {
	r.failed = true
	r.ViolCount[key]++
	if r.ViolCount[key] > 3 {
		return
	}
	v := Violation{Key: key, Family: r.fam.Name, Index: r.cur, Detail: detail}
	if r.fam.Describe != nil {
		v.Case = r.fam.Describe(r.cur)
	}
	r.Viol = append(r.Viol, v)
}

// Failf is Fail with formatting.
func (r *Rec) Failf(key, format string, a ...interface{}) { r.Fail(key, fmt.Sprintf(format, a...)) }

// Index is the index of the case being run.
func (r *Rec) Index() int64 { return r.cur }

var (
	flagTier     = flag.String("tier", "quick", "quick|thorough")
	flagEvidence = flag.String("evidence", "", "evidence file to write")
	flagKnown    = flag.String("known", "/verif/known_findings.json", "known findings file")
	flagReplays  = flag.String("replays", "", "directory for replay artefacts")
	flagReplay   = flag.String("replay", "", "replay one artefact and exit")
	flagWorkers  = flag.Int("workers", 0, "worker processes (default NumCPU)")
	flagWorker   = flag.String("worker", "", "internal: w/W/family[/from]")
	flagCareful  = flag.String("careful", "", "internal: progress file")
	flagOnly     = flag.String("only", "", "internal: family/index")
	flagDeadline = flag.Duration("deadline", 0, "soft deadline for the whole run (0 = tier default)")
	flagVerbose  = flag.Bool("v", false, "verbose")
	flagFams     = flag.String("families", "", "run only families whose name starts with one of these comma-separated prefixes (debugging; evidence then covers only those)")
	flagList     = flag.String("list", "", "print 'index<TAB>description' of every case of a family and exit")
)

// Tier returns the tier of this run.
func Tier() string { return *flagTier }

// Seed returns VERIF_SEED (no check here makes random choices; recorded only).
func Seed() int64 {
	n, _ := strconv.ParseInt(os.Getenv("VERIF_SEED"), 10, 64)
	return n
}

var panicFrame = regexp.MustCompile(`capnproto\.org/go/capnp/v3[^\s(]*\.[A-Za-z0-9_.()*]+`)

// PanicKey builds a classification key from a recovered panic.
func PanicKey(p interface{}, stack []byte) string {
	msg := fmt.Sprint(p)
	if len(msg) > 60 {
		msg = msg[:60]
	}
	msg = regexp.MustCompile(`[0-9]+`).ReplaceAllString(msg, "N")
	fn := ""
	for _, m := range panicFrame.FindAll(stack, -1) {
		s := string(m)
		if strings.Contains(s, "/internal/verif/") || strings.Contains(s, "/internal/vsched") {
			continue
		}
		fn = s
		break
	}
	fn = strings.TrimPrefix(fn, "capnproto.org/go/capnp/v3")
	return "panic:" + msg + "@" + fn
}

func runCase(f *Family, i int64, r *Rec) {
	r.cur = i
	r.fam = f
	r.failed = false
	r.Evals++
	defer func() {
		if p := recover(); p != nil {
			st := debug.Stack()
			r.Fail(PanicKey(p, st), fmt.Sprintf("panic: %v\n%s", p, trimStack(st)))
		}
	}()
	f.Run(i, r)
}

func trimStack(st []byte) string {
	s := string(st)
	if len(s) > 3000 {
		s = s[:3000] + "\n...[truncated]"
	}
	return s
}

// Main runs the check and exits.
func Main(spec Spec) {
	flag.Parse()
	debug.SetMaxStack(48 << 20)
	if spec.CaseTimeout > 0 {
		caseTimeout = spec.CaseTimeout
	}
	fams := spec.Families(*flagTier)
	if *flagFams != "" {
		var keep []Family
		for _, f := range fams {
			for _, pre := range strings.Split(*flagFams, ",") {
				if strings.HasPrefix(f.Name, pre) {
					keep = append(keep, f)
					break
				}
			}
		}
		fams = keep
	}
	switch {
	case *flagList != "":
		f := findFam(fams, *flagList)
		for i := int64(0); i < f.N; i++ {
			d := interface{}("")
			if f.Describe != nil {
				d = f.Describe(i)
			}
			fmt.Printf("%d\t%v\n", i, d)
		}
		os.Exit(0)
	case *flagOnly != "":
		onlyMain(spec, fams)
	case *flagWorker != "":
		workerMain(spec, fams)
	case *flagReplay != "":
		replayMain(spec, fams)
	default:
		parentMain(spec, fams)
	}
}

func findFam(fams []Family, name string) *Family {
	for i := range fams {
		if fams[i].Name == name {
			return &fams[i]
		}
	}
	fmt.Fprintf(os.Stderr, "unknown family %q\n", name)
	os.Exit(2)
	return nil
}

// ---- worker ----

var curIndex int64 = -1

// caseTimeout is how long one case may run before the worker reports a hang.
var caseTimeout = 120 * time.Second

func workerMain(spec Spec, fams []Family) {
	runtime.GOMAXPROCS(1)
	parts := strings.Split(*flagWorker, "/")
	w, _ := strconv.ParseInt(parts[0], 10, 64)
	W, _ := strconv.ParseInt(parts[1], 10, 64)
	f := findFam(fams, parts[2])
	from := int64(0)
	if len(parts) > 3 {
		from, _ = strconv.ParseInt(parts[3], 10, 64)
	}
	var deadline time.Time
	if *flagDeadline > 0 {
		deadline = time.Now().Add(*flagDeadline)
		// schedule explorations inside one case stop at the same deadline
		os.Setenv("VLIB_DEADLINE_UNIX", strconv.FormatInt(deadline.Unix(), 10))
	}
	var prog *os.File
	if *flagCareful != "" {
		var err error
		prog, err = os.OpenFile(*flagCareful, os.O_CREATE|os.O_WRONLY, 0644)
		if err != nil {
			panic(err)
		}
	}
	// hang watchdog: a case takes microseconds to seconds; 120 s without
	// progress is reported as a hang of that case.
	go func() {
		last := int64(-2)
		lastChange := time.Now()
		for {
			time.Sleep(2 * time.Second)
			c := atomic.LoadInt64(&curIndex)
			if c != last {
				last, lastChange = c, time.Now()
				continue
			}
			if c >= 0 && time.Since(lastChange) > caseTimeout {
				fmt.Fprintf(os.Stderr, "VLIB-HANG %d\n", c)
				os.Exit(3)
			}
		}
	}()
	r := newRec()
	n := int64(0)
	for i := w; i < f.N; i += W {
		if i < from {
			continue
		}
		if !deadline.IsZero() && time.Now().After(deadline) {
			r.Capped = true
			break
		}
		n++
		atomic.StoreInt64(&curIndex, i)
		if prog != nil {
			prog.WriteAt([]byte(fmt.Sprintf("%020d", i)), 0)
		}
		runCase(f, i, r)
		r.Done++
		if r.Evals <= 2 && f.Describe != nil {
			r.Sample(map[string]interface{}{"family": f.Name, "index": i, "case": f.Describe(i)})
		}
	}
	atomic.StoreInt64(&curIndex, -1)
	out := bufio.NewWriter(os.Stdout)
	out.WriteString("VLIB-RESULT ")
	json.NewEncoder(out).Encode(r)
	out.Flush()
	os.Exit(0)
}

func onlyMain(spec Spec, fams []Family) {
	runtime.GOMAXPROCS(1)
	if pf := os.Getenv("VLIB_PROF"); pf != "" {
		f, _ := os.Create(pf)
		pprof.StartCPUProfile(f)
		defer pprof.StopCPUProfile()
	}
	parts := strings.SplitN(*flagOnly, "/", 2)
	f := findFam(fams, parts[0])
	i, _ := strconv.ParseInt(parts[1], 10, 64)
	r := newRec()
	runCase(f, i, r)
	out := bufio.NewWriter(os.Stdout)
	out.WriteString("VLIB-RESULT ")
	json.NewEncoder(out).Encode(r)
	out.Flush()
	pprof.StopCPUProfile()
	os.Exit(0)
}

func replayMain(spec Spec, fams []Family) {
	b, err := ioutil.ReadFile(*flagReplay)
	if err != nil {
		fmt.Fprintln(os.Stderr, err)
		os.Exit(2)
	}
	var v Violation
	if err := json.Unmarshal(b, &v); err != nil {
		fmt.Fprintln(os.Stderr, err)
		os.Exit(2)
	}
	f := findFam(fams, v.Family)
	r := newRec()
	runCase(f, v.Index, r)
	if len(r.Viol) == 0 {
		fmt.Printf("replay: case %s/%d passes on this tree\n", v.Family, v.Index)
		os.Exit(0)
	}
	for _, x := range r.Viol {
		fmt.Printf("replay: %s/%d key=%s\n%s\n", x.Family, x.Index, x.Key, x.Detail)
	}
	fmt.Printf("VIOLATION property=%s replay=%s\n", spec.ID, *flagReplay)
	os.Exit(1)
}

// ---- parent ----

type knownFinding struct {
	Property string `json:"property"`
	Key      string `json:"key"`
	Status   string `json:"status"` // open | fixed
	Commit   string `json:"commit,omitempty"`
	What     string `json:"what"`
}

func loadKnown(id string) map[string]knownFinding {
	m := map[string]knownFinding{}
	b, err := ioutil.ReadFile(*flagKnown)
	if err != nil {
		return m
	}
	var doc struct {
		Findings []knownFinding `json:"findings"`
	}
	if err := json.Unmarshal(b, &doc); err != nil {
		fmt.Fprintf(os.Stderr, "engine error: cannot parse %s: %v\n", *flagKnown, err)
		os.Exit(2)
	}
	for _, k := range doc.Findings {
		if k.Property == id && k.Status == "open" {
			m[k.Key] = k
		}
	}
	return m
}

var knownCache map[string]map[string]knownFinding

// KnownOpen reports whether key is an open known finding of property id, so
// that a search can record it and keep exploring instead of stopping at it.
func KnownOpen(id, key string) bool {
	if knownCache == nil {
		knownCache = map[string]map[string]knownFinding{}
	}
	m, ok := knownCache[id]
	if !ok {
		m = loadKnown(id)
		knownCache[id] = m
	}
	_, hit := m[key]
	return hit
}

type shardResult struct {
	rec   *Rec
	death string // non-empty: worker died; text = stderr tail
	hang  int64
}

func runWorker(args []string, timeout time.Duration) (*Rec, string, int) {
	cmd := exec.Command(os.Args[0], args...)
	var stdout, stderr bytes.Buffer
	cmd.Stdout = &stdout
	cmd.Stderr = &stderr
	cmd.Env = append(os.Environ(), "GOMAXPROCS=1", "GOTRACEBACK=single")
	if err := cmd.Start(); err != nil {
		return nil, "start: " + err.Error(), -1
	}
	done := make(chan error, 1)
	go func() { done <- cmd.Wait() }()
	var err error
	select {
	case err = <-done:
	case <-time.After(timeout):
		cmd.Process.Kill()
		<-done
		return nil, "worker exceeded hard timeout " + timeout.String(), -2
	}
	code := 0
	if err != nil {
		code = 1
		if ee, ok := err.(*exec.ExitError); ok {
			code = ee.ExitCode()
		}
	}
	out := stdout.Bytes()
	if idx := bytes.LastIndex(out, []byte("VLIB-RESULT ")); idx >= 0 && code == 0 {
		r := newRec()
		if e := json.Unmarshal(out[idx+len("VLIB-RESULT "):], r); e == nil {
			return r, "", 0
		} else {
			return nil, "bad worker result: " + e.Error(), -3
		}
	}
	tail := stderr.String()
	if len(tail) > 4000 {
		tail = tail[:2000] + "\n...\n" + tail[len(tail)-2000:]
	}
	return nil, tail, code
}

func merge(dst, src *Rec) {
	dst.Evals += src.Evals
	dst.NonTriv += src.NonTriv
	dst.States += src.States
	dst.Transitions += src.Transitions
	dst.Traces += src.Traces
	dst.Done += src.Done
	dst.Capped = dst.Capped || src.Capped
	for k, v := range src.Outcomes {
		dst.Outcomes[k] += v
	}
	for k, v := range src.Notes {
		dst.Notes[k] += v
	}
	for k, v := range src.MaxBound {
		if v > dst.MaxBound[k] {
			dst.MaxBound[k] = v
		}
	}
	for k, v := range src.ViolCount {
		dst.ViolCount[k] += v
	}
	dst.Viol = append(dst.Viol, src.Viol...)
	for _, s := range src.Samples {
		if len(dst.Samples) < 6 {
			dst.Samples = append(dst.Samples, s)
		}
	}
}

func deathKey(tail string) string {
	first := ""
	for _, l := range strings.Split(tail, "\n") {
		if strings.HasPrefix(l, "fatal error:") || strings.HasPrefix(l, "runtime:") || strings.HasPrefix(l, "VLIB-HANG") || strings.HasPrefix(l, "panic:") {
			first = l
			break
		}
	}
	if strings.HasPrefix(first, "VLIB-HANG") {
		first = "hang"
	}
	first = regexp.MustCompile(`[0-9]+`).ReplaceAllString(first, "N")
	if len(first) > 70 {
		first = first[:70]
	}
	fn := ""
	for _, m := range panicFrame.FindAllString(tail, -1) {
		if strings.Contains(m, "/internal/verif/") || strings.Contains(m, "/internal/vsched") {
			continue
		}
		fn = strings.TrimPrefix(m, "capnproto.org/go/capnp/v3")
		break
	}
	return "death:" + first + "@" + fn
}

func parentMain(spec Spec, fams []Family) {
	start := time.Now()
	W := *flagWorkers
	if W <= 0 {
		W = runtime.NumCPU()
	}
	if spec.SelfTest != nil {
		if err := spec.SelfTest(); err != nil {
			fmt.Fprintf(os.Stderr, "ENGINE-ERROR %s self-test: %v\n", spec.ID, err)
			os.Exit(2)
		}
	}
	deadline := *flagDeadline
	if deadline == 0 {
		if *flagTier == "quick" {
			deadline = 8 * time.Minute
		} else {
			deadline = 90 * time.Minute
		}
	}
	hard := deadline + 10*time.Minute
	total := newRec()
	famStats := []map[string]interface{}{}
	engineErr := ""
	for fi := range fams {
		f := &fams[fi]
		remaining := deadline - time.Since(start)
		if remaining < 5*time.Second {
			remaining = 5 * time.Second
		}
		w := W
		if f.Serial || f.N < int64(w) {
			w = 1
			if !f.Serial && f.N > 1 {
				w = int(f.N)
			}
		}
		results := make([]shardResult, w)
		var wg sync.WaitGroup
		for s := 0; s < w; s++ {
			wg.Add(1)
			go func(s int) {
				defer wg.Done()
				results[s] = runShard(spec, f, s, w, remaining, hard)
			}(s)
		}
		wg.Wait()
		fr := newRec()
		for _, sr := range results {
			if sr.death != "" {
				engineErr = sr.death
			}
			if sr.rec != nil {
				merge(fr, sr.rec)
			}
		}
		famStats = append(famStats, map[string]interface{}{
			"family": f.Name, "cases": f.N, "cases_done": fr.Done, "evaluations": fr.Evals,
			"nontrivial": fr.NonTriv, "complete": !fr.Capped && fr.Done == f.N,
		})
		merge(total, fr)
		if *flagVerbose {
			fmt.Fprintf(os.Stderr, "[%s] family %s: %d/%d cases, %d nontrivial, %d violation classes, %.1fs\n",
				spec.ID, f.Name, fr.Done, f.N, fr.NonTriv, len(fr.ViolCount), time.Since(start).Seconds())
		}
	}
	// classify violations (also when a shard failed: what was found is still shown)
	known := loadKnown(spec.ID)
	byKey := map[string][]Violation{}
	for _, v := range total.Viol {
		byKey[v.Key] = append(byKey[v.Key], v)
	}
	keys := []string{}
	for k := range byKey {
		keys = append(keys, k)
	}
	sort.Strings(keys)
	exit := 0
	nviol := 0
	knownHit := []string{}
	for _, k := range keys {
		vs := byKey[k]
		sort.Slice(vs, func(i, j int) bool {
			if vs[i].Family != vs[j].Family {
				return vs[i].Family < vs[j].Family
			}
			return vs[i].Index < vs[j].Index
		})
		if kf, ok := known[k]; ok {
			fmt.Printf("KNOWN-FINDING: property=%s %s [key=%s, %d cases this run]\n", spec.ID, kf.What, k, total.ViolCount[k])
			knownHit = append(knownHit, k)
			continue
		}
		v := vs[0]
		// confirm determinism: re-run the case 5x in fresh processes
		stable := true
		if !strings.HasPrefix(v.Key, "death:") {
			for n := 0; n < 5; n++ {
				r, _, _ := runWorker(append(baseArgs(), "-only", fmt.Sprintf("%s/%d", v.Family, v.Index)), 5*time.Minute)
				if r == nil || r.ViolCount[v.Key] == 0 {
					stable = false
					break
				}
			}
		}
		if !stable {
			fmt.Fprintf(os.Stderr, "ENGINE-ERROR %s: violation %s at %s/%d does not reproduce deterministically\n%s\n", spec.ID, v.Key, v.Family, v.Index, v.Detail)
			os.Exit(2)
		}
		nviol++
		path := writeReplay(spec, v)
		fmt.Printf("violation key=%s cases=%d first=%s/%d\n%s\n", k, total.ViolCount[k], v.Family, v.Index, indent(v.Detail))
		fmt.Printf("VIOLATION property=%s replay=%s\n", spec.ID, path)
		exit = 1
	}

	if engineErr != "" {
		fmt.Fprintf(os.Stderr, "ENGINE-ERROR %s: %s\n", spec.ID, engineErr)
		os.Exit(2)
	}
	writeEvidence(spec, total, famStats, nviol, knownHit, time.Since(start))
	if exit == 0 {
		fmt.Printf("OK property=%s tier=%s evaluations=%d nontrivial=%d states=%d transitions=%d outcome_classes=%d exhaustive=%v wall=%.1fs\n",
			spec.ID, *flagTier, total.Evals, total.NonTriv, total.States, total.Transitions, len(total.Outcomes), !total.Capped, time.Since(start).Seconds())
	}
	os.Exit(exit)
}

func indent(s string) string {
	if len(s) > 2500 {
		s = s[:2500] + "..."
	}
	return "    " + strings.Replace(s, "\n", "\n    ", -1)
}

func baseArgs() []string {
	a := []string{"-tier", *flagTier, "-known", *flagKnown}
	if *flagFams != "" {
		a = append(a, "-families", *flagFams)
	}
	return a
}

// runShard runs shard s of family f, restarting after worker deaths.
func runShard(spec Spec, f *Family, s, w int, soft, hard time.Duration) shardResult {
	args := append(baseArgs(), "-worker", fmt.Sprintf("%d/%d/%s", s, w, f.Name), "-deadline", soft.String())
	rec, tail, code := runWorker(args, hard)
	if rec != nil {
		return shardResult{rec: rec}
	}
	if code == -1 || code == -3 {
		return shardResult{death: tail}
	}
	// The worker died.  Re-run the shard in careful mode to find the culprit
	// case; record it as a violation and continue behind it.
	acc := newRec()
	from := int64(0)
	tmp, _ := ioutil.TempFile("", "vlib-progress")
	tmp.Close()
	defer os.Remove(tmp.Name())
	for deaths := 0; ; deaths++ {
		if deaths >= 8 {
			acc.Capped = true
			return shardResult{rec: acc}
		}
		os.Remove(tmp.Name())
		args := append(baseArgs(), "-worker", fmt.Sprintf("%d/%d/%s/%d", s, w, f.Name, from), "-deadline", soft.String(), "-careful", tmp.Name())
		rec, tail, code = runWorker(args, hard)
		if rec != nil {
			merge(acc, rec)
			return shardResult{rec: acc}
		}
		b, _ := ioutil.ReadFile(tmp.Name())
		idx, err := strconv.ParseInt(strings.TrimSpace(string(b)), 10, 64)
		if err != nil {
			return shardResult{death: fmt.Sprintf("worker died (exit %d) before its first case:\n%s", code, tail)}
		}
		// confirm: the single case must kill a fresh worker every time
		confirmed := 0
		for n := 0; n < 3; n++ {
			r, _, _ := runWorker(append(baseArgs(), "-only", fmt.Sprintf("%s/%d", f.Name, idx)), 5*time.Minute)
			if r == nil {
				confirmed++
			}
		}
		if confirmed != 3 {
			return shardResult{death: fmt.Sprintf("worker death at %s/%d not reproducible (%d/3):\n%s", f.Name, idx, confirmed, tail)}
		}
		v := Violation{Key: deathKey(tail), Family: f.Name, Index: idx, Detail: "worker process died (fatal error / hang) on this case:\n" + tail}
		if f.Describe != nil {
			v.Case = f.Describe(idx)
		}
		acc.ViolCount[v.Key]++
		if acc.ViolCount[v.Key] <= 3 {
			acc.Viol = append(acc.Viol, v)
		}
		acc.Evals++
		from = idx + 1
	}
}

func sanitize(s string) string {
	s = regexp.MustCompile(`[^A-Za-z0-9_.-]+`).ReplaceAllString(s, "_")
	if len(s) > 80 {
		s = s[:80]
	}
	return s
}

func writeReplay(spec Spec, v Violation) string {
	dir := *flagReplays
	if dir == "" {
		dir = "/verif/replays/" + spec.ID
	}
	os.MkdirAll(dir, 0755)
	p := filepath.Join(dir, sanitize(v.Key)+".json")
	b, _ := json.MarshalIndent(v, "", " ")
	ioutil.WriteFile(p, b, 0644)
	return p
}

func writeEvidence(spec Spec, t *Rec, famStats []map[string]interface{}, nviol int, knownHit []string, wall time.Duration) {
	if *flagEvidence == "" {
		return
	}
	type kv struct {
		K string
		V int64
	}
	var oc []kv
	for k, v := range t.Outcomes {
		oc = append(oc, kv{k, v})
	}
	sort.Slice(oc, func(i, j int) bool { return oc[i].V > oc[j].V || (oc[i].V == oc[j].V && oc[i].K < oc[j].K) })
	top := map[string]int64{}
	for i, e := range oc {
		if i >= 40 {
			break
		}
		top[e.K] = e.V
	}
	samples := t.Samples
	if len(samples) == 0 {
		samples = []interface{}{"(no sample recorded)"}
	}
	cov := map[string]interface{}{
		"evaluations":         t.Evals,
		"distinct_nontrivial": t.NonTriv,
		"rule":                spec.Rule,
		"samples":             samples,
		"exhaustive":          !t.Capped,
		"families":            famStats,
		"outcome_classes":     len(t.Outcomes),
		"outcomes_top":        top,
		"known_findings_hit":  knownHit,
	}
	if len(t.Notes) > 0 {
		cov["counters"] = t.Notes
	}
	if len(t.MaxBound) > 0 {
		cov["bounds_completed"] = t.MaxBound
	}
	if spec.Level == "model_checking" || t.States > 0 {
		cov["states"] = t.States
		cov["transitions"] = t.Transitions
		cov["traces_validated_against_impl"] = t.Traces
	}
	if spec.Extra != nil {
		for k, v := range spec.Extra(*flagTier) {
			cov[k] = v
		}
	}
	ev := map[string]interface{}{
		"property_id": spec.ID,
		"tier":        *flagTier,
		"seed":        Seed(),
		"level":       spec.Level,
		"coverage":    cov,
		"assumptions": spec.Assumptions,
		"wall_s":      float64(int(wall.Seconds()*10)) / 10,
		"violations":  nviol,
	}
	b, _ := json.MarshalIndent(ev, "", " ")
	os.MkdirAll(filepath.Dir(*flagEvidence), 0755)
	if err := ioutil.WriteFile(*flagEvidence, b, 0644); err != nil {
		fmt.Fprintf(os.Stderr, "engine error: %v\n", err)
		os.Exit(2)
	}
}
