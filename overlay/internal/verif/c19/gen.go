package main

import (
	"fmt"
	"reflect"

	capnp "capnproto.org/go/capnp/v3"
	"capnproto.org/go/capnp/v3/internal/verif/c15/sgen"
)

// flavours of generated mirrors (the Go types pogs documents per schema type).
var flavours = []flavour{
	{},
	{textBytes: true, structValue: true, groupPtr: true, ifaceWrap: true},
}

func genWrap(n *sgen.Node, s capnp.Struct) (reflect.Value, error) {
	p := sgen.Registry[n.File.Key]
	if p == nil {
		return reflect.Value{}, fmt.Errorf("package %s not linked", n.File.Key)
	}
	e := p.Structs[n.GoName]
	if e == nil {
		return reflect.Value{}, fmt.Errorf("no registry entry for %s.%s", n.File.Key, n.GoName)
	}
	return reflect.ValueOf(e.Wrap(s)), nil
}

// genSubjects builds StructOf mirrors for every struct of every linked
// generated package.
func genSubjects(u *sgen.Universe, full bool) []*subject {
	var out []*subject
	for fi, fl := range flavours {
		b := &mirrorBuilder{fl: fl, memo: map[*sgen.Node]*mirror{}}
		b.iface = func(n *sgen.Node) reflect.Type {
			if p := sgen.Registry[n.File.Key]; p != nil {
				if e := p.Ifaces[n.GoName]; e != nil {
					return reflect.TypeOf(e.Make(nil))
				}
			}
			return nil
		}
		for _, f := range u.Files {
			if sgen.Registry[f.Key] == nil {
				continue
			}
			for _, n := range f.Structs() {
				if n.ImplicitOf != "" {
					continue
				}
				if fi > 0 && !full && len(n.Fields) > 40 {
					// second flavour of the very wide union structs: thorough tier only
					continue
				}
				m := b.build(n)
				if len(m.fields) == 0 && m.which == nil {
					continue
				}
				out = append(out, &subject{origin: f.Key, m: m, wrap: genWrap, fl: fl.String()})
			}
		}
	}
	return out
}
