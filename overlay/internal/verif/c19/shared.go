package main

// One Go type mapped to two different schema nodes in the same process (and,
// per case, in both orders of first use): pogs must resolve the Go fields
// against the node it is given, not against whatever node the type was first
// used with.

import (
	"fmt"

	capnp "capnproto.org/go/capnp/v3"
	air "capnproto.org/go/capnp/v3/internal/aircraftlib"
	"capnproto.org/go/capnp/v3/internal/verif/vlib"
	"capnproto.org/go/capnp/v3/pogs"
)

func sharedTypeCase(i int64, r *vlib.Rec) {
	r.NonTrivial()
	useA := func(tag string) {
		_, seg, _ := capnp.NewMessage(capnp.SingleSegment(nil))
		s, _ := air.NewRootVerTwoDataTwoPtr(seg)
		in := &MTwoPtrs{Ptr1: &MVerOneData{Val: 11}, Ptr2: &MVerOneData{Val: 22}}
		if err := pogs.Insert(air.VerTwoDataTwoPtr_TypeID, s.Struct, in); err != nil {
			r.Failf("shared-go-type/insert-error", "%s: Insert into VerTwoDataTwoPtr: %v", tag, err)
			return
		}
		p1, _ := s.Ptr1()
		p2, _ := s.Ptr2()
		if !s.HasPtr1() || !s.HasPtr2() || p1.Val() != 11 || p2.Val() != 22 || s.Val() != 0 || s.Duo() != 0 {
			r.Failf("shared-go-type/insert-disagrees-with-getters", "%s: after Insert into VerTwoDataTwoPtr the generated getters give ptr1.val=%d ptr2.val=%d val=%d duo=%d (want 11 22 0 0)", tag, p1.Val(), p2.Val(), s.Val(), s.Duo())
			return
		}
		out := new(MTwoPtrs)
		if err := pogs.Extract(out, air.VerTwoDataTwoPtr_TypeID, s.Struct); err != nil {
			r.Failf("shared-go-type/extract-error", "%s: Extract from VerTwoDataTwoPtr: %v", tag, err)
			return
		}
		if out.Ptr1 == nil || out.Ptr2 == nil || out.Ptr1.Val != 11 || out.Ptr2.Val != 22 {
			r.Failf("shared-go-type/extract-disagrees-with-getters", "%s: Extract from VerTwoDataTwoPtr gives %+v", tag, out)
		}
	}
	useB := func(tag string) {
		_, seg, _ := capnp.NewMessage(capnp.SingleSegment(nil))
		s, _ := air.NewRootVerTwoPtr(seg)
		in := &MTwoPtrs{Ptr1: &MVerOneData{Val: 33}, Ptr2: &MVerOneData{Val: 44}}
		if err := pogs.Insert(air.VerTwoPtr_TypeID, s.Struct, in); err != nil {
			r.Failf("shared-go-type/insert-error", "%s: Insert into VerTwoPtr: %v", tag, err)
			return
		}
		p1, _ := s.Ptr1()
		p2, _ := s.Ptr2()
		if !s.HasPtr1() || !s.HasPtr2() || p1.Val() != 33 || p2.Val() != 44 {
			r.Failf("shared-go-type/insert-disagrees-with-getters", "%s: after Insert into VerTwoPtr the generated getters give has=%v,%v ptr1.val=%d ptr2.val=%d (want 33 44)", tag, s.HasPtr1(), s.HasPtr2(), p1.Val(), p2.Val())
			return
		}
		out := new(MTwoPtrs)
		if err := pogs.Extract(out, air.VerTwoPtr_TypeID, s.Struct); err != nil {
			r.Failf("shared-go-type/extract-error", "%s: Extract from VerTwoPtr: %v", tag, err)
			return
		}
		if out.Ptr1 == nil || out.Ptr2 == nil || out.Ptr1.Val != 33 || out.Ptr2.Val != 44 {
			r.Failf("shared-go-type/extract-disagrees-with-getters", "%s: Extract from VerTwoPtr gives %+v", tag, out)
		}
	}
	defer func() {
		if p := recover(); p != nil {
			r.Failf("shared-go-type/panic", "pogs panics when one Go type is used with a second schema node: %v", p)
		}
	}()
	if i == 0 {
		useA("VerTwoDataTwoPtr first")
		useB("VerTwoPtr second")
		useA("VerTwoDataTwoPtr again")
	} else {
		useB("VerTwoPtr first")
		useA("VerTwoDataTwoPtr second")
		useB("VerTwoPtr again")
	}
	r.Outcome(fmt.Sprintf("shared-go-type/order%d", i))
}

func sharedTypeFamily() vlib.Family {
	return vlib.Family{Name: "shared-go-type", N: 2, Run: sharedTypeCase,
		Describe: func(i int64) interface{} {
			return []string{"MTwoPtrs with VerTwoDataTwoPtr, then VerTwoPtr, then VerTwoDataTwoPtr", "MTwoPtrs with VerTwoPtr, then VerTwoDataTwoPtr, then VerTwoPtr"}[i]
		}}
}
