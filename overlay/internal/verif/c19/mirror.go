package main

import (
	"errors"
	"fmt"
	"math"
	"reflect"
	"strings"

	capnp "capnproto.org/go/capnp/v3"
	"capnproto.org/go/capnp/v3/internal/verif/c15/layout"
	"capnproto.org/go/capnp/v3/internal/verif/c15/sgen"
)

// mirror describes a Go struct type mapped onto a schema struct (or group)
// node, following the rules documented in pogs/doc.go.  For generated mirrors
// the mapping holds by construction (field name = Title(schema name)); for the
// hand-written aircraftlib mirrors it is written out by hand (air.go) — that
// table is the independent statement of the embedding / renaming rules.
type mirror struct {
	name   string
	typ    reflect.Type
	node   *sgen.Node
	fields map[string]*mfield // schema field name -> Go field
	which  []int              // index path of the Which field; nil if none
	fixed  int                // fixed discriminant (single mapped union field, no Which); -1 none
}

type mfield struct {
	path []int
	sub  *mirror // struct, group, list-of-struct element (through any list nesting)
}

var (
	tClient = reflect.TypeOf((*capnp.Client)(nil))
	tPtr    = reflect.TypeOf(capnp.Ptr{})
	tStruct = reflect.TypeOf(capnp.Struct{})
	tList   = reflect.TypeOf(capnp.List{})
	tBytes  = reflect.TypeOf([]byte(nil))
)

func title(s string) string { return strings.ToUpper(s[:1]) + s[1:] }

// flavour selects among the Go types pogs documents for a schema type.
type flavour struct {
	textBytes   bool // Text -> []byte instead of string
	structValue bool // struct fields by value instead of pointer
	groupPtr    bool // groups as pointer to struct
	ifaceWrap   bool // interface -> generated client struct instead of *capnp.Client
}

func (fl flavour) String() string {
	return fmt.Sprintf("textBytes=%v,structValue=%v,groupPtr=%v,ifaceWrap=%v", fl.textBytes, fl.structValue, fl.groupPtr, fl.ifaceWrap)
}

type mirrorBuilder struct {
	fl    flavour
	iface func(n *sgen.Node) reflect.Type // generated client type of an interface node
	memo  map[*sgen.Node]*mirror
}

func basicType(k sgen.Kind) reflect.Type {
	switch k {
	case sgen.Bool:
		return reflect.TypeOf(false)
	case sgen.Int8:
		return reflect.TypeOf(int8(0))
	case sgen.Int16:
		return reflect.TypeOf(int16(0))
	case sgen.Int32:
		return reflect.TypeOf(int32(0))
	case sgen.Int64:
		return reflect.TypeOf(int64(0))
	case sgen.Uint8:
		return reflect.TypeOf(uint8(0))
	case sgen.Uint16, sgen.Enum:
		return reflect.TypeOf(uint16(0))
	case sgen.Uint32:
		return reflect.TypeOf(uint32(0))
	case sgen.Uint64:
		return reflect.TypeOf(uint64(0))
	case sgen.Float32:
		return reflect.TypeOf(float32(0))
	case sgen.Float64:
		return reflect.TypeOf(float64(0))
	}
	return nil
}

// goType returns the Go type for a schema type, nil if pogs has no mapping
// (Void, List(Void)), and the mirror of the innermost struct if any.
func (b *mirrorBuilder) goType(t sgen.Type) (reflect.Type, *mirror) {
	switch t.Kind {
	case sgen.Void:
		return nil, nil
	case sgen.Text:
		if b.fl.textBytes {
			return tBytes, nil
		}
		return reflect.TypeOf(""), nil
	case sgen.Data:
		return tBytes, nil
	case sgen.Struct:
		m := b.build(t.Ref)
		if b.fl.structValue {
			return m.typ, m
		}
		return reflect.PtrTo(m.typ), m
	case sgen.List:
		et, m := b.goType(*t.Elem)
		if et == nil {
			return nil, nil
		}
		return reflect.SliceOf(et), m
	case sgen.Interface:
		if b.fl.ifaceWrap && b.iface != nil {
			if it := b.iface(t.Ref); it != nil {
				return it, nil
			}
		}
		return tClient, nil
	case sgen.AnyPointer:
		switch t.AnyKind {
		case 1:
			return tStruct, nil
		case 2:
			return tList, nil
		case 3:
			return tClient, nil
		}
		return tPtr, nil
	}
	return basicType(t.Kind), nil
}

// build creates (memoised) the reflect.StructOf mirror of a node.
func (b *mirrorBuilder) build(n *sgen.Node) *mirror {
	if m, ok := b.memo[n]; ok {
		return m
	}
	m := &mirror{name: n.GoName, node: n, fields: map[string]*mfield{}, fixed: -1}
	b.memo[n] = m
	var sf []reflect.StructField
	if n.DiscCount > 0 {
		m.which = []int{0}
		sf = append(sf, reflect.StructField{Name: "Which", Type: reflect.TypeOf(uint16(0))})
	}
	for _, f := range n.Fields {
		var ft reflect.Type
		var sub *mirror
		if f.Group != nil {
			sub = b.build(f.Group)
			ft = sub.typ
			if b.fl.groupPtr {
				ft = reflect.PtrTo(ft)
			}
		} else {
			ft, sub = b.goType(f.Type)
		}
		if ft == nil {
			continue
		}
		m.fields[f.Name] = &mfield{path: []int{len(sf)}, sub: sub}
		sf = append(sf, reflect.StructField{Name: title(f.Name), Type: ft})
	}
	m.typ = reflect.StructOf(sf)
	return m
}

// field returns the Go field for schema field name inside struct value v,
// allocating embedded pointers on the way when mk is set.
func fieldByPath(v reflect.Value, path []int, mk bool) reflect.Value {
	for i, x := range path {
		if i > 0 && v.Kind() == reflect.Ptr {
			if v.IsNil() {
				if !mk {
					return reflect.Value{}
				}
				v.Set(reflect.New(v.Type().Elem()))
			}
			v = v.Elem()
		}
		v = v.Field(x)
	}
	return v
}

// goTree turns a Go value of a mirror type into the neutral tree.  Fields of
// union members other than the one selected by Which are not part of the
// value (doc.go: "the Insert function will read the Which field to determine
// which field to set").
func goTree(v reflect.Value, m *mirror) (*tv, error) {
	t := &tv{K: sgen.Struct, Which: -1, Fields: map[string]*tv{}}
	n := m.node
	if n.DiscCount > 0 {
		switch {
		case m.which != nil:
			w := fieldByPath(v, m.which, false)
			if w.IsValid() {
				t.Which = int(w.Uint())
			} else {
				t.Which = 0
			}
		case m.fixed >= 0:
			t.Which = m.fixed
		default:
			t.Which = -2
		}
	}
	for _, f := range n.Fields {
		mf := m.fields[f.Name]
		if mf == nil {
			continue
		}
		if f.InUnion() && int(f.Disc) != t.Which {
			continue
		}
		fv := fieldByPath(v, mf.path, false)
		var x *tv
		var err error
		switch {
		case !fv.IsValid():
			// inside a nil embedded struct pointer: the zero value
			fv = reflect.Zero(m.typ.FieldByIndex(mf.path).Type)
			fallthrough
		default:
			if f.Group != nil {
				if fv.Kind() == reflect.Ptr {
					if fv.IsNil() {
						x = &tv{K: sgen.Struct, Open: true}
						break
					}
					fv = fv.Elem()
				}
				x, err = goTree(fv, mf.sub)
			} else {
				x, err = goValueTree(fv, f.Type, mf.sub, f.Def.HasPtr)
			}
		}
		if err != nil {
			return nil, fmt.Errorf("%s: %v", f.Name, err)
		}
		t.Fields[f.Name] = x
	}
	return t, nil
}

func goValueTree(fv reflect.Value, ty sgen.Type, sub *mirror, hasPtrDefault bool) (*tv, error) {
	x := &tv{K: ty.Kind}
	switch ty.Kind {
	case sgen.Text:
		if fv.Kind() == reflect.String {
			x.Str = fv.String()
		} else {
			x.Str = string(fv.Bytes())
		}
	case sgen.Data:
		x.Bytes = fv.Bytes()
		x.Null = fv.IsNil()
	case sgen.Struct:
		if fv.Kind() == reflect.Ptr {
			if fv.IsNil() {
				x.Null = true
				// null means "the default" on the wire: what a reader sees
				// for a nil Go pointer is then not nil; left open
				x.Open = hasPtrDefault
				return x, nil
			}
			fv = fv.Elem()
			return goTree(fv, sub)
		}
		t, err := goTree(fv, sub)
		if err == nil && fv.IsZero() {
			// a struct held by value cannot say "null"
			t.ZeroOK = true
		}
		return t, err
	case sgen.List:
		if fv.IsNil() {
			x.Null = true
			return x, nil
		}
		x.Elems = make([]*tv, fv.Len())
		for i := range x.Elems {
			e, err := goValueTree(fv.Index(i), *ty.Elem, sub, false)
			if err != nil {
				return nil, err
			}
			if e.K == sgen.Struct && e.Null {
				// a nil *T element is inserted as a zero struct (elements of a
				// struct list cannot be null on the wire); left open
				e.Open = true
			}
			x.Elems[i] = e
		}
	case sgen.Interface:
		if fv.Type() == tClient {
			x.Cap, _ = fv.Interface().(*capnp.Client)
		} else {
			x.Cap, _ = fv.FieldByName("Client").Interface().(*capnp.Client)
		}
	case sgen.AnyPointer:
		var p capnp.Ptr
		switch v := fv.Interface().(type) {
		case capnp.Ptr:
			p = v
		case capnp.Struct:
			p = v.ToPtr()
		case capnp.List:
			p = v.ToPtr()
		case *capnp.Client:
			x.Null = v == nil || !v.IsValid()
			if !x.Null {
				x.Canon = []byte(fmt.Sprintf("cap:%p", v))
			}
			return x, nil
		}
		return anyTree(p)
	default:
		x.Bits = sgen.BitsOf(fv)
	}
	return x, nil
}

// ---- leaves and value alphabets

// step is one field on the way from the base struct to a leaf.
type step struct {
	m *mirror
	f *sgen.Field
}

// leaf is a slot field (or void / group union member) reachable from the base
// mirror through groups.
type leaf struct {
	steps []step
}

func (l leaf) last() step { return l.steps[len(l.steps)-1] }

func (l leaf) String() string {
	var parts []string
	for _, s := range l.steps {
		parts = append(parts, s.f.Name)
	}
	return strings.Join(parts, ".")
}

func (l leaf) inUnion() bool {
	for _, s := range l.steps {
		if s.f.InUnion() {
			return true
		}
	}
	return false
}

// leaves lists the leaves of a mirror: mapped slot fields, void union
// members and member groups (as "select this arm" leaves), recursively.
func leaves(m *mirror, prefix []step) []leaf {
	var out []leaf
	for _, f := range m.node.Fields {
		st := append(append([]step{}, prefix...), step{m, f})
		mf := m.fields[f.Name]
		switch {
		case f.Group != nil:
			if mf == nil {
				continue
			}
			if f.InUnion() {
				out = append(out, leaf{st})
			}
			out = append(out, leaves(mf.sub, st)...)
		case f.Type.Kind == sgen.Void:
			if f.InUnion() && m.which != nil {
				out = append(out, leaf{st})
			}
		case mf != nil:
			out = append(out, leaf{st})
		}
	}
	return out
}

func dedup(vs []uint64) []uint64 {
	seen := map[uint64]bool{}
	var out []uint64
	for _, v := range vs {
		if !seen[v] {
			seen[v] = true
			out = append(out, v)
		}
	}
	return out
}

func bitsAlphabet(k sgen.Kind, def uint64) []uint64 {
	if k == sgen.Bool {
		return []uint64{0, 1}
	}
	w := k.Bits()
	m := func(v uint64) uint64 { return layout.Mask(w, v) }
	return dedup([]uint64{0, 1, m(^uint64(0)), uint64(1) << uint(w-1), m(0x5A5A5A5A5A5A5A5A), def, m(^def)})
}

// nAlts is the size of the value alphabet of a leaf.
func nAlts(l leaf) int {
	f := l.last().f
	if f.Group != nil || f.Type.Kind == sgen.Void {
		return 1
	}
	switch f.Type.Kind {
	case sgen.Text:
		return 4
	case sgen.Data, sgen.AnyPointer:
		return 3
	case sgen.Struct:
		return 3
	case sgen.List:
		return 4
	case sgen.Interface:
		return 2
	}
	return len(bitsAlphabet(f.Type.Kind, f.Def.Bits))
}

var theClient = capnp.ErrorClient(errors.New("c19 capability"))

// scratch holds objects referenced by AnyPointer values.
var scratchSeg *capnp.Segment

func scratch() *capnp.Segment {
	if scratchSeg == nil {
		_, scratchSeg, _ = capnp.NewMessage(capnp.SingleSegment(nil))
	}
	return scratchSeg
}

func setBits(fv reflect.Value, k sgen.Kind, bits uint64) {
	switch fv.Kind() {
	case reflect.Bool:
		fv.SetBool(bits&1 != 0)
	case reflect.Int8:
		fv.SetInt(int64(int8(bits)))
	case reflect.Int16:
		fv.SetInt(int64(int16(bits)))
	case reflect.Int32:
		fv.SetInt(int64(int32(bits)))
	case reflect.Int64:
		fv.SetInt(int64(bits))
	case reflect.Uint8, reflect.Uint16, reflect.Uint32, reflect.Uint64:
		fv.SetUint(layout.Mask(k.Bits(), bits))
	case reflect.Float32:
		fv.Set(reflect.ValueOf(math.Float32frombits(uint32(bits))))
	case reflect.Float64:
		fv.SetFloat(math.Float64frombits(bits))
	}
}

// fillStruct sets a recognisable value into a struct of mirror m: its first
// data leaf gets seed, its first text leaf "s<seed>".
func fillStruct(v reflect.Value, m *mirror, seed uint64) {
	doneData, doneText := false, false
	for _, l := range leaves(m, nil) {
		f := l.last().f
		if f.Group != nil || l.inUnion() {
			continue
		}
		k := f.Type.Kind
		switch {
		case !doneData && !k.IsPtr() && k != sgen.Void && k != sgen.Bool:
			assignLeafBits(v, l, seed)
			doneData = true
		case !doneText && k == sgen.Text:
			fv := leafField(v, l)
			if fv.Kind() == reflect.String {
				fv.SetString(fmt.Sprintf("s%d", seed))
			} else {
				fv.SetBytes([]byte(fmt.Sprintf("s%d", seed)))
			}
			doneText = true
		}
	}
}

// leafField walks to the Go field of a leaf, setting the Which fields of the
// unions on the way and allocating pointer groups.
func leafField(v reflect.Value, l leaf) reflect.Value {
	for i, s := range l.steps {
		if s.f.InUnion() && s.m.which != nil {
			fieldByPath(v, s.m.which, true).SetUint(uint64(s.f.Disc))
		}
		mf := s.m.fields[s.f.Name]
		if mf == nil {
			return reflect.Value{} // void member: only the Which was to be set
		}
		fv := fieldByPath(v, mf.path, true)
		if i == len(l.steps)-1 {
			return fv
		}
		if fv.Kind() == reflect.Ptr {
			if fv.IsNil() {
				fv.Set(reflect.New(fv.Type().Elem()))
				allocGroups(fv.Elem(), mf.sub)
			}
			fv = fv.Elem()
		}
		v = fv
	}
	return reflect.Value{}
}

func assignLeafBits(v reflect.Value, l leaf, bits uint64) {
	setBits(leafField(v, l), l.last().f.Type.Kind, bits)
}

// elemValue builds list element i (seed distinguishes elements).
func elemValue(et reflect.Type, ty sgen.Type, sub *mirror, seed uint64) reflect.Value {
	e := reflect.New(et).Elem()
	switch ty.Kind {
	case sgen.Text:
		s := fmt.Sprintf("t%d", seed)
		if seed == 2 {
			s = ""
		}
		if et.Kind() == reflect.String {
			e.SetString(s)
		} else {
			e.SetBytes([]byte(s))
		}
	case sgen.Data:
		if seed != 2 {
			e.SetBytes([]byte{byte(seed), 0, 0xff})
		}
	case sgen.Struct:
		if et.Kind() == reflect.Ptr {
			e.Set(reflect.New(et.Elem()))
			fillStruct(e.Elem(), sub, seed)
		} else {
			fillStruct(e, sub, seed)
		}
	case sgen.List:
		e.Set(reflect.MakeSlice(et, int(seed), int(seed)))
		for i := 0; i < int(seed); i++ {
			e.Index(i).Set(elemValue(et.Elem(), *ty.Elem, sub, seed+uint64(i)))
		}
	case sgen.Interface:
		if et == tClient {
			e.Set(reflect.ValueOf(theClient))
		} else {
			e.FieldByName("Client").Set(reflect.ValueOf(theClient))
		}
	default:
		w := ty.Kind.Bits()
		setBits(e, ty.Kind, layout.Mask(w, seed*0x0101010101010101^(uint64(1)<<uint(w-1))))
	}
	return e
}

// assign sets leaf l of Go value v (addressable struct) to alternative alt.
func assign(v reflect.Value, l leaf, alt int) {
	s := l.last()
	f := s.f
	fv := leafField(v, l)
	if f.Group != nil {
		// selecting a group arm: a pointer-typed group gets its (zero) struct
		if fv.IsValid() && fv.Kind() == reflect.Ptr && fv.IsNil() {
			fv.Set(reflect.New(fv.Type().Elem()))
			allocGroups(fv.Elem(), s.m.fields[f.Name].sub)
		}
		return
	}
	if f.Type.Kind == sgen.Void || !fv.IsValid() {
		return
	}
	mf := s.m.fields[f.Name]
	ty := f.Type
	switch ty.Kind {
	case sgen.Text:
		// alt 3: the empty text again (for []byte fields: empty but not nil)
		str := []string{"", "a", "héllo wörld", ""}[alt]
		if fv.Kind() == reflect.String {
			fv.SetString(str)
		} else if alt == 0 {
			fv.Set(reflect.Zero(fv.Type()))
		} else {
			fv.SetBytes([]byte(str))
		}
	case sgen.Data:
		switch alt {
		case 0:
			fv.Set(reflect.Zero(fv.Type()))
		case 1:
			fv.SetBytes([]byte{})
		default:
			fv.SetBytes([]byte{1, 0, 0xff})
		}
	case sgen.Struct:
		ptr := fv.Kind() == reflect.Ptr
		switch {
		case alt == 0:
			fv.Set(reflect.Zero(fv.Type()))
		case ptr:
			fv.Set(reflect.New(fv.Type().Elem()))
			if alt == 2 {
				fillStruct(fv.Elem(), mf.sub, 7)
			}
		default:
			if alt == 2 {
				fillStruct(fv, mf.sub, 7)
			}
		}
	case sgen.List:
		switch alt {
		case 0:
			fv.Set(reflect.Zero(fv.Type()))
		default:
			n := alt - 1
			fv.Set(reflect.MakeSlice(fv.Type(), n, n))
			for i := 0; i < n; i++ {
				fv.Index(i).Set(elemValue(fv.Type().Elem(), *ty.Elem, mf.sub, uint64(i+1)))
			}
		}
	case sgen.Interface:
		var c *capnp.Client
		if alt == 1 {
			c = theClient
		}
		if fv.Type() == tClient {
			fv.Set(reflect.ValueOf(c))
		} else {
			fv.FieldByName("Client").Set(reflect.ValueOf(c))
		}
	case sgen.AnyPointer:
		seg := scratch()
		var p capnp.Ptr
		switch {
		case alt == 0:
		case alt == 1 && ty.AnyKind != 2 || ty.AnyKind == 1:
			st, _ := capnp.NewStruct(seg, capnp.ObjectSize{DataSize: 8, PointerCount: 1})
			st.SetUint64(0, 0x1122334455667788*uint64(alt))
			p = st.ToPtr()
		default:
			tl, _ := capnp.NewTextList(seg, 2)
			tl.Set(0, "any")
			p = tl.List.ToPtr()
		}
		switch fv.Type() {
		case tPtr:
			fv.Set(reflect.ValueOf(p))
		case tStruct:
			fv.Set(reflect.ValueOf(p.Struct()))
		case tList:
			fv.Set(reflect.ValueOf(p.List()))
		case tClient:
			if alt == 0 {
				fv.Set(reflect.Zero(tClient))
			} else {
				fv.Set(reflect.ValueOf(theClient))
			}
		}
	default:
		setBits(fv, ty.Kind, bitsAlphabet(ty.Kind, f.Def.Bits)[alt])
	}
}

// activeMask computes which data bits and pointer slots of the base struct
// may be written for Go value tree t of mirror m: the tag of every live union,
// every live mapped field (recursively through groups).
func activeMask(t *tv, m *mirror, data []bool, slots []bool) {
	n := m.node
	if n.DiscCount > 0 && t.Which != -2 {
		s, w := layout.DiscriminantBits(n.DiscOffset)
		for b := s; b < s+w && b < len(data); b++ {
			data[b] = true
		}
	}
	for _, f := range n.Fields {
		x, live := t.Fields[f.Name]
		if !live {
			continue
		}
		switch {
		case f.Group != nil:
			if x != nil && !x.Open && m.fields[f.Name] != nil {
				activeMask(x, m.fields[f.Name].sub, data, slots)
			}
		case f.Type.Kind == sgen.Void:
		case f.Type.Kind.IsPtr():
			if int(f.Offset) < len(slots) {
				slots[f.Offset] = true
			}
		default:
			s, w := layout.FieldBits(f.Type.Kind.Bits(), f.Offset)
			for b := s; b < s+w && b < len(data); b++ {
				data[b] = true
			}
		}
	}
}

// allocGroups gives every group that is held by pointer and is not a union
// member its zero struct (recursively).
func allocGroups(v reflect.Value, m *mirror) {
	for _, f := range m.node.Fields {
		mf := m.fields[f.Name]
		if f.Group == nil || mf == nil || f.InUnion() {
			continue
		}
		fv := fieldByPath(v, mf.path, true)
		if fv.Kind() == reflect.Ptr {
			if fv.IsNil() {
				fv.Set(reflect.New(fv.Type().Elem()))
			}
			fv = fv.Elem()
		}
		allocGroups(fv, mf.sub)
	}
}

// hasPtrGroup reports whether the mirror holds a non-member group by pointer.
func hasPtrGroup(m *mirror) bool {
	for _, f := range m.node.Fields {
		mf := m.fields[f.Name]
		if f.Group == nil || mf == nil {
			continue
		}
		if !f.InUnion() && m.typ.FieldByIndex(mf.path).Type.Kind() == reflect.Ptr {
			return true
		}
		if hasPtrGroup(mf.sub) {
			return true
		}
	}
	return false
}
