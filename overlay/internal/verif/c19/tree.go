package main

import (
	"bytes"
	"fmt"
	"math"
	"reflect"
	"sort"

	capnp "capnproto.org/go/capnp/v3"
	"capnproto.org/go/capnp/v3/internal/verif/c15/sgen"
)

// tv is a neutral value tree.  A message is turned into a tree by the
// generated accessors (getTree), a Go value of a mirror type by walking it
// with the documented pogs mapping (goTree); the property compares the two.
type tv struct {
	K      sgen.Kind
	Bits   uint64
	Str    string
	Bytes  []byte
	Null   bool // pointer kinds: no object
	Open   bool // comparison left open (see goTree)
	ZeroOK bool // a zero struct held by value in Go: also equal to a null pointer
	Which  int  // struct with a union: the tag; -1 no union; -2 not mapped
	Fields map[string]*tv
	Elems  []*tv
	Cap    *capnp.Client
	Canon  []byte
}

// eqTree compares a (from a Go value; may map only some fields) with b (from
// the message).  nil and empty slices / byte strings are the same value.
// Returns "" or a description "path: difference" plus the kind of the field.
func eqTree(a, b *tv, path string) (string, string) {
	if a == nil || b == nil {
		if a == b {
			return "", ""
		}
		return path + ": only one side has the field", "missing"
	}
	if a.Open || b.Open {
		return "", ""
	}
	if a.K != b.K {
		return fmt.Sprintf("%s: kinds %v / %v", path, a.K, b.K), a.K.String()
	}
	kind := a.K.String()
	switch a.K {
	case sgen.Void:
	case sgen.Text:
		if a.Str != b.Str {
			return fmt.Sprintf("%s: text %q / %q", path, a.Str, b.Str), kind
		}
	case sgen.Data:
		if !bytes.Equal(a.Bytes, b.Bytes) {
			return fmt.Sprintf("%s: data %x / %x", path, a.Bytes, b.Bytes), kind
		}
	case sgen.List:
		if len(a.Elems) != len(b.Elems) {
			return fmt.Sprintf("%s: list lengths %d / %d (null %v / %v)", path, len(a.Elems), len(b.Elems), a.Null, b.Null), "list"
		}
		for i := range a.Elems {
			if d, k := eqTree(a.Elems[i], b.Elems[i], fmt.Sprintf("%s[%d]", path, i)); d != "" {
				return d, "list-of-" + k
			}
		}
	case sgen.Struct:
		if a.Null != b.Null {
			if (a.ZeroOK && b.Null) || (b.ZeroOK && a.Null) {
				return "", ""
			}
			return fmt.Sprintf("%s: struct null %v / %v", path, a.Null, b.Null), kind
		}
		if a.Null {
			return "", ""
		}
		if a.Which != -2 && b.Which != -2 && a.Which != b.Which {
			return fmt.Sprintf("%s: Which %d / %d", path, a.Which, b.Which), "which"
		}
		keys := make([]string, 0, len(a.Fields))
		for k := range a.Fields {
			keys = append(keys, k)
		}
		sort.Strings(keys)
		for _, k := range keys {
			bf, ok := b.Fields[k]
			if !ok {
				return fmt.Sprintf("%s.%s: live in the Go value, not live in the message", path, k), "which"
			}
			if d, kk := eqTree(a.Fields[k], bf, path+"."+k); d != "" {
				return d, kk
			}
		}
	case sgen.Interface:
		av, bv := a.Cap != nil && a.Cap.IsValid(), b.Cap != nil && b.Cap.IsValid()
		if av != bv || (av && a.Cap != b.Cap) {
			return fmt.Sprintf("%s: capability %v / %v", path, a.Cap, b.Cap), kind
		}
	case sgen.AnyPointer:
		if a.Null != b.Null || !bytes.Equal(a.Canon, b.Canon) {
			return fmt.Sprintf("%s: pointer %x / %x", path, a.Canon, b.Canon), kind
		}
	default:
		if a.Bits != b.Bits {
			return fmt.Sprintf("%s: %v bits %#x / %#x", path, a.K, a.Bits, b.Bits), kind
		}
	}
	return "", ""
}

// wrapFn returns the generated wrapper of a struct node.
type wrapFn func(n *sgen.Node, s capnp.Struct) (reflect.Value, error)

func must(out []reflect.Value, pan interface{}, err error) ([]reflect.Value, error) {
	if err != nil {
		return nil, err
	}
	if pan != nil {
		return nil, fmt.Errorf("generated accessor panics: %v", pan)
	}
	return out, nil
}

func errOf(v reflect.Value) error {
	e, _ := v.Interface().(error)
	return e
}

// getTree reads a struct (or group) through its generated accessors.
func getTree(w reflect.Value, n *sgen.Node, wrap wrapFn) (*tv, error) {
	t := &tv{K: sgen.Struct, Which: -1, Fields: map[string]*tv{}}
	if n.DiscCount > 0 {
		out, err := must(sgen.Call(w, "Which"))
		if err != nil {
			return nil, err
		}
		t.Which = int(out[0].Uint())
	}
	for _, f := range n.Fields {
		if f.InUnion() && int(f.Disc) != t.Which {
			continue
		}
		g := f.GoName()
		if f.Group != nil {
			out, err := must(sgen.Call(w, g))
			if err != nil {
				return nil, err
			}
			sub, err := getTree(out[0], f.Group, wrap)
			if err != nil {
				return nil, err
			}
			t.Fields[f.Name] = sub
			continue
		}
		k := f.Type.Kind
		if k == sgen.Void {
			t.Fields[f.Name] = &tv{K: sgen.Void}
			continue
		}
		out, err := must(sgen.Call(w, g))
		if err != nil {
			return nil, fmt.Errorf("%s: %v", f.Name, err)
		}
		if len(out) == 2 {
			if e := errOf(out[1]); e != nil {
				return nil, fmt.Errorf("%s(): %v", g, e)
			}
		}
		x := &tv{K: k}
		switch k {
		case sgen.Text:
			x.Str = out[0].String()
		case sgen.Data:
			x.Bytes = out[0].Bytes()
			x.Null = out[0].IsNil()
		case sgen.Struct:
			st := out[0].FieldByName("Struct").Interface().(capnp.Struct)
			if !st.IsValid() {
				x.Null = true
			} else if x, err = getTree(out[0], f.Type.Ref, wrap); err != nil {
				return nil, err
			}
		case sgen.List:
			l := out[0].FieldByName("List").Interface().(capnp.List)
			if x, err = listTree(l, *f.Type.Elem, wrap); err != nil {
				return nil, fmt.Errorf("%s: %v", f.Name, err)
			}
		case sgen.Interface:
			x.Cap, _ = out[0].FieldByName("Client").Interface().(*capnp.Client)
		case sgen.AnyPointer:
			var p capnp.Ptr
			switch v := out[0].Interface().(type) {
			case capnp.Ptr:
				p = v
			case capnp.Struct:
				p = v.ToPtr()
			case capnp.List:
				p = v.ToPtr()
			}
			if x, err = anyTree(p); err != nil {
				return nil, err
			}
		default:
			x.Bits = sgen.BitsOf(out[0])
		}
		t.Fields[f.Name] = x
	}
	return t, nil
}

func anyTree(p capnp.Ptr) (*tv, error) {
	x := &tv{K: sgen.AnyPointer}
	if !p.IsValid() {
		x.Null = true
		return x, nil
	}
	if p.Interface().IsValid() && !p.Struct().IsValid() && !p.List().IsValid() {
		// capabilities cannot be copied between messages; compare the client
		x.Canon = []byte(fmt.Sprintf("cap:%p", p.Interface().Client()))
		return x, nil
	}
	c, err := sgen.Canon(p)
	x.Canon = c
	return x, err
}

// listTree reads a list with library primitives (struct elements through the
// generated wrapper of the element type).
func listTree(l capnp.List, et sgen.Type, wrap wrapFn) (*tv, error) {
	x := &tv{K: sgen.List}
	if !l.IsValid() {
		x.Null = true
		return x, nil
	}
	n := l.Len()
	x.Elems = make([]*tv, n)
	for i := 0; i < n; i++ {
		e := &tv{K: et.Kind}
		switch et.Kind {
		case sgen.Void:
		case sgen.Bool:
			if (capnp.BitList{List: l}).At(i) {
				e.Bits = 1
			}
		case sgen.Int8, sgen.Uint8:
			e.Bits = uint64(capnp.UInt8List{List: l}.At(i))
		case sgen.Int16, sgen.Uint16, sgen.Enum:
			e.Bits = uint64(capnp.UInt16List{List: l}.At(i))
		case sgen.Int32, sgen.Uint32:
			e.Bits = uint64(capnp.UInt32List{List: l}.At(i))
		case sgen.Float32:
			e.Bits = uint64(math.Float32bits(capnp.Float32List{List: l}.At(i)))
		case sgen.Int64, sgen.Uint64:
			e.Bits = capnp.UInt64List{List: l}.At(i)
		case sgen.Float64:
			e.Bits = math.Float64bits(capnp.Float64List{List: l}.At(i))
		case sgen.Text:
			s, err := capnp.TextList{List: l}.At(i)
			if err != nil {
				return nil, err
			}
			e.Str = s
		case sgen.Data:
			b, err := capnp.DataList{List: l}.At(i)
			if err != nil {
				return nil, err
			}
			e.Bytes = b
		case sgen.Struct:
			w, err := wrap(et.Ref, l.Struct(i))
			if err != nil {
				return nil, err
			}
			if e, err = getTree(w, et.Ref, wrap); err != nil {
				return nil, err
			}
		case sgen.List:
			p, err := capnp.PointerList{List: l}.At(i)
			if err != nil {
				return nil, err
			}
			if e, err = listTree(p.List(), *et.Elem, wrap); err != nil {
				return nil, err
			}
		case sgen.Interface:
			p, err := capnp.PointerList{List: l}.At(i)
			if err != nil {
				return nil, err
			}
			e.Cap = p.Interface().Client()
		default:
			return nil, fmt.Errorf("list element kind %v", et.Kind)
		}
		x.Elems[i] = e
	}
	return x, nil
}
