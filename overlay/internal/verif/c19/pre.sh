#!/bin/bash
# pre.sh <builddir> <tier>: C19 links the generated schema family of C15; same
# multi-stage build (internal/verif/c15/sgen/pipeline.go), driven by the
# stage-1 harness binary that vcheck has just built.
set -u
B=$1; TIER=$2
cp "$B/harness" "$B/harness.stage1" || exit 1
VERIF_C15_PIPELINE="$B" VERIF_C15_TIER="$TIER" exec "$B/harness.stage1"
