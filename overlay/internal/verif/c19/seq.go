package main

import (
	"bytes"
	"fmt"
	"reflect"
	"strings"

	capnp "capnproto.org/go/capnp/v3"
	"capnproto.org/go/capnp/v3/internal/verif/c15/layout"
	"capnproto.org/go/capnp/v3/internal/verif/c15/sgen"
	"capnproto.org/go/capnp/v3/internal/verif/vlib"
	"capnproto.org/go/capnp/v3/pogs"
)

// scase is a message built "by other means": a sequence of generated setter
// calls (leaf indexes), each with the leaf's representative value.  Switching
// union arms leaves the old arm's bytes in place.
type scase struct {
	s   *subject
	ops []int
}

func (c scase) String() string {
	var parts []string
	for _, op := range c.ops {
		parts = append(parts, "set "+c.s.lv[op].String())
	}
	return c.s.String() + " " + strings.Join(parts, "; ")
}

func addSeqCases(w *world, s *subject, allPairs, triples bool) {
	n := len(s.lv)
	for i := 0; i < n; i++ {
		w.seqs = append(w.seqs, scase{s, []int{i}})
	}
	few := 6
	if allPairs {
		few = 8 // thorough tier
	}
	for _, ij := range pairIndexes(n, n <= 30 || (allPairs && n <= 60), few) {
		w.seqs = append(w.seqs, scase{s, []int{ij[0], ij[1]}})
	}
	if triples && n <= 14 {
		for i := 0; i < n; i++ {
			for j := 0; j < n; j++ {
				for k := 0; k < n; k++ {
					if i != j && j != k {
						w.seqs = append(w.seqs, scase{s, []int{i, j, k}})
					}
				}
			}
		}
	}
}

func fillList(l capnp.List, et sgen.Type, seed uint64) error {
	for i := 0; i < l.Len(); i++ {
		v := seed + uint64(i)*0x11
		switch et.Kind {
		case sgen.Bool:
			capnp.BitList{List: l}.Set(i, v&1 != 0)
		case sgen.Int8, sgen.Uint8:
			capnp.UInt8List{List: l}.Set(i, uint8(v))
		case sgen.Int16, sgen.Uint16, sgen.Enum:
			capnp.UInt16List{List: l}.Set(i, uint16(v))
		case sgen.Int32, sgen.Uint32, sgen.Float32:
			capnp.UInt32List{List: l}.Set(i, uint32(v)|0x3f800000)
		case sgen.Int64, sgen.Uint64, sgen.Float64:
			capnp.UInt64List{List: l}.Set(i, v|0x3ff0000000000000)
		case sgen.Text:
			if err := (capnp.TextList{List: l}).Set(i, fmt.Sprintf("e%d", v)); err != nil {
				return err
			}
		case sgen.Data:
			if err := (capnp.DataList{List: l}).Set(i, []byte{byte(v), 0}); err != nil {
				return err
			}
		case sgen.Struct:
			if et.Ref.DataWords > 0 {
				l.Struct(i).SetUint64(0, v)
			}
		case sgen.List:
			in, err := sgen.BuildList(l.Segment(), *et.Elem, sgen.Default{Elems: []uint64{v, v + 1}, Strs: []string{"n"}})
			if err != nil {
				return err
			}
			if err := (capnp.PointerList{List: l}).Set(i, in.ToPtr()); err != nil {
				return err
			}
		case sgen.Interface:
			c := capnp.NewInterface(l.Segment(), l.Message().AddCap(theClient))
			if err := (capnp.PointerList{List: l}).Set(i, c.ToPtr()); err != nil {
				return err
			}
		}
	}
	return nil
}

// applySetter drives the generated setters for one leaf.
func applySetter(w reflect.Value, l leaf, seed uint64) error {
	cur := w
	call := func(v reflect.Value, name string, args ...interface{}) ([]reflect.Value, error) {
		out, err := must(sgen.Call(v, name, args...))
		if err != nil {
			return nil, fmt.Errorf("%s: %v", name, err)
		}
		if n := len(out); n > 0 {
			if e := errOf(out[n-1]); e != nil {
				return nil, fmt.Errorf("%s: %v", name, e)
			}
		}
		return out, nil
	}
	for i, s := range l.steps {
		f := s.f
		g := f.GoName()
		last := i == len(l.steps)-1
		if f.Group != nil {
			if f.InUnion() {
				if _, err := call(cur, "Set"+g); err != nil {
					return err
				}
			}
			if last {
				return nil
			}
			out, err := call(cur, g)
			if err != nil {
				return err
			}
			cur = out[0]
			continue
		}
		k := f.Type.Kind
		switch k {
		case sgen.Void:
			_, err := call(cur, "Set"+g)
			return err
		case sgen.Text:
			_, err := call(cur, "Set"+g, fmt.Sprintf("txt%d", seed))
			return err
		case sgen.Data:
			_, err := call(cur, "Set"+g, []byte{byte(seed), 0xff})
			return err
		case sgen.Struct:
			out, err := call(cur, "New"+g)
			if err != nil {
				return err
			}
			st := out[0].FieldByName("Struct").Interface().(capnp.Struct)
			if f.Type.Ref.DataWords > 0 {
				st.SetUint64(0, seed*0x0101010101010101)
			}
			return nil
		case sgen.List:
			out, err := call(cur, "New"+g, int32(2))
			if err != nil {
				return err
			}
			return fillList(out[0].FieldByName("List").Interface().(capnp.List), *f.Type.Elem, seed)
		case sgen.Interface:
			m := cur.MethodByName("Set" + g)
			if !m.IsValid() {
				return fmt.Errorf("no Set%s", g)
			}
			a := reflect.New(m.Type().In(0)).Elem()
			a.FieldByName("Client").Set(reflect.ValueOf(theClient))
			_, err := call(cur, "Set"+g, a)
			return err
		case sgen.AnyPointer:
			seg := cur.Field(0).Interface().(capnp.Struct).Segment()
			var p capnp.Ptr
			switch f.Type.AnyKind {
			case 2:
				tl, _ := capnp.NewTextList(seg, 1)
				tl.Set(0, "al")
				p = tl.List.ToPtr()
			case 3:
				p = capnp.NewInterface(seg, seg.Message().AddCap(theClient)).ToPtr()
			default:
				st, _ := capnp.NewStruct(seg, capnp.ObjectSize{DataSize: 8})
				st.SetUint64(0, seed)
				p = st.ToPtr()
			}
			_, err := call(cur, "Set"+g, p)
			return err
		default:
			w := k.Bits()
			bits := layout.Mask(w, seed*0x0101010101010101|uint64(1)<<uint(w-1))
			if k == sgen.Bool {
				bits = 1
			}
			_, err := call(cur, "Set"+g, sgen.GoValue(k, bits))
			return err
		}
	}
	return nil
}

// seqCase: build with generated setters, Extract must agree with getters;
// then Insert of the extracted value in place may only rewrite live fields.
func seqCase(c scase, r *vlib.Rec) {
	s := c.s
	where := c.String()
	msg, st, err := newRoot(s.m.node)
	if err != nil {
		r.Fail("harness", err.Error())
		return
	}
	w, err := s.wrap(s.m.node, st)
	if err != nil {
		r.Fail("harness", err.Error())
		return
	}
	for i, op := range c.ops {
		if err := applySetter(w, s.lv[op], uint64(i+3)); err != nil {
			r.Failf("harness", "%s: generated setter: %v", where, err)
			return
		}
	}
	r.NonTrivial()
	g2, tGet, ok := checkMessage(s, st, r, where)
	if !ok {
		return
	}
	// (e) Which = discriminant, raw
	data, ptrs := structBytes(msg, s.m.node)
	t2, _ := goTree(g2.Elem(), s.m)
	if s.m.node.DiscCount > 0 && t2.Which >= 0 && data != nil {
		ts, tn := layout.DiscriminantBits(s.m.node.DiscOffset)
		if got := layout.GetBits(data, ts, tn); int(got) != t2.Which {
			r.Failf("extract-wrong-which", "%s: tag bits in the message = %d, extracted Which = %d", where, got, t2.Which)
			return
		}
	}
	// Insert in place: stale bytes of inactive arms must survive
	beforeData := append([]byte{}, data...)
	beforePtrs := append([]byte{}, ptrs...)
	if err := pogs.Insert(s.m.node.ID, st, g2.Interface()); err != nil {
		r.Failf("insert-error/"+errKey(err), "%s: Insert of the extracted value: %v", where, err)
		return
	}
	data, ptrs = structBytes(msg, s.m.node)
	if !bytes.Equal(data, beforeData) {
		r.Failf("insert-in-place-changes-data", "%s: re-inserting the extracted value changed the data section (live values are equal, inactive arms must not be written)\n before %x\n after  %x", where, beforeData, data)
		return
	}
	if ptrs != nil {
		dm := make([]bool, 8*len(data))
		sm := make([]bool, len(ptrs)/8)
		activeMask(t2, s.m, dm, sm)
		for i := range sm {
			if !sm[i] && layout.Word(ptrs, i) != layout.Word(beforePtrs, i) {
				r.Failf("insert-in-place-writes-inactive-pointer", "%s: pointer slot %d belongs to no live mapped field but was rewritten by Insert", where, i)
				return
			}
		}
	}
	// and the message still means the same
	tAfter, err := getTree(w, s.m.node, s.wrap)
	if err != nil {
		r.Failf("insert-unreadable/"+errKey(err), "%s: after Insert in place: %v", where, err)
		return
	}
	if d, k := eqTree(t2, tAfter, ""); d != "" {
		r.Failf("insert-disagrees-with-getters/"+firstKind(k), "%s: after Insert in place: %s", where, d)
		return
	}
	_ = tGet
	r.Outcome(fmt.Sprintf("sequence-ok/%d-setters", len(c.ops)))
}
