// C19 — pogs round-trips and agrees with generated accessors.
//
// Schemas: internal/aircraftlib (hand-written mirror types, air.go, including
// embedded, renamed, omitted and fixed-union variants) and the generated
// family of C15 (same multi-stage pipeline, see pre.sh), whose mirror types
// are built with reflect.StructOf.  Every Go value and every setter-built
// message of the enumeration goes through pogs.Insert / pogs.Extract and is
// compared with what the generated accessors read from the same message.
package main

import (
	"fmt"
	"os"
	"reflect"
	"regexp"
	"strings"

	capnp "capnproto.org/go/capnp/v3"
	"capnproto.org/go/capnp/v3/internal/verif/c15/layout"
	"capnproto.org/go/capnp/v3/internal/verif/c15/sgen"
	"capnproto.org/go/capnp/v3/internal/verif/vlib"
	"capnproto.org/go/capnp/v3/pogs"
)

// subject is one mirror type under test.
type subject struct {
	origin string // "air" or generated package key
	m      *mirror
	wrap   wrapFn
	fl     string
	lv     []leaf
}

func (s *subject) String() string { return s.origin + "." + s.m.name + "{" + s.fl + "}" }

// vcase is a Go-value case: a sequence of leaf assignments.
type vcase struct {
	s   *subject
	ops [][2]int // (leaf index, alt)
	// nilGroups: groups held by pointer are left nil (otherwise every group
	// that is not a union member gets its zero struct first)
	nilGroups bool
}

func (c vcase) String() string {
	var parts []string
	for _, op := range c.ops {
		parts = append(parts, fmt.Sprintf("%s:=alt%d", c.s.lv[op[0]], op[1]))
	}
	if c.nilGroups {
		parts = append(parts, "(pointer groups left nil)")
	}
	return c.s.String() + " " + strings.Join(parts, "; ")
}

var numRe = regexp.MustCompile(`[0-9]+`)

var idRe = regexp.MustCompile(`^pogs: (insert|extract) @0x[0-9a-f]+: `)

func errKey(err error) string {
	s := idRe.ReplaceAllString(err.Error(), "")
	s = numRe.ReplaceAllString(s, "N")
	s = regexp.MustCompile(`[^A-Za-z.]+`).ReplaceAllString(s, "-")
	if len(s) > 60 {
		s = s[:60]
	}
	return strings.Trim(s, "-")
}

// newRoot allocates the root struct with the size the schema node declares.
func newRoot(n *sgen.Node) (*capnp.Message, capnp.Struct, error) {
	msg, seg, err := capnp.NewMessage(capnp.SingleSegment(nil))
	if err != nil {
		return nil, capnp.Struct{}, err
	}
	st, err := capnp.NewRootStruct(seg, sgen.NodeSize(n))
	return msg, st, err
}

// structBytes locates the root struct's bytes (data, pointers) in segment 0.
func structBytes(msg *capnp.Message, n *sgen.Node) ([]byte, []byte) {
	seg, _ := msg.Segment(0)
	d := seg.Data()
	root := layout.DecodePtr(layout.Word(d, 0))
	if root.Null || (n.DataWords == 0 && n.PtrCount == 0) {
		return nil, nil
	}
	base := 8 * (1 + int(root.Off))
	return d[base : base+8*int(n.DataWords)], d[base+8*int(n.DataWords) : base+8*int(n.DataWords)+8*int(n.PtrCount)]
}

func firstKind(k string) string {
	if k == "" {
		return "unknown"
	}
	return k
}

// checkMessage: for a message (however it was built) Extract must show what
// the generated getters show; Which = discriminant; inactive arms are zero
// in Go.  Returns the extracted value and the getter tree.
func checkMessage(s *subject, st capnp.Struct, r *vlib.Rec, where string) (reflect.Value, *tv, bool) {
	w, err := s.wrap(s.m.node, st)
	if err != nil {
		r.Fail("harness", err.Error())
		return reflect.Value{}, nil, false
	}
	tGet, err := getTree(w, s.m.node, s.wrap)
	if err != nil {
		r.Failf("harness", "%s: generated getters: %v", where, err)
		return reflect.Value{}, nil, false
	}
	g2 := reflect.New(s.m.typ)
	if err := pogs.Extract(g2.Interface(), s.m.node.ID, st); err != nil {
		if s.m.fixed >= 0 && tGet.Which != s.m.fixed {
			// documented: a mirror with a single union field and no Which is
			// fixed to that member; extracting another member is an error
			r.Outcome("fixed-union-other-member-rejected")
			return reflect.Value{}, nil, false
		}
		r.Failf("extract-error/"+errKey(err), "%s: Extract: %v", where, err)
		return reflect.Value{}, nil, false
	}
	t2, err := goTree(g2.Elem(), s.m)
	if err != nil {
		r.Failf("harness", "%s: %v", where, err)
		return reflect.Value{}, nil, false
	}
	if d, k := eqTree(t2, tGet, ""); d != "" {
		r.Failf("extract-disagrees-with-getters/"+firstKind(k), "%s: extracted Go value / generated getters: %s", where, d)
		return g2, tGet, false
	}
	// every live field of the message that the mirror maps must be in the Go tree
	if d := missingLive(tGet, t2, s.m, ""); d != "" {
		r.Failf("extract-disagrees-with-getters/which", "%s: %s", where, d)
		return g2, tGet, false
	}
	if d := inactiveNonZero(g2.Elem(), s.m, t2, ""); d != "" {
		r.Failf("extract-sets-inactive-arm", "%s: field of an inactive union member is not zero after Extract: %s", where, d)
		return g2, tGet, false
	}
	return g2, tGet, true
}

// missingLive: fields live in the message and mapped by the mirror must be
// live in the Go tree too (eqTree only walks the Go side).
func missingLive(get, goT *tv, m *mirror, path string) string {
	if get == nil || goT == nil || get.Null || goT.Null || get.Open || goT.Open {
		return ""
	}
	for name, x := range get.Fields {
		mf := m.fields[name]
		if mf == nil {
			continue
		}
		y, ok := goT.Fields[name]
		if !ok {
			return fmt.Sprintf("%s.%s is the live union member in the message (Which=%d) but not according to the Go value (Which=%d)", path, name, get.Which, goT.Which)
		}
		if x.K == sgen.Struct && mf.sub != nil && x.Fields != nil && y.Fields != nil {
			if d := missingLive(x, y, mf.sub, path+"."+name); d != "" {
				return d
			}
		}
	}
	return ""
}

// inactiveNonZero finds a mapped field of an inactive union member that is
// not the zero value.
func inactiveNonZero(v reflect.Value, m *mirror, t *tv, path string) string {
	for _, f := range m.node.Fields {
		mf := m.fields[f.Name]
		if mf == nil {
			continue
		}
		fv := fieldByPath(v, mf.path, false)
		if !fv.IsValid() {
			continue
		}
		if f.InUnion() && t.Which >= 0 && int(f.Disc) != t.Which {
			if !fv.IsZero() {
				return fmt.Sprintf("%s.%s = %v (Which = %d, member is %d)", path, f.Name, fv.Interface(), t.Which, f.Disc)
			}
			continue
		}
		if f.Group != nil {
			sub := t.Fields[f.Name]
			if fv.Kind() == reflect.Ptr {
				if fv.IsNil() {
					continue
				}
				fv = fv.Elem()
			}
			if sub != nil && !sub.Open {
				if d := inactiveNonZero(fv, mf.sub, sub, path+"."+f.Name); d != "" {
					return d
				}
			}
		}
	}
	return ""
}

// valueCase: Go value -> Insert -> message; getters agree; Extract agrees;
// round trip; nothing outside the live fields was written.
func valueCase(c vcase, r *vlib.Rec) {
	s := c.s
	g := reflect.New(s.m.typ)
	if !c.nilGroups {
		allocGroups(g.Elem(), s.m)
	}
	for _, op := range c.ops {
		assign(g.Elem(), s.lv[op[0]], op[1])
	}
	where := c.String()
	tGo, err := goTree(g.Elem(), s.m)
	if err != nil {
		r.Failf("harness", "%s: %v", where, err)
		return
	}
	msg, st, err := newRoot(s.m.node)
	if err != nil {
		r.Fail("harness", err.Error())
		return
	}
	if err := pogs.Insert(s.m.node.ID, st, g.Interface()); err != nil {
		r.Failf("insert-error/"+errKey(err), "%s: Insert(%+v): %v", where, g.Elem().Interface(), err)
		return
	}
	r.NonTrivial()
	// (e) Which = discriminant, raw
	data, ptrs := structBytes(msg, s.m.node)
	if s.m.node.DiscCount > 0 && tGo.Which >= 0 && data != nil {
		ts, tn := layout.DiscriminantBits(s.m.node.DiscOffset)
		if got := layout.GetBits(data, ts, tn); int(got) != tGo.Which {
			r.Failf("insert-wrong-discriminant", "%s: Which = %d, tag bits in the message = %d", where, tGo.Which, got)
			return
		}
	}
	// nothing but live fields written (the struct was all zero before)
	if data != nil || ptrs != nil {
		dm := make([]bool, 8*len(data))
		sm := make([]bool, len(ptrs)/8)
		activeMask(tGo, s.m, dm, sm)
		for b := range dm {
			if !dm[b] && data[b/8]>>uint(b%8)&1 != 0 {
				r.Failf("insert-writes-outside-live-fields/data", "%s: bit %d of the data section is set but belongs to no live mapped field (Which=%d)\n data %x", where, b, tGo.Which, data)
				return
			}
		}
		for i := range sm {
			if !sm[i] && layout.Word(ptrs, i) != 0 {
				r.Failf("insert-writes-outside-live-fields/pointer", "%s: pointer slot %d is set but belongs to no live mapped field (Which=%d)", where, i, tGo.Which)
				return
			}
		}
	}
	// getters see the Go value
	w, err := s.wrap(s.m.node, st)
	if err != nil {
		r.Fail("harness", err.Error())
		return
	}
	tGet, err := getTree(w, s.m.node, s.wrap)
	if err != nil {
		r.Failf("insert-unreadable/"+errKey(err), "%s: generated getters fail on the inserted message: %v", where, err)
		return
	}
	if d, k := eqTree(tGo, tGet, ""); d != "" {
		r.Failf("insert-disagrees-with-getters/"+firstKind(k), "%s: Go value / generated getters after Insert: %s", where, d)
		return
	}
	// Extract agrees with getters, inactive arms zero
	g2, _, ok := checkMessage(s, st, r, where)
	if !ok {
		return
	}
	// round trip
	t2, _ := goTree(g2.Elem(), s.m)
	if d, k := eqTree(tGo, t2, ""); d != "" {
		r.Failf("round-trip/"+firstKind(k), "%s: Extract(Insert(g)) != g: %s", where, d)
		return
	}
	r.Outcome(fmt.Sprintf("value-ok/%d-assignments", len(c.ops)))
}

// keepFile selects the generated schema files C19 links (the very wide
// structs of c15wide and the import-alias packages add nothing for pogs).
func keepFile(f *sgen.File) bool {
	switch f.Key {
	case "c15plain", "c15ptr", "c15union", "c15uptr", "c15group", "c15misc", "c15other", "c15multi", "c15sizes":
		return true
	}
	return false
}

// ---- families

type world struct {
	subjects []*subject
	singles  []vcase
	pairs    []vcase
	seqs     []scase
	large    []lcase
	trunc    []tcase
}

// spread picks about k indexes evenly out of n.
func spread(n, k int) []int {
	if n <= k {
		out := make([]int, n)
		for i := range out {
			out[i] = i
		}
		return out
	}
	var out []int
	for i := 0; i < k; i++ {
		out = append(out, i*n/k)
	}
	return out
}

// pairIndexes enumerates ordered pairs (i, j), i != j.  all: every pair;
// otherwise every pair that has at least one member in a spread of `few`
// leaves (both orders).
func pairIndexes(n int, all bool, few int) [][2]int {
	var out [][2]int
	if all {
		for i := 0; i < n; i++ {
			for j := 0; j < n; j++ {
				if i != j {
					out = append(out, [2]int{i, j})
				}
			}
		}
		return out
	}
	sel := map[int]bool{}
	for _, i := range spread(n, few) {
		sel[i] = true
	}
	for i := 0; i < n; i++ {
		for j := 0; j < n; j++ {
			if i != j && (sel[i] || sel[j]) {
				out = append(out, [2]int{i, j})
			}
		}
	}
	return out
}

func addValueCases(w *world, s *subject, pairs bool, allPairs bool) {
	for li, l := range s.lv {
		for a := 0; a < nAlts(l); a++ {
			w.singles = append(w.singles, vcase{s: s, ops: [][2]int{{li, a}}})
		}
	}
	if hasPtrGroup(s.m) {
		w.singles = append(w.singles, vcase{s: s, nilGroups: true})
	}
	if !pairs {
		return
	}
	rep := func(l leaf) int {
		if nAlts(l) > 2 {
			return 2
		}
		return nAlts(l) - 1
	}
	// both orders: the later assignment decides Which
	few := 6
	if allPairs {
		few = 8 // thorough tier
	}
	for _, ij := range pairIndexes(len(s.lv), len(s.lv) <= 30 || (allPairs && len(s.lv) <= 60), few) {
		i, j := ij[0], ij[1]
		w.pairs = append(w.pairs, vcase{s: s, ops: [][2]int{{i, rep(s.lv[i])}, {j, rep(s.lv[j])}}})
	}
}

func buildWorld(tier string) *world {
	w := &world{}
	full := tier == "thorough"
	// aircraftlib
	for _, s := range airSubjects() {
		s.lv = leaves(s.m, nil)
		w.subjects = append(w.subjects, s)
		addValueCases(w, s, true, true)
		addSeqCases(w, s, true, full)
		addTruncCases(w, s)
		if s.m.name == "MZ" || s.m.name == "MRWTest" {
			if full {
				addLargeCases(w, s, []int{1000, 30000, 100000})
			} else {
				addLargeCases(w, s, []int{1000, 30000})
			}
		}
	}
	// generated family
	if sgen.Pipeline != nil {
		u := sgen.Build(tier).Filter(keepFile)
		for _, s := range genSubjects(u, full) {
			s.lv = leaves(s.m, nil)
			w.subjects = append(w.subjects, s)
			first := s.fl == flavours[0].String()
			addValueCases(w, s, first || full, full)
			if first {
				addSeqCases(w, s, full, full)
				if len(s.lv) <= 20 || full {
					addTruncCases(w, s)
				}
				if s.origin == "c15ptr" && s.m.name == "PLStructA" {
					addLargeCases(w, s, []int{30000})
				}
			}
		}
	}
	return w
}

func main() {
	if b := os.Getenv("VERIF_C15_PIPELINE"); b != "" {
		if err := sgen.RunPipeline(b, "internal/verif/c19", os.Getenv("VERIF_C15_TIER"), keepFile); err != nil {
			fmt.Fprintln(os.Stderr, "C19 pipeline:", err)
			os.Exit(2)
		}
		return
	}
	vlib.Main(vlib.Spec{
		ID:    "C19",
		Level: "exploration",
		Rule:  "bounded-exhaustive: mirror types = hand-written aircraftlib mirrors (Z with every union arm, PlaneBase plain / embedded / pointer-embedded / renamed / omitted fields, Defaults, StackingRoot, HoldsText, RWTestCapn, Counter, Aircraft, VoidUnion, fixed-union Square-style) and reflect.StructOf mirrors of every struct of the C15 schema family (every field kind x offset x default x union/group context) in 2 flavours (string/[]byte text, pointer/value structs and groups, client/wrapper interfaces); (i) Go values: every leaf field set to every value of its alphabet (others zero), ordered pairs of leaves (later assignment decides Which; the earlier may be left in an inactive arm): all pairs for types with <=30 (thorough <=60) leaves, for wider types all pairs with at least one member among 6 (thorough 8) evenly spread leaves, every union arm incl. void and group arms, lists nil/empty/1/2 elements, nested lists; (ii) messages built with generated setters in every order of <=2 (thorough: 3 for types with <=14 leaves) operations (same pair selection) incl. switching union arms with stale bytes, then Extract, then Insert in place; (iii) the same single assignments against structs allocated shorter than the schema says (data/pointer sections 0, 1, half, size-1): Extract must agree with the getters, Insert must fail or keep the value; (iv) lists of 1000/30000 (thorough 100000) struct elements. A case is non-trivial if Insert or Extract ran on it and its result was compared with the generated accessors.",
		Assumptions: []string{
			"the generated accessors are the reference for what a message means (C15 checks them against the schema layout)",
			"documented nil/empty equivalences: nil and empty []byte / slices are the same value; a nil *T for a field whose schema has a struct default is left open (null means default on the wire); nil *T elements of a struct list are left open",
			"mapping rules for the hand-written mirrors (embedding, capnp tags, \"-\", Which, fixed union) are written out by hand in air.go from pogs/doc.go",
			"generated mirrors exist only for types pogs documents a mapping for (no Void, no List(Void))",
		},
		SelfTest: func() error {
			if sgen.Pipeline == nil && os.Getenv("VERIF_C19_AIRONLY") == "" {
				// (VERIF_C19_AIRONLY=1 is a development aid: aircraftlib part only)
				return fmt.Errorf("stage-1 binary: the generation pipeline (pre.sh) did not run")
			}
			return nil
		},
		Families: func(tier string) []vlib.Family {
			w := buildWorld(tier)
			return []vlib.Family{
				{Name: "values-single", N: int64(len(w.singles)),
					Run:      func(i int64, r *vlib.Rec) { valueCase(w.singles[i], r) },
					Describe: func(i int64) interface{} { return w.singles[i].String() }},
				{Name: "values-pair", N: int64(len(w.pairs)),
					Run:      func(i int64, r *vlib.Rec) { valueCase(w.pairs[i], r) },
					Describe: func(i int64) interface{} { return w.pairs[i].String() }},
				{Name: "setter-sequences", N: int64(len(w.seqs)),
					Run:      func(i int64, r *vlib.Rec) { seqCase(w.seqs[i], r) },
					Describe: func(i int64) interface{} { return w.seqs[i].String() }},
				{Name: "short-structs", N: int64(len(w.trunc)),
					Run:      func(i int64, r *vlib.Rec) { truncCase(w.trunc[i], r) },
					Describe: func(i int64) interface{} { return w.trunc[i].String() }},
				{Name: "large-values", N: int64(len(w.large)),
					Run:      func(i int64, r *vlib.Rec) { largeCase(w.large[i], r) },
					Describe: func(i int64) interface{} { return w.large[i].String() }},
				sharedTypeFamily(),
			}
		},
		Extra: func(tier string) map[string]interface{} {
			w := buildWorld(tier)
			names := []string{}
			for _, s := range w.subjects {
				names = append(names, fmt.Sprintf("%s(%d leaves)", s, len(s.lv)))
			}
			if len(names) > 60 {
				names = append(names[:60], fmt.Sprintf("... %d more", len(names)-60))
			}
			return map[string]interface{}{"mirror_types": len(w.subjects), "mirror_type_sample": names}
		},
	})
}
