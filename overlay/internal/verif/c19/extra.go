package main

import (
	"fmt"
	"reflect"
	"strings"

	capnp "capnproto.org/go/capnp/v3"
	"capnproto.org/go/capnp/v3/internal/verif/c15/sgen"
	"capnproto.org/go/capnp/v3/internal/verif/vlib"
	"capnproto.org/go/capnp/v3/pogs"
)

// ---- large values: the property quantifies over all values of the mapped
// type, including long lists of structs (every element costs pogs a few
// reads of the schema).

type lcase struct {
	s    *subject
	leaf int // a List(struct) leaf
	n    int
}

func (c lcase) String() string {
	return fmt.Sprintf("%s %s := %d struct elements", c.s, c.s.lv[c.leaf], c.n)
}

func addLargeCases(w *world, s *subject, sizes []int) {
	for li, l := range s.lv {
		f := l.last().f
		if f.Group == nil && f.Type.Kind == sgen.List && f.Type.Elem.Kind == sgen.Struct {
			for _, n := range sizes {
				w.large = append(w.large, lcase{s, li, n})
			}
			return // one list per subject is enough
		}
	}
}

func largeCase(c lcase, r *vlib.Rec) {
	s := c.s
	l := s.lv[c.leaf]
	f := l.last().f
	mf := l.last().m.fields[f.Name]
	g := reflect.New(s.m.typ)
	allocGroups(g.Elem(), s.m)
	fv := leafField(g.Elem(), l)
	fv.Set(reflect.MakeSlice(fv.Type(), c.n, c.n))
	for i := 0; i < c.n; i++ {
		fv.Index(i).Set(elemValue(fv.Type().Elem(), *f.Type.Elem, mf.sub, uint64(i%250+1)))
	}
	where := c.String()
	msg, st, err := newRoot(s.m.node)
	if err != nil {
		r.Fail("harness", err.Error())
		return
	}
	msg.TraverseLimit = 1 << 50 // the data message is not the subject here
	if err := pogs.Insert(s.m.node.ID, st, g.Interface()); err != nil {
		if strings.Contains(err.Error(), "traversal limit") {
			r.Failf("schema-read-limit-exhausted/insert", "%s: Insert fails on a legal value: %v", where, err)
		} else {
			r.Failf("insert-error/"+errKey(err), "%s: %v", where, err)
		}
		return
	}
	r.NonTrivial()
	g2 := reflect.New(s.m.typ)
	if err := pogs.Extract(g2.Interface(), s.m.node.ID, st); err != nil {
		if strings.Contains(err.Error(), "traversal limit") {
			r.Failf("schema-read-limit-exhausted/extract", "%s: Extract fails on the message Insert built: %v", where, err)
		} else {
			r.Failf("extract-error/"+errKey(err), "%s: %v", where, err)
		}
		return
	}
	t1, err1 := goTree(g.Elem(), s.m)
	t2, err2 := goTree(g2.Elem(), s.m)
	if err1 != nil || err2 != nil {
		r.Failf("harness", "%v %v", err1, err2)
		return
	}
	if d, k := eqTree(t1, t2, ""); d != "" {
		r.Failf("round-trip/"+firstKind(k), "%s: Extract(Insert(g)) != g: %s", where, d)
		return
	}
	r.Outcome(fmt.Sprintf("large-ok/%d", c.n))
}

// ---- truncated structs ("bounds check against allocated struct size"):
// the struct in the message is smaller than the schema node says (written by
// an older schema version).  Extract must still agree with the generated
// getters (absent fields read as defaults); Insert must either fail or leave
// a message from which the getters read the Go value back — it must not
// panic and must not drop a non-default field silently.

type tcase struct {
	s      *subject
	dw, pc int // allocated sizes
	leaf   int
	alt    int
}

func (c tcase) String() string {
	return fmt.Sprintf("%s allocated %d/%d of %d/%d; %s:=alt%d", c.s, c.dw, c.pc, c.s.m.node.DataWords, c.s.m.node.PtrCount, c.s.lv[c.leaf], c.alt)
}

func addTruncCases(w *world, s *subject) {
	n := s.m.node
	dws := dedupInts([]int{0, 1, int(n.DataWords) / 2, int(n.DataWords) - 1})
	pcs := dedupInts([]int{0, int(n.PtrCount) / 2, int(n.PtrCount) - 1})
	for _, dw := range dws {
		for _, pc := range pcs {
			if dw < 0 || pc < 0 || dw > int(n.DataWords) || pc > int(n.PtrCount) || (dw == int(n.DataWords) && pc == int(n.PtrCount)) {
				continue
			}
			for li, l := range s.lv {
				a := nAlts(l) - 1
				if a > 2 {
					a = 2
				}
				w.trunc = append(w.trunc, tcase{s, dw, pc, li, a})
			}
		}
	}
}

func dedupInts(xs []int) []int {
	seen := map[int]bool{}
	var out []int
	for _, x := range xs {
		if x >= 0 && !seen[x] {
			seen[x] = true
			out = append(out, x)
		}
	}
	return out
}

func truncCase(c tcase, r *vlib.Rec) {
	s := c.s
	where := c.String()
	mk := func() (capnp.Struct, error) {
		_, seg, err := capnp.NewMessage(capnp.SingleSegment(nil))
		if err != nil {
			return capnp.Struct{}, err
		}
		return capnp.NewRootStruct(seg, capnp.ObjectSize{DataSize: capnp.Size(8 * c.dw), PointerCount: uint16(c.pc)})
	}
	// (a) Extract from a short struct: all zero, and with every bit set
	for bg := 0; bg < 2; bg++ {
		st, err := mk()
		if err != nil {
			r.Fail("harness", err.Error())
			return
		}
		if bg == 1 {
			for i := 0; i < c.dw; i++ {
				st.SetUint64(capnp.DataOffset(8*i), 0x5A5A5A5A5A5A5A5A)
			}
			if s.m.node.DiscCount > 0 {
				// keep the tag on a real member so that getters do not panic
				if off := capnp.DataOffset(2 * s.m.node.DiscOffset); int(off)+2 <= 8*c.dw {
					st.SetUint16(off, 0)
				}
			}
		}
		func() {
			defer func() {
				if p := recover(); p != nil {
					r.Failf("extract-panics/short-struct", "%s: Extract panics on a struct shorter than the schema: %v", where, p)
				}
			}()
			if _, _, ok := checkMessageLenient(s, st, r, where+" (extract)"); ok {
				r.Outcome("short-struct-extract-ok")
			}
		}()
	}
	// (b) Insert into a short struct
	st, err := mk()
	if err != nil {
		r.Fail("harness", err.Error())
		return
	}
	g := reflect.New(s.m.typ)
	allocGroups(g.Elem(), s.m)
	assign(g.Elem(), s.lv[c.leaf], c.alt)
	var ierr error
	func() {
		defer func() {
			if p := recover(); p != nil {
				r.Failf("insert-panics/short-struct", "%s: Insert panics on a struct shorter than the schema instead of reporting an error: %v", where, p)
				ierr = fmt.Errorf("panic")
			}
		}()
		ierr = pogs.Insert(s.m.node.ID, st, g.Interface())
	}()
	r.NonTrivial()
	if ierr != nil {
		r.Outcome("short-struct-insert-rejected")
		return
	}
	// accepted: then nothing may have been lost
	tGo, err := goTree(g.Elem(), s.m)
	if err != nil {
		r.Failf("harness", "%v", err)
		return
	}
	w, err := s.wrap(s.m.node, st)
	if err != nil {
		r.Fail("harness", err.Error())
		return
	}
	tGet, err := getTree(w, s.m.node, s.wrap)
	if err != nil {
		r.Failf("insert-unreadable/"+errKey(err), "%s: %v", where, err)
		return
	}
	if d, k := eqTree(tGo, tGet, ""); d != "" {
		r.Failf("insert-into-short-struct-loses-value/"+firstKind(k), "%s: Insert reports success but the message does not hold the value: %s", where, d)
		return
	}
	r.Outcome("short-struct-insert-ok")
}

// checkMessageLenient is checkMessage for structs on which the generated
// getters themselves may refuse (tag outside the short struct reads 0).
func checkMessageLenient(s *subject, st capnp.Struct, r *vlib.Rec, where string) (reflect.Value, *tv, bool) {
	return checkMessage(s, st, r, where)
}
