package main

import (
	"fmt"
	"reflect"
	"strings"

	capnp "capnproto.org/go/capnp/v3"
	air "capnproto.org/go/capnp/v3/internal/aircraftlib"
	"capnproto.org/go/capnp/v3/internal/verif/c15/sgen"
)

// ---- hand-written mirror types for internal/aircraftlib

// MZ mirrors Z with one Go field per union arm (as pogs_test.go does).
type MZ struct {
	Which air.Z_Which

	F64 float64
	F32 float32
	I64 int64
	I32 int32
	I16 int16
	I8  int8
	U64 uint64
	U32 uint32
	U16 uint16
	U8  uint8

	Bool bool
	Text string
	Blob []byte

	F64vec  []float64
	F32vec  []float32
	I64vec  []int64
	I32vec  []int32
	I16vec  []int16
	I8vec   []int8
	U64vec  []uint64
	U32vec  []uint32
	U16vec  []uint16
	U8vec   []uint8
	Boolvec []bool
	Datavec [][]byte
	Textvec []string

	Zz      *MZ
	Zvec    []*MZ
	Zvecvec [][]*MZ

	Zdate     *MZdate
	Zdata     *MZdata
	Planebase *MPlaneBase
	Airport   air.Airport
	Aircraft  *MAircraft
	Zdatevec  []MZdate
	Zdatavec  []*MZdata

	Grp *MZGroup

	Echo   air.Echo
	Echoes []air.Echo

	AnyPtr        capnp.Ptr
	AnyStruct     capnp.Struct
	AnyList       capnp.List
	AnyCapability *capnp.Client
}

// MZGroup mirrors Z.grp.
type MZGroup struct {
	First  uint64
	Second uint64
}

// MZdate mirrors Zdate.
type MZdate struct {
	Year  int16
	Month uint8
	Day   uint8
}

// MZdata mirrors Zdata.
type MZdata struct {
	Data []byte
}

// MPlaneBase mirrors PlaneBase field by field.
type MPlaneBase struct {
	Name     string
	Homes    []air.Airport
	Rating   int64
	CanFly   bool
	Capacity int64
	MaxSpeed float64
}

// MPlaneStats is embedded by the variants below.
type MPlaneStats struct {
	Rating   int64
	CanFly   bool
	Capacity int64
	MaxSpeed float64
}

// MPlaneBaseRenamed: capnp tags rename fields, "-" omits one.
type MPlaneBaseRenamed struct {
	Title    []byte        `capnp:"name"`
	Bases    []air.Airport `capnp:"homes"`
	Stars    int64         `capnp:"rating"`
	CanFly   bool
	Internal int     `capnp:"-"`
	Seats    int64   `capnp:"capacity"`
	MaxSpeed float64 `capnp:"maxSpeed"`
}

// MPlaneBaseEmbed: an anonymous struct field is flattened.
type MPlaneBaseEmbed struct {
	Name string
	MPlaneStats
	Homes []air.Airport
}

// MPlaneBaseEmbedPtr: anonymous pointer-to-struct field.
type MPlaneBaseEmbedPtr struct {
	Name string
	*MPlaneStats
	Homes []air.Airport
}

// MPlaneBaseEmbedDeep: anonymous struct fields nested four levels deep (field
// index paths of length 5; every sibling of the innermost struct is mapped).
type MDeep3 struct{ MPlaneStats }
type MDeep2 struct{ MDeep3 }
type MDeep1 struct{ MDeep2 }
type MPlaneBaseEmbedDeep struct {
	Name string
	MDeep1
	Homes []air.Airport
}

// Leaf paths of length 4 and 3 as well.
type MDeepB2 struct{ MPlaneStats }
type MDeepB1 struct{ MDeepB2 }
type MPlaneBaseEmbedDeep4 struct {
	Name string
	MDeepB1
	Homes []air.Airport
}
type MDeepC1 struct{ MPlaneStats }
type MPlaneBaseEmbedDeep3 struct {
	Name string
	MDeepC1
	Homes []air.Airport
}

// MTwoPtrs names only the two pointer fields that VerTwoPtr (ordinals 0, 1)
// and VerTwoDataTwoPtr (ordinals 2, 3) have in common: one Go type mapped to
// two schema nodes in the same process.
type MTwoPtrs struct {
	Ptr1 *MVerOneData
	Ptr2 *MVerOneData
}

// MIgnoredStats is embedded with tag "-" and must be ignored although its
// field names match schema fields.
type MIgnoredStats struct {
	Rating int64
	CanFly bool
}

// MPlaneBaseEmbedIgnored: anonymous field with tag "-".
type MPlaneBaseEmbedIgnored struct {
	Name          string
	MIgnoredStats `capnp:"-"`
	Capacity      int64
}

// MRatingA / MRatingB both have Rating: at the same depth, neither tagged ->
// both ignored, no error (doc.go rule 3).
type MRatingA struct {
	Rating int64
	CanFly bool
}

// MRatingB see MRatingA.
type MRatingB struct {
	Rating   int64
	Capacity int64
}

// MPlaneBaseConflict: Rating is ambiguous and therefore unmapped.
type MPlaneBaseConflict struct {
	Name string
	MRatingA
	MRatingB
}

// MRatingTagged has a tagged rating field: wins over the untagged one in
// MRatingB at the same depth (doc.go rule 1).
type MRatingTagged struct {
	Score int64 `capnp:"rating"`
}

// MPlaneBaseTaggedWins: rating maps to MRatingTagged.Score.
type MPlaneBaseTaggedWins struct {
	Name string
	MRatingTagged
	MRatingB
}

// MPlaneBaseShadow: the less nested field wins over the embedded one.
type MPlaneBaseShadow struct {
	Rating int64
	MPlaneStats
}

// MB737Named: an anonymous struct field with a name in its tag is an ordinary
// field of that name.
type MB737Named struct {
	MPlaneBase `capnp:"base"`
}

// MAircraft mirrors the Aircraft union of struct pointers.
type MAircraft struct {
	Which air.Aircraft_Which
	B737  *MB737
	A320  *MB737
	F16   MB737
}

// MB737 mirrors B737 / A320 / F16.
type MB737 struct {
	Base *MPlaneBase
}

// MZF64 has a single union field and no Which: the union is fixed to f64.
type MZF64 struct {
	F64 float64
}

// MDefaults mirrors Defaults (every field has a schema default).
type MDefaults struct {
	Text  string
	Data  []byte
	Float float32
	Int   int32
	Uint  uint32
}

// MStackingRoot: struct field with a struct default.
type MStackingRoot struct {
	A            *MStackingA
	AWithDefault *MStackingA
}

// MStackingA mirrors StackingA.
type MStackingA struct {
	Num int32
	B   *MStackingB
}

// MStackingB mirrors StackingB.
type MStackingB struct {
	Num int32
}

// MHoldsText: text, list of text (as [][]byte), list of list of text.
type MHoldsText struct {
	Txt    string
	Lst    [][]byte
	Lstlst [][]string
}

// MNester mirrors Nester1Capn.
type MNester struct {
	Strs []string
}

// MRWTest mirrors RWTestCapn: List(List(struct)).
type MRWTest struct {
	NestMatrix [][]MNester
}

// MCounter mirrors Counter.
type MCounter struct {
	Size     int64
	Words    string
	Wordlist []string
	Bitlist  []bool
}

// MBag mirrors Bag.
type MBag struct {
	Counter MCounter
}

// MVoidUnion mirrors VoidUnion: only the Which field.
type MVoidUnion struct {
	Which air.VoidUnion_Which
}

// MHoth / MEchoBase: capability inside a nested struct.
type MHoth struct {
	Base MEchoBase
}

// MEchoBase mirrors EchoBase.
type MEchoBase struct {
	Echo *capnp.Client
}

// MVerTwoTwoPlus mirrors VerTwoTwoPlus.
type MVerTwoTwoPlus struct {
	Val  int16
	Duo  int64
	Ptr1 *MVerTwoDataTwoPtr
	Ptr2 MVerTwoDataTwoPtr
	Tre  int64
	Lst3 []int64
}

// MVerTwoDataTwoPtr mirrors VerTwoDataTwoPtr.
type MVerTwoDataTwoPtr struct {
	Val  int16
	Duo  int64
	Ptr1 *MVerOneData
	Ptr2 *MVerOneData
}

// MVerOneData mirrors VerOneData.
type MVerOneData struct {
	Val int16
}

var airWrap = map[string]func(capnp.Struct) interface{}{
	"Z":                func(s capnp.Struct) interface{} { return air.Z{Struct: s} },
	"Zdate":            func(s capnp.Struct) interface{} { return air.Zdate{Struct: s} },
	"Zdata":            func(s capnp.Struct) interface{} { return air.Zdata{Struct: s} },
	"PlaneBase":        func(s capnp.Struct) interface{} { return air.PlaneBase{Struct: s} },
	"B737":             func(s capnp.Struct) interface{} { return air.B737{Struct: s} },
	"A320":             func(s capnp.Struct) interface{} { return air.A320{Struct: s} },
	"F16":              func(s capnp.Struct) interface{} { return air.F16{Struct: s} },
	"Aircraft":         func(s capnp.Struct) interface{} { return air.Aircraft{Struct: s} },
	"Defaults":         func(s capnp.Struct) interface{} { return air.Defaults{Struct: s} },
	"StackingRoot":     func(s capnp.Struct) interface{} { return air.StackingRoot{Struct: s} },
	"StackingA":        func(s capnp.Struct) interface{} { return air.StackingA{Struct: s} },
	"StackingB":        func(s capnp.Struct) interface{} { return air.StackingB{Struct: s} },
	"HoldsText":        func(s capnp.Struct) interface{} { return air.HoldsText{Struct: s} },
	"Nester1Capn":      func(s capnp.Struct) interface{} { return air.Nester1Capn{Struct: s} },
	"RWTestCapn":       func(s capnp.Struct) interface{} { return air.RWTestCapn{Struct: s} },
	"Counter":          func(s capnp.Struct) interface{} { return air.Counter{Struct: s} },
	"Bag":              func(s capnp.Struct) interface{} { return air.Bag{Struct: s} },
	"VoidUnion":        func(s capnp.Struct) interface{} { return air.VoidUnion{Struct: s} },
	"Hoth":             func(s capnp.Struct) interface{} { return air.Hoth{Struct: s} },
	"EchoBase":         func(s capnp.Struct) interface{} { return air.EchoBase{Struct: s} },
	"VerTwoTwoPlus":    func(s capnp.Struct) interface{} { return air.VerTwoTwoPlus{Struct: s} },
	"VerTwoDataTwoPtr": func(s capnp.Struct) interface{} { return air.VerTwoDataTwoPtr{Struct: s} },
	"VerTwoPtr":        func(s capnp.Struct) interface{} { return air.VerTwoPtr{Struct: s} },
	"VerOneData":       func(s capnp.Struct) interface{} { return air.VerOneData{Struct: s} },
	"Regression":       func(s capnp.Struct) interface{} { return air.Regression{Struct: s} },
}

// handMirror builds a mirror for a hand-written Go type.  spec maps schema
// field names to dotted Go field paths; fields of the Go type that are not in
// spec are mapped by the default rule (lower-cased first letter) when they are
// direct, untagged, non-anonymous fields.  unmapped lists schema fields that
// must stay unmapped although a Go field of that name exists somewhere.
type handSpec struct {
	proto    interface{}
	nodeID   uint64
	spec     map[string]string
	subs     map[string]string // schema field -> name of the mirror of its struct type
	noAuto   bool
	fixed    int
	hasFixed bool
}

func buildHandMirrors(im *sgen.Importer, specs map[string]handSpec) (map[string]*mirror, error) {
	ms := map[string]*mirror{}
	for name, hs := range specs {
		n, err := im.Node(hs.nodeID)
		if err != nil {
			return nil, fmt.Errorf("%s: %v", name, err)
		}
		m := &mirror{name: name, typ: reflect.TypeOf(hs.proto), node: n, fields: map[string]*mfield{}, fixed: -1}
		if hs.hasFixed {
			m.fixed = hs.fixed
		}
		if sf, ok := m.typ.FieldByName("Which"); ok && n.DiscCount > 0 {
			m.which = sf.Index
		}
		byName := map[string]*sgen.Field{}
		for _, f := range n.Fields {
			byName[f.Name] = f
		}
		if !hs.noAuto {
			for i := 0; i < m.typ.NumField(); i++ {
				sf := m.typ.Field(i)
				if sf.Anonymous || sf.Tag.Get("capnp") != "" || sf.Name == "Which" {
					continue
				}
				sname := strings.ToLower(sf.Name[:1]) + sf.Name[1:]
				if _, ok := byName[sname]; ok {
					m.fields[sname] = &mfield{path: []int{i}}
				}
			}
		}
		for sname, path := range hs.spec {
			if _, ok := byName[sname]; !ok {
				return nil, fmt.Errorf("%s: schema has no field %s", name, sname)
			}
			t := m.typ
			var idx []int
			for _, part := range strings.Split(path, ".") {
				if t.Kind() == reflect.Ptr {
					t = t.Elem()
				}
				sf, ok := t.FieldByName(part)
				if !ok {
					return nil, fmt.Errorf("%s: no Go field %s", name, path)
				}
				idx = append(idx, sf.Index...)
				t = sf.Type
			}
			m.fields[sname] = &mfield{path: idx}
		}
		ms[name] = m
	}
	for name, hs := range specs {
		for sname, sub := range hs.subs {
			mf := ms[name].fields[sname]
			if mf == nil || ms[sub] == nil {
				return nil, fmt.Errorf("%s: sub mirror %s for %s", name, sub, sname)
			}
			mf.sub = ms[sub]
		}
	}
	// every struct-typed mapped field needs a sub mirror
	for name, m := range ms {
		for sname, mf := range m.fields {
			var f *sgen.Field
			for _, x := range m.node.Fields {
				if x.Name == sname {
					f = x
				}
			}
			t := f.Type
			for t.Kind == sgen.List {
				t = *t.Elem
			}
			if (f.Group != nil || t.Kind == sgen.Struct) && mf.sub == nil {
				return nil, fmt.Errorf("%s.%s: struct-typed field without sub mirror", name, sname)
			}
		}
	}
	return ms, nil
}

func airSubjects() []*subject {
	im := sgen.NewImporter("aircraftlib")
	specs := map[string]handSpec{
		"MZ": {proto: MZ{}, nodeID: air.Z_TypeID, subs: map[string]string{
			"zz": "MZ", "zvec": "MZ", "zvecvec": "MZ", "zdate": "MZdate", "zdata": "MZdata", "planebase": "MPlaneBase",
			"aircraft": "MAircraft", "zdatevec": "MZdate", "zdatavec": "MZdata", "grp": "MZGroup"}},
		"MZGroup":    {proto: MZGroup{}, nodeID: 0}, // filled below (group id from Z)
		"MZdate":     {proto: MZdate{}, nodeID: air.Zdate_TypeID},
		"MZdata":     {proto: MZdata{}, nodeID: air.Zdata_TypeID},
		"MPlaneBase": {proto: MPlaneBase{}, nodeID: air.PlaneBase_TypeID},
		"MPlaneBaseRenamed": {proto: MPlaneBaseRenamed{}, nodeID: air.PlaneBase_TypeID, noAuto: true, spec: map[string]string{
			"name": "Title", "homes": "Bases", "rating": "Stars", "canFly": "CanFly", "capacity": "Seats", "maxSpeed": "MaxSpeed"}},
		"MPlaneBaseEmbed": {proto: MPlaneBaseEmbed{}, nodeID: air.PlaneBase_TypeID, spec: map[string]string{
			"rating": "MPlaneStats.Rating", "canFly": "MPlaneStats.CanFly", "capacity": "MPlaneStats.Capacity", "maxSpeed": "MPlaneStats.MaxSpeed"}},
		"MPlaneBaseEmbedPtr": {proto: MPlaneBaseEmbedPtr{}, nodeID: air.PlaneBase_TypeID, spec: map[string]string{
			"rating": "MPlaneStats.Rating", "canFly": "MPlaneStats.CanFly", "capacity": "MPlaneStats.Capacity", "maxSpeed": "MPlaneStats.MaxSpeed"}},
		"MPlaneBaseEmbedDeep": {proto: MPlaneBaseEmbedDeep{}, nodeID: air.PlaneBase_TypeID, spec: map[string]string{
			"rating": "MDeep1.MDeep2.MDeep3.MPlaneStats.Rating", "canFly": "MDeep1.MDeep2.MDeep3.MPlaneStats.CanFly", "capacity": "MDeep1.MDeep2.MDeep3.MPlaneStats.Capacity", "maxSpeed": "MDeep1.MDeep2.MDeep3.MPlaneStats.MaxSpeed"}},
		"MPlaneBaseEmbedDeep4": {proto: MPlaneBaseEmbedDeep4{}, nodeID: air.PlaneBase_TypeID, spec: map[string]string{
			"rating": "MDeepB1.MDeepB2.MPlaneStats.Rating", "canFly": "MDeepB1.MDeepB2.MPlaneStats.CanFly", "capacity": "MDeepB1.MDeepB2.MPlaneStats.Capacity", "maxSpeed": "MDeepB1.MDeepB2.MPlaneStats.MaxSpeed"}},
		"MPlaneBaseEmbedDeep3": {proto: MPlaneBaseEmbedDeep3{}, nodeID: air.PlaneBase_TypeID, spec: map[string]string{
			"rating": "MDeepC1.MPlaneStats.Rating", "canFly": "MDeepC1.MPlaneStats.CanFly", "capacity": "MDeepC1.MPlaneStats.Capacity", "maxSpeed": "MDeepC1.MPlaneStats.MaxSpeed"}},
		"MTwoPtrsOnVerTwoPtr":        {proto: MTwoPtrs{}, nodeID: air.VerTwoPtr_TypeID, subs: map[string]string{"ptr1": "MVerOneData", "ptr2": "MVerOneData"}},
		"MTwoPtrsOnVerTwoDataTwoPtr": {proto: MTwoPtrs{}, nodeID: air.VerTwoDataTwoPtr_TypeID, subs: map[string]string{"ptr1": "MVerOneData", "ptr2": "MVerOneData"}},
		"MPlaneBaseEmbedIgnored":     {proto: MPlaneBaseEmbedIgnored{}, nodeID: air.PlaneBase_TypeID},
		"MPlaneBaseConflict": {proto: MPlaneBaseConflict{}, nodeID: air.PlaneBase_TypeID, spec: map[string]string{
			"canFly": "MRatingA.CanFly", "capacity": "MRatingB.Capacity"}},
		"MPlaneBaseTaggedWins": {proto: MPlaneBaseTaggedWins{}, nodeID: air.PlaneBase_TypeID, spec: map[string]string{
			"rating": "MRatingTagged.Score", "capacity": "MRatingB.Capacity"}},
		"MPlaneBaseShadow": {proto: MPlaneBaseShadow{}, nodeID: air.PlaneBase_TypeID, spec: map[string]string{
			"canFly": "MPlaneStats.CanFly", "capacity": "MPlaneStats.Capacity", "maxSpeed": "MPlaneStats.MaxSpeed"}},
		"MB737Named": {proto: MB737Named{}, nodeID: air.B737_TypeID, noAuto: true, spec: map[string]string{"base": "MPlaneBase"},
			subs: map[string]string{"base": "MPlaneBase"}},
		"MAircraft":         {proto: MAircraft{}, nodeID: air.Aircraft_TypeID, subs: map[string]string{"b737": "MB737", "a320": "MB737A", "f16": "MB737F"}},
		"MB737":             {proto: MB737{}, nodeID: air.B737_TypeID, subs: map[string]string{"base": "MPlaneBase"}},
		"MB737A":            {proto: MB737{}, nodeID: air.A320_TypeID, subs: map[string]string{"base": "MPlaneBase"}},
		"MB737F":            {proto: MB737{}, nodeID: air.F16_TypeID, subs: map[string]string{"base": "MPlaneBase"}},
		"MZF64":             {proto: MZF64{}, nodeID: air.Z_TypeID, hasFixed: true, fixed: int(air.Z_Which_f64)},
		"MDefaults":         {proto: MDefaults{}, nodeID: air.Defaults_TypeID},
		"MStackingRoot":     {proto: MStackingRoot{}, nodeID: air.StackingRoot_TypeID, subs: map[string]string{"a": "MStackingA", "aWithDefault": "MStackingA"}},
		"MStackingA":        {proto: MStackingA{}, nodeID: air.StackingA_TypeID, subs: map[string]string{"b": "MStackingB"}},
		"MStackingB":        {proto: MStackingB{}, nodeID: air.StackingB_TypeID},
		"MHoldsText":        {proto: MHoldsText{}, nodeID: air.HoldsText_TypeID},
		"MNester":           {proto: MNester{}, nodeID: air.Nester1Capn_TypeID},
		"MRWTest":           {proto: MRWTest{}, nodeID: air.RWTestCapn_TypeID, subs: map[string]string{"nestMatrix": "MNester"}},
		"MCounter":          {proto: MCounter{}, nodeID: air.Counter_TypeID},
		"MBag":              {proto: MBag{}, nodeID: air.Bag_TypeID, subs: map[string]string{"counter": "MCounter"}},
		"MVoidUnion":        {proto: MVoidUnion{}, nodeID: air.VoidUnion_TypeID},
		"MHoth":             {proto: MHoth{}, nodeID: air.Hoth_TypeID, subs: map[string]string{"base": "MEchoBase"}},
		"MEchoBase":         {proto: MEchoBase{}, nodeID: air.EchoBase_TypeID},
		"MVerTwoTwoPlus":    {proto: MVerTwoTwoPlus{}, nodeID: air.VerTwoTwoPlus_TypeID, subs: map[string]string{"ptr1": "MVerTwoDataTwoPtr", "ptr2": "MVerTwoDataTwoPtr"}},
		"MVerTwoDataTwoPtr": {proto: MVerTwoDataTwoPtr{}, nodeID: air.VerTwoDataTwoPtr_TypeID, subs: map[string]string{"ptr1": "MVerOneData", "ptr2": "MVerOneData"}},
		"MVerOneData":       {proto: MVerOneData{}, nodeID: air.VerOneData_TypeID},
	}
	// the id of group Z.grp
	z, err := im.Node(air.Z_TypeID)
	if err != nil {
		panic(err)
	}
	for _, f := range z.Fields {
		if f.Name == "grp" {
			hs := specs["MZGroup"]
			hs.nodeID = f.Group.ID
			specs["MZGroup"] = hs
		}
	}
	ms, err := buildHandMirrors(im, specs)
	if err != nil {
		panic("c19 air mirrors: " + err.Error())
	}
	wrap := func(n *sgen.Node, s capnp.Struct) (reflect.Value, error) {
		f := airWrap[n.GoName]
		if f == nil {
			return reflect.Value{}, fmt.Errorf("no aircraftlib wrapper for %s", n.GoName)
		}
		return reflect.ValueOf(f(s)), nil
	}
	roots := []string{"MZ", "MZdate", "MPlaneBase", "MPlaneBaseRenamed", "MPlaneBaseEmbed", "MPlaneBaseEmbedPtr", "MPlaneBaseEmbedDeep", "MPlaneBaseEmbedDeep4", "MPlaneBaseEmbedDeep3", "MTwoPtrsOnVerTwoPtr", "MTwoPtrsOnVerTwoDataTwoPtr", "MPlaneBaseEmbedIgnored",
		"MPlaneBaseConflict", "MPlaneBaseTaggedWins", "MPlaneBaseShadow", "MB737Named", "MAircraft", "MB737", "MZF64", "MDefaults",
		"MStackingRoot", "MHoldsText", "MRWTest", "MCounter", "MBag", "MVoidUnion", "MHoth", "MVerTwoTwoPlus"}
	var out []*subject
	for _, r := range roots {
		out = append(out, &subject{origin: "air", m: ms[r], wrap: wrap, fl: "hand"})
	}
	return out
}
