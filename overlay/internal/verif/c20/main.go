// C20 — text rendering is well formed, faithful and independent of encoder
// history.
//
// Values of internal/aircraftlib types are built with the generated setters,
// rendered by encoding/text, parsed back by the independent ref.ParseText and
// compared, field by field, with what the generated getters return.  One text
// Encoder is reused to decide history independence: an overlay hook exposes
// the remaining traversal budget of the schema messages the Encoder caches
// and the check demands a fixpoint (state after Encode == state before).
package main

import (
	"bytes"
	"errors"
	"fmt"
	"math"
	"strings"

	capnp "capnproto.org/go/capnp/v3"
	"capnproto.org/go/capnp/v3/encoding/text"
	air "capnproto.org/go/capnp/v3/internal/aircraftlib"
	"capnproto.org/go/capnp/v3/internal/verif/ref"
	"capnproto.org/go/capnp/v3/internal/verif/vlib"
	rpccp "capnproto.org/go/capnp/v3/std/capnp/rpc"
)

// built is one value to render.
type built struct {
	name   string
	typeID uint64
	s      capnp.Struct
	list   capnp.List // rendered with EncodeList when isList
	isList bool
	want   *exp
}

func newSeg() *capnp.Segment {
	_, seg, err := capnp.NewMessage(capnp.SingleSegment(nil))
	must(err)
	return seg
}

func render(b built) (string, error) {
	if b.isList {
		return text.MarshalList(b.typeID, b.list)
	}
	return text.Marshal(b.typeID, b.s)
}

// ---------------------------------------------------------------------------
// comparison of a parsed text value with the accessor values

type checker struct {
	r      *vlib.Rec
	strCls string // non-empty for string-payload cases: key class
	desc   func() string
	nfail  int
}

func (c *checker) fail(key, format string, a ...interface{}) {
	c.nfail++
	if c.strCls != "" {
		// in string-payload cases every symptom that bad quoting can cause
		// (unparseable text, wrong bytes, shifted structure) is one class
		switch key {
		case "output-not-wellformed", "string-bytes-mismatch", "list-length-mismatch", "kind-mismatch",
			"field-unexpected", "field-missing", "field-duplicated", "union-member-missing":
			key = "string-escaping/" + c.strCls
		}
	}
	if c.r.ViolCount[key] >= 3 {
		c.r.Fail(key, "") // detail is only kept for the first cases of a key
		return
	}
	c.r.Fail(key, fmt.Sprintf(format, a...)+"; "+c.desc())
}

func isZero(e *exp) bool {
	switch e.k {
	case kStruct:
		for _, f := range e.fields {
			if f.def != nil || (f.union && f.v.k != kVoid) || !isZero(f.v) {
				return false
			}
		}
		return true
	case kList:
		return len(e.elems) == 0
	case kText, kData:
		return len(e.b) == 0
	case kInt:
		return e.i == 0
	case kUint:
		return e.u == 0
	case kF32:
		return math.Float32bits(e.f32) == 0
	case kF64:
		return math.Float64bits(e.f64) == 0
	case kBool:
		return !e.bv
	case kVoid:
		return true
	case kEnum:
		return e.ev == 0
	}
	return false
}

func (c *checker) cmp(path string, got *ref.TextValue, want *exp) {
	kindFail := func(wantKind string) {
		c.fail("kind-mismatch", "%s: text has a %s (%q) where the accessor value is a %s", path, got.Kind, got.Lit, wantKind)
	}
	switch want.k {
	case kStruct:
		if got.Kind != ref.TextStruct {
			kindFail("struct")
			return
		}
		known := map[string]bool{}
		for _, f := range want.fields {
			known[f.name] = true
			v, n := got.Field(f.name)
			switch {
			case n > 1:
				c.fail("field-duplicated", "%s.%s appears %d times", path, f.name, n)
			case n == 0:
				absentOK := !f.union && f.def == nil && isZero(f.v)
				if f.def != nil && (f.v.k == kText || f.v.k == kData) && bytes.Equal(f.v.b, f.def) {
					absentOK = true
				}
				if f.union {
					c.fail("union-member-missing", "%s: active union member %q is not shown", path, f.name)
				} else if !absentOK {
					c.fail("field-missing", "%s.%s is not shown although its accessor returns a non-default value", path, f.name)
				} else {
					c.r.Outcome("default-field-omitted")
				}
			default:
				c.cmp(path+"."+f.name, v, f.v)
			}
		}
		for _, f := range got.Fields {
			if !known[f.Name] {
				c.fail("field-unexpected", "%s: text shows %q, which is neither a plain field nor the active union member", path, f.Name)
			}
		}
	case kList:
		if got.Kind != ref.TextList {
			kindFail("list")
			return
		}
		if len(got.Elems) != len(want.elems) {
			c.fail("list-length-mismatch", "%s: text list has %d elements, accessor list has %d", path, len(got.Elems), len(want.elems))
			return
		}
		for i := range want.elems {
			c.cmp(fmt.Sprintf("%s[%d]", path, i), got.Elems[i], want.elems[i])
		}
	case kText, kData:
		if got.Kind != ref.TextString {
			kindFail("text/data")
			return
		}
		if !bytes.Equal(got.Bytes, want.b) {
			c.fail("string-bytes-mismatch", "%s: literal decodes to % x, accessor returns % x", path, got.Bytes, want.b)
		}
		if got.RawHigh > 0 {
			c.r.Outcome("raw-high-bytes-in-literal")
		}
	case kInt:
		v, err := ref.TextInt(got)
		if err != nil || v != want.i {
			c.fail("int-mismatch", "%s: text %q (err %v), accessor returns %d (int%d)", path, got.Lit, err, want.i, want.bits)
		}
	case kUint:
		v, err := ref.TextUint(got)
		if err != nil || v != want.u {
			c.fail("uint-mismatch", "%s: text %q (err %v), accessor returns %d (uint%d)", path, got.Lit, err, want.u, want.bits)
		}
	case kF32:
		f, canon, err := ref.TextFloat(got, 32)
		w := want.f32
		ok := err == nil && (math.Float32bits(float32(f)) == math.Float32bits(w) || (f != f && w != w))
		if !ok {
			c.fail("float32-mismatch", "%s: text %q (err %v), accessor returns %v (bits %08x)", path, got.Lit, err, w, math.Float32bits(w))
		} else if !canon {
			c.r.Outcome("float-spelling-not-inf/nan:" + got.Lit)
		}
	case kF64:
		f, canon, err := ref.TextFloat(got, 64)
		w := want.f64
		ok := err == nil && (math.Float64bits(f) == math.Float64bits(w) || (f != f && w != w))
		if !ok {
			c.fail("float64-mismatch", "%s: text %q (err %v), accessor returns %v (bits %016x)", path, got.Lit, err, w, math.Float64bits(w))
		} else if !canon {
			c.r.Outcome("float-spelling-not-inf/nan:" + got.Lit)
		}
	case kBool:
		if got.Kind != ref.TextIdent || (got.Lit != "true" && got.Lit != "false") || (got.Lit == "true") != want.bv {
			c.fail("bool-mismatch", "%s: text %q, accessor returns %v", path, got.Lit, want.bv)
		}
	case kVoid:
		if got.Kind != ref.TextIdent || got.Lit != "void" {
			c.fail("void-mismatch", "%s: text %s %q where a Void is expected", path, got.Kind, got.Lit)
		}
	case kEnum:
		switch got.Kind {
		case ref.TextIdent:
			if int(want.ev) >= len(want.names) || want.names[want.ev] != got.Lit {
				c.fail("enum-mismatch", "%s: text shows enumerant %q, accessor returns %d", path, got.Lit, want.ev)
			}
		case ref.TextNumber:
			v, err := ref.TextUint(got)
			if err != nil || v != uint64(want.ev) {
				c.fail("enum-mismatch", "%s: text %q, accessor returns %d", path, got.Lit, want.ev)
			} else if int(want.ev) < len(want.names) {
				c.r.Outcome("enumerant-shown-as-number")
			} else {
				c.r.Outcome("out-of-range-enum-as-number")
			}
		default:
			kindFail("enum")
		}
	case kOpaque:
		// capability / AnyPointer: the text does not show a value
		c.r.Outcome("opaque:" + got.Kind.String() + ":" + got.Lit)
	}
}

// checkBuilt renders b and applies the faithfulness oracle.
func checkBuilt(b built, strCls string, r *vlib.Rec, what string) {
	out, err := render(b)
	c := &checker{r: r, strCls: strCls}
	c.desc = func() string { return fmt.Sprintf("%s -> text %q (%s)", b.name, out, what) }
	if err != nil {
		c.fail("marshal-error", "Marshal returned %v", err)
		return
	}
	tv, perr := ref.ParseText(out)
	if perr != nil {
		c.fail("output-not-wellformed", "the text is not a well-formed Cap'n Proto text value: %v", perr)
		return
	}
	c.cmp("$", tv, b.want)
}

// guard converts builder problems into a harness failure (never a verdict on
// the text encoder).
func guard(r *vlib.Rec, f func()) {
	defer func() {
		if p := recover(); p != nil {
			if be, ok := p.(builderErr); ok {
				r.Fail("harness-builder", be.err.Error())
				return
			}
			panic(p)
		}
	}()
	f()
}

// ---------------------------------------------------------------------------
// string payloads

var alphabet = []byte{'a', '"', '\\', '\'', '\n', 0, 0x7f, 0x80, 0xff, ' ', ',', ')', '(', '=', '1', '7'}

func strCount(maxLen int) int64 {
	n, p := int64(1), int64(1)
	for l := 1; l <= maxLen; l++ {
		p *= int64(len(alphabet))
		n += p
	}
	return n
}

func strDecode(i int64) []byte {
	if i == 0 {
		return []byte{}
	}
	i--
	a := int64(len(alphabet))
	p := a
	l := 1
	for i >= p {
		i -= p
		p *= a
		l++
	}
	s := make([]byte, l)
	for k := 0; k < l; k++ {
		s[k] = alphabet[i%a]
		i /= a
	}
	return s
}

func strClass(ss ...[]byte) string {
	q, b := false, false
	for _, s := range ss {
		q = q || bytes.IndexByte(s, '"') >= 0
		b = b || bytes.IndexByte(s, '\\') >= 0
	}
	switch {
	case q && b:
		return "quote+backslash"
	case q:
		return "quote"
	case b:
		return "backslash"
	}
	return "other"
}

func zRoot() (air.Z, *capnp.Segment) {
	seg := newSeg()
	z, err := air.NewRootZ(seg)
	must(err)
	return z, seg
}

func textList(seg *capnp.Segment, ss ...[]byte) capnp.TextList {
	l, err := capnp.NewTextList(seg, int32(len(ss)))
	must(err)
	for i, s := range ss {
		must(l.Set(i, string(s)))
	}
	return l
}

func dataList(seg *capnp.Segment, ss ...[]byte) capnp.DataList {
	l, err := capnp.NewDataList(seg, int32(len(ss)))
	must(err)
	for i, s := range ss {
		must(l.Set(i, s))
	}
	return l
}

func zBuilt(name string, z air.Z) built {
	return built{name: name, typeID: air.Z_TypeID, s: z.Struct, want: expZ(z)}
}

type strCarrier struct {
	name string
	f    func(s []byte) built
}

var strCarriers = []strCarrier{
	{"Z.text", func(s []byte) built { z, _ := zRoot(); must(z.SetText(string(s))); return zBuilt("Z{text}", z) }},
	{"Z.blob", func(s []byte) built { z, _ := zRoot(); must(z.SetBlob(s)); return zBuilt("Z{blob}", z) }},
	{"Z.textvec[s]", func(s []byte) built {
		z, seg := zRoot()
		must(z.SetTextvec(textList(seg, s)))
		return zBuilt("Z{textvec=[s]}", z)
	}},
	{"Z.datavec[s]", func(s []byte) built {
		z, seg := zRoot()
		must(z.SetDatavec(dataList(seg, s)))
		return zBuilt("Z{datavec=[s]}", z)
	}},
	{"Z.textvec['',s,'a']", func(s []byte) built {
		z, seg := zRoot()
		must(z.SetTextvec(textList(seg, nil, s, []byte("a"))))
		return zBuilt("Z{textvec=['',s,'a']}", z)
	}},
	{"Z.datavec[s,s]", func(s []byte) built {
		z, seg := zRoot()
		must(z.SetDatavec(dataList(seg, s, s)))
		return zBuilt("Z{datavec=[s,s]}", z)
	}},
	{"Zdata", func(s []byte) built {
		d, err := air.NewRootZdata(newSeg())
		must(err)
		must(d.SetData(s))
		return built{name: "Zdata{data}", typeID: air.Zdata_TypeID, s: d.Struct, want: expZdata(d)}
	}},
	{"PlaneBase.name", func(s []byte) built {
		p, err := air.NewRootPlaneBase(newSeg())
		must(err)
		must(p.SetName(string(s)))
		return built{name: "PlaneBase{name}", typeID: air.PlaneBase_TypeID, s: p.Struct, want: expPlaneBase(p)}
	}},
	{"Counter", func(s []byte) built {
		seg := newSeg()
		c, err := air.NewRootCounter(seg)
		must(err)
		must(c.SetWords(string(s)))
		must(c.SetWordlist(textList(seg, s)))
		return built{name: "Counter{words=s,wordlist=[s]}", typeID: air.Counter_TypeID, s: c.Struct, want: expCounter(c)}
	}},
	{"Zjob", func(s []byte) built {
		seg := newSeg()
		j, err := air.NewRootZjob(seg)
		must(err)
		must(j.SetCmd(string(s)))
		must(j.SetArgs(textList(seg, s, s)))
		return built{name: "Zjob{cmd=s,args=[s,s]}", typeID: air.Zjob_TypeID, s: j.Struct, want: expZjob(j)}
	}},
	{"HoldsText", func(s []byte) built {
		seg := newSeg()
		h, err := air.NewRootHoldsText(seg)
		must(err)
		must(h.SetTxt(string(s)))
		must(h.SetLst(textList(seg, s)))
		pl, err := h.NewLstlst(3)
		must(err)
		must(pl.Set(0, textList(seg, s).ToPtr()))
		must(pl.Set(1, textList(seg).ToPtr()))
		must(pl.Set(2, textList(seg, s, []byte("x")).ToPtr()))
		return built{name: "HoldsText{txt=s,lst=[s],lstlst=[[s],[],[s,'x']]}", typeID: air.HoldsText_TypeID, s: h.Struct, want: expHoldsText(h)}
	}},
	{"Nester1Capn", func(s []byte) built {
		seg := newSeg()
		n, err := air.NewRootNester1Capn(seg)
		must(err)
		must(n.SetStrs(textList(seg, s)))
		return built{name: "Nester1Capn{strs=[s]}", typeID: air.Nester1Capn_TypeID, s: n.Struct, want: expNester(n)}
	}},
	{"RWTestCapn", func(s []byte) built {
		seg := newSeg()
		t, err := air.NewRootRWTestCapn(seg)
		must(err)
		pl, err := t.NewNestMatrix(2)
		must(err)
		nl, err := air.NewNester1Capn_List(seg, 1)
		must(err)
		must(nl.At(0).SetStrs(textList(seg, s)))
		must(pl.Set(0, nl.ToPtr()))
		el, err := air.NewNester1Capn_List(seg, 0)
		must(err)
		must(pl.Set(1, el.ToPtr()))
		return built{name: "RWTestCapn{nestMatrix=[[{strs=[s]}],[]]}", typeID: air.RWTestCapn_TypeID, s: t.Struct, want: expRWTest(t)}
	}},
	{"ListStructCapn", func(s []byte) built {
		seg := newSeg()
		t, err := air.NewRootListStructCapn(seg)
		must(err)
		nl, err := t.NewVec(2)
		must(err)
		must(nl.At(1).SetStrs(textList(seg, s, s)))
		return built{name: "ListStructCapn{vec=[{},{strs=[s,s]}]}", typeID: air.ListStructCapn_TypeID, s: t.Struct, want: expListStruct(t)}
	}},
	{"Defaults", func(s []byte) built {
		d, err := air.NewRootDefaults(newSeg())
		must(err)
		must(d.SetText(string(s)))
		must(d.SetData(s))
		return built{name: "Defaults{text=s,data=s}", typeID: air.Defaults_TypeID, s: d.Struct, want: expDefaults(d)}
	}},
	{"BenchmarkA", func(s []byte) built {
		b, err := air.NewRootBenchmarkA(newSeg())
		must(err)
		must(b.SetName(string(s)))
		must(b.SetPhone(string(s)))
		return built{name: "BenchmarkA{name=s,phone=s}", typeID: air.BenchmarkA_TypeID, s: b.Struct, want: expBenchmarkA(b)}
	}},
	{"AllocBenchmark", func(s []byte) built {
		a, err := air.NewRootAllocBenchmark(newSeg())
		must(err)
		l, err := a.NewFields(2)
		must(err)
		must(l.At(0).SetStringValue(string(s)))
		return built{name: "AllocBenchmark{fields=[{stringValue=s},{}]}", typeID: air.AllocBenchmark_TypeID, s: a.Struct, want: expAllocBenchmark(a)}
	}},
	{"Z.zdatavec", func(s []byte) built {
		z, _ := zRoot()
		l, err := z.NewZdatavec(1)
		must(err)
		must(l.At(0).SetData(s))
		return zBuilt("Z{zdatavec=[{data=s}]}", z)
	}},
	{"Z.zvec", func(s []byte) built {
		z, _ := zRoot()
		l, err := z.NewZvec(2)
		must(err)
		must(l.At(0).SetText(string(s)))
		must(l.At(1).SetBlob(s))
		return zBuilt("Z{zvec=[{text=s},{blob=s}]}", z)
	}},
	{"Z.planebase", func(s []byte) built {
		z, _ := zRoot()
		p, err := z.NewPlanebase()
		must(err)
		must(p.SetName(string(s)))
		return zBuilt("Z{planebase={name=s}}", z)
	}},
	{"Z.zz.zz.text", func(s []byte) built {
		z, _ := zRoot()
		z1, err := z.NewZz()
		must(err)
		z2, err := z1.NewZz()
		must(err)
		must(z2.SetText(string(s)))
		return zBuilt("Z{zz={zz={text=s}}}", z)
	}},
	{"Z.zvecvec", func(s []byte) built {
		z, seg := zRoot()
		pl, err := z.NewZvecvec(2)
		must(err)
		l, err := air.NewZ_List(seg, 1)
		must(err)
		must(l.At(0).SetText(string(s)))
		must(pl.Set(0, l.ToPtr()))
		return zBuilt("Z{zvecvec=[[{text=s}],null]}", z)
	}},
	{"Z.regression", func(s []byte) built {
		z, _ := zRoot()
		rg, err := z.NewRegression()
		must(err)
		p, err := rg.NewBase()
		must(err)
		must(p.SetName(string(s)))
		return zBuilt("Z{regression={base={name=s}}}", z)
	}},
	{"Z.zdata", func(s []byte) built {
		z, _ := zRoot()
		d, err := z.NewZdata()
		must(err)
		must(d.SetData(s))
		return zBuilt("Z{zdata={data=s}}", z)
	}},
	{"MarshalList(Zdata)", func(s []byte) built {
		seg := newSeg()
		l, err := air.NewZdata_List(seg, 2)
		must(err)
		must(l.At(0).SetData(s))
		must(l.At(1).SetData(s))
		return built{name: "MarshalList([Zdata{s},Zdata{s}])", typeID: air.Zdata_TypeID, list: l.List, isList: true,
			want: listOf(2, func(i int) *exp { return expZdata(l.At(i)) })}
	}},
	{"MarshalList(Zjob)", func(s []byte) built {
		seg := newSeg()
		l, err := air.NewZjob_List(seg, 1)
		must(err)
		must(l.At(0).SetCmd(string(s)))
		must(l.At(0).SetArgs(textList(seg, s)))
		return built{name: "MarshalList([Zjob{cmd=s,args=[s]}])", typeID: air.Zjob_TypeID, list: l.List, isList: true,
			want: listOf(1, func(i int) *exp { return expZjob(l.At(i)) })}
	}},
}

var pairCarriers = []struct {
	name string
	f    func(a, b []byte) built
}{
	{"Z.textvec[a,b]", func(a, b []byte) built {
		z, seg := zRoot()
		must(z.SetTextvec(textList(seg, a, b)))
		return zBuilt("Z{textvec=[a,b]}", z)
	}},
	{"Z.datavec[a,b]", func(a, b []byte) built {
		z, seg := zRoot()
		must(z.SetDatavec(dataList(seg, a, b)))
		return zBuilt("Z{datavec=[a,b]}", z)
	}},
	{"Zjob{a,[b]}", func(a, b []byte) built {
		seg := newSeg()
		j, err := air.NewRootZjob(seg)
		must(err)
		must(j.SetCmd(string(a)))
		must(j.SetArgs(textList(seg, b)))
		return built{name: "Zjob{cmd=a,args=[b]}", typeID: air.Zjob_TypeID, s: j.Struct, want: expZjob(j)}
	}},
	{"BenchmarkA{a,b}", func(a, b []byte) built {
		x, err := air.NewRootBenchmarkA(newSeg())
		must(err)
		must(x.SetName(string(a)))
		must(x.SetPhone(string(b)))
		return built{name: "BenchmarkA{name=a,phone=b}", typeID: air.BenchmarkA_TypeID, s: x.Struct, want: expBenchmarkA(x)}
	}},
}

// ---------------------------------------------------------------------------
// numeric, enum and union-member cases: a flat list of builders

type valueCase struct {
	name string
	f    func() built
}

var (
	i64vals = []int64{0, 1, -1, math.MinInt64, math.MaxInt64, math.MinInt64 + 1, math.MaxInt64 - 1, 1234567890123456789}
	i32vals = []int32{0, 1, -1, math.MinInt32, math.MaxInt32, math.MinInt32 + 1, math.MaxInt32 - 1, 123456789}
	i16vals = []int16{0, 1, -1, math.MinInt16, math.MaxInt16, math.MinInt16 + 1, math.MaxInt16 - 1, 12345}
	i8vals  = []int8{0, 1, -1, math.MinInt8, math.MaxInt8, math.MinInt8 + 1, math.MaxInt8 - 1, 99}
	u64vals = []uint64{0, 1, math.MaxUint64, math.MaxUint64 - 1, 1 << 63, 1<<63 - 1}
	u32vals = []uint32{0, 1, math.MaxUint32, math.MaxUint32 - 1, 1 << 31, 1<<31 - 1}
	u16vals = []uint16{0, 1, math.MaxUint16, math.MaxUint16 - 1, 1 << 15, 1<<15 - 1}
	u8vals  = []uint8{0, 1, math.MaxUint8, math.MaxUint8 - 1, 1 << 7, 1<<7 - 1}
	f64vals = []float64{0, math.Copysign(0, -1), 1, -1, math.NaN(), math.Inf(1), math.Inf(-1), math.MaxFloat64, -math.MaxFloat64,
		math.SmallestNonzeroFloat64, -math.SmallestNonzeroFloat64, 0.1, 1e21, 1e20, 123456789.125, 1e-7, 2.2250738585072014e-308,
		math.Float64frombits(0x7ff8000000000001), math.Float64frombits(0xfff8000000000000), 3.14, 1.0000000000000002}
	f32vals = []float32{0, float32(math.Copysign(0, -1)), 1, -1, float32(math.NaN()), float32(math.Inf(1)), float32(math.Inf(-1)), math.MaxFloat32, -math.MaxFloat32,
		math.SmallestNonzeroFloat32, -math.SmallestNonzeroFloat32, 0.1, 1e21, 1e20, 16777217, 1e-7, 1.1754944e-38,
		math.Float32frombits(0x7fc00001), math.Float32frombits(0xffc00000), 3.14, 1.0000001}
	enumVals = []uint16{0, 1, 2, 3, 4, 5, 6, 7, 8, 255, 256, 32767, 32768, 65535}
)

func zCase(name string, set func(z air.Z, seg *capnp.Segment)) valueCase {
	return valueCase{name, func() built {
		z, seg := zRoot()
		set(z, seg)
		return zBuilt(name, z)
	}}
}

func numberCases() []valueCase {
	var cs []valueCase
	add := func(c valueCase) { cs = append(cs, c) }
	// Z scalar members, every boundary value; vectors: empty, all values, singletons
	for _, v := range f64vals {
		v := v
		add(zCase(fmt.Sprintf("Z{f64=%v/%016x}", v, math.Float64bits(v)), func(z air.Z, _ *capnp.Segment) { z.SetF64(v) }))
		add(zCase(fmt.Sprintf("Z{f64vec=[%v]}", v), func(z air.Z, _ *capnp.Segment) { l, err := z.NewF64vec(1); must(err); l.Set(0, v) }))
	}
	for _, v := range f32vals {
		v := v
		add(zCase(fmt.Sprintf("Z{f32=%v/%08x}", v, math.Float32bits(v)), func(z air.Z, _ *capnp.Segment) { z.SetF32(v) }))
		add(zCase(fmt.Sprintf("Z{f32vec=[%v]}", v), func(z air.Z, _ *capnp.Segment) { l, err := z.NewF32vec(1); must(err); l.Set(0, v) }))
	}
	for _, v := range i64vals {
		v := v
		add(zCase(fmt.Sprintf("Z{i64=%d}", v), func(z air.Z, _ *capnp.Segment) { z.SetI64(v) }))
		add(zCase(fmt.Sprintf("Z{i64vec=[%d]}", v), func(z air.Z, _ *capnp.Segment) { l, err := z.NewI64vec(1); must(err); l.Set(0, v) }))
	}
	for _, v := range i32vals {
		v := v
		add(zCase(fmt.Sprintf("Z{i32=%d}", v), func(z air.Z, _ *capnp.Segment) { z.SetI32(v) }))
		add(zCase(fmt.Sprintf("Z{i32vec=[%d]}", v), func(z air.Z, _ *capnp.Segment) { l, err := z.NewI32vec(1); must(err); l.Set(0, v) }))
	}
	for _, v := range i16vals {
		v := v
		add(zCase(fmt.Sprintf("Z{i16=%d}", v), func(z air.Z, _ *capnp.Segment) { z.SetI16(v) }))
		add(zCase(fmt.Sprintf("Z{i16vec=[%d]}", v), func(z air.Z, _ *capnp.Segment) { l, err := z.NewI16vec(1); must(err); l.Set(0, v) }))
	}
	for _, v := range i8vals {
		v := v
		add(zCase(fmt.Sprintf("Z{i8=%d}", v), func(z air.Z, _ *capnp.Segment) { z.SetI8(v) }))
		add(zCase(fmt.Sprintf("Z{i8vec=[%d]}", v), func(z air.Z, _ *capnp.Segment) { l, err := z.NewI8vec(1); must(err); l.Set(0, v) }))
	}
	for _, v := range u64vals {
		v := v
		add(zCase(fmt.Sprintf("Z{u64=%d}", v), func(z air.Z, _ *capnp.Segment) { z.SetU64(v) }))
		add(zCase(fmt.Sprintf("Z{u64vec=[%d]}", v), func(z air.Z, _ *capnp.Segment) { l, err := z.NewU64vec(1); must(err); l.Set(0, v) }))
	}
	for _, v := range u32vals {
		v := v
		add(zCase(fmt.Sprintf("Z{u32=%d}", v), func(z air.Z, _ *capnp.Segment) { z.SetU32(v) }))
		add(zCase(fmt.Sprintf("Z{u32vec=[%d]}", v), func(z air.Z, _ *capnp.Segment) { l, err := z.NewU32vec(1); must(err); l.Set(0, v) }))
	}
	for _, v := range u16vals {
		v := v
		add(zCase(fmt.Sprintf("Z{u16=%d}", v), func(z air.Z, _ *capnp.Segment) { z.SetU16(v) }))
		add(zCase(fmt.Sprintf("Z{u16vec=[%d]}", v), func(z air.Z, _ *capnp.Segment) { l, err := z.NewU16vec(1); must(err); l.Set(0, v) }))
	}
	for _, v := range u8vals {
		v := v
		add(zCase(fmt.Sprintf("Z{u8=%d}", v), func(z air.Z, _ *capnp.Segment) { z.SetU8(v) }))
		add(zCase(fmt.Sprintf("Z{u8vec=[%d]}", v), func(z air.Z, _ *capnp.Segment) { l, err := z.NewU8vec(1); must(err); l.Set(0, v) }))
	}
	for _, v := range []bool{false, true} {
		v := v
		add(zCase(fmt.Sprintf("Z{bool=%v}", v), func(z air.Z, _ *capnp.Segment) { z.SetBool(v) }))
	}
	// whole tables in one list, and empty lists
	for _, n := range []int{0, -1} {
		n := n
		ln := func(full int) int32 {
			if n == 0 {
				return 0
			}
			return int32(full)
		}
		tag := "all"
		if n == 0 {
			tag = "empty"
		}
		add(zCase("Z{f64vec="+tag+"}", func(z air.Z, _ *capnp.Segment) {
			l, err := z.NewF64vec(ln(len(f64vals)))
			must(err)
			for i := 0; i < l.Len(); i++ {
				l.Set(i, f64vals[i])
			}
		}))
		add(zCase("Z{f32vec="+tag+"}", func(z air.Z, _ *capnp.Segment) {
			l, err := z.NewF32vec(ln(len(f32vals)))
			must(err)
			for i := 0; i < l.Len(); i++ {
				l.Set(i, f32vals[i])
			}
		}))
		add(zCase("Z{i64vec="+tag+"}", func(z air.Z, _ *capnp.Segment) {
			l, err := z.NewI64vec(ln(len(i64vals)))
			must(err)
			for i := 0; i < l.Len(); i++ {
				l.Set(i, i64vals[i])
			}
		}))
		add(zCase("Z{i32vec="+tag+"}", func(z air.Z, _ *capnp.Segment) {
			l, err := z.NewI32vec(ln(len(i32vals)))
			must(err)
			for i := 0; i < l.Len(); i++ {
				l.Set(i, i32vals[i])
			}
		}))
		add(zCase("Z{i16vec="+tag+"}", func(z air.Z, _ *capnp.Segment) {
			l, err := z.NewI16vec(ln(len(i16vals)))
			must(err)
			for i := 0; i < l.Len(); i++ {
				l.Set(i, i16vals[i])
			}
		}))
		add(zCase("Z{i8vec="+tag+"}", func(z air.Z, _ *capnp.Segment) {
			l, err := z.NewI8vec(ln(len(i8vals)))
			must(err)
			for i := 0; i < l.Len(); i++ {
				l.Set(i, i8vals[i])
			}
		}))
		add(zCase("Z{u64vec="+tag+"}", func(z air.Z, _ *capnp.Segment) {
			l, err := z.NewU64vec(ln(len(u64vals)))
			must(err)
			for i := 0; i < l.Len(); i++ {
				l.Set(i, u64vals[i])
			}
		}))
		add(zCase("Z{u32vec="+tag+"}", func(z air.Z, _ *capnp.Segment) {
			l, err := z.NewU32vec(ln(len(u32vals)))
			must(err)
			for i := 0; i < l.Len(); i++ {
				l.Set(i, u32vals[i])
			}
		}))
		add(zCase("Z{u16vec="+tag+"}", func(z air.Z, _ *capnp.Segment) {
			l, err := z.NewU16vec(ln(len(u16vals)))
			must(err)
			for i := 0; i < l.Len(); i++ {
				l.Set(i, u16vals[i])
			}
		}))
		add(zCase("Z{u8vec="+tag+"}", func(z air.Z, _ *capnp.Segment) {
			l, err := z.NewU8vec(ln(len(u8vals)))
			must(err)
			for i := 0; i < l.Len(); i++ {
				l.Set(i, u8vals[i])
			}
		}))
	}
	// bit lists: every length 0..9 with two patterns
	for n := 0; n <= 9; n++ {
		for pat := 0; pat < 2; pat++ {
			n, pat := n, pat
			add(zCase(fmt.Sprintf("Z{boolvec len %d pattern %d}", n, pat), func(z air.Z, _ *capnp.Segment) {
				l, err := z.NewBoolvec(int32(n))
				must(err)
				for i := 0; i < n; i++ {
					l.Set(i, (i+pat)%2 == 0 || i == 7)
				}
			}))
		}
	}
	// group
	for _, a := range u64vals {
		for _, b := range u64vals {
			a, b := a, b
			add(zCase(fmt.Sprintf("Z{grp=(%d,%d)}", a, b), func(z air.Z, _ *capnp.Segment) { z.SetGrp(); z.Grp().SetFirst(a); z.Grp().SetSecond(b) }))
		}
	}
	// Zdate
	for _, y := range i16vals {
		for _, m := range u8vals {
			for _, d := range u8vals {
				y, m, d := y, m, d
				add(valueCase{fmt.Sprintf("Zdate{%d,%d,%d}", y, m, d), func() built {
					x, err := air.NewRootZdate(newSeg())
					must(err)
					x.SetYear(y)
					x.SetMonth(m)
					x.SetDay(d)
					return built{name: fmt.Sprintf("Zdate{%d,%d,%d}", y, m, d), typeID: air.Zdate_TypeID, s: x.Struct, want: expZdate(x)}
				}})
			}
		}
	}
	// PlaneBase numbers
	for ri, rt := range i64vals {
		for _, fl := range []bool{false, true} {
			for _, sp := range f64vals {
				rt, fl, sp, cp := rt, fl, sp, i64vals[len(i64vals)-1-ri]
				name := fmt.Sprintf("PlaneBase{rating=%d,canFly=%v,capacity=%d,maxSpeed=%v}", rt, fl, cp, sp)
				add(valueCase{name, func() built {
					p, err := air.NewRootPlaneBase(newSeg())
					must(err)
					p.SetRating(rt)
					p.SetCanFly(fl)
					p.SetCapacity(cp)
					p.SetMaxSpeed(sp)
					return built{name: name, typeID: air.PlaneBase_TypeID, s: p.Struct, want: expPlaneBase(p)}
				}})
			}
		}
	}
	// Defaults: schema defaults are XORed in
	defCase := func(name string, set func(d air.Defaults)) {
		add(valueCase{name, func() built {
			d, err := air.NewRootDefaults(newSeg())
			must(err)
			set(d)
			return built{name: name, typeID: air.Defaults_TypeID, s: d.Struct, want: expDefaults(d)}
		}})
	}
	defCase("Defaults{}", func(air.Defaults) {})
	defCase("Defaults{float=3.14,int=-123,uint=42}", func(d air.Defaults) { d.SetFloat(3.14); d.SetInt(-123); d.SetUint(42) })
	for _, v := range f32vals {
		v := v
		defCase(fmt.Sprintf("Defaults{float=%v}", v), func(d air.Defaults) { d.SetFloat(v) })
	}
	for _, v := range i32vals {
		v := v
		defCase(fmt.Sprintf("Defaults{int=%d}", v), func(d air.Defaults) { d.SetInt(v) })
	}
	for _, v := range u32vals {
		v := v
		defCase(fmt.Sprintf("Defaults{uint=%d}", v), func(d air.Defaults) { d.SetUint(v) })
	}
	// VerTwoData
	for _, a := range i16vals {
		for _, b := range i64vals {
			a, b := a, b
			name := fmt.Sprintf("VerTwoData{%d,%d}", a, b)
			add(valueCase{name, func() built {
				x, err := air.NewRootVerTwoData(newSeg())
				must(err)
				x.SetVal(a)
				x.SetDuo(b)
				return built{name: name, typeID: air.VerTwoData_TypeID, s: x.Struct, want: expVerTwoData(x)}
			}})
		}
	}
	// BenchmarkA / Counter / Regression numbers
	for i := range f64vals {
		i := i
		name := fmt.Sprintf("BenchmarkA#%d", i)
		add(valueCase{name, func() built {
			x, err := air.NewRootBenchmarkA(newSeg())
			must(err)
			x.SetBirthDay(i64vals[i%len(i64vals)])
			x.SetSiblings(i32vals[i%len(i32vals)])
			x.SetSpouse(i%2 == 1)
			x.SetMoney(f64vals[i])
			return built{name: name, typeID: air.BenchmarkA_TypeID, s: x.Struct, want: expBenchmarkA(x)}
		}})
		name2 := fmt.Sprintf("Regression#%d", i)
		add(valueCase{name2, func() built {
			seg := newSeg()
			x, err := air.NewRootRegression(seg)
			must(err)
			x.SetB0(f64vals[i])
			x.SetYmu(f64vals[(i+1)%len(f64vals)])
			x.SetYsd(f64vals[(i+2)%len(f64vals)])
			l, err := x.NewBeta(int32(i))
			must(err)
			for k := 0; k < i; k++ {
				l.Set(k, f64vals[k])
			}
			return built{name: name2, typeID: air.Regression_TypeID, s: x.Struct, want: expRegression(x)}
		}})
	}
	for i, v := range i64vals {
		i, v := i, v
		name := fmt.Sprintf("Counter{size=%d,bitlist len %d}", v, i)
		add(valueCase{name, func() built {
			x, err := air.NewRootCounter(newSeg())
			must(err)
			x.SetSize(v)
			l, err := x.NewBitlist(int32(i))
			must(err)
			for k := 0; k < i; k++ {
				l.Set(k, k%3 == 0)
			}
			return built{name: name, typeID: air.Counter_TypeID, s: x.Struct, want: expCounter(x)}
		}})
	}
	return cs
}

func enumCases() []valueCase {
	var cs []valueCase
	for _, v := range enumVals {
		v := v
		cs = append(cs, zCase(fmt.Sprintf("Z{airport=%d}", v), func(z air.Z, _ *capnp.Segment) { z.SetAirport(air.Airport(v)) }))
	}
	homes := func(name string, vs ...uint16) {
		cs = append(cs, valueCase{name, func() built {
			p, err := air.NewRootPlaneBase(newSeg())
			must(err)
			l, err := p.NewHomes(int32(len(vs)))
			must(err)
			for i, v := range vs {
				l.Set(i, air.Airport(v))
			}
			return built{name: name, typeID: air.PlaneBase_TypeID, s: p.Struct, want: expPlaneBase(p)}
		}})
	}
	homes("PlaneBase{homes=[]}")
	for _, a := range enumVals {
		homes(fmt.Sprintf("PlaneBase{homes=[%d]}", a), a)
		for _, b := range enumVals {
			homes(fmt.Sprintf("PlaneBase{homes=[%d,%d]}", a, b), a, b)
		}
	}
	homes("PlaneBase{homes=all}", enumVals...)
	return cs
}

// armCases: every union member of Z / Aircraft / VoidUnion, nesting, lists of
// structs, nested lists, null and non-null pointers, struct defaults.
func armCases() []valueCase {
	var cs []valueCase
	add := func(c valueCase) { cs = append(cs, c) }
	plain := func(name string, typeID uint64, f func(seg *capnp.Segment) (capnp.Struct, *exp)) {
		add(valueCase{name, func() built {
			s, w := f(newSeg())
			return built{name: name, typeID: typeID, s: s, want: w}
		}})
	}
	add(zCase("Z{} (fresh)", func(z air.Z, _ *capnp.Segment) {}))
	add(zCase("Z{void}", func(z air.Z, _ *capnp.Segment) { z.SetF64(1.5); z.SetVoid() }))
	add(zCase("Z{zz=null}", func(z air.Z, _ *capnp.Segment) { must(z.SetZz(air.Z{})) }))
	for depth := 1; depth <= 4; depth++ {
		depth := depth
		add(zCase(fmt.Sprintf("Z{zz nested %d deep, innermost i8=-7}", depth), func(z air.Z, _ *capnp.Segment) {
			cur := z
			for d := 0; d < depth; d++ {
				n, err := cur.NewZz()
				must(err)
				cur = n
			}
			cur.SetI8(-7)
		}))
	}
	add(zCase("Z{text=null}", func(z air.Z, _ *capnp.Segment) { must(z.SetText("")) }))
	add(zCase("Z{blob=null}", func(z air.Z, _ *capnp.Segment) { must(z.SetBlob(nil)) }))
	add(zCase("Z{blob=empty non-null}", func(z air.Z, _ *capnp.Segment) { must(z.SetBlob([]byte{})) }))
	add(zCase("Z{textvec=null}", func(z air.Z, _ *capnp.Segment) { must(z.SetTextvec(capnp.TextList{})) }))
	add(zCase("Z{datavec=null}", func(z air.Z, _ *capnp.Segment) { must(z.SetDatavec(capnp.DataList{})) }))
	add(zCase("Z{textvec=[null,'x',null]}", func(z air.Z, _ *capnp.Segment) {
		l, err := z.NewTextvec(3)
		must(err)
		must(l.Set(1, "x"))
	}))
	add(zCase("Z{datavec=[null,'x']}", func(z air.Z, _ *capnp.Segment) {
		l, err := z.NewDatavec(2)
		must(err)
		must(l.Set(1, []byte("x")))
	}))
	add(zCase("Z{zvec=mixed members}", func(z air.Z, seg *capnp.Segment) {
		l, err := z.NewZvec(8)
		must(err)
		l.At(1).SetI64(-5)
		l.At(2).SetBool(true)
		must(l.At(3).SetText("t"))
		l.At(4).SetAirport(air.Airport_sfo)
		l.At(5).SetGrp()
		l.At(5).Grp().SetSecond(9)
		d, err := l.At(6).NewZdate()
		must(err)
		d.SetYear(-1)
		zz, err := l.At(7).NewZz()
		must(err)
		zz.SetU8(200)
	}))
	add(zCase("Z{zvec=[]}", func(z air.Z, _ *capnp.Segment) { _, err := z.NewZvec(0); must(err) }))
	add(zCase("Z{zvecvec=[[],[z],[z,z],null]}", func(z air.Z, seg *capnp.Segment) {
		pl, err := z.NewZvecvec(4)
		must(err)
		for i := 0; i < 3; i++ {
			l, err := air.NewZ_List(seg, int32(i))
			must(err)
			for k := 0; k < i; k++ {
				l.At(k).SetU16(uint16(100*i + k))
			}
			must(pl.Set(i, l.ToPtr()))
		}
	}))
	add(zCase("Z{zvecvec=[]}", func(z air.Z, _ *capnp.Segment) { _, err := z.NewZvecvec(0); must(err) }))
	add(zCase("Z{zdate}", func(z air.Z, _ *capnp.Segment) {
		d, err := z.NewZdate()
		must(err)
		d.SetYear(2015)
		d.SetMonth(8)
		d.SetDay(27)
	}))
	add(zCase("Z{zdate=null}", func(z air.Z, _ *capnp.Segment) { must(z.SetZdate(air.Zdate{})) }))
	add(zCase("Z{zdata=null}", func(z air.Z, _ *capnp.Segment) { must(z.SetZdata(air.Zdata{})) }))
	add(zCase("Z{zdatevec}", func(z air.Z, _ *capnp.Segment) {
		l, err := z.NewZdatevec(3)
		must(err)
		l.At(0).SetYear(-32768)
		l.At(1).SetMonth(255)
		l.At(2).SetDay(1)
	}))
	add(zCase("Z{zdatavec=[{},{data}]}", func(z air.Z, _ *capnp.Segment) {
		l, err := z.NewZdatavec(2)
		must(err)
		must(l.At(1).SetData([]byte{1, 2, 3}))
	}))
	for w := 0; w < 4; w++ {
		w := w
		setAircraft := func(a air.Aircraft, withBase bool) {
			var p air.PlaneBase
			var err error
			switch w {
			case 0:
				a.SetVoid()
				return
			case 1:
				b, e := a.NewB737()
				must(e)
				if withBase {
					p, err = b.NewBase()
				}
			case 2:
				b, e := a.NewA320()
				must(e)
				if withBase {
					p, err = b.NewBase()
				}
			case 3:
				b, e := a.NewF16()
				must(e)
				if withBase {
					p, err = b.NewBase()
				}
			}
			must(err)
			if withBase {
				must(p.SetName("plane"))
				p.SetRating(int64(w))
				p.SetCanFly(true)
				l, e := p.NewHomes(2)
				must(e)
				l.Set(0, air.Airport_jfk)
				l.Set(1, air.Airport(99))
			}
		}
		for _, wb := range []bool{false, true} {
			wb := wb
			add(zCase(fmt.Sprintf("Z{aircraft member %d base=%v}", w, wb), func(z air.Z, _ *capnp.Segment) {
				a, err := z.NewAircraft()
				must(err)
				setAircraft(a, wb)
			}))
			plain(fmt.Sprintf("Aircraft member %d base=%v", w, wb), air.Aircraft_TypeID, func(seg *capnp.Segment) (capnp.Struct, *exp) {
				a, err := air.NewRootAircraft(seg)
				must(err)
				setAircraft(a, wb)
				return a.Struct, expAircraft(a)
			})
		}
		add(zCase(fmt.Sprintf("Z{aircraftvec with member %d}", w), func(z air.Z, _ *capnp.Segment) {
			l, err := z.NewAircraftvec(3)
			must(err)
			setAircraft(l.At(1), true)
			setAircraft(l.At(2), false)
		}))
		add(zCase(fmt.Sprintf("Z{regression with planes member %d}", w), func(z air.Z, _ *capnp.Segment) {
			rg, err := z.NewRegression()
			must(err)
			rg.SetB0(0.5)
			l, err := rg.NewPlanes(2)
			must(err)
			setAircraft(l.At(0), true)
			setAircraft(l.At(1), false)
			bl, err := rg.NewBeta(2)
			must(err)
			bl.Set(0, -1.25)
			bl.Set(1, math.Inf(1))
		}))
	}
	add(zCase("Z{aircraft=null}", func(z air.Z, _ *capnp.Segment) { must(z.SetAircraft(air.Aircraft{})) }))
	add(zCase("Z{regression=null}", func(z air.Z, _ *capnp.Segment) { must(z.SetRegression(air.Regression{})) }))
	add(zCase("Z{planebase=null}", func(z air.Z, _ *capnp.Segment) { must(z.SetPlanebase(air.PlaneBase{})) }))
	add(zCase("Z{b737}", func(z air.Z, _ *capnp.Segment) {
		b, err := z.NewB737()
		must(err)
		p, err := b.NewBase()
		must(err)
		p.SetMaxSpeed(876.5)
	}))
	add(zCase("Z{a320=null base}", func(z air.Z, _ *capnp.Segment) { _, err := z.NewA320(); must(err) }))
	add(zCase("Z{f16=null}", func(z air.Z, _ *capnp.Segment) { must(z.SetF16(air.F16{})) }))
	add(zCase("Z{grp zero}", func(z air.Z, _ *capnp.Segment) { z.SetGrp() }))
	add(zCase("Z{echo=null}", func(z air.Z, _ *capnp.Segment) { must(z.SetEcho(air.Echo{})) }))
	add(zCase("Z{echo=capability}", func(z air.Z, _ *capnp.Segment) {
		must(z.SetEcho(air.Echo{Client: capnp.ErrorClient(errors.New("verif"))}))
	}))
	add(zCase("Z{echoes=[null,null]}", func(z air.Z, _ *capnp.Segment) { _, err := z.NewEchoes(2); must(err) }))
	add(zCase("Z{anyPtr=null}", func(z air.Z, _ *capnp.Segment) { must(z.SetAnyPtr(capnp.Ptr{})) }))
	add(zCase("Z{anyPtr=struct}", func(z air.Z, seg *capnp.Segment) {
		d, err := air.NewZdate(seg)
		must(err)
		must(z.SetAnyPtr(d.ToPtr()))
	}))
	add(zCase("Z{anyStruct=null}", func(z air.Z, _ *capnp.Segment) { must(z.SetAnyStruct(capnp.Ptr{})) }))
	add(zCase("Z{anyList=list}", func(z air.Z, seg *capnp.Segment) {
		must(z.SetAnyList(textList(seg, []byte("q")).ToPtr()))
	}))
	add(zCase("Z{anyCapability=null}", func(z air.Z, _ *capnp.Segment) { must(z.SetAnyCapability(capnp.Ptr{})) }))
	plain("VoidUnion{a}", air.VoidUnion_TypeID, func(seg *capnp.Segment) (capnp.Struct, *exp) {
		v, err := air.NewRootVoidUnion(seg)
		must(err)
		v.SetA()
		return v.Struct, expVoidUnion(v)
	})
	plain("VoidUnion{b}", air.VoidUnion_TypeID, func(seg *capnp.Segment) (capnp.Struct, *exp) {
		v, err := air.NewRootVoidUnion(seg)
		must(err)
		v.SetB()
		return v.Struct, expVoidUnion(v)
	})
	plain("VerEmpty{}", air.VerEmpty_TypeID, func(seg *capnp.Segment) (capnp.Struct, *exp) {
		v, err := air.NewRootVerEmpty(seg)
		must(err)
		return v.Struct, expVerEmpty(v)
	})
	plain("Zdate{2015,8,27}", air.Zdate_TypeID, func(seg *capnp.Segment) (capnp.Struct, *exp) {
		v, err := air.NewRootZdate(seg)
		must(err)
		v.SetYear(2015)
		v.SetMonth(8)
		v.SetDay(27)
		return v.Struct, expZdate(v)
	})
	plain("StackingRoot{}", air.StackingRoot_TypeID, func(seg *capnp.Segment) (capnp.Struct, *exp) {
		v, err := air.NewRootStackingRoot(seg)
		must(err)
		return v.Struct, expStackingRoot(v)
	})
	plain("StackingRoot{a={num=1,b={num=2}},aWithDefault={num=0}}", air.StackingRoot_TypeID, func(seg *capnp.Segment) (capnp.Struct, *exp) {
		v, err := air.NewRootStackingRoot(seg)
		must(err)
		a, err := v.NewA()
		must(err)
		a.SetNum(1)
		b, err := a.NewB()
		must(err)
		b.SetNum(2)
		_, err = v.NewAWithDefault()
		must(err)
		return v.Struct, expStackingRoot(v)
	})
	plain("Hoth{}", air.Hoth_TypeID, func(seg *capnp.Segment) (capnp.Struct, *exp) {
		v, err := air.NewRootHoth(seg)
		must(err)
		return v.Struct, expHoth(v)
	})
	plain("Hoth{base={echo=null}}", air.Hoth_TypeID, func(seg *capnp.Segment) (capnp.Struct, *exp) {
		v, err := air.NewRootHoth(seg)
		must(err)
		_, err = v.NewBase()
		must(err)
		return v.Struct, expHoth(v)
	})
	plain("HoldsText{}", air.HoldsText_TypeID, func(seg *capnp.Segment) (capnp.Struct, *exp) {
		v, err := air.NewRootHoldsText(seg)
		must(err)
		return v.Struct, expHoldsText(v)
	})
	plain("Counter{words,wordlist,bitlist}", air.Counter_TypeID, func(seg *capnp.Segment) (capnp.Struct, *exp) {
		v, err := air.NewRootCounter(seg)
		must(err)
		v.SetSize(3)
		must(v.SetWords("hello"))
		must(v.SetWordlist(textList(seg, []byte("a"), []byte("b c"))))
		return v.Struct, expCounter(v)
	})
	plain("Defaults{} (schema defaults foo/bar)", air.Defaults_TypeID, func(seg *capnp.Segment) (capnp.Struct, *exp) {
		v, err := air.NewRootDefaults(seg)
		must(err)
		return v.Struct, expDefaults(v)
	})
	return cs
}

// ---------------------------------------------------------------------------
// history independence

// historyHook reuses one Encoder for the given values (in rounds) and demands
// (a) the same text for the same value in every round and as on a fresh
// Encoder, (b) a fixpoint of the Encoder's persistent state: the remaining
// traversal budgets of the cached schema messages after round k+1 equal
// those after round k (k >= 2; round 1 fills the cache).
func historyHook(cases []valueCase, rounds int, r *vlib.Rec) {
	var bs []built
	var fresh []string
	for _, c := range cases {
		b := c.f()
		out, err := render(b)
		if err != nil {
			r.Failf("marshal-error", "%s: %v", b.name, err)
			return
		}
		bs = append(bs, b)
		fresh = append(fresh, out)
	}
	var buf bytes.Buffer
	enc := text.NewEncoder(&buf)
	var budgets [][]uint64
	for round := 1; round <= rounds; round++ {
		for i, b := range bs {
			buf.Reset()
			var err error
			if b.isList {
				err = enc.EncodeList(b.typeID, b.list)
			} else {
				err = enc.Encode(b.typeID, b.s)
			}
			if err != nil {
				r.Failf("encoder-history/error-on-reuse", "%s: Encode #%d on a reused Encoder failed: %v", b.name, round, err)
				return
			}
			if got := buf.String(); got != fresh[i] {
				r.Failf("encoder-history/output-differs", "%s: Encode #%d on a reused Encoder printed %q, a fresh Encoder prints %q", b.name, round, got, fresh[i])
				return
			}
		}
		budgets = append(budgets, enc.VerifC20Budgets())
	}
	names := ""
	for _, b := range bs {
		names += b.name + "; "
	}
	for k := 2; k < len(budgets); k++ {
		a, b := budgets[k-1], budgets[k]
		if len(a) != len(b) {
			r.Failf("encoder-history/cache-grows", "number of cached schema messages changes from %d to %d between rounds %d and %d; values: %s", len(a), len(b), k, k+1, names)
			return
		}
		for m := range a {
			if a[m] != b[m] {
				per := int64(a[m]) - int64(b[m])
				left := "n/a"
				if per > 0 {
					left = fmt.Sprint(b[m] / uint64(per))
				}
				r.Failf("encoder-history/schema-read-budget-consumed", "every round of Encode calls on one Encoder changes its state: cached schema message #%d has %d bytes of traversal budget left after round %d and %d after round %d (%d per round; about %s more rounds until schema reads fail and the output changes); values: %s", m, a[m], k, b[m], k+1, per, left, names)
				return
			}
		}
	}
	r.Outcome(fmt.Sprintf("fixpoint/%d-cached-messages", len(budgets[len(budgets)-1])))
	r.NonTrivial()
}

// historyErrors interleaves failing Encode calls (the same value in a message
// whose traversal budget is zero, a legitimate error) with Encodes of the good
// value on one Encoder: the good value must render as on a fresh Encoder
// after any number of earlier failures.
func historyErrors(c valueCase, K int, r *vlib.Rec) {
	good := c.f()
	want, err := render(good)
	if err != nil {
		r.Failf("marshal-error", "%s: %v", good.name, err)
		return
	}
	var buf bytes.Buffer
	enc := text.NewEncoder(&buf)
	failures := 0
	for k := 1; k <= K; k++ {
		bad := c.f()
		if bad.isList {
			bad.list.Message().ResetReadLimit(0)
		} else {
			bad.s.Message().ResetReadLimit(0)
		}
		buf.Reset()
		var e error
		if bad.isList {
			e = enc.EncodeList(bad.typeID, bad.list)
		} else {
			e = enc.Encode(bad.typeID, bad.s)
		}
		if e != nil {
			failures++
		}
		buf.Reset()
		if good.isList {
			e = enc.EncodeList(good.typeID, good.list)
		} else {
			e = enc.Encode(good.typeID, good.s)
		}
		if e != nil {
			r.Failf("encoder-history/error-after-failed-encodes", "%s: after %d failed Encode calls on the same Encoder, encoding a good value fails: %v", good.name, failures, e)
			return
		}
		if got := buf.String(); got != want {
			r.Failf("encoder-history/output-differs-after-failed-encodes", "%s: after %d failed Encode calls on the same Encoder the good value prints %q, a fresh Encoder prints %q", good.name, failures, got, want)
			return
		}
	}
	if failures > 0 {
		r.Outcome("history-errors/with-failures")
	} else {
		r.Outcome("history-errors/value-has-no-pointers")
	}
}

// historyBrute encodes one value K times on one Encoder.
func historyBrute(c valueCase, K int64, r *vlib.Rec) {
	b := c.f()
	want, err := render(b)
	if err != nil {
		r.Failf("marshal-error", "%s: %v", b.name, err)
		return
	}
	var buf bytes.Buffer
	enc := text.NewEncoder(&buf)
	for k := int64(1); k <= K; k++ {
		buf.Reset()
		if err := enc.Encode(b.typeID, b.s); err != nil {
			r.Failf("encoder-history/error-on-reuse", "%s: Encode #%d on one Encoder failed: %v", b.name, k, err)
			return
		}
		if buf.String() != want {
			r.Failf("encoder-history/output-differs", "%s: Encode #%d on one Encoder printed %q, the first %d printed %q", b.name, k, buf.String(), k-1, want)
			return
		}
	}
	r.Note("brute_force_encodes", K)
	r.Outcome("brute-force-stable")
	r.NonTrivial()
}

// ---------------------------------------------------------------------------

func selfTest() error {
	// the reference parser on spec examples (language.html constants)
	type tc struct {
		in string
		ok bool
	}
	for _, c := range []tc{
		{`(year = 2015, month = 8, day = 27)`, true},
		{`[(a = "x\"y\\z\x00\101", b = 0x"a1 B2"), ()]`, true},
		{`(f = -inf, g = nan, h = 1e+06, i = -0, e = jfk, v = void, b = true)`, true},
		{`(a = "unterminated)`, false},
		{`(a = "a"b")`, false},
		{"(a = \"raw\nnewline\")", false},
		{`(a = 1) trailing`, false},
		{`(a = "\q")`, false},
	} {
		v, err := ref.ParseText(c.in)
		if (err == nil) != c.ok {
			return fmt.Errorf("ref.ParseText(%q): err=%v, want ok=%v", c.in, err, c.ok)
		}
		_ = v
	}
	v, _ := ref.ParseText(`[(a = "x\"y\\z\x00\101", b = 0x"a1 B2"), ()]`)
	a, _ := v.Elems[0].Field("a")
	b, _ := v.Elems[0].Field("b")
	if !bytes.Equal(a.Bytes, []byte("x\"y\\z\x00A")) || !bytes.Equal(b.Bytes, []byte{0xa1, 0xb2}) {
		return fmt.Errorf("ref.ParseText decodes literals wrongly: % x / % x", a.Bytes, b.Bytes)
	}
	return nil
}

func main() {
	vlib.Main(vlib.Spec{
		ID:       "C20",
		Level:    "exploration",
		SelfTest: selfTest,
		Rule: "bounded-exhaustive: (strings) ALL byte strings of length <=3 (thorough <=4) over {a \" \\ ' LF NUL 7F 80 FF space , ) ( =} placed in 26 carriers (Text and Data fields, TextList/DataList elements, nested lists, lists of structs, struct-in-struct, union members of Z, MarshalList) and all pairs of strings of length <=1 (thorough <=2) in 4 two-string carriers; (numbers) every numeric field/list type at {0,+-1,min,max,min+1,max-1}, floats also at -0, NaN (3 payloads), +-Inf, +-max, +-denormal min, 1e20/1e21, 0.1, XOR-default fields of Defaults; (enums) Airport at {0..6,7,8,255,256,32767,32768,65535} as field and in lists of 0..2 and 14 elements; (members) every union member of Z (50), Aircraft, VoidUnion, null/non-null pointers, nesting to depth 4, List(List(Z)), struct default values, capabilities/AnyPointer. Each value is rendered by encoding/text, parsed by the independent ref.ParseText and compared with the generated getters. History: for every member/type sample (and every ordered pair of samples) one Encoder is reused for 4 rounds; the text must equal a fresh Encoder's and the Encoder's persistent state (traversal budgets of cached schema messages, via overlay hook) must be at a fixpoint; thorough also encodes VerEmpty, Zdate and a fresh Z 2^23+1 times each on one Encoder. Non-trivial = a rendered value that was parsed and compared / a reuse sequence that was judged; all enumerated values are distinct by construction.",
		Assumptions: []string{
			"ref.ParseText (written from the Cap'n Proto schema-language value syntax and the C++ text printer's escapes) is the definition of a well-formed text value: raw control bytes, raw double quotes and unknown escapes inside a literal are errors; raw bytes >= 0x80 are accepted",
			"Data may be rendered either as a quoted string or as 0x\"..\"; inf/nan are accepted in any letter case with optional sign (spellings other than inf/-inf/nan are counted as outcomes, not violations); NaN payloads are not compared; out-of-range enum values must be shown as their number",
			"a non-union field may be omitted from the text only if its getter returns the type's default; the active union member must be shown and no other member may be; capabilities and AnyPointer fields are not compared (no value is shown)",
			"history: Encoder state = node cache + remaining traversal budget of each cached schema message (+ scratch buffers that are reset before use); equal state after consecutive rounds plus equal output implies the same output for every longer history of these values. Brute force bound K=2^23+1: while budgets only decrease, an Encode that consumes any budget consumes >= 8 bytes of at most 64 MiB",
		},
		Families: families,
	})
}

func families(tier string) []vlib.Family {
	maxLen, pairLen := 3, 1
	if tier == "thorough" {
		maxLen, pairLen = 4, 2
	}
	nums, enums, arms := numberCases(), enumCases(), armCases()
	nPair := strCount(pairLen)
	valueFam := func(name string, cs []valueCase) vlib.Family {
		return vlib.Family{
			Name: name, N: int64(len(cs)),
			Run: func(i int64, r *vlib.Rec) {
				guard(r, func() {
					b := cs[i].f()
					r.NonTrivial()
					checkBuilt(b, "", r, "value")
				})
			},
			Describe: func(i int64) interface{} { return cs[i].name },
		}
	}
	// history samples: every member case plus a few string / number ones
	samples := append([]valueCase{}, arms...)
	samples = append(samples,
		valueCase{"HoldsText{strings}", func() built { return strCarriers[10].f([]byte("a b")) }},
		valueCase{"RWTestCapn{strings}", func() built { return strCarriers[12].f([]byte("x")) }},
		valueCase{"MarshalList(Zjob)", func() built { return strCarriers[25].f([]byte("x")) }},
		valueCase{"BenchmarkA", func() built { return strCarriers[15].f([]byte("x")) }},
		enums[3], enums[len(enums)-1], nums[0], nums[len(nums)-1],
		// types of another schema file: a second cached schema message
		// (history only; faithfulness is not judged for these)
		valueCase{"rpc.Message{finish}", func() built {
			m, err := rpccp.NewRootMessage(newSeg())
			must(err)
			f, err := m.NewFinish()
			must(err)
			f.SetQuestionId(7)
			return built{name: "rpc.Message{finish}", typeID: rpccp.Message_TypeID, s: m.Struct}
		}},
		valueCase{"rpc.Message{call}", func() built {
			m, err := rpccp.NewRootMessage(newSeg())
			must(err)
			c, err := m.NewCall()
			must(err)
			c.SetInterfaceId(0xabcdef)
			_, err = c.NewParams()
			must(err)
			return built{name: "rpc.Message{call}", typeID: rpccp.Message_TypeID, s: m.Struct}
		}},
	)
	fams := []vlib.Family{
		{
			Name: "strings", N: strCount(maxLen),
			Run: func(i int64, r *vlib.Rec) {
				s := strDecode(i)
				cls := strClass(s)
				for _, c := range strCarriers {
					c := c
					guard(r, func() {
						b := c.f(s)
						checkBuilt(b, cls, r, fmt.Sprintf("s = % x", s))
					})
				}
				r.NonTrivial()
			},
			Describe: func(i int64) interface{} { return fmt.Sprintf("s = %q (% x)", strDecode(i), strDecode(i)) },
		},
		{
			Name: "string-pairs", N: nPair * nPair,
			Run: func(i int64, r *vlib.Rec) {
				a, b := strDecode(i/nPair), strDecode(i%nPair)
				cls := strClass(a, b)
				for _, c := range pairCarriers {
					c := c
					guard(r, func() {
						checkBuilt(c.f(a, b), cls, r, fmt.Sprintf("a = % x, b = % x", a, b))
					})
				}
				r.NonTrivial()
			},
			Describe: func(i int64) interface{} {
				return fmt.Sprintf("a = %q, b = %q", strDecode(i/nPair), strDecode(i%nPair))
			},
		},
		valueFam("numbers", nums),
		valueFam("enums", enums),
		valueFam("members", arms),
		{
			Name: "history-hook", N: int64(len(samples)),
			Run: func(i int64, r *vlib.Rec) {
				guard(r, func() { historyHook([]valueCase{samples[i]}, 4, r) })
			},
			Describe: func(i int64) interface{} { return "one Encoder, 4x " + samples[i].name },
		},
		{
			Name: "history-errors", N: int64(len(samples)),
			Run: func(i int64, r *vlib.Rec) {
				r.NonTrivial()
				guard(r, func() { historyErrors(samples[i], 300, r) })
			},
			Describe: func(i int64) interface{} { return samples[i].name + " interleaved with 300 failing Encodes" },
		},
		{
			Name: "history-hook-mixed", N: int64(len(samples) * len(samples)),
			Run: func(i int64, r *vlib.Rec) {
				n := int64(len(samples))
				guard(r, func() { historyHook([]valueCase{samples[i/n], samples[i%n]}, 4, r) })
			},
			Describe: func(i int64) interface{} {
				n := int64(len(samples))
				return "one Encoder, 4 rounds of [" + samples[i/n].name + ", " + samples[i%n].name + "]"
			},
		},
	}
	if tier == "thorough" {
		brute := []valueCase{}
		for _, c := range arms {
			if strings.HasPrefix(c.name, "VerEmpty{}") || strings.HasPrefix(c.name, "Zdate{2015") || strings.HasPrefix(c.name, "Z{} (fresh)") {
				brute = append(brute, c)
			}
		}
		fams = append(fams, vlib.Family{
			Name: "history-bruteforce", N: int64(len(brute)),
			Run: func(i int64, r *vlib.Rec) {
				guard(r, func() { historyBrute(brute[i], 1<<23+1, r) })
			},
			Describe: func(i int64) interface{} { return fmt.Sprintf("one Encoder, 2^23+1 Encodes of %s", brute[i].name) },
		})
	}
	return fams
}
