package main

// Expected values are built ONLY from the generated accessors of
// internal/aircraftlib (the oracle of C20: "shows the same field values as
// the generated accessors"); field names and enumerant names are copied from
// aircraft.capnp by hand.

import (
	"fmt"

	capnp "capnproto.org/go/capnp/v3"
	air "capnproto.org/go/capnp/v3/internal/aircraftlib"
)

type kind int

const (
	kStruct kind = iota
	kList
	kText
	kData
	kInt
	kUint
	kF32
	kF64
	kBool
	kVoid
	kEnum
	kOpaque // interface / AnyPointer: the value itself is not shown
)

type exp struct {
	k      kind
	fields []expField
	elems  []*exp
	b      []byte
	i      int64
	u      uint64
	f32    float32
	f64    float64
	bv     bool
	ev     uint16
	names  []string // enumerants
	bits   int      // integer width (for messages only)
}

type expField struct {
	name  string
	v     *exp
	union bool   // the active union member: must be shown
	def   []byte // schema default of a Text/Data field (absence then means this)
}

var airportNames = []string{"none", "jfk", "lax", "sfo", "luv", "dfw", "test"}

type builderErr struct{ err error }

func must(err error) {
	if err != nil {
		panic(builderErr{err})
	}
}

func eInt(v int64, bits int) *exp   { return &exp{k: kInt, i: v, bits: bits} }
func eUint(v uint64, bits int) *exp { return &exp{k: kUint, u: v, bits: bits} }
func eF64(v float64) *exp           { return &exp{k: kF64, f64: v} }
func eF32(v float32) *exp           { return &exp{k: kF32, f32: v} }
func eBool(v bool) *exp             { return &exp{k: kBool, bv: v} }
func eVoid() *exp                   { return &exp{k: kVoid} }
func eText(b []byte, err error) *exp {
	must(err)
	return &exp{k: kText, b: append([]byte{}, b...)}
}
func eData(b []byte, err error) *exp {
	must(err)
	return &exp{k: kData, b: append([]byte{}, b...)}
}
func eAirport(v air.Airport) *exp { return &exp{k: kEnum, ev: uint16(v), names: airportNames} }
func eOpaque() *exp               { return &exp{k: kOpaque} }
func eStruct(f ...expField) *exp  { return &exp{k: kStruct, fields: f} }
func fld(name string, v *exp) expField {
	return expField{name: name, v: v}
}
func arm(name string, v *exp) expField { return expField{name: name, v: v, union: true} }

func eTextList(l capnp.TextList, err error) *exp {
	must(err)
	e := &exp{k: kList}
	for i := 0; i < l.Len(); i++ {
		e.elems = append(e.elems, eText(l.BytesAt(i)))
	}
	return e
}

func eDataList(l capnp.DataList, err error) *exp {
	must(err)
	e := &exp{k: kList}
	for i := 0; i < l.Len(); i++ {
		e.elems = append(e.elems, eData(l.At(i)))
	}
	return e
}

func listOf(n int, at func(i int) *exp) *exp {
	e := &exp{k: kList}
	for i := 0; i < n; i++ {
		e.elems = append(e.elems, at(i))
	}
	return e
}

func expZdate(d air.Zdate) *exp {
	return eStruct(fld("year", eInt(int64(d.Year()), 16)), fld("month", eUint(uint64(d.Month()), 8)), fld("day", eUint(uint64(d.Day()), 8)))
}

func expZdata(d air.Zdata) *exp { return eStruct(fld("data", eData(d.Data()))) }

func expPlaneBase(p air.PlaneBase) *exp {
	homes, err := p.Homes()
	must(err)
	return eStruct(
		fld("name", eText(p.NameBytes())),
		fld("homes", listOf(homes.Len(), func(i int) *exp { return eAirport(homes.At(i)) })),
		fld("rating", eInt(p.Rating(), 64)),
		fld("canFly", eBool(p.CanFly())),
		fld("capacity", eInt(p.Capacity(), 64)),
		fld("maxSpeed", eF64(p.MaxSpeed())),
	)
}

func expB737(b air.B737) *exp { p, err := b.Base(); must(err); return eStruct(fld("base", expPlaneBase(p))) }
func expA320(b air.A320) *exp { p, err := b.Base(); must(err); return eStruct(fld("base", expPlaneBase(p))) }
func expF16(b air.F16) *exp   { p, err := b.Base(); must(err); return eStruct(fld("base", expPlaneBase(p))) }

func expAircraft(a air.Aircraft) *exp {
	switch a.Which() {
	case air.Aircraft_Which_void:
		return eStruct(arm("void", eVoid()))
	case air.Aircraft_Which_b737:
		v, err := a.B737()
		must(err)
		return eStruct(arm("b737", expB737(v)))
	case air.Aircraft_Which_a320:
		v, err := a.A320()
		must(err)
		return eStruct(arm("a320", expA320(v)))
	case air.Aircraft_Which_f16:
		v, err := a.F16()
		must(err)
		return eStruct(arm("f16", expF16(v)))
	}
	panic(builderErr{fmt.Errorf("Aircraft.Which()=%d", a.Which())})
}

func expRegression(r air.Regression) *exp {
	base, err := r.Base()
	must(err)
	beta, err := r.Beta()
	must(err)
	planes, err := r.Planes()
	must(err)
	return eStruct(
		fld("base", expPlaneBase(base)),
		fld("b0", eF64(r.B0())),
		fld("beta", listOf(beta.Len(), func(i int) *exp { return eF64(beta.At(i)) })),
		fld("planes", listOf(planes.Len(), func(i int) *exp { return expAircraft(planes.At(i)) })),
		fld("ymu", eF64(r.Ymu())),
		fld("ysd", eF64(r.Ysd())),
	)
}

func expZ(z air.Z) *exp {
	one := func(name string, v *exp) *exp { return eStruct(arm(name, v)) }
	switch z.Which() {
	case air.Z_Which_void:
		return one("void", eVoid())
	case air.Z_Which_zz:
		v, err := z.Zz()
		must(err)
		return one("zz", expZ(v))
	case air.Z_Which_f64:
		return one("f64", eF64(z.F64()))
	case air.Z_Which_f32:
		return one("f32", eF32(z.F32()))
	case air.Z_Which_i64:
		return one("i64", eInt(z.I64(), 64))
	case air.Z_Which_i32:
		return one("i32", eInt(int64(z.I32()), 32))
	case air.Z_Which_i16:
		return one("i16", eInt(int64(z.I16()), 16))
	case air.Z_Which_i8:
		return one("i8", eInt(int64(z.I8()), 8))
	case air.Z_Which_u64:
		return one("u64", eUint(z.U64(), 64))
	case air.Z_Which_u32:
		return one("u32", eUint(uint64(z.U32()), 32))
	case air.Z_Which_u16:
		return one("u16", eUint(uint64(z.U16()), 16))
	case air.Z_Which_u8:
		return one("u8", eUint(uint64(z.U8()), 8))
	case air.Z_Which_bool:
		return one("bool", eBool(z.Bool()))
	case air.Z_Which_text:
		return one("text", eText(z.TextBytes()))
	case air.Z_Which_blob:
		return one("blob", eData(z.Blob()))
	case air.Z_Which_f64vec:
		l, err := z.F64vec()
		must(err)
		return one("f64vec", listOf(l.Len(), func(i int) *exp { return eF64(l.At(i)) }))
	case air.Z_Which_f32vec:
		l, err := z.F32vec()
		must(err)
		return one("f32vec", listOf(l.Len(), func(i int) *exp { return eF32(l.At(i)) }))
	case air.Z_Which_i64vec:
		l, err := z.I64vec()
		must(err)
		return one("i64vec", listOf(l.Len(), func(i int) *exp { return eInt(l.At(i), 64) }))
	case air.Z_Which_i32vec:
		l, err := z.I32vec()
		must(err)
		return one("i32vec", listOf(l.Len(), func(i int) *exp { return eInt(int64(l.At(i)), 32) }))
	case air.Z_Which_i16vec:
		l, err := z.I16vec()
		must(err)
		return one("i16vec", listOf(l.Len(), func(i int) *exp { return eInt(int64(l.At(i)), 16) }))
	case air.Z_Which_i8vec:
		l, err := z.I8vec()
		must(err)
		return one("i8vec", listOf(l.Len(), func(i int) *exp { return eInt(int64(l.At(i)), 8) }))
	case air.Z_Which_u64vec:
		l, err := z.U64vec()
		must(err)
		return one("u64vec", listOf(l.Len(), func(i int) *exp { return eUint(l.At(i), 64) }))
	case air.Z_Which_u32vec:
		l, err := z.U32vec()
		must(err)
		return one("u32vec", listOf(l.Len(), func(i int) *exp { return eUint(uint64(l.At(i)), 32) }))
	case air.Z_Which_u16vec:
		l, err := z.U16vec()
		must(err)
		return one("u16vec", listOf(l.Len(), func(i int) *exp { return eUint(uint64(l.At(i)), 16) }))
	case air.Z_Which_u8vec:
		l, err := z.U8vec()
		must(err)
		return one("u8vec", listOf(l.Len(), func(i int) *exp { return eUint(uint64(l.At(i)), 8) }))
	case air.Z_Which_boolvec:
		l, err := z.Boolvec()
		must(err)
		return one("boolvec", listOf(l.Len(), func(i int) *exp { return eBool(l.At(i)) }))
	case air.Z_Which_datavec:
		return one("datavec", eDataList(z.Datavec()))
	case air.Z_Which_textvec:
		return one("textvec", eTextList(z.Textvec()))
	case air.Z_Which_zvec:
		l, err := z.Zvec()
		must(err)
		return one("zvec", listOf(l.Len(), func(i int) *exp { return expZ(l.At(i)) }))
	case air.Z_Which_zvecvec:
		pl, err := z.Zvecvec()
		must(err)
		return one("zvecvec", listOf(pl.Len(), func(i int) *exp {
			p, err := pl.At(i)
			must(err)
			l := air.Z_List{List: p.List()}
			return listOf(l.Len(), func(j int) *exp { return expZ(l.At(j)) })
		}))
	case air.Z_Which_zdate:
		v, err := z.Zdate()
		must(err)
		return one("zdate", expZdate(v))
	case air.Z_Which_zdata:
		v, err := z.Zdata()
		must(err)
		return one("zdata", expZdata(v))
	case air.Z_Which_aircraftvec:
		l, err := z.Aircraftvec()
		must(err)
		return one("aircraftvec", listOf(l.Len(), func(i int) *exp { return expAircraft(l.At(i)) }))
	case air.Z_Which_aircraft:
		v, err := z.Aircraft()
		must(err)
		return one("aircraft", expAircraft(v))
	case air.Z_Which_regression:
		v, err := z.Regression()
		must(err)
		return one("regression", expRegression(v))
	case air.Z_Which_planebase:
		v, err := z.Planebase()
		must(err)
		return one("planebase", expPlaneBase(v))
	case air.Z_Which_airport:
		return one("airport", eAirport(z.Airport()))
	case air.Z_Which_b737:
		v, err := z.B737()
		must(err)
		return one("b737", expB737(v))
	case air.Z_Which_a320:
		v, err := z.A320()
		must(err)
		return one("a320", expA320(v))
	case air.Z_Which_f16:
		v, err := z.F16()
		must(err)
		return one("f16", expF16(v))
	case air.Z_Which_zdatevec:
		l, err := z.Zdatevec()
		must(err)
		return one("zdatevec", listOf(l.Len(), func(i int) *exp { return expZdate(l.At(i)) }))
	case air.Z_Which_zdatavec:
		l, err := z.Zdatavec()
		must(err)
		return one("zdatavec", listOf(l.Len(), func(i int) *exp { return expZdata(l.At(i)) }))
	case air.Z_Which_grp:
		g := z.Grp()
		return one("grp", eStruct(fld("first", eUint(g.First(), 64)), fld("second", eUint(g.Second(), 64))))
	case air.Z_Which_echo:
		return one("echo", eOpaque())
	case air.Z_Which_echoes:
		l, err := z.Echoes()
		must(err)
		return one("echoes", listOf(l.Len(), func(i int) *exp { return eOpaque() }))
	case air.Z_Which_anyPtr:
		return one("anyPtr", eOpaque())
	case air.Z_Which_anyStruct:
		return one("anyStruct", eOpaque())
	case air.Z_Which_anyList:
		return one("anyList", eOpaque())
	case air.Z_Which_anyCapability:
		return one("anyCapability", eOpaque())
	}
	panic(builderErr{fmt.Errorf("Z.Which()=%d", z.Which())})
}

func expCounter(c air.Counter) *exp {
	bl, err := c.Bitlist()
	must(err)
	return eStruct(
		fld("size", eInt(c.Size(), 64)),
		fld("words", eText(c.WordsBytes())),
		fld("wordlist", eTextList(c.Wordlist())),
		fld("bitlist", listOf(bl.Len(), func(i int) *exp { return eBool(bl.At(i)) })),
	)
}

func expZjob(j air.Zjob) *exp {
	return eStruct(fld("cmd", eText(j.CmdBytes())), fld("args", eTextList(j.Args())))
}

func expHoldsText(h air.HoldsText) *exp {
	pl, err := h.Lstlst()
	must(err)
	return eStruct(
		fld("txt", eText(h.TxtBytes())),
		fld("lst", eTextList(h.Lst())),
		fld("lstlst", listOf(pl.Len(), func(i int) *exp {
			p, err := pl.At(i)
			must(err)
			return eTextList(capnp.TextList{List: p.List()}, nil)
		})),
	)
}

func expNester(n air.Nester1Capn) *exp { return eStruct(fld("strs", eTextList(n.Strs()))) }

func expRWTest(t air.RWTestCapn) *exp {
	pl, err := t.NestMatrix()
	must(err)
	return eStruct(fld("nestMatrix", listOf(pl.Len(), func(i int) *exp {
		p, err := pl.At(i)
		must(err)
		l := air.Nester1Capn_List{List: p.List()}
		return listOf(l.Len(), func(j int) *exp { return expNester(l.At(j)) })
	})))
}

func expListStruct(t air.ListStructCapn) *exp {
	l, err := t.Vec()
	must(err)
	return eStruct(fld("vec", listOf(l.Len(), func(j int) *exp { return expNester(l.At(j)) })))
}

func expDefaults(d air.Defaults) *exp {
	t := fld("text", eText(d.TextBytes()))
	t.def = []byte("foo")
	dd := fld("data", eData(d.Data()))
	dd.def = []byte("bar")
	return eStruct(t, dd,
		fld("float", eF32(d.Float())),
		fld("int", eInt(int64(d.Int()), 32)),
		fld("uint", eUint(uint64(d.Uint()), 32)),
	)
}

func expBenchmarkA(b air.BenchmarkA) *exp {
	return eStruct(
		fld("name", eText(b.NameBytes())),
		fld("birthDay", eInt(b.BirthDay(), 64)),
		fld("phone", eText(b.PhoneBytes())),
		fld("siblings", eInt(int64(b.Siblings()), 32)),
		fld("spouse", eBool(b.Spouse())),
		fld("money", eF64(b.Money())),
	)
}

func expAllocBenchmark(a air.AllocBenchmark) *exp {
	l, err := a.Fields()
	must(err)
	return eStruct(fld("fields", listOf(l.Len(), func(i int) *exp {
		return eStruct(fld("stringValue", eText(l.At(i).StringValueBytes())))
	})))
}

func expVoidUnion(v air.VoidUnion) *exp {
	switch v.Which() {
	case air.VoidUnion_Which_a:
		return eStruct(arm("a", eVoid()))
	case air.VoidUnion_Which_b:
		return eStruct(arm("b", eVoid()))
	}
	panic(builderErr{fmt.Errorf("VoidUnion.Which()=%d", v.Which())})
}

func expVerTwoData(v air.VerTwoData) *exp {
	return eStruct(fld("val", eInt(int64(v.Val()), 16)), fld("duo", eInt(v.Duo(), 64)))
}

func expStackingA(a air.StackingA) *exp {
	b, err := a.B()
	must(err)
	return eStruct(fld("num", eInt(int64(a.Num()), 32)), fld("b", eStruct(fld("num", eInt(int64(b.Num()), 32)))))
}

func expStackingRoot(r air.StackingRoot) *exp {
	a, err := r.A()
	must(err)
	ad, err := r.AWithDefault()
	must(err)
	f := fld("aWithDefault", expStackingA(ad))
	f.def = []byte{} // has a schema default: absence is not "zero"
	return eStruct(f, fld("a", expStackingA(a)))
}

func expHoth(h air.Hoth) *exp {
	_, err := h.Base()
	must(err)
	return eStruct(fld("base", eStruct(fld("echo", eOpaque()))))
}

func expVerEmpty(air.VerEmpty) *exp { return eStruct() }
