// C13 — packed encoding is a lossless, spec-conformant, truncation-safe codec.
//
// Bounded-exhaustive enumeration of payloads and of packed byte strings; the
// real packed.Pack / Unpack / Reader are compared with the independent
// ref.Pack / ref.Unpack on every enumerated case, through every destination
// size x source chunking of the streaming reader.
package main

import (
	"bufio"
	"bytes"
	"encoding/hex"
	"fmt"
	"io"

	capnp "capnproto.org/go/capnp/v3"
	"capnproto.org/go/capnp/v3/internal/packed"
	"capnproto.org/go/capnp/v3/internal/verif/ref"
	"capnproto.org/go/capnp/v3/internal/verif/vlib"
)

type cfg struct{ dst, chunk int } // chunk 0 = whole input at once

var (
	fullMatrix   []cfg
	cornerMatrix = []cfg{{1, 1}, {1, 0}, {17, 1}, {17, 0}, {8, 9}, {1024, 10}}
)

func init() {
	dsts := []int{1, 2, 3, 4, 5, 6, 7, 8, 9, 10, 11, 12, 13, 14, 15, 16, 17, 255, 256, 1024}
	chunks := []int{1, 2, 3, 7, 8, 9, 10, 0}
	for _, d := range dsts {
		for _, c := range chunks {
			fullMatrix = append(fullMatrix, cfg{d, c})
		}
	}
}

type chunkReader struct {
	b []byte
	k int
}

func (c *chunkReader) Read(p []byte) (int, error) {
	if len(c.b) == 0 {
		return 0, io.EOF
	}
	n := len(c.b)
	if c.k > 0 && n > c.k {
		n = c.k
	}
	if n > len(p) {
		n = len(p)
	}
	copy(p, c.b[:n])
	c.b = c.b[n:]
	return n, nil
}

// stream decodes s through packed.Reader.Read with the given configuration.
func stream(s []byte, c cfg) ([]byte, error) {
	rd := packed.NewReader(bufio.NewReader(&chunkReader{b: s, k: c.chunk}))
	var out []byte
	buf := make([]byte, c.dst)
	for it := 0; ; it++ {
		n, err := rd.Read(buf)
		out = append(out, buf[:n]...)
		if err != nil {
			return out, err
		}
		if it > 1<<22 {
			return out, fmt.Errorf("harness: reader made no progress")
		}
	}
}

func streamWords(s []byte, chunk int) ([]byte, error) {
	rd := packed.NewReader(bufio.NewReader(&chunkReader{b: s, k: chunk}))
	var out []byte
	var w [8]byte
	for it := 0; ; it++ {
		err := rd.ReadWord(w[:])
		if err != nil {
			return out, err
		}
		out = append(out, w[:]...)
		if it > 1<<22 {
			return out, fmt.Errorf("harness: reader made no progress")
		}
	}
}

func hx(b []byte) string {
	if len(b) > 96 {
		return hex.EncodeToString(b[:48]) + "..." + hex.EncodeToString(b[len(b)-32:]) + fmt.Sprintf("(len %d)", len(b))
	}
	return hex.EncodeToString(b)
}

// checkPacked applies every decoder to the packed string s.
func checkPacked(s []byte, matrix []cfg, r *vlib.Rec) {
	want, where, refErr := ref.Unpack(s)
	class := "accept"
	if refErr != nil {
		class = "reject/" + where
	}
	r.Outcome(class)
	judge := func(name string, out []byte, accepted bool, err error) {
		if len(out) > 1024*len(s) {
			r.Failf(name+"-growth", "%s produced %d bytes from %d input bytes (spec max 1024x); input %s", name, len(out), len(s), hx(s))
		}
		if refErr == nil {
			if !accepted {
				r.Failf(name+"-rejects-valid", "%s rejects a complete packed string with %v; input %s", name, err, hx(s))
			} else if !bytes.Equal(out, want) {
				r.Failf(name+"-wrong-output", "%s output differs from the spec decoder; input %s\n got  %s\n want %s", name, hx(s), hx(out), hx(want))
			}
		} else if accepted {
			r.Failf(name+"-accepts-truncated/"+where, "%s accepts input that ends inside %s (no error); input %s\n got %s", name, where, hx(s), hx(out))
		}
	}
	one, err := packed.Unpack(nil, s)
	judge("oneshot", one, err == nil, err)
	// appending to a non-empty dst with spare capacity must not matter
	pre := make([]byte, 8, 64)
	for i := range pre {
		pre[i] = 0xAA
	}
	for i := 8; i < 64; i++ {
		pre[:64][i] = 0xAA
	}
	two, err2 := packed.Unpack(pre, s)
	if (err == nil) != (err2 == nil) || len(two) < 8 || !bytes.Equal(two[8:], one) || !bytes.Equal(two[:8], pre[:8]) {
		r.Failf("oneshot-dst-dependent", "Unpack into a dirty dst with spare capacity differs; input %s\n clean %s\n dirty %s", hx(s), hx(one), hx(two))
	}
	for _, c := range matrix {
		out, err := stream(s, c)
		judge("stream", out, err == io.EOF, err)
	}
	for _, k := range []int{1, 9, 0} {
		out, err := streamWords(s, k)
		judge("readword", out, err == io.EOF, err)
	}
}

// checkPayload checks x -> Pack -> all decoders, and every proper prefix.
func checkPayload(x []byte, matrix []cfg, prefixes bool, r *vlib.Rec) {
	p := packed.Pack(nil, x)
	// spec conformance of the packed form: the independent decoder gets x back
	got, _, err := ref.Unpack(p)
	if err != nil || !bytes.Equal(got, x) {
		r.Failf("pack-nonconformant", "ref.Unpack(Pack(x)) != x (err=%v); x=%s packed=%s", err, hx(x), hx(p))
		return
	}
	// Pack appends: dst prefix preserved
	pp := packed.Pack([]byte{0xEE, 0xEE}, x)
	if !bytes.Equal(pp[2:], p) || pp[0] != 0xEE {
		r.Failf("pack-dst-dependent", "Pack(dst, x) does not append; x=%s", hx(x))
	}
	if len(p) > len(x)+len(x)/8/255+2+len(x)/8 {
		// never worse than one tag per word + run counts
		r.Failf("pack-growth", "packed form longer than tag-per-word bound; x=%s", hx(x))
	}
	r.NonTrivial()
	checkPacked(p, matrix, r)
	if prefixes {
		for n := 0; n < len(p); n++ {
			checkPacked(p[:n], cornerMatrix, r)
		}
	}
}

// ---- payload alphabets ----

func classWord(c int, pos int) []byte {
	w := make([]byte, 8)
	for i := range w {
		w[i] = byte(i+1) + byte(16*(pos%15+1)) // distinct per position and word
	}
	switch c {
	case 0:
		return make([]byte, 8)
	case 1:
	case 2:
		w[0] = 0
	case 3:
		w[3] = 0
	case 4:
		w[7] = 0
	case 5:
		w[2], w[5] = 0, 0
	case 6:
		for i := 1; i < 8; i++ {
			w[i] = 0
		}
	case 7:
		for i := 0; i < 8; i += 2 {
			w[i] = 0
		}
	case 8:
		for i := 0; i < 7; i++ {
			w[i] = 0
		}
	}
	return w
}

const nClasses = 9

func seqCount(maxLen int) int64 {
	n, p := int64(0), int64(1)
	for l := 1; l <= maxLen; l++ {
		p *= nClasses
		n += p
	}
	return n
}

func seqDecode(i int64) []int {
	p := int64(nClasses)
	l := 1
	for i >= p {
		i -= p
		p *= nClasses
		l++
	}
	d := make([]int, l)
	for k := 0; k < l; k++ {
		d[k] = int(i % nClasses)
		i /= nClasses
	}
	return d
}

func seqPayload(d []int) []byte {
	var x []byte
	for pos, c := range d {
		x = append(x, classWord(c, pos)...)
	}
	return x
}

var runLens = []int{1, 2, 253, 254, 255, 256, 257, 258, 509, 510, 511, 512, 513, 514}

func runPayload(i int64) ([]byte, string) {
	post := int(i % nClasses)
	i /= nClasses
	pre := int(i % nClasses)
	i /= nClasses
	n := runLens[i%int64(len(runLens))]
	i /= int64(len(runLens))
	kind := int(i) // 0 zero run, 1 literal run, 2 literal run with one-zero words
	x := classWord(pre, 0)
	for k := 0; k < n; k++ {
		switch kind {
		case 0:
			x = append(x, make([]byte, 8)...)
		case 1:
			x = append(x, classWord(1, k+1)...)
		case 2:
			x = append(x, classWord(2+k%3, k+1)...)
		}
	}
	x = append(x, classWord(post, 14)...)
	return x, fmt.Sprintf("pre=%d kind=%d n=%d post=%d", pre, kind, n, post)
}

// ---- packed-string alphabets ----

func strCount(alpha, maxLen int) int64 {
	n, p := int64(1), int64(1) // includes the empty string
	for l := 1; l <= maxLen; l++ {
		p *= int64(alpha)
		n += p
	}
	return n
}

func strDecode(i int64, alphabet []byte, alpha int) []byte {
	if i == 0 {
		return nil
	}
	i--
	p := int64(alpha)
	l := 1
	for i >= p {
		i -= p
		p *= int64(alpha)
		l++
	}
	s := make([]byte, l)
	for k := 0; k < l; k++ {
		d := int(i % int64(alpha))
		i /= int64(alpha)
		if alphabet != nil {
			s[k] = alphabet[d]
		} else {
			s[k] = byte(d)
		}
	}
	return s
}

var reduced = []byte{0x00, 0x01, 0x02, 0x03, 0x0F, 0x80, 0xFE, 0xFF}

// valid 18-byte tail: a full word (fast path needs >= 9 buffered bytes), a
// zero run and a one-byte word.
var tail = []byte{0xff, 0xa1, 0xa2, 0xa3, 0xa4, 0xa5, 0xa6, 0xa7, 0xa8, 0x00, 0x00, 0x02, 0x01, 0x00, 0x05, 0xb1, 0xb2, 0x00, 0x00}

func withTail(s []byte) []byte {
	return append(append([]byte{}, s...), tail...)
}

// ---- message level ----

func msgCase(i int64, r *vlib.Rec) {
	// frames: 1-2 segments of 0-2 words from the class alphabet
	d := seqDecode(i)
	msg, seg, err := capnp.NewMessage(capnp.MultiSegment(nil))
	if err != nil {
		r.Fail("harness", err.Error())
		return
	}
	_ = seg
	root, _ := capnp.NewRootStruct(seg, capnp.ObjectSize{DataSize: capnp.Size(8 * len(d))})
	for k, c := range d {
		w := classWord(c, k)
		for b := 0; b < 8; b++ {
			root.SetUint8(capnp.DataOffset(8*k+b), w[b])
		}
	}
	plain, err := msg.Marshal()
	if err != nil {
		r.Fail("marshal-error", err.Error())
		return
	}
	pk, err := msg.MarshalPacked()
	if err != nil {
		r.Fail("marshalpacked-error", err.Error())
		return
	}
	got, _, e := ref.Unpack(pk)
	if e != nil || !bytes.Equal(got, plain) {
		r.Failf("marshalpacked-nonconformant", "ref.Unpack(MarshalPacked) != Marshal; %s", hx(pk))
	}
	r.NonTrivial()
	// every prefix of the packed message: UnmarshalPacked and the packed
	// decoder must not hand out a message built from invented bytes
	for n := 0; n <= len(pk); n++ {
		s := pk[:n]
		_, where, refErr := ref.Unpack(s)
		m2, err := capnp.UnmarshalPacked(s)
		if n == len(pk) {
			if err != nil {
				r.Failf("unmarshalpacked-rejects-valid", "%v", err)
				continue
			}
			b2, _ := m2.Marshal()
			if !bytes.Equal(b2, plain) {
				r.Failf("unmarshalpacked-wrong", "round trip differs")
			}
			continue
		}
		if refErr != nil && err == nil {
			r.Failf("unmarshalpacked-accepts-truncated/"+where, "UnmarshalPacked accepts packed bytes cut inside %s: %s (full %s)", where, hx(s), hx(pk))
		}
		for _, k := range []int{1, 9, 0} {
			dec := capnp.NewPackedDecoder(&chunkReader{b: s, k: k})
			m3, err := dec.Decode()
			if err == nil {
				// The streaming reader reports a missing run count one word
				// late, so a frame whose own words are all present may still be
				// delivered; it must then be the true message (nothing
				// invented) and the truncation must surface on the next Decode.
				b3, _ := m3.Marshal()
				_, err2 := dec.Decode()
				if !bytes.Equal(b3, plain) {
					r.Failf("packeddecoder-invents-bytes", "NewPackedDecoder built a message from a strict prefix (%d of %d bytes, chunk %d) that differs from the original: %s", n, len(pk), k, hx(b3))
				} else if err2 == nil || err2 == io.EOF {
					r.Failf("packeddecoder-hides-truncation", "packed stream cut inside %s (%d of %d bytes, chunk %d): message delivered and then err=%v", where, n, len(pk), k, err2)
				}
			} else if n > 0 && err == io.EOF {
				r.Failf("packeddecoder-eof-midframe", "NewPackedDecoder reports clean io.EOF for a stream cut inside a frame (%d of %d bytes, chunk %d)", n, len(pk), k)
			}
		}
	}
}

func main() {
	vlib.Main(vlib.Spec{
		ID:    "C13",
		Level: "exploration",
		Rule: "bounded-exhaustive enumeration: (i) payloads = all 256 zero/non-zero byte patterns of one word, all sequences of <=L words over 9 word classes, zero/literal runs of n in {1,2,253..258,509..514} words between every class pair, each with every proper prefix of its packed form; (ii) packed strings = all byte strings of length <=K over 0..255 and <=M over {00,01,02,03,0F,80,FE,FF}, bare and followed by a valid 19-byte tail (fast path); every case through Unpack, Reader.Read for 20 destination sizes x 8 source chunkings, ReadWord, and compared with ref.Pack/ref.Unpack. A case is non-trivial if it is a payload whose packed form was accepted by the spec decoder, or a packed string (distinct by construction) on which at least one decoder was compared with the reference verdict.",
		Assumptions: []string{
			"ref.Pack/ref.Unpack (written from encoding.html#packing) are the specification; they are self-checked (Unpack(Pack(x))==x) on every payload",
			"bufio.Reader fill behaviour: one underlying Read per fill, so source chunking decides the fast/slow path",
		},
		Families: func(tier string) []vlib.Family {
			L, K, M, Lpre := 5, 2, 4, 4
			if tier == "thorough" {
				L, K, M, Lpre = 6, 3, 6, 5
			}
			fams := []vlib.Family{
				{
					Name: "word256", N: 256 * 3,
					Run: func(i int64, r *vlib.Rec) {
						x := maskWord(int(i % 256))
						switch i / 256 {
						case 1:
							x = append(x, classWord(1, 3)...)
						case 2:
							x = append(classWord(0, 0), x...)
						}
						checkPayload(x, fullMatrix, true, r)
					},
					Describe: func(i int64) interface{} { return fmt.Sprintf("mask=%02x variant=%d", i%256, i/256) },
				},
				{
					Name: "seq", N: seqCount(L),
					Run: func(i int64, r *vlib.Rec) {
						d := seqDecode(i)
						m := fullMatrix
						if len(d) > 4 {
							m = cornerMatrix
						}
						checkPayload(seqPayload(d), m, len(d) <= Lpre, r)
					},
					Describe: func(i int64) interface{} { return fmt.Sprintf("word classes %v", seqDecode(i)) },
				},
				{
					Name: "runs", N: int64(3 * len(runLens) * nClasses * nClasses),
					Run: func(i int64, r *vlib.Rec) {
						x, _ := runPayload(i)
						checkPayload(x, cornerMatrix, false, r)
						// prefixes around the run boundaries only (the packed form is long)
						p := packed.Pack(nil, x)
						for _, n := range cutPoints(len(p)) {
							checkPacked(p[:n], cornerMatrix, r)
						}
					},
					Describe: func(i int64) interface{} { _, d := runPayload(i); return d },
				},
				{
					Name: "packed-full", N: strCount(256, K),
					Run: func(i int64, r *vlib.Rec) {
						s := strDecode(i, nil, 256)
						m := fullMatrix
						if len(s) >= 3 {
							m = cornerMatrix[:4]
						}
						r.NonTrivial()
						checkPacked(s, m, r)
						checkPacked(withTail(s), m, r)
					},
					Describe: func(i int64) interface{} { return hx(strDecode(i, nil, 256)) },
				},
				{
					Name: "packed-reduced", N: strCount(len(reduced), M),
					Run: func(i int64, r *vlib.Rec) {
						s := strDecode(i, reduced, len(reduced))
						m := fullMatrix
						if len(s) >= 6 {
							m = cornerMatrix
						}
						r.NonTrivial()
						checkPacked(s, m, r)
						checkPacked(withTail(s), m, r)
					},
					Describe: func(i int64) interface{} { return hx(strDecode(i, reduced, len(reduced))) },
				},
				{
					Name: "message", N: seqCount(3),
					Run:      msgCase,
					Describe: func(i int64) interface{} { return fmt.Sprintf("root struct data word classes %v", seqDecode(i)) },
				},
			}
			return fams
		},
	})
}

func maskWord(m int) []byte {
	w := make([]byte, 8)
	for i := 0; i < 8; i++ {
		if m&(1<<uint(i)) != 0 {
			w[i] = byte(i + 1)
		}
	}
	return w
}

func cutPoints(n int) []int {
	seen := map[int]bool{}
	var out []int
	add := func(k int) {
		if k >= 0 && k < n && !seen[k] {
			seen[k] = true
			out = append(out, k)
		}
	}
	for k := 0; k < 24; k++ {
		add(k)
		add(n - 1 - k)
	}
	// around the 255-word literal/zero run limits
	for _, c := range []int{255 * 8, 256 * 8, 2 * 255 * 8} {
		for d := -12; d <= 12; d++ {
			add(c + d)
		}
	}
	return out
}
