package bfsbuild

import (
	"time"

	"capnproto.org/go/capnp/v3/internal/verif/ref"
)

var allFields = []FieldSet{
	{W: 64, Off: 0, V: 0x1122334455667788},
	{W: 64, Off: -1, V: 0xFFFFFFFFFFFFFFFF},
	{W: 32, Off: 4, V: 0xA1B2C3D4},
	{W: 32, Off: -1, V: 0xA1B2C3D4},
	{W: 16, Off: 2, V: 0xB5C6},
	{W: 16, Off: -1, V: 0xB5C6},
	{W: 8, Off: 0, V: 0xE9},
	{W: 8, Off: 1, V: 0xE9},
	{W: 8, Off: -1, V: 0xE9},
	{W: 8, Off: 0, V: 0},
	{W: 1, Off: 0, V: 1},
	{W: 1, Off: -1, V: 1},
	{W: 1, Off: -1, V: 0},
	{W: 64, Off: 0, V: 0},
}

// FullMenu is the complete alphabet of DESIGN.md C04 (used at small depth).
func FullMenu() *Menus {
	m := &Menus{
		Name:       "full",
		Structs:    [][2]int{{0, 0}, {1, 0}, {0, 1}, {1, 1}, {2, 2}},
		Texts:      []int{0, 1, 7, 8, 9},
		Datas:      []int{0, 1, 7, 8, 9},
		Fields:     allFields,
		ElemSets:   true,
		SetTexts:   []int{0, 1, 7, 8},
		SetDatas:   []int{0, 1, 8, 9},
		SetStruct:  true,
		Variants:   true,
		Upgrade:    true,
		MaxHandles: 4,
		MaxCaps:    2,
	}
	for _, e := range []ref.Elem{ref.ElemVoid, ref.ElemBit, ref.ElemByte1, ref.ElemByte2, ref.ElemByte4, ref.ElemByte8, ref.ElemPtr} {
		for n := 0; n <= 3; n++ {
			m.Lists = append(m.Lists, ListSpec{Elem: e, N: n})
		}
	}
	m.Lists = append(m.Lists, ListSpec{Elem: ref.ElemBit, N: 9}, ListSpec{Elem: ref.ElemBit, N: 64}, ListSpec{Elem: ref.ElemBit, N: 65}, ListSpec{Elem: ref.ElemByte1, N: 9})
	for _, sz := range [][2]int{{0, 0}, {1, 0}, {0, 1}, {1, 1}, {2, 2}} {
		for n := 0; n <= 3; n++ {
			m.Lists = append(m.Lists, ListSpec{Elem: ref.ElemComposite, N: n, DW: sz[0], PC: sz[1]})
		}
	}
	return m
}

// MidMenu keeps one or two representatives of every object kind and every
// allocation size 0, 8, 16, 24, 32 bytes.
func MidMenu() *Menus {
	return &Menus{
		Name:    "mid",
		Structs: [][2]int{{0, 0}, {0, 1}, {1, 1}, {2, 2}},
		Lists: []ListSpec{
			{Elem: ref.ElemVoid, N: 2},
			{Elem: ref.ElemBit, N: 9},
			{Elem: ref.ElemByte2, N: 3},
			{Elem: ref.ElemByte8, N: 2},
			{Elem: ref.ElemPtr, N: 0},
			{Elem: ref.ElemPtr, N: 2},
			{Elem: ref.ElemComposite, N: 0, DW: 1, PC: 1},
			{Elem: ref.ElemComposite, N: 2, DW: 0, PC: 1},
			{Elem: ref.ElemComposite, N: 1, DW: 1, PC: 1},
			{Elem: ref.ElemComposite, N: 2, DW: 0, PC: 0},
		},
		Texts: []int{7, 8},
		Datas: []int{0},
		Fields: []FieldSet{
			{W: 64, Off: -1, V: 0x1122334455667788},
			{W: 8, Off: 0, V: 0xE9},
			{W: 1, Off: -1, V: 1},
		},
		ElemSets:   true,
		SetTexts:   []int{0, 8},
		SetDatas:   []int{1},
		SetStruct:  true,
		Upgrade:    true,
		MaxHandles: 3,
		MaxCaps:    1,
	}
}

// BigMenu has objects of more than 1 KiB, so that the growth policy of the
// standard arenas (nextAlloc: first 1 KiB, exact fit, 25% steps; SingleSegment
// re-allocation with copy; MultiSegment's next segment) is crossed several
// times while old handles stay in use.
func BigMenu() *Menus {
	return &Menus{
		Name:    "big",
		Structs: [][2]int{{1, 1}},
		Lists: []ListSpec{
			{Elem: ref.ElemByte8, N: 140},
			{Elem: ref.ElemPtr, N: 2},
		},
		Datas: []int{1100},
		Fields: []FieldSet{
			{W: 64, Off: 0, V: 0x1122334455667788},
		},
		ElemSets:   true,
		SetDatas:   []int{1016},
		MaxHandles: 4,
		MaxCaps:    0,
	}
}

// SlimMenu is the reduced alphabet for the deepest passes: allocation sizes
// 0, 8, 16 and 24 bytes, one data setter, every kind of pointer assignment.
func SlimMenu() *Menus {
	return &Menus{
		Name:    "slim",
		Structs: [][2]int{{0, 0}, {0, 1}, {1, 1}},
		Lists: []ListSpec{
			{Elem: ref.ElemByte1, N: 3},
			{Elem: ref.ElemPtr, N: 2},
			{Elem: ref.ElemComposite, N: 1, DW: 1, PC: 1},
		},
		Fields: []FieldSet{
			{W: 64, Off: 0, V: 0x1122334455667788},
		},
		ElemSets:   false,
		SetTexts:   []int{1},
		SetStruct:  true,
		MaxHandles: 3,
		MaxCaps:    1,
	}
}

// Plan is what one tier explores: for every configuration of Configs the
// listed passes.
type Plan struct {
	Configs []Config
	Passes  []Pass
	// BigConfigs / BigPass: the pass with > 1 KiB objects runs on the
	// standard arenas (and two TightArenas) only.
	BigConfigs []Config
	BigPass    Pass
}

func bigConfigs() []Config {
	var out []Config
	for _, c := range Configs(0, 0) {
		if c.Kind != "tight" || !c.PreferLast {
			out = append(out, c)
		}
	}
	return out
}

// PlanFor returns the exploration plan of a tier.
func PlanFor(tier string) Plan {
	if tier == "thorough" {
		return Plan{
			Configs: Configs(3, 2),
			Passes: []Pass{
				{Menus: FullMenu(), Depth: 2},
				{Menus: MidMenu(), Depth: 4, MaxStates: 400000, MaxTime: 240 * time.Second},
				{Menus: SlimMenu(), Depth: 6, MaxStates: 300000, MaxTime: 240 * time.Second},
			},
			BigConfigs: bigConfigs(),
			BigPass:    Pass{Menus: BigMenu(), Depth: 4, MaxStates: 400000, MaxTime: 240 * time.Second},
		}
	}
	return Plan{
		Configs: Configs(3, 1),
		Passes: []Pass{
			{Menus: FullMenu(), Depth: 2},
			{Menus: MidMenu(), Depth: 3, MaxStates: 200000, MaxTime: 300 * time.Second},
			{Menus: SlimMenu(), Depth: 4, MaxStates: 200000, MaxTime: 300 * time.Second},
		},
		BigConfigs: bigConfigs(),
		BigPass:    Pass{Menus: BigMenu(), Depth: 3, MaxStates: 200000, MaxTime: 300 * time.Second},
	}
}
