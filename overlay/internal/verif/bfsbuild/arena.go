// Package bfsbuild is the exploration shared by the C04 and C05 harnesses: an
// explicit-state breadth-first search over sequences of builder-API operations
// on a real capnp.Message, stepped in lock-step with a plain-Go model (a heap
// of objects with pointer slots), in a family of arena configurations.
//
//	arena.go    arena configurations, TightArena
//	model.go    the model heap, operations, menus, real+model application
//	explore.go  the BFS (state = op sequence, replay + one op, de-dup by key)
//	check.go    unfolding the model into ref.Value trees, reading handles back
package bfsbuild

import (
	"fmt"

	capnp "capnproto.org/go/capnp/v3"
)

// Config is one arena configuration.
type Config struct {
	Kind string `json:"kind"` // single-nil | single-cap | multi-nil | multi-cap | tight
	Cap  int    `json:"cap,omitempty"`
	// Seq are the capacities (bytes) of the first segments of a TightArena.
	Seq []int `json:"seq,omitempty"`
	// Tail says what a TightArena does behind Seq: "exact" = every further
	// segment has exactly the requested size (always full => double-far
	// pointers), "roomy" = 4096 bytes.
	Tail string `json:"tail,omitempty"`
	// PreferLast: New* calls pass the segment of the most recently created
	// object (like generated code, which passes the parent's segment) instead
	// of the first segment.
	PreferLast bool `json:"prefer_last,omitempty"`
}

func (c Config) String() string {
	s := c.Kind
	switch c.Kind {
	case "single-cap", "multi-cap":
		s += fmt.Sprintf("(%d)", c.Cap)
	case "tight":
		s += fmt.Sprintf("%v+%s", c.Seq, c.Tail)
	}
	if c.PreferLast {
		s += "/prefer-last"
	}
	return s
}

// Filled returns an empty slice with capacity c whose spare capacity holds
// 0xAA.  The Arena contract (message.go) promises nothing about the content
// of spare capacity; zero-filling is the job of alloc.
func Filled(c int) []byte {
	b := make([]byte, c)
	for i := range b {
		b[i] = 0xAA
	}
	return b[:0]
}

// NewArena builds the arena of a configuration.
func (c Config) NewArena() capnp.Arena {
	switch c.Kind {
	case "single-nil":
		return capnp.SingleSegment(nil)
	case "single-cap":
		return capnp.SingleSegment(Filled(c.Cap))
	case "multi-nil":
		return capnp.MultiSegment(nil)
	case "multi-cap":
		return capnp.MultiSegment([][]byte{Filled(c.Cap)})
	case "tight":
		return &TightArena{Seq: c.Seq, Tail: c.Tail}
	}
	panic("bfsbuild: unknown arena kind " + c.Kind)
}

// TightArena implements capnp.Arena with segments of small fixed capacity:
// segment i has capacity Seq[i] bytes (more if the request that creates it
// does not fit); behind Seq every segment is created with exactly the
// requested size (Tail "exact") or 4096 bytes (Tail "roomy").  Allocation is
// first-fit over the existing segments, like MultiSegment.  Spare capacity is
// pre-filled with 0xAA.
type TightArena struct {
	Seq  []int
	Tail string
	segs [][]byte
}

func (a *TightArena) NumSegments() int64 { return int64(len(a.segs)) }

func (a *TightArena) Data(id capnp.SegmentID) ([]byte, error) {
	if int64(id) >= int64(len(a.segs)) {
		return nil, fmt.Errorf("tight arena: segment %d of %d", id, len(a.segs))
	}
	return a.segs[id], nil
}

func (a *TightArena) Allocate(minsz capnp.Size, segs map[capnp.SegmentID]*capnp.Segment) (capnp.SegmentID, []byte, error) {
	need := (int(minsz) + 7) &^ 7
	for i, data := range a.segs {
		id := capnp.SegmentID(i)
		if s := segs[id]; s != nil {
			data = s.Data()
		}
		if cap(data)-len(data) >= need {
			return id, data, nil
		}
	}
	i := len(a.segs)
	c := need
	switch {
	case i < len(a.Seq):
		if a.Seq[i] > c {
			c = a.Seq[i]
		}
	case a.Tail == "roomy":
		if c < 4096 {
			c = 4096
		}
	}
	buf := Filled(c)
	a.segs = append(a.segs, buf)
	return capnp.SegmentID(i), buf, nil
}

func seqs(vals []int, maxLen int) [][]int {
	out := [][]int{{}}
	prev := [][]int{{}}
	for l := 1; l <= maxLen; l++ {
		var cur [][]int
		for _, p := range prev {
			for _, v := range vals {
				s := append(append([]int{}, p...), v)
				cur = append(cur, s)
			}
		}
		out = append(out, cur...)
		prev = cur
	}
	return out
}

// Configs returns the standard (non-tight) configurations followed by the
// TightArena configurations: every capacity sequence of length <= maxLen over
// {8,16,24,32} with tail "exact"; sequences of length <= 1 additionally with
// tail "roomy"; sequences of length <= preferLastLen additionally with
// PreferLast.
func Configs(maxLen, preferLastLen int) []Config {
	var out []Config
	out = append(out, Config{Kind: "single-nil"})
	for _, c := range []int{0, 8, 16, 24, 32} {
		out = append(out, Config{Kind: "single-cap", Cap: c})
	}
	out = append(out, Config{Kind: "multi-nil"})
	for _, c := range []int{8, 16, 24, 32} {
		out = append(out, Config{Kind: "multi-cap", Cap: c})
	}
	for _, c := range []int{8, 16, 24} {
		out = append(out, Config{Kind: "multi-cap", Cap: c, PreferLast: true})
	}
	// caller-supplied buffers whose capacity is not a whole number of words
	for _, c := range []int{12, 20, 33, 36, 39} {
		out = append(out, Config{Kind: "multi-cap", Cap: c})
	}
	for _, c := range []int{12, 20} {
		out = append(out, Config{Kind: "single-cap", Cap: c})
		out = append(out, Config{Kind: "multi-cap", Cap: c, PreferLast: true})
	}
	for _, s := range seqs([]int{8, 16, 24, 32}, maxLen) {
		out = append(out, Config{Kind: "tight", Seq: s, Tail: "exact"})
		if len(s) <= 1 {
			out = append(out, Config{Kind: "tight", Seq: s, Tail: "roomy"})
		}
		if len(s) <= preferLastLen {
			out = append(out, Config{Kind: "tight", Seq: s, Tail: "exact", PreferLast: true})
		}
	}
	return out
}
