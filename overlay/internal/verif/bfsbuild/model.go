package bfsbuild

import (
	"crypto/sha256"
	"encoding/binary"
	"fmt"
	"strings"

	capnp "capnproto.org/go/capnp/v3"
	"capnproto.org/go/capnp/v3/internal/verif/ref"
)

// ---- the model heap ----

// Slot is the content of a pointer slot of the model.
type Slot struct {
	K   uint8 // 0 null, 1 object, 2 capability
	Obj int
	Cap uint32
}

const (
	SlotNull = 0
	SlotObj  = 1
	SlotCap  = 2
)

// Obj is one allocated object of the model: a struct (DW data words, PC
// pointers) or a list (Elem, N; composite: DW/PC per element).
//
//	struct:          Data 8*DW bytes, Slots PC
//	bit list:        Data (N+7)/8 bytes
//	1/2/4/8 list:    Data N*size bytes
//	pointer list:    Slots N
//	composite list:  Data N*8*DW bytes, Slots N*PC (element-major)
type Obj struct {
	IsList    bool
	Elem      ref.Elem
	N, DW, PC int
	Data      []byte
	Slots     []Slot
	// Seg/Off: where the real object lives (objects with a handle only; -1
	// for the anonymous copies made by deep-copying operations).
	Seg, Off int64
}

func (o *Obj) bytes() int {
	if !o.IsList {
		return 8 * (o.DW + o.PC)
	}
	switch o.Elem {
	case ref.ElemVoid:
		return 0
	case ref.ElemPtr:
		return 8 * o.N
	case ref.ElemComposite:
		return 8 * o.N * (o.DW + o.PC) // without the tag word
	}
	return (len(o.Data) + 7) &^ 7
}

// Handle is a live reference to a real object plus its model object.
type Handle struct {
	Obj int
	P   capnp.Ptr
}

// AsPtrList as element index of a pointer target means: the composite list
// handle viewed as PointerList (list upgrade rule: slot I is the first pointer
// of element I).
const AsPtrList = -2

// Ref names a struct-like thing: handle H as a whole (E < 0) or element E of
// the list handle H.
type Ref struct{ H, E int }

// World is a real message plus its model.
type World struct {
	Cfg   Config
	Msg   *capnp.Message
	Seg0  *capnp.Segment
	H     []Handle
	Objs  []*Obj
	Root  Slot
	NCaps int
}

// NewWorld creates the message of a configuration.
func NewWorld(cfg Config) (*World, error) {
	msg, seg, err := capnp.NewMessage(cfg.NewArena())
	if err != nil {
		return nil, err
	}
	return &World{Cfg: cfg, Msg: msg, Seg0: seg}, nil
}

// ---- operations ----

const (
	OpNewStruct = iota
	OpNewList
	OpNewText
	OpNewData
	OpSetField
	OpSetElem
	OpSetPtr
	OpSetStruct
	OpSetText
	OpSetBytes
	OpSetRoot
)

var opNames = []string{"NewStruct", "NewList", "NewText", "NewData", "SetField", "SetElem", "SetPtr", "SetStruct", "SetText", "SetData", "SetRoot"}

const (
	SrcNull = iota
	SrcRef
	SrcNewCap
	SrcCap
)

// Op is one builder-API operation.
//
//	NewStruct  A=dw B=pc, C=1: NewRootStruct
//	NewList    A=elem code B=n, composite: C=dw D=pc
//	NewText    A=len            NewData A=len
//	SetField   target (H,E), A=width in bits (1,8,16,32,64), I=byte offset
//	           (bit offset for width 1), V=value
//	SetElem    list H, I=index, V=value (bit / 1,2,4,8-byte lists); on a
//	           composite list A=8|64: UInt8List/UInt64List view (first field)
//	SetPtr     target (H,E) slot I <- source; H a pointer list and E<0:
//	           PointerList.Set(I, source)
//	SetStruct  list H, index I <- source struct (SH,SE)
//	           E=AsPtrList: PointerList view of a composite list
//	SetText    like SetPtr, A=len: Struct.SetText / TextList.Set; struct
//	           targets: C=1 SetNewText, C=2 SetTextFromBytes
//	SetBytes   like SetPtr, A=len: Struct.SetData / DataList.Set
//	SetRoot    <- source
type Op struct {
	K          uint8
	H, E       int16
	I          int32
	SK         uint8
	SH, SE     int16
	A, B, C, D int16
	V          uint64
}

// OpInit is the pseudo operation "before" the initial state.
const OpInit = 255

func (o Op) Name() string {
	if o.K == OpInit {
		return "NewMessage"
	}
	return opNames[o.K]
}

func refStr(h, e int16) string {
	if e == AsPtrList {
		return fmt.Sprintf("PointerList(h%d)", h)
	}
	if e < 0 {
		return fmt.Sprintf("h%d", h)
	}
	return fmt.Sprintf("h%d[%d]", h, e)
}

func (o Op) srcStr() string {
	switch o.SK {
	case SrcNull:
		return "null"
	case SrcRef:
		return refStr(o.SH, o.SE)
	case SrcNewCap:
		return "AddCap()"
	}
	return fmt.Sprintf("cap%d", o.SH)
}

func (o Op) String() string {
	switch o.K {
	case OpNewStruct:
		if o.C == 1 {
			return fmt.Sprintf("NewRootStruct(%d/%d)", o.A, o.B)
		}
		return fmt.Sprintf("NewStruct(%d/%d)", o.A, o.B)
	case OpNewList:
		if ref.Elem(o.A) == ref.ElemComposite {
			return fmt.Sprintf("NewCompositeList(%d/%d, n=%d)", o.C, o.D, o.B)
		}
		return fmt.Sprintf("New%sList(n=%d)", [...]string{"Void", "Bit", "UInt8", "UInt16", "UInt32", "UInt64", "Pointer", "Composite"}[o.A&7], o.B)
	case OpNewText:
		return fmt.Sprintf("NewText(len %d)", o.A)
	case OpNewData:
		return fmt.Sprintf("NewData(len %d)", o.A)
	case OpSetField:
		if o.A == 1 {
			return fmt.Sprintf("%s.SetBit(%d, %v)", refStr(o.H, o.E), o.I, o.V != 0)
		}
		return fmt.Sprintf("%s.SetUint%d(%d, %#x)", refStr(o.H, o.E), o.A, o.I, o.V)
	case OpSetElem:
		if o.A != 0 {
			return fmt.Sprintf("UInt%dList(h%d).Set(%d, %#x)", o.A, o.H, o.I, o.V)
		}
		return fmt.Sprintf("h%d.Set(%d, %#x)", o.H, o.I, o.V)
	case OpSetPtr:
		return fmt.Sprintf("%s.SetPtr(%d, %s)", refStr(o.H, o.E), o.I, o.srcStr())
	case OpSetStruct:
		return fmt.Sprintf("h%d.SetStruct(%d, %s)", o.H, o.I, o.srcStr())
	case OpSetText:
		return fmt.Sprintf("%s.%s(%d, len %d)", refStr(o.H, o.E), [...]string{"SetText", "SetNewText", "SetTextFromBytes"}[o.C], o.I, o.A)
	case OpSetBytes:
		return fmt.Sprintf("%s.SetData(%d, len %d)", refStr(o.H, o.E), o.I, o.A)
	case OpSetRoot:
		return fmt.Sprintf("SetRoot(%s)", o.srcStr())
	}
	return "?"
}

// SeqString renders an operation sequence; handles are numbered h0, h1, ...
// in creation order.
func SeqString(seq []Op) string {
	var sb strings.Builder
	h := 0
	for i, o := range seq {
		if i > 0 {
			sb.WriteString("; ")
		}
		if o.K <= OpNewData {
			fmt.Fprintf(&sb, "h%d=", h)
			h++
		}
		sb.WriteString(o.String())
	}
	return sb.String()
}

// ---- menus ----

// ListSpec is one New*List menu entry.
type ListSpec struct {
	Elem   ref.Elem
	N      int
	DW, PC int
}

// FieldSet is one struct data-setter menu entry: width W bits at byte offset
// Off (negative: counted from the end of the data section, -1 = the last
// aligned position); for W == 1 Off selects the byte and the highest bit of
// it is used when Off < 0, the lowest otherwise.
type FieldSet struct {
	W   int
	Off int
	V   uint64
}

// Menus is the operation alphabet of one exploration pass.
type Menus struct {
	Name       string
	Structs    [][2]int
	Lists      []ListSpec
	Texts      []int
	Datas      []int
	Fields     []FieldSet
	ElemSets   bool  // setters of primitive list elements (first and last element)
	SetTexts   []int // Struct.SetText / TextList.Set lengths
	SetDatas   []int // Struct.SetData / DataList.Set lengths
	SetStruct  bool
	Variants   bool // NewRootStruct, SetNewText, SetTextFromBytes
	Upgrade    bool // PointerList / UInt8List / UInt64List views of composite lists
	MaxHandles int
	MaxCaps    int
}

func textOf(n int) string { return "abcdefghijklmnop"[:n] }

func dataOf(n int) []byte {
	b := make([]byte, n)
	for i := range b {
		b[i] = byte(0xD1 + i)
	}
	return b
}

// view is the model of a struct-like thing.
type view struct {
	data  []byte
	slots []Slot
	obj   int
	ok    bool
}

func (w *World) view(r Ref) view {
	o := w.Objs[w.H[r.H].Obj]
	id := w.H[r.H].Obj
	if r.E < 0 {
		if o.IsList {
			return view{}
		}
		return view{data: o.Data, slots: o.Slots, obj: id, ok: true}
	}
	if !o.IsList || o.Elem != ref.ElemComposite || r.E >= o.N {
		return view{}
	}
	return view{data: o.Data[r.E*8*o.DW : (r.E+1)*8*o.DW], slots: o.Slots[r.E*o.PC : (r.E+1)*o.PC], obj: id, ok: true}
}

// reach adds every object reachable from slots to set.
func (w *World) reach(slots []Slot, set map[int]bool) {
	for _, s := range slots {
		if s.K == SlotObj && !set[s.Obj] {
			set[s.Obj] = true
			w.reach(w.Objs[s.Obj].Slots, set)
		}
	}
}

// cyclic reports whether a cycle is reachable from slots.
func (w *World) cyclic(slots []Slot) bool {
	state := map[int]int{} // 1 on stack, 2 done
	var visit func(id int) bool
	visit = func(id int) bool {
		switch state[id] {
		case 1:
			return true
		case 2:
			return false
		}
		state[id] = 1
		for _, s := range w.Objs[id].Slots {
			if s.K == SlotObj && visit(s.Obj) {
				return true
			}
		}
		state[id] = 2
		return false
	}
	for _, s := range slots {
		if s.K == SlotObj && visit(s.Obj) {
			return true
		}
	}
	return false
}

// structRefs lists the struct-like things: struct handles and the elements of
// composite list handles.
func (w *World) structRefs() []Ref {
	var out []Ref
	for h := range w.H {
		o := w.Objs[w.H[h].Obj]
		switch {
		case !o.IsList:
			out = append(out, Ref{h, -1})
		case o.Elem == ref.ElemComposite:
			for e := 0; e < o.N; e++ {
				out = append(out, Ref{h, e})
			}
		}
	}
	return out
}

// sources lists the pointer sources: null, whole handles, composite list
// members, a new capability, existing capabilities.
func (w *World) sources(m *Menus) []Op {
	out := []Op{{SK: SrcNull}}
	for h := range w.H {
		out = append(out, Op{SK: SrcRef, SH: int16(h), SE: -1})
	}
	for h := range w.H {
		o := w.Objs[w.H[h].Obj]
		if o.IsList && o.Elem == ref.ElemComposite {
			for e := 0; e < o.N; e++ {
				out = append(out, Op{SK: SrcRef, SH: int16(h), SE: int16(e)})
			}
		}
	}
	for k := 0; k < w.NCaps; k++ {
		out = append(out, Op{SK: SrcCap, SH: int16(k)})
	}
	if w.NCaps < m.MaxCaps {
		out = append(out, Op{SK: SrcNewCap})
	}
	return out
}

// srcAllowed filters pointer sources: a deep copy (list member) must not walk
// a cycle; an aliasing assignment may close a cycle only as a self-reference
// (source object == the object holding the slot).
func (w *World) srcAllowed(src Op, targetObj int) bool {
	if src.SK != SrcRef {
		return true
	}
	if src.SE >= 0 {
		v := w.view(Ref{int(src.SH), int(src.SE)})
		return v.ok && !w.cyclic(v.slots)
	}
	y := w.H[src.SH].Obj
	if targetObj < 0 || y == targetObj {
		return true
	}
	set := map[int]bool{}
	w.reach(w.Objs[y].Slots, set)
	return !set[targetObj]
}

func fieldPos(f FieldSet, dataLen int) (off int, ok bool) {
	if f.W == 1 {
		by := f.Off
		if by < 0 {
			by = dataLen + f.Off
		}
		if by < 0 || by >= dataLen {
			return 0, false
		}
		if f.Off < 0 {
			return 8*by + 7, true
		}
		return 8 * by, true
	}
	n := f.W / 8
	off = f.Off
	if off < 0 {
		off = dataLen + (f.Off+1)*n - n
	}
	if off < 0 || off+n > dataLen || off%n != 0 {
		return 0, false
	}
	return off, true
}

// Menu enumerates the operations enabled in the current state, simplest
// first.
func (w *World) Menu(m *Menus) []Op {
	var out []Op
	if len(w.H) < m.MaxHandles {
		for _, s := range m.Structs {
			out = append(out, Op{K: OpNewStruct, A: int16(s[0]), B: int16(s[1])})
		}
		if m.Variants {
			for _, s := range m.Structs {
				out = append(out, Op{K: OpNewStruct, A: int16(s[0]), B: int16(s[1]), C: 1})
			}
		}
		for _, l := range m.Lists {
			out = append(out, Op{K: OpNewList, A: int16(l.Elem), B: int16(l.N), C: int16(l.DW), D: int16(l.PC)})
		}
		for _, n := range m.Texts {
			out = append(out, Op{K: OpNewText, A: int16(n)})
		}
		for _, n := range m.Datas {
			out = append(out, Op{K: OpNewData, A: int16(n)})
		}
	}
	srs := w.structRefs()
	for _, r := range srs {
		v := w.view(r)
		seen := map[[3]uint64]bool{}
		for _, f := range m.Fields {
			off, ok := fieldPos(f, len(v.data))
			if !ok || seen[[3]uint64{uint64(f.W), uint64(off), f.V}] {
				continue
			}
			seen[[3]uint64{uint64(f.W), uint64(off), f.V}] = true
			out = append(out, Op{K: OpSetField, H: int16(r.H), E: int16(r.E), A: int16(f.W), I: int32(off), V: f.V})
		}
	}
	if m.ElemSets {
		for h := range w.H {
			o := w.Objs[w.H[h].Obj]
			if !o.IsList || o.N == 0 {
				continue
			}
			var vals []uint64
			switch o.Elem {
			case ref.ElemBit:
				vals = []uint64{1, 0}
			case ref.ElemByte1:
				vals = []uint64{0xE7}
			case ref.ElemByte2:
				vals = []uint64{0xE7F8}
			case ref.ElemByte4:
				vals = []uint64{0xE7F8091A}
			case ref.ElemByte8:
				vals = []uint64{0xE7F8091A2B3C4D5E}
			case ref.ElemComposite:
				if !m.Upgrade || o.DW == 0 {
					continue
				}
				idx := []int{0}
				if o.N > 1 {
					idx = append(idx, o.N-1)
				}
				for _, i := range idx {
					out = append(out, Op{K: OpSetElem, H: int16(h), I: int32(i), A: 8, V: 0xE7})
					out = append(out, Op{K: OpSetElem, H: int16(h), I: int32(i), A: 64, V: 0xE7F8091A2B3C4D5E})
				}
				continue
			default:
				continue
			}
			idx := []int{0}
			if o.N > 1 {
				idx = append(idx, o.N-1)
			}
			for _, i := range idx {
				for _, v := range vals {
					out = append(out, Op{K: OpSetElem, H: int16(h), I: int32(i), V: v})
				}
			}
		}
	}
	// pointer slots: struct-like targets and pointer lists
	type ptarget struct {
		h, e  int
		slots int
		obj   int
	}
	var pts []ptarget
	for _, r := range srs {
		v := w.view(r)
		if len(v.slots) > 0 {
			pts = append(pts, ptarget{r.H, r.E, len(v.slots), v.obj})
		}
	}
	for h := range w.H {
		o := w.Objs[w.H[h].Obj]
		if o.IsList && o.Elem == ref.ElemPtr && o.N > 0 {
			pts = append(pts, ptarget{h, -1, o.N, w.H[h].Obj})
		}
		if m.Upgrade && o.IsList && o.Elem == ref.ElemComposite && o.PC > 0 && o.N > 0 {
			pts = append(pts, ptarget{h, AsPtrList, o.N, w.H[h].Obj})
		}
	}
	srcs := w.sources(m)
	for _, t := range pts {
		for i := 0; i < t.slots; i++ {
			for _, s := range srcs {
				if !w.srcAllowed(s, t.obj) {
					continue
				}
				op := s
				op.K, op.H, op.E, op.I = OpSetPtr, int16(t.h), int16(t.e), int32(i)
				out = append(out, op)
			}
			for _, n := range m.SetTexts {
				out = append(out, Op{K: OpSetText, H: int16(t.h), E: int16(t.e), I: int32(i), A: int16(n)})
				if m.Variants && !(t.e < 0 && w.Objs[t.obj].IsList) {
					out = append(out, Op{K: OpSetText, H: int16(t.h), E: int16(t.e), I: int32(i), A: int16(n), C: 1})
					out = append(out, Op{K: OpSetText, H: int16(t.h), E: int16(t.e), I: int32(i), A: int16(n), C: 2})
				}
			}
			for _, n := range m.SetDatas {
				out = append(out, Op{K: OpSetBytes, H: int16(t.h), E: int16(t.e), I: int32(i), A: int16(n)})
			}
		}
	}
	if m.SetStruct {
		for h := range w.H {
			o := w.Objs[w.H[h].Obj]
			if !o.IsList || o.Elem != ref.ElemComposite || o.N == 0 {
				continue
			}
			for i := 0; i < o.N; i++ {
				for _, r := range srs {
					v := w.view(r)
					if w.cyclic(v.slots) {
						continue
					}
					set := map[int]bool{}
					w.reach(v.slots, set)
					if set[w.H[h].Obj] {
						continue
					}
					out = append(out, Op{K: OpSetStruct, H: int16(h), I: int32(i), SK: SrcRef, SH: int16(r.H), SE: int16(r.E)})
				}
			}
		}
	}
	for _, s := range srcs {
		if !w.srcAllowed(s, -1) {
			continue
		}
		op := s
		op.K = OpSetRoot
		out = append(out, op)
	}
	return out
}

// ---- applying an operation to the real message and to the model ----

func (w *World) prefSeg() *capnp.Segment {
	if w.Cfg.PreferLast && len(w.H) > 0 {
		if s := w.H[len(w.H)-1].P.Segment(); s != nil {
			return s
		}
	}
	return w.Seg0
}

func (w *World) addHandle(p capnp.Ptr, o *Obj) {
	seg, off, ok := p.VerifAddr()
	if !ok {
		panic("bfsbuild: new object without address")
	}
	o.Seg, o.Off = int64(seg), int64(off)
	w.Objs = append(w.Objs, o)
	w.H = append(w.H, Handle{Obj: len(w.Objs) - 1, P: p})
}

func (w *World) anon(o *Obj) Slot {
	o.Seg, o.Off = -1, -1
	w.Objs = append(w.Objs, o)
	return Slot{K: SlotObj, Obj: len(w.Objs) - 1}
}

// deepCopy is the model of a deep copy inside one message: objects are
// duplicated, capabilities keep their index.
func (w *World) deepCopy(s Slot) Slot {
	if s.K != SlotObj {
		return s
	}
	src := w.Objs[s.Obj]
	c := &Obj{IsList: src.IsList, Elem: src.Elem, N: src.N, DW: src.DW, PC: src.PC}
	c.Data = append([]byte{}, src.Data...)
	c.Slots = make([]Slot, len(src.Slots))
	for i, x := range src.Slots {
		c.Slots[i] = w.deepCopy(x)
	}
	return w.anon(c)
}

// realPtr returns the real pointer of a source and the model slot an aliasing
// or copying pointer write of it produces.
func (w *World) source(op Op) (capnp.Ptr, Slot) {
	switch op.SK {
	case SrcNull:
		return capnp.Ptr{}, Slot{}
	case SrcNewCap:
		id := w.Msg.AddCap(nil)
		w.NCaps++
		return capnp.NewInterface(w.Seg0, id).ToPtr(), Slot{K: SlotCap, Cap: uint32(id)}
	case SrcCap:
		return capnp.NewInterface(w.Seg0, capnp.CapabilityID(op.SH)).ToPtr(), Slot{K: SlotCap, Cap: uint32(op.SH)}
	}
	h := w.H[op.SH]
	if op.SE < 0 {
		return h.P, Slot{K: SlotObj, Obj: h.Obj}
	}
	// list member: the write copies it into a new struct
	v := w.view(Ref{int(op.SH), int(op.SE)})
	o := w.Objs[h.Obj]
	c := &Obj{DW: o.DW, PC: o.PC, Data: append([]byte{}, v.data...), Slots: make([]Slot, len(v.slots))}
	for i, x := range v.slots {
		c.Slots[i] = w.deepCopy(x)
	}
	return h.P.List().Struct(int(op.SE)).ToPtr(), w.anon(c)
}

func (w *World) realStruct(r Ref) capnp.Struct {
	if r.E < 0 {
		return w.H[r.H].P.Struct()
	}
	return w.H[r.H].P.List().Struct(r.E)
}

// listSlot is the model slot behind index I of a list handle seen as pointer
// list (a pointer list, or a composite list under the upgrade rule).
func (w *World) listSlot(op Op) *Slot {
	o := w.Objs[w.H[op.H].Obj]
	if o.Elem == ref.ElemComposite {
		return &o.Slots[int(op.I)*o.PC]
	}
	return &o.Slots[op.I]
}

// slotOf returns the model slot and the real setter of pointer target
// (H,E) index I.
func (w *World) slotOf(op Op) (*Slot, func(capnp.Ptr) error) {
	o := w.Objs[w.H[op.H].Obj]
	if op.E < 0 && o.IsList {
		pl := capnp.PointerList{List: w.H[op.H].P.List()}
		return w.listSlot(op), func(p capnp.Ptr) error { return pl.Set(int(op.I), p) }
	}
	v := w.view(Ref{int(op.H), int(op.E)})
	st := w.realStruct(Ref{int(op.H), int(op.E)})
	return &v.slots[op.I], func(p capnp.Ptr) error { return st.SetPtr(uint16(op.I), p) }
}

// Apply performs op on the real message and on the model.
func (w *World) Apply(op Op) error {
	switch op.K {
	case OpNewStruct:
		sz := capnp.ObjectSize{DataSize: capnp.Size(8 * op.A), PointerCount: uint16(op.B)}
		var st capnp.Struct
		var err error
		if op.C == 1 {
			st, err = capnp.NewRootStruct(w.prefSeg(), sz)
		} else {
			st, err = capnp.NewStruct(w.prefSeg(), sz)
		}
		if err != nil {
			return err
		}
		w.addHandle(st.ToPtr(), &Obj{DW: int(op.A), PC: int(op.B), Data: make([]byte, 8*op.A), Slots: make([]Slot, op.B)})
		if op.C == 1 {
			w.Root = Slot{K: SlotObj, Obj: w.H[len(w.H)-1].Obj}
		}
	case OpNewList:
		e, n := ref.Elem(op.A), int32(op.B)
		o := &Obj{IsList: true, Elem: e, N: int(n)}
		var l capnp.List
		var err error
		seg := w.prefSeg()
		switch e {
		case ref.ElemVoid:
			l = capnp.NewVoidList(seg, n).List
		case ref.ElemBit:
			var x capnp.BitList
			x, err = capnp.NewBitList(seg, n)
			l, o.Data = x.List, make([]byte, (n+7)/8)
		case ref.ElemByte1:
			var x capnp.UInt8List
			x, err = capnp.NewUInt8List(seg, n)
			l, o.Data = x.List, make([]byte, n)
		case ref.ElemByte2:
			var x capnp.UInt16List
			x, err = capnp.NewUInt16List(seg, n)
			l, o.Data = x.List, make([]byte, 2*n)
		case ref.ElemByte4:
			var x capnp.UInt32List
			x, err = capnp.NewUInt32List(seg, n)
			l, o.Data = x.List, make([]byte, 4*n)
		case ref.ElemByte8:
			var x capnp.UInt64List
			x, err = capnp.NewUInt64List(seg, n)
			l, o.Data = x.List, make([]byte, 8*n)
		case ref.ElemPtr:
			var x capnp.PointerList
			x, err = capnp.NewPointerList(seg, n)
			l, o.Slots = x.List, make([]Slot, n)
		case ref.ElemComposite:
			o.DW, o.PC = int(op.C), int(op.D)
			l, err = capnp.NewCompositeList(seg, capnp.ObjectSize{DataSize: capnp.Size(8 * op.C), PointerCount: uint16(op.D)}, n)
			o.Data, o.Slots = make([]byte, int(n)*8*o.DW), make([]Slot, int(n)*o.PC)
		}
		if err != nil {
			return err
		}
		w.addHandle(l.ToPtr(), o)
	case OpNewText:
		s := textOf(int(op.A))
		l, err := capnp.NewText(w.prefSeg(), s)
		if err != nil {
			return err
		}
		w.addHandle(l.List.ToPtr(), &Obj{IsList: true, Elem: ref.ElemByte1, N: len(s) + 1, Data: append([]byte(s), 0)})
	case OpNewData:
		b := dataOf(int(op.A))
		l, err := capnp.NewData(w.prefSeg(), b)
		if err != nil {
			return err
		}
		w.addHandle(l.List.ToPtr(), &Obj{IsList: true, Elem: ref.ElemByte1, N: len(b), Data: b})
	case OpSetField:
		r := Ref{int(op.H), int(op.E)}
		st, v := w.realStruct(r), w.view(r)
		switch op.A {
		case 1:
			st.SetBit(capnp.BitOffset(op.I), op.V != 0)
			if op.V != 0 {
				v.data[op.I/8] |= 1 << uint(op.I%8)
			} else {
				v.data[op.I/8] &^= 1 << uint(op.I%8)
			}
		case 8:
			st.SetUint8(capnp.DataOffset(op.I), uint8(op.V))
			v.data[op.I] = uint8(op.V)
		case 16:
			st.SetUint16(capnp.DataOffset(op.I), uint16(op.V))
			binary.LittleEndian.PutUint16(v.data[op.I:], uint16(op.V))
		case 32:
			st.SetUint32(capnp.DataOffset(op.I), uint32(op.V))
			binary.LittleEndian.PutUint32(v.data[op.I:], uint32(op.V))
		case 64:
			st.SetUint64(capnp.DataOffset(op.I), op.V)
			binary.LittleEndian.PutUint64(v.data[op.I:], op.V)
		}
	case OpSetElem:
		o := w.Objs[w.H[op.H].Obj]
		l := w.H[op.H].P.List()
		i := int(op.I)
		switch o.Elem {
		case ref.ElemBit:
			capnp.BitList{List: l}.Set(i, op.V != 0)
			if op.V != 0 {
				o.Data[i/8] |= 1 << uint(i%8)
			} else {
				o.Data[i/8] &^= 1 << uint(i%8)
			}
		case ref.ElemByte1:
			capnp.UInt8List{List: l}.Set(i, uint8(op.V))
			o.Data[i] = uint8(op.V)
		case ref.ElemByte2:
			capnp.UInt16List{List: l}.Set(i, uint16(op.V))
			binary.LittleEndian.PutUint16(o.Data[2*i:], uint16(op.V))
		case ref.ElemByte4:
			capnp.UInt32List{List: l}.Set(i, uint32(op.V))
			binary.LittleEndian.PutUint32(o.Data[4*i:], uint32(op.V))
		case ref.ElemByte8:
			capnp.UInt64List{List: l}.Set(i, op.V)
			binary.LittleEndian.PutUint64(o.Data[8*i:], op.V)
		case ref.ElemComposite:
			if op.A == 8 {
				capnp.UInt8List{List: l}.Set(i, uint8(op.V))
				o.Data[i*8*o.DW] = uint8(op.V)
			} else {
				capnp.UInt64List{List: l}.Set(i, op.V)
				binary.LittleEndian.PutUint64(o.Data[i*8*o.DW:], op.V)
			}
		}
	case OpSetPtr:
		p, s := w.source(op)
		slot, set := w.slotOf(op)
		if err := set(p); err != nil {
			return err
		}
		*slot = s
	case OpSetStruct:
		o := w.Objs[w.H[op.H].Obj]
		src := Ref{int(op.SH), int(op.SE)}
		sv := w.view(src)
		if err := w.H[op.H].P.List().SetStruct(int(op.I), w.realStruct(src)); err != nil {
			return err
		}
		// the documented struct copy rule: data cut / zero-extended, pointers
		// cut / null-extended, kept pointers deep-copied
		i := int(op.I)
		dd := o.Data[i*8*o.DW : (i+1)*8*o.DW]
		n := copy(dd, sv.data)
		for k := n; k < len(dd); k++ {
			dd[k] = 0
		}
		ds := o.Slots[i*o.PC : (i+1)*o.PC]
		srcSlots := append([]Slot{}, sv.slots...)
		for k := range ds {
			if k < len(srcSlots) {
				ds[k] = w.deepCopy(srcSlots[k])
			} else {
				ds[k] = Slot{}
			}
		}
	case OpSetText, OpSetBytes:
		o := w.Objs[w.H[op.H].Obj]
		isList := op.E < 0 && o.IsList
		var slot *Slot
		if isList {
			slot = w.listSlot(op)
		} else {
			slot = &w.view(Ref{int(op.H), int(op.E)}).slots[op.I]
		}
		n := int(op.A)
		var err error
		var val Slot
		if op.K == OpSetText {
			s := textOf(n)
			if isList {
				err = capnp.TextList{List: w.H[op.H].P.List()}.Set(int(op.I), s)
			} else {
				st := w.realStruct(Ref{int(op.H), int(op.E)})
				switch op.C {
				case 0:
					err = st.SetText(uint16(op.I), s)
				case 1:
					err = st.SetNewText(uint16(op.I), s)
				case 2:
					err = st.SetTextFromBytes(uint16(op.I), []byte(s))
				}
			}
			// SetText / TextList.Set write the empty string as a null pointer;
			// SetNewText and SetTextFromBytes (non-nil slice) always allocate
			if n > 0 || op.C != 0 {
				val = w.anon(&Obj{IsList: true, Elem: ref.ElemByte1, N: n + 1, Data: append([]byte(s), 0)})
			}
		} else {
			b := dataOf(n)
			if isList {
				err = capnp.DataList{List: w.H[op.H].P.List()}.Set(int(op.I), b)
				if n > 0 { // DataList.Set writes empty data as null
					val = w.anon(&Obj{IsList: true, Elem: ref.ElemByte1, N: n, Data: b})
				}
			} else {
				// Struct.SetData writes null only for a nil slice
				err = w.realStruct(Ref{int(op.H), int(op.E)}).SetData(uint16(op.I), b)
				val = w.anon(&Obj{IsList: true, Elem: ref.ElemByte1, N: n, Data: b})
			}
		}
		if err != nil {
			return err
		}
		*slot = val
	case OpSetRoot:
		p, s := w.source(op)
		if err := w.Msg.SetRoot(p); err != nil {
			return err
		}
		w.Root = s
	}
	return nil
}

// ---- state key ----

// SegVector returns len/cap of every segment of the real message.
func (w *World) SegVector() [][2]int {
	n := w.Msg.NumSegments()
	out := make([][2]int, n)
	for i := int64(0); i < n; i++ {
		s, err := w.Msg.Segment(capnp.SegmentID(i))
		if err != nil {
			out[i] = [2]int{-1, -1}
			continue
		}
		out[i] = [2]int{len(s.Data()), cap(s.Data())}
	}
	return out
}

// Key is the canonical de-duplication key of the state: the model forest
// (handles in creation order with the location of their objects, anonymous
// objects numbered in traversal order, unreachable anonymous objects
// dropped), the root slot, the capability count and the per-segment len/cap
// vector.  Two states with equal keys differ only in dead bytes.
func (w *World) Key() [16]byte {
	var b []byte
	put := func(x int64) {
		var t [binary.MaxVarintLen64]byte
		b = append(b, t[:binary.PutVarint(t[:], x)]...)
	}
	num := map[int]int{}
	var order []int
	visit := func(id int) int {
		if n, ok := num[id]; ok {
			return n
		}
		num[id] = len(order)
		order = append(order, id)
		return len(order) - 1
	}
	for _, h := range w.H {
		visit(h.Obj)
	}
	putSlot := func(s Slot) {
		switch s.K {
		case SlotNull:
			put(0)
		case SlotCap:
			put(1)
			put(int64(s.Cap))
		default:
			put(2)
			put(int64(visit(s.Obj)))
		}
	}
	put(int64(len(w.H)))
	putSlot(w.Root)
	for k := 0; k < len(order); k++ {
		o := w.Objs[order[k]]
		if o.IsList {
			put(1)
		} else {
			put(0)
		}
		put(int64(o.Elem))
		put(int64(o.N))
		put(int64(o.DW))
		put(int64(o.PC))
		put(o.Seg)
		put(o.Off)
		put(int64(len(o.Data)))
		b = append(b, o.Data...)
		for _, s := range o.Slots {
			putSlot(s)
		}
	}
	put(int64(w.NCaps))
	for _, lc := range w.SegVector() {
		put(int64(lc[0]))
		put(int64(lc[1]))
	}
	sum := sha256.Sum256(b)
	var k [16]byte
	copy(k[:], sum[:16])
	return k
}
