package bfsbuild

import (
	"encoding/binary"
	"fmt"

	capnp "capnproto.org/go/capnp/v3"
	"capnproto.org/go/capnp/v3/internal/verif/rcmp"
	"capnproto.org/go/capnp/v3/internal/verif/ref"
)

// CutKind marks the place where the unfolding of a cyclic model graph was
// cut off (it is not a ref.Kind any ref function understands).
const CutKind ref.Kind = 200

// CutDepth is how deep cyclic graphs are unfolded and compared.
const CutDepth = 4

// Unfold turns a model slot into the value tree it denotes.  Acyclic graphs
// are unfolded completely (shared objects are duplicated); if a cycle is
// reachable the tree is cut at depth CutDepth with CutKind markers and cut is
// true.
func (w *World) Unfold(s Slot) (v ref.Value, cut bool) {
	limit := -1
	if w.cyclic([]Slot{s}) {
		limit, cut = CutDepth, true
	}
	return w.unfold(s, limit), cut
}

func (w *World) unfold(s Slot, limit int) ref.Value {
	switch s.K {
	case SlotNull:
		return ref.Value{}
	case SlotCap:
		return ref.CapV(s.Cap)
	}
	if limit == 0 {
		return ref.Value{Kind: CutKind}
	}
	o := w.Objs[s.Obj]
	sub := func(slots []Slot) []ref.Value {
		out := make([]ref.Value, len(slots))
		for i, x := range slots {
			out[i] = w.unfold(x, limit-1)
		}
		return out
	}
	if !o.IsList {
		return ref.Value{Kind: ref.KindStruct, Data: append([]byte{}, o.Data...), Ptrs: sub(o.Slots)}
	}
	v := ref.Value{Kind: ref.KindList, Elem: o.Elem, N: o.N}
	switch o.Elem {
	case ref.ElemVoid:
	case ref.ElemPtr:
		v.Elems = sub(o.Slots)
	case ref.ElemComposite:
		v.DW, v.PC = o.DW, o.PC
		if o.DW+o.PC > 0 {
			v.Elems = make([]ref.Value, o.N)
			for i := range v.Elems {
				v.Elems[i] = ref.Value{Kind: ref.KindStruct,
					Data: append([]byte{}, o.Data[i*8*o.DW:(i+1)*8*o.DW]...),
					Ptrs: sub(o.Slots[i*o.PC : (i+1)*o.PC])}
			}
		}
	default:
		v.Raw = append([]byte{}, o.Data...)
	}
	return v
}

// CompareCut compares what p reads as with a tree that may contain CutKind
// markers (nothing is read behind a marker).  It returns "" or a description
// of the first difference.
func CompareCut(p capnp.Ptr, err error, want ref.Value, path string) string {
	if want.Kind == CutKind {
		return ""
	}
	if err != nil {
		return fmt.Sprintf("%s: library error %v, want %s", path, err, want)
	}
	switch want.Kind {
	case ref.KindNull:
		if p.IsValid() {
			return path + ": non-null, want null"
		}
	case ref.KindCap:
		if !p.Interface().IsValid() || uint32(p.Interface().Capability()) != want.Cap {
			return fmt.Sprintf("%s: want capability %d", path, want.Cap)
		}
	case ref.KindStruct:
		s := p.Struct()
		if !s.IsValid() {
			return path + ": not a struct"
		}
		return compareCutStruct(s, want, path)
	case ref.KindList:
		l := p.List()
		if !l.IsValid() {
			return path + ": not a list"
		}
		if l.Len() != want.N {
			return fmt.Sprintf("%s: Len() %d, want %d", path, l.Len(), want.N)
		}
		for i := 0; i < want.N; i++ {
			ep := fmt.Sprintf("%s[%d]", path, i)
			switch want.Elem {
			case ref.ElemVoid:
			case ref.ElemBit:
				if (capnp.BitList{List: l}).At(i) != want.Bit(i) {
					return ep + ": bit differs"
				}
			case ref.ElemByte1:
				if (capnp.UInt8List{List: l}).At(i) != want.Raw[i] {
					return ep + ": byte differs"
				}
			case ref.ElemByte2:
				if (capnp.UInt16List{List: l}).At(i) != binary.LittleEndian.Uint16(want.Raw[2*i:]) {
					return ep + ": uint16 differs"
				}
			case ref.ElemByte4:
				if (capnp.UInt32List{List: l}).At(i) != binary.LittleEndian.Uint32(want.Raw[4*i:]) {
					return ep + ": uint32 differs"
				}
			case ref.ElemByte8:
				if (capnp.UInt64List{List: l}).At(i) != binary.LittleEndian.Uint64(want.Raw[8*i:]) {
					return ep + ": uint64 differs"
				}
			case ref.ElemPtr:
				q, err := (capnp.PointerList{List: l}).At(i)
				if d := CompareCut(q, err, want.Elems[i], ep); d != "" {
					return d
				}
			case ref.ElemComposite:
				if d := compareCutStruct(l.Struct(i), want.ElemAt(i), ep); d != "" {
					return d
				}
			}
		}
	}
	return ""
}

func compareCutStruct(s capnp.Struct, want ref.Value, path string) string {
	if sz := s.Size(); int(sz.DataSize) != len(want.Data) || int(sz.PointerCount) != len(want.Ptrs) {
		return fmt.Sprintf("%s: size %v, want %d bytes/%d pointers", path, sz, len(want.Data), len(want.Ptrs))
	}
	for off := 0; off < len(want.Data); off += 8 {
		if g, x := s.Uint64(capnp.DataOffset(off)), binary.LittleEndian.Uint64(want.Data[off:]); g != x {
			return fmt.Sprintf("%s: Uint64(%d) = %#x, want %#x", path, off, g, x)
		}
	}
	for i := range want.Ptrs {
		q, err := s.Ptr(uint16(i))
		if d := CompareCut(q, err, want.Ptrs[i], fmt.Sprintf("%s.p%d", path, i)); d != "" {
			return d
		}
	}
	return ""
}

// ReadBack compares every live handle and the root pointer of the real
// message with the model.  fail receives (key, detail); keys are the rcmp
// checker keys prefixed with "handle/" or "root/" ("…/cyclic" for the cut
// comparison of cyclic graphs).
func (w *World) ReadBack(sweep bool, fail0 func(key, detail string)) {
	// one defect shows through many accessors: report the first one only
	reported := false
	fail := func(key, detail string) {
		if !reported {
			reported = true
			fail0(key, detail)
		}
	}
	check := func(p capnp.Ptr, err error, s Slot, pfx, path string) {
		want, cut := w.Unfold(s)
		if cut {
			if d := CompareCut(p, err, want, path); d != "" {
				fail(pfx+"/cyclic", d+"\n model (cut) "+CutString(want))
			}
			return
		}
		ck := &rcmp.Checker{
			Fail:    func(key, detail string) { fail(pfx+"/"+key, detail+"\n model "+want.String()) },
			Sweep:   sweep,
			Context: "",
		}
		ck.Ptr(p, err, want, path)
	}
	for i, h := range w.H {
		check(h.P, nil, Slot{K: SlotObj, Obj: h.Obj}, "handle", fmt.Sprintf("h%d", i))
	}
	root, err := w.Msg.Root()
	check(root, err, w.Root, "root", "root")
}

// CutString renders a tree that may contain cut markers.
func CutString(v ref.Value) string {
	return stripCut(v).String() + " (pointers at nesting depth " + fmt.Sprint(CutDepth) + " not shown)"
}

func stripCut(v ref.Value) ref.Value {
	if v.Kind == CutKind {
		return ref.Value{}
	}
	c := v
	if v.Ptrs != nil {
		c.Ptrs = make([]ref.Value, len(v.Ptrs))
		for i := range v.Ptrs {
			c.Ptrs[i] = stripCut(v.Ptrs[i])
		}
	}
	if v.Elems != nil {
		c.Elems = make([]ref.Value, len(v.Elems))
		for i := range v.Elems {
			c.Elems[i] = stripCut(v.Elems[i])
		}
	}
	return c
}

// Segments returns the current content of every segment of the real message.
func (w *World) Segments() ([][]byte, error) {
	n := w.Msg.NumSegments()
	out := make([][]byte, n)
	for i := int64(0); i < n; i++ {
		s, err := w.Msg.Segment(capnp.SegmentID(i))
		if err != nil {
			return nil, err
		}
		out[i] = s.Data()
	}
	return out, nil
}

// Disjoint checks that the storage of the objects behind distinct handles is
// pairwise disjoint and inside its segment; it returns "" or a description.
func (w *World) Disjoint() string {
	type ext struct {
		seg, lo, hi int64
		h           int
	}
	var es []ext
	vec := w.SegVector()
	for i, h := range w.H {
		o := w.Objs[h.Obj]
		lo, n := o.Off, int64(o.bytes())
		if o.IsList && o.Elem == ref.ElemComposite {
			lo -= 8
			n += 8
		}
		if n == 0 {
			continue
		}
		if o.Seg < 0 || o.Seg >= int64(len(vec)) || lo < 0 || lo+n > int64(vec[o.Seg][0]) {
			return fmt.Sprintf("object h%d occupies bytes [%d,%d) of segment %d, outside the segment (len/cap vector %v)", i, lo, lo+n, o.Seg, vec)
		}
		if o.Seg == 0 && lo < 8 {
			return fmt.Sprintf("object h%d occupies bytes [%d,%d) of segment 0, overlapping the root pointer", i, lo, lo+n)
		}
		for _, e := range es {
			if e.seg == o.Seg && lo < e.hi && e.lo < lo+n {
				return fmt.Sprintf("objects h%d and h%d overlap: bytes [%d,%d) and [%d,%d) of segment %d", e.h, i, e.lo, e.hi, lo, lo+n, o.Seg)
			}
		}
		es = append(es, ext{o.Seg, lo, lo + n, i})
	}
	return ""
}
