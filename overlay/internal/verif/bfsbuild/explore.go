package bfsbuild

import (
	"fmt"
	"runtime/debug"
	"time"

	"capnproto.org/go/capnp/v3/internal/verif/vlib"
)

// Pass is one breadth-first exploration of a configuration.
type Pass struct {
	Menus     *Menus
	Depth     int
	MaxStates int           // 0 = unlimited; when hit the run is reported as capped
	MaxTime   time.Duration // 0 = unlimited; a resource cap, never an oracle
}

// Oracle is evaluated by the exploration.  Transition runs after EVERY
// explored operation (the state reached may have been seen before);
// NewState runs once per distinct state (after Transition passed).  fail
// records a violation; the state is then not expanded.
type Oracle struct {
	Transition func(w *World, last Op, fail func(key, detail string))
	NewState   func(w *World, fail func(key, detail string))
}

type node struct {
	parent int32
	op     Op
}

// Explore runs one pass on one configuration and adds states / transitions /
// traces to r.
func Explore(cfg Config, pass Pass, o Oracle, r *vlib.Rec) {
	start := time.Now()
	nodes := []node{{parent: -1}}
	seqOf := func(i int32) []Op {
		var rev []Op
		for i > 0 {
			rev = append(rev, nodes[i].op)
			i = nodes[i].parent
		}
		for a, b := 0, len(rev)-1; a < b; a, b = a+1, b-1 {
			rev[a], rev[b] = rev[b], rev[a]
		}
		return rev
	}
	ctx := func(seq []Op) string {
		return fmt.Sprintf("\n config %s, menu %s\n ops    %s", cfg, pass.Menus.Name, SeqString(seq))
	}
	replay := func(seq []Op) (*World, error) {
		w, err := NewWorld(cfg)
		if err != nil {
			return nil, fmt.Errorf("NewMessage: %v", err)
		}
		for i, op := range seq {
			if err := w.Apply(op); err != nil {
				return nil, fmt.Errorf("op %d (%s): %v", i, op, err)
			}
		}
		return w, nil
	}
	// step replays seq, applies op and evaluates the oracle; it returns the
	// world (nil if the state must not be expanded) and its key.
	seen := map[[16]byte]struct{}{}
	step := func(seq []Op, op *Op) (w *World, fresh bool) {
		failed := false
		full := seq
		if op != nil {
			full = append(append([]Op{}, seq...), *op)
		}
		fail := func(key, detail string) {
			failed = true
			r.Fail(key, detail+ctx(full))
		}
		defer func() {
			if p := recover(); p != nil {
				st := debug.Stack()
				if len(st) > 2500 {
					st = st[:2500]
				}
				r.Fail(vlib.PanicKey(p, st), fmt.Sprintf("panic: %v%s\n%s", p, ctx(full), st))
				w, fresh = nil, false
			}
		}()
		var err error
		w, err = replay(seq)
		if err != nil {
			// the prefix was applied without error when it was first explored
			r.Fail("harness/replay-not-deterministic", err.Error()+ctx(full))
			return nil, false
		}
		last := Op{K: OpInit}
		if op != nil {
			last = *op
			if err := w.Apply(*op); err != nil {
				// no arena of the configurations can run out of space and
				// every operation of the menu is legal in its state
				r.Fail("op-error/"+op.Name(), fmt.Sprintf("%s returns error %q", op, err)+ctx(full))
				return nil, false
			}
			r.Transitions++
			r.Traces++
		}
		if o.Transition != nil {
			o.Transition(w, last, fail)
		}
		if failed {
			return nil, false
		}
		k := w.Key()
		if _, dup := seen[k]; dup {
			return w, false
		}
		seen[k] = struct{}{}
		r.States++
		if o.NewState != nil {
			o.NewState(w, fail)
		}
		if failed {
			return nil, false
		}
		return w, true
	}

	if w, _ := step(nil, nil); w == nil {
		return
	}
	frontier := []int32{0}
	for d := 1; d <= pass.Depth && len(frontier) > 0; d++ {
		var next []int32
		for _, ni := range frontier {
			seq := seqOf(ni)
			w, err := replay(seq)
			if err != nil {
				r.Fail("harness/replay-not-deterministic", err.Error()+ctx(seq))
				continue
			}
			menu := w.Menu(pass.Menus)
			for k := range menu {
				if w2, fresh := step(seq, &menu[k]); w2 != nil && fresh && d < pass.Depth {
					nodes = append(nodes, node{parent: ni, op: menu[k]})
					next = append(next, int32(len(nodes)-1))
				}
			}
			if (pass.MaxStates > 0 && len(seen) > pass.MaxStates) || (pass.MaxTime > 0 && time.Since(start) > pass.MaxTime) {
				r.Capped = true
				r.Note(fmt.Sprintf("capped_at_depth_%d", d), 1)
				return
			}
		}
		r.Bound("depth_completed/"+pass.Menus.Name, int64(d))
		frontier = next
	}
}

// Families builds the vlib families of a tier: one family per pass, one case
// per arena configuration (that configuration's whole search for the pass).
func Families(tier string, mk func(r *vlib.Rec) Oracle) []vlib.Family {
	plan := PlanFor(tier)
	var fams []vlib.Family
	add := func(pass Pass, cfgs []Config) {
		fams = append(fams, vlib.Family{
			Name: fmt.Sprintf("%s-d%d", pass.Menus.Name, pass.Depth),
			N:    int64(len(cfgs)),
			Run: func(i int64, r *vlib.Rec) {
				before := r.States
				Explore(cfgs[i], pass, mk(r), r)
				if r.States-before > 1 {
					r.NonTrivial()
				}
			},
			Describe: func(i int64) interface{} {
				return map[string]interface{}{"config": cfgs[i].String(), "menu": pass.Menus.Name, "depth": pass.Depth}
			},
		})
	}
	for _, pass := range plan.Passes {
		add(pass, plan.Configs)
	}
	add(plan.BigPass, plan.BigConfigs)
	return fams
}

// PlanSummary describes the plan of a tier for the evidence file.
func PlanSummary(tier string) map[string]interface{} {
	plan := PlanFor(tier)
	var passes []string
	for _, p := range plan.Passes {
		passes = append(passes, fmt.Sprintf("%s menu to depth %d on %d configurations", p.Menus.Name, p.Depth, len(plan.Configs)))
	}
	passes = append(passes, fmt.Sprintf("%s menu to depth %d on %d configurations", plan.BigPass.Menus.Name, plan.BigPass.Depth, len(plan.BigConfigs)))
	return map[string]interface{}{"arena_configurations": len(plan.Configs), "passes": passes}
}
