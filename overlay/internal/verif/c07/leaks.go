// Family "fault-leaks": no capability reference created by the library is
// dropped without being released, on any single-fault path.
//
// The other families count Shutdown calls on instrumented local capabilities
// and Release messages on the wire; a *Client the Conn creates for itself (the
// promised bootstrap client, pipelined clients, import clients) and then
// forgets on an error path is visible to neither.  capnp.SetClientLeakFunc is
// the library's own observation point for exactly that (C07 observe_at).
//
// For each scenario every placement of at most one (thorough: two) transport faults (NewMessage
// error, send error, receive error / EOF) is run under the scheduler (default
// schedule otherwise); after the execution has ended and the harness has
// dropped everything it holds, the heap is collected twice (two sentinel
// finalizers bracket the collections) and every leak report whose client was
// created inside the library (not by the harness) is a violation.
//
// Detection relies on the garbage collector finding the forgotten client,
// which it does deterministically here (nothing references it); the oracle can
// only miss, never invent, a leak.
package main

import (
	"fmt"
	"runtime"
	"runtime/debug"
	"sort"
	"strings"
	"sync"
	"time"

	capnp "capnproto.org/go/capnp/v3"
	"capnproto.org/go/capnp/v3/internal/verif/rpcsim"
	"capnproto.org/go/capnp/v3/internal/verif/vlib"
	"capnproto.org/go/capnp/v3/internal/vsched"
	context "capnproto.org/go/capnp/v3/internal/vsched/vctx"
	rpccp "capnproto.org/go/capnp/v3/std/capnp/rpc"
)

var (
	leakMu   sync.Mutex
	leakMsgs []string
	leakOnce sync.Once
)

func leakInit() {
	leakOnce.Do(func() {
		capnp.SetClientLeakFunc(func(msg string) {
			leakMu.Lock()
			leakMsgs = append(leakMsgs, msg)
			leakMu.Unlock()
		})
	})
}

// collectLeaks runs two garbage collections, waits until the finalizers queued
// by them have run, and returns the leak reports received.
func collectLeaks() []string {
	for round := 0; round < 2; round++ {
		ran := make(chan struct{})
		s := new([64]byte)
		runtime.SetFinalizer(s, func(*[64]byte) { close(ran) })
		s = nil
		for i := 0; ; i++ {
			runtime.GC()
			select {
			case <-ran:
			case <-time.After(50 * time.Millisecond):
				if i < 100 {
					continue
				}
			}
			break
		}
	}
	// the reports are delivered by goroutines started from the finalizers
	last := -1
	for i := 0; i < 50; i++ {
		runtime.Gosched()
		time.Sleep(2 * time.Millisecond)
		leakMu.Lock()
		n := len(leakMsgs)
		leakMu.Unlock()
		if n == last && i >= 3 {
			break
		}
		last = n
	}
	leakMu.Lock()
	out := leakMsgs
	leakMsgs = nil
	leakMu.Unlock()
	return out
}

type lscenario struct {
	name string
	boot bool
	peer func(x *lexec)
	app  func(x *lexec)
}

type lexec struct {
	s        *rpcsim.Sim
	p        *rpcsim.Peer
	giveUp   bool
	peerDone bool
	mainDone bool
}

func (x *lexec) waitReturn(q uint32) bool {
	found := func() bool {
		for _, m := range x.s.T.Wire {
			if m.ToPeer && m.Msg.IsValid() && m.Msg.Which() == rpccp.Message_Which_return {
				if r, err := m.Msg.Return(); err == nil && r.AnswerId() == q {
					return true
				}
			}
		}
		return false
	}
	vsched.WaitUntil(fmt.Sprintf("return%d", q), func() bool { return found() || x.s.T.Closed || x.giveUp })
	return found()
}

func lresponder(x *lexec) {
	for {
		m, ok := x.p.Next(func() bool { return x.giveUp })
		if !ok {
			return
		}
		switch m.Msg.Which() {
		case rpccp.Message_Which_bootstrap:
			b, _ := m.Msg.Bootstrap()
			x.p.ReturnBootstrap(b.QuestionId(), rpcsim.CapD{Kind: 's', ID: 0})
		case rpccp.Message_Which_call:
			c, _ := m.Msg.Call()
			pl, _ := c.Params()
			id := -1
			if cnt, err := pl.Content(); err == nil && cnt.Struct().IsValid() {
				id = int(cnt.Struct().Uint32(0))
			}
			if id == 600 {
				// results carry a capability hosted by the peer
				x.p.ReturnResults(c.QuestionId(), id, []rpcsim.CapD{{Kind: 's', ID: 5}}, false)
				continue
			}
			x.p.ReturnResults(c.QuestionId(), id, nil, false)
		}
	}
}

func lsend(id uint32) capnp.Send {
	return capnp.Send{Method: capnp.Method{InterfaceID: rpcsim.IfaceID, MethodID: rpcsim.MethodEcho}, ArgsSize: capnp.ObjectSize{DataSize: 8, PointerCount: 1},
		PlaceArgs: func(a capnp.Struct) error { a.SetUint32(0, id); return nil }}
}

func lscenarios() []lscenario {
	bg := context.Background()
	return []lscenario{
		{name: "app: Bootstrap, one call, release", peer: lresponder, app: func(x *lexec) {
			bc := x.s.Conn.Bootstrap(bg)
			ans, rel := bc.SendCall(bg, lsend(500))
			ans.Struct()
			rel()
			bc.Release()
		}},
		{name: "app: Bootstrap twice, release both", peer: lresponder, app: func(x *lexec) {
			b1 := x.s.Conn.Bootstrap(bg)
			b2 := x.s.Conn.Bootstrap(bg)
			b1.Resolve(bg)
			b2.Resolve(bg)
			b1.Release()
			b2.Release()
		}},
		{name: "app: call returning a capability, call on it, release", peer: lresponder, app: func(x *lexec) {
			bc := x.s.Conn.Bootstrap(bg)
			ans, rel := bc.SendCall(bg, lsend(600))
			if st, err := ans.Struct(); err == nil {
				if ptr, err := st.Ptr(0); err == nil {
					c := ptr.Interface().Client()
					a2, rel2 := c.SendCall(bg, lsend(501))
					a2.Struct()
					rel2()
				}
			}
			rel()
			bc.Release()
		}},
		{name: "app: pipelined call on an unreturned answer, release", peer: lresponder, app: func(x *lexec) {
			bc := x.s.Conn.Bootstrap(bg)
			a1, r1 := bc.SendCall(bg, lsend(600))
			a2, r2 := a1.PipelineSend(bg, []capnp.PipelineOp{{Field: 0}}, lsend(501))
			a1.Struct()
			a2.Struct()
			r2()
			r1()
			bc.Release()
		}},
		{name: "app: call passing a local capability, release", peer: lresponder, app: func(x *lexec) {
			bc := x.s.Conn.Bootstrap(bg)
			local := x.s.W.NewCap("param")
			sd := lsend(502)
			sd.PlaceArgs = func(a capnp.Struct) error {
				a.SetUint32(0, 502)
				id := a.Message().AddCap(local.AddRef())
				return a.SetPtr(0, capnp.NewInterface(a.Segment(), id).ToPtr())
			}
			ans, rel := bc.SendCall(bg, sd)
			ans.Struct()
			rel()
			local.Release()
			bc.Release()
		}},
		{name: "peer: Bootstrap, call returning a capability, Finish, Release", boot: true, peer: func(x *lexec) {
			x.s.W.Mode[1] = rpcsim.ModeCap
			x.s.W.OpenAll = true
			x.p.Bootstrap(0)
			if !x.waitReturn(0) {
				return
			}
			x.p.Call(1, rpcsim.Target{ID: 0}, 1, []rpcsim.CapD{{Kind: 's', ID: 7}})
			if !x.waitReturn(1) {
				return
			}
			x.p.Finish(1, false)
			x.p.Finish(0, false)
		}},
	}
}

func runLeak(sc lscenario, x *lexec) {
	x.s = rpcsim.New(rpcsim.FaultPlan{NewMessage: true, Send: true, Recv: true}, sc.boot)
	x.p = x.s.NewPeer()
	vsched.GoNamed("peer", func() { sc.peer(x); x.peerDone = true })
	if sc.app != nil {
		sc.app(x)
	}
	vsched.WaitQuiescent()
	x.giveUp = true
	x.s.W.OpenAll = true
	vsched.WaitUntil("peer", func() bool { return x.peerDone })
	x.s.Conn.Close()
	x.mainDone = true
}

func leaksFamily(name string, maxFaults int) vlib.Family {
	scs := lscenarios()
	// one deviation = one fault, one preemption or one non-default thread choice
	cfg := vsched.Config{MaxPreempt: 1, MaxFree: 1, MaxDev: maxFaults, MaxTotal: maxFaults, MaxSteps: 30000}
	return vlib.Family{Name: name, N: int64(len(scs)),
		Describe: func(i int64) interface{} { return scs[i].name },
		Run: func(i int64, r *vlib.Rec) {
			leakInit()
			// no collection while an execution is running: a finalizer must
			// not start its reporting goroutine under the scheduler
			defer debug.SetGCPercent(debug.SetGCPercent(-1))
			collectLeaks() // whatever earlier cases of this process left behind
			sc := scs[i]
			var x *lexec
			body := func() { x = &lexec{}; runLeak(sc, x) }
			outcomes := map[string]bool{}
			st, f := vsched.Explore(cfg, body, func(vr *vsched.Result) string {
				faults := strings.Join(x.s.T.FaultsTaken, ",")
				wire := x.s.T.WireString()
				key, msg := common(x.s, x.mainDone, vr)
				x = nil
				leaks := collectLeaks()
				if key != "" {
					return key + "\x00" + msg
				}
				var lib []string
				for _, l := range leaks {
					if !strings.Contains(l, "/internal/verif/") {
						lib = append(lib, l)
					}
				}
				if len(lib) > 0 {
					sort.Strings(lib)
					return "client-leak/" + norm(leakSite(lib[0])) + "\x00" + fmt.Sprintf("after the scenario (faults taken: [%s]) ended with Conn.Close and every reference held by the application released, %d client(s) created by the library were garbage-collected unreleased: %s\nwire: %s", faults, len(lib), strings.Join(lib, " | "), wire)
				}
				outcomes[faults] = true
				return ""
			})
			r.States += int64(len(st.Configs))
			r.Transitions += st.Steps
			r.Traces += st.Execs
			r.Note("executions", st.Execs)
			if st.Capped {
				r.Capped = true
			}
			for o := range outcomes {
				r.Outcome("faults:" + o)
			}
			r.NonTrivial()
			if f != nil {
				if f.Engine {
					r.Failf("ENGINE:"+f.Msg, "%s", f.Msg)
					return
				}
				parts := strings.SplitN(f.Msg, "\x00", 2)
				r.Failf(parts[0], "scenario %s\n%s\nchoices %v", sc.name, parts[1], f.Choices)
			}
		}}
}

// leakSite extracts "file:line" (base name) from a leak report.
func leakSite(msg string) string {
	i := strings.LastIndex(msg, " on ")
	if i < 0 {
		return msg
	}
	s := msg[i+4:]
	if j := strings.LastIndex(s, "/"); j >= 0 {
		s = s[j+1:]
	}
	if j := strings.Index(s, ":"); j >= 0 {
		return msg[:i] + " in " + s[:j]
	}
	return msg[:i] + " in " + s
}
