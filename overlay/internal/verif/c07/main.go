// C07 — RPC capability references are counted exactly; nothing leaks or double-frees.
//
// Engine E2 on the real rpc.Conn over rpcsim's transport.  Family "exports":
// every well-formed peer script of <= L steps over {Bootstrap, call returning a
// new capability, call returning the bootstrap capability again, Finish with
// either releaseResultCaps, Release(e,n) for every n the peer may give back};
// a reference-count model is stepped from the wire log and compared with the
// Conn's export table and with the Shutdown events of the application
// capabilities.  Family "imports": application threads bootstrap (the same
// remote capability arrives 1-3 times), AddRef and Release concurrently (the
// generation race); the Release messages on the wire must account exactly for
// the references received.  Family "params": a local capability sent as a call
// parameter, with the peer's Return.releaseParamCaps true or false.
package main

import (
	"fmt"
	"sort"
	"strings"
	"time"

	capnp "capnproto.org/go/capnp/v3"
	"capnproto.org/go/capnp/v3/internal/verif/rpcsim"
	"capnproto.org/go/capnp/v3/internal/verif/vlib"
	"capnproto.org/go/capnp/v3/internal/vsched"
	context "capnproto.org/go/capnp/v3/internal/vsched/vctx"
	rpccp "capnproto.org/go/capnp/v3/std/capnp/rpc"
)

// ---------------------------------------------------------------- exports

type estep struct {
	kind byte // 'B' bootstrap, 'C' call->new cap, 'S' call->bootstrap cap again, 'F' finish, 'R' release
	q    int
	rel  bool
	e    int // 'R': k-th distinct export the peer knows (in order of first appearance)
	n    int // 'R': count
}

type escript []estep

func (s escript) String() string {
	var p []string
	for _, st := range s {
		switch st.kind {
		case 'B':
			p = append(p, fmt.Sprintf("Bootstrap(q%d)", st.q))
		case 'C':
			p = append(p, fmt.Sprintf("Call(q%d)->newcap", st.q))
		case 'S':
			p = append(p, fmt.Sprintf("Call(q%d)->bootcap", st.q))
		case 'F':
			p = append(p, fmt.Sprintf("Finish(q%d,rel=%v)", st.q, st.rel))
		case 'R':
			p = append(p, fmt.Sprintf("Release(export#%d,n=%d)", st.e, st.n))
		}
	}
	return strings.Join(p, " ; ")
}

// The generator tracks what a correct peer knows: references per export (in
// order of first appearance: export#0 is the bootstrap capability, export#k
// the k-th new capability) and which caps each unfinished question returned.
type egen struct {
	refs   []int
	qcaps  map[int]int // question -> export# its Return carried
	nq     int
	hasB   bool
	finish map[int]bool
}

func (g egen) clone() egen {
	n := egen{refs: append([]int{}, g.refs...), qcaps: map[int]int{}, nq: g.nq, hasB: g.hasB, finish: map[int]bool{}}
	for k, v := range g.qcaps {
		n.qcaps[k] = v
	}
	for k, v := range g.finish {
		n.finish[k] = v
	}
	return n
}

func escripts(maxLen int) []escript {
	var out []escript
	var rec func(cur escript, g egen)
	rec = func(cur escript, g egen) {
		if len(cur) > 0 {
			out = append(out, append(escript{}, cur...))
		}
		if len(cur) == maxLen {
			return
		}
		// Bootstrap
		{
			n := g.clone()
			if len(n.refs) == 0 {
				n.refs = append(n.refs, 0)
			}
			n.refs[0]++
			n.qcaps[n.nq] = 0
			n.hasB = true
			q := n.nq
			n.nq++
			rec(append(append(escript{}, cur...), estep{kind: 'B', q: q}), n)
		}
		if g.hasB && len(g.refs) > 0 && g.refs[0] > 0 {
			// call returning a new capability
			n := g.clone()
			n.refs = append(n.refs, 1)
			n.qcaps[n.nq] = len(n.refs) - 1
			q := n.nq
			n.nq++
			rec(append(append(escript{}, cur...), estep{kind: 'C', q: q}), n)
			// call returning the bootstrap capability again
			n = g.clone()
			n.refs[0]++
			n.qcaps[n.nq] = 0
			q = n.nq
			n.nq++
			rec(append(append(escript{}, cur...), estep{kind: 'S', q: q}), n)
		}
		for q := 0; q < g.nq; q++ {
			if g.finish[q] {
				continue
			}
			for _, rel := range []bool{false, true} {
				if rel && g.refs[g.qcaps[q]] < 1 {
					continue // the peer already gave that reference back with Release
				}
				n := g.clone()
				n.finish[q] = true
				if rel {
					n.refs[n.qcaps[q]]--
				}
				rec(append(append(escript{}, cur...), estep{kind: 'F', q: q, rel: rel}), n)
			}
		}
		for e, r := range g.refs {
			for k := 1; k <= r; k++ {
				n := g.clone()
				n.refs[e] -= k
				rec(append(append(escript{}, cur...), estep{kind: 'R', e: e, n: k}), n)
			}
		}
	}
	rec(nil, egen{qcaps: map[int]int{}, finish: map[int]bool{}})
	return out
}

type eout struct {
	sim      *rpcsim.Sim
	mainDone bool
	preClose string // problems found before Close
	snapPre  map[uint32]uint32
	model    map[uint32]int
}

func capsOfReturn(r rpccp.Return) []uint32 {
	var ids []uint32
	if r.Which() != rpccp.Return_Which_results {
		return nil
	}
	pl, err := r.Results()
	if err != nil {
		return nil
	}
	l, err := pl.CapTable()
	if err != nil {
		return nil
	}
	for i := 0; i < l.Len(); i++ {
		if l.At(i).Which() == rpccp.CapDescriptor_Which_senderHosted {
			ids = append(ids, l.At(i).SenderHosted())
		}
	}
	return ids
}

func runExports(sc escript, out *eout) {
	s := rpcsim.New(rpcsim.FaultPlan{}, true)
	out.sim = s
	p := s.NewPeer()
	peerDone := false
	for _, st := range sc {
		switch st.kind {
		case 'C':
			s.W.Mode[100+st.q] = rpcsim.ModeCap
		case 'S':
			s.W.Mode[100+st.q] = rpcsim.ModeSelfCap
		}
	}
	s.W.OpenAll = true
	vsched.GoNamed("peer", func() {
		defer func() { peerDone = true }()
		var known []uint32 // export ids in order of first appearance
		retCaps := map[int][]uint32{}
		see := func(q int) bool {
			r, ok := p.WaitReturn(uint32(q))
			if !ok {
				return false
			}
			ids := capsOfReturn(r)
			retCaps[q] = ids
			for _, id := range ids {
				f := false
				for _, k := range known {
					if k == id {
						f = true
					}
				}
				if !f {
					known = append(known, id)
				}
			}
			return true
		}
		for _, st := range sc {
			switch st.kind {
			case 'B':
				p.Bootstrap(uint32(st.q))
				if !see(st.q) {
					return
				}
			case 'C', 'S':
				p.Call(uint32(st.q), rpcsim.Target{ID: known[0]}, 100+st.q, nil)
				if !see(st.q) {
					return
				}
			case 'F':
				p.Finish(uint32(st.q), st.rel)
			case 'R':
				if st.e < len(known) {
					p.Release(known[st.e], uint32(st.n))
				}
			}
		}
	})
	vsched.WaitUntil("peer done", func() bool { return peerDone })
	vsched.WaitQuiescent()
	// model from the wire
	model := map[uint32]int{}
	owner := map[uint32]uint32{} // export id -> question whose Return first carried its current occupant
	retOf := map[uint32][]uint32{}
	for _, m := range s.T.Wire {
		if !m.Msg.IsValid() {
			continue
		}
		if m.ToPeer && m.Msg.Which() == rpccp.Message_Which_return {
			r, _ := m.Msg.Return()
			ids := capsOfReturn(r)
			retOf[r.AnswerId()] = ids
			for _, id := range ids {
				if model[id] == 0 {
					owner[id] = r.AnswerId() // export ids are reused once free
				}
				model[id]++
			}
		}
		if !m.ToPeer {
			switch m.Msg.Which() {
			case rpccp.Message_Which_release:
				r, _ := m.Msg.Release()
				model[r.Id()] -= int(r.ReferenceCount())
			case rpccp.Message_Which_finish:
				f, _ := m.Msg.Finish()
				if f.ReleaseResultCaps() {
					for _, id := range retOf[f.QuestionId()] {
						model[id]--
					}
				}
			}
		}
	}
	out.model = model
	sn := s.Conn.VerifSnapshot()
	out.snapPre = sn.Exports
	for id, n := range model {
		if n < 0 {
			out.preClose = fmt.Sprintf("harness: model count for export %d negative (%d)", id, n)
		}
		if uint32(n) != sn.Exports[id] {
			out.preClose = fmt.Sprintf("export %d: the peer holds %d reference(s) by the wire log, the Conn's export table says %d", id, n, sn.Exports[id])
		}
	}
	for id, n := range sn.Exports {
		if model[id] != int(n) {
			out.preClose = fmt.Sprintf("export %d: the Conn's export table says %d reference(s), the wire log %d", id, n, model[id])
		}
	}
	// application capabilities: a child capability is released exactly when
	// its export is gone and the answer that returned it is finished
	finished := map[int]bool{}
	for _, st := range sc {
		if st.kind == 'F' {
			finished[st.q] = true
		}
	}
	for _, st := range sc {
		if st.kind != 'C' {
			continue
		}
		name := fmt.Sprintf("child%d", 100+st.q)
		ids := retOf[uint32(st.q)]
		held := !finished[st.q]
		for _, id := range ids {
			if model[id] > 0 && owner[id] == uint32(st.q) {
				held = true
			}
		}
		n := s.W.ShutCnt[name]
		if held && n != 0 {
			out.preClose = fmt.Sprintf("capability %s was shut down although the peer still holds it (export refs %v, question finished=%v)", name, model, finished[st.q])
		}
		if !held && n != 1 {
			out.preClose = fmt.Sprintf("capability %s: peer released every reference and finished the question, Shutdown ran %d times (want 1)", name, n)
		}
	}
	if s.W.ShutCnt["boot"] != 0 {
		out.preClose = "bootstrap capability shut down before Close"
	}
	s.Conn.Close()
	out.mainDone = true
}

func common(sim *rpcsim.Sim, mainDone bool, vr *vsched.Result) (string, string) {
	wire := ""
	if sim != nil {
		wire = sim.T.WireString()
	}
	if len(vr.Panics) > 0 {
		first := strings.SplitN(vr.Panics[0], "\n", 2)[0]
		return "panic/" + norm(first), "panic in a controlled goroutine: " + vr.Panics[0] + "\nwire: " + wire
	}
	if vr.Livelock {
		return "livelock", "step limit reached\nwire: " + wire
	}
	if vr.Deadlocked() {
		return "deadlock/" + blockedSig(vr.Blocked), "threads blocked forever: " + strings.Join(vr.Blocked, " | ") + "\nwire: " + wire
	}
	if !mainDone {
		return "incomplete", "scenario did not run to completion\nwire: " + wire
	}
	if len(sim.T.Contract) > 0 {
		return "transport-contract/" + norm(sim.T.Contract[0]), strings.Join(sim.T.Contract, "; ") + "\nwire: " + wire
	}
	return "", ""
}

func judgeExports(sc escript, out *eout, vr *vsched.Result) (string, string) {
	if k, m := common(out.sim, out.mainDone, vr); k != "" {
		return k, m
	}
	wire := out.sim.T.WireString()
	for _, m := range out.sim.T.Wire {
		if m.ToPeer && m.Msg.IsValid() && m.Msg.Which() == rpccp.Message_Which_abort {
			e, _ := m.Msg.Abort()
			rs, _ := e.Reason()
			if rs != "connection closed" {
				return "abort-on-valid-traffic", "the Conn aborted: " + rs + "\nwire: " + wire
			}
		}
	}
	if out.preClose != "" {
		key := "export-count"
		switch {
		case strings.Contains(out.preClose, "shut down although"):
			key = "early-release"
		case strings.Contains(out.preClose, "Shutdown ran"):
			key = "leak-or-double-release"
		case strings.Contains(out.preClose, "before Close"):
			key = "bootstrap-early-release"
		}
		return key, out.preClose + "\nwire: " + wire + "\nexports before Close: " + fmt.Sprint(out.snapPre) + " model: " + fmt.Sprint(out.model)
	}
	// after Close every capability the connection held is released exactly once
	names := []string{"boot"}
	for _, st := range sc {
		if st.kind == 'C' {
			names = append(names, fmt.Sprintf("child%d", 100+st.q))
		}
	}
	for _, n := range names {
		if out.sim.W.ShutCnt[n] != 1 {
			return "after-close-shutdown-count", fmt.Sprintf("after Close capability %s was shut down %d times (want exactly 1)\nwire: %s\nevents: %v", n, out.sim.W.ShutCnt[n], wire, out.sim.W.Ev)
		}
	}
	return "", ""
}

// ---------------------------------------------------------------- imports

const (
	iBoot = iota // c = Conn.Bootstrap()
	iAddRef
	iRelease // release the newest handle of this thread
	iCall    // call through the newest handle
	nIOps
)

var iNames = []string{"Bootstrap", "AddRef", "Release", "Call"}

type iprog [][]int

func (p iprog) String() string {
	var parts []string
	for _, th := range p {
		var s []string
		for _, o := range th {
			s = append(s, iNames[o])
		}
		parts = append(parts, "["+strings.Join(s, "; ")+"]")
	}
	return strings.Join(parts, " || ")
}

func iseqs(maxLen int) [][]int {
	var out [][]int
	var rec func(cur []int, handles int)
	rec = func(cur []int, handles int) {
		if len(cur) > 0 {
			out = append(out, append([]int{}, cur...))
		}
		if len(cur) == maxLen {
			return
		}
		for o := 0; o < nIOps; o++ {
			h := handles
			switch o {
			case iBoot:
				h++
			case iAddRef:
				if handles == 0 {
					continue
				}
				h++
			case iRelease:
				if handles == 0 {
					continue
				}
				h--
			case iCall:
				if handles == 0 {
					continue
				}
			}
			rec(append(cur, o), h)
		}
	}
	rec(nil, 0)
	return out
}

func iprogs(threads, maxLen int) []iprog {
	ss := iseqs(maxLen)
	var out []iprog
	var rec func(cur iprog, from int)
	rec = func(cur iprog, from int) {
		if len(cur) == threads {
			out = append(out, append(iprog{}, cur...))
			return
		}
		for i := from; i < len(ss); i++ {
			rec(append(cur, ss[i]), i)
		}
	}
	rec(nil, 0)
	return out
}

type iout struct {
	sim      *rpcsim.Sim
	mainDone bool
	results  []string
}

func runImports(pr iprog, out *iout) {
	s := rpcsim.New(rpcsim.FaultPlan{}, false)
	out.sim = s
	p := s.NewPeer()
	appDone := false
	vsched.GoNamed("peer", func() {
		for {
			m, ok := p.Next(func() bool { return appDone })
			if !ok {
				return
			}
			switch m.Msg.Which() {
			case rpccp.Message_Which_bootstrap:
				b, _ := m.Msg.Bootstrap()
				p.ReturnBootstrap(b.QuestionId(), rpcsim.CapD{Kind: 's', ID: 0})
			case rpccp.Message_Which_call:
				c, _ := m.Msg.Call()
				pl, _ := c.Params()
				cnt, _ := pl.Content()
				p.ReturnResults(c.QuestionId(), int(cnt.Struct().Uint32(0)), nil, false)
			}
		}
	})
	done := 0
	body := func(ti int) {
		ctx := context.Background()
		var hs []*capnp.Client
		for pi, o := range pr[ti] {
			switch o {
			case iBoot:
				c := s.Conn.Bootstrap(ctx)
				// wait for resolution so that the handle refers to the import
				c.Resolve(ctx)
				hs = append(hs, c)
			case iAddRef:
				hs = append(hs, hs[len(hs)-1].AddRef())
			case iRelease:
				hs[len(hs)-1].Release()
				hs = hs[:len(hs)-1]
			case iCall:
				id := uint32(600 + ti*10 + pi)
				ans, rel := hs[len(hs)-1].SendCall(ctx, capnp.Send{Method: capnp.Method{InterfaceID: rpcsim.IfaceID, MethodID: rpcsim.MethodEcho}, ArgsSize: capnp.ObjectSize{DataSize: 8},
					PlaceArgs: func(a capnp.Struct) error { a.SetUint32(0, id); return nil }})
				st, err := ans.Struct()
				if err != nil {
					out.results = append(out.results, fmt.Sprintf("call%d:err:%v", id, err))
				} else if st.Uint32(0) != id {
					out.results = append(out.results, fmt.Sprintf("call%d:wrong", id))
				} else {
					out.results = append(out.results, fmt.Sprintf("call%d:ok", id))
				}
				rel()
			}
		}
		// epilogue of the thread: drop what it still holds
		for i := len(hs) - 1; i >= 0; i-- {
			hs[i].Release()
		}
		done++
	}
	for ti := 1; ti < len(pr); ti++ {
		ti := ti
		vsched.GoNamed(fmt.Sprintf("T%d", ti), func() { body(ti) })
	}
	body(0)
	vsched.WaitUntil("threads", func() bool { return done == len(pr) })
	vsched.WaitQuiescent()
	appDone = true
	sn := s.Conn.VerifSnapshot()
	if len(sn.Imports) != 0 {
		out.results = append(out.results, fmt.Sprintf("IMPORTS-LEFT:%v", sn.Imports))
	}
	s.Conn.Close()
	out.mainDone = true
}

func judgeImports(pr iprog, out *iout, vr *vsched.Result) (string, string) {
	if k, m := common(out.sim, out.mainDone, vr); k != "" {
		return k, m
	}
	wire := out.sim.T.WireString()
	received, released := 0, 0
	for _, m := range out.sim.T.Wire {
		if !m.Msg.IsValid() {
			continue
		}
		if !m.ToPeer && m.Msg.Which() == rpccp.Message_Which_return {
			r, _ := m.Msg.Return()
			for _, id := range capsOfReturn(r) {
				if id == 0 {
					received++
				}
			}
		}
		if m.ToPeer && m.Msg.Which() == rpccp.Message_Which_release {
			r, _ := m.Msg.Release()
			if r.Id() != 0 {
				return "release-unknown-import", fmt.Sprintf("Release for import %d which was never received\nwire: %s", r.Id(), wire)
			}
			if r.ReferenceCount() == 0 {
				return "release-zero", "Release with reference count 0\nwire: " + wire
			}
			released += int(r.ReferenceCount())
			if released > received {
				return "over-release", fmt.Sprintf("Release messages give back %d reference(s) to import 0 but only %d were received so far\nwire: %s", released, received, wire)
			}
		}
	}
	for _, r := range out.results {
		if strings.HasPrefix(r, "IMPORTS-LEFT") {
			return "import-entry-leak", "all local references released but the import table is not empty: " + r + "\nwire: " + wire
		}
		if strings.Contains(r, ":err:") || strings.Contains(r, ":wrong") {
			return "call-through-import", "a call through a live imported client failed: " + r + "\nwire: " + wire
		}
	}
	if released != received {
		return "import-ref-leak", fmt.Sprintf("all local references released: %d reference(s) to import 0 received, %d given back in Release messages\nwire: %s", received, released, wire)
	}
	return "", ""
}

// ---------------------------------------------------------------- params

type pcase struct {
	relParam bool // Return.releaseParamCaps
	explicit bool // peer sends Release(e,1) itself
	nCalls   int  // the same local capability is sent in this many calls
}

func (c pcase) String() string {
	return fmt.Sprintf("calls=%d Return.releaseParamCaps=%v explicitRelease=%v", c.nCalls, c.relParam, c.explicit)
}

type pout struct {
	sim      *rpcsim.Sim
	mainDone bool
	problems []string
}

func runParams(pc pcase, out *pout) {
	s := rpcsim.New(rpcsim.FaultPlan{}, false)
	out.sim = s
	p := s.NewPeer()
	appDone := false
	vsched.GoNamed("peer", func() {
		for {
			m, ok := p.Next(func() bool { return appDone })
			if !ok {
				return
			}
			switch m.Msg.Which() {
			case rpccp.Message_Which_bootstrap:
				b, _ := m.Msg.Bootstrap()
				p.ReturnBootstrap(b.QuestionId(), rpcsim.CapD{Kind: 's', ID: 0})
			case rpccp.Message_Which_call:
				c, _ := m.Msg.Call()
				pl, _ := c.Params()
				cnt, _ := pl.Content()
				var exps []uint32
				if l, err := pl.CapTable(); err == nil {
					for i := 0; i < l.Len(); i++ {
						if l.At(i).Which() == rpccp.CapDescriptor_Which_senderHosted {
							exps = append(exps, l.At(i).SenderHosted())
						}
					}
				}
				p.ReturnResults(c.QuestionId(), int(cnt.Struct().Uint32(0)), nil, pc.relParam)
				if pc.explicit {
					for _, e := range exps {
						p.Release(e, 1)
					}
				}
			}
		}
	})
	ctx := context.Background()
	local := s.W.NewCap("local")
	bc := s.Conn.Bootstrap(ctx)
	for i := 0; i < pc.nCalls; i++ {
		id := uint32(700 + i)
		ans, rel := bc.SendCall(ctx, capnp.Send{Method: capnp.Method{InterfaceID: rpcsim.IfaceID, MethodID: rpcsim.MethodEcho}, ArgsSize: capnp.ObjectSize{DataSize: 8, PointerCount: 1},
			PlaceArgs: func(a capnp.Struct) error {
				a.SetUint32(0, id)
				cid := a.Message().AddCap(local.AddRef())
				return a.SetPtr(0, capnp.NewInterface(a.Segment(), cid).ToPtr())
			}})
		if _, err := ans.Struct(); err != nil {
			out.problems = append(out.problems, "call failed: "+err.Error())
		}
		rel()
	}
	bc.Release()
	local.Release() // the application's own reference
	vsched.WaitQuiescent()
	appDone = true
	sn := s.Conn.VerifSnapshot()
	want := 0
	if !pc.relParam && !pc.explicit {
		want = pc.nCalls
	}
	got := 0
	for _, n := range sn.Exports {
		got += int(n)
	}
	if got != want {
		out.problems = append(out.problems, fmt.Sprintf("EXPORT-REFS want=%d got=%d", want, got))
	}
	if want == 0 && s.W.ShutCnt["local"] != 1 {
		out.problems = append(out.problems, fmt.Sprintf("LOCAL-SHUT=%d", s.W.ShutCnt["local"]))
	}
	s.Conn.Close()
	if s.W.ShutCnt["local"] != 1 {
		out.problems = append(out.problems, fmt.Sprintf("LOCAL-SHUT-AFTER-CLOSE=%d", s.W.ShutCnt["local"]))
	}
	out.mainDone = true
}

func judgeParams(pc pcase, out *pout, vr *vsched.Result) (string, string) {
	if k, m := common(out.sim, out.mainDone, vr); k != "" {
		return k, m
	}
	wire := out.sim.T.WireString()
	for _, pr := range out.problems {
		switch {
		case strings.HasPrefix(pr, "EXPORT-REFS") && pc.relParam && !pc.explicit:
			return "release-param-caps-ignored", "Return.releaseParamCaps=true did not release the parameter capability's export reference: " + pr + "\nwire: " + wire
		case strings.HasPrefix(pr, "EXPORT-REFS"):
			return "param-export-count", pr + "\nwire: " + wire
		case strings.HasPrefix(pr, "LOCAL-SHUT-AFTER-CLOSE"):
			return "param-cap-after-close", "after Close the parameter capability's Shutdown count is wrong: " + pr + "\nwire: " + wire
		case strings.HasPrefix(pr, "LOCAL-SHUT") && pc.relParam && !pc.explicit:
			return "release-param-caps-ignored", "parameter capability not released after Return.releaseParamCaps=true: " + pr + "\nwire: " + wire
		case strings.HasPrefix(pr, "LOCAL-SHUT"):
			return "param-cap-release", pr + "\nwire: " + wire
		default:
			return "param-call", pr + "\nwire: " + wire
		}
	}
	return "", ""
}

// ---------------------------------------------------------------- shared

func norm(s string) string {
	var b strings.Builder
	for _, r := range s {
		switch {
		case r >= '0' && r <= '9':
			b.WriteByte('N')
		case r == ' ' || r == ':' || r == '/':
			b.WriteByte('_')
		default:
			b.WriteRune(r)
		}
	}
	x := b.String()
	if len(x) > 70 {
		x = x[:70]
	}
	return x
}

func blockedSig(bl []string) string {
	var parts []string
	for _, b := range bl {
		i := strings.Index(b, ": ")
		name, op := b[:i], b[i+2:]
		if j := strings.Index(name, "#"); j >= 0 {
			name = name[:j]
		}
		parts = append(parts, name+":"+op)
	}
	sort.Strings(parts)
	return norm(strings.Join(parts, "|"))
}

func explore(r *vlib.Rec, cfg vsched.Config, desc string, body func(), judge func(vr *vsched.Result) (string, string), oc func() string) {
	outcomes := map[string]bool{}
	knownSeen := map[string]bool{}
	st, f := vsched.Explore(cfg, body, func(vr *vsched.Result) string {
		key, msg := judge(vr)
		if key != "" && vlib.KnownOpen("C07", key) {
			if !knownSeen[key] {
				knownSeen[key] = true
				r.Failf(key, "scenario %s\n%s", desc, msg)
			}
			return ""
		}
		if key != "" {
			return key + "\x00" + msg
		}
		outcomes[oc()] = true
		return ""
	})
	r.States += int64(len(st.Configs))
	r.Transitions += st.Steps
	r.Traces += st.Execs
	r.Note("executions", st.Execs)
	if st.Capped {
		r.Capped = true
	}
	for o := range outcomes {
		r.Outcome(o)
	}
	r.NonTrivial()
	if f != nil {
		if f.Engine {
			r.Failf("ENGINE:"+f.Msg, "%s", f.Msg)
			return
		}
		parts := strings.SplitN(f.Msg, "\x00", 2)
		rr := vsched.Replay(f.Choices, cfg.MaxSteps, body)
		r.Failf(parts[0], "scenario %s\n%s\nchoices %v\n%s", desc, parts[1], f.Choices, rr.Describe())
	}
}

func wireKinds(sim *rpcsim.Sim) string {
	var k []string
	for _, m := range sim.T.Wire {
		if m.Msg.IsValid() {
			k = append(k, rpcsim.Describe(m))
		}
	}
	return strings.Join(k, ",")
}

func main() {
	vlib.Main(vlib.Spec{
		ID:          "C07",
		Level:       "model_checking",
		CaseTimeout: 30 * time.Minute,
		Rule:        "exports: all well-formed peer scripts of <= L steps over {Bootstrap, call returning a new capability, call returning the bootstrap capability again, Finish(releaseResultCaps f|t), Release(e,n) for every n <= references held}; imports: all programs of 1-2 application threads x <= 3 ops over {Bootstrap, AddRef, Release, Call} (the same remote capability arriving up to 3 times while other references are dropped); params: the same local capability sent in 1-2 calls x Return.releaseParamCaps x explicit Release; fault-leaks: 6 scenarios (Conn as caller: bootstrap / call / capability result / pipelined call / capability parameter; peer as caller) x every placement of at most one (thorough: two) transport faults, then Close, two garbage collections and capnp.SetClientLeakFunc: no client created inside the library may be collected unreleased. For each scenario every schedule of the real rpc/server/capnp code inside the bounds; oracle = reference-count model (DESIGN appendix A.4) stepped from the wire log, compared with the Conn's export/import tables (hook) and with the Shutdown events of the recording capabilities, before and after Close. states = distinct scheduling configurations summed over scenarios; transitions = scheduling steps; traces = executions on the implementation.",
		Assumptions: []string{
			"scheduling points at every sync operation are sufficient (data-race freedom checked separately); timers never fire",
		},
		Families: func(tier string) []vlib.Family {
			mk := func(name string, n int, desc func(i int64) string, run func(i int64, r *vlib.Rec)) vlib.Family {
				return vlib.Family{Name: name, N: int64(n), Describe: func(i int64) interface{} { return desc(i) }, Run: run}
			}
			L, cfgE, cfgI := 3, vsched.Config{MaxPreempt: 1, MaxFree: 1, MaxTotal: 1, MaxSteps: 30000}, vsched.Config{MaxPreempt: 1, MaxFree: 1, MaxTotal: 1, MaxSteps: 30000}
			ip := append(iprogs(1, 3), iprogs(2, 2)...)
			leakName, leakFaults := "fault-leaks<=1", 1
			if tier == "thorough" {
				leakName, leakFaults = "fault-leaks<=2", 2
				L = 4
				cfgI = vsched.Config{MaxPreempt: 2, MaxFree: 2, MaxTotal: 2, MaxSteps: 30000, MaxExecs: 200000}
				ip = append(iprogs(1, 4), iprogs(2, 3)...)
			}
			es := escripts(L)
			ip21 := iprogs(2, 1)
			cfg21 := vsched.Config{MaxPreempt: 2, MaxFree: 2, MaxTotal: 2, MaxSteps: 30000}
			var pcs []pcase
			for _, n := range []int{1, 2} {
				for _, rp := range []bool{false, true} {
					for _, ex := range []bool{false, true} {
						if rp && ex {
							continue // releasing twice is not well-formed
						}
						pcs = append(pcs, pcase{rp, ex, n})
					}
				}
			}
			return []vlib.Family{
				mk("exports", len(es), func(i int64) string { return es[i].String() }, func(i int64, r *vlib.Rec) {
					var out *eout
					explore(r, cfgE, es[i].String(), func() { out = &eout{}; runExports(es[i], out) },
						func(vr *vsched.Result) (string, string) { return judgeExports(es[i], out, vr) },
						func() string { return wireKinds(out.sim) })
				}),
				mk("imports", len(ip), func(i int64) string { return ip[i].String() }, func(i int64, r *vlib.Rec) {
					var out *iout
					explore(r, cfgI, ip[i].String(), func() { out = &iout{}; runImports(ip[i], out) },
						func(vr *vsched.Result) (string, string) { return judgeImports(ip[i], out, vr) },
						func() string { return wireKinds(out.sim) })
				}),
				mk("imports-2x1,dev2", len(ip21), func(i int64) string { return ip21[i].String() }, func(i int64, r *vlib.Rec) {
					var out *iout
					explore(r, cfg21, ip21[i].String(), func() { out = &iout{}; runImports(ip21[i], out) },
						func(vr *vsched.Result) (string, string) { return judgeImports(ip21[i], out, vr) },
						func() string { return wireKinds(out.sim) })
				}),
				mk("params", len(pcs), func(i int64) string { return pcs[i].String() }, func(i int64, r *vlib.Rec) {
					var out *pout
					explore(r, cfgE, pcs[i].String(), func() { out = &pout{}; runParams(pcs[i], out) },
						func(vr *vsched.Result) (string, string) { return judgeParams(pcs[i], out, vr) },
						func() string { return wireKinds(out.sim) })
				}),
				leaksFamily(leakName, leakFaults),
			}
		},
	})
}
